(* Semantic facts about the capture model over the reference semantics Base/Eval.v.

   [sem_engine]: on the fragment [fragr], resolving called lambdas with an arbitrary stack of argument maps
   preserves values, provided the environments are related by the stack ([Rr]).  Hygiene is part of the
   fragment's index: a binder that *stays* in the tree (the lambda argument of a method call, a comprehension
   target) is allowed only while every argument in flight is a constant ([cl = true]): at top level, under any
   staying binders, and inside the bodies of lambdas called with constant arguments ([FCallLamC]).  Inside the
   body of a lambda inlined with non-constant arguments ([cl = false]) no staying binder occurs - there the
   implementation's bail-out test (FC4, [overlaps .. (inner_binders b)]) is shown never to fire.  Bodies with
   staying binders and non-constant arguments (where FC4 decides) are covered by correspondence and oracle; a
   proof needs the coincidence lemma of the semantics. *)
From FA.Base Require Import PyAst Induct Value Eval Traverse.
From FA.Model Require Import Capture.
From FA.Proofs Require Import TraverseFacts Refine CaptureProofs.

Inductive fragr : bool -> expr -> Prop :=
 | FName cl x : fragr cl (Name x)
 | FConst cl c : fragr cl (Const c)
 | FAttr cl v a : fragr cl v -> fragr cl (Attr v a)
 | FUnary cl o x : fragr cl x -> fragr cl (UnaryOp o x)
 | FBin cl o l r : fragr cl l -> fragr cl r -> fragr cl (BinOp o l r)
 | FIf cl c t f : fragr cl c -> fragr cl t -> fragr cl f -> fragr cl (IfExp c t f)
 | FSub cl v s : fragr cl v -> fragr cl s -> fragr cl (Subscript v s)
 | FTuple cl es : fragrs cl es -> fragr cl (Tuple es)
 | FList cl es : fragrs cl es -> fragr cl (List es)
 | FMeth0 cl s m : fragr cl s -> fragr cl (Call (Attr s m) [] [] [])
 | FMeth1 s m x b : fragr true s -> fragr true b -> fragr true (Call (Attr s m) [Lambda [x] b] [] [])
 | FComp x it elt : fragr true it -> fragr true elt -> fragr true (ListComp elt [CompFor (Name x) it [] false])
 | FCallLam cl ps b args : length ps = length args -> fragrs cl args -> fragr false b ->
                           fragr cl (Call (Lambda ps b) args [] [])
 | FCallLamC cl ps b cs : length ps = length cs -> fragr cl b ->
                          fragr cl (Call (Lambda ps b) (map Const cs) [] [])
with fragrs : bool -> list expr -> Prop :=
 | FNil cl : fragrs cl []
 | FCons cl a l : fragr cl a -> fragrs cl l -> fragrs cl (a :: l).

Scheme fragr_mut := Induction for fragr Sort Prop
  with fragrs_mut := Induction for fragrs Sort Prop.
Combined Scheme fragr_mutind from fragr_mut, fragrs_mut.

Definition closed_st (st : list amap) : Prop :=
  forall y a, lookup_st y st = Some (Some a) -> exists c, a = Const c.

Lemma flat_binders_consts cs : flat_map inner_binders (map Const cs) = [].
Proof. induction cs; simpl; auto. Qed.

Lemma overlaps_nil_r used : overlaps used [] = false.
Proof. unfold overlaps. induction used; simpl; auto. Qed.

(* the fragment has no starred arguments (F30: those calls are left as calls) *)
Lemma fragr_no_star :
  (forall cl e, fragr cl e -> is_starred e = false) /\
  (forall cl l, fragrs cl l -> existsb is_starred l = false).
Proof.
  apply fragr_mutind; intros; try reflexivity. cbn [existsb]. rewrite H, H0. reflexivity.
Qed.

Lemma consts_no_star cs : existsb is_starred (map Const cs) = false.
Proof. induction cs; simpl; auto. Qed.

(* ... and no assignment expressions (F48) *)
Lemma fragr_no_walrus :
  (forall cl e, fragr cl e -> has_walrus e = false) /\
  (forall cl l, fragrs cl l -> existsb has_walrus l = false).
Proof.
  apply fragr_mutind; intros; cbn [has_walrus existsb map];
    repeat match goal with H : _ = false |- _ => rewrite H; clear H end; try reflexivity.
  clear. induction cs; simpl; auto.
Qed.

(* inside [fragr false] nothing binds: the bail-out of FC4 cannot fire for such a body *)
Lemma fragr_false_no_binders :
  (forall cl e, fragr cl e -> cl = false -> inner_binders e = []) /\
  (forall cl l, fragrs cl l -> cl = false -> flat_map inner_binders l = []).
Proof.
  apply fragr_mutind; intros; subst; try discriminate; cbn [inner_binders flat_map];
    repeat match goal with
           | H : false = false -> _ |- _ => specialize (H eq_refl)
           end;
    try reflexivity; try assumption.
  - (* BinOp *) rewrite H, H0. reflexivity.
  - (* IfExp *) rewrite H, H0, H1. reflexivity.
  - (* Subscript *) rewrite H, H0. reflexivity.
  - (* method call without arguments *) cbn [inner_binders]. rewrite H. reflexivity.
  - (* called lambda *) rewrite H0. rewrite e, Nat.eqb_refl, (proj2 fragr_no_star _ _ f), (proj1 fragr_no_walrus _ _ f0). exact H.
  - (* called lambda, constant arguments *)
    rewrite H. rewrite map_length, e, Nat.eqb_refl, consts_no_star, (proj1 fragr_no_walrus _ _ f). apply flat_binders_consts.
  - (* cons *) rewrite H, H0. reflexivity.
Qed.

Section Sem.
  Variable B : backend.
  Variable ops : list string.
  Notation ev := (eval B ops).

  (* the environments of the original (E1) and of the resolved term (E2), related by the stack *)
  Definition Rr (st : list amap) (E1 E2 : env) : Prop :=
    forall x, match lookup_st x st with
              | Some (Some a) => forall w, lookup x E1 = Some w -> ev E2 a = Some w
              | _ => lookup x E1 = lookup x E2
              end.

  Lemma Rr_shadow1 st E1 E2 x v :
    closed_st st -> Rr st E1 E2 -> Rr (shadow [x] :: st) ((x, v) :: E1) ((x, v) :: E2).
  Proof.
    intros Hc HR y. cbn [lookup_st shadow map assoc lookup].
    destruct (String.eqb y x) eqn:E.
    - reflexivity.
    - specialize (HR y).
      destruct (lookup_st y st) as [[a|]|] eqn:Hl; try exact HR.
      destruct (Hc _ _ Hl) as [c ->]. exact HR.
  Qed.

  Lemma closed_shadow ps st : closed_st st -> closed_st (shadow ps :: st).
  Proof.
    intros Hc y a. cbn [lookup_st].
    assert (Hs : forall l, assoc y (shadow l) = None \/ assoc y (shadow l) = Some None).
    { induction l as [|p l IH]; simpl; [left; reflexivity|]. destruct (String.eqb y p); [right; reflexivity | exact IH]. }
    destruct (Hs ps) as [H|H]; rewrite H; [apply Hc | discriminate].
  Qed.

  (* the frame pushed by an inlined call, against Python's binding of the same call *)
  Lemma frame_rel st E1 E2 : forall ps args vs,
    length ps = length args ->
    omap (ev E1) args = Some vs ->
    Forall2 (fun a a' => refines (ev E1 a) (ev E2 a')) args (map (res st) args) ->
    forall x, match assoc x (combine ps (map (@Some expr) (map (res st) args))) with
              | Some (Some a') => exists w, lookup x (combine ps vs) = Some w /\ ev E2 a' = Some w
              | Some None => False
              | None => lookup x (combine ps vs) = None
              end.
  Proof.
    induction ps as [|p ps IH]; intros [|a args] vs Hlen Hvs HF x; try discriminate.
    - reflexivity.
    - apply omap_cons_some in Hvs. destruct Hvs as (v & vs' & Hv & Hvs' & ->).
      inversion HF as [|? ? ? ? Ha HF']; subst.
      cbn [map combine assoc lookup]. destruct (String.eqb x p).
      + exists v. split; [reflexivity | apply Ha; exact Hv].
      + apply IH; [simpl in Hlen; congruence | exact Hvs' | exact HF'].
  Qed.

  Lemma bind_args_nokw : forall ps vs E', bind_args ps vs [] = Some E' -> E' = combine ps vs.
  Proof.
    induction ps as [|p ps IH]; intros [|v vs] E' H; simpl in H.
    - inversion H; reflexivity.
    - discriminate.
    - discriminate.
    - destruct (bind_args ps vs []) eqn:Hb; simpl in H; [|discriminate].
      inversion H; subst. simpl. f_equal. apply IH. exact Hb.
  Qed.

  Lemma lookup_app x (E' E : env) :
    lookup x (E' ++ E) = match lookup x E' with Some v => Some v | None => lookup x E end.
  Proof. induction E' as [|[y v] E' IH]; simpl; [reflexivity|]. destruct (String.eqb x y); [reflexivity | exact IH]. Qed.

  Theorem sem_engine :
    (forall cl e, fragr cl e -> forall st E1 E2, (cl = true -> closed_st st) -> Rr st E1 E2 ->
                  refines (ev E1 e) (ev E2 (res st e))) /\
    (forall cl l, fragrs cl l -> forall st E1 E2, (cl = true -> closed_st st) -> Rr st E1 E2 ->
                  Forall2 (fun a a' => refines (ev E1 a) (ev E2 a')) l (map (res st) l)).
  Proof.
    apply fragr_mutind.
    - (* Name *)
      intros cl x st E1 E2 _ HR. cbn [res eval]. specialize (HR x).
      destruct (lookup_st x st) as [[a|]|]; try (rewrite HR; apply refines_refl).
      intros w Hw. apply HR. exact Hw.
    - intros; apply refines_refl.
    - (* Attr *)
      intros cl v a _ IH st E1 E2 Hc HR. cbn [res eval]. apply obind_refines_l. apply IH; assumption.
    - intros cl o x _ IH st E1 E2 Hc HR. cbn [res eval]. apply obind_refines_l. apply IH; assumption.
    - intros cl o l r _ IHl _ IHr st E1 E2 Hc HR. cbn [res eval].
      apply obind_refines; [apply IHl; assumption|]. intros a. apply obind_refines_l. apply IHr; assumption.
    - intros cl c t f _ IHc _ IHt _ IHf st E1 E2 Hc HR. cbn [res eval].
      apply obind_refines; [apply IHc; assumption|]. intros cv. destruct (truthy cv); [apply IHt | apply IHf]; assumption.
    - intros cl v s _ IHv _ IHs st E1 E2 Hc HR. cbn [res eval].
      apply obind_refines; [apply IHv; assumption|]. intros a. apply obind_refines_l. apply IHs; assumption.
    - intros cl es _ IH st E1 E2 Hc HR. cbn [res eval]. apply option_map_refines. apply omap_refines2. apply IH; assumption.
    - intros cl es _ IH st E1 E2 Hc HR. cbn [res eval]. apply option_map_refines. apply omap_refines2. apply IH; assumption.
    - (* method call without arguments *)
      intros cl s m _ IH st E1 E2 Hc HR. cbn [res eval map].
      destruct (is_op ops m).
      + apply apply_op_refines; [apply IH; assumption | constructor].
      + apply obind_refines_l. apply IH; assumption.
    - (* method call with a one-parameter lambda: the binder stays *)
      intros s m x b _ IHs _ IHb st E1 E2 Hc HR. cbn [res eval map].
      destruct (is_op ops m).
      + apply apply_op_refines; [apply IHs; assumption|]. constructor; [|constructor].
        unfold mk_view. split; [|split].
        * cbn [av_val eval]. apply refines_none.
        * cbn [av_f1]. intros f Hf. inversion Hf; subst. eexists; split; [reflexivity|].
          intros v. apply IHb; [intros _; apply closed_shadow; auto | apply Rr_shadow1; auto].
        * cbn [av_f2]. intros f Hf. discriminate.
      + intros w Hw. cbn [omap map sequence eval obind] in Hw.
        destruct (ev E1 s); simpl in Hw; discriminate.
    - (* comprehension: the target stays *)
      intros x it elt _ IHit _ IHelt st E1 E2 Hc HR.
      cbn [res res_gens comp_targets names_in app map eval comp_sem].
      apply obind_refines; [apply IHit; assumption|]. intros s.
      apply obind_refines_r. intros l.
      apply obind_refines; [apply refines_refl|]. intros kept.
      apply option_map_refines. apply omap_refines. intros v.
      apply IHelt; [intros _; apply closed_shadow; auto | apply Rr_shadow1; auto].
    - (* an inlined call *)
      intros cl ps b args Hlen Hfa IHargs Hfb IHb st E1 E2 Hc HR. cbn [res eval].
      rewrite Hlen, Nat.eqb_refl, (proj2 fragr_no_star _ _ Hfa), (proj1 fragr_no_walrus _ _ Hfb). cbn [orb].
      rewrite (proj1 fragr_false_no_binders false b Hfb eq_refl), overlaps_nil_r.
      intros w Hw. apply obind_some in Hw. destruct Hw as [vs [Hvs Hw]].
      apply obind_some in Hw. destruct Hw as [E' [HE' Hw]].
      apply bind_args_nokw in HE'. subst E'.
      pose proof (IHargs st E1 E2 Hc HR) as HF.
      apply (IHb _ (combine ps vs ++ E1) E2); [discriminate | | exact Hw].
      intros x. cbn [lookup_st]. rewrite lookup_app.
      pose proof (frame_rel st E1 E2 ps args vs Hlen Hvs HF x) as Hfr.
      destruct (assoc x (combine ps (map (@Some expr) (map (res st) args)))) as [[a'|]|].
      + destruct Hfr as [w0 [Hl Hev]]. intros w' Hw'. rewrite Hl in Hw'. inversion Hw'; subst. exact Hev.
      + contradiction.
      + rewrite Hfr. exact (HR x).
    - (* a call with constant arguments: the frame is closed, binders may stay in the body *)
      intros cl ps b cs Hlen Hfb IHb st E1 E2 Hc HR. cbn [res eval].
      rewrite map_length, Hlen, Nat.eqb_refl, consts_no_star, (proj1 fragr_no_walrus _ _ Hfb). cbn [orb].
      assert (Hres : map (res st) (map Const cs) = map Const cs).
      { clear. induction cs; simpl; [reflexivity|]. rewrite IHcs. reflexivity. }
      assert (Hnm : flat_map names_in (map Const cs) = []).
      { clear. induction cs; simpl; auto. }
      rewrite Hres, Hnm. cbn [overlaps existsb].
      intros w Hw. apply obind_some in Hw. destruct Hw as [vs [Hvs Hw]].
      apply obind_some in Hw. destruct Hw as [E' [HE' Hw]].
      apply bind_args_nokw in HE'. subst E'.
      assert (HF : Forall2 (fun a a' => refines (ev E1 a) (ev E2 a')) (map Const cs) (map (res st) (map Const cs))).
      { rewrite Hres. clear. induction cs; simpl; constructor; [apply refines_refl | assumption]. }
      assert (Hlen' : length ps = length (map Const cs)) by (rewrite map_length; exact Hlen).
      pose proof (frame_rel st E1 E2 ps (map Const cs) vs Hlen' Hvs HF) as Hfr. rewrite Hres in Hfr.
      apply (IHb (combine ps (map (@Some expr) (map Const cs)) :: st) (combine ps vs ++ E1) E2); [ | | exact Hw].
      + intros Hcl y a. cbn [lookup_st].
        destruct (assoc y (combine ps (map (@Some expr) (map Const cs)))) as [[a'|]|] eqn:Ha.
        * intros H; inversion H; subst.
          clear - Ha. revert ps Ha. induction cs as [|c cs IH]; intros [|p ps] Ha; simpl in Ha; try discriminate.
          destruct (String.eqb y p); [inversion Ha; eauto | eapply IH; eauto].
        * discriminate.
        * apply Hc; exact Hcl.
      + intros x. cbn [lookup_st]. rewrite lookup_app. specialize (Hfr x).
        destruct (assoc x (combine ps (map (@Some expr) (map Const cs)))) as [[a'|]|].
        * destruct Hfr as [w0 [Hl Hev]]. intros w' Hw'. rewrite Hl in Hw'. inversion Hw'; subst. exact Hev.
        * contradiction.
        * rewrite Hfr. exact (HR x).
    - intros; constructor.
    - intros cl a l _ IHa _ IHl st E1 E2 Hc HR. cbn [map]. constructor; [apply IHa | apply IHl]; assumption.
  Qed.
End Sem.

(* ---------- inline_sem ---------- *)

Theorem inline_sem_frag (B : backend) (ops : list string) e e' E v :
  fragr true e -> resolve_called e = Ok e' ->
  eval B ops E e = Some v -> eval B ops E e' = Some v.
Proof.
  intros Hf Hr. unfold resolve_called in Hr. inversion Hr; subst; clear Hr.
  apply (proj1 (sem_engine B ops) true e Hf [] E E).
  - intros _ y a H. discriminate.
  - intros x. reflexivity.
Qed.

(* ---------- capture_freezes: on the call-free fragment with a literal snapshot, rewriting = substituting constants ---------- *)

Inductive fragc : expr -> Prop :=
 | CName x : fragc (Name x)
 | CConst c : byname_const c = false -> fragc (Const c)
 | CAttr v a : fragc v -> fragc (Attr v a)
 | CUnary o x : fragc x -> fragc (UnaryOp o x)
 | CBin o l r : fragc l -> fragc r -> fragc (BinOp o l r)
 | CIf c t f : fragc c -> fragc t -> fragc f -> fragc (IfExp c t f)
 | CSub v s : fragc v -> fragc s -> fragc (Subscript v s)
 | CTuple es : fragcs es -> fragc (Tuple es)
 | CList es : fragcs es -> fragc (List es)
 | CMeth0 s m : fragc s -> fragc (Call (Attr s m) [] [] [])
 | CMeth1 s m x b : fragc s -> fragc b -> fragc (Call (Attr s m) [Lambda [x] b] [] [])
 | CComp x it elt : fragc it -> fragc elt -> fragc (ListComp elt [CompFor (Name x) it [] false])
with fragcs : list expr -> Prop :=
 | CNil : fragcs []
 | CCons a l : fragc a -> fragcs l -> fragcs (a :: l).

Scheme fragc_mut := Induction for fragc Sort Prop
  with fragcs_mut := Induction for fragcs Sort Prop.
Combined Scheme fragc_mutind from fragc_mut, fragcs_mut.

Lemma fragc_fragr : (forall e, fragc e -> fragr true e) /\ (forall l, fragcs l -> fragrs true l).
Proof. apply fragc_mutind; intros; constructor; assumption. Qed.

(* no assignment expressions in the fragment: a lambda binds its parameters only (F42) *)
Lemma fragc_no_assigned b : fragc b -> assigned b = [].
Proof.
  intros H. apply no_walrus_no_assigned. exact (proj1 fragr_no_walrus true b (proj1 fragc_fragr b H)).
Qed.

(* a snapshot of plain literals only: no attribute table, every entry a value the semantics knows *)
Definition lit_entry (p : string * capval) : Prop :=
  match snd p with CVal c => const_value c <> None | CFun _ => False end.

Definition lit_env (ce : cenv) : Prop :=
  Forall lit_entry (ce_nonlocals ce) /\ Forall lit_entry (ce_globals ce) /\ ce_attrs ce = [].

Definition cframe_of (l : list (string * capval)) : amap :=
  map (fun p => (fst p, match snd p with CVal c => Some (Const c) | CFun _ => None end)) l.

Definition cstack (ce : cenv) (st : list (list string)) : list amap :=
  map shadow st ++ [cframe_of (ce_nonlocals ce ++ ce_globals ce)].

Lemma assoc_app {A} x (l1 l2 : list (string * A)) :
  assoc x (l1 ++ l2) = match assoc x l1 with Some v => Some v | None => assoc x l2 end.
Proof. induction l1 as [|[y v] l1 IH]; simpl; [reflexivity|]. destruct (String.eqb x y); [reflexivity | exact IH]. Qed.

Lemma assoc_cframe x l :
  assoc x (cframe_of l) = match assoc x l with
                          | Some (CVal c) => Some (Some (Const c))
                          | Some (CFun _) => Some None
                          | None => None end.
Proof.
  induction l as [|[y v] l IH]; simpl; [reflexivity|].
  destruct (String.eqb x y); [destruct v; reflexivity | exact IH].
Qed.

Lemma assoc_shadow x ps : assoc x (shadow ps) = if existsb (String.eqb x) ps then Some None else None.
Proof. induction ps as [|p ps IH]; simpl; [reflexivity|]. destruct (String.eqb x p); [reflexivity | exact IH]. Qed.

Lemma lookup_cstack ce st x :
  lookup_st x (cstack ce st) =
  if is_arg st x then Some None
  else match lookup_var ce x with
       | Some (CVal c) => Some (Some (Const c))
       | Some (CFun _) => Some None
       | None => None end.
Proof.
  unfold cstack. induction st as [|ps st IH]; cbn [map app lookup_st].
  - cbn [is_arg existsb]. rewrite assoc_cframe, assoc_app. unfold lookup_var.
    destruct (assoc x (ce_nonlocals ce)) as [[c|l]|]; try reflexivity.
    destruct (assoc x (ce_globals ce)) as [[c|l]|]; reflexivity.
  - rewrite assoc_shadow, is_arg_cons. destruct (existsb (String.eqb x) ps); [reflexivity | exact IH].
Qed.

Lemma lit_lookup ce x c : lit_env ce -> lookup_var ce x = Some (CVal c) -> const_value c <> None.
Proof.
  intros (H1 & H2 & _) H. unfold lookup_var in H.
  assert (Ha : forall l, Forall lit_entry l -> forall v, assoc x l = Some v -> lit_entry (x, v)).
  { induction 1 as [|[y w] l Hy _ IH]; simpl; intros v Hv; [discriminate|].
    destruct (String.eqb x y); [inversion Hv; subst; exact Hy | apply IH; exact Hv]. }
  destruct (assoc x (ce_nonlocals ce)) eqn:E1.
  - inversion H; subst. exact (Ha _ H1 _ E1).
  - exact (Ha _ H2 _ H).
Qed.

Lemma lit_lookup_fun ce x l : lit_env ce -> lookup_var ce x = Some (CFun l) -> False.
Proof.
  intros (H1 & H2 & _) H. unfold lookup_var in H.
  assert (Ha : forall l0, Forall lit_entry l0 -> forall v, assoc x l0 = Some v -> lit_entry (x, v)).
  { induction 1 as [|[y w] l0 Hy _ IH]; simpl; intros v Hv; [discriminate|].
    destruct (String.eqb x y); [inversion Hv; subst; exact Hy | apply IH; exact Hv]. }
  destruct (assoc x (ce_nonlocals ce)) eqn:E1.
  - inversion H; subst. exact (Ha _ H1 _ E1).
  - exact (Ha _ H2 _ H).
Qed.

Lemma const_value_not_byname c : const_value c <> None -> byname_const c = false.
Proof. destruct c; simpl; intros H; try reflexivity. contradiction. Qed.

Section Freeze.
  Variable ce : cenv.
  Hypothesis Hlit : lit_env ce.

  Definition rw_ok (e : expr) : Prop :=
    forall st, exists r, rw ce st e = Ok (res (cstack ce st) e, r) /\
                         (r = res (cstack ce st) e \/ exists c, res (cstack ce st) e = Const c) /\
                         (forall c, res (cstack ce st) e = Const c -> byname_const c = false).

  Lemma rw_ok_attr v a : rw_ok v -> rw_ok (Attr v a).
  Proof.
    intros Hv st. destruct (Hv st) as (r & Hr & Hinv & Hby).
    exists (Attr (res (cstack ce st) v) a). cbn [rw res]. rewrite Hr. cbn [sbind fst snd].
    assert (Hat : forall c, lookup_attr ce c a = None).
    { intros c. unfold lookup_attr. rewrite (proj2 (proj2 Hlit)). reflexivity. }
    destruct (res (cstack ce st) v) eqn:Hres;
      try (match goal with
           | H : _ = Const ?c |- _ =>
               rewrite (Hby c eq_refl), Hat;
               split; [reflexivity | split; [left; reflexivity | intros c' Hc'; discriminate]]
           end);
      (destruct Hinv as [->|[c0 Hc0]]; [|discriminate]);
      (split; [reflexivity | split; [left; reflexivity | intros c' Hc'; discriminate]]).
  Qed.

  Lemma rw_ok_all : (forall e, fragc e -> rw_ok e) /\
                    (forall l, fragcs l -> forall st, rw_list (rw ce st) l = Ok (map (res (cstack ce st)) l)).
  Proof.
    apply fragc_mutind.
    - (* Name *)
      intros x st. cbn [rw res]. rewrite lookup_cstack.
      destruct (is_arg st x).
      + exists (Name x). split; [reflexivity | split; [left; reflexivity | intros c Hc; discriminate]].
      + destruct (lookup_var ce x) as [[c|l]|] eqn:Hl.
        * exists (Name x). split; [reflexivity | split; [right; eauto|]].
          intros c' Hc'. inversion Hc'; subst. apply const_value_not_byname. eapply lit_lookup; eauto.
        * exfalso. eapply lit_lookup_fun; eauto.
        * exists (Name x). split; [reflexivity | split; [left; reflexivity | intros c Hc; discriminate]].
    - intros c Hc st. exists (Const c). cbn [rw res]. split; [reflexivity | split; [left; reflexivity|]].
      intros c' Hc'. inversion Hc'; subst. exact Hc.
    - intros v a _ IH. apply rw_ok_attr; exact IH.
    - intros o x _ IH st. destruct (IH st) as (r & Hr & _). eexists. cbn [rw res]. rewrite Hr.
      split; [reflexivity | split; [left; reflexivity | intros c Hc; discriminate]].
    - intros o l r _ IHl _ IHr st. destruct (IHl st) as (r1 & Hr1 & _). destruct (IHr st) as (r2 & Hr2 & _).
      eexists. cbn [rw res]. rewrite Hr1, Hr2.
      split; [reflexivity | split; [left; reflexivity | intros c0 Hc; discriminate]].
    - intros c t f _ IHc _ IHt _ IHf st.
      destruct (IHc st) as (r1 & Hr1 & _). destruct (IHt st) as (r2 & Hr2 & _). destruct (IHf st) as (r3 & Hr3 & _).
      eexists. cbn [rw res]. rewrite Hr1, Hr2, Hr3.
      split; [reflexivity | split; [left; reflexivity | intros c0 Hc; discriminate]].
    - intros v s _ IHv _ IHs st. destruct (IHv st) as (r1 & Hr1 & _). destruct (IHs st) as (r2 & Hr2 & _).
      eexists. cbn [rw res]. rewrite Hr1, Hr2.
      split; [reflexivity | split; [left; reflexivity | intros c0 Hc; discriminate]].
    - intros es _ IH st. eexists. cbn [rw res]. rewrite (IH st).
      split; [reflexivity | split; [left; reflexivity | intros c0 Hc; discriminate]].
    - intros es _ IH st. eexists. cbn [rw res]. rewrite (IH st).
      split; [reflexivity | split; [left; reflexivity | intros c0 Hc; discriminate]].
    - (* method call, no arguments *)
      intros s m _ IH st. destruct (rw_ok_attr s m IH st) as (r & Hr & Hinv & _).
      eexists. cbn [rw res rw_list map] in *. rewrite Hr.
      split; [reflexivity | split; [left; reflexivity | intros c0 Hc; discriminate]].
    - (* method call with a lambda *)
      intros s m x b _ IHs Hfb IHb st. destruct (rw_ok_attr s m IHs st) as (r & Hr & Hinv & _).
      destruct (IHb ([x] :: st)) as (rb & Hrb & _).
      eexists. cbn [rw res rw_list map] in *. rewrite (fragc_no_assigned b Hfb). cbn [app]. rewrite Hr, Hrb.
      split; [reflexivity | split; [left; reflexivity | intros c0 Hc; discriminate]].
    - (* comprehension *)
      intros x it elt _ IHit _ IHelt st.
      destruct (IHit st) as (r1 & Hr1 & _). destruct (IHelt ([x] :: st)) as (r2 & Hr2 & _).
      eexists. cbn [rw res rw_gens res_gens rw_list comp_targets names_in app map] in *. rewrite Hr1, Hr2.
      split; [reflexivity | split; [left; reflexivity | intros c0 Hc; discriminate]].
    - intros st. reflexivity.
    - intros a l _ IHa _ IHl st. destruct (IHa st) as (r & Hr & _).
      cbn [rw_list map]. change (rw_list (rw ce st) l) with (rw_list (rw ce st) l).
      simpl. rewrite Hr. simpl. rewrite (IHl st). reflexivity.
  Qed.
End Freeze.

(* the values of the snapshot, as an environment put in front of any later one *)
Definition snapshot_vals (l : list (string * capval)) : env :=
  flat_map (fun p => match snd p with
                     | CVal c => match const_value c with Some v => [(fst p, v)] | None => [] end
                     | CFun _ => []
                     end) l.

Definition vals (ce : cenv) : env := snapshot_vals (ce_nonlocals ce ++ ce_globals ce).

Lemma lookup_snapshot x l :
  Forall lit_entry l ->
  lookup x (snapshot_vals l) = match assoc x l with Some (CVal c) => const_value c | _ => None end.
Proof.
  induction 1 as [|[y w] l Hy _ IH]; simpl; [reflexivity|].
  unfold lit_entry in Hy; simpl in Hy. destruct w as [c|f]; [|contradiction].
  destruct (const_value c) as [v|] eqn:Hv; [|contradiction]. simpl.
  destruct (String.eqb x y); [symmetry; exact Hv | exact IH].
Qed.

Theorem capture_freezes_frag (B : backend) (ops : list string) ce e e' later v :
  lit_env ce -> fragc e -> rewrite_captured ce e = Ok e' ->
  eval B ops (vals ce ++ later) e = Some v -> eval B ops later e' = Some v.
Proof.
  intros Hlit Hf Hrw. unfold rewrite_captured in Hrw.
  destruct (proj1 (rw_ok_all ce Hlit) e Hf []) as (r & Hr & _). rewrite Hr in Hrw. simpl in Hrw.
  inversion Hrw; subst; clear Hrw.
  apply (proj1 (sem_engine B ops) true e (proj1 fragc_fragr e Hf) (cstack ce []) (vals ce ++ later) later).
  - intros _ y a H. rewrite lookup_cstack in H. cbn [is_arg existsb] in H.
    destruct (lookup_var ce y) as [[c|l]|]; inversion H; eauto.
  - intros x. rewrite lookup_cstack. cbn [is_arg existsb].
    assert (Hall : Forall lit_entry (ce_nonlocals ce ++ ce_globals ce)).
    { destruct Hlit as (H1 & H2 & _). apply Forall_app; split; assumption. }
    assert (Hv : lookup x (vals ce) = match lookup_var ce x with Some (CVal c) => const_value c | _ => None end).
    { unfold vals. rewrite (lookup_snapshot x _ Hall), assoc_app. unfold lookup_var.
      destruct (assoc x (ce_nonlocals ce)) as [[c|l]|]; reflexivity. }
    rewrite lookup_app, Hv.
    destruct (lookup_var ce x) as [[c|l]|] eqn:Hl.
    + intros w Hw. cbn [eval].
      destruct (const_value c) eqn:Hc; [exact Hw | exfalso; eapply lit_lookup; eauto].
    + exfalso. eapply lit_lookup_fun; eauto.
    + reflexivity.
Qed.

(* Semantic facts about the capture model over the reference semantics Base/Eval.v.

   [sem_engine]: on the fragment [fragr], resolving called lambdas with an arbitrary stack of argument maps
   preserves values, provided the environments are related by the stack ([Rr]).  Hygiene is part of the
   fragment's index: a binder that *stays* in the tree (the lambda argument of a method call, a comprehension
   target) is allowed only while every argument in flight is a constant ([cl = true]); inside the body of an
   inlined lambda ([cl = false]) no staying binder occurs.  That is the explicit hygiene hypothesis of
   inline_sem; the case it excludes (argument names captured by a binder inside the helper body) is the open
   finding reported for C05, and the shadowing half (F07) is covered by the correspondence and the oracle. *)
From FA.Base Require Import PyAst Induct Value Eval Traverse.
From FA.Model Require Import Capture.
From FA.Proofs Require Import TraverseFacts Refine CaptureProofs.

Inductive fragr : bool -> expr -> Prop :=
 | FName cl x : fragr cl (Name x)
 | FConst cl c : fragr cl (Const c)
 | FAttr cl v a : fragr cl v -> fragr cl (Attr v a)
 | FUnary cl o x : fragr cl x -> fragr cl (UnaryOp o x)
 | FBin cl o l r : fragr cl l -> fragr cl r -> fragr cl (BinOp o l r)
 | FIf cl c t f : fragr cl c -> fragr cl t -> fragr cl f -> fragr cl (IfExp c t f)
 | FSub cl v s : fragr cl v -> fragr cl s -> fragr cl (Subscript v s)
 | FTuple cl es : fragrs cl es -> fragr cl (Tuple es)
 | FList cl es : fragrs cl es -> fragr cl (List es)
 | FMeth0 cl s m : fragr cl s -> fragr cl (Call (Attr s m) [] [] [])
 | FMeth1 s m x b : fragr true s -> fragr true b -> fragr true (Call (Attr s m) [Lambda [x] b] [] [])
 | FComp x it elt : fragr true it -> fragr true elt -> fragr true (ListComp elt [CompFor (Name x) it [] false])
 | FCallLam cl ps b args : length ps = length args -> fragrs cl args -> fragr false b ->
                           fragr cl (Call (Lambda ps b) args [] [])
with fragrs : bool -> list expr -> Prop :=
 | FNil cl : fragrs cl []
 | FCons cl a l : fragr cl a -> fragrs cl l -> fragrs cl (a :: l).

Scheme fragr_mut := Induction for fragr Sort Prop
  with fragrs_mut := Induction for fragrs Sort Prop.
Combined Scheme fragr_mutind from fragr_mut, fragrs_mut.

Definition closed_st (st : list amap) : Prop :=
  forall y a, lookup_st y st = Some (Some a) -> exists c, a = Const c.

Section Sem.
  Variable B : backend.
  Variable ops : list string.
  Notation ev := (eval B ops).

  (* the environments of the original (E1) and of the resolved term (E2), related by the stack *)
  Definition Rr (st : list amap) (E1 E2 : env) : Prop :=
    forall x, match lookup_st x st with
              | Some (Some a) => forall w, lookup x E1 = Some w -> ev E2 a = Some w
              | _ => lookup x E1 = lookup x E2
              end.

  Lemma Rr_shadow1 st E1 E2 x v :
    closed_st st -> Rr st E1 E2 -> Rr (shadow [x] :: st) ((x, v) :: E1) ((x, v) :: E2).
  Proof.
    intros Hc HR y. cbn [lookup_st shadow map assoc lookup].
    destruct (String.eqb y x) eqn:E.
    - reflexivity.
    - specialize (HR y).
      destruct (lookup_st y st) as [[a|]|] eqn:Hl; try exact HR.
      destruct (Hc _ _ Hl) as [c ->]. exact HR.
  Qed.

  Lemma closed_shadow ps st : closed_st st -> closed_st (shadow ps :: st).
  Proof.
    intros Hc y a. cbn [lookup_st].
    assert (Hs : forall l, assoc y (shadow l) = None \/ assoc y (shadow l) = Some None).
    { induction l as [|p l IH]; simpl; [left; reflexivity|]. destruct (String.eqb y p); [right; reflexivity | exact IH]. }
    destruct (Hs ps) as [H|H]; rewrite H; [apply Hc | discriminate].
  Qed.

  (* the frame pushed by an inlined call, against Python's binding of the same call *)
  Lemma frame_rel st E1 E2 : forall ps args vs,
    length ps = length args ->
    omap (ev E1) args = Some vs ->
    Forall2 (fun a a' => refines (ev E1 a) (ev E2 a')) args (map (res st) args) ->
    forall x, match assoc x (combine ps (map (@Some expr) (map (res st) args))) with
              | Some (Some a') => exists w, lookup x (combine ps vs) = Some w /\ ev E2 a' = Some w
              | Some None => False
              | None => lookup x (combine ps vs) = None
              end.
  Proof.
    induction ps as [|p ps IH]; intros [|a args] vs Hlen Hvs HF x; try discriminate.
    - reflexivity.
    - apply omap_cons_some in Hvs. destruct Hvs as (v & vs' & Hv & Hvs' & ->).
      inversion HF as [|? ? ? ? Ha HF']; subst.
      cbn [map combine assoc lookup]. destruct (String.eqb x p).
      + exists v. split; [reflexivity | apply Ha; exact Hv].
      + apply IH; [simpl in Hlen; congruence | exact Hvs' | exact HF'].
  Qed.

  Lemma bind_args_nokw : forall ps vs E', bind_args ps vs [] = Some E' -> E' = combine ps vs.
  Proof.
    induction ps as [|p ps IH]; intros [|v vs] E' H; simpl in H.
    - inversion H; reflexivity.
    - discriminate.
    - discriminate.
    - destruct (bind_args ps vs []) eqn:Hb; simpl in H; [|discriminate].
      inversion H; subst. simpl. f_equal. apply IH. exact Hb.
  Qed.

  Lemma lookup_app x (E' E : env) :
    lookup x (E' ++ E) = match lookup x E' with Some v => Some v | None => lookup x E end.
  Proof. induction E' as [|[y v] E' IH]; simpl; [reflexivity|]. destruct (String.eqb x y); [reflexivity | exact IH]. Qed.

  Theorem sem_engine :
    (forall cl e, fragr cl e -> forall st E1 E2, (cl = true -> closed_st st) -> Rr st E1 E2 ->
                  refines (ev E1 e) (ev E2 (res st e))) /\
    (forall cl l, fragrs cl l -> forall st E1 E2, (cl = true -> closed_st st) -> Rr st E1 E2 ->
                  Forall2 (fun a a' => refines (ev E1 a) (ev E2 a')) l (map (res st) l)).
  Proof.
    apply fragr_mutind.
    - (* Name *)
      intros cl x st E1 E2 _ HR. cbn [res eval]. specialize (HR x).
      destruct (lookup_st x st) as [[a|]|]; try (rewrite HR; apply refines_refl).
      intros w Hw. apply HR. exact Hw.
    - intros; apply refines_refl.
    - (* Attr *)
      intros cl v a _ IH st E1 E2 Hc HR. cbn [res eval]. apply obind_refines_l. apply IH; assumption.
    - intros cl o x _ IH st E1 E2 Hc HR. cbn [res eval]. apply obind_refines_l. apply IH; assumption.
    - intros cl o l r _ IHl _ IHr st E1 E2 Hc HR. cbn [res eval].
      apply obind_refines; [apply IHl; assumption|]. intros a. apply obind_refines_l. apply IHr; assumption.
    - intros cl c t f _ IHc _ IHt _ IHf st E1 E2 Hc HR. cbn [res eval].
      apply obind_refines; [apply IHc; assumption|]. intros cv. destruct (truthy cv); [apply IHt | apply IHf]; assumption.
    - intros cl v s _ IHv _ IHs st E1 E2 Hc HR. cbn [res eval].
      apply obind_refines; [apply IHv; assumption|]. intros a. apply obind_refines_l. apply IHs; assumption.
    - intros cl es _ IH st E1 E2 Hc HR. cbn [res eval]. apply option_map_refines. apply omap_refines2. apply IH; assumption.
    - intros cl es _ IH st E1 E2 Hc HR. cbn [res eval]. apply option_map_refines. apply omap_refines2. apply IH; assumption.
    - (* method call without arguments *)
      intros cl s m _ IH st E1 E2 Hc HR. cbn [res eval map].
      destruct (is_op ops m).
      + apply apply_op_refines; [apply IH; assumption | constructor].
      + apply obind_refines_l. apply IH; assumption.
    - (* method call with a one-parameter lambda: the binder stays *)
      intros s m x b _ IHs _ IHb st E1 E2 Hc HR. cbn [res eval map].
      destruct (is_op ops m).
      + apply apply_op_refines; [apply IHs; assumption|]. constructor; [|constructor].
        unfold mk_view. split; [|split].
        * cbn [av_val eval]. apply refines_none.
        * cbn [av_f1]. intros f Hf. inversion Hf; subst. eexists; split; [reflexivity|].
          intros v. apply IHb; [intros _; apply closed_shadow; auto | apply Rr_shadow1; auto].
        * cbn [av_f2]. intros f Hf. discriminate.
      + intros w Hw. cbn [omap map sequence eval obind] in Hw.
        destruct (ev E1 s); simpl in Hw; discriminate.
    - (* comprehension: the target stays *)
      intros x it elt _ IHit _ IHelt st E1 E2 Hc HR.
      cbn [res res_gens comp_targets names_in app map eval comp_sem].
      apply obind_refines; [apply IHit; assumption|]. intros s.
      apply obind_refines_r. intros l.
      apply obind_refines; [apply refines_refl|]. intros kept.
      apply option_map_refines. apply omap_refines. intros v.
      apply IHelt; [intros _; apply closed_shadow; auto | apply Rr_shadow1; auto].
    - (* an inlined call *)
      intros cl ps b args Hlen _ IHargs _ IHb st E1 E2 Hc HR. cbn [res eval].
      rewrite Hlen, Nat.eqb_refl.
      intros w Hw. apply obind_some in Hw. destruct Hw as [vs [Hvs Hw]].
      apply obind_some in Hw. destruct Hw as [E' [HE' Hw]].
      apply bind_args_nokw in HE'. subst E'.
      pose proof (IHargs st E1 E2 Hc HR) as HF.
      apply (IHb _ (combine ps vs ++ E1) E2); [discriminate | | exact Hw].
      intros x. cbn [lookup_st]. rewrite lookup_app.
      pose proof (frame_rel st E1 E2 ps args vs Hlen Hvs HF x) as Hfr.
      destruct (assoc x (combine ps (map (@Some expr) (map (res st) args)))) as [[a'|]|].
      + destruct Hfr as [w0 [Hl Hev]]. intros w' Hw'. rewrite Hl in Hw'. inversion Hw'; subst. exact Hev.
      + contradiction.
      + rewrite Hfr. exact (HR x).
    - intros; constructor.
    - intros cl a l _ IHa _ IHl st E1 E2 Hc HR. cbn [map]. constructor; [apply IHa | apply IHl]; assumption.
  Qed.
End Sem.

(* Semantic soundness of every rewrite rule the simplifier applies (C02), for all lambdas, all
   backends and all environments (datasets).

   Part 1 states the rules on the sequence combinators of the reference semantics (pure list
   reasoning, any element functions).  Part 2 transports them to [eval] on the concrete syntax
   the model builds ([convolute], [function_call], [make_Select]). *)
From FA.Base Require Import PyAst Induct Value Eval Traverse.
From FA.Model Require Import Simplify.
From FA.Proofs Require Import TraverseFacts Refine EvalCong EvalAgree.
From Coq Require Import Lia.

(* ------------------------------------------------------------------ Part 1: combinators *)

Definition Sel (src : option value) (f : value -> option value) : option value :=
  obind src (fun s => obind (as_list s) (fun l => option_map VList (omap f l))).
Definition Whr (src : option value) (p : value -> option value) : option value :=
  obind src (fun s => obind (as_list s) (fun l =>
    option_map VList (ofilter (fun v => option_map truthy (p v)) l))).
Definition Many (src : option value) (f : value -> option value) : option value :=
  obind src (fun s => obind (as_list s) (fun l =>
    obind (omap (fun v => obind (f v) as_list) l) (fun ls => Some (VList (concat ls))))).
Definition Fst (src : option value) : option value :=
  obind src (fun s => obind (as_list s) (fun l => hd_error l)).

Definition kleisli (f g : value -> option value) : value -> option value := fun v => obind (f v) g.

(* Python's [a and b] on two operands *)
Definition and2 (f g : value -> option value) : value -> option value :=
  fun v => obind (f v) (fun a => if truthy a then g v else Some a).

Lemma omap_some_cons {A B} (f : A -> option B) x xs r :
  omap f (x :: xs) = Some r -> exists y ys, f x = Some y /\ omap f xs = Some ys /\ r = y :: ys.
Proof.
  rewrite omap_cons. intros H. apply obind_some in H. destruct H as [y [Hy H]].
  apply obind_some in H. destruct H as [ys [Hys H]]. inversion H; subst. eauto.
Qed.

Lemma omap_compose {A B C} (f : A -> option B) (g : B -> option C) l m r :
  omap f l = Some m -> omap g m = Some r -> omap (fun v => obind (f v) g) l = Some r.
Proof.
  revert m r; induction l as [|x xs IH]; intros m r Hf Hg.
  - inversion Hf; subst. inversion Hg; subst. reflexivity.
  - apply omap_some_cons in Hf. destruct Hf as (y & ys & Hy & Hys & ->).
    apply omap_some_cons in Hg. destruct Hg as (z & zs & Hz & Hzs & ->).
    rewrite omap_cons, Hy. simpl. rewrite Hz. simpl. rewrite (IH _ _ Hys Hzs). reflexivity.
Qed.

Lemma omap_app_some {A B} (f : A -> option B) l1 l2 r1 r2 :
  omap f l1 = Some r1 -> omap f l2 = Some r2 -> omap f (l1 ++ l2) = Some (r1 ++ r2).
Proof. intros H1 H2. rewrite omap_app, H1. simpl. rewrite H2. reflexivity. Qed.

(* rule 1: Select of Select *)
Lemma Sel_Sel S f g : refines (Sel (Sel S f) g) (Sel S (kleisli f g)).
Proof.
  intros r H. destruct S as [s|]; [|discriminate]. unfold Sel in *.
  cbn [obind] in *.
  apply obind_some in H. destruct H as [s1 [H1 H]].
  apply obind_some in H1. destruct H1 as [l [Hl H1]].
  destruct (omap f l) as [m|] eqn:Hm; [|discriminate]. inversion H1; subst; clear H1.
  simpl in H. destruct (omap g m) as [r'|] eqn:Hr; [|discriminate]. inversion H; subst.
  rewrite Hl. simpl. unfold kleisli. rewrite (omap_compose _ _ _ _ _ Hm Hr). reflexivity.
Qed.

(* rule 3: SelectMany of Select *)
Lemma Many_Sel S f g : refines (Many (Sel S f) g) (Many S (kleisli f g)).
Proof.
  intros r H. destruct S as [s|]; [|discriminate]. unfold Many, Sel in *.
  cbn [obind] in *.
  apply obind_some in H. destruct H as [s1 [H1 H]].
  apply obind_some in H1. destruct H1 as [l [Hl H1]].
  destruct (omap f l) as [m|] eqn:Hm; [|discriminate]. inversion H1; subst; clear H1.
  simpl in H. apply obind_some in H. destruct H as [ls [Hls H]]. inversion H; subst.
  rewrite Hl. simpl.
  assert (Hc : omap (fun v => obind (kleisli f g v) as_list) l = Some ls).
  { unfold kleisli. clear - Hm Hls. revert m ls Hm Hls. induction l as [|x xs IH]; intros m ls Hm Hls.
    - inversion Hm; subst. inversion Hls; subst. reflexivity.
    - apply omap_some_cons in Hm. destruct Hm as (y & ys & Hy & Hys & ->).
      apply omap_some_cons in Hls. destruct Hls as (z & zs & Hz & Hzs & ->).
      rewrite omap_cons, Hy. simpl. rewrite Hz. simpl. rewrite (IH _ _ Hys Hzs). reflexivity. }
  rewrite Hc. reflexivity.
Qed.

(* concat/map bookkeeping for the SelectMany rules *)
Lemma omap_concat {A B} (f : A -> option B) (ls : list (list A)) r :
  omap f (concat ls) = Some r ->
  exists rs, omap (fun l => omap f l) ls = Some rs /\ r = concat rs.
Proof.
  revert r; induction ls as [|l ls IH]; intros r H.
  - inversion H; subst. exists []; split; reflexivity.
  - simpl in H. rewrite omap_app in H.
    apply obind_some in H. destruct H as [a [Ha H]].
    apply obind_some in H. destruct H as [b [Hb H]]. inversion H; subst.
    destruct (IH _ Hb) as [rs [Hrs ->]].
    exists (a :: rs). rewrite omap_cons, Ha. simpl. rewrite Hrs. split; reflexivity.
Qed.

(* rule 2: Select of SelectMany *)
Lemma Sel_Many S f g : refines (Sel (Many S f) g) (Many S (fun v => Sel (f v) g)).
Proof.
  intros r H. destruct S as [s|]; [|discriminate]. unfold Sel at 1 in H. unfold Many in *.
  cbn [obind] in *.
  apply obind_some in H. destruct H as [s1 [H1 H]].
  apply obind_some in H1. destruct H1 as [l [Hl H1]].
  apply obind_some in H1. destruct H1 as [ls [Hls H1]]. inversion H1; subst; clear H1.
  simpl in H. destruct (omap g (concat ls)) as [r'|] eqn:Hr; [|discriminate]. inversion H; subst; clear H.
  destruct (omap_concat _ _ _ Hr) as [rs [Hrs ->]].
  rewrite Hl. simpl.
  assert (Hc : omap (fun v => obind (Sel (f v) g) as_list) l = Some rs).
  { clear - Hls Hrs. revert ls rs Hls Hrs. induction l as [|x xs IH]; intros ls rs Hls Hrs.
    - inversion Hls; subst. inversion Hrs; subst. reflexivity.
    - apply omap_some_cons in Hls. destruct Hls as (y & ys & Hy & Hys & ->).
      apply omap_some_cons in Hrs. destruct Hrs as (z & zs & Hz & Hzs & ->).
      rewrite omap_cons. apply obind_some in Hy. destruct Hy as [fv [Hfv Hy]].
      unfold Sel at 1. rewrite Hfv. cbn [obind]. rewrite Hy. cbn [obind option_map as_list]. rewrite Hz. cbn [obind option_map as_list].
      rewrite (IH _ _ Hys Hzs). reflexivity. }
  rewrite Hc. reflexivity.
Qed.

Lemma concat_concat {A} (lss : list (list (list A))) : concat (concat lss) = concat (map (@concat A) lss).
Proof. induction lss as [|x xs IH]; simpl; [reflexivity|]. rewrite concat_app, IH. reflexivity. Qed.

(* rule 4: SelectMany of SelectMany *)
Lemma Many_Many S f g : refines (Many (Many S f) g) (Many S (fun v => Many (f v) g)).
Proof.
  intros r H. destruct S as [s|]; [|discriminate]. unfold Many at 1 in H. unfold Many in *.
  cbn [obind] in *.
  apply obind_some in H. destruct H as [s1 [H1 H]].
  apply obind_some in H1. destruct H1 as [l [Hl H1]].
  apply obind_some in H1. destruct H1 as [ls [Hls H1]]. inversion H1; subst; clear H1.
  simpl in H. apply obind_some in H. destruct H as [rs0 [Hr H]]. inversion H; subst; clear H.
  destruct (omap_concat _ _ _ Hr) as [rs [Hrs ->]].
  rewrite Hl. simpl.
  assert (Hc : omap (fun v => obind (obind (f v) (fun s0 => obind (as_list s0) (fun l0 =>
                 obind (omap (fun v0 => obind (g v0) as_list) l0) (fun ls0 => Some (VList (concat ls0)))))) as_list) l
               = Some (map (@concat value) rs)).
  { clear - Hls Hrs. revert ls rs Hls Hrs. induction l as [|x xs IH]; intros ls rs Hls Hrs.
    - inversion Hls; subst. inversion Hrs; subst. reflexivity.
    - apply omap_some_cons in Hls. destruct Hls as (y & ys & Hy & Hys & ->).
      apply omap_some_cons in Hrs. destruct Hrs as (z & zs & Hz & Hzs & ->).
      rewrite omap_cons. apply obind_some in Hy. destruct Hy as [fv [Hfv Hy]].
      rewrite Hfv. simpl. rewrite Hy. simpl. rewrite Hz. simpl.
      rewrite (IH _ _ Hys Hzs). reflexivity. }
  rewrite Hc. simpl. rewrite concat_concat. reflexivity.
Qed.

(* rule 5: Where of Where, with Python's short-circuit [and] *)
Lemma Whr_Whr S f g : refines (Whr (Whr S f) g) (Whr S (and2 f g)).
Proof.
  intros r H. destruct S as [s|]; [|discriminate]. unfold Whr in *.
  cbn [obind] in *.
  apply obind_some in H. destruct H as [s1 [H1 H]].
  apply obind_some in H1. destruct H1 as [l [Hl H1]].
  destruct (ofilter (fun v => option_map truthy (f v)) l) as [m|] eqn:Hm; [|discriminate].
  inversion H1; subst; clear H1. simpl in H.
  destruct (ofilter (fun v => option_map truthy (g v)) m) as [r'|] eqn:Hr; [|discriminate]. inversion H; subst; clear H.
  rewrite Hl. simpl.
  assert (Hc : ofilter (fun v => option_map truthy (and2 f g v)) l = Some r').
  { clear - Hm Hr. revert m r' Hm Hr. induction l as [|x xs IH]; intros m r' Hm Hr.
    - inversion Hm; subst. inversion Hr; subst. reflexivity.
    - simpl in Hm. apply obind_some in Hm. destruct Hm as [b [Hb Hm]].
      apply obind_some in Hm. destruct Hm as [m' [Hm' Hm]]. inversion Hm; subst; clear Hm.
      destruct (f x) as [a|] eqn:Hfx; [|discriminate]. simpl in Hb. inversion Hb; subst; clear Hb.
      simpl. unfold and2 at 1. rewrite Hfx. simpl.
      destruct (truthy a) eqn:Ha.
      + simpl in Hr. apply obind_some in Hr. destruct Hr as [b2 [Hb2 Hr]].
        apply obind_some in Hr. destruct Hr as [r2 [Hr2 Hr]]. inversion Hr; subst; clear Hr.
        rewrite Hb2. simpl. rewrite (IH _ _ Hm' Hr2). reflexivity.
      + simpl. rewrite Ha. rewrite (IH _ _ Hm' Hr). reflexivity. }
  rewrite Hc. reflexivity.
Qed.

(* rule 6: Where of Select:  filter after map = map after filtering on the composed predicate *)
Lemma Whr_Sel S f g : refines (Whr (Sel S f) g) (Sel (Whr S (kleisli f g)) f).
Proof.
  intros r H. destruct S as [s|]; [|discriminate]. unfold Whr at 1 in H. unfold Sel at 1 in H.
  cbn [obind] in *.
  apply obind_some in H. destruct H as [s1 [H1 H]].
  apply obind_some in H1. destruct H1 as [l [Hl H1]].
  destruct (omap f l) as [m|] eqn:Hm; [|discriminate]. inversion H1; subst; clear H1. simpl in H.
  destruct (ofilter (fun v => option_map truthy (g v)) m) as [r'|] eqn:Hr; [|discriminate]. inversion H; subst; clear H.
  unfold Sel, Whr. cbn [obind]. rewrite Hl. simpl.
  assert (Hc : exists kept, ofilter (fun v => option_map truthy (kleisli f g v)) l = Some kept /\ omap f kept = Some r').
  { clear - Hm Hr. revert m r' Hm Hr. induction l as [|x xs IH]; intros m r' Hm Hr.
    - inversion Hm; subst. inversion Hr; subst. exists []; split; reflexivity.
    - apply omap_some_cons in Hm. destruct Hm as (y & ys & Hy & Hys & ->).
      simpl in Hr. apply obind_some in Hr. destruct Hr as [b [Hb Hr]].
      apply obind_some in Hr. destruct Hr as [r2 [Hr2 Hr]]. inversion Hr; subst; clear Hr.
      destruct (IH _ _ Hys Hr2) as [kept [Hk Hfk]].
      simpl. unfold kleisli at 1. rewrite Hy. simpl. rewrite Hb. simpl. rewrite Hk. simpl.
      destruct b.
      + exists (x :: kept). split; [reflexivity|]. rewrite omap_cons, Hy. simpl. rewrite Hfk. reflexivity.
      + exists kept. split; [reflexivity | assumption]. }
  destruct Hc as [kept [Hk Hfk]]. rewrite Hk. simpl. rewrite Hfk. reflexivity.
Qed.

(* rule 7: Where of SelectMany *)
Lemma ofilter_concat {A} (p : A -> option bool) (ls : list (list A)) r :
  ofilter p (concat ls) = Some r ->
  exists rs, omap (fun l => ofilter p l) ls = Some rs /\ r = concat rs.
Proof.
  revert r; induction ls as [|l ls IH]; intros r H.
  - inversion H; subst. exists []; split; reflexivity.
  - simpl in H.
    assert (Happ : forall l1 l2 r0, ofilter p (l1 ++ l2) = Some r0 ->
              exists a b, ofilter p l1 = Some a /\ ofilter p l2 = Some b /\ r0 = a ++ b).
    { clear. induction l1 as [|x xs IH1]; intros l2 r0 H0.
      - exists [], r0. simpl. auto.
      - simpl in H0. apply obind_some in H0. destruct H0 as [b [Hb H0]].
        apply obind_some in H0. destruct H0 as [r1 [Hr1 H0]]. inversion H0; subst; clear H0.
        destruct (IH1 _ _ Hr1) as (a & b' & Ha & Hb' & ->).
        simpl. rewrite Hb. simpl. rewrite Ha. simpl.
        exists (if b then x :: a else a), b'. destruct b; auto. }
    destruct (Happ _ _ _ H) as (a & b & Ha & Hb & ->).
    destruct (IH _ Hb) as [rs [Hrs ->]].
    exists (a :: rs). rewrite omap_cons, Ha. simpl. rewrite Hrs. split; reflexivity.
Qed.

Lemma Whr_Many S f g : refines (Whr (Many S f) g) (Many S (fun v => Whr (f v) g)).
Proof.
  intros r H. destruct S as [s|]; [|discriminate]. unfold Whr at 1 in H. unfold Many at 1 in H.
  cbn [obind] in *.
  apply obind_some in H. destruct H as [s1 [H1 H]].
  apply obind_some in H1. destruct H1 as [l [Hl H1]].
  apply obind_some in H1. destruct H1 as [ls [Hls H1]]. inversion H1; subst; clear H1. simpl in H.
  destruct (ofilter (fun v => option_map truthy (g v)) (concat ls)) as [r'|] eqn:Hr; [|discriminate].
  inversion H; subst; clear H.
  destruct (ofilter_concat _ _ _ Hr) as [rs [Hrs ->]].
  unfold Many. cbn [obind]. rewrite Hl. simpl.
  assert (Hc : omap (fun v => obind (Whr (f v) g) as_list) l = Some rs).
  { clear - Hls Hrs. revert ls rs Hls Hrs. induction l as [|x xs IH]; intros ls rs Hls Hrs.
    - inversion Hls; subst. inversion Hrs; subst. reflexivity.
    - apply omap_some_cons in Hls. destruct Hls as (y & ys & Hy & Hys & ->).
      apply omap_some_cons in Hrs. destruct Hrs as (z & zs & Hz & Hzs & ->).
      rewrite omap_cons. apply obind_some in Hy. destruct Hy as [fv [Hfv Hy]].
      unfold Whr at 1. rewrite Hfv. cbn [obind]. rewrite Hy. cbn [obind option_map as_list]. rewrite Hz. cbn [obind option_map as_list].
      rewrite (IH _ _ Hys Hzs). reflexivity. }
  rewrite Hc. reflexivity.
Qed.

(* rules 8, 9: identity Select and constant-True Where are dropped *)
Lemma omap_id l : omap (fun v : value => Some v) l = Some l.
Proof. induction l as [|x xs IH]; [reflexivity|]. rewrite omap_cons. simpl. rewrite IH. reflexivity. Qed.

Lemma Sel_id S : refines (Sel S (fun v => Some v)) S.
Proof.
  intros r H. unfold Sel in H. apply obind_some in H. destruct H as [s [Hs H]].
  apply obind_some in H. destruct H as [l [Hl H]]. rewrite omap_id in H. inversion H; subst.
  destruct s; try discriminate. inversion Hl; subst. assumption.
Qed.

Lemma ofilter_true (l : list value) : ofilter (fun _ => Some true) l = Some l.
Proof. induction l as [|x xs IH]; [reflexivity|]. simpl. rewrite IH. reflexivity. Qed.

Lemma Whr_true S : refines (Whr S (fun _ => Some (VBool true))) S.
Proof.
  intros r H. unfold Whr in H. apply obind_some in H. destruct H as [s [Hs H]].
  apply obind_some in H. destruct H as [l [Hl H]]. simpl in H. rewrite ofilter_true in H. inversion H; subst.
  destruct s; try discriminate. inversion Hl; subst. assumption.
Qed.

(* First push-through.  [First(seq).attr  ->  First(Select(seq, a: a.attr))]: whenever the rewritten
   query has a value, the original has the same value; the converse needs the pushed function to be
   defined on every element (LINQ's Select is lazy, the list semantics used here is not). *)
Lemma Fst_Sel_back S h : refines (Fst (Sel S h)) (obind (Fst S) h).
Proof.
  intros r H. destruct S as [s|]; [|discriminate]. unfold Fst, Sel in *.
  cbn [obind] in *.
  apply obind_some in H. destruct H as [s1 [H1 H]].
  apply obind_some in H1. destruct H1 as [l [Hl H1]].
  destruct (omap h l) as [m|] eqn:Hm; [|discriminate]. inversion H1; subst; clear H1. simpl in H.
  rewrite Hl. simpl.
  destruct l as [|x xs]; [inversion Hm; subst; discriminate|].
  apply omap_some_cons in Hm. destruct Hm as (y & ys & Hy & _ & ->). simpl in H. inversion H; subst.
  simpl. assumption.
Qed.

Lemma Fst_Sel_total S h :
  (forall s l, S = Some s -> as_list s = Some l -> forall x, In x l -> exists y, h x = Some y) ->
  refines (obind (Fst S) h) (Fst (Sel S h)).
Proof.
  intros Htot r H. destruct S as [s|]; [|discriminate]. unfold Fst, Sel in *.
  cbn [obind] in *.
  apply obind_some in H. destruct H as [x [Hx H]].
  apply obind_some in Hx. destruct Hx as [l [Hl Hx]].
  rewrite Hl. simpl.
  destruct l as [|x0 xs]; [discriminate|]. simpl in Hx. inversion Hx; subst.
  assert (Hall : exists m, omap h (x :: xs) = Some m).
  { apply omap_total. apply Forall_forall. intros z Hz. eapply Htot; [reflexivity | eassumption | eassumption]. }
  destruct Hall as [m Hm]. rewrite Hm. simpl.
  apply omap_some_cons in Hm. destruct Hm as (y & ys & Hy & _ & ->). simpl. congruence.
Qed.

(* ------------------------------------------------------------------ Part 2: on the syntax *)

Section OnSyntax.
  Variable B : backend.
  Variable ops : list string.
  Notation ev := (eval B ops).

  Definition lam1 (E : env) (x : string) (b : expr) : value -> option value := fun v => ev ((x, v) :: E) b.

  Lemma eval_Select E s x b :
    ev E (function_call "Select" [s; Lambda [x] b]) = Sel (ev E s) (lam1 E x b).
  Proof. reflexivity. Qed.
  Lemma eval_Where E s x b :
    ev E (function_call "Where" [s; Lambda [x] b]) = Whr (ev E s) (lam1 E x b).
  Proof. reflexivity. Qed.
  Lemma eval_SelectMany E s x b :
    ev E (function_call "SelectMany" [s; Lambda [x] b]) = Many (ev E s) (lam1 E x b).
  Proof. reflexivity. Qed.
  Lemma eval_First E s : ev E (function_call "First" [s]) = Fst (ev E s).
  Proof. reflexivity. Qed.

  (* the body convolute builds: g(f(z)) evaluated at z = v *)
  Lemma eval_convolute_body E z x fb y gb v :
    occurs z fb = false -> occurs z gb = false ->
    ev ((z, v) :: E) (Call (Lambda [y] gb) [Call (Lambda [x] fb) [Name z] [] []] [] [])
    = kleisli (lam1 E x fb) (lam1 E y gb) v.
  Proof.
    intros Hf Hg. unfold kleisli, lam1. cbn [eval omap map sequence lookup].
    rewrite String.eqb_refl. cbn [obind bind_args bind_kw existsb option_map app].
    change ((x, v) :: (z, v) :: E) with ([(x, v)] ++ (z, v) :: E).
    rewrite (eval_weaken B ops fb [(x, v)] z v E Hf). cbn [app].
    destruct (ev ((x, v) :: E) fb) as [w|]; [|reflexivity]. cbn [obind option_map app].
    apply (eval_weaken B ops gb [(y, w)] z v E Hg).
  Qed.

  Lemma Sel_ext S f g : (forall v, f v = g v) -> Sel S f = Sel S g.
  Proof.
    intros H. unfold Sel. destruct S as [s|]; [|reflexivity]. simpl. destruct (as_list s) as [l|]; [|reflexivity]. simpl.
    f_equal. unfold omap. f_equal. apply map_ext. assumption.
  Qed.
  Lemma Many_ext S f g : (forall v, f v = g v) -> Many S f = Many S g.
  Proof.
    intros H. unfold Many. destruct S as [s|]; [|reflexivity]. simpl. destruct (as_list s) as [l|]; [|reflexivity]. simpl.
    replace (omap (fun v => obind (g v) as_list) l) with (omap (fun v => obind (f v) as_list) l); [reflexivity|].
    unfold omap. f_equal. apply map_ext. intros a. rewrite H. reflexivity.
  Qed.
  Lemma Whr_ext S f g : (forall v, f v = g v) -> Whr S f = Whr S g.
  Proof.
    intros H. unfold Whr. destruct S as [s|]; [|reflexivity]. simpl. destruct (as_list s) as [l|]; [|reflexivity]. simpl.
    f_equal. induction l as [|a l IH]; [reflexivity|]. simpl. rewrite H, IH. reflexivity.
  Qed.

  (* Select(Select(s, f), g)  ->  Select(s, lambda z: g(f(z))) *)
  Theorem rule_Select_of_Select E s x fb y gb z :
    occurs z fb = false -> occurs z gb = false ->
    refines (ev E (function_call "Select" [function_call "Select" [s; Lambda [x] fb]; Lambda [y] gb]))
            (ev E (function_call "Select" [s; Lambda [z] (Call (Lambda [y] gb) [Call (Lambda [x] fb) [Name z] [] []] [] [])])).
  Proof.
    intros Hf Hg. rewrite !eval_Select.
    eapply refines_trans; [apply Sel_Sel|]. apply refines_eq. apply Sel_ext. intros v. symmetry.
    apply eval_convolute_body; assumption.
  Qed.

  (* SelectMany(Select(s, f), g)  ->  SelectMany(s, lambda z: g(f(z))) *)
  Theorem rule_SelectMany_of_Select E s x fb y gb z :
    occurs z fb = false -> occurs z gb = false ->
    refines (ev E (function_call "SelectMany" [function_call "Select" [s; Lambda [x] fb]; Lambda [y] gb]))
            (ev E (function_call "SelectMany" [s; Lambda [z] (Call (Lambda [y] gb) [Call (Lambda [x] fb) [Name z] [] []] [] [])])).
  Proof.
    intros Hf Hg. rewrite !eval_SelectMany, eval_Select.
    eapply refines_trans; [apply Many_Sel|]. apply refines_eq. apply Many_ext. intros v. symmetry.
    apply eval_convolute_body; assumption.
  Qed.

  (* Where(Select(s, f), g)  ->  Select(Where(s, lambda z: g(f(z))), f) *)
  Theorem rule_Where_of_Select E s x fb y gb z :
    occurs z fb = false -> occurs z gb = false ->
    refines (ev E (function_call "Where" [function_call "Select" [s; Lambda [x] fb]; Lambda [y] gb]))
            (ev E (function_call "Select"
                     [function_call "Where" [s; Lambda [z] (Call (Lambda [y] gb) [Call (Lambda [x] fb) [Name z] [] []] [] [])];
                      Lambda [x] fb])).
  Proof.
    intros Hf Hg. rewrite eval_Where, !eval_Select, eval_Where.
    eapply refines_trans; [apply Whr_Sel|]. apply refines_eq. f_equal. apply Whr_ext. intros v. symmetry.
    apply eval_convolute_body; assumption.
  Qed.

  (* the moved lambda g lands under f's parameter x: sound when x does not occur in g *)
  Lemma lam1_under E x v y gb : occurs x gb = false -> forall w, lam1 ((x, v) :: E) y gb w = lam1 E y gb w.
  Proof. intros Hx w. unfold lam1. apply (eval_weaken B ops gb [(y, w)] x v E Hx). Qed.

  (* Select(SelectMany(s, f), g)  ->  SelectMany(s, lambda x: Select(f(x), g)) *)
  Theorem rule_Select_of_SelectMany E s x fb y gb :
    occurs x gb = false ->
    refines (ev E (function_call "Select" [function_call "SelectMany" [s; Lambda [x] fb]; Lambda [y] gb]))
            (ev E (function_call "SelectMany" [s; Lambda [x] (function_call "Select" [fb; Lambda [y] gb])])).
  Proof.
    intros Hx. rewrite eval_Select, !eval_SelectMany.
    eapply refines_trans; [apply Sel_Many|]. apply refines_eq. apply Many_ext. intros v. symmetry.
    unfold lam1 at 1. rewrite eval_Select. apply Sel_ext. apply lam1_under; assumption.
  Qed.

  (* SelectMany(SelectMany(s, f), g)  ->  SelectMany(s, lambda x: SelectMany(f(x), g)) *)
  Theorem rule_SelectMany_of_SelectMany E s x fb y gb :
    occurs x gb = false ->
    refines (ev E (function_call "SelectMany" [function_call "SelectMany" [s; Lambda [x] fb]; Lambda [y] gb]))
            (ev E (function_call "SelectMany" [s; Lambda [x] (function_call "SelectMany" [fb; Lambda [y] gb])])).
  Proof.
    intros Hx. rewrite !eval_SelectMany.
    eapply refines_trans; [apply Many_Many|]. apply refines_eq. apply Many_ext. intros v. symmetry.
    unfold lam1 at 1. rewrite eval_SelectMany. apply Many_ext. apply lam1_under; assumption.
  Qed.

  (* Where(SelectMany(s, f), g)  ->  SelectMany(s, lambda x: Where(f(x), g)) *)
  Theorem rule_Where_of_SelectMany E s x fb y gb :
    occurs x gb = false ->
    refines (ev E (function_call "Where" [function_call "SelectMany" [s; Lambda [x] fb]; Lambda [y] gb]))
            (ev E (function_call "SelectMany" [s; Lambda [x] (function_call "Where" [fb; Lambda [y] gb])])).
  Proof.
    intros Hx. rewrite eval_Where, !eval_SelectMany.
    eapply refines_trans; [apply Whr_Many|]. apply refines_eq. apply Many_ext. intros v. symmetry.
    unfold lam1 at 1. rewrite eval_Where. apply Whr_ext. apply lam1_under; assumption.
  Qed.

  (* Where(Where(s, f), g)  ->  Where(s, lambda z: f(z) and g(z)) *)
  Theorem rule_Where_of_Where E s x fb y gb z :
    occurs z fb = false -> occurs z gb = false ->
    refines (ev E (function_call "Where" [function_call "Where" [s; Lambda [x] fb]; Lambda [y] gb]))
            (ev E (function_call "Where"
                     [s; Lambda [z] (BoolOp And [Call (Lambda [x] fb) [Name z] [] []; Call (Lambda [y] gb) [Name z] [] []])])).
  Proof.
    intros Hf Hg. rewrite !eval_Where.
    eapply refines_trans; [apply Whr_Whr|]. apply refines_eq. apply Whr_ext. intros v. symmetry.
    unfold lam1 at 1, and2. cbn [eval boolop_sem omap map sequence lookup].
    rewrite String.eqb_refl. cbn [obind bind_args bind_kw existsb option_map app].
    change ((x, v) :: (z, v) :: E) with ([(x, v)] ++ (z, v) :: E).
    change ((y, v) :: (z, v) :: E) with ([(y, v)] ++ (z, v) :: E).
    rewrite (eval_weaken B ops fb [(x, v)] z v E Hf), (eval_weaken B ops gb [(y, v)] z v E Hg). cbn [app].
    fold (lam1 E x fb v). fold (lam1 E y gb v).
    destruct (lam1 E x fb v) as [a|]; reflexivity.
  Qed.

  (* make_Select drops an identity selection; call_Where drops a constant-True filter *)
  Theorem rule_identity_Select E s x :
    refines (ev E (function_call "Select" [s; Lambda [x] (Name x)])) (ev E s).
  Proof.
    rewrite eval_Select. rewrite (Sel_ext (ev E s) _ (fun v => Some v)); [apply Sel_id|].
    intros v. unfold lam1. cbn [eval lookup]. rewrite String.eqb_refl. reflexivity.
  Qed.

  Theorem make_Select_sound E s sel :
    refines (ev E (function_call "Select" [s; sel])) (ev E (make_Select s sel)).
  Proof.
    unfold make_Select. destruct (lambda_is_identity sel) eqn:Hid; [|apply refines_refl].
    destruct sel; try discriminate. destruct ps as [|p [|? ?]]; try discriminate.
    destruct sel; try discriminate. simpl in Hid. apply String.eqb_eq in Hid; subst.
    apply rule_identity_Select.
  Qed.

  Theorem rule_true_Where E s ps :
    refines (ev E (function_call "Where" [s; Lambda ps (Const (CBool true))])) (ev E s).
  Proof.
    destruct ps as [|x [|? ?]].
    - intros v H. cbn in H. destruct (ev E s) as [sv|]; [|discriminate]. simpl in H. destruct (as_list sv); discriminate.
    - rewrite eval_Where. rewrite (Whr_ext (ev E s) _ (fun _ => Some (VBool true))); [apply Whr_true|]. reflexivity.
    - intros v H. cbn in H. destruct (ev E s) as [sv|]; [|discriminate]. simpl in H. destruct (as_list sv); discriminate.
  Qed.

  (* First push-through, in the direction that holds unconditionally, and its converse under totality *)
  Theorem rule_First_attr_back E s z a :
    occurs z s = false \/ True ->
    refines (ev E (function_call "First" [function_call "Select" [s; Lambda [z] (Attr (Name z) a)]]))
            (ev E (Attr (function_call "First" [s]) a)).
  Proof.
    intros _. rewrite eval_First, eval_Select. cbn [eval]. fold (ev E (function_call "First" [s])). rewrite eval_First.
    eapply refines_trans; [apply Fst_Sel_back|].
    apply obind_refines_r. intros v. unfold lam1. cbn [eval lookup]. rewrite String.eqb_refl. apply refines_refl.
  Qed.

  (* literal projection: (e0, ..., en)[i] -> ei *)
  Lemma omap_nth {A C} (f : A -> option C) l r n x :
    omap f l = Some r -> nth_error l n = Some x -> exists y, f x = Some y /\ nth_error r n = Some y.
  Proof.
    revert r n; induction l as [|a l IH]; intros r n H Hn; [destruct n; discriminate|].
    apply omap_some_cons in H. destruct H as (y & ys & Hy & Hys & ->).
    destruct n; simpl in *.
    - inversion Hn; subst. eauto.
    - eauto.
  Qed.

  Lemma py_index_omap {A C} (f : A -> option C) l r n x :
    omap f l = Some r -> py_index l n = Some x -> exists y, f x = Some y /\ py_index r n = Some y.
  Proof.
    intros H Hx. unfold py_index in *. rewrite (omap_length _ _ _ H).
    destruct (0 <=? n)%Z; [eapply omap_nth; eassumption|].
    destruct (0 <=? Z.of_nat (length l) + n)%Z; [eapply omap_nth; eassumption | discriminate].
  Qed.

  Theorem rule_project_Tuple E es n x :
    py_index es n = Some x ->
    refines (ev E (Subscript (Tuple es) (Const (CInt n)))) (ev E x).
  Proof.
    intros Hx v H. cbn [eval const_value] in H.
    apply obind_some in H. destruct H as [a [Ha H]]. cbn [obind] in H.
    destruct (omap (ev E) es) as [r|] eqn:Hr; [|discriminate]. inversion Ha; subst; clear Ha.
    destruct (py_index_omap _ _ _ _ _ Hr Hx) as [y [Hy Hi]].
    cbn [subscript obind] in H. rewrite Hi in H. congruence.
  Qed.

  Theorem rule_project_List E es n x :
    py_index es n = Some x ->
    refines (ev E (Subscript (List es) (Const (CInt n)))) (ev E x).
  Proof.
    intros Hx v H. cbn [eval const_value] in H.
    apply obind_some in H. destruct H as [a [Ha H]]. cbn [obind] in H.
    destruct (omap (ev E) es) as [r|] eqn:Hr; [|discriminate]. inversion Ha; subst; clear Ha.
    destruct (py_index_omap _ _ _ _ _ Hr Hx) as [y [Hy Hi]].
    cbn [subscript obind] in H. rewrite Hi in H. congruence.
  Qed.
End OnSyntax.

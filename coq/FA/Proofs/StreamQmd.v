(* C16, first half: lookup_query_metadata on a stream = dictionary replay of the history along that stream's
   own derivation path (last writer wins, earlier keys stay visible, siblings do not see each other). *)
From Coq Require Import String List Arith Bool Lia.
From FA.Gen Require Import TablesStream.
From FA.Model Require Import Heap Stream.
From FA.Proofs Require Import HeapFacts StreamFrame StreamWalk.
Import ListNotations.
Open Scope list_scope.
Open Scope nat_scope.

Definition env := list (string * atom).

(* every stream's AST unfolds, and looking a key up in it gives what the replayed dictionary says *)
Definition Inv (st : state) (envs : list env) : Prop :=
  wf st /\ length envs = length (streams st) /\
  forall s x, nth_error (streams st) s = Some x ->
    exists t, unfold (heap_ st) (root x) = Some t /\ forall k, lookup_t k t = assoc k (nth s envs []).

Lemma Inv_init : Inv init [].
Proof. split; [apply wf_init|]. split; [reflexivity|]. intros s x H. destruct s; discriminate. Qed.

Lemma Inv_rho : forall st envs, Inv st envs ->
  forall s, s < length (streams st) -> exists t, rho_of (map root (streams st)) (heap_ st) s = Some t.
Proof.
  intros st envs (Hwf & Hlen & Hs) s Hlt. unfold rho_of.
  destruct (nth_error (streams st) s) as [x|] eqn:E; [|apply nth_error_None in E; lia].
  rewrite (map_nth_error root s (streams st) E). destruct (Hs s x E) as [t [Ht _]]. eauto.
Qed.

Lemma Inv_rho_lookup : forall st envs s x, Inv st envs -> nth_error (streams st) s = Some x ->
  exists t, rho_of (map root (streams st)) (heap_ st) s = Some t /\ forall k, lookup_t k t = assoc k (nth s envs []).
Proof.
  intros st envs s x (Hwf & Hlen & Hs) E. unfold rho_of. rewrite (map_nth_error root s (streams st) E).
  exact (Hs s x E).
Qed.

(* adding a stream whose AST looks up like [e] *)
Lemma Inv_add : forall st envs h x n e,
  Inv st envs -> heap_ext (heap_ st) h -> root x < length h ->
  (exists t, unfold h (root x) = Some t /\ forall k, lookup_t k t = assoc k e) ->
  Inv (fst (add_stream st h x n)) (envs ++ [e]).
Proof.
  intros st envs h x n e (Hwf & Hlen & Hs) Hx Hr Hnew.
  destruct (add_stream_frame st h x n _ _ Hwf Hx Hr (surjective_pairing _)) as [_ Hwf'].
  split; [exact Hwf'|]. unfold add_stream. cbn [fst streams heap_].
  split; [rewrite !app_length; cbn; lia|].
  intros s y E. destruct (Nat.lt_ge_cases s (length (streams st))) as [Hlt|Hge].
  - rewrite nth_error_app1 in E by exact Hlt. destruct (Hs s y E) as [t [Ht Hl]].
    exists t. split.
    + rewrite (unfold_ext _ _ _ Hx); [exact Ht|]. eapply wf_nth; eassumption.
    + intros k. rewrite app_nth1 by lia. apply Hl.
  - rewrite nth_error_app2 in E by exact Hge.
    destruct (s - length (streams st)) as [|m] eqn:Em; [|destruct m; discriminate].
    cbn in E. inversion E; subst y. assert (s = length envs) by lia. subst s.
    rewrite app_nth2 by lia. rewrite Nat.sub_diag. cbn [nth]. exact Hnew.
Qed.

Lemma Inv_heap : forall st envs h n l c, Inv st envs -> heap_ext (heap_ st) h ->
  Inv (mkstate h (streams st) n l c) envs.
Proof.
  intros st envs h n l c (Hwf & Hlen & Hs) Hx. split; [|split; [exact Hlen|]].
  - unfold wf in *. cbn [streams heap_]. eapply Forall_impl; [|exact Hwf]. intros y Hy. cbn beta in Hy.
    apply heap_ext_length in Hx. lia.
  - cbn [streams heap_]. intros s x E. destruct (Hs s x E) as [t [Ht Hl]]. exists t. split; [|exact Hl].
    rewrite (unfold_ext _ _ _ Hx); [exact Ht|]. eapply wf_nth; eassumption.
Qed.

(* ---------------------------------------------------------------- the trees the building operations allocate *)
Definition like (rho : nat -> option atree) (e : env) (it : itree) : Prop :=
  exists t, inst rho it = Some t /\ forall k, lookup_t k t = assoc k e.

Lemma like_ref : forall rho e s t, rho s = Some t -> (forall k, lookup_t k t = assoc k e) -> like rho e (G (IRef s) "" []).
Proof. intros. exists t. split; [assumption|assumption]. Qed.

Lemma plain_inst : forall rho it, plain it = true -> ref_free it = true -> exists t, inst rho it = Some t /\ quiet t.
Proof.
  intros rho it Hp Hr. destruct (inst_some 0 rho it) as [t Ht]; [intros; lia|now apply ref_free_below|].
  exists t. split; [exact Ht|]. eapply inst_plain_quiet; eassumption.
Qed.

Lemma plain_kids : forall rho its, Forall (fun it => plain it = true /\ ref_free it = true) its ->
  exists ts, inst_kids rho its = Some ts /\ Forall quiet ts.
Proof.
  intros rho its H. induction H as [|it l [Hp Hr] _ [ts [Hts Hq]]]; [exists []; split; [reflexivity|constructor]|].
  destruct (plain_inst rho it Hp Hr) as [t [Ht Hqt]]. exists (t :: ts). split; [|now constructor].
  unfold inst_kids in *. cbn [map sequence]. now rewrite Ht, Hts.
Qed.

(* f(src, plain...) with attribute-free call node looks up like src *)
Lemma like_call : forall rho e name src args,
  like rho e src -> Forall (fun it => plain it = true /\ ref_free it = true) args ->
  like rho e (fcall [] name (src :: args)).
Proof.
  intros rho e name src args [t [Ht Hl]] Hargs.
  destruct (plain_kids rho args Hargs) as [ts [Hts Hq]].
  exists (call_tree [] name (t :: ts)). split.
  - rewrite inst_fcall. unfold inst_kids in *. cbn [map sequence]. now rewrite Ht, Hts.
  - intros k. unfold lookup_t. rewrite lookup_call_tree. cbn [qmd_of assoc].
    unfold walk_kids. cbn [fold_left]. fold (walk_kids k ts (lookup_walk k t None)).
    rewrite walk_kids_quiet by exact Hq. apply Hl.
Qed.

Lemma like_wrappers : forall rho e name cb src,
  like rho e src -> Forall (fun it => plain it = true /\ ref_free it = true) cb ->
  like rho e (fold_left (fun acc md => fcall [] name [acc; md]) cb src).
Proof.
  intros rho e name cb. induction cb as [|md r IH]; intros src Hs Hcb; [exact Hs|].
  inversion Hcb; subst. cbn [fold_left]. apply IH; [|assumption].
  apply like_call; [exact Hs|]. constructor; [assumption|constructor].
Qed.

Lemma forallb_Forall_and : forall (P Q : itree -> bool) l,
  forallb (fun t => P t && Q t) l = true -> Forall (fun it => Q it = true /\ P it = true) l.
Proof.
  intros P Q l H. rewrite forallb_forall in H. rewrite Forall_forall. intros x Hx.
  specialize (H x Hx). apply andb_true_iff in H. tauto.
Qed.

Lemma seq_opt_res_in : forall A (l : list (option A)) r, seq_opt_res l = Ok r -> forall x, In x r -> In (Some x) l.
Proof.
  intros A. induction l as [|[y|] l IH]; intros r H x Hx.
  - cbn in H. inversion H; subst. destruct Hx.
  - cbn [seq_opt_res] in H. destruct (seq_opt_res l) as [r'|]; [|discriminate]. inversion H; subst.
    destruct Hx as [->|Hx]; [now left|right; eapply IH; eauto].
  - discriminate.
Qed.

Lemma assoc_in : forall A k (l : list (string * A)) v, assoc k l = Some v -> In (k, v) l.
Proof.
  intros A k l v. induction l as [|[k' v'] r IH]; intros H; [discriminate|]. cbn [assoc] in H.
  destruct (String.eqb k k') eqn:E; [apply String.eqb_eq in E; inversion H; subst; now left|right; auto].
Qed.

Lemma exec_name_not_qmd : String.eqb "_q_metadata" executor_attr_name = false.
Proof. reflexivity. Qed.

(* what [build] produces, for a plain operation, looks up like the environment the replay gives the new stream *)
Lemma build_like : forall st envs o it ty,
  Inv st envs -> op_plain o = true -> build st o = Ok (it, ty) ->
  like (rho_of (map root (streams st)) (heap_ st))
       (nth (length envs) (env_step envs o true) []) it.
Proof.
  intros st envs o it ty HI Hp Hb.
  assert (Hlast : forall e, nth (length envs) (envs ++ [e]) [] = e).
  { intros e. rewrite app_nth2 by lia. now rewrite Nat.sub_diag. }
  destruct o as [ty0|t ty0|s k lam cb rty|s lit|s kvs|s m lits|s ov title|c r]; cbn [build] in Hb; try discriminate.
  - (* NewDataset *)
    inversion Hb; subst it ty; clear Hb. cbn [env_step]. rewrite Hlast.
    exists (call_tree [(executor_attr_name, AExec (EDs (nds st))); ("_eds_object"%string, AEds (nds st))] "EventDataset" []).
    split; [now rewrite inst_fcall|]. intros k. unfold lookup_t. rewrite lookup_call_tree.
    unfold qmd_of. cbn [assoc]. rewrite exec_name_not_qmd. reflexivity.
  - (* NewStream *)
    inversion Hb; subst it ty; clear Hb. cbn [env_step]. rewrite Hlast. cbn [op_plain] in Hp.
    apply andb_true_iff in Hp. destruct Hp as [Hr Hpl].
    destruct (plain_inst (rho_of (map root (streams st)) (heap_ st)) t Hpl Hr) as [t' [Ht' Hq]].
    exists t'. split; [exact Ht'|]. intros k. apply Hq.
  - (* Derive *)
    destruct (nth_error (streams st) s) as [ps|] eqn:Es; [|discriminate].
    destruct (node_name (dkind_method k)) as [nm|]; [|discriminate].
    destruct (node_name "MetaData") as [mdn|]; [|discriminate].
    cbn [env_step]. rewrite Hlast. cbn [op_plain] in Hp.
    apply andb_true_iff in Hp. destruct Hp as [Hp Hcb]. apply andb_true_iff in Hp. destruct Hp as [Hr Hpl].
    destruct (Inv_rho_lookup st envs s ps HI Es) as [tp [Htp Hlp]].
    assert (Hsrc : like (rho_of (map root (streams st)) (heap_ st)) (nth s envs [])
                     (fold_left (fun acc md => fcall [] mdn [acc; md]) cb (G (IRef s) "" []))).
    { apply like_wrappers; [eapply like_ref; eassumption|]. now apply forallb_Forall_and. }
    assert (Hall : like (rho_of (map root (streams st)) (heap_ st)) (nth s envs [])
                     (fcall [] nm [fold_left (fun acc md => fcall [] mdn [acc; md]) cb (G (IRef s) "" []); lam])).
    { apply like_call; [exact Hsrc|]. constructor; [now split|constructor]. }
    destruct k; [| |destruct (String.eqb rty bool_ty); [|discriminate]]; inversion Hb; subst it ty; exact Hall.
  - (* MetaData *)
    destruct (nth_error (streams st) s) as [ps|] eqn:Es; [|discriminate].
    destruct (node_name "MetaData") as [mdn|]; [|discriminate].
    inversion Hb; subst it ty; clear Hb. cbn [env_step]. rewrite Hlast. cbn [op_plain] in Hp.
    apply andb_true_iff in Hp. destruct Hp as [Hr Hpl].
    destruct (Inv_rho_lookup st envs s ps HI Es) as [tp [Htp Hlp]].
    apply like_call; [eapply like_ref; eassumption|]. constructor; [now split|constructor].
  - (* Terminal *)
    destruct (nth_error (streams st) s) as [ps|] eqn:Es; [|discriminate].
    destruct (find (fun x => String.eqb m (fst (fst x))) terminals) as [x|]; [|discriminate].
    destruct (seq_opt_res (map (fun p => assoc p lits) (snd x))) as [args|] eqn:Ea; [|discriminate].
    inversion Hb; subst it ty; clear Hb. cbn [env_step]. rewrite Hlast. cbn [op_plain] in Hp.
    destruct (Inv_rho_lookup st envs s ps HI Es) as [tp [Htp Hlp]].
    apply like_call; [eapply like_ref; eassumption|].
    rewrite Forall_forall. intros a Ha. pose proof (seq_opt_res_in _ _ _ Ea a Ha) as Hin.
    apply in_map_iff in Hin. destruct Hin as [p [Hp1 _]]. apply assoc_in in Hp1.
    rewrite forallb_forall in Hp. specialize (Hp (p, a) Hp1). cbn [snd] in Hp.
    apply andb_true_iff in Hp. tauto.
Qed.

(* ---------------------------------------------------------------- QMetaData *)
Lemma qmd_lookup_after : forall (L : string -> option atom) (e : env) kvs,
  (forall k, L k = assoc k e) -> nodup_keys kvs = true ->
  forall k,
    match assoc k (filter (fun kv => match L (fst kv) with
                                     | None => true
                                     | Some f => atom_eqb f none_atom || negb (atom_eqb f (snd kv))
                                     end) kvs) with
    | Some v => Some v
    | None => L k
    end = assoc k (dict_merge e kvs).
Proof.
  intros L e kvs HL Hn k. rewrite (assoc_dict_merge kvs e k Hn), (assoc_filter _ kvs k Hn).
  destruct (assoc k kvs) as [v|]; [|apply HL]. cbn [fst snd].
  destruct (L k) as [f|] eqn:ELk; [|reflexivity].
  destruct (atom_eqb f none_atom || negb (atom_eqb f v)) eqn:E; [reflexivity|].
  apply orb_false_iff in E. destruct E as [_ E]. apply negb_false_iff in E. apply atom_eqb_eq in E. now subst.
Qed.

Lemma qmd_of_set : forall at_ d, qmd_of (assoc_set "_q_metadata" (AQmd d) at_) = d.
Proof. intros. unfold qmd_of. now rewrite assoc_set_same. Qed.

(* ---------------------------------------------------------------- one step *)
Lemma step_Inv : forall st envs o st' out,
  Inv st envs -> op_plain o = true -> step st o = (st', out) -> Inv st' (env_step envs o (is_ostream out)).
Proof.
  intros st envs o st' out HI Hp H.
  assert (Hsame : forall e, (st, OErr e) = (st', out) -> Inv st' (env_step envs o (is_ostream out))).
  { intros e He. inversion He; subst. exact HI. }
  assert (Hbuild : (match build st o with
                    | Err e => (st, OErr e)
                    | Ok (it, ty) =>
                        match alloc (map root (streams st)) it (heap_ st) with
                        | Ok (h', HA a) =>
                            add_stream st h' (mkstream a ty) (match o with NewDataset _ => S (nds st) | _ => nds st end)
                        | Ok (_, HL _) => (st, OErr EBadTree)
                        | Err e => (st, OErr e)
                        end
                    end) = (st', out) -> Inv st' (env_step envs o (is_ostream out))).
  { intros Hb. destruct (build st o) as [[it ty]|e] eqn:Eb; [|now apply (Hsame _ Hb)].
    destruct (alloc (map root (streams st)) it (heap_ st)) as [[h' [a|a]]|e] eqn:Ea; try now apply (Hsame _ Hb).
    pose proof HI as (Hwf & Hlen & _).
    apply alloc_spec in Ea; [|now apply wf_rs_ok]. destruct Ea as (Hx & Hv & Hu).
    destruct (build_like st envs o it ty HI Hp Eb) as [t [Ht Hl]].
    assert (Hout : out = OStream (length (streams st))) by (unfold add_stream in Hb; now inversion Hb).
    subst out. cbn [is_ostream].
    assert (Henv : env_step envs o true = envs ++ [nth (length envs) (env_step envs o true) []]).
    { assert (Hl2 : forall e, nth (length envs) (envs ++ [e]) [] = e).
      { intros e. rewrite app_nth2 by lia. now rewrite Nat.sub_diag. }
      destruct o; cbn [build] in Eb; try discriminate; cbn [env_step]; now rewrite Hl2. }
    rewrite Henv.
    replace st' with (fst (add_stream st h' (mkstream a ty) (match o with NewDataset _ => S (nds st) | _ => nds st end)))
      by now rewrite Hb.
    apply Inv_add; [exact HI|exact Hx|exact Hv|].
    exists t. split; [|exact Hl]. cbn [root]. change (unfold h' a) with (unfold_v h' (HA a)). now rewrite Hu. }
  destruct o as [ty|t ty|s k lam cb rty|s lit|s kvs|s m lits|s ov title|c r]; try exact (Hbuild H).
  - (* QMetaData *)
    cbn [step] in H. cbn [op_plain] in Hp.
    destruct (nth_error (streams st) s) as [ps|] eqn:Es; [|now apply (Hsame _ H)].
    pose proof HI as (Hwf & Hlen & Hstreams).
    destruct (Hstreams s ps Es) as [t [Ht Hl]]. rewrite Ht in H.
    destruct (hget (heap_ st) (root ps)) as [base|] eqn:Eb; [|now apply (Hsame _ H)].
    pose proof (wf_nth st s ps Hwf Es) as Hr.
    destruct (copy_unfold _ _ _ _ Eb Ht) as [fs' [Hteq Hcopy]].
    assert (Hafter : forall k, match assoc k (qmd_added t kvs) with Some v => Some v | None => lookup_t k t end
                               = assoc k (dict_merge (nth s envs []) kvs))
      by exact (qmd_lookup_after (fun k => lookup_t k t) (nth s envs []) kvs Hl Hp).
    assert (Hlast : nth (length envs) (envs ++ [dict_merge (nth s envs []) kvs]) [] = dict_merge (nth s envs []) kvs).
    { rewrite app_nth2 by lia. now rewrite Nat.sub_diag. }
    destruct (qmd_added t kvs) as [|kv added] eqn:Eadd.
    + assert (Hout : out = OStream (length (streams st))) by (unfold add_stream in H; now inversion H).
      subst out. cbn [is_ostream env_step].
      replace st' with (fst (add_stream st (heap_ st) (mkstream (root ps) (ity ps)) (nds st))) by now rewrite H.
      apply Inv_add; [exact HI|apply heap_ext_refl|exact Hr|].
      exists t. split; [exact Ht|]. intros k. rewrite <- Hafter. reflexivity.
    + destruct (hcopy (heap_ st) (root ps)) as [[h1 c]|] eqn:Ec; [|now apply (Hsame _ H)].
      apply hcopy_spec in Ec. destruct Ec as (n & Hn & -> & ->). rewrite Eb in Hn. inversion Hn; subst n; clear Hn.
      unfold set_attr in H. rewrite hupd_new in H. cbn [ncls nfields nattrs] in H.
      assert (Hout : out = OStream (length (streams st))) by (unfold add_stream in H; now inversion H).
      subst out. cbn [is_ostream env_step].
      match type of H with add_stream st ?h ?x ?n = _ => replace st' with (fst (add_stream st h x n)) by now rewrite H end.
      apply Inv_add; [exact HI|apply heap_ext_cons|cbn; lia|].
      cbn [root]. rewrite Hcopy. eexists. split; [reflexivity|].
      intros k. rewrite <- Hafter. unfold lookup_t at 1. rewrite lookup_walk_G, qmd_of_set.
      assert (Hnd : nodup_keys (kv :: added) = true).
      { rewrite <- Eadd. unfold qmd_added. now apply filter_nodup_keys. }
      rewrite (assoc_dict_merge (kv :: added) (qmd_of (nattrs base)) k Hnd).
      destruct (assoc k (kv :: added)); [reflexivity|].
      subst t. unfold lookup_t. rewrite lookup_walk_G. reflexivity.
  - (* ValueStart *)
    cbn [step] in H. destruct (nth_error (streams st) s) as [ps|] eqn:Es; [|now apply (Hsame _ H)].
    destruct (unfold (heap_ st) (root ps)) as [t|]; [|now apply (Hsame _ H)].
    destruct (match ov with Some k => Ok (EOv k) | None => exec_walk t end) as [exe|e]; [|now apply (Hsame _ H)].
    destruct (remove_empty_h (heap_ st) (root ps)) as [[h' v]|e] eqn:Er; [|now apply (Hsame _ H)].
    inversion H; subst st' out; clear H. cbn [is_ostream env_step].
    apply Inv_heap; [exact HI|]. eapply remove_empty_h_ext; eassumption.
  - (* ValueFinish *)
    cbn [step] in H. destruct (nth_error (calls st) c) as [[r0|]|]; try now apply (Hsame _ H).
    inversion H; subst st' out; clear H. cbn [is_ostream env_step].
    apply Inv_heap; [exact HI|apply heap_ext_refl].
Qed.

Lemma run_from_Inv : forall ops st envs,
  Inv st envs -> forallb op_plain ops = true ->
  Inv (fst (run_from st ops)) (env_replay envs ops (snd (run_from st ops))).
Proof.
  induction ops as [|o r IH]; intros st envs HI Hp; [exact HI|].
  cbn [forallb] in Hp. apply andb_true_iff in Hp. destruct Hp as [Hp1 Hp2].
  cbn [run_from]. destruct (step st o) as [st1 o1] eqn:E1.
  pose proof (step_Inv st envs o st1 o1 HI Hp1 E1) as HI1.
  specialize (IH st1 _ HI1 Hp2). destruct (run_from st1 r) as [st2 os2]. cbn [fst snd env_replay] in *. exact IH.
Qed.

(* lookup = the value most recently set for the key on the stream's own derivation path; None if never set *)
Theorem qmd_last_writer : forall ops s k,
  forallb op_plain ops = true -> live (run ops) s -> lookup (run ops) s k = qmd_spec ops s k.
Proof.
  intros ops s k Hp Hl. pose proof (run_from_Inv ops init [] Inv_init Hp) as (Hwf & Hlen & Hs).
  unfold lookup, qmd_spec, run, outs, live in *.
  destruct (nth_error (streams (fst (run_from init ops))) s) as [x|] eqn:E; [|apply nth_error_None in E; unfold run in Hl; lia].
  destruct (Hs s x E) as [t [Ht Hlk]]. rewrite Ht. apply Hlk.
Qed.

(* every stream's AST unfolds (no dangling or forward reference is ever created) *)
Theorem roots_unfold : forall ops s x, forallb op_plain ops = true ->
  nth_error (streams (run ops)) s = Some x -> exists t, unfold (heap_ (run ops)) (root x) = Some t.
Proof.
  intros ops s x Hp E. pose proof (run_from_Inv ops init [] Inv_init Hp) as (_ & _ & Hs).
  destruct (Hs s x E) as [t [Ht _]]. eauto.
Qed.

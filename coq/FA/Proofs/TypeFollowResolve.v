(* Which class and method a method call resolves to - the candidate loop of process_method_call read as a pure
   function (no events, no nested following), and the proof that the model's loop is "resolve, then act".

   [resolve] is polymorphic in the representation of arguments (like [fill]), so that the same definition serves
   the model's annotated arguments (here) and plain expressions (the specifications of C09 and C08). *)
From FA.Base Require Import PyAst Value Induct Traverse.
From FA.Gen Require Import TablesUtil TablesTypes.
From FA.Model Require Import TypeDefs TypeFollow.
From FA.Proofs Require Import TraverseFacts TypeFollowFacts TypeFollowFill TypeFollowNormalised.
From Coq Require Import Lia.

Section Resolve.
  Context {A : Type}.
  Variable mk : const -> A.
  Variable is_lam : A -> bool.
  Variable ct : classtab.

  Inductive plan :=
   | PNone                                                     (* nobody knows the method: the call is left alone *)
   | PStatic (bo : ty) (m : method) (args2 : list A) (kws2 : list (option string * A)) (t : ty) (full : bool)
                                                               (* typed from the return annotation *)
   | PStream (bo : ty) (m : method) (args2 : list A) (kws2 : list (option string * A)) (item : ty).
                                                               (* typed by really calling the collection object's method *)

  Definition plan_full (p : plan) : bool :=
    match p with PStatic _ _ _ _ _ f => f | PStream _ _ _ _ _ => true | PNone => false end.

  (* can the method be called on a collection object: process_method_call_on_stream_obj takes 0 or 1 argument *)
  Inductive stream_target := STNone | STCrash | STItem (item : ty).
  Definition stream_target_of (bo : ty) (args2 : list A) : stream_target :=
    match bo with
    | TCls c targs =>
        if is_collection ct c then
          match targs with
          | [] => STCrash
          | item :: _ => match args2 with [] | [_] => STItem item | _ => STNone end
          end
        else STNone
    | _ => STNone
    end.

  Fixpoint resolve (cands : list ty) (a : string) (args : list A) (kws : list (option string * A)) (last : plan)
    : tres plan :=
    match cands with
    | [] => Ok last
    | bo :: rest =>
        match get_method_and_class ct bo a with
        | None => resolve rest a args kws last
        | Some (_, MProp _) => Refuse RNotCallable
        | Some (mcls, MMethod m) =>
            match fill mk (m_params m) args kws with
            | inr p => Refuse (RMissingArg p)
            | inl (args2, kws2) =>
                let ret := resolve_type_vars ct (match m_ret m with Some t => t | None => TAny end) bo mcls in
                let last1 := match ret with
                             | Some t => PStatic bo m args2 kws2 t (negb (existsb is_lam args2))
                             | None => last
                             end in
                if plan_full last1 then Ok last1
                else match stream_target_of bo args2 with
                     | STCrash => Crash CkAttr
                     | STItem item => Ok (PStream bo m args2 kws2 item)
                     | STNone => resolve rest a args kws last1
                     end
            end
        end
    end.
End Resolve.

Arguments PNone {A}.
Arguments PStatic {A}.
Arguments PStream {A}.

(* ---------- the model's loop is: resolve, then act on the plan ---------- *)

Section Loop.
  Variable W : world.
  Let ct := w_ct W.
  Variable a : string.
  Variable f' : expr.

  Definition is_lam_arg (x : aarg) : bool := is_lambda (aexpr x).

  Definition node_of_plan (args2 : list aarg) (kws2 : list (option string * aarg)) : expr :=
    Call f' (map aexpr args2) (map fst kws2) (map (fun kv => aexpr (snd kv)) kws2).

  Definition mres_of (p : plan (A:=aarg)) : option mres :=
    match p with
    | PStatic bo m args2 kws2 t full =>
        Some {| mr_node := node_of_plan args2 kws2; mr_ty := t; mr_full := full; mr_obj := Some (bo, m); mr_ev := [] |}
    | _ => None
    end.

  Definition exec (p : plan (A:=aarg)) : tres (option mres) :=
    match p with
    | PStream bo m args2 kws2 _ => follow_on_stream_obj W bo m f' args2 kws2
    | _ => Ok (mres_of p)
    end.

  Lemma fos_when_target bo m args2 kws2 :
    match stream_target_of ct bo args2 with
    | STNone => follow_on_stream_obj W bo m f' args2 kws2 = Ok None
    | STCrash => follow_on_stream_obj W bo m f' args2 kws2 = Crash CkAttr
    | STItem _ => match follow_on_stream_obj W bo m f' args2 kws2 with
                  | Ok (Some r) => mr_full r = true
                  | Ok None => False
                  | _ => True
                  end
    end.
  Proof.
    unfold stream_target_of, follow_on_stream_obj. fold ct.
    destruct bo; try reflexivity. destruct (is_collection ct c); [|reflexivity].
    destruct args as [|item targs]; [reflexivity|].
    destruct args2 as [|x [|y r]]; [reflexivity | | reflexivity].
    destruct (m_op m); try exact I;
      (destruct (snd x) as [| |p k]; try exact I;
       destruct (k item) as [[[b t] ev]|?|?]; cbn [bind]; try exact I;
       destruct (finish_op W _ item p (b, t, ev)) as [[[lam t'] ev']|?|?]; cbn [bind]; try exact I; reflexivity).
  Qed.

  Lemma loop_resolve cands : forall args kws (last : plan (A:=aarg)),
    (forall bo m a2 k2 it, last <> PStream bo m a2 k2 it) ->
    plan_full last = false ->
    method_loop W cands a f' args kws (mres_of last) =
      bind (resolve mk_const_arg is_lam_arg ct cands a args kws last) exec.
  Proof.
    induction cands as [|bo rest IH]; intros args kws last Hns Hnf; cbn [method_loop resolve].
    - destruct last; try reflexivity. exfalso. eapply Hns; reflexivity.
    - fold ct. destruct (get_method_and_class ct bo a) as [[mcls [m|pc]]|]; [| reflexivity | apply IH; assumption].
      destruct (fill mk_const_arg (m_params m) args kws) as [[args2 kws2]|pn]; [|reflexivity].
      set (ret := resolve_type_vars ct (match m_ret m with Some t => t | None => TAny end) bo mcls).
      destruct ret as [t|].
      + (* a static result *)
        cbn [plan_full]. change (existsb (fun x => is_lambda (aexpr x)) args2) with (existsb is_lam_arg args2).
        destruct (negb (existsb is_lam_arg args2)) eqn:Efull.
        * cbn [negb bind]. reflexivity.
        * cbn [negb]. pose proof (fos_when_target bo m args2 kws2) as Ht.
          destruct (stream_target_of ct bo args2) as [| |item].
          -- rewrite Ht. cbn [bind].
             rewrite <- (IH args kws (PStatic bo m args2 kws2 t false)); [reflexivity | discriminate | reflexivity].
          -- rewrite Ht. reflexivity.
          -- cbn [bind exec].
             destruct (follow_on_stream_obj W bo m f' args2 kws2) as [[r|]|?|?]; cbn [mr_full negb bind]; try reflexivity; try contradiction.
             rewrite Ht. reflexivity.
      + (* no static result *)
        rewrite Hnf.
        assert (Hneed : match mres_of last with None => true | Some r => negb (mr_full r) end = true).
        { destruct last; cbn in *; try reflexivity. rewrite Hnf. reflexivity. }
        rewrite Hneed. pose proof (fos_when_target bo m args2 kws2) as Ht.
        destruct (stream_target_of ct bo args2) as [| |item].
        * rewrite Ht. cbn [bind].
          destruct (mres_of last) as [r|] eqn:El.
          -- assert (mr_full r = false).
             { destruct last; cbn in El; try discriminate. inversion El; subst. cbn in *. exact Hnf. }
             rewrite H. rewrite <- El. apply IH; assumption.
          -- rewrite <- El. apply IH; assumption.
        * rewrite Ht. reflexivity.
        * cbn [bind exec].
          destruct (follow_on_stream_obj W bo m f' args2 kws2) as [[r|]|?|?]; cbn [bind]; try reflexivity; try contradiction.
          rewrite Ht. reflexivity.
  Qed.

  Lemma method_loop_resolve cands args kws :
    method_loop W cands a f' args kws None =
      bind (resolve mk_const_arg is_lam_arg ct cands a args kws PNone) exec.
  Proof. apply (loop_resolve cands args kws PNone); [discriminate | reflexivity]. Qed.
End Loop.

(* ---------- resolving over annotated arguments = resolving over their expressions ---------- *)

Definition plan_map {A B} (h : A -> B) (p : plan (A:=A)) : plan (A:=B) :=
  match p with
  | PNone => PNone
  | PStatic bo m a2 k2 t f => PStatic bo m (map h a2) (map (hk h) k2) t f
  | PStream bo m a2 k2 it => PStream bo m (map h a2) (map (hk h) k2) it
  end.

Lemma resolve_map {A B} (h : A -> B) mkA mkB (lamA : A -> bool) (lamB : B -> bool) ct :
  (forall c, h (mkA c) = mkB c) -> (forall x, lamB (h x) = lamA x) ->
  forall cands a args kws last,
    resolve mkB lamB ct cands a (map h args) (map (hk h) kws) (plan_map h last) =
      match resolve mkA lamA ct cands a args kws last with
      | Ok p => Ok (plan_map h p)
      | Refuse r => Refuse r
      | Crash k => Crash k
      end.
Proof.
  intros Hmk Hlam. induction cands as [|bo rest IH]; intros a args kws last; cbn [resolve]; [reflexivity|].
  destruct (get_method_and_class ct bo a) as [[mcls [m|pc]]|]; [| reflexivity | apply IH].
  unfold fill. rewrite (fill_go_map h mkA mkB Hmk).
  destruct (fill_go mkA (m_params m) 0 args kws) as [[args2 kws2]|pn]; [|reflexivity].
  assert (Hex : existsb lamB (map h args2) = existsb lamA args2).
  { induction args2 as [|x xs IHx]; cbn; [reflexivity|]. rewrite Hlam, IHx. reflexivity. }
  assert (Hst : stream_target_of ct bo (map h args2) = stream_target_of ct bo args2).
  { unfold stream_target_of. destruct bo; try reflexivity. destruct (is_collection ct c); [|reflexivity].
    destruct args0; [reflexivity|]. destruct args2 as [|x [|y r]]; reflexivity. }
  destruct (resolve_type_vars ct _ bo mcls) as [t|].
  - cbn [plan_full]. rewrite Hex. destruct (negb (existsb lamA args2)); [reflexivity|].
    rewrite Hst. destruct (stream_target_of ct bo args2); [| reflexivity | reflexivity].
    apply (IH a args kws (PStatic bo m args2 kws2 t false)).
  - assert (Hpf : plan_full (plan_map h last) = plan_full last) by (destruct last; reflexivity).
    rewrite Hpf. destruct (plan_full last); [reflexivity|].
    rewrite Hst. destruct (stream_target_of ct bo args2); [| reflexivity | reflexivity].
    apply IH.
Qed.

(* a stream plan is only made for a collection object with at most one argument, and names the method it found *)
Lemma resolve_stream_inv {A} (mk : const -> A) (is_lam : A -> bool) ct cands a args kws :
  forall last bo m a2 k2 item,
    (forall bo' m' a' k' it', last <> PStream bo' m' a' k' it') ->
    resolve mk is_lam ct cands a args kws last = Ok (PStream bo m a2 k2 item) ->
    stream_target_of ct bo a2 = STItem item /\
    exists mcls, get_method_and_class ct bo a = Some (mcls, MMethod m) /\ fill mk (m_params m) args kws = inl (a2, k2).
Proof.
  induction cands as [|bo0 rest IH]; intros last bo m a2 k2 item Hns H; cbn [resolve] in H.
  - inversion H; subst. exfalso. eapply Hns; reflexivity.
  - destruct (get_method_and_class ct bo0 a) as [[mcls [m0|pc]]|] eqn:Em; [| discriminate | eapply IH; eauto].
    destruct (fill mk (m_params m0) args kws) as [[args2 kws2]|pn] eqn:Ef; [|discriminate].
    destruct (resolve_type_vars ct _ bo0 mcls) as [t|].
    + cbn [plan_full] in H. destruct (negb (existsb is_lam args2)); [discriminate|].
      destruct (stream_target_of ct bo0 args2) as [| |it] eqn:Est; [| discriminate |].
      * eapply IH; [|exact H]. discriminate.
      * inversion H; subst. split; [exact Est|]. eauto.
    + destruct (plan_full last) eqn:Epf.
      * inversion H; subst. exfalso. eapply Hns; reflexivity.
      * destruct (stream_target_of ct bo0 args2) as [| |it] eqn:Est; [| discriminate |].
        -- eapply IH; eauto.
        -- inversion H; subst. split; [exact Est|]. eauto.
Qed.

Lemma resolve_static_inv {A} (mk : const -> A) (is_lam : A -> bool) ct cands a args kws :
  forall last bo m a2 k2 t full,
    (forall bo' m' a' k' t' f', last = PStatic bo' m' a' k' t' f' ->
       exists mcls, get_method_and_class ct bo' a = Some (mcls, MMethod m') /\ fill mk (m_params m') args kws = inl (a', k') /\
                    resolve_type_vars ct (match m_ret m' with Some r => r | None => TAny end) bo' mcls = Some t') ->
    resolve mk is_lam ct cands a args kws last = Ok (PStatic bo m a2 k2 t full) ->
    exists mcls, get_method_and_class ct bo a = Some (mcls, MMethod m) /\ fill mk (m_params m) args kws = inl (a2, k2) /\
                 resolve_type_vars ct (match m_ret m with Some r => r | None => TAny end) bo mcls = Some t.
Proof.
  induction cands as [|bo0 rest IH]; intros last bo m a2 k2 t full Hl H; cbn [resolve] in H.
  - inversion H; subst. eapply Hl; reflexivity.
  - destruct (get_method_and_class ct bo0 a) as [[mcls [m0|pc]]|] eqn:Em; [| discriminate | eapply IH; eauto].
    destruct (fill mk (m_params m0) args kws) as [[args2 kws2]|pn] eqn:Ef; [|discriminate].
    destruct (resolve_type_vars ct _ bo0 mcls) as [t0|] eqn:Er.
    + cbn [plan_full] in H. destruct (negb (existsb is_lam args2)).
      * inversion H; subst. eauto.
      * destruct (stream_target_of ct bo0 args2); try discriminate.
        eapply IH; [|exact H]. intros bo' m' a' k' t' f' E. inversion E; subst. eauto.
    + destruct (plan_full last).
      * inversion H; subst. eapply Hl; reflexivity.
      * destruct (stream_target_of ct bo0 args2); try discriminate. eapply IH; eauto.
Qed.

(* C01: structural facts about the composed model (Model/Pipeline.v).

   - what the generated tables of object_stream.py make the model emit (these lemmas are closed by computation over
     Gen/TablesStream.v: a change of a node name or of an argument order in the source breaks them);
   - each component hands a one-parameter lambda on as a one-parameter lambda with the same parameter;
   - the list combinators of the direct semantics are the ones of the reference semantics. *)
From FA.Base Require Import PyAst Value Eval.
From FA.Gen Require Import Tables TablesStream.
From FA.Model Require Import TypeDefs Pipeline.
From FA.Model Require Capture Sugar TypeFollow MetaData.
From FA.Proofs Require Import TraverseFacts.

(* ---------- the emitted nodes ---------- *)

Lemma op_node_select src lam : op_node OpSelect src lam = Some (function_call "Select" [src; lam]).
Proof. reflexivity. Qed.

Lemma op_node_where src lam : op_node OpWhere src lam = Some (function_call "Where" [src; lam]).
Proof. reflexivity. Qed.

Lemma op_node_selectmany src lam : op_node OpSelectMany src lam = Some (function_call "SelectMany" [src; lam]).
Proof. reflexivity. Qed.

Lemma op_node_other op src lam : op_node op src lam <> None -> op = OpSelect \/ op = OpSelectMany \/ op = OpWhere.
Proof. destruct op; cbn; intros H; auto; contradiction H; reflexivity. Qed.

Lemma md_node_is src d : md_node src d = Some (function_call "MetaData" [src; d]).
Proof. reflexivity. Qed.

Definition op_name (op : opkind) : string :=
  match op with OpSelect => "Select" | OpSelectMany => "SelectMany" | OpWhere => "Where" | _ => "" end.

Lemma op_node_some op src lam q :
  op_node op src lam = Some q ->
  (op = OpSelect \/ op = OpSelectMany \/ op = OpWhere) /\ q = function_call (op_name op) [src; lam].
Proof.
  destruct op; cbn; intros H; try discriminate; inversion H; subst; auto.
Qed.

(* MetaData wrappers: one per metadata event, first event innermost *)
Fixpoint md_wrap (src : expr) (ds : list expr) : expr :=
  match ds with
  | [] => src
  | d :: r => md_wrap (function_call "MetaData" [src; d]) r
  end.

Definition md_of_events (evs : list TypeFollow.event) : list expr :=
  flat_map (fun e => match e with TypeFollow.EvMeta d => [d] | _ => [] end) evs.

Lemma wrap_events_is src evs : wrap_events src evs = Some (md_wrap src (md_of_events evs)).
Proof.
  revert src. induction evs as [|e evs IH]; intros src; [reflexivity|].
  destruct e; cbn [wrap_events md_of_events flat_map app]; apply IH.
Qed.

(* the four terminals, argument order as in the source *)
Lemma terminal_awkward cols src :
  terminal_node {| t_method := "AsAwkwardArray"; t_args := [("columns", cols)] |} src
  = Some (function_call "ResultAwkwardArray" [src; as_ast_tval (norm_columns cols)]).
Proof. reflexivity. Qed.

Lemma terminal_pandas cols src :
  terminal_node {| t_method := "AsPandasDF"; t_args := [("columns", cols)] |} src
  = Some (function_call "ResultPandasDF" [src; as_ast_tval (norm_columns cols)]).
Proof. reflexivity. Qed.

Lemma terminal_ttree fname tname cols src :
  terminal_node {| t_method := "AsROOTTTree"; t_args := [("filename", fname); ("treename", tname); ("columns", cols)] |} src
  = Some (function_call "ResultTTree" [src; as_ast_tval (norm_columns cols); as_ast_tval tname; as_ast_tval fname]).
Proof. reflexivity. Qed.

Lemma terminal_parquet fname cols src :
  terminal_node {| t_method := "AsParquetFiles"; t_args := [("filename", fname); ("columns", cols)] |} src
  = Some (function_call "ResultParquet" [src; as_ast_tval (norm_columns cols); as_ast_tval fname]).
Proof. reflexivity. Qed.

(* whatever the table says, a terminal node is a keyword-free name call whose first argument is the stream *)
Lemma terminal_node_shape t src q :
  terminal_node t src = Some q -> exists node args, q = function_call node (src :: args).
Proof.
  unfold terminal_node. intros H. apply obind_some in H. destruct H as [[node spec] [_ H]].
  cbn [fst snd] in H. destruct (omap _ spec) as [args|]; [|discriminate]. inversion H; eauto.
Qed.

(* ---------- lambdas stay lambdas ---------- *)

Lemma sugar_lambda ps b l' :
  Sugar.sugar (Lambda ps b) = Sugar.Ok l' -> exists b', l' = Lambda ps b' /\ Sugar.sugar b = Sugar.Ok b'.
Proof.
  change (Sugar.sugar (Lambda ps b)) with (Sugar.rbind (Sugar.sugar b) (fun b' => Sugar.Ok (Lambda ps b'))).
  destruct (Sugar.sugar b) as [b'|e]; cbn; intros H; [|discriminate]. inversion H; eauto.
Qed.

Lemma sugar_lambda_ok ps b b' : Sugar.sugar b = Sugar.Ok b' -> Sugar.sugar (Lambda ps b) = Sugar.Ok (Lambda ps b').
Proof.
  intros H. change (Sugar.sugar (Lambda ps b)) with (Sugar.rbind (Sugar.sugar b) (fun b' => Sugar.Ok (Lambda ps b'))).
  rewrite H. reflexivity.
Qed.

Lemma parse_callable_lambda ce ps b l' :
  Capture.parse_callable ce (Lambda ps b) = Capture.Ok l' -> exists b', l' = Lambda ps b'.
Proof.
  unfold Capture.parse_callable, Capture.rewrite_captured. cbn [Capture.rw Capture.same Capture.sbind].
  destruct (Capture.rw ce [ps ++ Capture.assigned b] b) as [[b1 b2]|e]; cbn; intros H; [|discriminate].
  inversion H; eauto.
Qed.

Lemma acquire_lambda_shape a ps b l' :
  acquire_lambda a (Lambda ps b) = Capture.Ok l' -> exists b', l' = Lambda ps b'.
Proof.
  destruct a as [ce|]; cbn [acquire_lambda]; intros H.
  - eapply parse_callable_lambda; eassumption.
  - inversion H; eauto.
Qed.

Lemma stream_op_shape W op item lam lam2 t evs :
  TypeFollow.stream_op W op [] item lam = TypeFollow.Ok (lam2, t, evs) ->
  exists p b b2 t0, lam = Lambda [p] b /\ lam2 = Lambda [p] b2 /\
    TypeFollow.follow W [(p, item)] b = TypeFollow.Ok (b2, t0, evs).
Proof.
  destruct lam; cbn [TypeFollow.stream_op]; try discriminate.
  destruct ps as [|p [|p' ps]]; try discriminate.
  destruct (TypeFollow.follow W [(p, item)] lam) as [[[b2 t0] ev]|r|k] eqn:Hf; cbn [TypeFollow.bind]; try discriminate.
  unfold TypeFollow.finish_op. destruct (negb _); [discriminate|].
  assert (G : forall t', (Lambda [p] b2, t', ev) = (lam2, t, evs) ->
              exists p0 b b0 t1, Lambda [p] lam = Lambda [p0] b /\ lam2 = Lambda [p0] b0 /\
                TypeFollow.follow W [(p0, item)] b = TypeFollow.Ok (b0, t1, evs)).
  { intros t' H. inversion H; subst. exists p, lam, b2, t0. repeat split. exact Hf. }
  destruct op; try discriminate.
  - intros H; inversion H; subst. eapply G; reflexivity.
  - intros H; inversion H; subst. eapply G; reflexivity.
  - destruct (ty_eqb t0 TBool); [|discriminate]. intros H; inversion H; subst. eapply G; reflexivity.
Qed.

(* ---------- the list combinators of the direct semantics ---------- *)

Lemma map_opt_omap {A C} (f : A -> option C) l : map_opt f l = omap f l.
Proof.
  unfold omap. induction l as [|x r IH]; [reflexivity|]. cbn [map_opt map sequence].
  destruct (f x); cbn [obind]; [|reflexivity]. rewrite IH. destruct (sequence (map f r)); reflexivity.
Qed.

Lemma filter_opt_ofilter {A} (p : A -> option bool) l : filter_opt p l = ofilter p l.
Proof.
  induction l as [|x r IH]; [reflexivity|]. cbn [filter_opt ofilter].
  destruct (p x); cbn [obind]; [|reflexivity]. rewrite IH. destruct (ofilter p r); reflexivity.
Qed.

Lemma seq_items_as_list v : seq_items v = as_list v.
Proof. destruct v; reflexivity. Qed.

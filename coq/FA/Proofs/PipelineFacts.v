(* C01: structural facts about the composed model (Model/Pipeline.v). *)
From FA.Base Require Import PyAst Value Eval.
From FA.Gen Require Import Tables TablesStream.
From FA.Model Require Import TypeDefs Pipeline.

Lemma op_node_select src lam : op_node OpSelect src lam = Some (function_call "Select" [src; lam]).
Proof. reflexivity. Qed.

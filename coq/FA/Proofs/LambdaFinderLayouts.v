(* Liveness for the segment layouts of Model/LambdaFinderSpec.v: a scanned logical line made of
   call segments  glue NAME(f) gap `lambda` body stop  is recovered. *)
From Coq Require Import List String ZArith Bool Arith Lia.
From FA.Model Require Import LambdaFinder LambdaFinderSpec.
From FA.Proofs Require Import LambdaFinderProofs.
Import ListNotations.
Open Scope string_scope.
Open Scope list_scope.

Lemma no_err_kerr : forall t, no_err t = true -> is_kind KErr t = false.
Proof. intros t H. unfold no_err in H. destruct (is_kind KErr t); [discriminate | reflexivity]. Qed.

Lemma skipn_app_exact : forall (A : Type) (l1 l2 : list A), skipn (List.length l1) (l1 ++ l2) = l2.
Proof. induction l1; cbn; auto. Qed.

Lemma firstn_app_exact : forall (A : Type) (l1 l2 : list A), firstn (List.length l1) (l1 ++ l2) = l1.
Proof. induction l1; cbn; intros; [reflexivity | f_equal; auto]. Qed.

Lemma extent_seg : forall pre lam body rest,
    extent (pre ++ lam :: body ++ rest) (List.length pre) (List.length pre + 1 + List.length body)
    = lam :: filter not_comment body.
Proof.
  intros pre lam body rest. unfold extent.
  rewrite skipn_app_exact. cbn [firstn app].
  replace (S (List.length pre)) with (List.length (pre ++ [lam])) by (rewrite app_length; cbn; lia).
  replace (pre ++ lam :: body ++ rest) with ((pre ++ [lam]) ++ body ++ rest) by (rewrite <- app_assoc; reflexivity).
  rewrite skipn_app_exact.
  replace (List.length pre + 1 + List.length body - List.length (pre ++ [lam])) with (List.length body) by (rewrite app_length; cbn; lia).
  rewrite firstn_app_exact. reflexivity.
Qed.

Lemma layout_toks_cons : forall g l tail, layout_toks (g :: l) tail = seg_toks g ++ layout_toks l tail.
Proof. intros. unfold layout_toks. cbn [flat_map]. rewrite <- app_assoc. reflexivity. Qed.

Section Layout.
  Variable P : parse_fn.
  Variable kw : list string.
  Variable whole : list tok.
  Hypothesis HkwL : existsb (String.eqb "lambda") kw = true.

  Definition mode0 (first : bool) (last prev : option string) (nm : bool) : mode :=
    if first then First last prev nm else Seek last prev nm.

  Lemma scan_glue : forall first xs last prev nm i rest cs,
      forallb (glue_tok_ok first kw) xs = true ->
      exists last' prev' nm', scan P kw true whole (mode0 first last prev nm) i (xs ++ rest) cs
                    = scan P kw true whole (mode0 first last' prev' nm') (i + List.length xs) rest cs.
  Proof.
    intros first. induction xs as [|a xs IH]; intros last prev nm i rest cs H.
    - exists last, prev, nm. cbn. rewrite Nat.add_0_r. reflexivity.
    - cbn [forallb] in H. apply andb_true_iff in H. destruct H as [Ha Hxs].
      unfold glue_tok_ok in Ha. apply andb_true_iff in Ha. destruct Ha as [He Ha].
      cbn [app List.length]. replace (i + S (List.length xs)) with (S i + List.length xs) by lia.
      destruct first; cbn [mode0 scan] in *; rewrite (no_err_kerr _ He).
      + destruct (is_kind KName a) eqn:Hn.
        * cbn [andb] in Ha. apply negb_true_iff in Ha. rewrite Ha. apply (IH (Some (ttext a)) last true); auto.
        * apply (IH (unkw true nm last prev a) prev false); auto.
      + apply andb_true_iff in Ha. destruct Ha as [Hl Hnl]. apply negb_true_iff in Hl, Hnl.
        destruct (is_kind KName a) eqn:Hn.
        * unfold is_name in Hl. rewrite Hn in Hl. cbn [andb] in Hl. rewrite Hl. apply (IH (Some (ttext a)) last true); auto.
        * rewrite Hnl. apply (IH (unkw true nm last prev a) prev false); auto.
  Qed.

  Lemma is_op_not_name : forall s t, is_op s t = true -> is_kind KName t = false.
  Proof. intros s t. unfold is_op, is_kind. destruct (tkind t); cbn; auto; discriminate. Qed.
  Lemma is_op_not_newline : forall s t, is_op s t = true -> is_kind KNewline t = false.
  Proof. intros s t. unfold is_op, is_kind. destruct (tkind t); cbn; auto; discriminate. Qed.
  Lemma is_op_not_err : forall s t, is_op s t = true -> is_kind KErr t = false.
  Proof. intros s t. unfold is_op, is_kind. destruct (tkind t); cbn; auto; discriminate. Qed.

  (* the gap keeps the calling NAME: a NAME in it is followed by `=`, which restores the NAME before it *)
  Lemma scan_gap_n : forall n first xs f prev an i rest cs,
      List.length xs <= n ->
      gap_ok first kw an xs = true ->
      exists prev' an', scan P kw true whole (mode0 first (Some f) prev an) i (xs ++ rest) cs
                        = scan P kw true whole (mode0 first (Some f) prev' an') (i + List.length xs) rest cs.
  Proof.
    induction n as [|n IH]; intros first xs f prev an i rest cs Hlen H.
    - destruct xs; [|cbn in Hlen; lia]. exists prev, an. cbn. rewrite Nat.add_0_r. reflexivity.
    - destruct xs as [|a xs]; [exists prev, an; cbn; rewrite Nat.add_0_r; reflexivity|].
      cbn [gap_ok] in H. apply andb_true_iff in H. destruct H as [H H3]. apply andb_true_iff in H.
      destruct H as [H1 H2]. apply negb_true_iff in H2. cbn [List.length] in Hlen.
      destruct (is_kind KName a) eqn:Hn.
      + apply andb_true_iff in H3. destruct H3 as [Hpl H3].
        destruct xs as [|e xs']; [discriminate|]. apply andb_true_iff in H3. destruct H3 as [Heq Hrest].
        cbn [List.length] in Hlen.
        destruct (IH first xs' f (Some f) false (S (S i)) rest cs ltac:(lia) Hrest) as (prev' & an' & E).
        exists prev', an'.
        cbn [app List.length]. replace (i + S (S (List.length xs'))) with (S (S i) + List.length xs') by lia.
        rewrite <- E.
        destruct first; cbn [mode0 scan plain_name] in *; rewrite (no_err_kerr _ H1), Hn.
        * apply negb_true_iff in Hpl. rewrite Hpl.
          rewrite (is_op_not_err _ _ Heq), (is_op_not_name _ _ Heq). unfold unkw. rewrite Heq. reflexivity.
        * apply negb_true_iff in Hpl. rewrite Hpl.
          rewrite (is_op_not_err _ _ Heq), (is_op_not_name _ _ Heq), (is_op_not_newline _ _ Heq).
          unfold unkw. rewrite Heq. reflexivity.
      + apply andb_true_iff in H3. destruct H3 as [Hne Hrest]. apply negb_true_iff in Hne.
        destruct (IH first xs f prev false (S i) rest cs ltac:(lia) Hrest) as (prev' & an' & E).
        exists prev', an'.
        cbn [app List.length]. replace (i + S (List.length xs)) with (S i + List.length xs) by lia.
        rewrite <- E.
        destruct first; cbn [mode0 scan]; rewrite (no_err_kerr _ H1), Hn; try rewrite H2;
          unfold unkw; cbn [andb]; rewrite Hne; reflexivity.
  Qed.

  Lemma scan_gap : forall first xs f prev i rest cs,
      gap_ok first kw true xs = true ->
      exists prev' an', scan P kw true whole (mode0 first (Some f) prev true) i (xs ++ rest) cs
                        = scan P kw true whole (mode0 first (Some f) prev' an') (i + List.length xs) rest cs.
  Proof. intros. eapply scan_gap_n; eauto. Qed.

  Lemma scan_body : forall body p b c saw i rest cs key st row p' b' c',
      body_ok p b c body = Some (p', b', c') ->
      scan P kw true whole (Ext key st row p b c saw) i (body ++ rest) cs
      = scan P kw true whole (Ext key st row p' b' c' (saw || existsb is_nl (filter not_comment body)))
             (i + List.length body) rest cs.
  Proof.
    induction body as [|a body IH]; intros p b c saw i rest cs key st row p' b' c' H.
    - cbn in H. inversion H; subst. cbn. rewrite Nat.add_0_r, orb_false_r. reflexivity.
    - cbn [body_ok] in H. destruct (is_kind KErr a) eqn:He; [discriminate|].
      destruct (is_stop a && zero3 p b c) eqn:Hs; [discriminate|].
      cbn [app List.length scan]. rewrite He, Hs. replace (i + S (List.length body)) with (S i + List.length body) by lia.
      cbn [filter]. unfold not_comment at 1. destruct (is_kind KComment a); cbn [negb].
      + apply IH; auto.
      + rewrite (IH _ _ _ _ _ _ _ _ _ _ _ _ _ H). cbn [existsb]. rewrite orb_assoc. reflexivity.
  Qed.

  Lemma scan_name_step : forall (first : bool) last prev an i nm row rest cs,
      (if first then existsb (String.eqb nm) kw else String.eqb nm "lambda") = false ->
      scan P kw true whole (mode0 first last prev an) i (mkTok row KName nm :: rest) cs
      = scan P kw true whole (mode0 first (Some nm) last true) (S i) rest cs.
  Proof.
    intros first last prev an i nm row rest cs H. destruct first; cbn [mode0 scan]; cbn [is_kind tkind ttext]; rewrite H; reflexivity.
  Qed.

  Lemma scan_lambda_step : forall first nm prev an i row rest cs,
      scan P kw true whole (mode0 first (Some nm) prev an) i (mkTok row KName "lambda" :: rest) cs
      = scan P kw true whole (Ext (Some nm) i row 0 0 0 false) (S i) rest cs.
  Proof.
    intros first nm prev an i row rest cs. destruct first; cbn [mode0 scan]; cbn [is_kind tkind ttext trow].
    - rewrite HkwL. reflexivity.
    - reflexivity.
  Qed.

  Lemma is_stop_not_err : forall t, is_stop t = true -> is_kind KErr t = false.
  Proof. intros t. unfold is_stop, is_op, is_kind. destruct (tkind t); cbn; auto; discriminate. Qed.

  Lemma scan_stop_step : forall key st row p b c saw i t rest cs,
      is_stop t = true -> zero3 p b c = true ->
      scan P kw true whole (Ext key st row p b c saw) i (t :: rest) cs
      = close P whole key st i row cs
              (fun cs' => if saw then ScDone (rev cs') else scan P kw true whole (Seek None None false) (S i) rest cs').
  Proof.
    intros key st row p b c saw i t rest cs Hs Hz. cbn [scan]. rewrite (is_stop_not_err _ Hs), Hs, Hz. reflexivity.
  Qed.

  Definition cand_of (g : segment) (i : nat) : cand :=
    mkCand (Some (g_name g)) (seg_start g i) (seg_start g i + 1 + List.length (g_body g)) (g_lrow g) (P (ext_of g)).
  Definition parse_ok (g : segment) : Prop := exists a, P (ext_of g) = PArgs a.

  Lemma seg_toks_length : forall g,
      List.length (seg_toks g) = List.length (g_glue g) + 1 + List.length (g_gap g) + 1 + List.length (g_body g) + 1.
  Proof. intros g. unfold seg_toks. repeat (rewrite app_length; cbn [List.length]). lia. Qed.

  Lemma seg_toks_app : forall g rest,
      seg_toks g ++ rest
      = g_glue g ++ mkTok (g_row g) KName (g_name g) :: g_gap g ++ lam_tok g :: g_body g ++ g_stop g :: rest.
  Proof. intros g rest. unfold seg_toks, lam_tok. repeat rewrite <- app_assoc. reflexivity. Qed.

  Lemma scan_segment : forall first lastf g pre rest last prev an cs,
      whole = pre ++ seg_toks g ++ rest ->
      seg_ok first lastf kw g = true ->
      parse_ok g ->
      scan P kw true whole (mode0 first last prev an) (List.length pre) (seg_toks g ++ rest) cs
      = if seg_saw g then ScDone (rev (cand_of g (List.length pre) :: cs))
        else scan P kw true whole (Seek None None false) (List.length pre + List.length (seg_toks g)) rest
                  (cand_of g (List.length pre) :: cs).
  Proof.
    intros first lastf g pre rest last prev an cs Hw Hok [a Ha].
    unfold seg_ok in Hok. repeat (apply andb_true_iff in Hok; destruct Hok as [Hok ?]).
    rename Hok into Hglue.
    match goal with H : body_balanced _ = true |- _ => rename H into Hbal end.
    match goal with H : is_stop _ = true |- _ => rename H into Hstop end.
    match goal with H : gap_ok _ _ _ _ = true |- _ => rename H into Hgap end.
    match goal with H : (if first then _ else _) = true |- _ => rename H into Hname end.
    unfold body_balanced in Hbal. destruct (body_ok 0 0 0 (g_body g)) as [[[p' b'] c']|] eqn:Hbody; [|discriminate].
    assert (Hname' : (if first then existsb (String.eqb (g_name g)) kw else String.eqb (g_name g) "lambda") = false).
    { destruct first; apply negb_true_iff in Hname; exact Hname. }
    rewrite seg_toks_app.
    destruct (scan_glue first (g_glue g) last prev an (List.length pre)
                        (mkTok (g_row g) KName (g_name g) :: g_gap g ++ lam_tok g :: g_body g ++ g_stop g :: rest) cs Hglue)
      as (last' & prev' & an' & ->).
    rewrite (scan_name_step first last' prev' an' _ (g_name g) (g_row g) _ cs Hname').
    destruct (scan_gap first (g_gap g) (g_name g) last' (S (List.length pre + List.length (g_glue g)))
                       (lam_tok g :: g_body g ++ g_stop g :: rest) cs Hgap) as (prev2 & an2 & ->).
    unfold lam_tok at 1. rewrite scan_lambda_step.
    rewrite (scan_body _ _ _ _ _ _ _ _ _ _ _ _ _ _ Hbody).
    rewrite (scan_stop_step _ _ _ _ _ _ _ _ _ _ _ Hstop Hbal).
    unfold close.
    assert (Hext : extent whole (seg_start g (List.length pre))
                          (S (List.length pre + List.length (g_glue g)) + List.length (g_gap g) + 1 + List.length (g_body g))
                   = ext_of g).
    { rewrite Hw, seg_toks_app.
      replace (pre ++ g_glue g ++ mkTok (g_row g) KName (g_name g) :: g_gap g ++ lam_tok g :: g_body g ++ g_stop g :: rest)
        with ((pre ++ g_glue g ++ mkTok (g_row g) KName (g_name g) :: g_gap g) ++ lam_tok g :: g_body g ++ (g_stop g :: rest)).
      2:{ repeat rewrite <- app_assoc. cbn [app]. reflexivity. }
      replace (seg_start g (List.length pre))
        with (List.length (pre ++ g_glue g ++ mkTok (g_row g) KName (g_name g) :: g_gap g)).
      2:{ unfold seg_start. repeat (rewrite app_length; cbn [List.length]). lia. }
      replace (S (List.length pre + List.length (g_glue g)) + List.length (g_gap g) + 1 + List.length (g_body g))
        with (List.length (pre ++ g_glue g ++ mkTok (g_row g) KName (g_name g) :: g_gap g) + 1 + List.length (g_body g)).
      2:{ repeat (rewrite app_length; cbn [List.length]). lia. }
      apply extent_seg. }
    replace (S (List.length pre + List.length (g_glue g)) + List.length (g_gap g))
      with (seg_start g (List.length pre)) by (unfold seg_start; lia).
    replace (S (seg_start g (List.length pre)) + List.length (g_body g))
      with (seg_start g (List.length pre) + 1 + List.length (g_body g)) by lia.
    replace (S (List.length pre + List.length (g_glue g)) + List.length (g_gap g) + 1 + List.length (g_body g))
      with (seg_start g (List.length pre) + 1 + List.length (g_body g)) in Hext by (unfold seg_start; lia).
    rewrite Hext, Ha. cbn [orb]. fold (seg_saw g).
    unfold cand_of. rewrite Ha.
    replace (S (seg_start g (List.length pre) + 1 + List.length (g_body g)))
      with (List.length pre + List.length (seg_toks g)) by (rewrite seg_toks_length; unfold seg_start; lia).
    reflexivity.
  Qed.

  Lemma name_not_newline : forall t, is_kind KName t = true -> is_kind KNewline t = false.
  Proof. intros t. unfold is_kind. destruct (tkind t); auto; discriminate. Qed.

  Lemma scan_tail : forall tail last prev an i cs,
      tail_ok tail = true -> scan P kw true whole (Seek last prev an) i tail cs = ScDone (rev cs).
  Proof.
    induction tail as [|a tail IH]; intros last prev an i cs H; cbn [scan]; [reflexivity|].
    cbn [tail_ok] in H. apply andb_true_iff in H. destruct H as [He H]. rewrite (no_err_kerr _ He).
    destruct (is_kind KName a) eqn:Hn.
    - rewrite (name_not_newline _ Hn) in H. cbn [orb] in H. apply andb_true_iff in H. destruct H as [Hl Ht].
      apply negb_true_iff in Hl. unfold is_name in Hl. rewrite Hn in Hl. cbn [andb] in Hl. rewrite Hl. apply IH; auto.
    - destruct (is_kind KNewline a); [reflexivity|]. cbn [orb] in H. apply andb_true_iff in H. destruct H as [_ Ht].
      apply IH; auto.
  Qed.

  Fixpoint cands_from (gs : list segment) (i : nat) : list cand :=
    match gs with
    | [] => []
    | g :: r => cand_of g i :: cands_from r (i + List.length (seg_toks g))
    end.

  Lemma existsb_filter_false : forall (A : Type) (f g : A -> bool) l,
      existsb f l = false -> existsb f (filter g l) = false.
  Proof.
    induction l as [|x l IH]; intros H; [reflexivity|]. cbn [existsb] in H. apply orb_false_iff in H.
    destruct H as [H1 H2]. cbn [filter]. destruct (g x); cbn [existsb]; [rewrite H1|]; auto.
  Qed.

  Lemma scan_chain : forall gs first pre tail cs last prev an,
      whole = pre ++ layout_toks gs tail ->
      segs_ok first kw gs = true -> Forall parse_ok gs -> end_ok gs tail = true ->
      scan P kw true whole (mode0 first last prev an) (List.length pre) (layout_toks gs tail) cs
      = ScDone (rev cs ++ cands_from gs (List.length pre)).
  Proof.
    induction gs as [|g r IH]; intros first pre tail cs last prev an Hw Hok Hp He; [discriminate|].
    pose proof (Forall_inv Hp) as Hpg. pose proof (Forall_inv_tail Hp) as Hpr.
    destruct r as [|g2 r'].
    - cbn [segs_ok] in Hok. cbn [end_ok] in He.
      unfold layout_toks in *. cbn [flat_map] in *. rewrite app_nil_r in *.
      rewrite (scan_segment first true g pre tail last prev an cs Hw Hok Hpg).
      cbn [cands_from]. destruct (seg_saw g).
      + reflexivity.
      + cbn [orb] in He. rewrite scan_tail by exact He. reflexivity.
    - cbn [segs_ok] in Hok. apply andb_true_iff in Hok. destruct Hok as [Hg Hr].
      assert (Hsaw : seg_saw g = false).
      { unfold seg_ok in Hg. apply andb_true_iff in Hg. destruct Hg as [_ Hg]. cbn [orb] in Hg.
        apply negb_true_iff in Hg. unfold seg_saw. apply existsb_filter_false; auto. }
      rewrite layout_toks_cons in *.
      rewrite (scan_segment first false g pre (layout_toks (g2 :: r') tail) last prev an cs Hw Hg Hpg). rewrite Hsaw.
      change (Seek None None false) with (mode0 false None None false).
      replace (List.length pre + List.length (seg_toks g)) with (List.length (pre ++ seg_toks g)) by (rewrite app_length; reflexivity).
      rewrite (IH false (pre ++ seg_toks g) tail (cand_of g (List.length pre) :: cs) None None false); auto.
      + cbn [rev cands_from]. rewrite <- app_assoc. cbn [app]. rewrite app_length. reflexivity.
      + rewrite Hw. rewrite <- app_assoc. reflexivity.
  Qed.

  Lemma cands_from_app : forall gs1 gs2 i,
      cands_from (gs1 ++ gs2) i = cands_from gs1 i ++ cands_from gs2 (i + List.length (flat_map seg_toks gs1)).
  Proof.
    induction gs1 as [|g r IH]; intros gs2 i; cbn [app cands_from flat_map List.length].
    - rewrite Nat.add_0_r. reflexivity.
    - rewrite IH. rewrite app_length. f_equal. f_equal. f_equal. lia.
  Qed.

  Lemma cands_from_parse : forall gs i c, Forall parse_ok gs -> In c (cands_from gs i) -> exists a, c_parse c = PArgs a.
  Proof.
    induction gs as [|g r IH]; intros i c Hp Hin; [destruct Hin|]. inversion Hp; subst.
    destruct Hin as [<-|Hin]; [cbn; assumption | eapply IH; eauto].
  Qed.
End Layout.

(* ------------------------------------------------------------------ selection among segments *)
Lemma filter_filter2 : forall (A : Type) (f g : A -> bool) l,
    filter f (filter g l) = filter (fun x => g x && f x) l.
Proof.
  induction l as [|x l IH]; [reflexivity|]. cbn [filter]. destruct (g x); cbn [filter andb]; [destruct (f x)|]; rewrite IH; reflexivity.
Qed.

Definition cand_matches (L : nat) (caller : string) (args : list string) (c : cand) : bool :=
  on_row L c && (key_is caller c && args_are args c).

Lemma cand_of_matches : forall P L caller args g i,
    cand_matches L caller args (cand_of P g i) = seg_matches P L caller args g.
Proof. intros. reflexivity. Qed.

Lemma filter_cands_none : forall P L caller args gs i,
    Forall (fun g => seg_matches P L caller args g = false) gs ->
    filter (cand_matches L caller args) (cands_from P gs i) = [].
Proof.
  induction gs as [|g r IH]; intros i H; [reflexivity|]. inversion H; subst.
  cbn [cands_from filter]. rewrite cand_of_matches. rewrite H2. apply IH; auto.
Qed.

Lemma filter_mid : forall (A : Type) (f : A -> bool) l1 x l2,
    filter f l1 = [] -> f x = true -> filter f l2 = [] -> filter f (l1 ++ x :: l2) = [x].
Proof. intros A f l1 x l2 H1 Hx H2. rewrite filter_app. cbn [filter]. rewrite H1, Hx, H2. reflexivity. Qed.

Lemma backup_earlier : forall P kw earlier toks more s0,
    Forall (fun ts => exists k, scan_stream P kw true ts = ScNoName k) earlier ->
    (forall k, scan_stream P kw true toks <> ScNoName k) ->
    backup P kw true (earlier ++ toks :: more) s0 = (s0 + List.length earlier, Some (scan_stream P kw true toks)).
Proof.
  induction earlier as [|ts r IH]; intros toks more s0 He Hn; cbn [app backup List.length].
  - rewrite Nat.add_0_r. destruct (scan_stream P kw true toks) eqn:E; try reflexivity. exfalso. eapply Hn; eauto.
  - inversion He as [|? ? [k Hk] Hr]; subst. rewrite Hk. rewrite (IH toks more (S s0) Hr Hn). f_equal. lia.
Qed.

Theorem supported_layouts :
  forall P L dsrc caller args earlier more gs1 g0 gs2 tail,
    Forall (fun ts => exists k, scan_stream P ["lambda"] true ts = ScNoName k) earlier ->
    segs_ok true ["lambda"] (gs1 ++ g0 :: gs2) = true ->
    Forall (parse_ok P) (gs1 ++ g0 :: gs2) ->
    end_ok (gs1 ++ g0 :: gs2) tail = true ->
    seg_matches P L caller args g0 = true ->
    Forall (fun g => seg_matches P L caller args g = false) gs1 ->
    Forall (fun g => seg_matches P L caller args g = false) gs2 ->
    find P (earlier ++ layout_toks (gs1 ++ g0 :: gs2) tail :: more) L true dsrc (Some caller) args
    = Found (List.length earlier) (seg_start g0 (List.length (flat_map seg_toks gs1))).
Proof.
  intros P L dsrc caller args earlier more gs1 g0 gs2 tail He Hok Hp Hend Hm H1 H2.
  set (gs := gs1 ++ g0 :: gs2) in *. set (toks := layout_toks gs tail).
  assert (Hscan : scan_stream P ["lambda"] true toks = ScDone (cands_from P gs 0)).
  { exact (scan_chain P ["lambda"] toks eq_refl gs true [] tail [] None None false eq_refl Hok Hp Hend). }
  unfold find, find_gen. cbn [keywords].
  rewrite (backup_earlier P ["lambda"] earlier toks more 0 He) by (intros k; rewrite Hscan; discriminate).
  rewrite Hscan. cbn [Nat.add].
  set (cs := cands_from P gs 0).
  assert (Hcs : cs = cands_from P gs1 0 ++ cand_of P g0 (List.length (flat_map seg_toks gs1))
                                 :: cands_from P gs2 (List.length (flat_map seg_toks gs1) + List.length (seg_toks g0))).
  { unfold cs, gs. rewrite cands_from_app. reflexivity. }
  unfold select.
  set (search := filter (key_is caller) (filter (on_row L) cs)).
  assert (Hgood : filter (args_are args) search = [cand_of P g0 (List.length (flat_map seg_toks gs1))]).
  { unfold search. rewrite filter_filter2, filter_filter2.
    rewrite (filter_ext _ (cand_matches L caller args)) by (intros; reflexivity).
    rewrite Hcs. apply filter_mid.
    - apply filter_cands_none; auto.
    - rewrite cand_of_matches. exact Hm.
    - apply filter_cands_none; auto. }
  assert (Hsub : forall x, In x search -> In x cs).
  { intros x Hx. unfold search in Hx. apply filter_In in Hx. destruct Hx as [Hx _]. apply filter_In in Hx. tauto. }
  assert (Hnl : existsb no_lambda search = false).
  { apply not_true_is_false. intros Hex. apply existsb_exists in Hex. destruct Hex as (x & Hx & Hn).
    destruct (cands_from_parse P gs 0 x Hp (Hsub x Hx)) as [a Ha]. unfold no_lambda in Hn. rewrite Ha in Hn. discriminate. }
  clearbody search. destruct search as [|c0 rest]; [discriminate|].
  rewrite Hnl, Hgood. reflexivity.
Qed.

Definition backs_up (P : parse_fn) (ts : list tok) : bool :=
  match scan_stream P ["lambda"] true ts with ScNoName _ => true | _ => false end.

Theorem supported_layouts_b :
  forall P L dsrc caller args earlier more gs1 g0 gs2 tail,
    forallb (backs_up P) earlier = true ->
    supported_layoutb P L caller args gs1 g0 gs2 tail = true ->
    find P (earlier ++ layout_toks (gs1 ++ g0 :: gs2) tail :: more) L true dsrc (Some caller) args
    = Found (List.length earlier) (seg_start g0 (List.length (flat_map seg_toks gs1))).
Proof.
  intros P L dsrc caller args earlier more gs1 g0 gs2 tail He H.
  unfold supported_layoutb in H. repeat (apply andb_true_iff in H; destruct H as [H ?]).
  match goal with Hn : forallb (fun g => negb _) _ = true |- _ => rename Hn into Hnon end.
  rewrite forallb_app in Hnon. apply andb_true_iff in Hnon. destruct Hnon as [Hn1 Hn2].
  apply supported_layouts; auto.
  - rewrite forallb_forall in He. apply Forall_forall. intros ts Hts. specialize (He ts Hts).
    unfold backs_up in He. destruct (scan_stream P ["lambda"] true ts); try discriminate. eauto.
  - apply Forall_forall. intros g Hg.
    match goal with Hp : forallb (seg_parsed P) _ = true |- _ => rewrite forallb_forall in Hp; specialize (Hp g Hg) end.
    unfold parse_ok. unfold seg_parsed in *. destruct (P (ext_of g)); try discriminate. eauto.
  - apply Forall_forall. intros g Hg. rewrite forallb_forall in Hn1. apply negb_true_iff. auto.
  - apply Forall_forall. intros g Hg. rewrite forallb_forall in Hn2. apply negb_true_iff. auto.
Qed.

(* ------------------------------------------------------------------ the outcome on every segment layout *)
Theorem segment_layout_outcome :
  forall P L dsrc caller args earlier more gs tail,
    forallb (backs_up P) earlier = true ->
    segs_ok true ["lambda"] gs = true ->
    forallb (seg_parsed P) gs = true ->
    end_ok gs tail = true ->
    find P (earlier ++ layout_toks gs tail :: more) L true dsrc caller args
    = select true L caller args (List.length earlier) (cands_from P gs 0).
Proof.
  intros P L dsrc caller args earlier more gs tail He Hok Hp Hend.
  assert (Hp' : Forall (parse_ok P) gs).
  { apply Forall_forall. intros g Hg. rewrite forallb_forall in Hp. specialize (Hp g Hg).
    unfold parse_ok. unfold seg_parsed in Hp. destruct (P (ext_of g)); try discriminate. eauto. }
  assert (He' : Forall (fun ts => exists k, scan_stream P ["lambda"] true ts = ScNoName k) earlier).
  { rewrite forallb_forall in He. apply Forall_forall. intros ts Hts. specialize (He ts Hts).
    unfold backs_up in He. destruct (scan_stream P ["lambda"] true ts); try discriminate. eauto. }
  set (toks := layout_toks gs tail).
  assert (Hscan : scan_stream P ["lambda"] true toks = ScDone (cands_from P gs 0)).
  { exact (scan_chain P ["lambda"] toks eq_refl gs true [] tail [] None None false eq_refl Hok Hp' Hend). }
  unfold find, find_gen. cbn [keywords].
  rewrite (backup_earlier P ["lambda"] earlier toks more 0 He') by (intros k; rewrite Hscan; discriminate).
  rewrite Hscan. reflexivity.
Qed.

Lemma two_or_more : forall (A : Type) (X Y Z : list A) c1 c2,
    exists a b t, X ++ c1 :: Y ++ c2 :: Z = a :: b :: t.
Proof.
  intros A X Y Z c1 c2. destruct X as [|x [|x' X']]; cbn.
  - destruct Y; cbn; eauto.
  - eauto.
  - eauto.
Qed.

Lemma select_filters : forall L caller args s cs,
    select true L (Some caller) args s cs
    = match filter (key_is caller) (filter (on_row L) cs) with
      | [] => Err ENoLambda
      | _ => if existsb no_lambda (filter (key_is caller) (filter (on_row L) cs)) then Crash "AttributeError"
             else match filter (cand_matches L caller args) cs with
                  | [] => Err ENoArgs
                  | [c] => Found s (c_start c)
                  | _ => Err EMultiple
                  end
      end.
Proof.
  intros. unfold select. cbv zeta.
  set (search := filter (key_is caller) (filter (on_row L) cs)).
  replace (filter (args_are args) search) with (filter (cand_matches L caller args) cs); [reflexivity|].
  unfold search. rewrite filter_filter2, filter_filter2. apply filter_ext. intros; reflexivity.
Qed.

(* two segments with the callable's row, caller and parameter names: "Found multiple calls" *)
Theorem ambiguous_layout_raises :
  forall P L dsrc caller args earlier more gs1 g1 gs2 g2 gs3 tail,
    forallb (backs_up P) earlier = true ->
    segs_ok true ["lambda"] (gs1 ++ g1 :: gs2 ++ g2 :: gs3) = true ->
    forallb (seg_parsed P) (gs1 ++ g1 :: gs2 ++ g2 :: gs3) = true ->
    end_ok (gs1 ++ g1 :: gs2 ++ g2 :: gs3) tail = true ->
    seg_matches P L caller args g1 = true ->
    seg_matches P L caller args g2 = true ->
    find P (earlier ++ layout_toks (gs1 ++ g1 :: gs2 ++ g2 :: gs3) tail :: more) L true dsrc (Some caller) args
    = Err EMultiple.
Proof.
  intros P L dsrc caller args earlier more gs1 g1 gs2 g2 gs3 tail He Hok Hp Hend H1 H2.
  rewrite segment_layout_outcome by assumption. rewrite select_filters.
  set (gs := gs1 ++ g1 :: gs2 ++ g2 :: gs3) in *. set (cs := cands_from P gs 0).
  assert (Hcs : exists A B C c1 c2, cs = A ++ c1 :: B ++ c2 :: C
                                    /\ cand_matches L caller args c1 = true /\ cand_matches L caller args c2 = true).
  { unfold cs, gs. rewrite cands_from_app. cbn [cands_from].
    change (g1 :: gs2 ++ g2 :: gs3) with ([g1] ++ gs2 ++ g2 :: gs3).
    do 5 eexists. split.
    - cbn [app]. rewrite cands_from_app. cbn [cands_from]. reflexivity.
    - split; rewrite cand_of_matches; assumption. }
  destruct Hcs as (A & B & C & c1 & c2 & Ecs & M1 & M2).
  assert (Hm : exists a b t, filter (cand_matches L caller args) cs = a :: b :: t).
  { rewrite Ecs. rewrite filter_app. cbn [filter]. rewrite M1. rewrite filter_app. cbn [filter]. rewrite M2.
    apply two_or_more. }
  destruct Hm as (a & b & t & Hm).
  assert (Hsearch : In c1 (filter (key_is caller) (filter (on_row L) cs))).
  { unfold cand_matches in M1. apply andb_true_iff in M1. destruct M1 as [Mr M1]. apply andb_true_iff in M1.
    destruct M1 as [Mk _]. apply filter_In. split; [apply filter_In; split; auto|auto].
    rewrite Ecs. apply in_or_app. right. left. reflexivity. }
  assert (Hnl : existsb no_lambda (filter (key_is caller) (filter (on_row L) cs)) = false).
  { apply not_true_is_false. intros Hex. apply existsb_exists in Hex. destruct Hex as (x & Hx & Hn).
    apply filter_In in Hx. destruct Hx as [Hx _]. apply filter_In in Hx. destruct Hx as [Hx _].
    assert (Hp' : Forall (parse_ok P) gs).
    { apply Forall_forall. intros g Hg. rewrite forallb_forall in Hp. specialize (Hp g Hg).
      unfold parse_ok. unfold seg_parsed in Hp. destruct (P (ext_of g)); try discriminate. eauto. }
    destruct (cands_from_parse P gs 0 x Hp' Hx) as [a0 Ha]. unfold no_lambda in Hn. rewrite Ha in Hn. discriminate. }
  destruct (filter (key_is caller) (filter (on_row L) cs)) as [|c0 rest]; [destruct Hsearch|].
  rewrite Hnl, Hm. reflexivity.
Qed.

(* no segment is on the callable's row with the caller's name in front of it - e.g. the lambda is not
   the first argument (`Select(x, lambda e: ...)`: its preceding NAME is x), is passed by keyword, or
   is wrapped in a helper call: "Found no lambda in arguments to <caller>" *)
Theorem uncalled_layout_raises :
  forall P L dsrc caller args earlier more gs tail,
    forallb (backs_up P) earlier = true ->
    segs_ok true ["lambda"] gs = true ->
    forallb (seg_parsed P) gs = true ->
    end_ok gs tail = true ->
    forallb (fun g => negb (Nat.eqb (g_lrow g) L && String.eqb (g_name g) caller)) gs = true ->
    find P (earlier ++ layout_toks gs tail :: more) L true dsrc (Some caller) args = Err ENoLambda.
Proof.
  intros P L dsrc caller args earlier more gs tail He Hok Hp Hend Hno.
  rewrite segment_layout_outcome by assumption. unfold select.
  assert (Hnone : forall i, filter (key_is caller) (filter (on_row L) (cands_from P gs i)) = []).
  { intros i. rewrite filter_filter2. revert i. clear Hok Hp Hend. induction gs as [|g r IH]; intros i; [reflexivity|].
    cbn [forallb] in Hno. apply andb_true_iff in Hno. destruct Hno as [Hg Hr].
    cbn [cands_from filter]. apply negb_true_iff in Hg.
    change (on_row L (cand_of P g i) && key_is caller (cand_of P g i))
      with (Nat.eqb (g_lrow g) L && String.eqb (g_name g) caller).
    rewrite Hg. apply IH; auto. }
  rewrite Hnone. reflexivity.
Qed.

(* ------------------------------------------------------------------ a lambda passed by keyword (F28) *)
(* the call segment of `... m ( k = lambda body stop`: the gap between the method name and the lambda
   is `(`, the keyword NAME and the OP `=` *)
Definition kw_seg (glue : list tok) (m : string) (mrow prow : nat) (k : string) (krow erow lrow : nat)
           (body : list tok) (stop : tok) : segment :=
  mkSeg glue m mrow [mkTok prow KOp "("; mkTok krow KName k; mkTok erow KOp "="] lrow body stop.

Definition kw_toks (glue : list tok) (m : string) (mrow prow : nat) (k : string) (krow erow lrow : nat)
           (body : list tok) (stop : tok) (tail : list tok) : list tok :=
  glue ++ mkTok mrow KName m :: mkTok prow KOp "(" :: mkTok krow KName k :: mkTok erow KOp "="
       :: mkTok lrow KName "lambda" :: body ++ stop :: tail.

Lemma kw_toks_layout : forall glue m mrow prow k krow erow lrow body stop tail,
    kw_toks glue m mrow prow k krow erow lrow body stop tail
    = layout_toks [kw_seg glue m mrow prow k krow erow lrow body stop] tail.
Proof.
  intros. unfold kw_toks, layout_toks, kw_seg, seg_toks. cbn [flat_map g_glue g_name g_row g_gap g_lrow g_body g_stop].
  rewrite app_nil_r. repeat rewrite <- app_assoc. reflexivity.
Qed.

Lemma kw_seg_ok : forall glue m mrow prow k krow erow lrow body stop,
    forallb (glue_tok_ok true ["lambda"]) glue = true ->
    m <> "lambda" -> k <> "lambda" ->
    body_balanced body = true -> is_stop stop = true ->
    seg_ok true true ["lambda"] (kw_seg glue m mrow prow k krow erow lrow body stop) = true.
Proof.
  intros glue m mrow prow k krow erow lrow body stop Hg Hm Hk Hb Hs.
  apply String.eqb_neq in Hm, Hk.
  unfold seg_ok, kw_seg. cbn [g_glue g_name g_gap g_body g_stop].
  rewrite Hg, Hb, Hs. cbn [existsb]. rewrite Hm. cbn [orb negb andb].
  cbn [gap_ok no_err is_kind is_op tkind ttext negb andb plain_name existsb].
  rewrite Hk. reflexivity.
Qed.

(* the lambda passed by the keyword k to the method m is filed under m - never under k: the scan's
   only candidate has the key m, and the outcome for every caller is the selection over it *)
Theorem keyword_lambda_filed :
  forall P L dsrc caller args earlier more glue m mrow prow k krow erow lrow body stop tail,
    forallb (backs_up P) earlier = true ->
    forallb (glue_tok_ok true ["lambda"]) glue = true ->
    m <> "lambda" -> k <> "lambda" ->
    body_balanced body = true -> is_stop stop = true ->
    seg_parsed P (kw_seg glue m mrow prow k krow erow lrow body stop) = true ->
    (seg_saw (kw_seg glue m mrow prow k krow erow lrow body stop) || tail_ok tail) = true ->
    scan_stream P ["lambda"] true (kw_toks glue m mrow prow k krow erow lrow body stop tail)
    = ScDone [mkCand (Some m) (List.length glue + 4) (List.length glue + 4 + 1 + List.length body) lrow
                     (P (mkTok lrow KName "lambda" :: filter not_comment body))]
    /\ find P (earlier ++ kw_toks glue m mrow prow k krow erow lrow body stop tail :: more) L true dsrc caller args
       = select true L caller args (List.length earlier)
                [mkCand (Some m) (List.length glue + 4) (List.length glue + 4 + 1 + List.length body) lrow
                        (P (mkTok lrow KName "lambda" :: filter not_comment body))].
Proof.
  intros P L dsrc caller args earlier more glue m mrow prow k krow erow lrow body stop tail He Hg Hm Hk Hb Hs Hp Hend.
  set (g := kw_seg glue m mrow prow k krow erow lrow body stop) in *.
  assert (Hok : segs_ok true ["lambda"] [g] = true) by (cbn [segs_ok]; apply kw_seg_ok; auto).
  assert (Hps : forallb (seg_parsed P) [g] = true) by (cbn [forallb]; rewrite Hp; reflexivity).
  assert (Hp' : Forall (parse_ok P) [g]).
  { constructor; [|constructor]. unfold parse_ok. unfold seg_parsed in Hp. destruct (P (ext_of g)); try discriminate. eauto. }
  assert (Hcs : cands_from P [g] 0
                = [mkCand (Some m) (List.length glue + 4) (List.length glue + 4 + 1 + List.length body) lrow
                          (P (mkTok lrow KName "lambda" :: filter not_comment body))]).
  { cbn [cands_from]. unfold cand_of, seg_start, ext_of, lam_tok, g, kw_seg.
    cbn [g_glue g_name g_gap g_lrow g_body List.length]. f_equal. f_equal; lia. }
  rewrite kw_toks_layout. fold g. split.
  - rewrite <- Hcs.
    exact (scan_chain P ["lambda"] (layout_toks [g] tail) eq_refl [g] true [] tail [] None None false eq_refl Hok Hp' Hend).
  - rewrite <- Hcs. apply segment_layout_outcome; auto.
Qed.

(* ... hence it is a candidate for that caller: on the callable's row, with the callable's parameter
   names, it is what is returned for the caller m *)
Theorem keyword_lambda_found :
  forall P L dsrc args earlier more glue m mrow prow k krow erow body stop tail,
    forallb (backs_up P) earlier = true ->
    forallb (glue_tok_ok true ["lambda"]) glue = true ->
    m <> "lambda" -> k <> "lambda" ->
    body_balanced body = true -> is_stop stop = true ->
    P (mkTok L KName "lambda" :: filter not_comment body) = PArgs args ->
    (seg_saw (kw_seg glue m mrow prow k krow erow L body stop) || tail_ok tail) = true ->
    find P (earlier ++ kw_toks glue m mrow prow k krow erow L body stop tail :: more) L true dsrc (Some m) args
    = Found (List.length earlier) (List.length glue + 4).
Proof.
  intros P L dsrc args earlier more glue m mrow prow k krow erow body stop tail He Hg Hm Hk Hb Hs Hp Hend.
  assert (Hps : seg_parsed P (kw_seg glue m mrow prow k krow erow L body stop) = true).
  { unfold seg_parsed, ext_of, lam_tok, kw_seg. cbn [g_lrow g_body]. rewrite Hp. reflexivity. }
  destruct (keyword_lambda_filed P L dsrc (Some m) args earlier more glue m mrow prow k krow erow L body stop tail
                                 He Hg Hm Hk Hb Hs Hps Hend) as [_ ->].
  assert (E : strs_eqb args args = true).
  { clear. induction args as [|x l IH]; cbn [strs_eqb]; [reflexivity|]. rewrite String.eqb_refl, IH. reflexivity. }
  set (c := mkCand (Some m) (List.length glue + 4) (List.length glue + 4 + 1 + List.length body) L
                   (P (mkTok L KName "lambda" :: filter not_comment body))).
  assert (F1 : filter (on_row L) [c] = [c]) by (cbn [filter]; unfold on_row, c; cbn [c_row]; rewrite Nat.eqb_refl; reflexivity).
  assert (F2 : filter (key_is m) [c] = [c]) by (cbn [filter]; unfold key_is, c; cbn [c_key]; rewrite String.eqb_refl; reflexivity).
  assert (F3 : existsb no_lambda [c] = false) by (cbn [existsb]; unfold no_lambda, c; cbn [c_parse]; rewrite Hp; reflexivity).
  assert (F4 : filter (args_are args) [c] = [c]) by (cbn [filter]; unfold args_are, c; cbn [c_parse]; rewrite Hp, E; reflexivity).
  unfold select. cbv beta iota zeta. rewrite F1, F2, F3, F4. reflexivity.
Qed.

(* ------------------------------------------------------------------ bracket nesting vs the three counters *)
Fixpoint cnt (k : br) (stack : list br) : Z :=
  match stack with
  | [] => 0%Z
  | b :: s => ((if br_eqb k b then 1 else 0) + cnt k s)%Z
  end.

Lemma cnt_nonneg : forall k s, (0 <= cnt k s)%Z.
Proof. induction s as [|b s IH]; cbn [cnt]; [lia|]. destruct (br_eqb k b); lia. Qed.

Lemma zero3_stack : forall s,
    zero3 (cnt BPar s) (cnt BBrk s) (cnt BBrc s) = match s with [] => true | _ => false end.
Proof.
  intros [|b s]; [reflexivity|]. unfold zero3. cbn [cnt].
  pose proof (cnt_nonneg BPar s). pose proof (cnt_nonneg BBrk s). pose proof (cnt_nonneg BBrc s).
  destruct b; cbn [br_eqb].
  - assert (E : (1 + cnt BPar s =? 0)%Z = false) by (apply Z.eqb_neq; lia). rewrite E. reflexivity.
  - assert (E : (1 + cnt BBrk s =? 0)%Z = false) by (apply Z.eqb_neq; lia). rewrite E.
    rewrite andb_false_r. reflexivity.
  - assert (E : (1 + cnt BBrc s =? 0)%Z = false) by (apply Z.eqb_neq; lia). rewrite E. apply andb_false_r.
Qed.

Lemma is_op_other : forall s t, is_op s t = true -> forall s', is_op s' t = String.eqb s s'.
Proof.
  intros s t H s'. unfold is_op in *. apply andb_true_iff in H. destruct H as [Hk Ht].
  rewrite Hk. cbn [andb]. apply String.eqb_eq in Ht. rewrite Ht. reflexivity.
Qed.

Lemma nested_ok_body_ok : forall ts stack,
    nested_ok stack ts = true ->
    body_ok (cnt BPar stack) (cnt BBrk stack) (cnt BBrc stack) ts = Some (0%Z, 0%Z, 0%Z).
Proof.
  induction ts as [|t r IH]; intros stack H.
  - cbn [nested_ok] in H. destruct stack; [reflexivity | discriminate].
  - cbn [nested_ok] in H. cbn [body_ok].
    destruct (is_kind KErr t); [discriminate|].
    rewrite zero3_stack. unfold is_stop, dpar, dbrk, dbrc, delta. unfold opener, closer in H.
    destruct (is_op "(" t) eqn:E1.
    { repeat rewrite (is_op_other _ _ E1). cbn. specialize (IH _ H). cbn [cnt br_eqb] in IH.
      replace (cnt BBrk stack + 0)%Z with (0 + cnt BBrk stack)%Z by lia.
      replace (cnt BBrc stack + 0)%Z with (0 + cnt BBrc stack)%Z by lia.
      replace (cnt BPar stack + 1)%Z with (1 + cnt BPar stack)%Z by lia. exact IH. }
    destruct (is_op "[" t) eqn:E2.
    { repeat rewrite (is_op_other _ _ E2). cbn. specialize (IH _ H). cbn [cnt br_eqb] in IH.
      replace (cnt BPar stack + 0)%Z with (0 + cnt BPar stack)%Z by lia.
      replace (cnt BBrc stack + 0)%Z with (0 + cnt BBrc stack)%Z by lia.
      replace (cnt BBrk stack + 1)%Z with (1 + cnt BBrk stack)%Z by lia. exact IH. }
    destruct (is_op "{" t) eqn:E3.
    { repeat rewrite (is_op_other _ _ E3). cbn. specialize (IH _ H). cbn [cnt br_eqb] in IH.
      replace (cnt BPar stack + 0)%Z with (0 + cnt BPar stack)%Z by lia.
      replace (cnt BBrk stack + 0)%Z with (0 + cnt BBrk stack)%Z by lia.
      replace (cnt BBrc stack + 1)%Z with (1 + cnt BBrc stack)%Z by lia. exact IH. }
    destruct (is_op ")" t) eqn:E4.
    { repeat rewrite (is_op_other _ _ E4). cbn.
      destruct stack as [|b' s']; [discriminate|]. apply andb_true_iff in H. destruct H as [Hb H].
      destruct b'; try discriminate. specialize (IH _ H). cbn [cnt br_eqb].
      replace (1 + cnt BPar s' + -1)%Z with (cnt BPar s') by lia.
      replace (0 + cnt BBrk s' + 0)%Z with (cnt BBrk s') by lia.
      replace (0 + cnt BBrc s' + 0)%Z with (cnt BBrc s') by lia. exact IH. }
    destruct (is_op "]" t) eqn:E5.
    { repeat rewrite (is_op_other _ _ E5). cbn.
      destruct stack as [|b' s']; [discriminate|]. apply andb_true_iff in H. destruct H as [Hb H].
      destruct b'; try discriminate. specialize (IH _ H). cbn [cnt br_eqb].
      replace (0 + cnt BPar s' + 0)%Z with (cnt BPar s') by lia.
      replace (1 + cnt BBrk s' + -1)%Z with (cnt BBrk s') by lia.
      replace (0 + cnt BBrc s' + 0)%Z with (cnt BBrc s') by lia. exact IH. }
    destruct (is_op "}" t) eqn:E6.
    { repeat rewrite (is_op_other _ _ E6). cbn.
      destruct stack as [|b' s']; [discriminate|]. apply andb_true_iff in H. destruct H as [Hb H].
      destruct b'; try discriminate. specialize (IH _ H). cbn [cnt br_eqb].
      replace (0 + cnt BPar s' + 0)%Z with (cnt BPar s') by lia.
      replace (0 + cnt BBrk s' + 0)%Z with (cnt BBrk s') by lia.
      replace (1 + cnt BBrc s' + -1)%Z with (cnt BBrc s') by lia. exact IH. }
    destruct (is_op "," t) eqn:E7.
    { destruct stack as [|b' s']; [discriminate|]. cbn [orb andb].
      specialize (IH _ H). repeat rewrite Z.add_0_r. exact IH. }
    cbn [orb andb]. specialize (IH _ H). repeat rewrite Z.add_0_r. exact IH.
Qed.

Theorem nested_ok_balanced : forall body, nested_ok [] body = true -> body_balanced body = true.
Proof.
  intros body H. unfold body_balanced. pose proof (nested_ok_body_ok body [] H) as E. cbn [cnt] in E.
  rewrite E. reflexivity.
Qed.

Lemma seg_syn_ok_seg_ok : forall first last kw g, seg_syn_ok first last kw g = true -> seg_ok first last kw g = true.
Proof.
  intros first last kw g H. unfold seg_syn_ok in H. unfold seg_ok.
  repeat (apply andb_true_iff in H; destruct H as [H ?]).
  repeat (apply andb_true_iff; split); auto. apply nested_ok_balanced; auto.
Qed.

Lemma segs_syn_ok_segs_ok : forall gs first kw, segs_syn_ok first kw gs = true -> segs_ok first kw gs = true.
Proof.
  induction gs as [|g r IH]; intros first kw H; [reflexivity|].
  destruct r as [|g2 r'].
  - cbn [segs_syn_ok] in H. cbn [segs_ok]. apply seg_syn_ok_seg_ok; auto.
  - cbn [segs_syn_ok] in H. apply andb_true_iff in H. destruct H as [Hg Hr].
    cbn [segs_ok]. apply andb_true_iff. split; [apply seg_syn_ok_seg_ok; auto | apply IH; auto].
Qed.

Theorem recognised_supported :
  forall P L caller args gs1 g0 gs2 tail,
    recognisedb P L caller args gs1 g0 gs2 tail = true -> supported_layoutb P L caller args gs1 g0 gs2 tail = true.
Proof.
  intros P L caller args gs1 g0 gs2 tail H. unfold recognisedb in H. unfold supported_layoutb.
  repeat (apply andb_true_iff in H; destruct H as [H ?]).
  rewrite (segs_syn_ok_segs_ok _ _ _ H). rewrite H0, H1, H2, H3. reflexivity.
Qed.

(* ------------------------------------------------------------------ the def branch *)
Lemma scan_def_eq : forall P eqfix whole ts last prev nm i cs,
    scan P ["def"] eqfix whole (First last prev nm) i ts cs = def_scan ts.
Proof.
  intros P eqfix whole. induction ts as [|t r IH]; intros last prev nm i cs; cbn [scan def_scan]; [reflexivity|].
  destruct (is_kind KErr t); [reflexivity|]. unfold is_name.
  destruct (is_kind KName t); cbn [andb]; [|apply IH].
  cbn [existsb]. destruct (String.eqb (ttext t) "def"); cbn [orb]; [reflexivity | apply IH].
Qed.

Lemma def_scan_shape : forall ts, match def_scan ts with ScDone _ | ScNoName _ => False | _ => True end.
Proof. induction ts as [|t r IH]; cbn [def_scan]; auto. destruct (is_kind KErr t); auto. destruct (is_name "def" t); auto. Qed.

(* the outcome for a function depends on nothing but the first stream up to its first `def` and the
   function's own parsed source: no lambda of the neighbourhood, no caller name, no parameter name and
   no parse of any extent takes part *)
Theorem def_exact :
  forall P streams L dsrc caller args,
    find P streams L false dsrc caller args
    = match streams with
      | [] => NeedStream 0
      | ts :: _ => match def_scan ts with
                   | ScDef => def_outcome dsrc
                   | ScCrash e => Crash e
                   | _ => Err ENoSource
                   end
      end.
Proof.
  intros P streams L dsrc caller args. unfold find, find_gen. cbn [keywords].
  destruct streams as [|ts more]; [reflexivity|]. cbn [backup]. unfold scan_stream. rewrite scan_def_eq.
  pose proof (def_scan_shape ts) as Hs. destruct (def_scan ts); try contradiction; reflexivity.
Qed.

Theorem def_supported :
  forall P ts more L dsrc caller args,
    def_layoutb ts dsrc = true -> find P (ts :: more) L false dsrc caller args = FoundDef.
Proof.
  intros P ts more L dsrc caller args H. rewrite def_exact. unfold def_layoutb in H.
  destruct (def_scan ts); try discriminate. unfold one_return in H. destruct dsrc as [b|e]; [|discriminate].
  cbn [def_outcome]. destruct (filter not_doc b) as [|x [|y l']]; try discriminate; destruct x; try discriminate; reflexivity.
Qed.

(* safety of the def branch: FoundDef is answered only when the function's own source (dsrc - what
   inspect.getsource + ast.parse give for the object that was passed) is docstrings plus one return *)
Theorem def_found_only_own_return :
  forall P streams L dsrc caller args,
    find P streams L false dsrc caller args = FoundDef -> one_return dsrc = true.
Proof.
  intros P streams L dsrc caller args H. rewrite def_exact in H.
  destruct streams as [|ts more]; [discriminate|]. destruct (def_scan ts); try discriminate.
  unfold one_return. destruct dsrc as [b|e]; cbn [def_outcome] in H; [|discriminate].
  destruct (filter not_doc b) as [|x [|y l']]; try discriminate; destruct x; try discriminate; reflexivity.
Qed.

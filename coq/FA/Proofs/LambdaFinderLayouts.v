(* Liveness for the segment layouts of Model/LambdaFinderSpec.v: a scanned logical line made of
   call segments  glue NAME(f) gap `lambda` body stop  is recovered. *)
From Coq Require Import List String ZArith Bool Arith Lia.
From FA.Model Require Import LambdaFinder LambdaFinderSpec.
From FA.Proofs Require Import LambdaFinderProofs.
Import ListNotations.
Open Scope string_scope.
Open Scope list_scope.

Lemma no_err_kerr : forall t, no_err t = true -> is_kind KErr t = false.
Proof. intros t H. unfold no_err in H. destruct (is_kind KErr t); [discriminate | reflexivity]. Qed.

Lemma skipn_app_exact : forall (A : Type) (l1 l2 : list A), skipn (List.length l1) (l1 ++ l2) = l2.
Proof. induction l1; cbn; auto. Qed.

Lemma firstn_app_exact : forall (A : Type) (l1 l2 : list A), firstn (List.length l1) (l1 ++ l2) = l1.
Proof. induction l1; cbn; intros; [reflexivity | f_equal; auto]. Qed.

Lemma extent_seg : forall pre lam body rest,
    extent (pre ++ lam :: body ++ rest) (List.length pre) (List.length pre + 1 + List.length body)
    = lam :: filter not_comment body.
Proof.
  intros pre lam body rest. unfold extent.
  rewrite skipn_app_exact. cbn [firstn app].
  replace (S (List.length pre)) with (List.length (pre ++ [lam])) by (rewrite app_length; cbn; lia).
  replace (pre ++ lam :: body ++ rest) with ((pre ++ [lam]) ++ body ++ rest) by (rewrite <- app_assoc; reflexivity).
  rewrite skipn_app_exact.
  replace (List.length pre + 1 + List.length body - List.length (pre ++ [lam])) with (List.length body) by (rewrite app_length; cbn; lia).
  rewrite firstn_app_exact. reflexivity.
Qed.

Lemma layout_toks_cons : forall g l tail, layout_toks (g :: l) tail = seg_toks g ++ layout_toks l tail.
Proof. intros. unfold layout_toks. cbn [flat_map]. rewrite <- app_assoc. reflexivity. Qed.

Section Layout.
  Variable P : parse_fn.
  Variable kw : list string.
  Variable whole : list tok.
  Hypothesis HkwL : existsb (String.eqb "lambda") kw = true.

  Definition mode0 (first : bool) (last : option string) : mode := if first then First last else Seek last.

  Lemma scan_glue : forall first xs last i rest cs,
      forallb (glue_tok_ok first kw) xs = true ->
      exists last', scan P kw whole (mode0 first last) i (xs ++ rest) cs
                    = scan P kw whole (mode0 first last') (i + List.length xs) rest cs.
  Proof.
    intros first. induction xs as [|a xs IH]; intros last i rest cs H.
    - exists last. cbn. rewrite Nat.add_0_r. reflexivity.
    - cbn [forallb] in H. apply andb_true_iff in H. destruct H as [Ha Hxs].
      unfold glue_tok_ok in Ha. apply andb_true_iff in Ha. destruct Ha as [He Ha].
      cbn [app List.length]. replace (i + S (List.length xs)) with (S i + List.length xs) by lia.
      destruct first; cbn [mode0 scan] in *; rewrite (no_err_kerr _ He).
      + destruct (is_kind KName a) eqn:Hn.
        * cbn [andb] in Ha. apply negb_true_iff in Ha. rewrite Ha. apply (IH (Some (ttext a))); auto.
        * apply (IH last); auto.
      + apply andb_true_iff in Ha. destruct Ha as [Hl Hnl]. apply negb_true_iff in Hl, Hnl.
        destruct (is_kind KName a) eqn:Hn.
        * unfold is_name in Hl. rewrite Hn in Hl. cbn [andb] in Hl. rewrite Hl. apply (IH (Some (ttext a))); auto.
        * rewrite Hnl. apply (IH last); auto.
  Qed.

  Lemma scan_gap : forall first xs last i rest cs,
      forallb gap_tok_ok xs = true ->
      scan P kw whole (mode0 first last) i (xs ++ rest) cs
      = scan P kw whole (mode0 first last) (i + List.length xs) rest cs.
  Proof.
    intros first. induction xs as [|a xs IH]; intros last i rest cs H.
    - cbn. rewrite Nat.add_0_r. reflexivity.
    - cbn [forallb] in H. apply andb_true_iff in H. destruct H as [Ha Hxs].
      unfold gap_tok_ok in Ha. repeat (apply andb_true_iff in Ha; destruct Ha as [Ha ?]).
      cbn [app List.length]. replace (i + S (List.length xs)) with (S i + List.length xs) by lia.
      rewrite <- (IH last (S i) rest cs Hxs).
      match goal with H1 : negb (is_kind KName a) = true, H2 : negb (is_kind KNewline a) = true |- _ =>
        apply negb_true_iff in H1, H2; destruct first; cbn [mode0 scan]; rewrite (no_err_kerr _ Ha), H1; try rewrite H2; reflexivity end.
  Qed.

  Lemma scan_body : forall body p b c saw i rest cs key st row p' b' c',
      body_ok p b c body = Some (p', b', c') ->
      scan P kw whole (Ext key st row p b c saw) i (body ++ rest) cs
      = scan P kw whole (Ext key st row p' b' c' (saw || existsb is_nl (filter not_comment body)))
             (i + List.length body) rest cs.
  Proof.
    induction body as [|a body IH]; intros p b c saw i rest cs key st row p' b' c' H.
    - cbn in H. inversion H; subst. cbn. rewrite Nat.add_0_r, orb_false_r. reflexivity.
    - cbn [body_ok] in H. destruct (is_kind KErr a) eqn:He; [discriminate|].
      destruct (is_stop a && zero3 p b c) eqn:Hs; [discriminate|].
      cbn [app List.length scan]. rewrite He, Hs. replace (i + S (List.length body)) with (S i + List.length body) by lia.
      cbn [filter]. unfold not_comment at 1. destruct (is_kind KComment a); cbn [negb].
      + apply IH; auto.
      + rewrite (IH _ _ _ _ _ _ _ _ _ _ _ _ _ H). cbn [existsb]. rewrite orb_assoc. reflexivity.
  Qed.

  Lemma scan_name_step : forall (first : bool) last i nm row rest cs,
      (if first then existsb (String.eqb nm) kw else String.eqb nm "lambda") = false ->
      scan P kw whole (mode0 first last) i (mkTok row KName nm :: rest) cs
      = scan P kw whole (mode0 first (Some nm)) (S i) rest cs.
  Proof.
    intros first last i nm row rest cs H. destruct first; cbn [mode0 scan]; cbn [is_kind tkind ttext]; rewrite H; reflexivity.
  Qed.

  Lemma scan_lambda_step : forall first nm i row rest cs,
      scan P kw whole (mode0 first (Some nm)) i (mkTok row KName "lambda" :: rest) cs
      = scan P kw whole (Ext (Some nm) i row 0 0 0 false) (S i) rest cs.
  Proof.
    intros first nm i row rest cs. destruct first; cbn [mode0 scan]; cbn [is_kind tkind ttext trow].
    - rewrite HkwL. reflexivity.
    - reflexivity.
  Qed.

  Lemma is_stop_not_err : forall t, is_stop t = true -> is_kind KErr t = false.
  Proof. intros t. unfold is_stop, is_op, is_kind. destruct (tkind t); cbn; auto; discriminate. Qed.

  Lemma scan_stop_step : forall key st row p b c saw i t rest cs,
      is_stop t = true -> zero3 p b c = true ->
      scan P kw whole (Ext key st row p b c saw) i (t :: rest) cs
      = close P whole key st i row cs
              (fun cs' => if saw then ScDone (rev cs') else scan P kw whole (Seek None) (S i) rest cs').
  Proof.
    intros key st row p b c saw i t rest cs Hs Hz. cbn [scan]. rewrite (is_stop_not_err _ Hs), Hs, Hz. reflexivity.
  Qed.

  Definition cand_of (g : segment) (i : nat) : cand :=
    mkCand (Some (g_name g)) (seg_start g i) (seg_start g i + 1 + List.length (g_body g)) (g_lrow g) (P (ext_of g)).
  Definition parse_ok (g : segment) : Prop := exists a, P (ext_of g) = PArgs a.

  Lemma seg_toks_length : forall g,
      List.length (seg_toks g) = List.length (g_glue g) + 1 + List.length (g_gap g) + 1 + List.length (g_body g) + 1.
  Proof. intros g. unfold seg_toks. repeat (rewrite app_length; cbn [List.length]). lia. Qed.

  Lemma seg_toks_app : forall g rest,
      seg_toks g ++ rest
      = g_glue g ++ mkTok (g_row g) KName (g_name g) :: g_gap g ++ lam_tok g :: g_body g ++ g_stop g :: rest.
  Proof. intros g rest. unfold seg_toks, lam_tok. repeat rewrite <- app_assoc. reflexivity. Qed.

  Lemma scan_segment : forall first lastf g pre rest last cs,
      whole = pre ++ seg_toks g ++ rest ->
      seg_ok first lastf kw g = true ->
      parse_ok g ->
      scan P kw whole (mode0 first last) (List.length pre) (seg_toks g ++ rest) cs
      = if seg_saw g then ScDone (rev (cand_of g (List.length pre) :: cs))
        else scan P kw whole (Seek None) (List.length pre + List.length (seg_toks g)) rest
                  (cand_of g (List.length pre) :: cs).
  Proof.
    intros first lastf g pre rest last cs Hw Hok [a Ha].
    unfold seg_ok in Hok. repeat (apply andb_true_iff in Hok; destruct Hok as [Hok ?]).
    rename Hok into Hglue.
    match goal with H : body_balanced _ = true |- _ => rename H into Hbal end.
    match goal with H : is_stop _ = true |- _ => rename H into Hstop end.
    match goal with H : forallb gap_tok_ok _ = true |- _ => rename H into Hgap end.
    match goal with H : (if first then _ else _) = true |- _ => rename H into Hname end.
    unfold body_balanced in Hbal. destruct (body_ok 0 0 0 (g_body g)) as [[[p' b'] c']|] eqn:Hbody; [|discriminate].
    assert (Hname' : (if first then existsb (String.eqb (g_name g)) kw else String.eqb (g_name g) "lambda") = false).
    { destruct first; apply negb_true_iff in Hname; exact Hname. }
    rewrite seg_toks_app.
    destruct (scan_glue first (g_glue g) last (List.length pre)
                        (mkTok (g_row g) KName (g_name g) :: g_gap g ++ lam_tok g :: g_body g ++ g_stop g :: rest) cs Hglue)
      as [last' ->].
    rewrite (scan_name_step first last' _ (g_name g) (g_row g) _ cs Hname').
    rewrite scan_gap by exact Hgap.
    unfold lam_tok at 1. rewrite scan_lambda_step.
    rewrite (scan_body _ _ _ _ _ _ _ _ _ _ _ _ _ _ Hbody).
    rewrite (scan_stop_step _ _ _ _ _ _ _ _ _ _ _ Hstop Hbal).
    unfold close.
    assert (Hext : extent whole (seg_start g (List.length pre))
                          (S (List.length pre + List.length (g_glue g)) + List.length (g_gap g) + 1 + List.length (g_body g))
                   = ext_of g).
    { rewrite Hw, seg_toks_app.
      replace (pre ++ g_glue g ++ mkTok (g_row g) KName (g_name g) :: g_gap g ++ lam_tok g :: g_body g ++ g_stop g :: rest)
        with ((pre ++ g_glue g ++ mkTok (g_row g) KName (g_name g) :: g_gap g) ++ lam_tok g :: g_body g ++ (g_stop g :: rest)).
      2:{ repeat rewrite <- app_assoc. cbn [app]. reflexivity. }
      replace (seg_start g (List.length pre))
        with (List.length (pre ++ g_glue g ++ mkTok (g_row g) KName (g_name g) :: g_gap g)).
      2:{ unfold seg_start. repeat (rewrite app_length; cbn [List.length]). lia. }
      replace (S (List.length pre + List.length (g_glue g)) + List.length (g_gap g) + 1 + List.length (g_body g))
        with (List.length (pre ++ g_glue g ++ mkTok (g_row g) KName (g_name g) :: g_gap g) + 1 + List.length (g_body g)).
      2:{ repeat (rewrite app_length; cbn [List.length]). lia. }
      apply extent_seg. }
    replace (S (List.length pre + List.length (g_glue g)) + List.length (g_gap g))
      with (seg_start g (List.length pre)) by (unfold seg_start; lia).
    replace (S (seg_start g (List.length pre)) + List.length (g_body g))
      with (seg_start g (List.length pre) + 1 + List.length (g_body g)) by lia.
    replace (S (List.length pre + List.length (g_glue g)) + List.length (g_gap g) + 1 + List.length (g_body g))
      with (seg_start g (List.length pre) + 1 + List.length (g_body g)) in Hext by (unfold seg_start; lia).
    rewrite Hext, Ha. cbn [orb]. fold (seg_saw g).
    unfold cand_of. rewrite Ha.
    replace (S (seg_start g (List.length pre) + 1 + List.length (g_body g)))
      with (List.length pre + List.length (seg_toks g)) by (rewrite seg_toks_length; unfold seg_start; lia).
    reflexivity.
  Qed.

  Lemma name_not_newline : forall t, is_kind KName t = true -> is_kind KNewline t = false.
  Proof. intros t. unfold is_kind. destruct (tkind t); auto; discriminate. Qed.

  Lemma scan_tail : forall tail last i cs,
      tail_ok tail = true -> scan P kw whole (Seek last) i tail cs = ScDone (rev cs).
  Proof.
    induction tail as [|a tail IH]; intros last i cs H; cbn [scan]; [reflexivity|].
    cbn [tail_ok] in H. apply andb_true_iff in H. destruct H as [He H]. rewrite (no_err_kerr _ He).
    destruct (is_kind KName a) eqn:Hn.
    - rewrite (name_not_newline _ Hn) in H. cbn [orb] in H. apply andb_true_iff in H. destruct H as [Hl Ht].
      apply negb_true_iff in Hl. unfold is_name in Hl. rewrite Hn in Hl. cbn [andb] in Hl. rewrite Hl. apply IH; auto.
    - destruct (is_kind KNewline a); [reflexivity|]. cbn [orb] in H. apply andb_true_iff in H. destruct H as [_ Ht].
      apply IH; auto.
  Qed.

  Fixpoint cands_from (gs : list segment) (i : nat) : list cand :=
    match gs with
    | [] => []
    | g :: r => cand_of g i :: cands_from r (i + List.length (seg_toks g))
    end.

  Lemma existsb_filter_false : forall (A : Type) (f g : A -> bool) l,
      existsb f l = false -> existsb f (filter g l) = false.
  Proof.
    induction l as [|x l IH]; intros H; [reflexivity|]. cbn [existsb] in H. apply orb_false_iff in H.
    destruct H as [H1 H2]. cbn [filter]. destruct (g x); cbn [existsb]; [rewrite H1|]; auto.
  Qed.

  Lemma scan_chain : forall gs first pre tail cs last,
      whole = pre ++ layout_toks gs tail ->
      segs_ok first kw gs = true -> Forall parse_ok gs -> end_ok gs tail = true ->
      scan P kw whole (mode0 first last) (List.length pre) (layout_toks gs tail) cs
      = ScDone (rev cs ++ cands_from gs (List.length pre)).
  Proof.
    induction gs as [|g r IH]; intros first pre tail cs last Hw Hok Hp He; [discriminate|].
    pose proof (Forall_inv Hp) as Hpg. pose proof (Forall_inv_tail Hp) as Hpr.
    destruct r as [|g2 r'].
    - cbn [segs_ok] in Hok. cbn [end_ok] in He.
      unfold layout_toks in *. cbn [flat_map] in *. rewrite app_nil_r in *.
      rewrite (scan_segment first true g pre tail last cs Hw Hok Hpg).
      cbn [cands_from]. destruct (seg_saw g).
      + reflexivity.
      + cbn [orb] in He. rewrite scan_tail by exact He. reflexivity.
    - cbn [segs_ok] in Hok. apply andb_true_iff in Hok. destruct Hok as [Hg Hr].
      assert (Hsaw : seg_saw g = false).
      { unfold seg_ok in Hg. apply andb_true_iff in Hg. destruct Hg as [_ Hg]. cbn [orb] in Hg.
        apply negb_true_iff in Hg. unfold seg_saw. apply existsb_filter_false; auto. }
      rewrite layout_toks_cons in *.
      rewrite (scan_segment first false g pre (layout_toks (g2 :: r') tail) last cs Hw Hg Hpg). rewrite Hsaw.
      change (Seek None) with (mode0 false None).
      replace (List.length pre + List.length (seg_toks g)) with (List.length (pre ++ seg_toks g)) by (rewrite app_length; reflexivity).
      rewrite (IH false (pre ++ seg_toks g) tail (cand_of g (List.length pre) :: cs) None); auto.
      + cbn [rev cands_from]. rewrite <- app_assoc. cbn [app]. rewrite app_length. reflexivity.
      + rewrite Hw. rewrite <- app_assoc. reflexivity.
  Qed.

  Lemma cands_from_app : forall gs1 gs2 i,
      cands_from (gs1 ++ gs2) i = cands_from gs1 i ++ cands_from gs2 (i + List.length (flat_map seg_toks gs1)).
  Proof.
    induction gs1 as [|g r IH]; intros gs2 i; cbn [app cands_from flat_map List.length].
    - rewrite Nat.add_0_r. reflexivity.
    - rewrite IH. rewrite app_length. f_equal. f_equal. f_equal. lia.
  Qed.

  Lemma cands_from_parse : forall gs i c, Forall parse_ok gs -> In c (cands_from gs i) -> exists a, c_parse c = PArgs a.
  Proof.
    induction gs as [|g r IH]; intros i c Hp Hin; [destruct Hin|]. inversion Hp; subst.
    destruct Hin as [<-|Hin]; [cbn; assumption | eapply IH; eauto].
  Qed.
End Layout.

(* ------------------------------------------------------------------ selection among segments *)
Lemma filter_filter2 : forall (A : Type) (f g : A -> bool) l,
    filter f (filter g l) = filter (fun x => g x && f x) l.
Proof.
  induction l as [|x l IH]; [reflexivity|]. cbn [filter]. destruct (g x); cbn [filter andb]; [destruct (f x)|]; rewrite IH; reflexivity.
Qed.

Definition cand_matches (L : nat) (caller : string) (args : list string) (c : cand) : bool :=
  on_row L c && (key_is caller c && args_are args c).

Lemma cand_of_matches : forall P L caller args g i,
    cand_matches L caller args (cand_of P g i) = seg_matches P L caller args g.
Proof. intros. reflexivity. Qed.

Lemma filter_cands_none : forall P L caller args gs i,
    Forall (fun g => seg_matches P L caller args g = false) gs ->
    filter (cand_matches L caller args) (cands_from P gs i) = [].
Proof.
  induction gs as [|g r IH]; intros i H; [reflexivity|]. inversion H; subst.
  cbn [cands_from filter]. rewrite cand_of_matches. rewrite H2. apply IH; auto.
Qed.

Lemma filter_mid : forall (A : Type) (f : A -> bool) l1 x l2,
    filter f l1 = [] -> f x = true -> filter f l2 = [] -> filter f (l1 ++ x :: l2) = [x].
Proof. intros A f l1 x l2 H1 Hx H2. rewrite filter_app. cbn [filter]. rewrite H1, Hx, H2. reflexivity. Qed.

Lemma backup_earlier : forall P kw earlier toks s0,
    Forall (fun ts => exists k, scan_stream P kw ts = ScNoName k) earlier ->
    (forall k, scan_stream P kw toks <> ScNoName k) ->
    backup P kw (earlier ++ [toks]) s0 = (s0 + List.length earlier, Some (scan_stream P kw toks)).
Proof.
  induction earlier as [|ts r IH]; intros toks s0 He Hn; cbn [app backup List.length].
  - rewrite Nat.add_0_r. destruct (scan_stream P kw toks) eqn:E; try reflexivity. exfalso. eapply Hn; eauto.
  - inversion He as [|? ? [k Hk] Hr]; subst. rewrite Hk. rewrite (IH toks (S s0) Hr Hn). f_equal. lia.
Qed.

Theorem supported_layouts :
  forall P L dsrc caller args earlier gs1 g0 gs2 tail,
    Forall (fun ts => exists k, scan_stream P ["lambda"] ts = ScNoName k) earlier ->
    segs_ok true ["lambda"] (gs1 ++ g0 :: gs2) = true ->
    Forall (parse_ok P) (gs1 ++ g0 :: gs2) ->
    end_ok (gs1 ++ g0 :: gs2) tail = true ->
    seg_matches P L caller args g0 = true ->
    Forall (fun g => seg_matches P L caller args g = false) gs1 ->
    Forall (fun g => seg_matches P L caller args g = false) gs2 ->
    find P (earlier ++ [layout_toks (gs1 ++ g0 :: gs2) tail]) L true dsrc (Some caller) args
    = Found (List.length earlier) (seg_start g0 (List.length (flat_map seg_toks gs1))).
Proof.
  intros P L dsrc caller args earlier gs1 g0 gs2 tail He Hok Hp Hend Hm H1 H2.
  set (gs := gs1 ++ g0 :: gs2) in *. set (toks := layout_toks gs tail).
  assert (Hscan : scan_stream P ["lambda"] toks = ScDone (cands_from P gs 0)).
  { exact (scan_chain P ["lambda"] toks eq_refl gs true [] tail [] None eq_refl Hok Hp Hend). }
  unfold find, find_gen. cbn [keywords].
  rewrite (backup_earlier P ["lambda"] earlier toks 0 He) by (intros k; rewrite Hscan; discriminate).
  rewrite Hscan. cbn [Nat.add].
  set (cs := cands_from P gs 0).
  assert (Hcs : cs = cands_from P gs1 0 ++ cand_of P g0 (List.length (flat_map seg_toks gs1))
                                 :: cands_from P gs2 (List.length (flat_map seg_toks gs1) + List.length (seg_toks g0))).
  { unfold cs, gs. rewrite cands_from_app. reflexivity. }
  unfold select.
  set (search := filter (key_is caller) (filter (on_row L) cs)).
  assert (Hgood : filter (args_are args) search = [cand_of P g0 (List.length (flat_map seg_toks gs1))]).
  { unfold search. rewrite filter_filter2, filter_filter2.
    rewrite (filter_ext _ (cand_matches L caller args)) by (intros; reflexivity).
    rewrite Hcs. apply filter_mid.
    - apply filter_cands_none; auto.
    - rewrite cand_of_matches. exact Hm.
    - apply filter_cands_none; auto. }
  assert (Hsub : forall x, In x search -> In x cs).
  { intros x Hx. unfold search in Hx. apply filter_In in Hx. destruct Hx as [Hx _]. apply filter_In in Hx. tauto. }
  assert (Hnl : existsb no_lambda search = false).
  { apply not_true_is_false. intros Hex. apply existsb_exists in Hex. destruct Hex as (x & Hx & Hn).
    destruct (cands_from_parse P gs 0 x Hp (Hsub x Hx)) as [a Ha]. unfold no_lambda in Hn. rewrite Ha in Hn. discriminate. }
  clearbody search. destruct search as [|c0 rest]; [discriminate|].
  rewrite Hnl, Hgood. reflexivity.
Qed.

Definition backs_up (P : parse_fn) (ts : list tok) : bool :=
  match scan_stream P ["lambda"] ts with ScNoName _ => true | _ => false end.

Theorem supported_layouts_b :
  forall P L dsrc caller args earlier gs1 g0 gs2 tail,
    forallb (backs_up P) earlier = true ->
    supported_layoutb P L caller args gs1 g0 gs2 tail = true ->
    find P (earlier ++ [layout_toks (gs1 ++ g0 :: gs2) tail]) L true dsrc (Some caller) args
    = Found (List.length earlier) (seg_start g0 (List.length (flat_map seg_toks gs1))).
Proof.
  intros P L dsrc caller args earlier gs1 g0 gs2 tail He H.
  unfold supported_layoutb in H. repeat (apply andb_true_iff in H; destruct H as [H ?]).
  match goal with Hn : forallb (fun g => negb _) _ = true |- _ => rename Hn into Hnon end.
  rewrite forallb_app in Hnon. apply andb_true_iff in Hnon. destruct Hnon as [Hn1 Hn2].
  apply supported_layouts; auto.
  - rewrite forallb_forall in He. apply Forall_forall. intros ts Hts. specialize (He ts Hts).
    unfold backs_up in He. destruct (scan_stream P ["lambda"] ts); try discriminate. eauto.
  - apply Forall_forall. intros g Hg.
    match goal with Hp : forallb (seg_parsed P) _ = true |- _ => rewrite forallb_forall in Hp; specialize (Hp g Hg) end.
    unfold parse_ok. unfold seg_parsed in *. destruct (P (ext_of g)); try discriminate. eauto.
  - apply Forall_forall. intros g Hg. rewrite forallb_forall in Hn1. apply negb_true_iff. auto.
  - apply Forall_forall. intros g Hg. rewrite forallb_forall in Hn2. apply negb_true_iff. auto.
Qed.

(* C01: the simplifier's whole-algorithm theorem of C02 (Proofs/SimplifySound.v: simp_preserves) composed with the
   method-form and aggregate passes and with the chain theorems, in place of the hypothesis [simp_ok].

   simp_preserves speaks of admissible queries: well formed ([wfq]), free of the library's reserved names arg_N
   ([below 0]), whose lambda parameters the backend gives no meaning to as function names ([bok B]), and free of First
   (the First push-through is sound for LINQ's lazy Select, not for the eager list semantics of [eval]); and of backends
   meeting [backend_ok].  These are required here of the query that reaches the simplifier, agg (ext q). *)
From Coq Require Import Ascii.
From FA.Base Require Import PyAst Induct Value Eval Traverse Names.
From FA.Gen Require Import Tables TablesStream.
From FA.Model Require Import TypeDefs Pipeline.
From FA.Model Require Capture Sugar TypeFollow MetaData ExtCalls Aggregate Simplify.
From FA.Proofs Require Import Refine RenameSem SimplifyTotal SimplifyInv SimplifySound TypeFollowUntyped
  PipelineFacts PipelineSem PipelineCapture.

(* the query is one the simplifier's theorem applies to *)
Definition admissible (B : backend) (q1 : expr) : Prop :=
  wfq q1 = true /\ below 0 q1 /\ bok B q1 /\ mentions "First" q1 = false.

Theorem simplify_query_sem (B : backend) (ops : list string) fuel q1 q' :
  backend_ok B -> admissible B q1 -> simplify_query fuel q1 = Some q' ->
  forall E v, eval B ops E q1 = Some v -> eval B ops E q' = Some v.
Proof.
  intros HB (Hw & Hb & Hk & Hf) Hs E v. unfold simplify_query in Hs.
  destruct (Simplify.simplify fuel 0 q1) as [[e c']| | |] eqn:H; try discriminate. inversion Hs; subst e.
  exact (proj1 (simp_preserves B ops fuel 0 q1 q' c' HB Hw Hb Hk Hf H) E v).
Qed.

Theorem passes_sem_no_first (B : backend) fuel q q1 q' :
  backend_ok B ->
  ExtCalls.ops_kw_free ext_default_ops q = true ->
  Aggregate.agg (ExtCalls.ext q) = Some q1 -> admissible B q1 ->
  backend_passes fuel q = Some q' ->
  forall E v, eval B ext_default_ops E q = Some v -> eval B ext_default_ops E q' = Some v.
Proof.
  intros HB Hk Ha Hadm Hp E v Hv. unfold backend_passes in Hp. rewrite Ha in Hp. cbn [obind] in Hp.
  eapply simplify_query_sem; try eassumption. eapply ext_agg_sem; eassumption.
Qed.

Theorem end_to_end_no_first_x (B : backend) (W : world) (fuel : nat) :
  backend_ok B -> md_identity B -> terminals_ok B -> ft_plain (w_ft W) ->
  forall ch term q q1 q' data r,
    dataset B data ->
    plain_chain W TAny ch = true ->
    query W TAny ch term = POk q ->
    ExtCalls.ops_kw_free ext_default_ops q = true ->
    Aggregate.agg (ExtCalls.ext q) = Some q1 -> admissible B q1 ->
    backend_passes fuel q = Some q' ->
    direct B ext_default_ops ch data = Some r ->
    eval B ext_default_ops [] q' = Some (VList r).
Proof.
  intros HB Hmd Ht Hft ch term q q1 q' data r Hds Hp Hq Hk Ha Hadm Hb Hd.
  eapply passes_sem_no_first; try eassumption.
  eapply (operator_chain_means_direct_x B ext_default_ops W); try eassumption; reflexivity.
Qed.

Theorem end_to_end_literals_no_first_x (B : backend) (W : world) (fuel : nat) :
  backend_ok B -> md_identity B -> terminals_ok B -> ft_plain (w_ft W) ->
  forall ch term q q1 q' data r,
    dataset B data ->
    lit_chain W TAny ch ->
    query W TAny ch term = POk q ->
    ExtCalls.ops_kw_free ext_default_ops q = true ->
    Aggregate.agg (ExtCalls.ext q) = Some q1 -> admissible B q1 ->
    backend_passes fuel q = Some q' ->
    direct B ext_default_ops ch data = Some r ->
    eval B ext_default_ops [] q' = Some (VList r).
Proof.
  intros HB Hmd Ht Hft ch term q q1 q' data r Hds Hc Hq Hk Ha Hadm Hb Hd.
  eapply passes_sem_no_first; try eassumption.
  eapply (captured_literals_chain_means_direct_x B ext_default_ops W); try eassumption; reflexivity.
Qed.

(* relative to the component hypotheses that remain for typed datasets and general callables *)
Theorem query_passes_no_first_x (B : backend) (W : world) (fuel : nat) :
  backend_ok B -> md_identity B -> terminals_ok B ->
  capture_sound B ext_default_ops -> follow_sound B ext_default_ops W ->
  forall item ch term q q1 q' data r,
    dataset B data ->
    query W item ch term = POk q ->
    ExtCalls.ops_kw_free ext_default_ops q = true ->
    Aggregate.agg (ExtCalls.ext q) = Some q1 -> admissible B q1 ->
    backend_passes fuel q = Some q' ->
    direct B ext_default_ops ch data = Some r ->
    eval B ext_default_ops [] q' = Some (VList r).
Proof.
  intros HB Hmd Ht Hc Hf item ch term q q1 q' data r Hds Hq Hk Ha Hadm Hb Hd.
  eapply passes_sem_no_first; try eassumption.
  eapply (query_means_chain_x B ext_default_ops W); try eassumption; reflexivity.
Qed.

(* ---------- [admissible], decided ---------- *)

(* every identifier of a query: lambda parameters, and (with [free]) the names it uses *)
Fixpoint idents (free : bool) (e : expr) {struct e} : list string :=
  match e with
  | Name x => if free then [x] else []
  | Const _ | Raw _ => []
  | Attr v _ => idents free v
  | Call f args _ kwv => idents free f ++ flat_map (idents free) args ++ flat_map (idents free) kwv
  | Lambda ps b => ps ++ idents free b
  | UnaryOp _ a => idents free a
  | BinOp _ l r => idents free l ++ idents free r
  | BoolOp _ es => flat_map (idents free) es
  | Compare l _ rs => idents free l ++ flat_map (idents free) rs
  | IfExp c t f => idents free c ++ idents free t ++ idents free f
  | Tuple es | List es => flat_map (idents free) es
  | Dict ks vs => flat_map (idents free) ks ++ flat_map (idents free) vs
  | Subscript v i => idents free v ++ idents free i
  | ListComp a gs | GenExp a gs => idents free a ++ flat_map (idents free) gs
  | CompFor t i ifs _ => idents free t ++ idents free i ++ flat_map (idents free) ifs
  | Other _ _ cs => flat_map (idents free) cs
  end.

Lemma existsb_eqb_in y ps : existsb (String.eqb y) ps = true -> In y ps.
Proof.
  intros H. apply existsb_exists in H. destruct H as (z & Hz & He). apply String.eqb_eq in He. subst. exact Hz.
Qed.

Lemma mentions_any_idents y l :
  Forall (fun x => mentions y x = true -> In y (idents true x)) l ->
  mentions_any y l = true -> In y (flat_map (idents true) l).
Proof.
  induction 1 as [|x l Hx _ IH]; cbn [mentions_any flat_map]; intros H; [discriminate|].
  apply orb_true_iff in H. apply in_app_iff. destruct H as [H|H]; [left; apply Hx | right; apply IH]; exact H.
Qed.

Lemma mentions_idents y e : mentions y e = true -> In y (idents true e).
Proof.
  induction e using expr_ind'; cbn [mentions idents]; rewrite ?mentions_any_fix; intros Hm;
    repeat match goal with
           | Hm : _ || _ = true |- _ => apply orb_true_iff in Hm; destruct Hm as [Hm|Hm]
           end;
    try discriminate;
    repeat rewrite in_app_iff;
    try (apply String.eqb_eq in Hm; subst; left; reflexivity);
    auto using existsb_eqb_in, mentions_any_idents.
  all: try (right; auto using mentions_any_idents; fail).
  all: try (right; right; auto using mentions_any_idents; fail).
  all: try (right; left; auto using mentions_any_idents; fail).
Qed.

Lemma binds_any_idents y l :
  Forall (fun x => binds y x = true -> In y (idents false x)) l ->
  binds_any y l = true -> In y (flat_map (idents false) l).
Proof.
  induction 1 as [|x l Hx _ IH]; cbn [binds_any flat_map]; intros H; [discriminate|].
  apply orb_true_iff in H. apply in_app_iff. destruct H as [H|H]; [left; apply Hx | right; apply IH]; exact H.
Qed.

Lemma binds_idents y e : binds y e = true -> In y (idents false e).
Proof.
  induction e using expr_ind'; cbn [binds idents]; rewrite ?binds_any_fix; intros Hm;
    repeat match goal with
           | Hm : _ || _ = true |- _ => apply orb_true_iff in Hm; destruct Hm as [Hm|Hm]
           end;
    try discriminate;
    repeat rewrite in_app_iff;
    auto using existsb_eqb_in, binds_any_idents.
  all: try (right; auto using binds_any_idents; fail).
  all: try (right; right; auto using binds_any_idents; fail).
  all: try (right; left; auto using binds_any_idents; fail).
Qed.

Definition reserved_name (x : string) : bool :=
  match x with
  | String c1 (String c2 (String c3 (String c4 _))) =>
      (Ascii.eqb c1 "a" && Ascii.eqb c2 "r" && Ascii.eqb c3 "g" && Ascii.eqb c4 "_")%char
  | _ => false
  end.

Lemma arg_name_reserved n : reserved_name (arg_name n) = true.
Proof. unfold reserved_name, arg_name. reflexivity. Qed.

(* the boolean part of [admissible]; what remains is a fact about the backend, for finitely many names *)
Definition admissible_b (q1 : expr) : bool :=
  wfq q1 && forallb (fun x => negb (reserved_name x)) (idents true q1) && negb (mentions "First" q1).

Theorem admissible_decided (B : backend) q1 :
  admissible_b q1 = true -> Forall (nofun B) (idents false q1) -> admissible B q1.
Proof.
  unfold admissible_b. intros H Hn.
  apply andb_true_iff in H. destruct H as [H Hf]. apply andb_true_iff in H. destruct H as [Hw Hr].
  split; [exact Hw|]. split; [|split].
  - intros n _. destruct (mentions (arg_name n) q1) eqn:Hm; [|reflexivity]. exfalso.
    apply mentions_idents in Hm. rewrite forallb_forall in Hr. specialize (Hr _ Hm).
    rewrite arg_name_reserved in Hr. discriminate.
  - intros y Hy. apply binds_idents in Hy. rewrite Forall_forall in Hn. apply Hn. exact Hy.
  - destruct (mentions "First" q1); [discriminate | reflexivity].
Qed.

(* Proofs about the token-level lambda finder (Model/LambdaFinder.v, Model/LambdaFinderSpec.v). *)
From Coq Require Import List String ZArith Bool Arith Lia.
From FA.Model Require Import LambdaFinder LambdaFinderSpec.
Import ListNotations.
Open Scope string_scope.
Open Scope list_scope.

(* ------------------------------------------------------------------ lists *)
Lemma skipn_cons_nth : forall (A : Type) (l : list A) i t r,
    skipn i l = t :: r -> nth_error l i = Some t /\ skipn (S i) l = r.
Proof.
  induction l as [|a l IH]; intros [|i] t r H; cbn in *; try discriminate.
  - inversion H; auto.
  - apply IH; auto.
Qed.

Lemma skipn_nil_nth : forall (A : Type) (l : list A) i j,
    skipn i l = [] -> i <= j -> nth_error l j = None.
Proof.
  induction l as [|a l IH]; intros [|i] [|j] H Hle; cbn in *; try discriminate; try lia; auto.
  apply (IH i); auto; lia.
Qed.

Lemma firstn_snoc : forall (A : Type) (l : list A) i t,
    nth_error l i = Some t -> firstn (S i) l = firstn i l ++ [t].
Proof.
  induction l as [|a l IH]; intros [|i] t H; try discriminate.
  - cbn in H. inversion H. reflexivity.
  - cbn [nth_error] in H. change (a :: firstn (S i) l = a :: (firstn i l ++ [t])). f_equal. auto.
Qed.

Lemma filter_single : forall (A : Type) (f : A -> bool) l c x,
    filter f l = [c] -> In x l -> f x = true -> x = c.
Proof.
  intros A f l c x H Hin Hf.
  assert (Hx : In x (filter f l)) by (apply filter_In; auto).
  rewrite H in Hx. destruct Hx as [Hx | []]. auto.
Qed.

Lemma in_rev1 : forall (A : Type) (l : list A) x, In x l -> In x (rev l).
Proof. intros A l x H. apply in_rev in H. exact H. Qed.
Lemma in_rev2 : forall (A : Type) (l : list A) x, In x (rev l) -> In x l.
Proof. intros A l x H. apply in_rev. exact H. Qed.

(* ------------------------------------------------------------------ tokens *)
Lemma is_stop_not_name : forall t, is_stop t = true -> is_kind KName t = false.
Proof.
  intros t. unfold is_stop, is_op, is_kind. destruct (tkind t); cbn; auto; discriminate.
Qed.

Lemma is_name_kind : forall s t, is_name s t = true -> is_kind KName t = true /\ ttext t = s.
Proof.
  intros s t H. unfold is_name in H. apply andb_true_iff in H. destruct H as [H1 H2].
  split; auto. apply String.eqb_eq; auto.
Qed.

Lemma newline_not_name : forall t, is_kind KNewline t = true -> is_kind KName t = false.
Proof. intros t. unfold is_kind. destruct (tkind t); auto; discriminate. Qed.

Lemma newline_is_nl : forall t, is_kind KNewline t = true -> is_nl t = true.
Proof. intros t H. unfold is_nl. rewrite H. reflexivity. Qed.

(* ------------------------------------------------------------------ rows *)
Lemma rows_okb_head : forall a r,
    rows_okb (a :: r) = true ->
    forall b, In b r -> trow a <= trow b /\ (is_nl a = true -> trow a < trow b).
Proof.
  intros a r. revert a. induction r as [|x r IH]; intros a H b Hin; [destruct Hin|].
  cbn [rows_okb] in H. apply andb_true_iff in H. destruct H as [H1 H2].
  assert (Hax : trow a <= trow x /\ (is_nl a = true -> trow a < trow x)).
  { destruct (is_nl a).
    - apply Nat.ltb_lt in H1. split; [lia | auto].
    - apply Nat.leb_le in H1. split; [auto | discriminate]. }
  destruct Hin as [-> | Hin]; [exact Hax|].
  destruct (IH x H2 b Hin) as [Hle _]. destruct Hax as [Hax1 Hax2]. split; [lia|].
  intros Hn. specialize (Hax2 Hn). lia.
Qed.

Lemma rows_okb_tail : forall a r, rows_okb (a :: r) = true -> rows_okb r = true.
Proof.
  intros a [|x r] H; [reflexivity|]. cbn [rows_okb] in H. apply andb_true_iff in H. tauto.
Qed.

Lemma rows_ok_lt : forall ts a b ta tb,
    rows_okb ts = true -> a < b -> nth_error ts a = Some ta -> nth_error ts b = Some tb ->
    trow ta <= trow tb /\ (is_nl ta = true -> trow ta < trow tb).
Proof.
  induction ts as [|x ts IH]; intros a b ta tb H Hab Ha Hb; [destruct a; discriminate|].
  destruct b as [|b]; [lia|]. cbn [nth_error] in Hb.
  destruct a as [|a].
  - cbn in Ha. inversion Ha; subst x. apply (rows_okb_head ta ts H). eapply nth_error_In; eauto.
  - cbn [nth_error] in Ha. apply (IH a b); auto. eapply rows_okb_tail; eauto. lia.
Qed.

(* ------------------------------------------------------------------ choosing *)
Lemma select_found : forall rowfix L caller args s cs s' k,
    select rowfix L (Some caller) args s cs = Found s' k ->
    s' = s /\
    exists c, In c cs /\ c_start c = k /\ key_is caller c = true /\ args_are args c = true
              /\ (rowfix = true -> on_row L c = true)
              /\ forall x, In x cs -> key_is caller x = true -> args_are args x = true ->
                           (rowfix = true -> on_row L x = true) -> x = c.
Proof.
  intros rowfix L caller args s cs s' k. unfold select.
  set (cs1 := if rowfix then filter (on_row L) cs else cs).
  set (search := filter (key_is caller) cs1).
  destruct search as [|c0 rest] eqn:Hs; [discriminate|]. rewrite <- Hs.
  destruct (existsb no_lambda search); [discriminate|].
  destruct (filter (args_are args) search) as [|c [|c' l]] eqn:Hf; try discriminate.
  intros H. inversion H; subst s' k. split; auto.
  assert (Hc : In c (filter (args_are args) search)) by (rewrite Hf; left; auto).
  apply filter_In in Hc. destruct Hc as [Hc1 Hc2].
  unfold search in Hc1. apply filter_In in Hc1. destruct Hc1 as [Hc1 Hc3].
  assert (Hcs1 : forall x, In x cs1 <-> In x cs /\ (rowfix = true -> on_row L x = true)).
  { intros x. unfold cs1. destruct rowfix.
    - rewrite filter_In. tauto.
    - split; [intros; split; auto; discriminate | tauto]. }
  apply Hcs1 in Hc1. destruct Hc1 as [Hc1 Hc4].
  exists c. repeat split; auto.
  intros x Hx Hk Ha Hr. apply (filter_single _ (args_are args) search); auto.
  unfold search. apply filter_In. split; auto. apply Hcs1. auto.
Qed.

(* ------------------------------------------------------------------ the scan *)
Section ScanFacts.
  Variable P : parse_fn.
  Variable kw : list string.
  Variable whole : list tok.
  Hypothesis Hkw : forall x, existsb (String.eqb x) kw = true -> x = "lambda" \/ x = "def".
  Hypothesis HkwL : existsb (String.eqb "lambda") kw = true.

  (* what the scan guarantees about a candidate it recorded *)
  Definition good (c : cand) : Prop :=
    exists t, nth_error whole (c_start c) = Some t /\ is_name "lambda" t = true /\ c_row c = trow t
              /\ c_stop c = ext_stop whole (c_start c)
              /\ c_parse c = P (extent whole (c_start c) (c_stop c))
              /\ (forall nm, key_before whole (c_start c) = Some nm -> c_key c = Some nm).

  Definition seek_inv (last : option string) (i : nat) : Prop :=
    forall nm, key_before whole i = Some nm -> last = Some nm.

  Definition mode_inv (m : mode) (i : nat) : Prop :=
    match m with
    | First last | Seek last => seek_inv last i
    | Ext key st row p b c saw =>
        st < i
        /\ (exists t, nth_error whole st = Some t /\ is_name "lambda" t = true /\ row = trow t)
        /\ ext_stop whole st = ext_from p b c i (skipn i whole)
        /\ (forall nm, key_before whole st = Some nm -> key = Some nm)
        /\ (saw = true -> exists e te, st < e < i /\ nth_error whole e = Some te /\ is_nl te = true)
    end.

  Definition lim (m : mode) (i : nat) : nat :=
    match m with Ext _ st _ _ _ _ _ => st | _ => i end.

  Definition reach (i : nat) (res : list cand) : Prop :=
    forall j tj, i <= j -> nth_error whole j = Some tj -> is_name "lambda" tj = true ->
      (exists c, In c res /\ c_start c = j)
      \/ (exists c, In c res /\ c_start c < j <= c_stop c)
      \/ (exists e te, e < j /\ nth_error whole e = Some te /\ is_nl te = true
                       /\ forall c, In c res -> c_start c < e).

  Definition ext_open (m : mode) (i : nat) (res : list cand) : Prop :=
    match m with
    | Ext _ st _ _ _ _ _ => exists c, In c res /\ c_start c = st /\ i <= c_stop c
    | _ => True
    end.

  Lemma seek_name : forall i t, nth_error whole i = Some t -> is_kind KName t = true ->
                                seek_inv (Some (ttext t)) (S i).
  Proof.
    intros i t Hn Hk nm. unfold key_before. rewrite (firstn_snoc _ _ _ _ Hn), fold_left_app.
    cbn [fold_left]. unfold kstep at 1. rewrite Hk. congruence.
  Qed.

  Lemma seek_other : forall i t last, nth_error whole i = Some t -> is_kind KName t = false ->
                                      seek_inv last i -> seek_inv last (S i).
  Proof.
    intros i t last Hn Hk Hinv nm. unfold key_before. rewrite (firstn_snoc _ _ _ _ Hn), fold_left_app.
    cbn [fold_left]. unfold kstep at 1. rewrite Hk. destruct (is_stop t); [discriminate|].
    apply Hinv.
  Qed.

  Lemma seek_after_stop : forall i t, nth_error whole i = Some t -> is_stop t = true ->
                                      seek_inv None (S i).
  Proof.
    intros i t Hn Hs nm. unfold key_before. rewrite (firstn_snoc _ _ _ _ Hn), fold_left_app.
    cbn [fold_left]. unfold kstep at 1. rewrite (is_stop_not_name _ Hs), Hs. discriminate.
  Qed.

  Lemma close_done : forall key st stop row cs k res,
      close P whole key st stop row cs k = ScDone res ->
      exists pr, P (extent whole st stop) = pr /\ k (mkCand key st stop row pr :: cs) = ScDone res.
  Proof.
    intros key st stop row cs k res. unfold close.
    destruct (P (extent whole st stop)) eqn:E; intros H; try discriminate; eexists; split; eauto.
  Qed.

  Lemma lambda_in_kw : forall t, is_name "lambda" t = true -> existsb (String.eqb (ttext t)) kw = true.
  Proof. intros t H. apply is_name_kind in H. destruct H as [_ H]. rewrite H. exact HkwL. Qed.

  Lemma scan_sound : forall ts m i cs res,
      skipn i whole = ts -> mode_inv m i -> Forall good cs ->
      (forall c, In c cs -> c_start c < lim m i) ->
      scan P kw whole m i ts cs = ScDone res ->
      Forall good res /\ (forall c, In c cs -> In c res) /\ ext_open m i res /\ reach i res.
  Proof.
    induction ts as [|t r IH]; intros m i cs res Hsk Hm Hgood Hlim Hscan.
    - (* end of the stream *)
      assert (Hnone : forall j, i <= j -> nth_error whole j = None)
        by (intros j Hj; eapply skipn_nil_nth; eauto).
      assert (Hreach : forall res', reach i res').
      { intros res' j tj Hj Hn. rewrite (Hnone j Hj) in Hn. discriminate. }
      cbn [scan] in Hscan. destruct m as [last|last|key st row p b c saw].
      + discriminate.
      + inversion Hscan; subst res. repeat split; auto.
        * apply Forall_rev; auto.
        * intros c Hc. apply in_rev1; auto.
      + apply close_done in Hscan. destruct Hscan as (pr & HP & Hk).
        destruct Hm as (Hst & (t0 & Ht0 & Hl0 & Hrow) & Hext & Hkey & Hsaw).
        rewrite Hsk in Hext. cbn [ext_from] in Hext.
        set (cn := mkCand key st i row pr) in *.
        assert (Hg : good cn).
        { exists t0. cbn. repeat split; auto. }
        remember (cn :: cs) as cs' eqn:Hcs'.
        assert (Hres : res = rev cs') by congruence. subst res. clear Hk.
        assert (Hin : In cn cs') by (subst cs'; left; auto).
        repeat split; auto.
        * apply Forall_rev. subst cs'. constructor; auto.
        * intros c0 Hc. apply in_rev1. subst cs'. right; auto.
        * cbn. exists cn. split; [apply in_rev1; auto|]. cbn. split; auto.
    - cbn [scan] in Hscan. destruct (is_kind KErr t) eqn:Herr; [discriminate|].
      destruct (skipn_cons_nth _ _ _ _ _ Hsk) as [Hnth Hr].
      assert (Hnotl : is_name "lambda" t = false ->
                      forall res', reach (S i) res' -> reach i res').
      { intros Hnl res' Hre j tj Hj Hn Hl. destruct (Nat.eq_dec j i) as [->|Hne].
        - rewrite Hnth in Hn. inversion Hn; subst tj. congruence.
        - apply (Hre j tj); auto; lia. }
      destruct m as [last|last|key st row p b c saw].
      + (* First *)
        cbn [mode_inv lim] in *.
        destruct (is_kind KName t) eqn:Hname.
        * destruct (existsb (String.eqb (ttext t)) kw) eqn:Hin.
          -- destruct (String.eqb (ttext t) "def") eqn:Hdef; [discriminate|].
             destruct last as [nm0|]; [|discriminate].
             assert (Hlam : is_name "lambda" t = true).
             { unfold is_name. rewrite Hname. destruct (Hkw _ Hin) as [E|E]; rewrite E in *; [reflexivity|discriminate]. }
             apply IH in Hscan; auto.
             ++ destruct Hscan as (R1 & R2 & R3 & R4). repeat split; auto.
                intros j tj Hj Hn Hl. destruct (Nat.eq_dec j i) as [->|Hne].
                ** left. cbn in R3. destruct R3 as (c & Hc & Hcs & _). exists c; auto.
                ** apply (R4 j tj); auto; lia.
             ++ cbn. repeat split; auto.
                ** exists t. auto.
                ** unfold ext_stop. rewrite Hr. reflexivity.
                ** discriminate.
          -- apply IH in Hscan; auto.
             ++ destruct Hscan as (R1 & R2 & R3 & R4). repeat split; auto.
                apply Hnotl; auto.
                destruct (is_name "lambda" t) eqn:Hl; auto.
                rewrite (lambda_in_kw _ Hl) in Hin. discriminate.
             ++ cbn. apply seek_name; auto.
             ++ cbn. intros c Hc. specialize (Hlim c Hc). lia.
        * apply IH in Hscan; auto.
          -- destruct Hscan as (R1 & R2 & R3 & R4). repeat split; auto.
             apply Hnotl; auto. unfold is_name. rewrite Hname. reflexivity.
          -- cbn. eapply seek_other; eauto.
          -- cbn. intros c Hc. specialize (Hlim c Hc). lia.
      + (* Seek *)
        cbn [mode_inv lim] in *.
        destruct (is_kind KName t) eqn:Hname.
        * destruct (String.eqb (ttext t) "lambda") eqn:Hl.
          -- assert (Hlam : is_name "lambda" t = true) by (unfold is_name; rewrite Hname, Hl; reflexivity).
             apply IH in Hscan; auto.
             ++ destruct Hscan as (R1 & R2 & R3 & R4). repeat split; auto.
                intros j tj Hj Hn Hl'. destruct (Nat.eq_dec j i) as [->|Hne].
                ** left. cbn in R3. destruct R3 as (c & Hc & Hcs & _). exists c; auto.
                ** apply (R4 j tj); auto; lia.
             ++ cbn. repeat split; auto.
                ** exists t. auto.
                ** unfold ext_stop. rewrite Hr. reflexivity.
                ** discriminate.
          -- apply IH in Hscan; auto.
             ++ destruct Hscan as (R1 & R2 & R3 & R4). repeat split; auto.
                apply Hnotl; auto. unfold is_name. rewrite Hname, Hl. reflexivity.
             ++ cbn. apply seek_name; auto.
             ++ cbn. intros c Hc. specialize (Hlim c Hc). lia.
        * destruct (is_kind KNewline t) eqn:Hnl.
          -- (* NEWLINE ends the logical line *)
             inversion Hscan; subst res. repeat split; auto.
             ++ apply Forall_rev; auto.
             ++ intros c Hc. apply in_rev1. auto.
             ++ intros j tj Hj Hn Hl. destruct (Nat.eq_dec j i) as [->|Hne].
                ** rewrite Hnth in Hn. inversion Hn; subst tj.
                   apply is_name_kind in Hl. destruct Hl as [Hl _]. congruence.
                ** right. right. exists i, t. repeat split; auto; [lia | apply newline_is_nl; auto |].
                   intros c Hc. apply in_rev2 in Hc. auto.
          -- apply IH in Hscan; auto.
             ++ destruct Hscan as (R1 & R2 & R3 & R4). repeat split; auto.
                apply Hnotl; auto. unfold is_name. rewrite Hname. reflexivity.
             ++ cbn. eapply seek_other; eauto.
             ++ cbn. intros c Hc. specialize (Hlim c Hc). lia.
      + (* Ext *)
        destruct Hm as (Hst & (t0 & Ht0 & Hl0 & Hrow) & Hext & Hkey & Hsaw).
        cbn [lim] in Hlim. rewrite Hsk in Hext. cbn [ext_from] in Hext.
        destruct (is_stop t && zero3 p b c) eqn:Hstop.
        * (* the extent ends here *)
          apply close_done in Hscan. destruct Hscan as (pr & HP & Hk).
          set (cn := mkCand key st i row pr) in *.
          assert (Hg : good cn).
          { exists t0. cbn. repeat split; auto. }
          apply andb_true_iff in Hstop. destruct Hstop as [Hstop _].
          destruct saw.
          -- remember (cn :: cs) as cs' eqn:Hcs'.
             assert (Hres : res = rev cs') by congruence. subst res. clear Hk.
             assert (Hin : In cn cs') by (subst cs'; left; auto).
             destruct (Hsaw eq_refl) as (e & te & He & Hte & Hnle).
             repeat split; auto.
             ++ apply Forall_rev. subst cs'. constructor; auto.
             ++ intros c0 Hc. apply in_rev1. subst cs'. right; auto.
             ++ cbn. exists cn. split; [apply in_rev1; auto|]. cbn. split; auto.
             ++ intros j tj Hj Hn Hl. right. right. exists e, te. repeat split; auto; [lia|].
                intros c0 Hc. apply in_rev2 in Hc. subst cs'. destruct Hc as [<-|Hc].
                ** cbn. lia.
                ** specialize (Hlim c0 Hc). lia.
          -- apply IH in Hk; auto.
             ++ destruct Hk as (R1 & R2 & R3 & R4). repeat split; auto.
                ** intros c0 Hc. apply R2. right; auto.
                ** cbn. exists cn. split; [apply R2; left; auto|]. cbn. split; auto.
                ** intros j tj Hj Hn Hl. destruct (Nat.eq_dec j i) as [->|Hne].
                   --- right. left. exists cn. split; [apply R2; left; auto|]. cbn. lia.
                   --- apply (R4 j tj); auto; lia.
             ++ cbn. eapply seek_after_stop; eauto.
             ++ constructor; auto.
             ++ cbn. intros c0 [<-|Hc]; [cbn; lia|]. specialize (Hlim c0 Hc). lia.
        * (* inside the extent *)
          assert (Hcover : forall res', ext_open (Ext key st row (p + dpar t) (b + dbrk t) (c + dbrc t) saw) (S i) res' ->
                                        reach (S i) res' ->
                                        ext_open (Ext key st row p b c saw) i res' /\ reach i res').
          { intros res' (c0 & Hc0 & Hs0 & Hle0) Hre. split.
            - exists c0. repeat split; auto. lia.
            - intros j tj Hj Hn Hl. destruct (Nat.eq_dec j i) as [->|Hne].
              + right. left. exists c0. split; auto. lia.
              + apply (Hre j tj); auto; lia. }
          destruct (is_kind KComment t) eqn:Hcm.
          -- apply IH in Hscan; auto.
             ++ destruct Hscan as (R1 & R2 & R3 & R4). destruct (Hcover res R3 R4). repeat split; auto.
             ++ cbn. repeat split; auto.
                ** exists t0; auto.
                ** rewrite Hr. exact Hext.
                ** intros Hs. destruct (Hsaw Hs) as (e & te & He & Hte & Hnle). exists e, te. repeat split; auto; lia.
          -- apply IH in Hscan; auto.
             ++ destruct Hscan as (R1 & R2 & R3 & R4).
                assert (R3' : ext_open (Ext key st row (p + dpar t) (b + dbrk t) (c + dbrc t) saw) (S i) res) by exact R3.
                destruct (Hcover res R3' R4). repeat split; auto.
             ++ cbn. repeat split; auto.
                ** exists t0; auto.
                ** rewrite Hr. exact Hext.
                ** intros Hs. apply orb_true_iff in Hs. destruct Hs as [Hs|Hs].
                   --- destruct (Hsaw Hs) as (e & te & He & Hte & Hnle). exists e, te. repeat split; auto; lia.
                   --- exists i, t. repeat split; auto.
  Qed.
End ScanFacts.

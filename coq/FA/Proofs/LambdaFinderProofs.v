(* Proofs about the token-level lambda finder (Model/LambdaFinder.v, Model/LambdaFinderSpec.v). *)
From Coq Require Import List String ZArith Bool Arith Lia.
From FA.Model Require Import LambdaFinder LambdaFinderSpec.
Import ListNotations.
Open Scope string_scope.
Open Scope list_scope.

(* ------------------------------------------------------------------ lists *)
Lemma skipn_cons_nth : forall (A : Type) (l : list A) i t r,
    skipn i l = t :: r -> nth_error l i = Some t /\ skipn (S i) l = r.
Proof.
  induction l as [|a l IH]; intros [|i] t r H; cbn in *; try discriminate.
  - inversion H; auto.
  - apply IH; auto.
Qed.

Lemma skipn_nil_nth : forall (A : Type) (l : list A) i j,
    skipn i l = [] -> i <= j -> nth_error l j = None.
Proof.
  induction l as [|a l IH]; intros [|i] [|j] H Hle; cbn in *; try discriminate; try lia; auto.
  apply (IH i); auto; lia.
Qed.

Lemma firstn_snoc : forall (A : Type) (l : list A) i t,
    nth_error l i = Some t -> firstn (S i) l = firstn i l ++ [t].
Proof.
  induction l as [|a l IH]; intros [|i] t H; try discriminate.
  - cbn in H. inversion H. reflexivity.
  - cbn [nth_error] in H. change (a :: firstn (S i) l = a :: (firstn i l ++ [t])). f_equal. auto.
Qed.

Lemma filter_single : forall (A : Type) (f : A -> bool) l c x,
    filter f l = [c] -> In x l -> f x = true -> x = c.
Proof.
  intros A f l c x H Hin Hf.
  assert (Hx : In x (filter f l)) by (apply filter_In; auto).
  rewrite H in Hx. destruct Hx as [Hx | []]. auto.
Qed.

Lemma in_rev1 : forall (A : Type) (l : list A) x, In x l -> In x (rev l).
Proof. intros A l x H. apply in_rev in H. exact H. Qed.
Lemma in_rev2 : forall (A : Type) (l : list A) x, In x (rev l) -> In x l.
Proof. intros A l x H. apply in_rev. exact H. Qed.

(* ------------------------------------------------------------------ tokens *)
Lemma is_stop_not_name : forall t, is_stop t = true -> is_kind KName t = false.
Proof.
  intros t. unfold is_stop, is_op, is_kind. destruct (tkind t); cbn; auto; discriminate.
Qed.

Lemma is_name_kind : forall s t, is_name s t = true -> is_kind KName t = true /\ ttext t = s.
Proof.
  intros s t H. unfold is_name in H. apply andb_true_iff in H. destruct H as [H1 H2].
  split; auto. apply String.eqb_eq; auto.
Qed.

Lemma newline_not_name : forall t, is_kind KNewline t = true -> is_kind KName t = false.
Proof. intros t. unfold is_kind. destruct (tkind t); auto; discriminate. Qed.

Lemma newline_is_nl : forall t, is_kind KNewline t = true -> is_nl t = true.
Proof. intros t H. unfold is_nl. rewrite H. reflexivity. Qed.

(* ------------------------------------------------------------------ rows *)
Lemma rows_okb_head : forall a r,
    rows_okb (a :: r) = true ->
    forall b, In b r -> trow a <= trow b /\ (is_nl a = true -> trow a < trow b).
Proof.
  intros a r. revert a. induction r as [|x r IH]; intros a H b Hin; [destruct Hin|].
  cbn [rows_okb] in H. apply andb_true_iff in H. destruct H as [H1 H2].
  assert (Hax : trow a <= trow x /\ (is_nl a = true -> trow a < trow x)).
  { destruct (is_nl a).
    - apply Nat.ltb_lt in H1. split; [lia | auto].
    - apply Nat.leb_le in H1. split; [auto | discriminate]. }
  destruct Hin as [-> | Hin]; [exact Hax|].
  destruct (IH x H2 b Hin) as [Hle _]. destruct Hax as [Hax1 Hax2]. split; [lia|].
  intros Hn. specialize (Hax2 Hn). lia.
Qed.

Lemma rows_okb_tail : forall a r, rows_okb (a :: r) = true -> rows_okb r = true.
Proof.
  intros a [|x r] H; [reflexivity|]. cbn [rows_okb] in H. apply andb_true_iff in H. tauto.
Qed.

Lemma rows_ok_lt : forall ts a b ta tb,
    rows_okb ts = true -> a < b -> nth_error ts a = Some ta -> nth_error ts b = Some tb ->
    trow ta <= trow tb /\ (is_nl ta = true -> trow ta < trow tb).
Proof.
  induction ts as [|x ts IH]; intros a b ta tb H Hab Ha Hb; [destruct a; discriminate|].
  destruct b as [|b]; [lia|]. cbn [nth_error] in Hb.
  destruct a as [|a].
  - cbn in Ha. inversion Ha; subst x. apply (rows_okb_head ta ts H). eapply nth_error_In; eauto.
  - cbn [nth_error] in Ha. apply (IH a b); auto. eapply rows_okb_tail; eauto. lia.
Qed.

(* ------------------------------------------------------------------ choosing *)
Lemma select_found : forall rowfix L caller args s cs s' k,
    select rowfix L (Some caller) args s cs = Found s' k ->
    s' = s /\
    exists c, In c cs /\ c_start c = k /\ key_is caller c = true /\ args_are args c = true
              /\ (rowfix = true -> on_row L c = true)
              /\ forall x, In x cs -> key_is caller x = true -> args_are args x = true ->
                           (rowfix = true -> on_row L x = true) -> x = c.
Proof.
  intros rowfix L caller args s cs s' k. unfold select.
  set (cs1 := if rowfix then filter (on_row L) cs else cs).
  set (search := filter (key_is caller) cs1).
  destruct search as [|c0 rest] eqn:Hs; [discriminate|]. rewrite <- Hs.
  destruct (existsb no_lambda search); [discriminate|].
  destruct (filter (args_are args) search) as [|c [|c' l]] eqn:Hf; try discriminate.
  intros H. inversion H; subst s' k. split; auto.
  assert (Hc : In c (filter (args_are args) search)) by (rewrite Hf; left; auto).
  apply filter_In in Hc. destruct Hc as [Hc1 Hc2].
  unfold search in Hc1. apply filter_In in Hc1. destruct Hc1 as [Hc1 Hc3].
  assert (Hcs1 : forall x, In x cs1 <-> In x cs /\ (rowfix = true -> on_row L x = true)).
  { intros x. unfold cs1. destruct rowfix.
    - rewrite filter_In. tauto.
    - split; [intros; split; auto; discriminate | tauto]. }
  apply Hcs1 in Hc1. destruct Hc1 as [Hc1 Hc4].
  exists c. repeat split; auto.
  intros x Hx Hk Ha Hr. apply (filter_single _ (args_are args) search); auto.
  unfold search. apply filter_In. split; auto. apply Hcs1. auto.
Qed.

(* ------------------------------------------------------------------ the scan *)
Section ScanFacts.
  Variable P : parse_fn.
  Variable kw : list string.
  Variable whole : list tok.
  Hypothesis Hkw : forall x, existsb (String.eqb x) kw = true -> x = "lambda" \/ x = "def".
  Hypothesis HkwL : existsb (String.eqb "lambda") kw = true.

  (* what the scan guarantees about a candidate it recorded *)
  Definition good (c : cand) : Prop :=
    exists t, nth_error whole (c_start c) = Some t /\ is_name "lambda" t = true /\ c_row c = trow t
              /\ c_stop c = ext_stop whole (c_start c)
              /\ c_parse c = P (extent whole (c_start c) (c_stop c))
              /\ (forall nm, key_before whole (c_start c) = Some nm -> c_key c = Some nm).

  (* the loop state of find_identifier agrees with the specification's [key_state] (where that one
     knows a name) *)
  Definition seek_inv (last prev : option string) (nm : bool) (i : nat) : Prop :=
    (forall x, k_last (key_state whole i) = Some x -> last = Some x)
    /\ (forall x, k_prev (key_state whole i) = Some x -> prev = Some x)
    /\ k_name (key_state whole i) = nm.

  Definition mode_inv (m : mode) (i : nat) : Prop :=
    match m with
    | First last prev nm | Seek last prev nm => seek_inv last prev nm i
    | Ext key st row p b c saw =>
        st < i
        /\ (exists t, nth_error whole st = Some t /\ is_name "lambda" t = true /\ row = trow t)
        /\ ext_stop whole st = ext_from p b c i (skipn i whole)
        /\ (forall nm, key_before whole st = Some nm -> key = Some nm)
        /\ (saw = true -> exists e te, st < e < i /\ nth_error whole e = Some te /\ is_nl te = true)
    end.

  Definition lim (m : mode) (i : nat) : nat :=
    match m with Ext _ st _ _ _ _ _ => st | _ => i end.

  Definition reach (i : nat) (res : list cand) : Prop :=
    forall j tj, i <= j -> nth_error whole j = Some tj -> is_name "lambda" tj = true ->
      (exists c, In c res /\ c_start c = j)
      \/ (exists c, In c res /\ c_start c < j <= c_stop c)
      \/ (exists e te, e < j /\ nth_error whole e = Some te /\ is_nl te = true
                       /\ forall c, In c res -> c_start c < e).

  Definition ext_open (m : mode) (i : nat) (res : list cand) : Prop :=
    match m with
    | Ext _ st _ _ _ _ _ => exists c, In c res /\ c_start c = st /\ i <= c_stop c
    | _ => True
    end.

  Lemma key_state_step : forall i t, nth_error whole i = Some t ->
                                     key_state whole (S i) = kstep (key_state whole i) t.
  Proof.
    intros i t Hn. unfold key_state. rewrite (firstn_snoc _ _ _ _ Hn), fold_left_app. reflexivity.
  Qed.

  Lemma seek_name : forall i t last prev nm, nth_error whole i = Some t -> is_kind KName t = true ->
                                seek_inv last prev nm i ->
                                seek_inv (Some (ttext t)) last true (S i).
  Proof.
    intros i t last prev nm Hn Hk (H1 & H2 & H3). unfold seek_inv. rewrite (key_state_step _ _ Hn).
    unfold kstep. rewrite Hk. cbn [k_last k_prev k_name]. repeat split; auto.
  Qed.

  Lemma seek_other : forall i t last prev nm, nth_error whole i = Some t -> is_kind KName t = false ->
                                      seek_inv last prev nm i ->
                                      seek_inv (unkw true nm last prev t) prev false (S i).
  Proof.
    intros i t last prev nm Hn Hk (H1 & H2 & H3). unfold seek_inv. rewrite (key_state_step _ _ Hn).
    unfold kstep, unkw. rewrite Hk, H3. cbn [andb].
    destruct (is_stop t); cbn [k_last k_prev k_name]; [repeat split; auto; discriminate|].
    destruct (nm && is_op "=" t); cbn [k_last k_prev k_name]; repeat split; auto.
  Qed.

  Lemma seek_after_stop : forall i t, nth_error whole i = Some t -> is_stop t = true ->
                                      seek_inv None None false (S i).
  Proof.
    intros i t Hn Hs. unfold seek_inv. rewrite (key_state_step _ _ Hn).
    unfold kstep. rewrite (is_stop_not_name _ Hs), Hs. cbn [k_last k_prev k_name].
    repeat split; auto; discriminate.
  Qed.

  Lemma close_done : forall key st stop row cs k res,
      close P whole key st stop row cs k = ScDone res ->
      exists pr, P (extent whole st stop) = pr /\ k (mkCand key st stop row pr :: cs) = ScDone res.
  Proof.
    intros key st stop row cs k res. unfold close.
    destruct (P (extent whole st stop)) eqn:E; intros H; try discriminate; eexists; split; eauto.
  Qed.

  Lemma lambda_in_kw : forall t, is_name "lambda" t = true -> existsb (String.eqb (ttext t)) kw = true.
  Proof. intros t H. apply is_name_kind in H. destruct H as [_ H]. rewrite H. exact HkwL. Qed.

  Lemma scan_sound : forall ts m i cs res,
      skipn i whole = ts -> mode_inv m i -> Forall good cs ->
      (forall c, In c cs -> c_start c < lim m i) ->
      scan P kw true whole m i ts cs = ScDone res ->
      Forall good res /\ (forall c, In c cs -> In c res) /\ ext_open m i res /\ reach i res.
  Proof.
    induction ts as [|t r IH]; intros m i cs res Hsk Hm Hgood Hlim Hscan.
    - (* end of the stream *)
      assert (Hnone : forall j, i <= j -> nth_error whole j = None)
        by (intros j Hj; eapply skipn_nil_nth; eauto).
      assert (Hreach : forall res', reach i res').
      { intros res' j tj Hj Hn. rewrite (Hnone j Hj) in Hn. discriminate. }
      cbn [scan] in Hscan. destruct m as [last prev nm|last prev nm|key st row p b c saw].
      + discriminate.
      + inversion Hscan; subst res. repeat split; auto.
        * apply Forall_rev; auto.
        * intros c Hc. apply in_rev1; auto.
      + apply close_done in Hscan. destruct Hscan as (pr & HP & Hk).
        destruct Hm as (Hst & (t0 & Ht0 & Hl0 & Hrow) & Hext & Hkey & Hsaw).
        rewrite Hsk in Hext. cbn [ext_from] in Hext.
        set (cn := mkCand key st i row pr) in *.
        assert (Hg : good cn).
        { exists t0. cbn. repeat split; auto. }
        remember (cn :: cs) as cs' eqn:Hcs'.
        assert (Hres : res = rev cs') by congruence. subst res. clear Hk.
        assert (Hin : In cn cs') by (subst cs'; left; auto).
        repeat split; auto.
        * apply Forall_rev. subst cs'. constructor; auto.
        * intros c0 Hc. apply in_rev1. subst cs'. right; auto.
        * cbn. exists cn. split; [apply in_rev1; auto|]. cbn. split; auto.
    - cbn [scan] in Hscan. destruct (is_kind KErr t) eqn:Herr; [discriminate|].
      destruct (skipn_cons_nth _ _ _ _ _ Hsk) as [Hnth Hr].
      assert (Hnotl : is_name "lambda" t = false ->
                      forall res', reach (S i) res' -> reach i res').
      { intros Hnl res' Hre j tj Hj Hn Hl. destruct (Nat.eq_dec j i) as [->|Hne].
        - rewrite Hnth in Hn. inversion Hn; subst tj. congruence.
        - apply (Hre j tj); auto; lia. }
      destruct m as [last prev nm|last prev nm|key st row p b c saw].
      + (* First *)
        cbn [mode_inv lim] in *.
        destruct (is_kind KName t) eqn:Hname.
        * destruct (existsb (String.eqb (ttext t)) kw) eqn:Hin.
          -- destruct (String.eqb (ttext t) "def") eqn:Hdef; [discriminate|].
             destruct last as [nm0|]; [|discriminate].
             assert (Hlam : is_name "lambda" t = true).
             { unfold is_name. rewrite Hname. destruct (Hkw _ Hin) as [E|E]; rewrite E in *; [reflexivity|discriminate]. }
             assert (Hminv : mode_inv (Ext (Some nm0) i (trow t) 0 0 0 false) (S i)).
             { cbn [mode_inv]. split; [lia|]. split; [exists t; auto|].
               split; [unfold ext_stop; rewrite Hr; reflexivity|]. split; [exact (proj1 Hm) | discriminate]. }
             apply (IH _ _ _ _ Hr Hminv Hgood Hlim) in Hscan.
             destruct Hscan as (R1 & R2 & R3 & R4). split; [auto|]. split; [auto|]. split; [exact I|].
             intros j tj Hj Hn Hl. destruct (Nat.eq_dec j i) as [->|Hne].
             ++ left. cbn in R3. destruct R3 as (c & Hc & Hcs & _). exists c; auto.
             ++ apply (R4 j tj); auto; lia.
          -- assert (Hminv : mode_inv (First (Some (ttext t)) last true) (S i)) by (cbn; eapply seek_name; eauto).
             assert (Hlim' : forall c0, In c0 cs -> c_start c0 < lim (First (Some (ttext t)) last true) (S i)).
             { cbn. intros c0 Hc. specialize (Hlim c0 Hc). lia. }
             apply (IH _ _ _ _ Hr Hminv Hgood Hlim') in Hscan.
             destruct Hscan as (R1 & R2 & R3 & R4). split; [auto|]. split; [auto|]. split; [exact I|].
             apply Hnotl; auto.
             destruct (is_name "lambda" t) eqn:Hl; auto.
             rewrite (lambda_in_kw _ Hl) in Hin. discriminate.
        * assert (Hminv : mode_inv (First (unkw true nm last prev t) prev false) (S i)) by (cbn; eapply seek_other; eauto).
          assert (Hlim' : forall c0, In c0 cs -> c_start c0 < lim (First (unkw true nm last prev t) prev false) (S i)).
          { cbn. intros c0 Hc. specialize (Hlim c0 Hc). lia. }
          apply (IH _ _ _ _ Hr Hminv Hgood Hlim') in Hscan.
          destruct Hscan as (R1 & R2 & R3 & R4). split; [auto|]. split; [auto|]. split; [exact I|].
          apply Hnotl; auto. unfold is_name. rewrite Hname. reflexivity.
      + (* Seek *)
        cbn [mode_inv lim] in *.
        destruct (is_kind KName t) eqn:Hname.
        * destruct (String.eqb (ttext t) "lambda") eqn:Hl.
          -- assert (Hlam : is_name "lambda" t = true) by (unfold is_name; rewrite Hname, Hl; reflexivity).
             assert (Hminv : mode_inv (Ext last i (trow t) 0 0 0 false) (S i)).
             { cbn [mode_inv]. split; [lia|]. split; [exists t; auto|].
               split; [unfold ext_stop; rewrite Hr; reflexivity|]. split; [exact (proj1 Hm) | discriminate]. }
             apply (IH _ _ _ _ Hr Hminv Hgood Hlim) in Hscan.
             destruct Hscan as (R1 & R2 & R3 & R4). split; [auto|]. split; [auto|]. split; [exact I|].
             intros j tj Hj Hn Hl'. destruct (Nat.eq_dec j i) as [->|Hne].
             ++ left. cbn in R3. destruct R3 as (c & Hc & Hcs & _). exists c; auto.
             ++ apply (R4 j tj); auto; lia.
          -- assert (Hminv : mode_inv (Seek (Some (ttext t)) last true) (S i)) by (cbn; eapply seek_name; eauto).
             assert (Hlim' : forall c0, In c0 cs -> c_start c0 < lim (Seek (Some (ttext t)) last true) (S i)).
             { cbn. intros c0 Hc. specialize (Hlim c0 Hc). lia. }
             apply (IH _ _ _ _ Hr Hminv Hgood Hlim') in Hscan.
             destruct Hscan as (R1 & R2 & R3 & R4). split; [auto|]. split; [auto|]. split; [exact I|].
             apply Hnotl; auto. unfold is_name. rewrite Hname, Hl. reflexivity.
        * destruct (is_kind KNewline t) eqn:Hnl.
          -- (* NEWLINE ends the logical line *)
             assert (Hres : res = rev cs) by congruence. subst res. clear Hscan.
             split; [apply Forall_rev; auto|]. split; [intros c Hc; apply in_rev1; auto|]. split; [exact I|].
             intros j tj Hj Hn Hl. destruct (Nat.eq_dec j i) as [->|Hne].
             ++ rewrite Hnth in Hn. inversion Hn; subst tj.
                apply is_name_kind in Hl. destruct Hl as [Hl _]. congruence.
             ++ right. right. exists i, t. split; [lia|]. split; [auto|]. split; [apply newline_is_nl; auto|].
                intros c Hc. apply in_rev2 in Hc. auto.
          -- assert (Hminv : mode_inv (Seek (unkw true nm last prev t) prev false) (S i)) by (cbn; eapply seek_other; eauto).
             assert (Hlim' : forall c0, In c0 cs -> c_start c0 < lim (Seek (unkw true nm last prev t) prev false) (S i)).
             { cbn. intros c0 Hc. specialize (Hlim c0 Hc). lia. }
             apply (IH _ _ _ _ Hr Hminv Hgood Hlim') in Hscan.
             destruct Hscan as (R1 & R2 & R3 & R4). split; [auto|]. split; [auto|]. split; [exact I|].
             apply Hnotl; auto. unfold is_name. rewrite Hname. reflexivity.
      + (* Ext *)
        destruct Hm as (Hst & (t0 & Ht0 & Hl0 & Hrow) & Hext & Hkey & Hsaw).
        cbn [lim] in Hlim. rewrite Hsk in Hext. cbn [ext_from] in Hext.
        destruct (is_stop t && zero3 p b c) eqn:Hstop.
        * (* the extent ends here *)
          apply close_done in Hscan. destruct Hscan as (pr & HP & Hk).
          set (cn := mkCand key st i row pr) in *.
          assert (Hg : good cn).
          { exists t0. cbn. repeat split; auto. }
          apply andb_true_iff in Hstop. destruct Hstop as [Hstop _].
          remember (cn :: cs) as cs' eqn:Hcs'.
          assert (Hin : In cn cs') by (subst cs'; left; auto).
          assert (Hgood' : Forall good cs') by (subst cs'; constructor; auto).
          destruct saw.
          -- assert (Hres : res = rev cs') by congruence. subst res. clear Hk.
             destruct (Hsaw eq_refl) as (e & te & He & Hte & Hnle).
             split; [apply Forall_rev; auto|].
             split; [intros c0 Hc; apply in_rev1; subst cs'; right; auto|].
             split; [cbn; exists cn; split; [apply in_rev1; auto | cbn; split; auto]|].
             intros j tj Hj Hn Hl. right. right. exists e, te. split; [lia|]. split; [auto|]. split; [auto|].
             intros c0 Hc. apply in_rev2 in Hc. subst cs'. destruct Hc as [<-|Hc].
             ++ cbn. lia.
             ++ specialize (Hlim c0 Hc). lia.
          -- assert (Hminv : mode_inv (Seek None None false) (S i)) by (cbn; eapply seek_after_stop; eauto).
             assert (Hlim' : forall c0, In c0 cs' -> c_start c0 < lim (Seek None None false) (S i)).
             { cbn. subst cs'. intros c0 [<-|Hc]; [cbn; lia|]. specialize (Hlim c0 Hc). lia. }
             apply (IH _ _ _ _ Hr Hminv Hgood' Hlim') in Hk.
             destruct Hk as (R1 & R2 & R3 & R4). split; [auto|].
             split; [intros c0 Hc; apply R2; subst cs'; right; auto|].
             split; [cbn; exists cn; split; [apply R2; auto | cbn; split; auto]|].
             intros j tj Hj Hn Hl. destruct (Nat.eq_dec j i) as [->|Hne].
             ++ right. left. exists cn. split; [apply R2; auto|]. cbn. lia.
             ++ apply (R4 j tj); auto; lia.
        * (* inside the extent *)
          assert (Hcover : forall sw res', ext_open (Ext key st row (p + dpar t) (b + dbrk t) (c + dbrc t) sw) (S i) res' ->
                                        reach (S i) res' ->
                                        ext_open (Ext key st row p b c saw) i res' /\ reach i res').
          { intros sw res' (c0 & Hc0 & Hs0 & Hle0) Hre. split.
            - exists c0. split; [auto|]. split; [auto|lia].
            - intros j tj Hj Hn Hl. destruct (Nat.eq_dec j i) as [->|Hne].
              + right. left. exists c0. split; auto. lia.
              + apply (Hre j tj); auto; lia. }
          assert (Hminv : forall sw, (sw = true -> saw = true \/ is_nl t = true) ->
                                     mode_inv (Ext key st row (p + dpar t) (b + dbrk t) (c + dbrc t) sw) (S i)).
          { intros sw Hsw. cbn [mode_inv]. split; [lia|]. split; [exists t0; auto|].
            split; [rewrite Hr; exact Hext|]. split; [exact Hkey|].
            intros Hs. destruct (Hsw Hs) as [Hs'|Hs'].
            - destruct (Hsaw Hs') as (e & te & He & Hte & Hnle). exists e, te. split; [lia|]. auto.
            - exists i, t. split; [lia|]. auto. }
          destruct (is_kind KComment t) eqn:Hcm.
          -- apply (IH _ _ _ _ Hr (Hminv saw (fun H => or_introl H)) Hgood Hlim) in Hscan.
             destruct Hscan as (R1 & R2 & R3 & R4). destruct (Hcover saw res R3 R4). auto.
          -- assert (Hsw : (saw || is_nl t) = true -> saw = true \/ is_nl t = true) by (apply orb_true_iff).
             apply (IH _ _ _ _ Hr (Hminv _ Hsw) Hgood Hlim) in Hscan.
             destruct Hscan as (R1 & R2 & R3 & R4). destruct (Hcover _ res R3 R4). auto.
  Qed.
End ScanFacts.

(* ------------------------------------------------------------------ the backing-up loop *)
Lemma backup_some : forall P kw eqfix streams s0 s r,
    backup P kw eqfix streams s0 = (s, Some r) ->
    s0 <= s /\ (forall k, r <> ScNoName k) /\
    exists toks, nth_error streams (s - s0) = Some toks /\ scan_stream P kw eqfix toks = r.
Proof.
  intros P kw eqfix. induction streams as [|ts more IH]; intros s0 s r H; cbn [backup] in H; [discriminate|].
  destruct (scan_stream P kw eqfix ts) eqn:E;
    try (inversion H; subst; split; [lia|]; split; [discriminate|];
         exists ts; rewrite Nat.sub_diag; split; [reflexivity | exact E]).
  apply IH in H. destruct H as (Hle & Hnn & toks & Hn & Hs). split; [lia|]. split; [auto|].
  exists toks. split; auto. replace (s - s0) with (S (s - S s0)) by lia. exact Hn.
Qed.

Lemma keywords_ok : forall kwfix is_lam, kwfix = false \/ is_lam = true ->
    (forall x, existsb (String.eqb x) (keywords kwfix is_lam) = true -> x = "lambda" \/ x = "def")
    /\ existsb (String.eqb "lambda") (keywords kwfix is_lam) = true.
Proof.
  intros kwfix is_lam H. unfold keywords.
  assert (Hx : forall x l, existsb (String.eqb x) l = true -> exists y, In y l /\ x = y).
  { intros x l Hl. apply existsb_exists in Hl. destruct Hl as (y & Hy & E). apply String.eqb_eq in E. eauto. }
  assert (Hgo : forall l, (forall y, In y l -> y = "lambda" \/ y = "def") ->
                          forall x, existsb (String.eqb x) l = true -> x = "lambda" \/ x = "def").
  { intros l Hl x Hx'. apply Hx in Hx'. destruct Hx' as (y & Hy & ->). auto. }
  destruct kwfix, is_lam; try (destruct H; discriminate); (split; [apply Hgo; cbn; intuition | reflexivity]).
Qed.

(* ------------------------------------------------------------------ safety *)
Lemma not_nested_spec : forall toks k0 k' t,
    not_nestedb toks k0 = true -> k' < k0 -> nth_error toks k' = Some t -> is_name "lambda" t = true ->
    ext_stop toks k' < k0.
Proof.
  intros toks k0 k' t H Hlt Hn Hl. unfold not_nestedb in H. rewrite forallb_forall in H.
  specialize (H k'). unfold is_lambda_at in H. rewrite Hn, Hl in H.
  apply Nat.ltb_lt. apply H. apply in_seq. lia.
Qed.

Theorem never_picks_neighbour_gen :
  forall kwfix is_lam P streams L dsrc caller args s k toks k0,
    kwfix = false \/ is_lam = true ->
    find_gen true kwfix true P streams L is_lam dsrc (Some caller) args = Found s k ->
    nth_error streams s = Some toks ->
    rows_okb toks = true ->
    lambda_atb P toks k0 L caller args = true ->
    not_nestedb toks k0 = true ->
    k = k0.
Proof.
  intros kwfix is_lam P streams L dsrc caller args s k toks k0 Hkwf Hfind Hnth Hrows Hat Hnest.
  destruct (keywords_ok kwfix is_lam Hkwf) as [Hkw HkwL].
  unfold find_gen in Hfind.
  destruct (backup P (keywords kwfix is_lam) true streams 0) as [s' o] eqn:Hb.
  destruct o as [r|]; [|discriminate].
  destruct (backup_some _ _ _ _ _ _ _ Hb) as (_ & _ & toks' & Hn' & Hscan).
  rewrite Nat.sub_0_r in Hn'.
  destruct r as [cs| | | |]; try discriminate.
  2:{ exfalso. destruct dsrc as [b|e]; cbn [def_outcome] in Hfind; try discriminate.
      destruct (filter not_doc b) as [|x [|y l']]; try discriminate; destruct x; discriminate. }
  apply select_found in Hfind. destruct Hfind as (-> & c & Hc & Hck & Hkey & Hargs & Hrow & Huniq).
  rewrite Hnth in Hn'. inversion Hn'; subst toks'. clear Hn'.
  unfold scan_stream in Hscan.
  assert (Hinv0 : mode_inv toks (First None None false) 0) by (cbn; repeat split; intros x H; discriminate).
  assert (Hlim0 : forall c0 : cand, In c0 [] -> c_start c0 < lim (First None None false) 0) by (intros c0 []).
  destruct (scan_sound P _ toks Hkw HkwL toks (First None None false) 0 [] cs eq_refl Hinv0 (Forall_nil _) Hlim0 Hscan)
    as (Hgood & _ & _ & Hreach).
  rewrite Forall_forall in Hgood.
  (* the passed lambda *)
  unfold lambda_atb in Hat. apply andb_true_iff in Hat. destruct Hat as [Hat Hparse].
  apply andb_true_iff in Hat. destruct Hat as [Htok Hcall].
  destruct (nth_error toks k0) as [t0|] eqn:Ht0; [|discriminate].
  apply andb_true_iff in Htok. destruct Htok as [Hlam0 Hrow0]. apply Nat.eqb_eq in Hrow0.
  (* the returned candidate *)
  destruct (Hgood c Hc) as (tc & Htc & Hlc & Hrc & Hsc & Hpc & Hkc).
  specialize (Hrow eq_refl). unfold on_row in Hrow. apply Nat.eqb_eq in Hrow.
  destruct (Hreach k0 t0 (Nat.le_0_l _) Ht0 Hlam0) as [(c0 & Hc0 & Hs0) | [(c1 & Hc1 & Hcov) | (e & te & He & Hte & Hnl & Hbefore)]].
  - (* the passed lambda is a candidate: it passes every filter, so it is the unique one *)
    destruct (Hgood c0 Hc0) as (t0' & Ht0' & _ & Hr0 & Hst0 & Hp0 & Hk0).
    rewrite Hs0 in *. rewrite Ht0 in Ht0'. inversion Ht0'; subst t0'.
    assert (E : c0 = c).
    { apply Huniq; auto.
      - unfold called_byb in Hcall. destruct (key_before toks k0) as [nm|] eqn:Ekb; [|discriminate].
        unfold key_is. rewrite (Hk0 nm eq_refl). exact Hcall.
      - unfold args_are. rewrite Hp0, Hst0. exact Hparse.
      - intros _. unfold on_row. rewrite Hr0, Hrow0. apply Nat.eqb_refl. }
    subst c0. congruence.
  - (* covered by an earlier lambda's extent: excluded by not_nested *)
    exfalso. destruct (Hgood c1 Hc1) as (t1 & Ht1 & Hl1 & _ & Hst1 & _).
    assert (ext_stop toks (c_start c1) < k0) by (eapply not_nested_spec; eauto; lia).
    lia.
  - (* the scan ended at a line break before the passed lambda: the returned candidate would be on an earlier row *)
    exfalso. specialize (Hbefore c Hc).
    destruct (rows_ok_lt toks (c_start c) e tc te Hrows Hbefore Htc Hte) as [H1 _].
    destruct (rows_ok_lt toks e k0 te t0 Hrows He Hte Ht0) as [_ H2]. specialize (H2 Hnl). lia.
Qed.

Theorem never_picks_neighbour :
  forall P streams L dsrc caller args s k toks k0,
    find P streams L true dsrc (Some caller) args = Found s k ->
    nth_error streams s = Some toks ->
    rows_okb toks = true ->
    lambda_atb P toks k0 L caller args = true ->
    not_nestedb toks k0 = true ->
    k = k0.
Proof.
  intros P streams L dsrc caller args s k toks k0. unfold find.
  apply never_picks_neighbour_gen. right. reflexivity.
Qed.

(* two lambdas of the scanned region that both look like the passed one: nothing is returned *)
Theorem raises_when_ambiguous :
  forall P streams L dsrc caller args toks k1 k2,
    k1 <> k2 ->
    rows_okb toks = true ->
    lambda_atb P toks k1 L caller args = true -> not_nestedb toks k1 = true ->
    lambda_atb P toks k2 L caller args = true -> not_nestedb toks k2 = true ->
    forall s k, nth_error streams s = Some toks ->
                find P streams L true dsrc (Some caller) args <> Found s k.
Proof.
  intros P streams L dsrc caller args toks k1 k2 Hne Hrows H1 N1 H2 N2 s k Hn Hf.
  assert (k = k1) by (eapply never_picks_neighbour; eauto).
  assert (k = k2) by (eapply never_picks_neighbour; eauto).
  congruence.
Qed.

(* ------------------------------------------------------------------ lambda vs def *)
Lemma scan_lambda_not_def : forall P eqfix whole ts m i cs,
    scan P ["lambda"] eqfix whole m i ts cs <> ScDef.
Proof.
  intros P eqfix whole. induction ts as [|t r IH]; intros m i cs; cbn [scan].
  - destruct m; try discriminate. unfold close. destruct (P _); discriminate.
  - destruct (is_kind KErr t); [discriminate|].
    destruct m as [last prev nm|last prev nm|key st row p b c saw].
    + destruct (is_kind KName t); [|apply IH].
      cbn [existsb]. destruct (String.eqb (ttext t) "lambda") eqn:E; cbn [orb]; [|apply IH].
      apply String.eqb_eq in E. rewrite E. cbn. destruct last; [apply IH | discriminate].
    + destruct (is_kind KName t).
      * destruct (String.eqb (ttext t) "lambda"); apply IH.
      * destruct (is_kind KNewline t); [discriminate | apply IH].
    + destruct (is_stop t && zero3 p b c).
      * unfold close. destruct (P _); try discriminate; destruct saw; try discriminate; apply IH.
      * destruct (is_kind KComment t); apply IH.
Qed.

Lemma select_not_def : forall rf L caller args s cs, select rf L caller args s cs <> FoundDef.
Proof.
  intros. unfold select.
  destruct (match caller with Some nm => filter (key_is nm) _ | None => _ end); [discriminate|].
  destruct (existsb no_lambda _); [discriminate|].
  destruct (filter (args_are args) _) as [|x [|y l']]; discriminate.
Qed.

Theorem lambda_never_def :
  forall P streams L dsrc caller args, find P streams L true dsrc caller args <> FoundDef.
Proof.
  intros P streams L dsrc caller args. unfold find, find_gen. cbn [keywords].
  destruct (backup P ["lambda"] true streams 0) as [s o] eqn:Hb.
  destruct o as [r|]; [|discriminate].
  destruct (backup_some _ _ _ _ _ _ _ Hb) as (_ & _ & toks & _ & Hs).
  destruct r; try discriminate.
  - apply select_not_def.
  - exfalso. unfold scan_stream in Hs. eapply scan_lambda_not_def; eauto.
Qed.

Lemma scan_def_first : forall P eqfix whole ts last prev nm i cs,
    match scan P ["def"] eqfix whole (First last prev nm) i ts cs with
    | ScDone _ | ScNoName _ => False
    | _ => True
    end.
Proof.
  intros P eqfix whole. induction ts as [|t r IH]; intros last prev nm i cs; cbn [scan]; [exact I|].
  destruct (is_kind KErr t); [exact I|].
  destruct (is_kind KName t); [|apply IH].
  cbn [existsb]. destruct (String.eqb (ttext t) "def") eqn:E; cbn [orb]; [exact I | apply IH].
Qed.

Theorem def_never_lambda :
  forall P streams L dsrc caller args s k, find P streams L false dsrc caller args <> Found s k.
Proof.
  intros P streams L dsrc caller args s k. unfold find, find_gen. cbn [keywords].
  destruct (backup P ["def"] true streams 0) as [s' o] eqn:Hb.
  destruct o as [r|]; [|discriminate].
  destruct (backup_some _ _ _ _ _ _ _ Hb) as (_ & _ & toks & _ & Hs).
  unfold scan_stream in Hs. pose proof (scan_def_first P true toks toks None None false 0 []) as Hd. rewrite Hs in Hd.
  destruct r; try discriminate; try contradiction.
  destruct dsrc as [b|e]; cbn [def_outcome]; try discriminate.
  destruct (filter not_doc b) as [|x [|y l']]; try discriminate; destruct x; discriminate.
Qed.

(* ------------------------------------------------------------------ totality *)
Definition no_err_toks (ts : list tok) : bool := forallb no_err ts.

Lemma scan_no_crash : forall P kw eqfix whole,
    (forall x, exists a, P x = PArgs a) ->
    forall ts m i cs, no_err_toks ts = true ->
      Forall (fun c => exists a, c_parse c = PArgs a) cs ->
      match scan P kw eqfix whole m i ts cs with
      | ScCrash _ => False
      | ScDone res => Forall (fun c => exists a, c_parse c = PArgs a) res
      | _ => True
      end.
Proof.
  intros P kw eqfix whole HP. induction ts as [|t r IH]; intros m i cs Hne Hcs; cbn [scan].
  - destruct m; auto.
    + apply Forall_rev; auto.
    + unfold close. destruct (HP (extent whole start i)) as [a ->]. apply Forall_rev. constructor; [cbn; eauto | auto].
  - cbn [no_err_toks forallb] in Hne. apply andb_true_iff in Hne. destruct Hne as [Ht Hr].
    unfold no_err in Ht. destruct (is_kind KErr t); [discriminate|].
    destruct m as [last prev nm|last prev nm|key st row p b c saw].
    + destruct (is_kind KName t); [|apply IH; auto].
      destruct (existsb (String.eqb (ttext t)) kw); [|apply IH; auto].
      destruct (String.eqb (ttext t) "def"); [exact I|]. destruct last; [apply IH; auto | exact I].
    + destruct (is_kind KName t).
      * destruct (String.eqb (ttext t) "lambda"); apply IH; auto.
      * destruct (is_kind KNewline t); [apply Forall_rev; auto | apply IH; auto].
    + destruct (is_stop t && zero3 p b c).
      * unfold close. destruct (HP (extent whole st i)) as [a ->].
        assert (Hcs' : Forall (fun c0 => exists a0, c_parse c0 = PArgs a0)
                              ({| c_key := key; c_start := st; c_stop := i; c_row := row; c_parse := PArgs a |} :: cs))
          by (constructor; [cbn; eauto | auto]).
        destruct saw; [apply Forall_rev; auto | apply IH; auto].
      * destruct (is_kind KComment t); apply IH; auto.
Qed.

Theorem finder_total :
  forall P streams L is_lam dsrc caller args,
    (forall x, exists a, P x = PArgs a) ->
    forallb no_err_toks streams = true ->
    (forall e, dsrc <> DSExc e) ->
    forall c, find P streams L is_lam dsrc caller args <> Crash c.
Proof.
  intros P streams L is_lam dsrc caller args HP Hne Hd c. unfold find, find_gen.
  destruct (backup P (keywords true is_lam) true streams 0) as [s o] eqn:Hb.
  destruct o as [r|]; [|discriminate].
  destruct (backup_some _ _ _ _ _ _ _ Hb) as (_ & _ & toks & Hn & Hs).
  assert (Htoks : no_err_toks toks = true).
  { rewrite forallb_forall in Hne. apply Hne. eapply nth_error_In; eauto. }
  pose proof (scan_no_crash P (keywords true is_lam) true toks HP toks (First None None false) 0 [] Htoks (Forall_nil _)) as Hsc.
  unfold scan_stream in Hs. rewrite Hs in Hsc.
  destruct r as [cs| | | |]; try discriminate; try contradiction.
  - unfold select.
    set (search := match caller with Some nm => filter (key_is nm) (filter (on_row L) cs) | None => filter (on_row L) cs end).
    assert (Hsearch : forall x, In x search -> In x cs).
    { intros x Hx. unfold search in Hx. destruct caller; repeat (apply filter_In in Hx; destruct Hx as [Hx _]); auto. }
    assert (Hnl : existsb no_lambda search = false).
    { apply not_true_is_false. intros Hex. apply existsb_exists in Hex. destruct Hex as (x & Hx & Hnl).
      rewrite Forall_forall in Hsc. destruct (Hsc x (Hsearch x Hx)) as [a Ha].
      unfold no_lambda in Hnl. rewrite Ha in Hnl. discriminate. }
    clearbody search. destruct search as [|c0 rest] eqn:Es; [discriminate|]. rewrite <- Es in *.
    rewrite Hnl. destruct (filter (args_are args) search) as [|x [|y l']]; discriminate.
  - destruct dsrc as [b|e]; cbn [def_outcome]; [|exfalso; eapply Hd; eauto].
    destruct (filter not_doc b) as [|x [|y l']]; try discriminate; destruct x; discriminate.
Qed.

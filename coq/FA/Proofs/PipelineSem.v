(* C01: semantic theorems (placeholder while the harness is brought up). *)
From FA.Base Require Import PyAst Value Eval.
From FA.Model Require Import TypeDefs Pipeline.
From FA.Proofs Require Import PipelineFacts.

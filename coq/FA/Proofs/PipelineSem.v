(* C01, semantic half.

   1. [remove_sem]: remove_empty_metadata preserves the meaning of every query, for every backend in which MetaData is
      the identity on its first argument (the generic congruence engine of Proofs/EvalCong.v; only the removed
      wrapper needs an argument of its own).
   2. [stage_sem]: one operator node [Op(src, lambda p: b)] evaluates to what the direct combinator computes with any
      function the lambda body refines.
   3. [step_sound]: one modelled operator call (acquire, sugar, follow, wrap with metadata, node) is sound as soon as
      acquisition and following refine the meaning of the lambda.
   4. The chain theorems: by induction on the chain (any length, any order of operators).
   5. The backend passes. *)
From FA.Base Require Import PyAst Induct Value Eval Traverse.
From FA.Gen Require Import Tables TablesStream.
From FA.Model Require Import TypeDefs Pipeline.
From FA.Model Require Capture Sugar TypeFollow MetaData ExtCalls Aggregate Simplify.
From FA.Proofs Require Import TraverseFacts Refine EvalCong MetaDataRemove SugarSem TypeFollowFacts TypeFollowUntyped
  ExtCallsSem AggregateSem PipelineFacts.
From Coq Require Import Lia.

(* ---------- backends ---------- *)

(* MetaData(x, dict) denotes x: whenever the backend gives such a call a value it is the value of x, and it does give
   one when x is a sequence (a stream).  (Stated this way - not "for every value" - so that it is compatible with
   backends that give no meaning to function calls on dictionary records, C02's [backend_ok].) *)
Definition md_identity (B : backend) : Prop :=
  (forall v d kws r, fun_sem B "MetaData" [v; d] kws = Some r -> r = v) /\
  (forall l d kws, fun_sem B "MetaData" [VList l; d] kws = Some (VList l)).

(* the dataset the query is run on *)
Definition dataset (B : backend) (data : list value) : Prop :=
  fun_sem B "EventDataset" [] [] = Some (VList data).

(* ---------- 1. remove_empty_metadata ---------- *)

Lemma clean_call_cases n e' :
  MetaData.clean_call n = Some e' ->
  e' = n \/ exists a0 a1 kwn kwv, n = Call (Name "MetaData") [a0; a1] kwn kwv /\ e' = a0.
Proof.
  destruct n; cbn [MetaData.clean_call]; try (intros H; inversion H; left; reflexivity).
  destruct n; try (intros H; inversion H; left; reflexivity).
  destruct args as [|a0 [|a1 [|a2 args]]]; try (intros H; inversion H; left; reflexivity).
  destruct (String.eqb id MetaData.md_name) eqn:Hid; [|intros H; inversion H; left; reflexivity].
  apply String.eqb_eq in Hid. subst id.
  intros H. apply obind_some in H. destruct H as [d [_ H]].
  destruct (MetaData.is_empty_dict d); inversion H; subst; [right | left; reflexivity].
  exists e', a1, kwn, kwv. split; reflexivity.
Qed.

Section RemoveSem.
  Variable B : backend.
  Variable ops : list string.
  Hypothesis Hmd : md_identity B.
  Notation ev := (eval B ops).
  Notation T := MetaData.remove_empty.

  Lemma remove_generic e : is_call e = false -> T e = map_children T e.
  Proof. destruct e; intros H; try reflexivity; discriminate. Qed.

  Lemma apply_op_md recv (a : aview) :
    apply_op B "MetaData" recv [a] =
    obind recv (fun s => obind (sequence [av_val a]) (fun vs => fun_sem B "MetaData" (s :: vs) [])).
  Proof. reflexivity. Qed.

  Theorem remove_refines : forall e, sem_ok B ops T e.
  Proof.
    apply (pass_refines B ops T remove_generic).
    intros e Hc IH e' He E.
    pose proof He as He0.
    destruct e; try discriminate Hc.
    cbn [MetaData.remove_empty] in He. apply obind_some in He. destruct He as [n [Hn Hclean]].
    destruct (clean_call_cases _ _ Hclean) as [-> | (a0 & a1 & kwn' & kwv' & -> & ->)].
    - (* the node is kept: generic congruence *)
      apply (node_congruence B ops T remove_generic (Call e args kwn kwv) IH); [|exact He0].
      rewrite Hn. exact He0.
    - (* an empty wrapper is replaced by its (cleaned) source *)
      cbn [map_children] in Hn.
      apply obind_some in Hn. destruct Hn as [f' [Hf Hn]].
      apply obind_some in Hn. destruct Hn as [args' [Hargs Hn]].
      apply obind_some in Hn. destruct Hn as [kwv2 [Hkwv Hn]].
      inversion Hn; subst f' args' kwn' kwv'. clear Hn.
      destruct args as [|x0 [|x1 [|x2 args]]];
        try (apply omap_nil_some in Hargs; discriminate);
        try (apply omap_cons_some in Hargs; destruct Hargs as (? & ? & _ & Hr & Heq);
             try (apply omap_nil_some in Hr; subst; discriminate);
             apply omap_cons_some in Hr; destruct Hr as (? & ? & _ & Hr & ->);
             try (apply omap_nil_some in Hr; subst; discriminate);
             apply omap_cons_some in Hr; destruct Hr as (? & ? & _ & _ & ->); discriminate).
      apply omap_cons_some in Hargs. destruct Hargs as (y0 & r0 & Hx0 & Hr & Heq).
      apply omap_cons_some in Hr. destruct Hr as (y1 & r1 & Hx1 & Hr & ->).
      apply omap_nil_some in Hr. subst r1. inversion Heq; subst y0 y1. clear Heq.
      assert (Hs0 : size x0 < size (Call e [x0; x1] kwn kwv)).
      { apply size_child. cbn [children]. right; left; reflexivity. }
      pose proof (IH x0 Hs0 a0 Hx0 E) as IH0.
      intros v Hv.
      assert (Hname : is_call e = true \/ e = Name "MetaData").
      { destruct e; try (right; cbn in Hf; inversion Hf; reflexivity); try (left; reflexivity);
          exfalso; cbn in Hf;
          repeat match goal with
                 | H : obind _ _ = Some _ |- _ =>
                     apply obind_some in H; let a := fresh "u" in let Ha := fresh "Hu" in destruct H as [a [Ha H]]
                 end; discriminate. }
      destruct Hname as [Hce | ->].
      + (* the callee is itself a call: the reference semantics gives such a call no meaning *)
        exfalso. destruct e; try discriminate Hce. cbn [eval] in Hv.
        destruct kwn; [discriminate|].
        destruct (omap (ev E) [x0; x1]); cbn [obind] in Hv; [|discriminate].
        destruct (omap (ev E) kwv); cbn [obind] in Hv; [|discriminate].
        destruct (zip_kw (o :: kwn) l0); cbn [obind] in Hv; discriminate.
      + apply IH0. cbn [eval] in Hv. destruct kwn as [|k kwn].
        * cbn [map] in Hv. rewrite apply_op_md in Hv.
          destruct (ev E x0) as [s|]; cbn [obind] in Hv; [|discriminate].
          cbn [mk_view av_val sequence] in Hv.
          destruct (ev E x1) as [d|]; cbn [obind] in Hv; [|discriminate].
          rewrite (proj1 Hmd _ _ _ _ Hv). reflexivity.
        * unfold omap in Hv at 1. cbn [map sequence] in Hv.
          destruct (ev E x0) as [s|]; cbn [obind] in Hv; [|discriminate].
          destruct (ev E x1) as [d|]; cbn [obind] in Hv; [|discriminate].
          destruct (omap (ev E) kwv); cbn [obind] in Hv; [|discriminate].
          destruct (zip_kw (k :: kwn) l); cbn [obind] in Hv; [|discriminate].
          rewrite (proj1 Hmd _ _ _ _ Hv). reflexivity.
  Qed.

  Theorem remove_sem e e' :
    MetaData.remove_empty e = Some e' -> forall E v, ev E e = Some v -> ev E e' = Some v.
  Proof. intros H E v. exact (remove_refines e e' H E v). Qed.
End RemoveSem.

(* ---------- 2. one operator node ---------- *)

Section Node.
  Variable B : backend.
  Variable ops : list string.
  Notation ev := (eval B ops).

  Lemma eval_root E data : dataset B data -> ev E root = Some (VList data).
  Proof. intros H. exact H. Qed.

  Lemma apply_op_select recv (a : aview) :
    apply_op B "Select" recv [a] =
    obind recv (fun s => obind (as_list s) (fun l => obind (av_f1 a) (fun f => option_map VList (omap f l)))).
  Proof. reflexivity. Qed.

  Lemma apply_op_where recv (a : aview) :
    apply_op B "Where" recv [a] =
    obind recv (fun s => obind (as_list s) (fun l => obind (av_f1 a) (fun f =>
      option_map VList (ofilter (fun v => option_map truthy (f v)) l)))).
  Proof. reflexivity. Qed.

  Lemma apply_op_selectmany recv (a : aview) :
    apply_op B "SelectMany" recv [a] =
    obind recv (fun s => obind (as_list s) (fun l => obind (av_f1 a) (fun f =>
      obind (omap (fun v => obind (f v) as_list) l) (fun ls => Some (VList (concat ls)))))).
  Proof. reflexivity. Qed.

  (* [Op(src, lambda p: b2)] computes what the direct combinator computes with any function the body refines *)
  Lemma stage_sem E op p b2 (f : value -> option value) src l l' :
    (forall v, refines (f v) (ev ((p, v) :: E) b2)) ->
    ev E src = Some (VList l) ->
    run_op op f l = Some l' ->
    ev E (function_call (op_name op) [src; Lambda [p] b2]) = Some (VList l').
  Proof.
    intros Hf Hsrc Hrun. unfold function_call.
    destruct op; try discriminate Hrun; cbn [op_name eval map run_op] in *.
    - rewrite apply_op_select, Hsrc. cbn [obind as_list mk_view av_f1 option_map].
      rewrite map_opt_omap in Hrun.
      rewrite (omap_refines f (fun v => ev ((p, v) :: E) b2) l Hf _ Hrun). reflexivity.
    - rewrite apply_op_selectmany, Hsrc. cbn [obind as_list mk_view av_f1].
      destruct (map_opt _ l) as [ls|] eqn:Hm; [|discriminate]. inversion Hrun; subst l'.
      rewrite map_opt_omap in Hm.
      assert (Hfr : frefines (fun v => match f v with Some r => seq_items r | None => None end)
                             (fun v => obind (ev ((p, v) :: E) b2) as_list)).
      { intros v w Hw. destruct (f v) as [r|] eqn:Hfv; [|discriminate].
        rewrite (Hf v r Hfv). cbn [obind]. rewrite <- seq_items_as_list. exact Hw. }
      rewrite (omap_refines _ _ l Hfr _ Hm). reflexivity.
    - rewrite apply_op_where, Hsrc. cbn [obind as_list mk_view av_f1].
      rewrite filter_opt_ofilter in Hrun.
      assert (Hfr : frefines (fun v => match f v with Some r => Some (truthy r) | None => None end)
                             (fun v => option_map truthy (ev ((p, v) :: E) b2))).
      { intros v w Hw. destruct (f v) as [r|] eqn:Hfv; [|discriminate].
        rewrite (Hf v r Hfv). exact Hw. }
      rewrite (ofilter_refines _ _ l Hfr _ Hrun). reflexivity.
  Qed.

  (* a dictionary whose value does not depend on the environment (a literal) *)
  Definition md_evaluable (d : expr) : Prop := exists dv, forall E, ev E d = Some dv.

  Lemma eval_md_wrap E ds : md_identity B -> Forall md_evaluable ds ->
    forall src l, ev E src = Some (VList l) -> ev E (md_wrap src ds) = Some (VList l).
  Proof.
    intros Hmd H. induction H as [|d ds [dv Hd] _ IH]; intros src l Hsrc; [exact Hsrc|].
    cbn [md_wrap]. apply IH. unfold function_call. cbn [eval map].
    rewrite apply_op_md, Hsrc. cbn [obind mk_view av_val sequence]. rewrite (Hd E). cbn [obind]. apply (proj2 Hmd).
  Qed.
End Node.

(* ---------- 3. one modelled operator call ---------- *)

Section Step.
  Variable B : backend.
  Variable ops : list string.
  Variable W : world.
  Hypothesis Hsel : is_op ops "Select" = true.
  Hypothesis Hwh : is_op ops "Where" = true.
  Hypothesis Hmd : md_identity B.
  Notation ev := (eval B ops).

  (* acquisition (capture freezing + helper inlining for a callable; nothing for a string / ast) refines the
     meaning the lambda has under its own captured values *)
  Definition acquire_sound (s : stage) : Prop :=
    forall p b b0, st_src s = Lambda [p] b ->
      acquire_lambda (st_acq s) (Lambda [p] b) = Capture.Ok (Lambda [p] b0) ->
      forall v, refines (ev ((p, v) :: captured (st_acq s)) b) (ev [(p, v)] b0).

  (* type following refines the meaning of the body; the metadata it attaches are literals *)
  Definition follow_sound_at (item : ty) (op : opkind) (p : string) (b1 : expr) : Prop :=
    forall b2 t evs,
      TypeFollow.stream_op W op [] item (Lambda [p] b1) = TypeFollow.Ok (Lambda [p] b2, t, evs) ->
      (forall v, refines (ev [(p, v)] b1) (ev [(p, v)] b2)) /\ Forall (md_evaluable B ops) (md_of_events evs).

  Lemma step_inv k q item s q' t' p b :
    st_src s = Lambda [p] b ->
    step W k (q, item) s = POk (q', t') ->
    (st_op s = OpSelect \/ st_op s = OpSelectMany \/ st_op s = OpWhere) /\
    exists b0 b1 b2 evs,
      acquire_lambda (st_acq s) (Lambda [p] b) = Capture.Ok (Lambda [p] b0) /\
      Sugar.sugar b0 = Sugar.Ok b1 /\
      TypeFollow.stream_op W (st_op s) [] item (Lambda [p] b1) = TypeFollow.Ok (Lambda [p] b2, t', evs) /\
      q' = function_call (op_name (st_op s)) [md_wrap q (md_of_events evs); Lambda [p] b2].
  Proof.
    intros Hsrc. unfold step. cbn [fst snd]. rewrite Hsrc.
    destruct (acquire_lambda (st_acq s) (Lambda [p] b)) as [lam0|[|]] eqn:Ha; try discriminate.
    destruct (acquire_lambda_shape _ _ _ _ Ha) as (b0 & ->).
    destruct (Sugar.sugar (Lambda [p] b0)) as [lam1|[r|c]] eqn:Hs; try discriminate.
    destruct (sugar_lambda _ _ _ Hs) as (b1 & -> & Hsb).
    destruct (TypeFollow.stream_op W (st_op s) [] item (Lambda [p] b1)) as [[[lam2 it'] evs]|r|c] eqn:Hf; try discriminate.
    rewrite wrap_events_is. cbn [obind].
    destruct (op_node (st_op s) (md_wrap q (md_of_events evs)) lam2) as [qq|] eqn:Hn; [|discriminate].
    intros H. inversion H; subst qq it'. clear H.
    apply op_node_some in Hn. destruct Hn as [Hop ->]. split; [exact Hop|].
    destruct (stream_op_shape _ _ _ _ _ _ _ Hf) as (p' & b1' & b2 & t0 & Heq & -> & _).
    inversion Heq; subst p' b1'.
    exists b0, b1, b2, evs. repeat split; assumption.
  Qed.

  Lemma step_sound k q item s q' t' l l' :
    step W k (q, item) s = POk (q', t') ->
    ev [] q = Some (VList l) ->
    run_stage B ops s l = Some l' ->
    acquire_sound s ->
    (forall p b b0 b1, st_src s = Lambda [p] b ->
       acquire_lambda (st_acq s) (Lambda [p] b) = Capture.Ok (Lambda [p] b0) -> Sugar.sugar b0 = Sugar.Ok b1 ->
       follow_sound_at item (st_op s) p b1) ->
    ev [] q' = Some (VList l').
  Proof.
    intros Hstep Hq Hrun Hacq Hfol.
    assert (Hsrc : exists p b, st_src s = Lambda [p] b).
    { unfold run_stage, stage_fun in Hrun. destruct (st_src s); try discriminate Hrun.
      destruct ps as [|p [|? ?]]; try discriminate Hrun. eauto. }
    destruct Hsrc as (p & b & Hsrc).
    destruct (step_inv _ _ _ _ _ _ _ _ Hsrc Hstep) as (Hop & b0 & b1 & b2 & evs & Ha & Hs & Hf & ->).
    destruct (Hfol p b b0 b1 Hsrc Ha Hs b2 t' evs Hf) as [Hbody Hmds].
    unfold run_stage, stage_fun in Hrun. rewrite Hsrc in Hrun.
    eapply stage_sem; [| apply eval_md_wrap; eassumption | exact Hrun].
    intros v. cbv beta.
    eapply refines_trans; [apply (Hacq p b b0 Hsrc Ha v)|].
    eapply refines_trans; [|apply Hbody].
    intros w Hw. exact (sugar_sem_all B ops Hsel Hwh b0 b1 Hs [(p, v)] w Hw).
  Qed.
End Step.

(* ---------- 4. chains ---------- *)

(* untyped chains of ast / string lambdas in the grammar of C10: decided along the chain, the item type of each
   stream being the one the model computes *)
Fixpoint plain_chain (W : world) (item : ty) (ch : chain) : bool :=
  match ch with
  | [] => true
  | s :: rest =>
      match st_acq s, st_src s with
      | AcqAsIs, Lambda [p] b =>
          match Sugar.sugar b with
          | Sugar.Ok b1 =>
              expr_grammar W [(p, item)] b1 &&
              match TypeFollow.stream_op W (st_op s) [] item (Lambda [p] b1) with
              | TypeFollow.Ok (_, t, _) => plain_chain W t rest
              | _ => true
              end
          | Sugar.Err _ => true
          end
      | _, _ => false
      end
  end.

Lemma plain_stream_op W op item p b lam t ev :
  ft_plain (w_ft W) -> simple item -> expr_grammar W [(p, item)] b = true ->
  TypeFollow.stream_op W op [] item (Lambda [p] b) = TypeFollow.Ok (lam, t, ev) ->
  lam = Lambda [p] b /\ ev = [] /\ simple t.
Proof.
  intros Hft Hitem Hg. cbn [TypeFollow.stream_op].
  assert (HG : Forall (fun xt : string * ty => simple (snd xt)) [(p, item)]) by (constructor; [exact Hitem | constructor]).
  pose proof (untyped_passthrough_x W [(p, item)] b Hft HG Hg) as H.
  destruct (TypeFollow.follow W [(p, item)] b) as [[[b' t0] ev0]|r|k]; cbn [TypeFollow.bind]; try discriminate.
  destruct H as (-> & -> & Ht0). unfold TypeFollow.finish_op.
  destruct (negb _); [discriminate|].
  destruct op; try discriminate.
  - intros E; inversion E; subst. auto.
  - intros E; inversion E; subst. repeat split. rewrite unwrap_iterable_simple by exact Ht0. reflexivity.
  - destruct (ty_eqb t0 TBool); [|discriminate]. intros E; inversion E; subst. auto.
Qed.

Section Chain.
  Variable B : backend.
  Variable ops : list string.
  Variable W : world.
  Hypothesis Hsel : is_op ops "Select" = true.
  Hypothesis Hwh : is_op ops "Where" = true.
  Hypothesis Hmd : md_identity B.
  Notation ev := (eval B ops).

  (* the two named hypotheses about component models (see Properties/C01.v) *)
  Definition capture_sound : Prop :=
    forall ce p b b0, Capture.parse_callable ce (Lambda [p] b) = Capture.Ok (Lambda [p] b0) ->
      forall v, refines (ev ((p, v) :: captured (AcqCallable ce)) b) (ev [(p, v)] b0).

  Definition follow_sound : Prop :=
    forall item op p b1, follow_sound_at B ops W item op p b1.

  Lemma acquire_sound_asis s : st_acq s = AcqAsIs -> acquire_sound B ops s.
  Proof.
    intros Ha p b b0 _ H v. rewrite Ha in *. cbn [acquire_lambda captured] in *. inversion H; subst. apply refines_refl.
  Qed.

  Lemma acquire_sound_of s : capture_sound -> acquire_sound B ops s.
  Proof.
    intros Hc. destruct (st_acq s) as [ce|] eqn:Ha; [|apply acquire_sound_asis; exact Ha].
    intros p b b0 _ H v. rewrite Ha in *. cbn [acquire_lambda] in H. exact (Hc ce p b b0 H v).
  Qed.

  Theorem chain_sound : capture_sound -> follow_sound ->
    forall ch k q item q' t' l r,
      build_from W k (q, item) ch = POk (q', t') ->
      ev [] q = Some (VList l) -> direct B ops ch l = Some r -> ev [] q' = Some (VList r).
  Proof.
    intros Hc Hf. induction ch as [|s rest IH]; intros k q item q' t' l r Hb Hq Hd.
    - cbn in Hb, Hd. inversion Hb; inversion Hd; subst. exact Hq.
    - cbn [build_from] in Hb. destruct (step W k (q, item) s) as [[q1 t1]|] eqn:Hstep; [|discriminate].
      cbn [pbind] in Hb. cbn [direct] in Hd. destruct (run_stage B ops s l) as [l1|] eqn:Hrun; [|discriminate].
      eapply IH; [exact Hb | | exact Hd].
      eapply (step_sound B ops W Hsel Hwh Hmd); try eassumption.
      + apply acquire_sound_of; exact Hc.
      + intros p b b0 b1 _ _ _. apply Hf.
  Qed.

  Theorem plain_chain_sound : ft_plain (w_ft W) ->
    forall ch k q item q' t' l r,
      simple item -> plain_chain W item ch = true ->
      build_from W k (q, item) ch = POk (q', t') ->
      ev [] q = Some (VList l) -> direct B ops ch l = Some r -> ev [] q' = Some (VList r).
  Proof.
    intros Hft. induction ch as [|s rest IH]; intros k q item q' t' l r Hitem Hp Hb Hq Hd.
    - cbn in Hb, Hd. inversion Hb; inversion Hd; subst. exact Hq.
    - cbn [build_from] in Hb. destruct (step W k (q, item) s) as [[q1 t1]|] eqn:Hstep; [|discriminate].
      cbn [pbind] in Hb. cbn [direct] in Hd. destruct (run_stage B ops s l) as [l1|] eqn:Hrun; [|discriminate].
      cbn [plain_chain] in Hp.
      destruct (st_acq s) as [ce|] eqn:Hacq; [discriminate|].
      destruct (st_src s) as [| | | |ps b| | | | | | | | | | | | | |] eqn:Hsrc; try discriminate.
      destruct ps as [|p [|? ?]]; try discriminate.
      destruct (step_inv W k q item s q1 t1 p b Hsrc Hstep) as (Hop & b0 & b1 & b2 & evs & Ha & Hs & Hf & ->).
      rewrite Hacq in Ha. cbn [acquire_lambda] in Ha. inversion Ha; subst b0. clear Ha.
      rewrite Hs in Hp. apply andb_true_iff in Hp. destruct Hp as [Hg Hrest]. rewrite Hf in Hrest.
      destruct (plain_stream_op W _ item p b1 _ _ _ Hft Hitem Hg Hf) as (Hlam & -> & Ht1).
      eapply IH; [exact Ht1 | exact Hrest | exact Hb | | exact Hd].
      eapply (step_sound B ops W Hsel Hwh Hmd); try eassumption.
      + apply acquire_sound_asis; exact Hacq.
      + intros p' b' b0' b1' Hsrc' Ha' Hs'. rewrite Hsrc in Hsrc'. inversion Hsrc'; subst p' b'.
        rewrite Hacq in Ha'. cbn [acquire_lambda] in Ha'. inversion Ha'; subst b0'.
        rewrite Hs in Hs'. inversion Hs'; subst b1'.
        intros b2' t2 evs2 Hf2.
        destruct (plain_stream_op W _ item p b1 _ _ _ Hft Hitem Hg Hf2) as (Hl2 & -> & _).
        inversion Hl2; subst b2'. split; [intros v; apply refines_refl | constructor].
  Qed.

  (* ---------- terminals and value() ---------- *)

  Definition terminal_nodes : list string := map (fun t => snd (fst t)) terminals.

  (* a result-format terminal denotes the stream it is given (how it is written out is not part of the meaning) *)
  Definition terminals_ok : Prop :=
    forall node l args, In node terminal_nodes -> fun_sem B node (VList l :: args) [] = Some (VList l).

  Lemma find_node_in tbl m node spec :
    find_node tbl m = Some (node, spec) -> In node (map (fun t => snd (fst t)) tbl).
  Proof.
    induction tbl as [|[[m' n'] sp] tbl IH]; cbn; [discriminate|].
    destruct (String.eqb m m'); [intros H; inversion H; left; reflexivity | intros H; right; apply IH; exact H].
  Qed.

  Lemma terminal_node_inv t src q :
    terminal_node t src = Some q ->
    exists node vs, q = function_call node (src :: map as_ast_tval vs) /\ In node terminal_nodes.
  Proof.
    unfold terminal_node. intros H. apply obind_some in H. destruct H as [[node spec] [Hfind H]].
    cbn [fst snd] in H.
    destruct (omap _ spec) as [args|] eqn:Hargs; [|discriminate]. inversion H; subst q. clear H.
    exists node.
    assert (Hvs : exists vs, args = map as_ast_tval vs).
    { clear Hfind. revert args Hargs. induction spec as [|n spec IH]; intros args Hargs.
      - apply omap_nil_some in Hargs. subst. exists []. reflexivity.
      - apply omap_cons_some in Hargs. destruct Hargs as (a & r & Ha & Hr & ->).
        destruct (IH r Hr) as [vs ->].
        destruct (assoc n (t_args t)) as [v|]; [|discriminate]. cbn [option_map] in Ha. inversion Ha.
        eexists (_ :: vs). reflexivity. }
    destruct Hvs as [vs ->]. exists vs. split; [reflexivity|].
    eapply find_node_in; eassumption.
  Qed.

  Lemma tval_evaluates E v : exists w, ev E (as_ast_tval v) = Some w.
  Proof.
    destruct v as [s|l]; cbn [as_ast_tval eval const_value]; [eauto|].
    assert (H : omap (ev E) (map (fun s => Const (CStr s)) l) = Some (map VStr l)).
    { induction l as [|s l IH]; [reflexivity|]. cbn [map]. rewrite omap_cons, IH. reflexivity. }
    rewrite H. cbn. eauto.
  Qed.

  Lemma apply_op_terminal node recv args :
    In node terminal_nodes ->
    apply_op B node recv args =
    obind recv (fun s => obind (sequence (map av_val args)) (fun vs => fun_sem B node (s :: vs) [])).
  Proof.
    unfold terminal_nodes. cbn [map terminals fst snd].
    intros H. repeat (destruct H as [<- | H]; [reflexivity|]). destruct H.
  Qed.

  Lemma terminal_sem E t src q l :
    terminals_ok -> terminal_node t src = Some q -> ev E src = Some (VList l) -> ev E q = Some (VList l).
  Proof.
    intros Ht Hn Hsrc. destruct (terminal_node_inv _ _ _ Hn) as (node & vs & -> & Hin).
    unfold function_call. cbn [eval]. rewrite (apply_op_terminal _ _ _ Hin), Hsrc. cbn [obind]. clear Hn.
    assert (Hseq : exists ws, sequence (map av_val (map (mk_view (eval B ops) E) (map as_ast_tval vs))) = Some ws).
    { induction vs as [|x vs IHvs].
      - exists nil. reflexivity.
      - destruct IHvs as [ws IH]. destruct (tval_evaluates E x) as [w Hw]. exists (w :: ws).
        cbn [map sequence mk_view av_val]. rewrite Hw. cbn [obind]. cbn [map] in IH. rewrite IH. reflexivity. }
    destruct Hseq as [ws ->]. cbn [obind]. apply Ht. exact Hin.
  Qed.

  Lemma query_sound item ch term q r :
    terminals_ok -> query W item ch term = POk q ->
    (forall q0 t0, build W item ch = POk (q0, t0) -> ev [] q0 = Some (VList r)) ->
    ev [] q = Some (VList r).
  Proof.
    intros Ht Hq Hb. unfold query in Hq.
    destruct (build W item ch) as [[q0 t0]|] eqn:Hbuild; [|discriminate]. cbn [pbind fst] in Hq.
    specialize (Hb q0 t0 eq_refl).
    destruct term as [t|].
    - destruct (terminal_node t q0) as [q1|] eqn:Hn; [|discriminate].
      destruct (MetaData.remove_empty q1) as [q2|] eqn:Hr; [|discriminate]. inversion Hq; subst q2.
      eapply (remove_sem B ops Hmd); [exact Hr|]. eapply terminal_sem; eassumption.
    - destruct (MetaData.remove_empty q0) as [q2|] eqn:Hr; [|discriminate]. inversion Hq; subst q2.
      eapply (remove_sem B ops Hmd); eassumption.
  Qed.
End Chain.

(* ---------- the headline statements ---------- *)

Theorem operator_chain_means_direct_x (B : backend) (ops : list string) (W : world) :
  is_op ops "Select" = true -> is_op ops "Where" = true ->
  md_identity B -> terminals_ok B -> ft_plain (w_ft W) ->
  forall ch term q data r,
    dataset B data ->
    plain_chain W TAny ch = true ->
    query W TAny ch term = POk q ->
    direct B ops ch data = Some r ->
    eval B ops [] q = Some (VList r).
Proof.
  intros Hsel Hwh Hmd Ht Hft ch term q data r Hds Hp Hq Hd.
  eapply (query_sound B ops W Hmd); [exact Ht | exact Hq|].
  intros q0 t0 Hb. unfold build in Hb.
  apply (plain_chain_sound B ops W Hsel Hwh Hmd Hft ch 0 root TAny q0 t0 data r);
    [reflexivity | exact Hp | exact Hb | apply eval_root; exact Hds | exact Hd].
Qed.

Theorem query_means_chain_x (B : backend) (ops : list string) (W : world) :
  is_op ops "Select" = true -> is_op ops "Where" = true ->
  md_identity B -> terminals_ok B ->
  capture_sound B ops -> follow_sound B ops W ->
  forall item ch term q data r,
    dataset B data ->
    query W item ch term = POk q ->
    direct B ops ch data = Some r ->
    eval B ops [] q = Some (VList r).
Proof.
  intros Hsel Hwh Hmd Ht Hc Hf item ch term q data r Hds Hq Hd.
  eapply (query_sound B ops W Hmd); [exact Ht | exact Hq|].
  intros q0 t0 Hb. unfold build in Hb.
  apply (chain_sound B ops W Hsel Hwh Hmd Hc Hf ch 0 root item q0 t0 data r);
    [exact Hb | apply eval_root; exact Hds | exact Hd].
Qed.

(* ---------- 5. the backend passes ---------- *)

Theorem ext_agg_sem (B : backend) q q' :
  ExtCalls.ops_kw_free ext_default_ops q = true ->
  Aggregate.agg (ExtCalls.ext q) = Some q' ->
  forall E v, eval B ext_default_ops E q = Some v -> eval B ext_default_ops E q' = Some v.
Proof.
  intros Hk Ha E v Hv.
  eapply (agg_sem B ext_default_ops); [exact Ha|].
  apply (ext_sem B ext_default_ops q Hk E v Hv).
Qed.

(* the whole-algorithm theorem of C02, not proved there: taken as a named hypothesis *)
Definition simp_ok (B : backend) (ops : list string) (fuel : nat) : Prop :=
  forall q q', simplify_query fuel q = Some q' ->
    forall E v, eval B ops E q = Some v -> eval B ops E q' = Some v.

Theorem passes_sem (B : backend) fuel q q' :
  simp_ok B ext_default_ops fuel ->
  ExtCalls.ops_kw_free ext_default_ops q = true ->
  backend_passes fuel q = Some q' ->
  forall E v, eval B ext_default_ops E q = Some v -> eval B ext_default_ops E q' = Some v.
Proof.
  intros Hs Hk Hp E v Hv. unfold backend_passes in Hp.
  destruct (Aggregate.agg (ExtCalls.ext q)) as [q1|] eqn:Ha; [|discriminate]. cbn [obind] in Hp.
  eapply Hs; [exact Hp|]. eapply ext_agg_sem; eassumption.
Qed.

(* the two halves together, for the chains of [operator_chain_means_direct_x] *)
Theorem end_to_end_x (B : backend) (W : world) (fuel : nat) :
  md_identity B -> terminals_ok B -> ft_plain (w_ft W) -> simp_ok B ext_default_ops fuel ->
  forall ch term q q' data r,
    dataset B data ->
    plain_chain W TAny ch = true ->
    query W TAny ch term = POk q ->
    ExtCalls.ops_kw_free ext_default_ops q = true ->
    backend_passes fuel q = Some q' ->
    direct B ext_default_ops ch data = Some r ->
    eval B ext_default_ops [] q' = Some (VList r).
Proof.
  intros Hmd Ht Hft Hs ch term q q' data r Hds Hp Hq Hk Hb Hd.
  eapply passes_sem; try eassumption.
  eapply (operator_chain_means_direct_x B ext_default_ops W); try eassumption; reflexivity.
Qed.

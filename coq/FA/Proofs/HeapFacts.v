(* Facts about the heap of node objects (Model/Heap.v): the unfolding of an object depends only on
   objects older than it, so extending the heap changes nothing below; allocation of a tree only
   extends the heap and unfolds to the tree that was asked for. *)
From Coq Require Import String List Arith Bool Lia.
From FA.Model Require Import Heap.
Import ListNotations.
Open Scope list_scope.
Open Scope nat_scope.

(* ---------------------------------------------------------------- induction over generic trees *)
Section GInd.
  Variable X : Type.
  Variable P : gtree X -> Prop.
  Hypothesis HL : forall a, P (Leaf a).
  Hypothesis HG : forall x cls fs, Forall (fun fl => Forall P (snd fl)) fs -> P (G x cls fs).
  Fixpoint gtree_ind' (t : gtree X) : P t :=
    match t with
    | Leaf a => HL a
    | G x cls fs =>
        HG x cls fs
          ((fix go (fs : list (string * fkind * list (gtree X))) : Forall (fun fl => Forall P (snd fl)) fs :=
              match fs with
              | [] => Forall_nil _
              | fl :: r =>
                  Forall_cons fl
                    ((fix go2 (ks : list (gtree X)) : Forall P ks :=
                        match ks with
                        | [] => Forall_nil _
                        | k :: kr => Forall_cons k (gtree_ind' k) (go2 kr)
                        end) (snd fl))
                    (go r)
              end) fs)
    end.
End GInd.

(* ---------------------------------------------------------------- tget *)
Lemma tget_app : forall A (e t : list A) a, a < length t -> tget (e ++ t) a = tget t a.
Proof.
  intros A e t a Ha. unfold tget. rewrite app_length.
  destruct (Nat.ltb_spec a (length e + length t)) as [_|H]; [|lia].
  destruct (Nat.ltb_spec a (length t)) as [_|H]; [|lia].
  rewrite nth_error_app2 by lia. f_equal. lia.
Qed.

Lemma tget_ge : forall A (t : list A) a, length t <= a -> tget t a = None.
Proof.
  intros A t a Ha. unfold tget. destruct (Nat.ltb_spec a (length t)); [lia|reflexivity].
Qed.

Lemma tget_new : forall A (x : A) t, tget (x :: t) (length t) = Some x.
Proof.
  intros A x t. unfold tget. cbn [length].
  destruct (Nat.ltb_spec (length t) (S (length t))) as [_|H]; [|lia].
  replace (S (length t) - S (length t)) with 0 by lia. reflexivity.
Qed.

Lemma tget_lt : forall A (t : list A) a x, tget t a = Some x -> a < length t.
Proof.
  intros A t a x H. unfold tget in H. destruct (Nat.ltb_spec a (length t)); [assumption|discriminate].
Qed.

(* ---------------------------------------------------------------- the unfolding table *)
Lemma unfold_tbl_length : forall h, length (unfold_tbl h) = length h.
Proof. induction h as [|n r IH]; cbn [unfold_tbl length]; [reflexivity|now rewrite IH]. Qed.

Lemma unfold_tbl_app : forall e h, exists e', unfold_tbl (e ++ h) = e' ++ unfold_tbl h.
Proof.
  induction e as [|n e IH]; intros h.
  - exists []. reflexivity.
  - destruct (IH h) as [e' He']. cbn [app unfold_tbl]. rewrite He'.
    eexists (_ :: e'). reflexivity.
Qed.

Definition heap_ext (h h' : heap) : Prop := exists e, h' = e ++ h.

Lemma heap_ext_refl : forall h, heap_ext h h.
Proof. intros h. exists []. reflexivity. Qed.

Lemma heap_ext_trans : forall a b c, heap_ext a b -> heap_ext b c -> heap_ext a c.
Proof. intros a b c [e1 H1] [e2 H2]. exists (e2 ++ e1). subst. now rewrite app_assoc. Qed.

Lemma heap_ext_cons : forall n h, heap_ext h (n :: h).
Proof. intros n h. exists [n]. reflexivity. Qed.

Lemma heap_ext_length : forall h h', heap_ext h h' -> length h <= length h'.
Proof. intros h h' [e He]. subst. rewrite app_length. lia. Qed.

(* the frame fact: what lies below an old address is not affected by anything allocated later *)
Lemma unfold_ext : forall h h' a, heap_ext h h' -> a < length h -> unfold h' a = unfold h a.
Proof.
  intros h h' a [e He] Ha. subst. unfold unfold.
  destruct (unfold_tbl_app e h) as [e' He']. rewrite He'.
  rewrite tget_app; [reflexivity|]. now rewrite unfold_tbl_length.
Qed.

Lemma hget_ext : forall h h' a, heap_ext h h' -> a < length h -> hget h' a = hget h a.
Proof. intros h h' a [e He] Ha. subst. unfold hget. now apply tget_app. Qed.

Lemma abs_ext : forall h h' a, heap_ext h h' -> a < length h -> abs h' a = abs h a.
Proof. intros. unfold abs. now rewrite (unfold_ext h h'). Qed.

Lemma unfold_lt : forall h a t, unfold h a = Some t -> a < length h.
Proof.
  intros h a t H. unfold unfold in H.
  destruct (tget (unfold_tbl h) a) eqn:E; [|discriminate].
  apply tget_lt in E. now rewrite unfold_tbl_length in E.
Qed.

Definition v_ok (h : heap) (v : hv) : Prop := match v with HA a => a < length h | HL _ => True end.

Lemma unfold_v_ext : forall h h' v, heap_ext h h' -> v_ok h v -> unfold_v h' v = unfold_v h v.
Proof.
  intros h h' [a|a] Hx Hv; [|reflexivity]. cbn in Hv.
  change (unfold h' a = unfold h a). now apply unfold_ext.
Qed.

Lemma v_ok_ext : forall h h' v, heap_ext h h' -> v_ok h v -> v_ok h' v.
Proof. intros h h' [a|a] Hx Hv; cbn in *; [|exact I]. apply heap_ext_length in Hx. lia. Qed.

Lemma unfold_new : forall n h, unfold (n :: h) (length h) = unfold_node (unfold_tbl h) n.
Proof.
  intros n h. unfold unfold. cbn [unfold_tbl].
  rewrite <- (unfold_tbl_length h) at 1. rewrite tget_new.
  destruct (unfold_node (unfold_tbl h) n); reflexivity.
Qed.

(* ---------------------------------------------------------------- copy and attribute write *)
Lemma hupd_new : forall n h f, hupd (n :: h) (length h) f = f n :: h.
Proof. intros. cbn [hupd]. now rewrite Nat.eqb_refl. Qed.

Lemma hcopy_spec : forall h a h' c, hcopy h a = Some (h', c) ->
  exists n, hget h a = Some n /\ h' = n :: h /\ c = length h.
Proof.
  intros h a h' c H. unfold hcopy in H. destruct (hget h a) as [n|]; [|discriminate].
  inversion H; subst. now exists n.
Qed.

(* ---------------------------------------------------------------- allocation *)
Definition alloc_kids (rs : list addr) :=
  fix aks (ks : list itree) (h : heap) {struct ks} : res (heap * list hv) :=
    match ks with
    | [] => Ok (h, [])
    | k :: kr =>
        match alloc rs k h with
        | Err e => Err e
        | Ok (h1, v) =>
            match aks kr h1 with
            | Err e => Err e
            | Ok (h2, vs) => Ok (h2, v :: vs)
            end
        end
    end.

Definition alloc_fields (rs : list addr) :=
  fix afs (fs : list (string * fkind * list itree)) (h : heap) {struct fs}
    : res (heap * list (string * fkind * list hv)) :=
    match fs with
    | [] => Ok (h, [])
    | fl :: r =>
        match alloc_kids rs (snd fl) h with
        | Err e => Err e
        | Ok (h1, vs) =>
            match afs r h1 with
            | Err e => Err e
            | Ok (h2, fs') => Ok (h2, (fst fl, vs) :: fs')
            end
        end
    end.

Lemma alloc_G : forall rs at_ cls fs h,
  alloc rs (G (INew at_) cls fs) h =
  match alloc_fields rs fs h with
  | Err e => Err e
  | Ok (h', fs') => Ok (mknode cls fs' at_ :: h', HA (length h'))
  end.
Proof. reflexivity. Qed.

Definition rho_of (rs : list addr) (h : heap) (s : nat) : option atree :=
  match nth_error rs s with Some r => unfold h r | None => None end.

Definition inst_kids (rho : nat -> option atree) (ks : list itree) : option (list atree) :=
  sequence (map (inst rho) ks).
Definition inst_field (rho : nat -> option atree) (fl : string * fkind * list itree) :=
  match inst_kids rho (snd fl) with Some ks => Some (fst fl, ks) | None => None end.

Lemma inst_G : forall rho at_ cls fs,
  inst rho (G (INew at_) cls fs) =
  match sequence (map (inst_field rho) fs) with Some fs' => Some (G at_ cls fs') | None => None end.
Proof. reflexivity. Qed.

Definition rs_ok (rs : list addr) (h0 : heap) : Prop := Forall (fun r => r < length h0) rs.

Definition alloc_good (rs : list addr) (h0 : heap) (it : itree) : Prop :=
  forall h h' v, heap_ext h0 h -> alloc rs it h = Ok (h', v) ->
    heap_ext h h' /\ v_ok h' v /\ unfold_v h' v = inst (rho_of rs h0) it.

Lemma alloc_kids_good : forall rs h0 ks, rs_ok rs h0 -> Forall (alloc_good rs h0) ks ->
  forall h h' vs, heap_ext h0 h -> alloc_kids rs ks h = Ok (h', vs) ->
    heap_ext h h' /\ Forall (v_ok h') vs /\
    sequence (map (unfold_v h') vs) = inst_kids (rho_of rs h0) ks.
Proof.
  intros rs h0 ks Hrs HF. induction HF as [|k kr Hk _ IH]; intros h h' vs Hx H.
  - cbn in H. inversion H; subst. split; [apply heap_ext_refl|]. split; [constructor|reflexivity].
  - cbn [alloc_kids] in H. fold (alloc_kids rs) in H.
    destruct (alloc rs k h) as [[h1 v]|e] eqn:E1; [|discriminate].
    destruct (alloc_kids rs kr h1) as [[h2 vs2]|e] eqn:E2; [|discriminate].
    inversion H; subst h' vs; clear H.
    destruct (Hk h h1 v Hx E1) as (X1 & V1 & U1).
    destruct (IH h1 h2 vs2 (heap_ext_trans _ _ _ Hx X1) E2) as (X2 & V2 & U2).
    split; [eapply heap_ext_trans; eassumption|].
    split; [constructor; [eapply v_ok_ext; eassumption|assumption]|].
    unfold inst_kids in *. cbn [map sequence].
    rewrite (unfold_v_ext h1 h2 v X2 V1), U1, U2. reflexivity.
Qed.

Lemma unfold_field_eq : forall h f vs,
  unfold_field (unfold_tbl h) (f, vs) =
  match sequence (map (unfold_v h) vs) with Some ks => Some (f, ks) | None => None end.
Proof. reflexivity. Qed.

Lemma alloc_fields_good : forall rs h0 fs, rs_ok rs h0 ->
  Forall (fun fl => Forall (alloc_good rs h0) (snd fl)) fs ->
  forall h h' fs', heap_ext h0 h -> alloc_fields rs fs h = Ok (h', fs') ->
    heap_ext h h' /\ Forall (fun fl => Forall (v_ok h') (snd fl)) fs' /\
    sequence (map (unfold_field (unfold_tbl h')) fs') = sequence (map (inst_field (rho_of rs h0)) fs).
Proof.
  intros rs h0 fs Hrs HF. induction HF as [|fl r Hfl _ IH]; intros h h' fs' Hx H.
  - cbn in H. inversion H; subst. split; [apply heap_ext_refl|]. split; [constructor|reflexivity].
  - cbn [alloc_fields] in H. fold (alloc_fields rs) in H.
    destruct (alloc_kids rs (snd fl) h) as [[h1 vs]|e] eqn:E1; [|discriminate].
    destruct (alloc_fields rs r h1) as [[h2 fs2]|e] eqn:E2; [|discriminate].
    inversion H; subst h' fs'; clear H.
    destruct (alloc_kids_good rs h0 (snd fl) Hrs Hfl h h1 vs Hx E1) as (X1 & V1 & U1).
    destruct (IH h1 h2 fs2 (heap_ext_trans _ _ _ Hx X1) E2) as (X2 & V2 & U2).
    split; [eapply heap_ext_trans; eassumption|].
    split.
    { constructor; [|assumption]. cbn [snd].
      eapply Forall_impl; [|exact V1]. intros v Hv. eapply v_ok_ext; eassumption. }
    cbn [map sequence]. rewrite U2. rewrite unfold_field_eq.
    assert (Hseq : sequence (map (unfold_v h2) vs) = sequence (map (unfold_v h1) vs)).
    { f_equal. apply map_ext_in. intros v Hin. apply unfold_v_ext; [assumption|].
      rewrite Forall_forall in V1. now apply V1. }
    rewrite Hseq, U1. unfold inst_field at 2. destruct (inst_kids (rho_of rs h0) (snd fl)); reflexivity.
Qed.

(* allocation extends the heap and unfolds to the tree asked for *)
Lemma alloc_good_all : forall rs h0 it, rs_ok rs h0 -> alloc_good rs h0 it.
Proof.
  intros rs h0 it Hrs. induction it as [a|x cls fs IH] using gtree_ind'; intros h h' v Hx H.
  - cbn in H. inversion H; subst. split; [apply heap_ext_refl|]. split; [exact I|reflexivity].
  - destruct x as [s|at_].
    + cbn [alloc] in H. destruct (nth_error rs s) as [r|] eqn:E; [|discriminate].
      inversion H; subst h' v; clear H.
      assert (Hr : r < length h0).
      { unfold rs_ok in Hrs. rewrite Forall_forall in Hrs. apply Hrs. eapply nth_error_In; eassumption. }
      split; [apply heap_ext_refl|]. split.
      { cbn. apply heap_ext_length in Hx. lia. }
      cbn [inst]. unfold rho_of. rewrite E. change (unfold h r = unfold h0 r). now apply unfold_ext.
    + rewrite alloc_G in H.
      destruct (alloc_fields rs fs h) as [[h1 fs']|e] eqn:E; [|discriminate].
      inversion H; subst h' v; clear H.
      destruct (alloc_fields_good rs h0 fs Hrs IH h h1 fs' Hx E) as (X1 & V1 & U1).
      split; [eapply heap_ext_trans; [eassumption|apply heap_ext_cons]|].
      split; [cbn; lia|].
      change (unfold (mknode cls fs' at_ :: h1) (length h1) = inst (rho_of rs h0) (G (INew at_) cls fs)).
      rewrite unfold_new, inst_G. unfold unfold_node. cbn [nfields nattrs ncls].
      rewrite U1. reflexivity.
Qed.

Theorem alloc_spec : forall rs it h h' v, rs_ok rs h -> alloc rs it h = Ok (h', v) ->
  heap_ext h h' /\ v_ok h' v /\ unfold_v h' v = inst (rho_of rs h) it.
Proof. intros rs it h h' v Hrs H. exact (alloc_good_all rs h it Hrs h h' v (heap_ext_refl h) H). Qed.

(* ---------------------------------------------------------------- instances that mention no stream *)
Lemma sequence_map_some : forall A B (f : A -> option B) (g : A -> B) l,
  Forall (fun x => f x = Some (g x)) l -> sequence (map f l) = Some (map g l).
Proof.
  intros A B f g l H. induction H as [|x l Hx _ IH]; [reflexivity|].
  cbn [map sequence]. now rewrite Hx, IH.
Qed.

Lemma inst_fresh : forall rho (t : atree), inst rho (fresh_of t) = Some t.
Proof.
  intros rho t. induction t as [a|x cls fs IH] using gtree_ind'; [reflexivity|].
  unfold fresh_of. cbn [gmap]. rewrite inst_G. rewrite map_map.
  rewrite (sequence_map_some _ _ _ (fun fl => fl)).
  - now rewrite map_id.
  - eapply Forall_impl; [|exact IH]. intros [[f k] ks] Hks. cbn [snd fst] in *.
    unfold inst_field, inst_kids. cbn [snd fst]. rewrite map_map.
    rewrite (sequence_map_some _ _ _ (fun t => t)); [now rewrite map_id|exact Hks].
Qed.

Lemma sequence_map_ext_in : forall A B (f g : A -> option B) l,
  Forall (fun x => f x = g x) l -> sequence (map f l) = sequence (map g l).
Proof. intros A B f g l H. induction H as [|x l Hx _ IH]; [reflexivity|]. cbn [map sequence]. now rewrite Hx, IH. Qed.

Lemma inst_ref_free : forall rho rho' it, ref_free it = true -> inst rho it = inst rho' it.
Proof.
  intros rho rho' it. induction it as [a|x cls fs IH] using gtree_ind'; intros H; [reflexivity|].
  destruct x as [s|at_]; [discriminate|]. cbn [ref_free] in H. rewrite forallb_forall in H.
  rewrite !inst_G. erewrite sequence_map_ext_in; [reflexivity|].
  rewrite Forall_forall in *. intros fl Hin. specialize (IH fl Hin). specialize (H fl Hin).
  rewrite forallb_forall in H. unfold inst_field, inst_kids.
  erewrite sequence_map_ext_in; [reflexivity|].
  rewrite Forall_forall in *. intros k Hk. apply IH; auto.
Qed.

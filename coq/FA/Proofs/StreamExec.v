(* C12: executors run only at value calls, exactly once, on the right executor, with remove_empty of the
   stream's own dump and the title; every call gets the result of its own Finish event under every
   interleaving; the dataset root (and its executor) is recoverable from every derived stream; ASTs with no
   root or several roots are rejected by the finder. *)
From Coq Require Import String List Arith Bool Lia.
From FA.Gen Require Import TablesStream.
From FA.Model Require Import Heap Stream.
From FA.Proofs Require Import HeapFacts StreamFrame StreamWalk StreamParam StreamErase.
Import ListNotations.
Open Scope list_scope.
Open Scope nat_scope.

Definition is_value_start (o : op) : bool := match o with ValueStart _ _ _ => true | _ => false end.

(* ---------------------------------------------------------------- the log *)
Theorem no_exec_while_building : forall st o st' out,
  step st o = (st', out) -> is_value_start o = false -> log st' = log st /\ calls st' = calls st \/
                                                     (exists c r, o = ValueFinish c r) /\ log st' = log st.
Proof.
  intros st o st' out H Hv.
  assert (Hsame : forall x, (st, x) = (st', out) -> log st' = log st /\ calls st' = calls st).
  { intros x Hx. inversion Hx; subst. split; reflexivity. }
  assert (Hadd : forall h x n, add_stream st h x n = (st', out) -> log st' = log st /\ calls st' = calls st).
  { intros h x n Ha. unfold add_stream in Ha. inversion Ha; subst. split; reflexivity. }
  destruct o as [ty|t ty|s k lam cb rty|s lit|s kvs|s m lits|s ov title|c r]; try discriminate;
    try (left; cbn [step] in H;
         match type of H with
         | context [build st ?o] =>
             destruct (build st o) as [[it ty']|e]; [|now apply (Hsame _ H)];
             destruct (alloc (map root (streams st)) it (heap_ st)) as [[h' [a|a]]|e];
             [now apply (Hadd _ _ _ H)|now apply (Hsame _ H)|now apply (Hsame _ H)]
         end).
  - left. cbn [step] in H. destruct (nth_error (streams st) s) as [ps|]; [|now apply (Hsame _ H)].
    destruct (unfold (heap_ st) (root ps)) as [t|]; [|now apply (Hsame _ H)].
    destruct (hget (heap_ st) (root ps)) as [base|]; [|now apply (Hsame _ H)].
    destruct (qmd_added t kvs); [now apply (Hadd _ _ _ H)|].
    destruct (hcopy (heap_ st) (root ps)) as [[h1 c]|]; [now apply (Hadd _ _ _ H)|now apply (Hsame _ H)].
  - cbn [step] in H. destruct (nth_error (calls st) c) as [[r0|]|]; try (left; now apply (Hsame _ H)).
    right. inversion H; subst. split; [eauto|reflexivity].
Qed.

(* value_async up to its await: one log entry - the override if given, else the executor found along args[0];
   remove_empty of the stream's own dump; the title - or an error and nothing else *)
Theorem value_routes_once : forall st s ov title st' out ps t,
  nth_error (streams st) s = Some ps -> unfold (heap_ st) (root ps) = Some t ->
  step st (ValueStart s ov title) = (st', out) ->
  abs (heap_ st) (root ps) = Some (erase t) /\
  match (match ov with Some k => Ok (EOv k) | None => exec_walk t end), clean (erase t) with
  | Ok exe, Ok ast =>
      log st' = log st ++ [(exe, Some ast, title)] /\ out = OCall (length (calls st)) /\
      calls st' = calls st ++ [None] /\ streams st' = streams st /\ heap_ext (heap_ st) (heap_ st')
  | Err e, _ => st' = st /\ out = OErr e
  | Ok _, Err e => st' = st /\ out = OErr e
  end.
Proof.
  intros st s ov title st' out ps t Es Ht H. split; [unfold abs; now rewrite Ht|].
  cbn [step] in H. rewrite Es, Ht in H.
  destruct (match ov with Some k => Ok (EOv k) | None => exec_walk t end) as [exe|e].
  2:{ inversion H; subst. split; reflexivity. }
  pose proof (remove_empty_h_spec _ _ _ Ht) as Hc. rewrite clean_erase.
  destruct (clean t) as [ct|e]; cbn [res_map].
  - destruct Hc as (h' & v & Hre & Hx & Hu). rewrite Hre in H. inversion H; subst st' out; clear H.
    cbn [log calls streams heap_]. unfold abs_v. rewrite Hu. cbn [option_map]. repeat split; assumption || reflexivity.
  - rewrite Hc in H. inversion H; subst. split; reflexivity.
Qed.

(* ---------------------------------------------------------------- results *)
Lemma nth_error_set_nth_same : forall A (l : list A) n x, n < length l -> nth_error (set_nth l n x) n = Some x.
Proof. induction l as [|y l IH]; intros [|n] x H; cbn in *; try lia; [reflexivity|apply IH; lia]. Qed.

Lemma nth_error_set_nth_other : forall A (l : list A) n m x, n <> m -> nth_error (set_nth l n x) m = nth_error l m.
Proof.
  induction l as [|y l IH]; intros [|n] [|m] x H; cbn; try reflexivity; try congruence. apply IH. congruence.
Qed.

Lemma set_nth_length : forall A (l : list A) n x, length (set_nth l n x) = length l.
Proof. induction l as [|y l IH]; intros [|n] x; cbn; try reflexivity. now rewrite IH. Qed.

(* a step changes the slot of no call that has its result, and of no other call *)
Lemma step_calls : forall st o st' out, step st o = (st', out) ->
  forall c, (forall r, o = ValueFinish c r -> nth_error (calls st) c <> Some None) ->
    c < length (calls st) -> nth_error (calls st') c = nth_error (calls st) c.
Proof.
  intros st o st' out H c Hc Hlt.
  destruct (is_value_start o) eqn:Ev.
  - destruct o; try discriminate. cbn [step] in H.
    destruct (nth_error (streams st) s) as [ps|]; [|inversion H; subst; reflexivity].
    destruct (unfold (heap_ st) (root ps)) as [t|]; [|inversion H; subst; reflexivity].
    destruct (match ov with Some k => Ok (EOv k) | None => exec_walk t end); [|inversion H; subst; reflexivity].
    destruct (remove_empty_h (heap_ st) (root ps)) as [[h' v]|]; inversion H; subst; [|reflexivity].
    cbn [calls]. now rewrite nth_error_app1.
  - destruct (no_exec_while_building st o st' out H Ev) as [[_ Hcalls]|[[c0 [r0 ->]] _]]; [now rewrite Hcalls|].
    cbn [step] in H. destruct (nth_error (calls st) c0) as [[r1|]|] eqn:E0; try (inversion H; subst; reflexivity).
    inversion H; subst st' out; clear H. cbn [calls].
    destruct (Nat.eq_dec c0 c) as [->|Hne]; [|now apply nth_error_set_nth_other].
    exfalso. now apply (Hc r0 eq_refl).
Qed.

Lemma step_calls_length : forall st o st' out, step st o = (st', out) -> length (calls st) <= length (calls st').
Proof.
  intros st o st' out H. destruct (is_value_start o) eqn:Ev.
  - destruct o; try discriminate. cbn [step] in H.
    destruct (nth_error (streams st) s) as [ps|]; [|inversion H; subst; lia].
    destruct (unfold (heap_ st) (root ps)) as [t|]; [|inversion H; subst; lia].
    destruct (match ov with Some k => Ok (EOv k) | None => exec_walk t end); [|inversion H; subst; lia].
    destruct (remove_empty_h (heap_ st) (root ps)) as [[h' v]|]; inversion H; subst; [|lia].
    cbn [calls]. rewrite app_length. lia.
  - destruct (no_exec_while_building st o st' out H Ev) as [[_ Hcalls]|[[c0 [r0 ->]] _]]; [rewrite Hcalls; lia|].
    cbn [step] in H. destruct (nth_error (calls st) c0) as [[r1|]|]; inversion H; subst; try lia.
    cbn [calls]. rewrite set_nth_length. lia.
Qed.

(* once delivered, a result stays, whatever runs afterwards *)
Lemma run_from_result_stays : forall ops st c r, nth_error (calls st) c = Some (Some r) ->
  nth_error (calls (fst (run_from st ops))) c = Some (Some r).
Proof.
  induction ops as [|o rest IH]; intros st c r H; [exact H|].
  cbn [run_from]. destruct (step st o) as [st1 o1] eqn:E1. specialize (IH st1 c r).
  destruct (run_from st1 rest) as [st2 os2]. cbn [fst] in *. apply IH.
  rewrite (step_calls st o st1 o1 E1 c); [exact H| |].
  - intros r0 _. rewrite H. discriminate.
  - apply nth_error_Some. rewrite H. discriminate.
Qed.

(* the Finish event of a pending call delivers its result to that call, for every continuation *)
Theorem value_returns_own : forall pre post c r,
  nth_error (calls (run pre)) c = Some None ->
  result_of (run (pre ++ ValueFinish c r :: post)) c = Some r.
Proof.
  intros pre post c r Hp. unfold run in *. rewrite run_from_app. cbn [fst].
  set (st := fst (run_from init pre)) in *. cbn [run_from]. cbn [step]. rewrite Hp.
  match goal with |- context [run_from ?s post] => pose proof (run_from_result_stays post s c r) as Hs end.
  destruct (run_from _ post) as [st2 os2]. cbn [fst] in *. unfold result_of. rewrite Hs; [reflexivity|].
  cbn [calls]. apply nth_error_set_nth_same. apply nth_error_Some. rewrite Hp. discriminate.
Qed.

(* and it touches no other call *)
Theorem finish_only_own : forall st c r st' out c', step st (ValueFinish c r) = (st', out) -> c' <> c ->
  result_of st' c' = result_of st c'.
Proof.
  intros st c r st' out c' H Hne. unfold result_of. cbn [step] in H.
  destruct (nth_error (calls st) c) as [[r1|]|]; inversion H; subst; try reflexivity.
  cbn [calls]. rewrite nth_error_set_nth_other by congruence. reflexivity.
Qed.

(* a call has a result only if the history contains the Finish event carrying it *)
Lemma run_from_result_origin : forall ops st c r,
  result_of (fst (run_from st ops)) c = Some r -> result_of st c = Some r \/ In (ValueFinish c r) ops.
Proof.
  induction ops as [|o rest IH]; intros st c r H; [now left|].
  cbn [run_from] in H. destruct (step st o) as [st1 o1] eqn:E1. specialize (IH st1 c r).
  destruct (run_from st1 rest) as [st2 os2]. cbn [fst] in *. destruct (IH H) as [H1|H1]; [|right; now right].
  clear IH H. unfold result_of in *.
  destruct (is_value_start o) eqn:Ev.
  - left. destruct o; try discriminate. cbn [step] in E1.
    destruct (nth_error (streams st) s) as [ps|]; [|inversion E1; subst; exact H1].
    destruct (unfold (heap_ st) (root ps)) as [t|]; [|inversion E1; subst; exact H1].
    destruct (match ov with Some k => Ok (EOv k) | None => exec_walk t end); [|inversion E1; subst; exact H1].
    destruct (remove_empty_h (heap_ st) (root ps)) as [[h' v]|]; inversion E1; subst; [|exact H1].
    cbn [calls] in H1. destruct (Nat.lt_ge_cases c (length (calls st))) as [Hlt|Hge].
    + now rewrite nth_error_app1 in H1.
    + rewrite nth_error_app2 in H1 by exact Hge. destruct (c - length (calls st)) as [|[|m]]; discriminate.
  - destruct (no_exec_while_building st o st1 o1 E1 Ev) as [[_ Hcalls]|[[c0 [r0 ->]] _]]; [left; now rewrite <- Hcalls|].
    cbn [step] in E1. destruct (nth_error (calls st) c0) as [[r1|]|] eqn:E0; try (inversion E1; subst; now left).
    inversion E1; subst st1 o1; clear E1. cbn [calls] in H1.
    destruct (Nat.eq_dec c0 c) as [->|Hne].
    + rewrite nth_error_set_nth_same in H1 by (apply nth_error_Some; rewrite E0; discriminate).
      inversion H1; subst. right. now left.
    + rewrite nth_error_set_nth_other in H1 by exact Hne. now left.
Qed.

Theorem result_has_finish : forall ops c r, result_of (run ops) c = Some r -> In (ValueFinish c r) ops.
Proof.
  intros ops c r H. destruct (run_from_result_origin ops init c r H) as [H1|H1]; [|exact H1].
  unfold result_of in H1. destruct c; discriminate.
Qed.

(* ---------------------------------------------------------------- find_EventDataset on trees *)
Definition level {X} (st : res (option (gtree X))) : nat :=
  match st with Ok None => 0 | Ok (Some _) => 1 | Err _ => 2 end.
Definition many_only {X} (st : res (option (gtree X))) : Prop :=
  match st with Err e => e = EManyRoots | Ok _ => True end.

Definition fr_kids {X} (ks : list (gtree X)) st := fold_left (fun acc kid => fr_walk kid acc) ks st.
Definition fr_fields {X} (fs : list (string * fkind * list (gtree X))) st := fold_left (fun acc fl => fr_kids (snd fl) acc) fs st.
Definition cnt_kids {X} (ks : list (gtree X)) n := fold_left (fun acc kid => acc + count_roots kid) ks n.
Definition cnt_fields {X} (fs : list (string * fkind * list (gtree X))) n := fold_left (fun acc fl => cnt_kids (snd fl) acc) fs n.

Lemma fr_walk_G : forall X (x : X) cls fs st,
  fr_walk (G x cls fs) st =
  match st with
  | Err e => Err e
  | Ok ds => if String.eqb cls "Call" && func_is fs "EventDataset"
             then match ds with Some _ => Err EManyRoots | None => Ok (Some (G x cls fs)) end
             else fr_fields fs st
  end.
Proof. intros. destruct st; reflexivity. Qed.

Lemma count_roots_G : forall X (x : X) cls fs,
  count_roots (G x cls fs) = if String.eqb cls "Call" && func_is fs "EventDataset" then 1 else cnt_fields fs 0.
Proof. reflexivity. Qed.

Lemma cnt_kids_acc : forall X (ks : list (gtree X)) n, cnt_kids ks n = n + cnt_kids ks 0.
Proof.
  intros X ks. induction ks as [|k r IH]; intros n; [cbn; lia|].
  unfold cnt_kids in *. cbn [fold_left]. rewrite (IH (n + count_roots k)), (IH (0 + count_roots k)). lia.
Qed.

Lemma cnt_fields_acc : forall X (fs : list (string * fkind * list (gtree X))) n, cnt_fields fs n = n + cnt_fields fs 0.
Proof.
  intros X fs. induction fs as [|fl r IH]; intros n; [cbn; lia|].
  unfold cnt_fields in *. cbn [fold_left]. rewrite (IH (cnt_kids (snd fl) n)), (IH (cnt_kids (snd fl) 0)).
  rewrite (cnt_kids_acc _ (snd fl) n). lia.
Qed.

Definition fr_good {X} (t : gtree X) : Prop :=
  forall st, many_only st -> many_only (fr_walk t st) /\ level (fr_walk t st) = Nat.min 2 (level st + count_roots t).

Lemma fr_walk_level : forall X (t : gtree X), fr_good t.
Proof.
  intros X t. induction t as [a|x cls fs IH] using gtree_ind'; intros st Hm.
  - cbn [fr_walk count_roots]. destruct st as [[n|]|e]; cbn; auto.
  - rewrite fr_walk_G, count_roots_G. destruct st as [ds|e]; [|cbn in *; split; [exact Hm|reflexivity]].
    destruct (String.eqb cls "Call" && func_is fs "EventDataset").
    + destruct ds; cbn; auto.
    + assert (Hf : forall (fs0 : list (string * fkind * list (gtree X))) st0, Forall (fun fl => Forall fr_good (snd fl)) fs0 -> many_only st0 ->
                     many_only (fr_fields fs0 st0) /\ level (fr_fields fs0 st0) = Nat.min 2 (level st0 + cnt_fields fs0 0)).
      { clear. intros fs0 st0 H. revert st0. induction H as [|fl r Hfl _ IHr]; intros st0 Hm0.
        - cbn. split; [exact Hm0|]. destruct st0 as [[n|]|e]; reflexivity.
        - unfold fr_fields, cnt_fields in *. cbn [fold_left].
          assert (Hk : forall (ks : list (gtree X)) st1, Forall fr_good ks -> many_only st1 ->
                         many_only (fr_kids ks st1) /\ level (fr_kids ks st1) = Nat.min 2 (level st1 + cnt_kids ks 0)).
          { clear. intros ks st1 H. revert st1. induction H as [|k r Hk _ IHk]; intros st1 Hm1.
            - cbn. split; [exact Hm1|]. destruct st1 as [[n|]|e]; reflexivity.
            - unfold fr_kids, cnt_kids in *. cbn [fold_left]. destruct (Hk st1 Hm1) as [M1 L1].
              destruct (IHk _ M1) as [M2 L2]. split; [exact M2|]. rewrite L2, L1.
              fold (cnt_kids r (0 + count_roots k)). rewrite (cnt_kids_acc _ r (0 + count_roots k)).
              unfold cnt_kids. lia. }
          destruct (Hk (snd fl) st0 Hfl Hm0) as [M1 L1]. destruct (IHr _ M1) as [M2 L2].
          split; [exact M2|]. rewrite L2, L1.
          fold (cnt_fields r (cnt_kids (snd fl) 0)). rewrite (cnt_fields_acc _ r (cnt_kids (snd fl) 0)).
          unfold cnt_fields. lia. }
      apply Hf; [exact IH|exact Hm].
Qed.

(* queries with no root or several roots are rejected; exactly one root is found *)
Theorem bad_roots_rejected : forall X (t : gtree X),
  (count_roots t = 0 -> find_root t = Err ENoRoot) /\
  (count_roots t >= 2 -> find_root t = Err EManyRoots) /\
  (count_roots t = 1 -> exists n, find_root t = Ok n).
Proof.
  intros X t. destruct (fr_walk_level X t (Ok None) I) as [Hm Hl]. unfold find_root. cbn [level] in Hl.
  destruct (fr_walk t (Ok None)) as [[n|]|e]; cbn [level many_only] in Hl, Hm.
  - split; [intros Hc; lia|]. split; [intros Hc; lia|]. intros _. now exists n.
  - split; [reflexivity|]. split; intros Hc; lia.
  - rewrite Hm. split; [intros Hc; lia|]. split; [reflexivity|]. intros Hc. lia.
Qed.

(* the finder does not look at annotations *)
Lemma fr_walk_gmap : forall X Y (f : X -> Y) (t : gtree X) st,
  fr_walk (gmap f t) (res_map (option_map (gmap f)) st) = res_map (option_map (gmap f)) (fr_walk t st).
Proof.
  intros X Y f t. induction t as [a|x cls fs IH] using gtree_ind'; intros st.
  - destruct st as [[n|]|e]; reflexivity.
  - rewrite gmap_G, !fr_walk_G. destruct st as [ds|e]; [|reflexivity]. cbn [res_map]. rewrite func_is_gmap.
    destruct (String.eqb cls "Call" && func_is fs "EventDataset").
    + destruct ds; reflexivity.
    + change (Ok (option_map (gmap f) ds)) with (res_map (option_map (gmap f)) (Ok ds)).
      generalize (Ok ds : res (option (gtree X))). clear ds.
      induction IH as [|fl r Hfl _ IHr]; intros st0; [reflexivity|].
      unfold fr_fields in *. cbn [map fold_left]. rewrite <- IHr. f_equal. cbn [fmapF snd]. clear IHr.
      revert st0. induction Hfl as [|k kr Hk _ IHk]; intros st0; [reflexivity|].
      unfold fr_kids in *. cbn [map fold_left]. rewrite <- IHk. f_equal. apply Hk.
Qed.

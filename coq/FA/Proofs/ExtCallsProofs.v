(* C17, structural half: the method-form -> function-form pass is exact, complete and idempotent.
   Everything is proved for an arbitrary list [ops] of operator names (the [function_names]
   parameter of the code); Properties/C17.v instantiates it with the generated default list. *)
From FA.Base Require Import PyAst Induct Value Traverse.
From FA.Model Require Import ExtCalls.
From FA.Proofs Require Import TraverseFacts Refine EvalCong TraverseTFacts.
From Coq Require Import Lia.

Section Ops.
  Variable ops : list string.
  Notation ext := (ext_with ops).
  Notation is_op := (in_names ops).

  (* ---------- what the property says ---------- *)

  (* a method-form operator call [v.op(args…)] *)
  Definition is_meth_op (e : expr) : bool :=
    match e with
    | Call (Attr _ m) _ _ _ => is_op m
    | _ => false
    end.

  (* the pass as a relation: exactly the method-form operator calls are rewritten, to
     [op(v', args'…, keywords')] ; every other node (all node classes, [Other] included) is
     rebuilt unchanged around its related children *)
  Inductive ext_spec : expr -> expr -> Prop :=
   | ES_rewrite v v' m args args' kwn kwv kwv' :
       is_op m = true -> ext_spec v v' -> Forall2 ext_spec args args' -> Forall2 ext_spec kwv kwv' ->
       ext_spec (Call (Attr v m) args kwn kwv) (Call (Name m) (v' :: args') kwn kwv')
   | ES_cong e cs' :
       is_meth_op e = false -> Forall2 ext_spec (children e) cs' ->
       ext_spec e (rebuild e cs').

  Inductive no_method_form : expr -> Prop :=
   | NM e : is_meth_op e = false -> Forall no_method_form (children e) -> no_method_form e.

  (* ---------- the code's own shape: generic_visit, then the test on the visited node ---------- *)

  Definition post (n : expr) : expr :=
    match n with
    | Call (Attr v m) args kwn kwv => if is_op m then Call (Name m) (v :: args) kwn kwv else n
    | _ => n
    end.

  Lemma ext_unfold e : ext e = post (map_children_t ext e).
  Proof.
    destruct e; reflexivity.
  Qed.

  Lemma ext_attr_inv e v m : ext e = Attr v m -> exists v0, e = Attr v0 m /\ v = ext v0.
  Proof.
    destruct e; cbn [ext_with map_children_t]; intros H; try discriminate.
    - inversion H; subst. eauto.
    - destruct (ext e); try discriminate. destruct (is_op a); discriminate.
  Qed.

  Lemma ext_attr v m : ext (Attr v m) = Attr (ext v) m.
  Proof. reflexivity. Qed.

  Lemma ext_rewrite v m args kwn kwv :
    is_op m = true ->
    ext (Call (Attr v m) args kwn kwv) = Call (Name m) (ext v :: map ext args) kwn (map ext kwv).
  Proof. intros H. cbn [ext_with map_children_t]. rewrite H. reflexivity. Qed.

  Lemma ext_generic e : is_meth_op e = false -> ext e = map_children_t ext e.
  Proof.
    intros H. rewrite ext_unfold. destruct e; try reflexivity.
    cbn [map_children_t post]. destruct (ext e) eqn:Hf; try reflexivity.
    apply ext_attr_inv in Hf. destruct Hf as [v0 [-> _]]. simpl in H. rewrite H. reflexivity.
  Qed.

  Lemma is_meth_op_cases e :
    (exists v m args kwn kwv, e = Call (Attr v m) args kwn kwv /\ is_op m = true) \/ is_meth_op e = false.
  Proof.
    destruct e; try (right; reflexivity). destruct e; try (right; reflexivity).
    simpl. destruct (is_op a) eqn:H; [left; eauto 10 | right; reflexivity].
  Qed.

  (* ---------- exactness ---------- *)

  Lemma Forall_Forall2_map (R : expr -> expr -> Prop) (f : expr -> expr) l :
    Forall (fun x => R x (f x)) l -> Forall2 R l (map f l).
  Proof. induction 1; simpl; constructor; assumption. Qed.

  Theorem ext_sound : forall e, ext_spec e (ext e).
  Proof.
    induction e as [e IH] using expr_size_ind.
    destruct (is_meth_op_cases e) as [(v & m & args & kwn & kwv & -> & Hm) | Hn].
    - rewrite ext_rewrite by assumption. apply ES_rewrite; [assumption | | |].
      + apply IH. rewrite size_call, size_attr. lia.
      + apply Forall_Forall2_map. apply Forall_forall. intros a Ha. apply IH.
        rewrite size_call. apply sizes_in in Ha. lia.
      + apply Forall_Forall2_map. apply Forall_forall. intros a Ha. apply IH.
        rewrite size_call. apply sizes_in in Ha. lia.
    - rewrite ext_generic by assumption. rewrite map_children_t_rebuild.
      apply ES_cong; [assumption|]. apply Forall_Forall2_map.
      apply Forall_children_size. exact IH.
  Qed.

  Lemma Forall2_map_eq (R : expr -> expr -> Prop) (f : expr -> expr) l l' :
    Forall (fun x => forall y, R x y -> f x = y) l -> Forall2 R l l' -> map f l = l'.
  Proof.
    intros HF H2. revert HF. induction H2 as [|x y l l' Hxy _ IH]; intros HF; [reflexivity|].
    inversion HF; subst. simpl. f_equal; auto.
  Qed.

  Theorem ext_spec_fun : forall e e', ext_spec e e' -> ext e = e'.
  Proof.
    induction e as [e IH] using expr_size_ind. intros e' Hs. inversion Hs; subst.
    - rewrite ext_rewrite by assumption. f_equal; [f_equal|].
      + apply IH; [|assumption]. rewrite size_call, size_attr. lia.
      + eapply Forall2_map_eq; [|eassumption]. apply Forall_forall. intros a Ha y Hy.
        apply IH; [|assumption]. rewrite size_call. apply sizes_in in Ha. lia.
      + eapply Forall2_map_eq; [|eassumption]. apply Forall_forall. intros a Ha y Hy.
        apply IH; [|assumption]. rewrite size_call. apply sizes_in in Ha. lia.
    - rewrite ext_generic by assumption. rewrite map_children_t_rebuild. f_equal.
      eapply Forall2_map_eq; [|eassumption].
      apply Forall_children_size. exact IH.
  Qed.

  Theorem ext_exact : forall e e', ext e = e' <-> ext_spec e e'.
  Proof. intros e e'; split; [intros <-; apply ext_sound | apply ext_spec_fun]. Qed.

  (* ---------- completeness ---------- *)

  Lemma is_meth_op_map_children_t e :
    is_meth_op e = false -> is_meth_op (map_children_t ext e) = false.
  Proof.
    intros H. destruct e; try reflexivity. cbn [map_children_t is_meth_op].
    destruct (ext e) eqn:Hf; try reflexivity.
    apply ext_attr_inv in Hf. destruct Hf as [v0 [-> _]]. exact H.
  Qed.

  Theorem ext_complete : forall e, no_method_form (ext e).
  Proof.
    induction e as [e IH] using expr_size_ind.
    destruct (is_meth_op_cases e) as [(v & m & args & kwn & kwv & -> & Hm) | Hn].
    - rewrite ext_rewrite by assumption. constructor; [reflexivity|].
      cbn [children].
      constructor; [constructor; [reflexivity | constructor]|].
      apply Forall_app. split.
      + constructor; [apply IH; rewrite size_call, size_attr; lia|].
        apply Forall_forall. intros a' Ha'. apply in_map_iff in Ha'. destruct Ha' as [a [<- Ha]].
        apply IH. rewrite size_call. apply sizes_in in Ha. lia.
      + apply Forall_forall. intros a' Ha'. apply in_map_iff in Ha'. destruct Ha' as [a [<- Ha]].
        apply IH. rewrite size_call. apply sizes_in in Ha. lia.
    - rewrite ext_generic by assumption. constructor.
      + apply is_meth_op_map_children_t; assumption.
      + rewrite children_map_children_t. apply Forall_forall. intros c' Hc'.
        apply in_map_iff in Hc'. destruct Hc' as [c [<- Hc]]. apply IH. apply size_child; assumption.
  Qed.

  (* a tree without method-form operator calls is a fixed point *)
  Lemma ext_fix : forall e, no_method_form e -> ext e = e.
  Proof.
    induction e as [e IH] using expr_size_ind. intros Hn. inversion Hn as [e0 Hm Hc]; subst.
    rewrite ext_generic by assumption. apply map_children_t_id.
    rewrite Forall_forall in *. intros c Hcin. apply IH; [apply size_child; assumption | auto].
  Qed.

  Theorem ext_idem : forall e, ext (ext e) = ext e.
  Proof. intros e. apply ext_fix. apply ext_complete. Qed.

  (* nothing to do = nothing changes *)
  Theorem ext_spec_refl_iff : forall e, ext e = e <-> no_method_form e.
  Proof. intros e; split; [intros <-; apply ext_complete | apply ext_fix]. Qed.

End Ops.

(* Congruence of the reference semantics under refinement.

   For a tree transformer [T : expr -> option expr] that treats every non-[Call] node by
   [generic_visit] ([T e = map_children T e]), semantic preservation of the whole pass reduces
   to semantic preservation at the [Call] nodes it rewrites; every node it treats generically
   (including [Call] nodes it leaves alone) preserves meaning as soon as its sub-terms do.
   This is the shared engine of agg_sem (C19), ext_sem (C17) and sugar_sem (C06). *)
From FA.Base Require Import PyAst Induct Value Eval Traverse.
From FA.Proofs Require Import TraverseFacts Refine.
From Coq Require Import Lia.

Definition is_call (e : expr) : bool := match e with Call _ _ _ _ => true | _ => false end.

Fixpoint sizes (l : list expr) : nat := match l with [] => 0 | x :: xs => size x + sizes xs end.

Lemma size_sizes e :
  size e = S (sizes (children e)).
Proof.
  assert (Hs : forall l, (fix sizes (l : list expr) : nat :=
                            match l with [] => 0 | x :: xs => size x + sizes xs end) l = sizes l).
  { induction l; simpl; auto. }
  assert (Happ : forall l1 l2, sizes (l1 ++ l2) = sizes l1 + sizes l2).
  { induction l1; simpl; intros; auto. rewrite IHl1; lia. }
  destruct e; simpl; rewrite ?Hs; try rewrite (Hs kwv); try rewrite (Hs vs); rewrite ?Happ; simpl; lia.
Qed.

Lemma sizes_in a l : In a l -> size a <= sizes l.
Proof. induction l; simpl; intros H; [contradiction|]. destruct H as [->|H]; [lia|]. apply IHl in H; lia. Qed.

Lemma size_child e c : In c (children e) -> size c < size e.
Proof. intros H. rewrite (size_sizes e). apply sizes_in in H. lia. Qed.

Lemma size_pos e : 0 < size e.
Proof. rewrite size_sizes; lia. Qed.

Section Cong.
  Variable B : backend.
  Variable ops : list string.
  Variable T : expr -> option expr.

  Notation ev := (eval B ops).

  Definition sem_ok (e : expr) : Prop :=
    forall e', T e = Some e' -> forall E, refines (ev E e) (ev E e').

  Hypothesis T_generic : forall e, is_call e = false -> T e = map_children T e.

  Lemma T_name x : T (Name x) = Some (Name x).
  Proof. rewrite T_generic by reflexivity. reflexivity. Qed.

  (* lists of sub-terms, transformed pointwise *)
  Lemma omap_T_Forall2 l l' :
    omap T l = Some l' -> Forall2 (fun a a' => T a = Some a') l l'.
  Proof.
    revert l'; induction l as [|x xs IH]; intros l' H.
    - apply omap_nil_some in H; subst; constructor.
    - apply omap_cons_some in H. destruct H as (y & r & Hy & Hr & ->). constructor; auto.
  Qed.

  Lemma evals_refine n l l' :
    (forall e0, size e0 < n -> sem_ok e0) -> sizes l < n ->
    omap T l = Some l' ->
    forall E, Forall2 (fun a a' => refines (ev E a) (ev E a')) l l'.
  Proof.
    intros IH Hn H E. apply omap_T_Forall2 in H.
    induction H as [|a a' l l' Ha _ IHl]; constructor.
    - apply IH; [simpl in Hn; lia | assumption].
    - apply IHl. simpl in Hn; lia.
  Qed.

  Lemma view_refines n a a' :
    (forall e0, size e0 < n -> sem_ok e0) -> size a < n ->
    T a = Some a' -> forall E, aview_refines (view B ops E a) (view B ops E a').
  Proof.
    intros IH Hn Ha E.
    destruct (is_call a) eqn:Hc.
    - (* a call: not a lambda, so only its value view is defined *)
      destruct a; try discriminate. unfold view, mk_view. split; [|split].
      + cbn [av_val]. apply IH; assumption.
      + intros f Hf; discriminate.
      + intros f Hf; discriminate.
    - rewrite T_generic in Ha by assumption.
      destruct a; try discriminate; unfold view, mk_view;
        try (split; [cbn [av_val]; apply IH; [assumption | rewrite T_generic by reflexivity; assumption]
                    | split; intros f Hf; discriminate]).
      (* Lambda *)
      simpl in Ha. apply obind_some in Ha. destruct Ha as [b' [Hb Ha]]. inversion Ha; subst.
      assert (Hsb : size a < n) by (simpl in Hn; lia).
      split; [|split].
      + cbn [av_val]. apply refines_none.
      + cbn [av_f1]. intros f Hf. destruct ps as [|x [|y ps]]; try discriminate.
        inversion Hf; subst. eexists; split; [reflexivity|].
        intros v. apply IH; assumption.
      + cbn [av_f2]. intros f Hf. destruct ps as [|x [|y [|z ps]]]; try discriminate.
        inversion Hf; subst. eexists; split; [reflexivity|].
        intros v w. apply IH; assumption.
  Qed.

  Lemma views_refine n l l' :
    (forall e0, size e0 < n -> sem_ok e0) -> sizes l < n ->
    omap T l = Some l' ->
    forall E, Forall2 aview_refines (map (view B ops E) l) (map (view B ops E) l').
  Proof.
    intros IH Hn H E. apply omap_T_Forall2 in H.
    induction H as [|a a' l l' Ha _ IHl]; simpl; constructor.
    - eapply view_refines; try eassumption. simpl in Hn; lia.
    - apply IHl. simpl in Hn; lia.
  Qed.

  Lemma boolop_refines o (f f' : expr -> option value) l l' :
    Forall2 (fun a a' => refines (f a) (f' a')) l l' ->
    refines (boolop_sem o f l) (boolop_sem o f' l').
  Proof.
    induction 1 as [|a a' l l' Ha Hl IH]; [apply refines_refl|].
    simpl. destruct Hl as [|b b' l l' Hb Hl]; [assumption|].
    apply obind_refines; [assumption|]. intros v.
    destruct o; destruct (truthy v); try apply refines_refl; exact IH.
  Qed.

  Lemma compare_refines (f f' : expr -> option value) l l' :
    Forall2 (fun a a' => refines (f a) (f' a')) l l' ->
    forall prev cops, refines (compare_sem f prev cops l) (compare_sem f' prev cops l').
  Proof.
    induction 1 as [|a a' l l' Ha Hl IH]; intros prev cops; [apply refines_refl|].
    simpl. destruct cops as [|o cops]; [apply refines_refl|].
    apply obind_refines; [assumption|]. intros rv.
    apply obind_refines_r. intros b. destruct b; [apply IH | apply refines_refl].
  Qed.

  Lemma conds_refines (f f' : expr -> option value) l l' :
    Forall2 (fun a a' => refines (f a) (f' a')) l l' ->
    refines (conds_sem f l) (conds_sem f' l').
  Proof.
    induction 1 as [|a a' l l' Ha Hl IH]; [apply refines_refl|].
    simpl. apply obind_refines; [assumption|]. intros cv.
    destruct (truthy cv); [exact IH | apply refines_refl].
  Qed.

  Lemma comp_case n elt elt' gs gs' E :
    (forall e0, size e0 < n -> sem_ok e0) -> size elt + sizes gs < n ->
    T elt = Some elt' -> omap T gs = Some gs' ->
    refines (comp_sem ev E elt gs) (comp_sem ev E elt' gs').
  Proof.
    intros IH Hn Helt Hgs. unfold comp_sem.
    destruct gs as [|g gs]; [apply refines_none|].
    destruct g; try apply refines_none.
    destruct g1; try apply refines_none.
    destruct is_async; [apply refines_none|].
    destruct gs; [|apply refines_none].
    apply omap_cons_some in Hgs. destruct Hgs as (g' & r & Hg & Hr & ->).
    apply omap_nil_some in Hr; subst.
    rewrite T_generic in Hg by reflexivity. simpl in Hg.
    apply obind_some in Hg. destruct Hg as [t' [Ht Hg]].
    apply obind_some in Hg. destruct Hg as [i' [Hi Hg]].
    apply obind_some in Hg. destruct Hg as [ifs' [Hifs Hg]]. inversion Hg; subst; clear Hg.
    rewrite T_name in Ht. inversion Ht; subst; clear Ht.
    cbn [sizes] in Hn. rewrite (size_sizes (CompFor _ _ _ _)) in Hn. cbn [children sizes] in Hn.
    apply obind_refines; [apply IH; [lia | assumption]|]. intros s.
    apply obind_refines_r. intros l.
    apply obind_refines.
    - apply ofilter_refines. intros v. apply conds_refines.
      eapply evals_refine; try eassumption. lia.
    - intros kept. apply option_map_refines. apply omap_refines. intros v.
      apply IH; [lia | assumption].
  Qed.

  (* The congruence step: a node handled by generic_visit preserves meaning if all smaller terms do. *)
  Theorem node_congruence e :
    (forall e0, size e0 < size e -> sem_ok e0) ->
    T e = map_children T e -> sem_ok e.
  Proof.
    intros IH Hgen e' He E. rewrite Hgen in He.
    pose proof (size_sizes e) as Hsz.
    destruct e; cbn [children] in Hsz; simpl in He;
      repeat match goal with
             | H : obind _ _ = Some _ |- _ =>
                 apply obind_some in H; let a := fresh "t" in let Ha := fresh "Ht" in destruct H as [a [Ha H]]
             end;
      try (inversion He; subst; clear He);
      try apply refines_refl; try apply refines_none.
    - (* Attr *)
      cbn [eval]. apply obind_refines_l. apply IH; [simpl in *; lia | assumption].
    - (* Call *)
      assert (Hsa : sizes args < size (Call e args kwn kwv)).
      { rewrite Hsz. assert (sizes (args ++ kwv) = sizes args + sizes kwv).
        { clear. induction args; simpl; auto. rewrite IHargs; lia. }
        simpl. lia. }
      assert (Hsk : sizes kwv < size (Call e args kwn kwv)).
      { rewrite Hsz. assert (sizes (args ++ kwv) = sizes args + sizes kwv).
        { clear. induction args; simpl; auto. rewrite IHargs; lia. }
        simpl. lia. }
      assert (Hse : size e < size (Call e args kwn kwv)) by (rewrite Hsz; simpl; lia).
      pose proof (evals_refine _ _ _ IH Hsa Ht0 E) as Hargs.
      pose proof (evals_refine _ _ _ IH Hsk Ht1 E) as Hkwv.
      pose proof (views_refine _ _ _ IH Hsa Ht0 E) as Hviews.
      cbn [eval].
      destruct kwn as [|k kwn].
      + (* no keywords *)
        destruct (is_call e) eqn:Hce.
        { destruct e; try discriminate Hce. apply refines_none. }
        rewrite T_generic in Ht by assumption.
        destruct e; try discriminate Hce; simpl in Ht;
          repeat match goal with
                 | H : obind _ _ = Some _ |- _ =>
                     apply obind_some in H; let a := fresh "u" in let Ha := fresh "Hu" in destruct H as [a [Ha H]]
                 end;
          inversion Ht; subst; clear Ht; try apply refines_none.
        * (* Name op *)
          destruct args as [|s rest].
          -- apply omap_nil_some in Ht0; subst. apply refines_refl.
          -- apply omap_cons_some in Ht0. destruct Ht0 as (s' & rest' & Hs & Hrest & ->).
             apply apply_op_refines.
             ++ apply IH; [simpl in *; lia | assumption].
             ++ eapply views_refine; try eassumption. simpl in *; lia.
        * (* Attr s m *)
          destruct (is_op ops a).
          -- apply apply_op_refines; [|assumption].
             apply IH; [simpl in *; lia | assumption].
          -- apply obind_refines; [apply IH; [simpl in *; lia | assumption]|]. intros r.
             apply obind_refines_l. apply omap_refines2. assumption.
        * (* Lambda ps b *)
          apply obind_refines; [apply omap_refines2; assumption|]. intros vs.
          apply obind_refines_r. intros E'. apply IH; [simpl in *; lia | assumption].
      + (* keywords *)
        apply obind_refines; [apply omap_refines2; assumption|]. intros vs.
        apply obind_refines; [apply omap_refines2; assumption|]. intros kvs.
        apply obind_refines_r. intros kws.
        destruct (is_call e) eqn:Hce.
        { destruct e; try discriminate Hce. apply refines_none. }
        rewrite T_generic in Ht by assumption.
        destruct e; try discriminate Hce; simpl in Ht;
          repeat match goal with
                 | H : obind _ _ = Some _ |- _ =>
                     apply obind_some in H; let a := fresh "u" in let Ha := fresh "Hu" in destruct H as [a [Ha H]]
                 end;
          inversion Ht; subst; clear Ht; try apply refines_none; try apply refines_refl.
        * apply obind_refines_l. apply IH; [simpl in *; lia | assumption].
        * apply obind_refines_r. intros E'. apply IH; [simpl in *; lia | assumption].
    - (* UnaryOp *)
      cbn [eval]. apply obind_refines_l. apply IH; [simpl in *; lia | assumption].
    - (* BinOp *)
      cbn [eval]. apply obind_refines; [apply IH; [simpl in *; lia | assumption]|]. intros a.
      apply obind_refines_l. apply IH; [simpl in *; lia | assumption].
    - (* BoolOp *)
      cbn [eval]. apply boolop_refines. eapply evals_refine; try eassumption. simpl in *; lia.
    - (* Compare *)
      cbn [eval]. apply obind_refines; [apply IH; [simpl in *; lia | assumption]|]. intros lv.
      apply compare_refines. eapply evals_refine; try eassumption. simpl in *; lia.
    - (* IfExp *)
      cbn [eval]. apply obind_refines; [apply IH; [simpl in *; lia | assumption]|]. intros cv.
      destruct (truthy cv); apply IH; first [simpl in *; lia | assumption].
    - (* Tuple *)
      cbn [eval]. apply option_map_refines. apply omap_refines2. eapply evals_refine; try eassumption. simpl in *; lia.
    - (* List *)
      cbn [eval]. apply option_map_refines. apply omap_refines2. eapply evals_refine; try eassumption. simpl in *; lia.
    - (* Dict *)
      cbn [eval].
      assert (sizes (ks ++ vs) = sizes ks + sizes vs).
      { clear. induction ks; simpl; auto. rewrite IHks; lia. }
      rewrite (omap_length _ _ _ Ht), (omap_length _ _ _ Ht0).
      destruct (Nat.eqb (length ks) (length vs)); [|apply refines_none].
      apply obind_refines; [apply omap_refines2; eapply evals_refine; try eassumption; simpl in *; lia|]. intros kvs.
      apply obind_refines_l. apply omap_refines2; eapply evals_refine; try eassumption; simpl in *; lia.
    - (* Subscript *)
      cbn [eval]. apply obind_refines; [apply IH; [simpl in *; lia | assumption]|]. intros a.
      apply obind_refines_l. apply IH; [simpl in *; lia | assumption].
    - (* ListComp *)
      cbn [eval]. eapply comp_case; try eassumption. simpl in *; lia.
    - (* GenExp *)
      cbn [eval]. eapply comp_case; try eassumption. simpl in *; lia.
  Qed.

  (* The whole pass preserves meaning as soon as its [Call] rule does (given smaller terms do). *)
  Theorem pass_refines :
    (forall e, is_call e = true -> (forall e0, size e0 < size e -> sem_ok e0) -> sem_ok e) ->
    forall e, sem_ok e.
  Proof.
    intros Hcall e.
    remember (size e) as n eqn:Hn. revert e Hn.
    induction n as [n IHn] using (well_founded_induction Wf_nat.lt_wf). intros e ->.
    assert (IH : forall e0, size e0 < size e -> sem_ok e0).
    { intros e0 H0. eapply IHn; [exact H0 | reflexivity]. }
    destruct (is_call e) eqn:Hc.
    - apply Hcall; assumption.
    - apply node_congruence; [assumption|]. apply T_generic; assumption.
  Qed.

End Cong.

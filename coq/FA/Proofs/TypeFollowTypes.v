(* C08: item types of the stream operators, and type-variable resolution through generic base classes. *)
From FA.Base Require Import PyAst Value Induct.
From FA.Gen Require Import TablesUtil TablesTypes.
From FA.Model Require Import TypeDefs TypeFollow.
From FA.Proofs Require Import TypeFollowFacts.

Section Ops.
  Variable W : world.

  (* Select gives the lambda's result type, SelectMany its element type, Where keeps the item type and refuses a
     filter whose type is not bool *)
  Lemma stream_item_types_x op G0 item p b lam t ev :
    stream_op W op G0 item (Lambda [p] b) = Ok (lam, t, ev) ->
    exists b' tb, follow W ((p, item) :: G0) b = Ok (b', tb, ev) /\ lam = Lambda [p] b' /\
      match op with
      | OpSelect => t = tb
      | OpSelectMany => t = unwrap_iterable (w_ct W) tb
      | OpWhere => t = item /\ tb = TBool
      | _ => False
      end.
  Proof.
    cbn [stream_op]. intros H. apply bind_ok in H. destruct H as ([[b' tb] ev'] & Hf & H).
    exists b', tb. unfold finish_op in H. destruct (negb (check_ast (Lambda [p] b'))); [discriminate|].
    destruct op; try discriminate; try (inversion H; subst; auto; fail).
    destruct (ty_eqb tb TBool) eqn:E; [|discriminate]. inversion H; subst. repeat split; auto.
    destruct tb; cbn in E; try discriminate. reflexivity.
  Qed.

  Lemma where_refuses_non_bool_x G0 item p b b' tb ev :
    follow W ((p, item) :: G0) b = Ok (b', tb, ev) -> check_ast (Lambda [p] b') = true -> tb <> TBool ->
    stream_op W OpWhere G0 item (Lambda [p] b) = Refuse RWhereNotBool.
  Proof.
    intros Hf Hc Hn. cbn [stream_op]. rewrite Hf. cbn [bind]. unfold finish_op. rewrite Hc. cbn [negb].
    destruct (ty_eqb tb TBool) eqn:E; [|reflexivity]. destruct tb; cbn in E; try discriminate. congruence.
  Qed.
End Ops.

(* int/float promotion of arithmetic *)
Lemma binop_promotion_x o :
  binop_type o TInt TInt = (match o with BDiv => TFloat | _ => TInt end) /\
  binop_type o TInt TFloat = TFloat /\ binop_type o TFloat TInt = TFloat /\ binop_type o TFloat TFloat = TFloat.
Proof. unfold binop_type. cbn. destruct o; repeat split; reflexivity. Qed.

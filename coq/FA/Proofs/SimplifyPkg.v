(* One-step behaviour of the simplifier model at literal projections and name uses (C14, C18):
   what a single visit does once its sub-terms have been visited. *)
From FA.Base Require Import PyAst Induct Value Traverse Names.
From FA.Model Require Import Simplify.
From FA.Proofs Require Import SimplifyFacts.
From Coq Require Import Lia.

(* package-free: no tuple/list/dict construction and no constant projection of anything *)
Fixpoint pkg_free (e : expr) {struct e} : bool :=
  let all := fix all (l : list expr) : bool :=
               match l with [] => true | y :: ys => pkg_free y && all ys end in
  match e with
  | Tuple _ | List _ | Dict _ _ => false
  | Subscript v (Const _) => false
  | Name _ | Const _ | Raw _ => true
  | Attr v _ => pkg_free v
  | Call f args _ kwv => pkg_free f && all args && all kwv
  | Lambda _ b => pkg_free b
  | UnaryOp _ a => pkg_free a
  | BinOp _ l r => pkg_free l && pkg_free r
  | BoolOp _ es => all es
  | Compare l _ rs => pkg_free l && all rs
  | IfExp c t f => pkg_free c && pkg_free t && pkg_free f
  | Subscript v i => pkg_free v && pkg_free i
  | ListComp a gs | GenExp a gs => pkg_free a && all gs
  | CompFor t i ifs _ => pkg_free t && pkg_free i && all ifs
  | Other _ _ cs => all cs
  end.

Section Steps.
  Variables (f : nat) (st : stack) (bd : list string).

  (* a name with a pending definition is replaced by it (this is how a packaged argument reaches
     every one of its uses); any other name is left alone *)
  Lemma name_step c x :
    simp (S f) st bd c (Name x) = match stack_lookup x st with Some v => Ok (v, c) | None => Ok (Name x, c) end.
  Proof. reflexivity. Qed.

  (* (e0, ..., en)[i] with a constant in-range index is replaced by e_i - for tuples and lists *)
  Lemma project_tuple_step c v s es n c1 c2 x :
    simp f st bd c v = Ok (Tuple es, c1) -> simp f st bd c1 s = Ok (Const (CInt n), c2) -> existsb is_starred es = false ->
    py_index es n = Some x -> (- Z.of_nat (length es) <= n < Z.of_nat (length es))%Z ->
    simp (S f) st bd c (Subscript v s) = Ok (x, c2).
  Proof.
    intros Hv Hs Hst Hx Hr. cbn [simp]. rewrite Hv. cbn [sbind]. rewrite Hs. cbn [sbind const_index norm_index]. rewrite Hst.
    unfold seq_project.
    replace ((n >=? Z.of_nat (length es)) || (n <? - Z.of_nat (length es)))%Z with false.
    - rewrite Hx. reflexivity.
    - symmetry. apply orb_false_iff. split; [rewrite Z.geb_leb; apply Z.leb_gt; lia | apply Z.ltb_ge; lia].
  Qed.

  Lemma project_list_step c v s es n c1 c2 x :
    simp f st bd c v = Ok (List es, c1) -> simp f st bd c1 s = Ok (Const (CInt n), c2) -> existsb is_starred es = false ->
    py_index es n = Some x -> (- Z.of_nat (length es) <= n < Z.of_nat (length es))%Z ->
    simp (S f) st bd c (Subscript v s) = Ok (x, c2).
  Proof.
    intros Hv Hs Hst Hx Hr. cbn [simp]. rewrite Hv. cbn [sbind]. rewrite Hs. cbn [sbind const_index norm_index]. rewrite Hst.
    unfold seq_project.
    replace ((n >=? Z.of_nat (length es)) || (n <? - Z.of_nat (length es)))%Z with false.
    - rewrite Hx. reflexivity.
    - symmetry. apply orb_false_iff. split; [rewrite Z.geb_leb; apply Z.leb_gt; lia | apply Z.ltb_ge; lia].
  Qed.

  (* the dedicated index error: exactly a constant index outside the literal *)
  Lemma project_out_of_range_step c v s es n c1 c2 :
    simp f st bd c v = Ok (Tuple es, c1) \/ simp f st bd c v = Ok (List es, c1) ->
    simp f st bd c1 s = Ok (Const (CInt n), c2) -> existsb is_starred es = false ->
    (n >= Z.of_nat (length es) \/ n < - Z.of_nat (length es))%Z ->
    simp (S f) st bd c (Subscript v s) = IndexErr.
  Proof.
    intros Hv Hs Hst Hr. cbn [simp].
    assert (Hb : ((n >=? Z.of_nat (length es)) || (n <? - Z.of_nat (length es)))%Z = true).
    { apply orb_true_iff. destruct Hr as [Hr|Hr]; [left; apply Z.geb_le; lia | right; apply Z.ltb_lt; lia]. }
    destruct Hv as [Hv|Hv]; rewrite Hv; cbn [sbind]; rewrite Hs; cbn [sbind const_index norm_index]; rewrite Hst; unfold seq_project; rewrite Hb; reflexivity.
  Qed.

  (* {k0: v0, ...}[k] and {...}.k with a constant key that the literal defines: the value of its last entry *)
  Lemma project_dict_step c v s ks vs k c1 c2 x :
    simp f st bd c v = Ok (Dict ks vs, c1) -> simp f st bd c1 s = Ok (Const k, c2) ->
    const_key k = true -> length ks = length vs -> dict_scan (rev ks) (rev vs) k = Some x ->
    simp (S f) st bd c (Subscript v s) = Ok (x, c2).
  Proof.
    intros Hv Hs Hk Hl Hx. cbn [simp]. rewrite Hv. cbn [sbind]. rewrite Hs. cbn [sbind norm_index]. rewrite Hk.
    unfold dict_with_value. rewrite Hl, Nat.eqb_refl. cbn [sbind]. rewrite Hx. reflexivity.
  Qed.

  Lemma project_attr_step c v a ks vs c1 x :
    is_call_of v "First" = false ->
    simp f st bd c v = Ok (Dict ks vs, c1) -> length ks = length vs -> dict_scan (rev ks) (rev vs) (CStr a) = Some x ->
    simp (S f) st bd c (Attr v a) = Ok (x, c1).
  Proof.
    intros Hf Hv Hl Hx. cbn [simp]. rewrite Hf, Hv. cbn [sbind].
    unfold dict_with_value. rewrite Hl, Nat.eqb_refl. cbn [sbind]. rewrite Hx. reflexivity.
  Qed.

  (* an absent key leaves a proper Subscript / Attribute node (no raw value in a node slot) *)
  Lemma absent_key_step c v s ks vs k c1 c2 :
    simp f st bd c v = Ok (Dict ks vs, c1) -> simp f st bd c1 s = Ok (Const k, c2) ->
    const_key k = true -> length ks = length vs -> dict_scan (rev ks) (rev vs) k = None ->
    simp (S f) st bd c (Subscript v s) = Ok (Subscript (Dict ks vs) (Const k), c2).
  Proof.
    intros Hv Hs Hk Hl Hx. cbn [simp]. rewrite Hv. cbn [sbind]. rewrite Hs. cbn [sbind norm_index]. rewrite Hk.
    unfold dict_with_value. rewrite Hl, Nat.eqb_refl. cbn [sbind]. rewrite Hx. reflexivity.
  Qed.

  Lemma absent_attr_step c v a ks vs c1 :
    is_call_of v "First" = false ->
    simp f st bd c v = Ok (Dict ks vs, c1) -> length ks = length vs -> dict_scan (rev ks) (rev vs) (CStr a) = None ->
    simp (S f) st bd c (Attr v a) = Ok (Attr (Dict ks vs) a, c1).
  Proof.
    intros Hf Hv Hl Hx. cbn [simp]. rewrite Hf, Hv. cbn [sbind].
    unfold dict_with_value. rewrite Hl, Nat.eqb_refl. cbn [sbind]. rewrite Hx. reflexivity.
  Qed.

  (* odd selectors: anything that is not a constant leaves the (visited) sub-expression in place *)
  Definition is_const (e : expr) : bool := match e with Const _ => true | _ => false end.
  Definition is_literal (e : expr) : bool := match e with Tuple _ | List _ | Dict _ _ => true | _ => false end.

  Lemma odd_selector_step c v s v' s' c1 c2 :
    simp f st bd c v = Ok (v', c1) -> simp f st bd c1 s = Ok (s', c2) ->
    is_literal v' = true -> is_const (norm_index s') = false ->
    simp (S f) st bd c (Subscript v s) = Ok (Subscript v' (norm_index s'), c2).
  Proof.
    intros Hv Hs Hlit Hc. cbn [simp]. rewrite Hv. cbn [sbind]. rewrite Hs. cbn [sbind].
    destruct v'; try discriminate; destruct (norm_index s'); try discriminate; reflexivity.
  Qed.

  (* a negative literal index -(n) is a constant index *)
  Lemma negative_literal_step c v s es n c1 c2 x :
    simp f st bd c v = Ok (Tuple es, c1) \/ simp f st bd c v = Ok (List es, c1) ->
    simp f st bd c1 s = Ok (UnaryOp USub (Const (CInt n)), c2) -> existsb is_starred es = false ->
    py_index es (- n) = Some x -> (- Z.of_nat (length es) <= - n < Z.of_nat (length es))%Z ->
    simp (S f) st bd c (Subscript v s) = Ok (x, c2).
  Proof.
    intros Hv Hs Hst Hx Hr. cbn [simp].
    assert (Hb : ((- n >=? Z.of_nat (length es)) || (- n <? - Z.of_nat (length es)))%Z = false).
    { apply orb_false_iff. split; [rewrite Z.geb_leb; apply Z.leb_gt; lia | apply Z.ltb_ge; lia]. }
    destruct Hv as [Hv|Hv]; rewrite Hv; cbn [sbind]; rewrite Hs; cbn [sbind norm_index const_index]; rewrite Hst;
      unfold seq_project; rewrite Hb, Hx; reflexivity.
  Qed.

  (* a literal with a starred element has no fixed positions: the subscript is left around the visited parts *)
  Lemma starred_literal_step c v s es k c1 c2 :
    simp f st bd c v = Ok (Tuple es, c1) \/ simp f st bd c v = Ok (List es, c1) ->
    simp f st bd c1 s = Ok (Const k, c2) -> existsb is_starred es = true ->
    simp (S f) st bd c (Subscript v s)
    = Ok (Subscript (match simp f st bd c v with Ok (v', _) => v' | _ => v end) (Const k), c2).
  Proof.
    intros Hv Hs Hst. cbn [simp].
    destruct Hv as [Hv|Hv]; rewrite Hv; cbn [sbind]; rewrite Hs; cbn [sbind norm_index]; rewrite Hst;
      destruct (const_index k); reflexivity.
  Qed.

  (* a constant of the wrong type (None, a string index into a tuple, a float, ...) likewise *)
  Lemma odd_constant_step c v s es k c1 c2 :
    simp f st bd c v = Ok (Tuple es, c1) \/ simp f st bd c v = Ok (List es, c1) ->
    simp f st bd c1 s = Ok (Const k, c2) -> const_index k = None ->
    simp (S f) st bd c (Subscript v s)
    = Ok (Subscript (match simp f st bd c v with Ok (v', _) => v' | _ => v end) (Const k), c2).
  Proof.
    intros Hv Hs Hk. cbn [simp].
    destruct Hv as [Hv|Hv]; rewrite Hv; cbn [sbind]; rewrite Hs; cbn [sbind norm_index]; rewrite Hk; reflexivity.
  Qed.
End Steps.

(* The caller's tree in a store of node objects, and in-place edits of the copy's own objects (C11, F52/F57).
   [copy_isolates] (CopyTreeFacts.v) says which objects the copy can reach; this file says what that buys: a store maps an object
   identity to what the object holds (class text, attributes, the identities of its children); the passes that follow
   parse_as_ast's copy write to objects of the copy; as long as they write to the objects the copy owns - the new ones - the
   caller's tree is still represented, object for object, so it dumps as before, whatever is written and however often. *)
From Coq Require Import String List Bool Arith Lia.
Import ListNotations.
Local Open Scope string_scope.
From FA.Gen Require Import TablesCopy.
From FA.Model Require Import CopyTree.
From FA.Proofs Require Import CopyTreeFacts.

Definition root (t : ntree) : nat := match t with Node i _ _ _ => i end.
Definition cell := (string * list string * list nat)%type.
Definition store := nat -> option cell.

(* the store holds the tree [t], object for object *)
Fixpoint holds (st : store) (t : ntree) {struct t} : Prop :=
  match t with
  | Node i ats c ks =>
      st i = Some (c, ats, map root ks) /\
      (fix all (l : list ntree) : Prop := match l with [] => True | k :: l' => holds st k /\ all l' end) ks
  end.

Fixpoint holds_all (st : store) (l : list ntree) : Prop :=
  match l with [] => True | k :: l' => holds st k /\ holds_all st l' end.

Lemma holds_unfold st i ats c ks :
  holds st (Node i ats c ks) <-> st i = Some (c, ats, map root ks) /\ holds_all st ks.
Proof. cbn [holds]. assert (H : forall l, (fix all (l : list ntree) : Prop := match l with [] => True | k :: l' => holds st k /\ all l' end) l = holds_all st l) by (induction l; cbn; congruence). rewrite H. tauto. Qed.

Definition write (st : store) (j : nat) (v : cell) : store := fun i => if Nat.eqb i j then Some v else st i.

Lemma holds_write st j v : forall t, ~ In j (ids t) -> holds st t -> holds (write st j v) t.
Proof.
  apply (ntree_ind' (fun t => ~ In j (ids t) -> holds st t -> holds (write st j v) t)).
  intros i ats c ks HF Hj H. apply holds_unfold in H. destruct H as [H1 H2]. apply holds_unfold. split.
  - unfold write. destruct (Nat.eqb_spec i j) as [->|Hne]; [exfalso; apply Hj; cbn; left; reflexivity | exact H1].
  - assert (Hks : ~ In j (flat_map ids ks)) by (intros Hin; apply Hj; cbn; right; exact Hin).
    clear Hj H1. induction ks as [|k ks IH]; cbn in *; [exact I|].
    inversion HF as [|x y Hk Hl]; subst. destruct H2 as [Hk2 Hl2]. split.
    + apply Hk; [intros Hin; apply Hks; apply in_or_app; left; exact Hin | exact Hk2].
    + apply IH; [exact Hl | exact Hl2 | intros Hin; apply Hks; apply in_or_app; right; exact Hin].
Qed.

(* any number of writes, each to an object that is not one of the caller's *)
Fixpoint writes (st : store) (ws : list (nat * cell)) : store :=
  match ws with [] => st | (j, v) :: ws' => writes (write st j v) ws' end.

Theorem edits_elsewhere_keep_the_tree t : forall ws st,
  holds st t -> (forall j v, In (j, v) ws -> ~ In j (ids t)) -> holds (writes st ws) t.
Proof.
  induction ws as [|[j v] ws IH]; intros st H Hw; cbn [writes]; [exact H|].
  apply IH; [apply holds_write; [apply (Hw j v); left; reflexivity | exact H] | intros j' v' Hin; apply (Hw j' v'); right; exact Hin].
Qed.

(* the statement for parse_as_ast's copy: the passes that follow may write whatever they like, as often as they like, to the
   objects the copy owns (the new ones, numbered from [n]); the caller's tree - all of it, other streams' nodes included - is held
   by the store as before *)
Theorem edits_of_the_copys_own_objects_keep_the_callers_tree t n ws st :
  (forall i, In i (ids t) -> i < n) ->
  holds st t ->
  (forall j v, In (j, v) ws -> In j (ids (fst (copy t n))) /\ ~ In j (attached t)) ->
  holds (writes st ws) t.
Proof.
  intros Hn H Hw. apply edits_elsewhere_keep_the_tree; [exact H|].
  intros j v Hin Hj. destruct (Hw j v Hin) as [Hc Hna].
  destruct (copy_new_or_attached t n j Hc) as [Hr|Ha]; [specialize (Hn j Hj); lia | contradiction].
Qed.

(* non-vacuity: a store holding ex_lambda, the copy's call object (12) overwritten with two more arguments *)
Definition ex_store : store := fun i =>
  match i with
  | 0 => Some ("Lambda", [], [1; 3]) | 1 => Some ("arguments", [], [2]) | 2 => Some ("arg e", [], [])
  | 3 => Some ("Call", ["_old_ast"], [4; 8]) | 4 => Some ("Attribute met", [], [5]) | 5 => Some ("Call", [], [6])
  | 6 => Some ("Attribute info", [], [7]) | 7 => Some ("Name e", [], []) | 8 => Some ("Constant 1.0", [], [])
  | _ => None
  end.

Example ex_store_holds : holds ex_store ex_lambda /\
  holds (writes ex_store [(12, ("Call", ["_old_ast"], [13; 17; 18])); (14, ("Call", [], [15; 19]))]) ex_lambda.
Proof.
  assert (H : holds ex_store ex_lambda) by (cbn; repeat split; reflexivity).
  split; [exact H|]. apply (edits_of_the_copys_own_objects_keep_the_callers_tree ex_lambda 9).
  - intros i Hi. cbn in Hi. repeat (destruct Hi as [<-|Hi]; [lia|]). contradiction.
  - exact H.
  - intros j v [Heq|[Heq|[]]]; inversion Heq; subst; split; vm_compute; tauto.
Qed.

Print Assumptions edits_of_the_copys_own_objects_keep_the_callers_tree.

(* Alpha-renaming preserves meaning.

   [rename m e] is replace_args of make_args_unique (Model/Simplify.v): names are renamed by the
   association list [m] (most recent entry first), nested lambdas push the identity on their own
   parameters.  [rename_refines]: if the two environments agree up to the renaming on every name
   that occurs in [e], the renaming is injective on the names it moves and moves them to names
   that are not mentioned in [e] at all (neither used nor bound), then whenever [e] evaluates to
   [v] so does [rename m e].  Corollary [make_args_unique_sound]: a lambda whose parameters have
   been given fresh names is the same function. *)
From FA.Base Require Import PyAst Induct Value Eval Traverse Names.
From FA.Model Require Import Simplify.
From FA.Proofs Require Import TraverseFacts Refine EvalCong EvalAgree SimplifyFacts.
From Coq Require Import Lia.

(* [y] is used as a name or bound as a lambda parameter somewhere in [e] *)
Fixpoint mentions (y : string) (e : expr) {struct e} : bool :=
  let any := fix any (l : list expr) : bool :=
               match l with [] => false | x :: xs => mentions y x || any xs end in
  match e with
  | Name x => String.eqb y x
  | Const _ | Raw _ => false
  | Attr v _ => mentions y v
  | Call f args _ kwv => mentions y f || any args || any kwv
  | Lambda ps b => existsb (String.eqb y) ps || mentions y b
  | UnaryOp _ a => mentions y a
  | BinOp _ l r => mentions y l || mentions y r
  | BoolOp _ es => any es
  | Compare l _ rs => mentions y l || any rs
  | IfExp c t f => mentions y c || mentions y t || mentions y f
  | Tuple es | List es => any es
  | Dict ks vs => any ks || any vs
  | Subscript v i => mentions y v || mentions y i
  | ListComp a gs | GenExp a gs => mentions y a || any gs
  | CompFor t i ifs _ => mentions y t || mentions y i || any ifs
  | Other _ _ cs => any cs
  end.

Fixpoint mentions_any (y : string) (l : list expr) : bool :=
  match l with [] => false | x :: xs => mentions y x || mentions_any y xs end.

Lemma mentions_any_fix y l :
  (fix any (l : list expr) : bool := match l with [] => false | x :: xs => mentions y x || any xs end) l = mentions_any y l.
Proof. induction l; simpl; congruence. Qed.

Lemma mentions_any_app y l1 l2 : mentions_any y (l1 ++ l2) = mentions_any y l1 || mentions_any y l2.
Proof. induction l1; simpl; [reflexivity|]. rewrite IHl1, orb_assoc; reflexivity. Qed.

Lemma mentions_any_in y l c : In c l -> mentions y c = true -> mentions_any y l = true.
Proof.
  induction l as [|a l IH]; simpl; intros Hin Hc; [contradiction|].
  apply orb_true_iff. destruct Hin as [->|H]; [left | right]; auto.
Qed.

Lemma mentions_child y e c : In c (children e) -> mentions y c = true -> mentions y e = true.
Proof.
  intros Hin Hc.
  destruct e; cbn [children] in Hin; cbn [mentions]; rewrite ?mentions_any_fix;
    try (simpl in Hin; contradiction).
  - destruct Hin as [<-|[]]; assumption.
  - destruct Hin as [<-|Hin]; [rewrite Hc; reflexivity|].
    apply in_app_or in Hin. destruct Hin as [Hin|Hin].
    + rewrite (mentions_any_in _ _ _ Hin Hc). rewrite orb_true_r. reflexivity.
    + rewrite (mentions_any_in _ _ _ Hin Hc). rewrite !orb_true_r. reflexivity.
  - destruct Hin as [<-|[]]. rewrite Hc, orb_true_r; reflexivity.
  - destruct Hin as [<-|[]]; assumption.
  - destruct Hin as [<-|[<-|[]]]; rewrite Hc, ?orb_true_r; reflexivity.
  - eapply mentions_any_in; eassumption.
  - destruct Hin as [<-|Hin]; [rewrite Hc; reflexivity|]. rewrite (mentions_any_in _ _ _ Hin Hc), orb_true_r; reflexivity.
  - destruct Hin as [<-|[<-|[<-|[]]]]; rewrite Hc, ?orb_true_r; reflexivity.
  - eapply mentions_any_in; eassumption.
  - eapply mentions_any_in; eassumption.
  - apply in_app_or in Hin. destruct Hin as [Hin|Hin]; rewrite (mentions_any_in _ _ _ Hin Hc), ?orb_true_r; reflexivity.
  - destruct Hin as [<-|[<-|[]]]; rewrite Hc, ?orb_true_r; reflexivity.
  - destruct Hin as [<-|Hin]; [rewrite Hc; reflexivity|]. rewrite (mentions_any_in _ _ _ Hin Hc), orb_true_r; reflexivity.
  - destruct Hin as [<-|Hin]; [rewrite Hc; reflexivity|]. rewrite (mentions_any_in _ _ _ Hin Hc), orb_true_r; reflexivity.
  - destruct Hin as [<-|[<-|Hin]]; [rewrite Hc; reflexivity | rewrite Hc, orb_true_r; reflexivity |].
    rewrite (mentions_any_in _ _ _ Hin Hc), orb_true_r; reflexivity.
  - eapply mentions_any_in; eassumption.
Qed.

Lemma occurs_mentions y e : occurs y e = true -> mentions y e = true.
Proof.
  induction e using expr_ind'; cbn [occurs mentions]; rewrite ?occurs_any_fix, ?mentions_any_fix; intros Ho; try discriminate; auto.
  all: assert (Hall : forall l, Forall (fun e0 => occurs y e0 = true -> mentions y e0 = true) l ->
                                occurs_any y l = true -> mentions_any y l = true)
         by (induction 1 as [|x0 l0 Hx0 _ IHl0]; simpl; intros Hx; [discriminate|];
             apply orb_true_iff in Hx; apply orb_true_iff; destruct Hx; [left | right]; auto).
  all: repeat match goal with
              | H : _ || _ = true |- _ => apply orb_true_iff in H; destruct H
              end;
       repeat match goal with
              | IH : occurs ?v ?a = true -> mentions ?v ?a = true, H : occurs ?v ?a = true |- _ => apply IH in H
              | F : Forall _ ?l, H : occurs_any _ ?l = true |- _ => apply (Hall l F) in H
              end;
       repeat rewrite orb_true_iff; tauto.
Qed.

(* [x] is the callee name of some call in [e] (function names are not looked up in the environment) *)
Fixpoint is_callee (x : string) (e : expr) {struct e} : bool :=
  let any := fix any (l : list expr) : bool :=
               match l with [] => false | a :: r => is_callee x a || any r end in
  match e with
  | Name _ | Const _ | Raw _ => false
  | Attr v _ => is_callee x v
  | Call f args _ kwv =>
      (match f with Name n => String.eqb x n | _ => false end) || is_callee x f || any args || any kwv
  | Lambda _ b => is_callee x b
  | UnaryOp _ a => is_callee x a
  | BinOp _ l r => is_callee x l || is_callee x r
  | BoolOp _ es => any es
  | Compare l _ rs => is_callee x l || any rs
  | IfExp c t f => is_callee x c || is_callee x t || is_callee x f
  | Tuple es | List es => any es
  | Dict ks vs => any ks || any vs
  | Subscript v i => is_callee x v || is_callee x i
  | ListComp a gs | GenExp a gs => is_callee x a || any gs
  | CompFor t i ifs _ => is_callee x t || is_callee x i || any ifs
  | Other _ _ cs => any cs
  end.

Fixpoint is_callee_any (x : string) (l : list expr) : bool :=
  match l with [] => false | a :: r => is_callee x a || is_callee_any x r end.

Lemma is_callee_any_fix x l :
  (fix any (l : list expr) : bool := match l with [] => false | a :: r => is_callee x a || any r end) l = is_callee_any x l.
Proof. induction l; simpl; congruence. Qed.

Lemma is_callee_any_in x l c : In c l -> is_callee x c = true -> is_callee_any x l = true.
Proof.
  induction l as [|a l IH]; simpl; intros Hin Hc; [contradiction|].
  apply orb_true_iff. destruct Hin as [->|H]; [left | right]; auto.
Qed.

Lemma is_callee_child x e c : In c (children e) -> is_callee x c = true -> is_callee x e = true.
Proof.
  intros Hin Hc.
  destruct e; cbn [children] in Hin; cbn [is_callee]; rewrite ?is_callee_any_fix;
    try (simpl in Hin; contradiction).
  - destruct Hin as [<-|[]]; assumption.
  - destruct Hin as [<-|Hin]; [rewrite Hc, ?orb_true_r; reflexivity|].
    apply in_app_or in Hin. destruct Hin as [Hin|Hin]; rewrite (is_callee_any_in _ _ _ Hin Hc), ?orb_true_r; reflexivity.
  - destruct Hin as [<-|[]]; assumption.
  - destruct Hin as [<-|[]]; assumption.
  - destruct Hin as [<-|[<-|[]]]; rewrite Hc, ?orb_true_r; reflexivity.
  - eapply is_callee_any_in; eassumption.
  - destruct Hin as [<-|Hin]; [rewrite Hc; reflexivity|]. rewrite (is_callee_any_in _ _ _ Hin Hc), orb_true_r; reflexivity.
  - destruct Hin as [<-|[<-|[<-|[]]]]; rewrite Hc, ?orb_true_r; reflexivity.
  - eapply is_callee_any_in; eassumption.
  - eapply is_callee_any_in; eassumption.
  - apply in_app_or in Hin. destruct Hin as [Hin|Hin]; rewrite (is_callee_any_in _ _ _ Hin Hc), ?orb_true_r; reflexivity.
  - destruct Hin as [<-|[<-|[]]]; rewrite Hc, ?orb_true_r; reflexivity.
  - destruct Hin as [<-|Hin]; [rewrite Hc; reflexivity|]. rewrite (is_callee_any_in _ _ _ Hin Hc), orb_true_r; reflexivity.
  - destruct Hin as [<-|Hin]; [rewrite Hc; reflexivity|]. rewrite (is_callee_any_in _ _ _ Hin Hc), orb_true_r; reflexivity.
  - destruct Hin as [<-|[<-|Hin]]; [rewrite Hc; reflexivity | rewrite Hc, orb_true_r; reflexivity |].
    rewrite (is_callee_any_in _ _ _ Hin Hc), orb_true_r; reflexivity.
  - eapply is_callee_any_in; eassumption.
Qed.

(* ---------- the renaming function on names ---------- *)

Definition ren (m : list (string * string)) (x : string) : string :=
  match ren_lookup x m with Some y => y | None => x end.

(* targets of non-identity pairs are fresh for [e]; the renaming is injective on the names it moves *)
(* names the backend gives no meaning to as function names (lambda parameters and the library's
   fresh names are of this kind in every real backend) *)
Definition builtin_op (x : string) : bool :=
  existsb (String.eqb x) ["Select"; "Where"; "SelectMany"; "First"; "Count"; "len"; "Sum"; "Max"; "Min"; "Aggregate"].

Definition nofun (B : backend) (x : string) : Prop :=
  builtin_op x = false /\ forall vs kws, fun_sem B x vs kws = None.

Definition good (B : backend) (m : list (string * string)) (e : expr) : Prop :=
  (forall x y, ren_lookup x m = Some y -> y <> x -> mentions y e = false) /\
  (forall x1 x2 y, ren_lookup x1 m = Some y -> ren_lookup x2 m = Some y -> y <> x1 -> y <> x2 -> x1 = x2) /\
  (forall x y, ren_lookup x m = Some y -> y <> x -> is_callee x e = false \/ nofun B x).

Definition rel (m : list (string * string)) (e : expr) (E E' : env) : Prop :=
  forall z, occurs z e = true -> lookup z E = lookup (ren m z) E'.

Lemma good_child B m e c : In c (children e) -> good B m e -> good B m c.
Proof.
  intros Hin (G1 & G2 & G3). split; [|split; [exact G2|]].
  - intros x y Hx Hy. specialize (G1 x y Hx Hy).
    destruct (mentions y c) eqn:E; [|reflexivity]. rewrite (mentions_child y e c Hin E) in G1. discriminate.
  - intros x y Hx Hy. destruct (G3 x y Hx Hy) as [G3'|G3']; [|right; exact G3'].
    left. destruct (is_callee x c) eqn:E; [|reflexivity]. rewrite (is_callee_child x e c Hin E) in G3'. discriminate.
Qed.

Lemma rel_child m e c E E' : In c (children e) -> rel m e E E' -> rel m c E E'.
Proof. intros Hin H z Hz. apply H. eapply occurs_child; eassumption. Qed.

Definition idmap (ps : list string) : list (string * string) := rev (map (fun p : string => (p, p)) ps).

Lemma ren_lookup_app x l m :
  ren_lookup x (l ++ m) = match ren_lookup x l with Some z => Some z | None => ren_lookup x m end.
Proof. induction l as [|[a b] l IH]; simpl; [reflexivity|]. destruct (String.eqb x a); [reflexivity | apply IH]. Qed.

Lemma ren_lookup_idmap x ps :
  ren_lookup x (idmap ps) = if existsb (String.eqb x) ps then Some x else None.
Proof.
  unfold idmap. induction ps as [|p ps IH]; simpl; [reflexivity|].
  rewrite ren_lookup_app, IH. simpl.
  destruct (existsb (String.eqb x) ps); simpl.
  - rewrite orb_true_r. reflexivity.
  - rewrite orb_false_r. destruct (String.eqb x p) eqn:E; [apply String.eqb_eq in E; subst|]; reflexivity.
Qed.

Lemma ren_idmap_app x ps m :
  ren (idmap ps ++ m) x = if existsb (String.eqb x) ps then x else ren m x.
Proof. unfold ren. rewrite ren_lookup_app, ren_lookup_idmap. destruct (existsb (String.eqb x) ps); reflexivity. Qed.

Lemma good_under B m ps b : good B m (Lambda ps b) -> good B (idmap ps ++ m) b.
Proof.
  intros (G1 & G2 & G3). split; [|split].
  - intros x y Hx Hy. rewrite ren_lookup_app, ren_lookup_idmap in Hx.
    destruct (existsb (String.eqb x) ps); [inversion Hx; subst; contradiction|].
    specialize (G1 x y Hx Hy). cbn [mentions] in G1. apply orb_false_iff in G1. tauto.
  - intros x1 x2 y H1 H2 Hy1 Hy2. rewrite ren_lookup_app, ren_lookup_idmap in H1, H2.
    destruct (existsb (String.eqb x1) ps); [inversion H1; subst; contradiction|].
    destruct (existsb (String.eqb x2) ps); [inversion H2; subst; contradiction|].
    eapply G2; eassumption.
  - intros x y Hx Hy. rewrite ren_lookup_app, ren_lookup_idmap in Hx.
    destruct (existsb (String.eqb x) ps); [inversion Hx; subst; contradiction|].
    exact (G3 x y Hx Hy).
Qed.

(* a moved name is never sent onto a parameter of a lambda of [e] *)
Lemma ren_not_param B m ps b z :
  good B m (Lambda ps b) -> existsb (String.eqb z) ps = false -> existsb (String.eqb (ren m z)) ps = false.
Proof.
  intros (G1 & _ & _) Hz. unfold ren. destruct (ren_lookup z m) as [y|] eqn:E; [|assumption].
  destruct (String.eqb y z) eqn:Eyz; [apply String.eqb_eq in Eyz; subst; assumption|].
  assert (Hy : y <> z) by (intros ->; rewrite String.eqb_refl in Eyz; discriminate).
  specialize (G1 z y E Hy). cbn [mentions] in G1. apply orb_false_iff in G1. tauto.
Qed.

Lemma lookup_app_dom x (E0 E : env) :
  existsb (String.eqb x) (map fst E0) = false -> lookup x (E0 ++ E) = lookup x E.
Proof.
  induction E0 as [|[a v] E0 IH]; simpl; intros H; [reflexivity|].
  apply orb_false_iff in H. destruct H as [H1 H2]. rewrite H1. apply IH; assumption.
Qed.

Lemma lookup_app_in x (E0 E E' : env) :
  existsb (String.eqb x) (map fst E0) = true -> lookup x (E0 ++ E) = lookup x (E0 ++ E').
Proof.
  induction E0 as [|[a v] E0 IH]; simpl; intros H; [discriminate|].
  destruct (String.eqb x a); [reflexivity|]. simpl in H. apply IH; assumption.
Qed.

Lemma rel_under B m ps b E0 E E' :
  good B m (Lambda ps b) -> (forall z, existsb (String.eqb z) (map fst E0) = existsb (String.eqb z) ps) ->
  rel m (Lambda ps b) E E' ->
  rel (idmap ps ++ m) b (E0 ++ E) (E0 ++ E').
Proof.
  intros Hg Hdom Hrel z Hz. rewrite ren_idmap_app.
  destruct (existsb (String.eqb z) ps) eqn:Ez.
  - apply lookup_app_in. rewrite Hdom. assumption.
  - rewrite !lookup_app_dom; [| rewrite Hdom; eapply ren_not_param; eassumption | rewrite Hdom; assumption].
    apply Hrel. cbn [occurs]. assumption.
Qed.

Section Ren.
  Variable B : backend.
  Variable ops : list string.
  Notation ev := (eval B ops).

  Definition ren_ok (e : expr) : Prop :=
    forall m E E', good B m e -> rel m e E E' -> refines (ev E e) (ev E' (rename m e)).

  Lemma evals_ren n l m E E' :
    (forall e0, size e0 < n -> ren_ok e0) -> sizes l < n ->
    (forall c, In c l -> good B m c /\ rel m c E E') ->
    Forall2 (fun a a' => refines (ev E a) (ev E' a')) l (map (rename m) l).
  Proof.
    intros IH Hn Hc. induction l as [|a l IHl]; simpl; constructor.
    - destruct (Hc a (or_introl eq_refl)). apply IH; [simpl in Hn; lia | assumption | assumption].
    - apply IHl; [simpl in Hn; lia | intros c Hin; apply Hc; right; assumption].
  Qed.

  Lemma omap_ren n l m E E' :
    (forall e0, size e0 < n -> ren_ok e0) -> sizes l < n ->
    (forall c, In c l -> good B m c /\ rel m c E E') ->
    refines (omap (ev E) l) (omap (ev E') (map (rename m) l)).
  Proof. intros. apply omap_refines2. eapply evals_ren; eassumption. Qed.

  Lemma bind_args_dom ps vs kws E0 : bind_args ps vs kws = Some E0 -> map fst E0 = ps.
  Proof.
    assert (Hkw : forall ps kws E0, bind_kw ps kws = Some E0 -> map fst E0 = ps).
    { clear. induction ps as [|p ps IH]; intros kws E0 H; simpl in H.
      - destruct kws; inversion H; reflexivity.
      - destruct (filter (fun kv => String.eqb (fst kv) p) kws) as [|[k v] [|? ?]]; try discriminate.
        destruct (bind_kw ps _) as [E1|] eqn:E; [|discriminate]. inversion H; subst. simpl. f_equal. eapply IH; eassumption. }
    revert vs E0; induction ps as [|p ps IH]; intros vs E0 H.
    - destruct vs; simpl in H; [|discriminate]. eapply Hkw; eassumption.
    - destruct vs as [|v vs]; simpl in H; [eapply Hkw; exact H|].
      destruct (existsb (fun kv => String.eqb (fst kv) p) kws); [discriminate|].
      destruct (bind_args ps vs kws) as [E1|] eqn:E; [|discriminate]. inversion H; subst. simpl. f_equal. eapply IH; eassumption.
  Qed.

  Lemma view_ren n a m E E' :
    (forall e0, size e0 < n -> ren_ok e0) -> size a < n -> good B m a -> rel m a E E' ->
    aview_refines (view B ops E a) (view B ops E' (rename m a)).
  Proof.
    intros IH Hn Hg Hr. unfold view, mk_view. split; [|split]; cbn [av_val av_f1 av_f2].
    - apply IH; assumption.
    - intros f Hf. destruct a; try discriminate. destruct ps as [|x [|? ?]]; try discriminate.
      inversion Hf; subst; clear Hf. cbn [rename]. eexists; split; [reflexivity|]. intros v.
      apply IH; [simpl in Hn; lia | apply (good_under B m [x] a Hg) |].
      apply (rel_under B m [x] a [(x, v)] E E' Hg); [reflexivity | exact Hr].
    - intros f Hf. destruct a; try discriminate. destruct ps as [|x [|y [|? ?]]]; try discriminate.
      inversion Hf; subst; clear Hf. cbn [rename]. eexists; split; [reflexivity|]. intros v w.
      apply IH; [simpl in Hn; lia | apply (good_under B m [x; y] a Hg) |].
      apply (rel_under B m [x; y] a [(y, w); (x, v)] E E' Hg); [|exact Hr].
      intros z. simpl. rewrite !orb_false_r. apply orb_comm.
  Qed.

  Lemma views_ren n l m E E' :
    (forall e0, size e0 < n -> ren_ok e0) -> sizes l < n ->
    (forall c, In c l -> good B m c /\ rel m c E E') ->
    Forall2 aview_refines (map (view B ops E) l) (map (view B ops E') (map (rename m) l)).
  Proof.
    intros IH Hn Hc. induction l as [|a l IHl]; simpl; constructor.
    - destruct (Hc a (or_introl eq_refl)). eapply view_ren; [eassumption | simpl in Hn; lia | assumption | assumption].
    - apply IHl; [simpl in Hn; lia | intros c Hin; apply Hc; right; assumption].
  Qed.
End Ren.

Section RenMain.
  Variable B : backend.
  Variable ops : list string.
  Notation ev := (eval B ops).

  (* the callee name of a call is not moved, or the backend gives it no meaning *)
  Lemma callee_cases m op args kwn kwv :
    good B m (Call (Name op) args kwn kwv) -> ren m op = op \/ nofun B op.
  Proof.
    intros (_ & _ & G3). unfold ren. destruct (ren_lookup op m) as [y|] eqn:E; [|left; reflexivity].
    destruct (String.eqb y op) eqn:Ey; [apply String.eqb_eq in Ey; left; assumption|].
    assert (Hy : y <> op) by (intros ->; rewrite String.eqb_refl in Ey; discriminate).
    destruct (G3 op y E Hy) as [G|G]; [|right; exact G].
    cbn [is_callee] in G. rewrite String.eqb_refl in G. discriminate.
  Qed.

  Lemma nofun_call_none op args kwn kwv E0 :
    nofun B op -> ev E0 (Call (Name op) args kwn kwv) = None.
  Proof.
    intros [Hb Hf]. cbn [eval]. destruct kwn as [|k kwn].
    - destruct args as [|s rest]; [apply Hf|].
      unfold apply_op. unfold builtin_op in Hb. cbn [existsb] in Hb.
      repeat (apply orb_false_iff in Hb; destruct Hb as [?H Hb]).
      repeat match goal with H : String.eqb op _ = false |- _ => rewrite H; clear H end. cbn [orb].
      destruct (ev E0 s) as [sv|]; [|reflexivity]. cbn [obind].
      destruct (sequence (map av_val (map (mk_view (eval B ops) E0) rest))) as [vs|]; [|reflexivity]. cbn [obind]. apply Hf.
    - destruct (omap (ev E0) args) as [vs|]; [|reflexivity]. cbn [obind].
      destruct (omap (ev E0) kwv) as [kvs|]; [|reflexivity]. cbn [obind].
      destruct (zip_kw (k :: kwn) kvs) as [kws|]; [|reflexivity]. cbn [obind]. apply Hf.
  Qed.

  Lemma comp_ren n elt gs m E E' :
    (forall e0, size e0 < n -> ren_ok B ops e0) -> size elt + sizes gs < n ->
    (forall c, In c (elt :: gs) -> good B m c /\ rel m c E E') ->
    refines (comp_sem ev E elt gs) (comp_sem ev E' (rename m elt) (map (rename m) gs)).
  Proof.
    intros IH Hn Hc. unfold comp_sem.
    destruct gs as [|g gs]; [apply refines_refl|].
    destruct g; try apply refines_none.
    destruct g1; try apply refines_none.
    destruct is_async; [apply refines_none|].
    destruct gs; [|apply refines_none].
    assert (Hname : rename m (Name id) = Name (ren m id)).
    { cbn [rename]. unfold ren. destruct (ren_lookup id m); reflexivity. }
    cbn [map].
    change (rename m (CompFor (Name id) g2 ifs false))
      with (CompFor (rename m (Name id)) (rename m g2) (map (rename m) ifs) false).
    rewrite Hname.
    cbn [sizes] in Hn. rewrite (size_sizes (CompFor _ _ _ _)) in Hn. cbn [children sizes] in Hn.
    destruct (Hc (CompFor (Name id) g2 ifs false)) as [Hgg Hrg]; [right; left; reflexivity|].
    destruct (Hc elt) as [Hge Hre]; [left; reflexivity|].
    assert (Hit : good B m g2 /\ rel m g2 E E').
    { split; [eapply good_child; [|exact Hgg] | eapply rel_child; [|exact Hrg]]; simpl; auto. }
    assert (Hinj : forall z, z <> id -> occurs z (CompFor (Name id) g2 ifs false) = true \/ occurs z elt = true ->
                             ren m z <> ren m id).
    { intros z Hz Hocc Heq.
      assert (Hid : occurs id (CompFor (Name id) g2 ifs false) = true) by (cbn [occurs]; rewrite String.eqb_refl; reflexivity).
      destruct Hgg as (G1 & G2 & _). destruct Hge as (G1e & _ & _).
      assert (Hocc_m : forall t, (t = z -> mentions t (CompFor (Name id) g2 ifs false) = true \/ mentions t elt = true)).
      { intros t ->. destruct Hocc as [Ho|Ho]; [left | right]; apply occurs_mentions; assumption. }
      assert (Hbad1 : forall t, ren_lookup id m = Some t -> t = z -> False).
      { intros t Hl ->. destruct (Hocc_m z eq_refl) as [Hm|Hm].
        - rewrite (G1 id z Hl Hz) in Hm. discriminate.
        - rewrite (G1e id z Hl Hz) in Hm. discriminate. }
      assert (Hbad2 : forall t, ren_lookup z m = Some t -> t = id -> False).
      { intros t Hl ->. assert (Hne : id <> z) by congruence.
        rewrite (G1 z id Hl Hne) in Hid || (pose proof (G1 z id Hl Hne) as Hx; rewrite (occurs_mentions _ _ Hid) in Hx; discriminate). }
      unfold ren in Heq.
      destruct (ren_lookup z m) as [y|] eqn:Ez; destruct (ren_lookup id m) as [y'|] eqn:Ei.
      - destruct (string_dec y z) as [Hyz|Hyz].
        + eapply Hbad1; [reflexivity | congruence].
        + destruct (string_dec y' id) as [Hyi|Hyi].
          * eapply Hbad2; [reflexivity | congruence].
          * apply Hz. eapply (G2 z id y); congruence.
      - eapply Hbad2; [reflexivity | congruence].
      - eapply Hbad1; [reflexivity | congruence].
      - congruence. }
    assert (Hext : forall c v, (occurs id c = true \/ True) ->
                     (forall z, occurs z c = true -> occurs z (CompFor (Name id) g2 ifs false) = true \/ occurs z elt = true) ->
                     rel m c E E' -> rel m c ((id, v) :: E) ((ren m id, v) :: E')).
    { intros c v _ Hsub Hr z Hz. cbn [lookup].
      destruct (String.eqb z id) eqn:Ezi.
      - apply String.eqb_eq in Ezi; subst. rewrite String.eqb_refl. reflexivity.
      - assert (Hzi : z <> id) by (intros ->; rewrite String.eqb_refl in Ezi; discriminate).
        pose proof (Hinj z Hzi (Hsub z Hz)) as Hne.
        destruct (String.eqb (ren m z) (ren m id)) eqn:E2; [apply String.eqb_eq in E2; contradiction|].
        apply Hr; assumption. }
    apply obind_refines; [apply IH; [lia | apply Hit | apply Hit]|]. intros s.
    apply obind_refines_r. intros l.
    apply obind_refines.
    - apply ofilter_refines. intros v. apply conds_refines.
      eapply evals_ren; [exact IH | lia |].
      intros c Hin. split.
      + eapply good_child; [|exact Hgg]. simpl. right; right; assumption.
      + apply Hext; [right; exact I | |].
        * intros z Hz. left. eapply occurs_child; [|exact Hz]. simpl. right; right; assumption.
        * eapply rel_child; [|exact Hrg]. simpl. right; right; assumption.
    - intros kept. apply option_map_refines. apply omap_refines. intros v.
      apply IH; [lia | assumption |].
      apply Hext; [right; exact I | intros z Hz; right; exact Hz | assumption].
  Qed.
End RenMain.

Section RenAll.
  Variable B : backend.
  Variable ops : list string.
  Notation ev := (eval B ops).

  Lemma children_gr m e E E' c : good B m e -> rel m e E E' -> In c (children e) -> good B m c /\ rel m c E E'.
  Proof. intros Hg Hr Hin. split; [eapply good_child | eapply rel_child]; eassumption. Qed.

  Theorem ren_ok_all : forall n e, size e < n -> ren_ok B ops e.
  Proof.
    induction n as [|n IHn]; intros e Hn; [lia|].
    assert (IH : forall e0, size e0 < size e -> ren_ok B ops e0) by (intros; apply IHn; lia).
    clear IHn Hn. intros m E E' Hg Hr.
    pose proof (size_sizes e) as Hsz.
    assert (Hch : forall c, In c (children e) -> good B m c /\ rel m c E E') by (intros; eapply children_gr; eassumption).
    destruct e; cbn [children sizes] in Hsz; cbn [rename map_children_t]; try apply refines_refl.
    - (* Name *)
      cbn [eval]. apply refines_eq. fold (ren m id).
      replace (match ren_lookup id m with Some y => Name y | None => Name id end) with (Name (ren m id))
        by (unfold ren; destruct (ren_lookup id m); reflexivity).
      cbn [eval]. apply Hr. cbn [occurs]. apply String.eqb_refl.
    - (* Attr *)
      cbn [eval]. apply obind_refines_l. destruct (Hch e (or_introl eq_refl)). apply IH; [lia | assumption | assumption].
    - (* Call *)
      rewrite sizes_app in Hsz.
      assert (Hargs : forall c, In c args -> good B m c /\ rel m c E E').
      { intros c Hc. apply Hch. right. apply in_or_app; left; assumption. }
      assert (Hkwv : forall c, In c kwv -> good B m c /\ rel m c E E').
      { intros c Hc. apply Hch. right. apply in_or_app; right; assumption. }
      destruct (Hch e (or_introl eq_refl)) as [Hgf Hrf].
      assert (Ra : refines (omap (ev E) args) (omap (ev E') (map (rename m) args))).
      { eapply omap_ren; [exact IH | lia | assumption]. }
      assert (Rk : refines (omap (ev E) kwv) (omap (ev E') (map (rename m) kwv))).
      { eapply omap_ren; [exact IH | lia | assumption]. }
      destruct e; cbn [rename map_children_t]; cbn [eval];
        try (destruct kwn; [apply refines_refl |
                            intros v0 H0; repeat (apply obind_some in H0; destruct H0 as [? [? H0]]); discriminate]).
      + (* callee is a name: it is not moved *)
        destruct (callee_cases B m id args kwn kwv Hg) as [Hid|Hnf];
          [|intros v0 H0; change (eval B ops E (Call (Name id) args kwn kwv) = Some v0) in H0;
            rewrite (nofun_call_none B ops id args kwn kwv E Hnf) in H0; discriminate].
        replace (match ren_lookup id m with Some y => Name y | None => Name id end) with (Name id)
          by (unfold ren in Hid; destruct (ren_lookup id m); congruence).
        destruct kwn as [|k kwn].
        * destruct args as [|s rest]; [apply refines_refl|]. cbn [map].
          apply apply_op_refines.
          -- destruct (Hargs s (or_introl eq_refl)). apply IH; [cbn [sizes] in Hsz; lia | assumption | assumption].
          -- eapply (views_ren B ops (size (Call (Name id) (s :: rest) [] kwv))); [exact IH | cbn [sizes] in Hsz; lia |].
             intros c Hc. apply Hargs. right; assumption.
        * apply obind_refines; [assumption|]. intros vs.
          apply obind_refines; [assumption|]. intros kvs. apply refines_refl.
      + (* method call *)
        assert (Hsa : size (Attr e a) = S (size e)) by reflexivity.
        assert (Hv : good B m e /\ rel m e E E').
        { split; [eapply good_child; [|exact Hgf] | eapply rel_child; [|exact Hrf]]; simpl; auto. }
        destruct kwn as [|k kwn].
        * destruct (is_op ops a).
          -- apply apply_op_refines.
             ++ apply IH; [cbn [sizes] in Hsz; lia | apply Hv | apply Hv].
             ++ eapply (views_ren B ops (size (Call (Attr e a) args [] kwv))); [exact IH | cbn [sizes] in Hsz; lia | assumption].
          -- apply obind_refines; [apply IH; [cbn [sizes] in Hsz; lia | apply Hv | apply Hv]|].
             intros r. apply obind_refines_l. assumption.
        * apply obind_refines; [assumption|]. intros vs.
          apply obind_refines; [assumption|]. intros kvs.
          apply obind_refines_r. intros kws.
          apply obind_refines_l. apply IH; [cbn [sizes] in Hsz; lia | apply Hv | apply Hv].
      + (* called lambda *)
        assert (Hsl : size (Lambda ps e) = S (size e)) by reflexivity.
        fold (idmap ps).
        destruct kwn as [|k kwn].
        * apply obind_refines; [assumption|]. intros vs.
          intros v Hv0. apply obind_some in Hv0. destruct Hv0 as [E0 [Hb Hv0]]. rewrite Hb. cbn [obind].
          refine (IH e _ (idmap ps ++ m) (E0 ++ E) (E0 ++ E') (good_under B m ps e Hgf) _ v Hv0); [cbn [sizes] in Hsz; lia|].
          apply (rel_under B m ps e E0 E E' Hgf); [|exact Hrf].
          intros z. rewrite (bind_args_dom _ _ _ _ Hb). reflexivity.
        * apply obind_refines; [assumption|]. intros vs.
          apply obind_refines; [assumption|]. intros kvs.
          apply obind_refines_r. intros kws.
          intros v Hv0. apply obind_some in Hv0. destruct Hv0 as [E0 [Hb Hv0]]. rewrite Hb. cbn [obind].
          refine (IH e _ (idmap ps ++ m) (E0 ++ E) (E0 ++ E') (good_under B m ps e Hgf) _ v Hv0); [cbn [sizes] in Hsz; lia|].
          apply (rel_under B m ps e E0 E E' Hgf); [|exact Hrf].
          intros z. rewrite (bind_args_dom _ _ _ _ Hb). reflexivity.
    - (* UnaryOp *) cbn [eval]. apply obind_refines_l. destruct (Hch e (or_introl eq_refl)). apply IH; [lia | assumption | assumption].
    - (* BinOp *)
      cbn [eval]. destruct (Hch e1 (or_introl eq_refl)). destruct (Hch e2 (or_intror (or_introl eq_refl))).
      apply obind_refines; [apply IH; [lia | assumption | assumption]|]. intros a.
      apply obind_refines_l. apply IH; [lia | assumption | assumption].
    - (* BoolOp *)
      cbn [eval]. apply boolop_refines. eapply evals_ren; [exact IH | lia | assumption].
    - (* Compare *)
      cbn [eval]. destruct (Hch e (or_introl eq_refl)).
      apply obind_refines; [apply IH; [lia | assumption | assumption]|]. intros lv.
      apply compare_refines. eapply evals_ren; [exact IH | lia |].
      intros c Hc. apply Hch. right; assumption.
    - (* IfExp *)
      cbn [eval]. destruct (Hch e1 (or_introl eq_refl)). destruct (Hch e2 (or_intror (or_introl eq_refl))).
      destruct (Hch e3 (or_intror (or_intror (or_introl eq_refl)))).
      apply obind_refines; [apply IH; [lia | assumption | assumption]|]. intros cv.
      destruct (truthy cv); apply IH; try lia; assumption.
    - (* Tuple *) cbn [eval]. apply option_map_refines. eapply omap_ren; [exact IH | lia | assumption].
    - (* List *) cbn [eval]. apply option_map_refines. eapply omap_ren; [exact IH | lia | assumption].
    - (* Dict *)
      cbn [eval]. rewrite sizes_app in Hsz. rewrite !map_length.
      destruct (Nat.eqb (length ks) (length vs)); [|apply refines_refl].
      apply obind_refines.
      + eapply omap_ren; [exact IH | lia |]. intros c Hc. apply Hch. apply in_or_app; left; assumption.
      + intros kvs. apply obind_refines_l.
        eapply omap_ren; [exact IH | lia |]. intros c Hc. apply Hch. apply in_or_app; right; assumption.
    - (* Subscript *)
      cbn [eval]. destruct (Hch e1 (or_introl eq_refl)). destruct (Hch e2 (or_intror (or_introl eq_refl))).
      apply obind_refines; [apply IH; [lia | assumption | assumption]|]. intros a.
      apply obind_refines_l. apply IH; [lia | assumption | assumption].
    - (* ListComp *) cbn [eval]. eapply comp_ren; [exact IH | lia | assumption].
    - (* GenExp *) cbn [eval]. eapply comp_ren; [exact IH | lia | assumption].
  Qed.
End RenAll.

Theorem rename_refines B ops m e E E' :
  good B m e -> rel m e E E' -> refines (eval B ops E e) (eval B ops E' (rename m e)).
Proof. intros Hg Hr. eapply ren_ok_all; [apply Nat.lt_succ_diag_r | exact Hg | exact Hr]. Qed.

(* ---------- make_args_unique on a one-parameter lambda (the operator lambdas) ---------- *)

Lemma good_single B x x' b :
  (x' <> x -> mentions x' b = false /\ (is_callee x b = false \/ nofun B x)) -> good B [(x, x')] b.
Proof.
  intros H. split; [|split].
  - intros z y Hz Hy. simpl in Hz. destruct (String.eqb z x) eqn:E; [|discriminate]. inversion Hz; subst.
    apply String.eqb_eq in E; subst. apply H; assumption.
  - intros x1 x2 y H1 H2 _ _. simpl in H1, H2.
    destruct (String.eqb x1 x) eqn:E1; [|discriminate]. destruct (String.eqb x2 x) eqn:E2; [|discriminate].
    apply String.eqb_eq in E1, E2; congruence.
  - intros z y Hz Hy. simpl in Hz. destruct (String.eqb z x) eqn:E; [|discriminate]. inversion Hz; subst.
    apply String.eqb_eq in E; subst. apply H; assumption.
Qed.

Theorem rename_param_sound B ops x x' b v E :
  (x' <> x -> mentions x' b = false /\ (is_callee x b = false \/ nofun B x)) ->
  refines (eval B ops ((x, v) :: E) b) (eval B ops ((x', v) :: E) (rename [(x, x')] b)).
Proof.
  intros H. apply rename_refines; [apply good_single; assumption|].
  intros z Hz. unfold ren. simpl.
  destruct (String.eqb z x) eqn:Ezx.
  - rewrite String.eqb_refl. reflexivity.
  - destruct (String.eqb z x') eqn:Ezx'; [|reflexivity].
    apply String.eqb_eq in Ezx'; subst z.
    destruct (string_dec x' x) as [->|Hne]; [rewrite String.eqb_refl in Ezx; discriminate|].
    destruct (H Hne) as [Hm _]. rewrite (occurs_mentions _ _ Hz) in Hm. discriminate.
Qed.

(* make_args_unique itself, on a one-parameter lambda: the renamed lambda is the same function *)
Theorem make_args_unique_sound1 B ops x b c v E :
  mentions (arg_name c) b = false -> is_callee x b = false \/ nofun B x ->
  match make_args_unique [x] b c with
  | (Lambda [x'] b', _) => refines (eval B ops ((x, v) :: E) b) (eval B ops ((x', v) :: E) b')
  | _ => False
  end.
Proof.
  intros Hm Hc. cbn [make_args_unique length fresh_names combine rev app].
  apply rename_param_sound. intros _. split; assumption.
Qed.

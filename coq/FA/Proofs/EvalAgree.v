(* The value of an expression depends only on the bindings of the names that occur in it.

   [eval_agree]: if two environments give the same binding to every name that occurs in [e]
   (as an [ast.Name] anywhere in the tree), [e] evaluates to the same result in both.
   Consequences: weakening by names that do not occur, exchange of distinct names, shadowing.
   These are the lemmas every rewrite rule of the simplifier (C02) and every alpha-renaming rests on. *)
From FA.Base Require Import PyAst Induct Value Eval Traverse.
From FA.Model Require Import Simplify.
From FA.Proofs Require Import TraverseFacts Refine EvalCong.
From Coq Require Import Lia.

Definition agree (e : expr) (E E' : env) : Prop :=
  forall y, occurs y e = true -> lookup y E = lookup y E'.

Lemma refines_antisym {A} (a b : option A) : refines a b -> refines b a -> a = b.
Proof.
  intros H1 H2. destruct a as [x|].
  - symmetry; apply H1; reflexivity.
  - destruct b as [y|]; [|reflexivity]. apply H2; reflexivity.
Qed.

Lemma agree_sym e E E' : agree e E E' -> agree e E' E.
Proof. intros H y Hy; symmetry; apply H; assumption. Qed.

Fixpoint occurs_any (x : string) (l : list expr) : bool :=
  match l with [] => false | y :: ys => occurs x y || occurs_any x ys end.

Lemma occurs_any_fix x l :
  (fix any (l : list expr) : bool := match l with [] => false | y :: ys => occurs x y || any ys end) l = occurs_any x l.
Proof. induction l; simpl; congruence. Qed.

Lemma occurs_any_app x l1 l2 : occurs_any x (l1 ++ l2) = occurs_any x l1 || occurs_any x l2.
Proof. induction l1; simpl; [reflexivity|]. rewrite IHl1, orb_assoc; reflexivity. Qed.

Lemma occurs_any_in x l c : In c l -> occurs x c = true -> occurs_any x l = true.
Proof.
  induction l as [|a l IH]; simpl; intros Hin Hc; [contradiction|].
  apply orb_true_iff. destruct Hin as [->|H]; [left | right]; auto.
Qed.

(* [occurs] through the generic view of a node *)
Lemma occurs_children x e :
  occurs x e = match e with Name y => String.eqb x y | _ => occurs_any x (children e) end.
Proof.
  destruct e; cbn [occurs children]; rewrite ?occurs_any_fix; cbn [occurs_any];
    rewrite ?occurs_any_app, ?orb_false_r, ?orb_assoc; try reflexivity.
Qed.

Lemma occurs_child x e c : In c (children e) -> occurs x c = true -> occurs x e = true.
Proof.
  intros Hin Hc. rewrite occurs_children. destruct e; try (eapply occurs_any_in; eassumption).
  all: simpl in Hin; contradiction.
Qed.

Lemma agree_child e c E E' : In c (children e) -> agree e E E' -> agree c E E'.
Proof. intros Hin H y Hy. apply H. eapply occurs_child; eassumption. Qed.

Lemma agree_ext_one b p w E E' :
  (forall y, occurs y b = true -> y <> p -> lookup y E = lookup y E') ->
  agree b ((p, w) :: E) ((p, w) :: E').
Proof.
  intros H y Hy. simpl. destruct (String.eqb y p) eqn:Heq; [reflexivity|].
  apply H; [assumption|]. intros ->. rewrite String.eqb_refl in Heq; discriminate.
Qed.

Lemma lookup_app x E0 E :
  lookup x (E0 ++ E) = match lookup x E0 with Some v => Some v | None => lookup x E end.
Proof.
  induction E0 as [|[y v] E0 IH]; simpl; [reflexivity|].
  destruct (String.eqb x y); [reflexivity | apply IH].
Qed.

Lemma agree_app b E0 E E' : agree b E E' -> agree b (E0 ++ E) (E0 ++ E').
Proof. intros H y Hy. rewrite !lookup_app. destruct (lookup y E0); [reflexivity | apply H; assumption]. Qed.

Section Agree.
  Variable B : backend.
  Variable ops : list string.
  Notation ev := (eval B ops).

  Definition agree_ok (e : expr) : Prop :=
    forall E E', agree e E E' -> refines (ev E e) (ev E' e).

  Lemma evals_agree n l E E' :
    (forall e0, size e0 < n -> agree_ok e0) -> sizes l < n ->
    (forall c, In c l -> agree c E E') ->
    Forall2 (fun a a' => refines (ev E a) (ev E' a')) l l.
  Proof.
    intros IH Hn Hag. induction l as [|a l IHl]; constructor.
    - apply IH; [simpl in Hn; lia | apply Hag; left; reflexivity].
    - apply IHl; [simpl in Hn; lia | intros c Hc; apply Hag; right; assumption].
  Qed.

  Lemma omap_agree n l E E' :
    (forall e0, size e0 < n -> agree_ok e0) -> sizes l < n ->
    (forall c, In c l -> agree c E E') ->
    refines (omap (ev E) l) (omap (ev E') l).
  Proof. intros. apply omap_refines2. eapply evals_agree; eassumption. Qed.

  Lemma view_agree n a E E' :
    (forall e0, size e0 < n -> agree_ok e0) -> size a < n -> agree a E E' ->
    aview_refines (view B ops E a) (view B ops E' a).
  Proof.
    intros IH Hn Hag. unfold view, mk_view. split; [|split]; cbn [av_val av_f1 av_f2].
    - apply IH; assumption.
    - intros f Hf. destruct a; try discriminate. destruct ps as [|x [|? ?]]; try discriminate.
      inversion Hf; subst; clear Hf. eexists; split; [reflexivity|]. intros v.
      apply IH; [simpl in Hn; lia|]. apply agree_ext_one. intros y Hy _. apply Hag. exact Hy.
    - intros f Hf. destruct a; try discriminate. destruct ps as [|x [|y [|? ?]]]; try discriminate.
      inversion Hf; subst; clear Hf. eexists; split; [reflexivity|]. intros v w.
      apply IH; [simpl in Hn; lia|]. apply agree_ext_one. intros z Hz _.
      simpl. destruct (String.eqb z x); [reflexivity|]. apply Hag. exact Hz.
  Qed.

  Lemma views_agree n l E E' :
    (forall e0, size e0 < n -> agree_ok e0) -> sizes l < n ->
    (forall c, In c l -> agree c E E') ->
    Forall2 aview_refines (map (view B ops E) l) (map (view B ops E') l).
  Proof.
    intros IH Hn Hag. induction l as [|a l IHl]; simpl; constructor.
    - eapply view_agree; [eassumption | simpl in Hn; lia | apply Hag; left; reflexivity].
    - apply IHl; [simpl in Hn; lia | intros c Hc; apply Hag; right; assumption].
  Qed.

  Lemma sizes_app l1 l2 : sizes (l1 ++ l2) = sizes l1 + sizes l2.
  Proof. induction l1; simpl; auto. rewrite IHl1; lia. Qed.

  Lemma lookup_agree x E E' : agree (Name x) E E' -> lookup x E = lookup x E'.
  Proof. intros H. apply H. simpl. apply String.eqb_refl. Qed.

  Lemma comp_agree n elt gs E E' :
    (forall e0, size e0 < n -> agree_ok e0) -> size elt + sizes gs < n ->
    (forall c, In c (elt :: gs) -> agree c E E') ->
    refines (comp_sem ev E elt gs) (comp_sem ev E' elt gs).
  Proof.
    intros IH Hn Hag. unfold comp_sem.
    destruct gs as [|g gs]; [apply refines_refl|].
    destruct g; try apply refines_refl.
    destruct g1; try apply refines_refl.
    destruct is_async; [apply refines_refl|].
    destruct gs; [|apply refines_refl].
    cbn [sizes] in Hn. rewrite (size_sizes (CompFor _ _ _ _)) in Hn. cbn [children sizes] in Hn.
    assert (Hg : agree (CompFor (Name id) g2 ifs false) E E') by (apply Hag; right; left; reflexivity).
    assert (Hit : agree g2 E E').
    { eapply agree_child; [|exact Hg]. simpl. right; left; reflexivity. }
    assert (Hifs : forall c, In c ifs -> agree c E E').
    { intros c Hc. eapply agree_child; [|exact Hg]. simpl. right; right; assumption. }
    assert (Helt : agree elt E E') by (apply Hag; left; reflexivity).
    apply obind_refines; [apply IH; [lia | assumption]|]. intros s.
    apply obind_refines_r. intros l.
    apply obind_refines.
    - apply ofilter_refines. intros v. apply conds_refines.
      eapply evals_agree; [exact IH | lia |].
      intros c Hc. apply agree_ext_one. intros y Hy _. apply (Hifs c Hc). exact Hy.
    - intros kept. apply option_map_refines. apply omap_refines. intros v.
      apply IH; [lia|]. apply agree_ext_one. intros y Hy _. apply Helt. exact Hy.
  Qed.

  Theorem agree_ok_all : forall n e, size e < n -> agree_ok e.
  Proof.
    induction n as [|n IHn]; intros e Hn; [lia|].
    assert (IH : forall e0, size e0 < size e -> agree_ok e0) by (intros; apply IHn; lia).
    clear IHn Hn. intros E E' Hag.
    pose proof (size_sizes e) as Hsz.
    assert (Hch : forall c, In c (children e) -> agree c E E') by (intros; eapply agree_child; eassumption).
    destruct e; cbn [children sizes] in Hsz; cbn [eval]; try apply refines_refl.
    - (* Name *) apply refines_eq. apply lookup_agree; assumption.
    - (* Attr *)
      apply obind_refines_l. apply IH; [lia | apply Hch; left; reflexivity].
    - (* Call *)
      rewrite sizes_app in Hsz.
      assert (Hargs : forall c, In c args -> agree c E E').
      { intros c Hc. apply Hch. right. apply in_or_app; left; assumption. }
      assert (Hkwv : forall c, In c kwv -> agree c E E').
      { intros c Hc. apply Hch. right. apply in_or_app; right; assumption. }
      assert (Hf : agree e E E') by (apply Hch; left; reflexivity).
      assert (Ra : refines (omap (ev E) args) (omap (ev E') args)).
      { eapply omap_agree; [exact IH | lia | assumption]. }
      assert (Rk : refines (omap (ev E) kwv) (omap (ev E') kwv)).
      { eapply omap_agree; [exact IH | lia | assumption]. }
      destruct kwn as [|k kwn].
      + destruct e; try apply refines_refl.
        * (* Name op *)
          destruct args as [|s rest]; [apply refines_refl|].
          apply apply_op_refines.
          -- apply IH; [cbn [sizes] in Hsz; lia | apply Hargs; left; reflexivity].
          -- eapply (views_agree (size (Call (Name id) (s :: rest) [] kwv))); [exact IH | cbn [sizes] in Hsz; lia |].
             intros c Hc. apply Hargs. right; assumption.
        * (* Attr s m *)
          assert (Hv : agree e E E').
          { intros y Hy. apply Hf. simpl. exact Hy. }
          assert (Hsa : size (Attr e a) = S (size e)) by reflexivity.
          destruct (is_op ops a).
          -- apply apply_op_refines.
             ++ apply IH; [cbn [sizes] in Hsz; lia | assumption].
             ++ eapply (views_agree (size (Call (Attr e a) args [] kwv))); [exact IH | cbn [sizes] in Hsz; lia | assumption].
          -- apply obind_refines; [apply IH; [cbn [sizes] in Hsz; lia | assumption]|].
             intros r. apply obind_refines_l. assumption.
        * (* Lambda ps b *)
          assert (Hsl : size (Lambda ps e) = S (size e)) by reflexivity.
          apply obind_refines; [assumption|]. intros vs.
          apply obind_refines_r. intros E0.
          apply IH; [cbn [sizes] in Hsz; lia|]. apply agree_app. intros y Hy. apply Hf. simpl. exact Hy.
      + apply obind_refines; [assumption|]. intros vs.
        apply obind_refines; [assumption|]. intros kvs.
        apply obind_refines_r. intros kws.
        destruct e; try apply refines_refl.
        * (* method call with keywords *)
          assert (Hsa : size (Attr e a) = S (size e)) by reflexivity.
          apply obind_refines_l. apply IH; [cbn [sizes] in Hsz; lia|]. intros y Hy. apply Hf. simpl. exact Hy.
        * assert (Hsl : size (Lambda ps e) = S (size e)) by reflexivity.
          apply obind_refines_r. intros E0.
          apply IH; [cbn [sizes] in Hsz; lia|]. apply agree_app. intros y Hy. apply Hf. simpl. exact Hy.
    - (* UnaryOp *) apply obind_refines_l. apply IH; [lia | apply Hch; left; reflexivity].
    - (* BinOp *)
      apply obind_refines; [apply IH; [lia | apply Hch; left; reflexivity]|]. intros a.
      apply obind_refines_l. apply IH; [lia | apply Hch; right; left; reflexivity].
    - (* BoolOp *)
      apply boolop_refines. eapply evals_agree; [exact IH | lia | assumption].
    - (* Compare *)
      apply obind_refines; [apply IH; [lia | apply Hch; left; reflexivity]|]. intros lv.
      apply compare_refines. eapply evals_agree; [exact IH | lia |].
      intros c Hc. apply Hch. right; assumption.
    - (* IfExp *)
      apply obind_refines; [apply IH; [lia | apply Hch; left; reflexivity]|]. intros cv.
      destruct (truthy cv); apply IH; try lia; apply Hch; simpl; auto.
    - (* Tuple *) apply option_map_refines. eapply omap_agree; [exact IH | lia | assumption].
    - (* List *) apply option_map_refines. eapply omap_agree; [exact IH | lia | assumption].
    - (* Dict *)
      rewrite sizes_app in Hsz.
      destruct (Nat.eqb (length ks) (length vs)); [|apply refines_refl].
      apply obind_refines.
      + eapply omap_agree; [exact IH | lia |]. intros c Hc. apply Hch. apply in_or_app; left; assumption.
      + intros kvs. apply obind_refines_l.
        eapply omap_agree; [exact IH | lia |]. intros c Hc. apply Hch. apply in_or_app; right; assumption.
    - (* Subscript *)
      apply obind_refines; [apply IH; [lia | apply Hch; left; reflexivity]|]. intros a.
      apply obind_refines_l. apply IH; [lia | apply Hch; right; left; reflexivity].
    - (* ListComp *) eapply comp_agree; [exact IH | lia | assumption].
    - (* GenExp *) eapply comp_agree; [exact IH | lia | assumption].
  Qed.
End Agree.

Theorem eval_agree B ops e E E' : agree e E E' -> eval B ops E e = eval B ops E' e.
Proof.
  intros H. apply refines_antisym.
  - eapply agree_ok_all; [apply Nat.lt_succ_diag_r | exact H].
  - eapply agree_ok_all; [apply Nat.lt_succ_diag_r | apply agree_sym; exact H].
Qed.

(* weakening: a binding for a name that does not occur in [e] is irrelevant, wherever it sits *)
Theorem eval_weaken B ops e E0 x v E :
  occurs x e = false -> eval B ops (E0 ++ (x, v) :: E) e = eval B ops (E0 ++ E) e.
Proof.
  intros Hx. apply eval_agree. intros y Hy. rewrite !lookup_app.
  destruct (lookup y E0); [reflexivity|]. simpl.
  destruct (String.eqb y x) eqn:Heq; [|reflexivity].
  apply String.eqb_eq in Heq; subst. congruence.
Qed.

(* shadowing: a binding hidden by a later binding of the same name is irrelevant *)
Theorem eval_shadow B ops e E0 x v w E :
  eval B ops (E0 ++ (x, v) :: (x, w) :: E) e = eval B ops (E0 ++ (x, v) :: E) e.
Proof.
  apply eval_agree. intros y _. rewrite !lookup_app. destruct (lookup y E0); [reflexivity|].
  simpl. destruct (String.eqb y x); reflexivity.
Qed.

(* exchange of two distinct names *)
Theorem eval_exchange B ops e E0 x v y w E :
  x <> y -> eval B ops (E0 ++ (x, v) :: (y, w) :: E) e = eval B ops (E0 ++ (y, w) :: (x, v) :: E) e.
Proof.
  intros Hxy. apply eval_agree. intros z _. rewrite !lookup_app. destruct (lookup z E0); [reflexivity|].
  simpl. destruct (String.eqb z x) eqn:E1; destruct (String.eqb z y) eqn:E2; try reflexivity.
  apply String.eqb_eq in E1, E2; subst; contradiction.
Qed.

(* Relational congruence of the reference semantics over two environments.

   [vrel Ein E c c']: whatever [c] evaluates to under [Ein], [c'] evaluates to under [E]; and
   if [c] is a 1- or 2-parameter lambda, [c'] is one too and refines it pointwise.  The lemmas
   below lift [vrel] on the children of a node to the node itself, for the nodes the simplifier
   treats by generic_visit and for calls whose callee keeps its shape.  They are the glue of
   [simp_preserves] (Proofs/SimplifyPreserves.v): [Ein] is the environment of the query being
   visited (with the pending definitions bound), [E] that of the emitted query. *)
From FA.Base Require Import PyAst Induct Value Eval Traverse.
From FA.Proofs Require Import TraverseFacts Refine EvalCong.
From Coq Require Import Lia.

Section Rel.
  Variable B : backend.
  Variable ops : list string.
  Variables Ein E : env.
  Notation ev := (eval B ops).

  Definition vrel (c c' : expr) : Prop := aview_refines (view B ops Ein c) (view B ops E c').

  Lemma vrel_val c c' : vrel c c' -> refines (ev Ein c) (ev E c').
  Proof. intros [H _]. exact H. Qed.

  Definition not_lambda (c : expr) : bool := match c with Lambda _ _ => false | _ => true end.

  Lemma vrel_nonlam c c' : not_lambda c = true -> refines (ev Ein c) (ev E c') -> vrel c c'.
  Proof.
    intros Hn Hr. split; [exact Hr|]. split; intros f Hf; destruct c; try discriminate.
  Qed.

  Lemma evals_vrel l l' : Forall2 vrel l l' -> Forall2 (fun a a' => refines (ev Ein a) (ev E a')) l l'.
  Proof. induction 1; constructor; [apply vrel_val|]; assumption. Qed.

  Lemma omap_vrel l l' : Forall2 vrel l l' -> refines (omap (ev Ein) l) (omap (ev E) l').
  Proof. intros H. apply omap_refines2. apply evals_vrel; assumption. Qed.

  Lemma views_vrel l l' :
    Forall2 vrel l l' -> Forall2 aview_refines (map (view B ops Ein) l) (map (view B ops E) l').
  Proof. induction 1; simpl; constructor; assumption. Qed.

  (* ---- nodes treated by generic_visit ---- *)

  Lemma rel_unary o a a' : vrel a a' -> refines (ev Ein (UnaryOp o a)) (ev E (UnaryOp o a')).
  Proof. intros H. cbn [eval]. apply obind_refines_l. apply vrel_val; assumption. Qed.

  Lemma rel_binop o l l' r r' :
    vrel l l' -> vrel r r' -> refines (ev Ein (BinOp o l r)) (ev E (BinOp o l' r')).
  Proof.
    intros Hl Hr. cbn [eval]. apply obind_refines; [apply vrel_val; assumption|]. intros a.
    apply obind_refines_l. apply vrel_val; assumption.
  Qed.

  Lemma rel_boolop o es es' : Forall2 vrel es es' -> refines (ev Ein (BoolOp o es)) (ev E (BoolOp o es')).
  Proof. intros H. cbn [eval]. apply boolop_refines. apply evals_vrel; assumption. Qed.

  Lemma rel_compare l l' cops rs rs' :
    vrel l l' -> Forall2 vrel rs rs' -> refines (ev Ein (Compare l cops rs)) (ev E (Compare l' cops rs')).
  Proof.
    intros Hl Hr. cbn [eval]. apply obind_refines; [apply vrel_val; assumption|]. intros lv.
    apply compare_refines. apply evals_vrel; assumption.
  Qed.

  Lemma rel_ifexp c c' t t' f f' :
    vrel c c' -> vrel t t' -> vrel f f' -> refines (ev Ein (IfExp c t f)) (ev E (IfExp c' t' f')).
  Proof.
    intros Hc Ht Hf. cbn [eval]. apply obind_refines; [apply vrel_val; assumption|]. intros cv.
    destruct (truthy cv); apply vrel_val; assumption.
  Qed.

  Lemma rel_tuple es es' : Forall2 vrel es es' -> refines (ev Ein (Tuple es)) (ev E (Tuple es')).
  Proof. intros H. cbn [eval]. apply option_map_refines. apply omap_vrel; assumption. Qed.

  Lemma rel_list es es' : Forall2 vrel es es' -> refines (ev Ein (List es)) (ev E (List es')).
  Proof. intros H. cbn [eval]. apply option_map_refines. apply omap_vrel; assumption. Qed.

  Lemma F2_length {A C} (R : A -> C -> Prop) l l' : Forall2 R l l' -> length l = length l'.
  Proof. induction 1; simpl; congruence. Qed.

  Lemma rel_dict ks ks' vs vs' :
    Forall2 vrel ks ks' -> Forall2 vrel vs vs' -> refines (ev Ein (Dict ks vs)) (ev E (Dict ks' vs')).
  Proof.
    intros Hk Hv. cbn [eval].
    rewrite <- (F2_length _ _ _ Hk), <- (F2_length _ _ _ Hv).
    destruct (Nat.eqb (length ks) (length vs)); [|apply refines_refl].
    apply obind_refines; [apply omap_vrel; assumption|]. intros kvs.
    apply obind_refines_l. apply omap_vrel; assumption.
  Qed.

  Lemma rel_attr v v' a : vrel v v' -> refines (ev Ein (Attr v a)) (ev E (Attr v' a)).
  Proof. intros H. cbn [eval]. apply obind_refines_l. apply vrel_val; assumption. Qed.

  Lemma rel_subscript v v' s s' :
    vrel v v' -> vrel s s' -> refines (ev Ein (Subscript v s)) (ev E (Subscript v' s')).
  Proof.
    intros Hv Hs. cbn [eval]. apply obind_refines; [apply vrel_val; assumption|]. intros a.
    apply obind_refines_l. apply vrel_val; assumption.
  Qed.

  (* ---- calls whose callee keeps its shape ---- *)

  Lemma rel_call_name op args args' kwn kwv kwv' :
    Forall2 vrel args args' -> Forall2 vrel kwv kwv' ->
    refines (ev Ein (Call (Name op) args kwn kwv)) (ev E (Call (Name op) args' kwn kwv')).
  Proof.
    intros Ha Hk. cbn [eval]. destruct kwn as [|k kwn].
    - destruct Ha as [|s s' rest rest' Hs Hrest]; [apply refines_refl|].
      cbn [map]. apply apply_op_refines; [apply vrel_val; assumption | apply views_vrel; assumption].
    - apply obind_refines; [apply omap_vrel; assumption|]. intros vs.
      apply obind_refines_l. apply omap_vrel; assumption.
  Qed.

  Lemma rel_call_method s s' m args args' kwn kwv kwv' :
    vrel s s' -> Forall2 vrel args args' -> Forall2 vrel kwv kwv' ->
    refines (ev Ein (Call (Attr s m) args kwn kwv)) (ev E (Call (Attr s' m) args' kwn kwv')).
  Proof.
    intros Hs Ha Hk. cbn [eval]. destruct kwn as [|k kwn].
    - destruct (is_op ops m).
      + apply apply_op_refines; [apply vrel_val; assumption | apply views_vrel; assumption].
      + apply obind_refines; [apply vrel_val; assumption|]. intros r.
        apply obind_refines_l. apply omap_vrel; assumption.
    - apply obind_refines; [apply omap_vrel; assumption|]. intros vs.
      apply obind_refines; [apply omap_vrel; assumption|]. intros kvs.
      apply obind_refines_r. intros kws. apply obind_refines_l. apply vrel_val; assumption.
  Qed.

  (* a call whose callee is neither a name, an attribute nor a lambda has no value *)
  Lemma call_other_none f args kwn kwv :
    match f with Name _ | Attr _ _ | Lambda _ _ => False | _ => True end ->
    ev Ein (Call f args kwn kwv) = None.
  Proof.
    intros Hf. cbn [eval]. destruct kwn as [|k kwn].
    - destruct f; try contradiction; reflexivity.
    - destruct (omap (ev Ein) args) as [vs|]; [|reflexivity]. cbn [obind].
      destruct (omap (ev Ein) kwv) as [kvs|]; [|reflexivity]. cbn [obind].
      destruct (zip_kw (k :: kwn) kvs) as [kws|]; [|reflexivity]. cbn [obind].
      destruct f; try contradiction; reflexivity.
  Qed.
End Rel.

(* C12, root_recoverable: for every stream derived from a dataset d by any sequence of stream operations,
   find_EventDataset applied to the stream's AST returns the node carrying d (its _eds_object attribute is d)
   and _get_executor's walk along args[0] ends at d's executor. *)
From Coq Require Import String List Arith Bool Lia.
From FA.Gen Require Import TablesStream.
From FA.Model Require Import Heap Stream.
From FA.Proofs Require Import HeapFacts StreamFrame StreamWalk StreamQmd StreamParam StreamErase StreamExec.
Import ListNotations.
Open Scope list_scope.
Open Scope nat_scope.

Definition good (d : nat) (t : atree) : Prop :=
  exec_walk t = Ok (EDs d) /\
  exists at_ cls fs, fr_walk t (Ok None) = Ok (Some (G at_ cls fs)) /\ assoc "_eds_object" at_ = Some (AEds d).

Definition fr_quiet (t : atree) : Prop := forall st, fr_walk t st = st.

Lemma no_ds_quiet : forall X Y (f : X -> Y) (it : gtree X), no_ds it = true -> forall st, fr_walk (gmap f it) st = st.
Proof.
  intros X Y f it. induction it as [a|x cls fs IH] using gtree_ind'; intros H st.
  - destruct st as [[n|]|e]; reflexivity.
  - cbn [no_ds] in H. apply andb_true_iff in H. destruct H as [Hc Hk]. apply negb_true_iff in Hc.
    rewrite gmap_G, fr_walk_G, func_is_gmap, Hc. destruct st as [ds|e]; [|reflexivity].
    generalize (Ok ds : res (option (gtree Y))). clear ds Hc. rewrite forallb_forall in Hk.
    induction fs as [|fl r IHr]; intros st0; [reflexivity|].
    inversion IH as [|? ? Hfl Hr]; subst. unfold fr_fields in *. cbn [map fold_left fmapF snd].
    assert (Hkids : forall st1, fr_kids (map (gmap f) (snd fl)) st1 = st1).
    { specialize (Hk fl (or_introl eq_refl)). rewrite forallb_forall in Hk.
      set (ks := snd fl) in *. clearbody ks. clear -Hfl Hk.
      induction Hfl as [|k kr Hk1 _ IHk]; intros st1; [reflexivity|].
      unfold fr_kids in *. cbn [map fold_left]. rewrite Hk1 by (apply Hk; now left).
      apply IHk. intros; apply Hk; now right. }
    rewrite Hkids. apply IHr; [exact Hr|intros; apply Hk; now right].
Qed.

Definition anno_attrs (x : ianno) : attrs := match x with INew a => a | IRef _ => [] end.

Lemma inst_ref_free_gmap : forall rho it, ref_free it = true -> inst rho it = Some (gmap anno_attrs it).
Proof.
  intros rho it. induction it as [a|x cls fs IH] using gtree_ind'; intros H; [reflexivity|].
  destruct x as [s|at_]; [discriminate|]. cbn [ref_free] in H. rewrite forallb_forall in H.
  rewrite inst_G, gmap_G. cbn [anno_attrs].
  rewrite (sequence_map_some _ _ _ (fmapF anno_attrs)); [reflexivity|].
  rewrite Forall_forall in *. intros fl Hin. specialize (IH fl Hin). specialize (H fl Hin).
  rewrite forallb_forall in H. unfold inst_field, inst_kids.
  rewrite (sequence_map_some _ _ _ (gmap anno_attrs)); [reflexivity|].
  rewrite Forall_forall in *. intros k Hk. apply IH; auto.
Qed.

Lemma supplied_quiet : forall rho it, ref_free it = true -> no_ds it = true ->
  exists t, inst rho it = Some t /\ fr_quiet t.
Proof.
  intros rho it Hr Hn. exists (gmap anno_attrs it). split; [now apply inst_ref_free_gmap|].
  intros st. now apply no_ds_quiet.
Qed.

Lemma supplied_kids : forall rho its, Forall (fun it => ref_free it = true /\ no_ds it = true) its ->
  exists ts, inst_kids rho its = Some ts /\ Forall fr_quiet ts.
Proof.
  intros rho its H. induction H as [|it l [Hr Hn] _ [ts [Hts Hq]]]; [exists []; split; [reflexivity|constructor]|].
  destruct (supplied_quiet rho it Hr Hn) as [t [Ht Hqt]]. exists (t :: ts). split; [|now constructor].
  unfold inst_kids in *. cbn [map sequence]. now rewrite Ht, Hts.
Qed.

Lemma fr_kids_quiet : forall ts st, Forall fr_quiet ts -> fr_kids ts st = st.
Proof.
  intros ts st H. revert st. induction H as [|t l Ht _ IH]; intros st; [reflexivity|].
  unfold fr_kids in *. cbn [fold_left]. rewrite Ht. apply IH.
Qed.

(* name(parent, supplied trees...) is as good as the parent *)
Lemma good_call : forall d name tp ts, String.eqb name "EventDataset" = false ->
  good d tp -> Forall fr_quiet ts -> good d (call_tree [] name (tp :: ts)).
Proof.
  intros d name tp ts Hn [He (at_ & cls & fs & Hf & Ha)] Hq. split; [exact He|].
  exists at_, cls, fs. split; [|exact Ha].
  unfold call_tree. rewrite fr_walk_G.
  match goal with |- (if ?c then _ else _) = _ => assert (Hc : c = false) end.
  { unfold func_is, get_field. cbn. rewrite Hn. reflexivity. }
  rewrite Hc.
  unfold fr_fields. cbn [fold_left snd]. unfold fr_kids at 3. cbn [fold_left].
  unfold fr_kids at 2. cbn [fold_left].
  match goal with |- context [fr_walk (G [] "Name"%string ?f) (Ok None)] =>
    change (fr_walk (G [] "Name"%string f) (Ok None)) with (@Ok (option (gtree attrs)) None) end.
  rewrite Hf. fold (fr_kids ts (Ok (Some (G at_ cls fs)))).
  rewrite (fr_kids_quiet ts _ Hq). reflexivity.
Qed.

Definition rlike (rho : nat -> option atree) (d : nat) (it : itree) : Prop := exists t, inst rho it = Some t /\ good d t.

Lemma rlike_call : forall rho d name src args, String.eqb name "EventDataset" = false ->
  rlike rho d src -> Forall (fun it => ref_free it = true /\ no_ds it = true) args ->
  rlike rho d (fcall [] name (src :: args)).
Proof.
  intros rho d name src args Hn [t [Ht Hg]] Hargs. destruct (supplied_kids rho args Hargs) as [ts [Hts Hq]].
  exists (call_tree [] name (t :: ts)). split; [|now apply good_call].
  rewrite inst_fcall. unfold inst_kids in *. cbn [map sequence]. now rewrite Ht, Hts.
Qed.

Lemma rlike_wrappers : forall rho d name cb src, String.eqb name "EventDataset" = false ->
  rlike rho d src -> Forall (fun it => ref_free it = true /\ no_ds it = true) cb ->
  rlike rho d (fold_left (fun acc md => fcall [] name [acc; md]) cb src).
Proof.
  intros rho d name cb. induction cb as [|md r IH]; intros src Hn Hs Hcb; [exact Hs|].
  inversion Hcb; subst. cbn [fold_left]. apply IH; [exact Hn| |assumption].
  apply rlike_call; [exact Hn|exact Hs|]. constructor; [assumption|constructor].
Qed.

(* the node names the operations emit are not "EventDataset" (read from the generated tables) *)
Lemma operator_names_ok : forallb (fun x => negb (String.eqb (snd (fst x)) "EventDataset")) operator_nodes = true.
Proof. reflexivity. Qed.
Lemma terminal_names_ok : forallb (fun x => negb (String.eqb (snd (fst x)) "EventDataset")) terminals = true.
Proof. reflexivity. Qed.

Lemma node_name_ok : forall m nm, node_name m = Ok nm -> String.eqb nm "EventDataset" = false.
Proof.
  intros m nm H. unfold node_name in H.
  destruct (find (fun x => String.eqb m (fst (fst x))) operator_nodes) as [x|] eqn:E; [|discriminate].
  inversion H; subst. apply find_some in E. destruct E as [Hin _].
  pose proof operator_names_ok as Ht. rewrite forallb_forall in Ht. specialize (Ht x Hin). now apply negb_true_iff in Ht.
Qed.

Lemma exec_attr_not_qmd : String.eqb executor_attr_name "_q_metadata" = false.
Proof. reflexivity. Qed.

Lemma good_copy : forall d at_ cls fs v, good d (G at_ cls fs) -> good d (G (assoc_set "_q_metadata" v at_) cls fs).
Proof.
  intros d at_ cls fs v [He (a0 & c0 & f0 & Hf & Ha)]. split.
  - cbn [exec_walk] in *. unfold exec_of in *.
    rewrite assoc_set_other by (intros Hc; pose proof exec_attr_not_qmd as Hx; rewrite Hc, String.eqb_refl in Hx; discriminate).
    exact He.
  - rewrite fr_walk_G in Hf. destruct (String.eqb cls "Call" && func_is fs "EventDataset") eqn:Ec.
    + inversion Hf; subst a0 c0 f0. exists (assoc_set "_q_metadata" v at_), cls, fs.
      split. { rewrite fr_walk_G. match goal with |- (if ?c then _ else _) = _ => replace c with true by (symmetry; exact Ec) end. reflexivity. } rewrite assoc_set_other by discriminate. exact Ha.
    + exists a0, c0, f0. split; [|exact Ha]. rewrite fr_walk_G.
      match goal with |- (if ?c then _ else _) = _ => replace c with false by (symmetry; exact Ec) end. exact Hf.
Qed.

(* ---------------------------------------------------------------- the invariant *)
Definition RInv (st : state) (dn : list nat * nat) : Prop :=
  wf st /\ snd dn = nds st /\ length (fst dn) = length (streams st) /\
  forall s x, nth_error (streams st) s = Some x ->
    exists t, unfold (heap_ st) (root x) = Some t /\ good (nth s (fst dn) 0) t.

Lemma RInv_init : RInv init ([], 0).
Proof. split; [apply wf_init|]. repeat split. intros s x H. destruct s; discriminate. Qed.

Lemma RInv_add : forall st ds n h x n' d,
  RInv st (ds, n) -> heap_ext (heap_ st) h -> root x < length h ->
  (exists t, unfold h (root x) = Some t /\ good d t) ->
  RInv (fst (add_stream st h x n')) (ds ++ [d], n').
Proof.
  intros st ds n h x n' d (Hwf & Hn & Hlen & Hs) Hx Hr Hnew. cbn [fst snd] in *.
  destruct (add_stream_frame st h x n' _ _ Hwf Hx Hr (surjective_pairing _)) as [_ Hwf'].
  split; [exact Hwf'|]. unfold add_stream. cbn [fst snd streams heap_ nds].
  split; [reflexivity|]. split; [rewrite !app_length; cbn; lia|].
  intros s y E. destruct (Nat.lt_ge_cases s (length (streams st))) as [Hlt|Hge].
  - rewrite nth_error_app1 in E by exact Hlt. destruct (Hs s y E) as [t [Ht Hg]].
    exists t. split; [rewrite (unfold_ext _ _ _ Hx); [exact Ht|eapply wf_nth; eassumption]|].
    rewrite app_nth1 by lia. exact Hg.
  - rewrite nth_error_app2 in E by exact Hge.
    destruct (s - length (streams st)) as [|m] eqn:Em; [|destruct m; discriminate].
    cbn in E. inversion E; subst y. assert (s = length ds) by lia. subst s.
    rewrite app_nth2 by lia. rewrite Nat.sub_diag. exact Hnew.
Qed.

Lemma RInv_heap : forall st dn h l c, RInv st dn -> heap_ext (heap_ st) h -> RInv (mkstate h (streams st) (nds st) l c) dn.
Proof.
  intros st dn h l c (Hwf & Hn & Hlen & Hs) Hx. split; [|split; [exact Hn|split; [exact Hlen|]]].
  - unfold wf in *. cbn [streams heap_]. eapply Forall_impl; [|exact Hwf]. intros y Hy. cbn beta in Hy.
    apply heap_ext_length in Hx. lia.
  - cbn [streams heap_]. intros s x E. destruct (Hs s x E) as [t [Ht Hg]]. exists t. split; [|exact Hg].
    rewrite (unfold_ext _ _ _ Hx); [exact Ht|]. eapply wf_nth; eassumption.
Qed.

Lemma forallb_and_Forall : forall (P Q : itree -> bool) l,
  forallb (fun t => P t && Q t) l = true -> Forall (fun it => P it = true /\ Q it = true) l.
Proof.
  intros P Q l H. rewrite forallb_forall in H. rewrite Forall_forall. intros x Hx.
  specialize (H x Hx). now apply andb_true_iff in H.
Qed.

Lemma build_rlike : forall st ds n o it ty,
  RInv st (ds, n) -> op_derived o = true -> build st o = Ok (it, ty) ->
  rlike (rho_of (map root (streams st)) (heap_ st)) (nth (length ds) (fst (ds_step (ds, n) o true)) 0) it.
Proof.
  intros st ds n o it ty HI Hp Hb. pose proof HI as (Hwf & Hn & Hlen & Hs). cbn [fst snd] in *.
  assert (Hlast : forall e, nth (length ds) (ds ++ [e]) 0 = e).
  { intros e. rewrite app_nth2 by lia. now rewrite Nat.sub_diag. }
  assert (Hpar : forall s ps, nth_error (streams st) s = Some ps ->
            rlike (rho_of (map root (streams st)) (heap_ st)) (nth s ds 0) (G (IRef s) "" [])).
  { intros s ps Es. destruct (Hs s ps Es) as [t [Ht Hg]]. exists t. split; [|exact Hg].
    cbn [inst]. unfold rho_of. now rewrite (map_nth_error root s _ Es). }
  destruct o as [ty0|t ty0|s k lam cb rty|s lit|s kvs|s m lits|s ov title|c r]; cbn [build] in Hb; try discriminate.
  - (* NewDataset *)
    inversion Hb; subst it ty; clear Hb. cbn [ds_step fst]. rewrite Hlast.
    eexists. split; [now rewrite inst_fcall|]. split.
    + cbn [call_tree exec_walk]. unfold exec_of. cbn [assoc]. rewrite String.eqb_refl. now rewrite Hn.
    + do 3 eexists. split; [unfold call_tree; rewrite fr_walk_G; reflexivity|].
      cbn [assoc]. replace (String.eqb "_eds_object" executor_attr_name) with false by reflexivity.
      rewrite String.eqb_refl. now rewrite Hn.
  - (* Derive *)
    destruct (nth_error (streams st) s) as [ps|] eqn:Es; [|discriminate].
    destruct (node_name (dkind_method k)) as [nm|] eqn:Enm; [|discriminate].
    destruct (node_name "MetaData") as [mdn|] eqn:Emd; [|discriminate].
    cbn [ds_step fst]. rewrite Hlast. cbn [op_derived] in Hp.
    apply andb_true_iff in Hp. destruct Hp as [Hp Hcb]. apply andb_true_iff in Hp. destruct Hp as [Hr Hnd].
    assert (Hall : rlike (rho_of (map root (streams st)) (heap_ st)) (nth s ds 0)
                     (fcall [] nm [fold_left (fun acc md => fcall [] mdn [acc; md]) cb (G (IRef s) "" []); lam])).
    { apply rlike_call; [eapply node_name_ok; eassumption| |constructor; [now split|constructor]].
      apply rlike_wrappers; [eapply node_name_ok; eassumption|eapply Hpar; eassumption|now apply forallb_and_Forall]. }
    destruct k; [| |destruct (String.eqb rty bool_ty); [|discriminate]]; inversion Hb; subst it ty; exact Hall.
  - (* MetaData *)
    destruct (nth_error (streams st) s) as [ps|] eqn:Es; [|discriminate].
    destruct (node_name "MetaData") as [mdn|] eqn:Emd; [|discriminate].
    inversion Hb; subst it ty; clear Hb. cbn [ds_step fst]. rewrite Hlast. cbn [op_derived] in Hp.
    apply andb_true_iff in Hp. destruct Hp as [Hr Hnd].
    apply rlike_call; [eapply node_name_ok; eassumption|eapply Hpar; eassumption|constructor; [now split|constructor]].
  - (* Terminal *)
    destruct (nth_error (streams st) s) as [ps|] eqn:Es; [|discriminate].
    destruct (find (fun x => String.eqb m (fst (fst x))) terminals) as [x|] eqn:Ef; [|discriminate].
    destruct (seq_opt_res (map (fun p => assoc p lits) (snd x))) as [args|] eqn:Ea; [|discriminate].
    inversion Hb; subst it ty; clear Hb. cbn [ds_step fst]. rewrite Hlast. cbn [op_derived] in Hp.
    apply rlike_call; [|eapply Hpar; eassumption|].
    + apply find_some in Ef. destruct Ef as [Hin _]. pose proof terminal_names_ok as Ht.
      rewrite forallb_forall in Ht. specialize (Ht x Hin). now apply negb_true_iff in Ht.
    + rewrite Forall_forall. intros a Ha. pose proof (seq_opt_res_in _ _ _ Ea a Ha) as Hin.
      apply in_map_iff in Hin. destruct Hin as [p [Hp1 _]]. apply assoc_in in Hp1.
      rewrite forallb_forall in Hp. specialize (Hp (p, a) Hp1). cbn [snd] in Hp. now apply andb_true_iff in Hp.
Qed.

Lemma step_RInv : forall st dn o st' out,
  RInv st dn -> op_derived o = true -> step st o = (st', out) -> RInv st' (ds_step dn o (is_ostream out)).
Proof.
  intros st [ds n] o st' out HI Hp H. pose proof HI as (Hwf & Hn & Hlen & Hs). cbn [fst snd] in *.
  assert (Hsame : forall e, (st, OErr e) = (st', out) -> RInv st' (ds_step (ds, n) o (is_ostream out))).
  { intros e He. inversion He; subst. exact HI. }
  assert (Hlast : forall e, nth (length ds) (ds ++ [e]) 0 = e).
  { intros e. rewrite app_nth2 by lia. now rewrite Nat.sub_diag. }
  assert (Hbuild : (match build st o with
                    | Err e => (st, OErr e)
                    | Ok (it, ty) =>
                        match alloc (map root (streams st)) it (heap_ st) with
                        | Ok (h', HA a) =>
                            add_stream st h' (mkstream a ty) (match o with NewDataset _ => S (nds st) | _ => nds st end)
                        | Ok (_, HL _) => (st, OErr EBadTree)
                        | Err e => (st, OErr e)
                        end
                    end) = (st', out) -> RInv st' (ds_step (ds, n) o (is_ostream out))).
  { intros Hb. destruct (build st o) as [[it ty]|e] eqn:Eb; [|now apply (Hsame _ Hb)].
    destruct (alloc (map root (streams st)) it (heap_ st)) as [[h' [a|a]]|e] eqn:Ea; try now apply (Hsame _ Hb).
    apply alloc_spec in Ea; [|now apply wf_rs_ok]. destruct Ea as (Hx & Hv & Hu).
    destruct (build_rlike st ds n o it ty HI Hp Eb) as [t [Ht Hg]].
    assert (Hout : out = OStream (length (streams st))) by (unfold add_stream in Hb; now inversion Hb).
    subst out. cbn [is_ostream].
    assert (Hstep : ds_step (ds, n) o true =
                    (ds ++ [nth (length ds) (fst (ds_step (ds, n) o true)) 0],
                     match o with NewDataset _ => S (nds st) | _ => nds st end)).
    { destruct o; cbn [build] in Eb; try discriminate; cbn [ds_step fst]; rewrite Hlast, ?Hn; reflexivity. }
    rewrite Hstep.
    replace st' with (fst (add_stream st h' (mkstream a ty) (match o with NewDataset _ => S (nds st) | _ => nds st end)))
      by now rewrite Hb.
    eapply RInv_add; [exact HI|exact Hx|exact Hv|].
    exists t. split; [|exact Hg]. cbn [root]. change (unfold h' a) with (unfold_v h' (HA a)). now rewrite Hu. }
  destruct o as [ty|t ty|s k lam cb rty|s lit|s kvs|s m lits|s ov title|c r]; try exact (Hbuild H).
  - (* QMetaData *)
    cbn [step] in H. destruct (nth_error (streams st) s) as [ps|] eqn:Es; [|now apply (Hsame _ H)].
    destruct (Hs s ps Es) as [t [Ht Hg]]. rewrite Ht in H.
    destruct (hget (heap_ st) (root ps)) as [base|] eqn:Eb; [|now apply (Hsame _ H)].
    pose proof (wf_nth st s ps Hwf Es) as Hr.
    destruct (copy_unfold _ _ _ _ Eb Ht) as [fs' [Hteq Hcopy]].
    destruct (qmd_added t kvs) as [|kv added].
    + assert (Hout : out = OStream (length (streams st))) by (unfold add_stream in H; now inversion H).
      subst out. cbn [is_ostream ds_step].
      replace st' with (fst (add_stream st (heap_ st) (mkstream (root ps) (ity ps)) (nds st))) by now rewrite H.
      rewrite Hn. eapply RInv_add; [exact HI|apply heap_ext_refl|exact Hr|]. exists t. now split.
    + unfold hcopy in H. rewrite Eb in H. unfold halloc, set_attr in H. rewrite hupd_new in H. cbn [ncls nfields nattrs] in H.
      assert (Hout : out = OStream (length (streams st))) by (unfold add_stream in H; now inversion H).
      subst out. cbn [is_ostream ds_step].
      match type of H with add_stream st ?h ?x ?n0 = _ => replace st' with (fst (add_stream st h x n0)) by now rewrite H end.
      rewrite Hn. eapply RInv_add; [exact HI|apply heap_ext_cons|cbn; lia|].
      cbn [root]. rewrite Hcopy. eexists. split; [reflexivity|]. subst t. now apply good_copy.
  - (* ValueStart *)
    cbn [step] in H. destruct (nth_error (streams st) s) as [ps|] eqn:Es; [|now apply (Hsame _ H)].
    destruct (unfold (heap_ st) (root ps)) as [t|]; [|now apply (Hsame _ H)].
    destruct (match ov with Some k => Ok (EOv k) | None => exec_walk t end) as [exe|e]; [|now apply (Hsame _ H)].
    destruct (remove_empty_h (heap_ st) (root ps)) as [[h' v]|e] eqn:Er; [|now apply (Hsame _ H)].
    inversion H; subst st' out; clear H. cbn [is_ostream ds_step].
    apply RInv_heap; [exact HI|]. eapply remove_empty_h_ext; eassumption.
  - (* ValueFinish *)
    cbn [step] in H. destruct (nth_error (calls st) c) as [[r0|]|]; try now apply (Hsame _ H).
    inversion H; subst st' out; clear H. cbn [is_ostream ds_step].
    apply RInv_heap; [exact HI|apply heap_ext_refl].
Qed.

Lemma run_from_RInv : forall ops st dn,
  RInv st dn -> forallb op_derived ops = true ->
  RInv (fst (run_from st ops)) (ds_replay dn ops (snd (run_from st ops))).
Proof.
  induction ops as [|o r IH]; intros st dn HI Hp; [exact HI|].
  cbn [forallb] in Hp. apply andb_true_iff in Hp. destruct Hp as [Hp1 Hp2].
  cbn [run_from]. destruct (step st o) as [st1 o1] eqn:E1.
  pose proof (step_RInv st dn o st1 o1 HI Hp1 E1) as HI1.
  specialize (IH st1 _ HI1 Hp2). destruct (run_from st1 r) as [st2 os2]. cbn [fst snd ds_replay] in *. exact IH.
Qed.

(* for any stream derived from dataset d by any operations: the finder returns d's node, the executor walk d's executor *)
Theorem root_recoverable : forall ops s,
  forallb op_derived ops = true -> live (run ops) s ->
  stream_dataset (run ops) s = Ok (ds_spec ops s) /\ stream_executor (run ops) s = Ok (EDs (ds_spec ops s)).
Proof.
  intros ops s Hp Hl. pose proof (run_from_RInv ops init ([], 0) RInv_init Hp) as (Hwf & _ & Hlen & Hs).
  unfold stream_dataset, stream_executor, ds_spec, run, outs, live in *.
  destruct (nth_error (streams (fst (run_from init ops))) s) as [x|] eqn:E; [|apply nth_error_None in E; unfold run in Hl; lia].
  destruct (Hs s x E) as [t [Ht [He (at_ & cls & fs & Hf & Ha)]]]. rewrite Ht. split; [|exact He].
  unfold find_root. rewrite Hf, Ha. reflexivity.
Qed.

(* the headline of C12: value() on a stream derived from dataset d, without override, runs once on d's executor
   with remove_empty of the stream's own dump and the title - or the cleaner raises and nothing runs *)
Theorem value_on_own_dataset : forall ops s title st' out,
  forallb op_derived ops = true -> live (run ops) s ->
  step (run ops) (ValueStart s None title) = (st', out) ->
  (exists t ast, abs (heap_ (run ops)) (match nth_error (streams (run ops)) s with Some x => root x | None => 0 end) = Some t /\
                 clean t = Ok ast /\
                 log st' = log (run ops) ++ [(EDs (ds_spec ops s), Some ast, title)] /\
                 out = OCall (length (calls (run ops)))) \/
  (exists e, st' = run ops /\ out = OErr e /\ log st' = log (run ops)).
Proof.
  intros ops s title st' out Hp Hl H.
  destruct (root_recoverable ops s Hp Hl) as [_ He]. unfold stream_executor in He.
  destruct (nth_error (streams (run ops)) s) as [x|] eqn:Es; [|discriminate].
  destruct (unfold (heap_ (run ops)) (root x)) as [t|] eqn:Et; [|discriminate].
  destruct (value_routes_once (run ops) s None title st' out x t Es Et H) as [Ha Hm].
  rewrite He in Hm. destruct (clean (erase t)) as [ast|e] eqn:Ec.
  - left. exists (erase t), ast. destruct Hm as (Hlog & Hout & _). repeat split; assumption.
  - right. exists e. destruct Hm as [-> ->]. repeat split.
Qed.

(* C09: callback plumbing of the type follower - order, call sites seen, rewrites emitted, events of nested
   operator lambdas handed to the enclosing stream.  (The whole-query statement [callbacks_exact] is not proved:
   see Properties/C09.v.) *)
From FA.Base Require Import PyAst Value Induct.
From FA.Gen Require Import TablesUtil TablesTypes.
From FA.Model Require Import TypeDefs TypeFollow.
From FA.Proofs Require Import TypeFollowFacts.

Section CB.
  Variable W : world.
  Notation spec := (cb_spec (w_cb W)).

  (* one callback: it is logged with the site it was given, its metadata follows, the site it returns is its rewrite *)
  Lemma run_cb_some id site :
    run_cb W (Some id) site = (apply_rw (cb_rw (spec id)) site, EvCall id site :: md_events (spec id)).
  Proof. reflexivity. Qed.

  Lemma run_cb_none site : run_cb W None site = (site, []).
  Proof. reflexivity. Qed.

  (* class callback first, on the written site; then the method callback on what the class callback returned;
     what is emitted is the method callback's rewrite *)
  Lemma class_before_method_x bo m c d site :
    class_cb (w_ct W) bo = Some c -> m_cb m = Some d ->
    method_callbacks W bo m site =
      (apply_rw (cb_rw (spec d)) (apply_rw (cb_rw (spec c)) site),
       (EvCall c site :: md_events (spec c)) ++ (EvCall d (apply_rw (cb_rw (spec c)) site) :: md_events (spec d))).
  Proof. intros Hc Hd. unfold method_callbacks. rewrite Hc, Hd. reflexivity. Qed.

  Lemma only_class_x bo m c site :
    class_cb (w_ct W) bo = Some c -> m_cb m = None ->
    method_callbacks W bo m site = (apply_rw (cb_rw (spec c)) site, EvCall c site :: md_events (spec c)).
  Proof. intros Hc Hd. unfold method_callbacks. rewrite Hc, Hd. cbn. rewrite app_nil_r. reflexivity. Qed.

  Lemma only_method_x bo m d site :
    class_cb (w_ct W) bo = None -> m_cb m = Some d ->
    method_callbacks W bo m site = (apply_rw (cb_rw (spec d)) site, EvCall d site :: md_events (spec d)).
  Proof. intros Hc Hd. unfold method_callbacks. rewrite Hc, Hd. reflexivity. Qed.

  (* no callback registered: nothing fires, the site is left alone *)
  Lemma no_callback_no_event_x bo m site :
    class_cb (w_ct W) bo = None -> m_cb m = None -> method_callbacks W bo m site = (site, []).
  Proof. intros Hc Hd. unfold method_callbacks. rewrite Hc, Hd. reflexivity. Qed.

  (* the operator of a nested lambda hands over every event of the lambda body, in order, and nothing else *)
  Lemma finish_op_events_x op item p b t ev lam t' ev' :
    finish_op W op item p (b, t, ev) = Ok (lam, t', ev') -> ev' = ev /\ lam = Lambda [p] b.
  Proof.
    unfold finish_op. destruct (negb (check_ast (Lambda [p] b))); [discriminate|].
    destruct op; try discriminate; try (intros H; inversion H; auto; fail).
    destruct (ty_eqb t TBool); intros H; inversion H; auto.
  Qed.

  Lemma nested_events_surface_x bo m f' a p k kws r :
    snd a = NLam p k ->
    follow_on_stream_obj W bo m f' [a] kws = Ok (Some r) ->
    exists item b t ev, k item = Ok (b, t, ev) /\ mr_ev r = ev /\
                        exists t', mr_node r = Call f' [Lambda [p] b] (map fst kws) (map (fun kv => aexpr (snd kv)) kws)
                                   /\ mr_ty r = TIter t'.
  Proof.
    intros Ha H. unfold follow_on_stream_obj in H.
    destruct bo; try discriminate. destruct (is_collection (w_ct W) c); [|discriminate].
    destruct args as [|item targs]; [discriminate|].
    destruct (m_op m) eqn:Eop; try discriminate; rewrite Ha in H;
      (apply bind_ok in H; destruct H as ([[b t] ev] & Hk & H);
       apply bind_ok in H; destruct H as ([[lam t'] ev'] & Hf & H);
       apply finish_op_events_x in Hf; destruct Hf as [-> ->];
       inversion H; subst; cbn; exists item, b, t, ev; repeat split; auto; exists t'; split; reflexivity).
  Qed.

  (* a registered function: the processor is called once with the normalised call; its rewrite is emitted *)
  Lemma function_processor_x fn args kwn kwv node t ev :
    process_function_call W fn args kwn kwv = Ok (node, t, ev) ->
    exists a2 k2, node = fst (run_cb W (f_proc fn) (Call (Name (f_name fn)) a2 (map fst k2) (map snd k2))) /\
                  ev = snd (run_cb W (f_proc fn) (Call (Name (f_name fn)) a2 (map fst k2) (map snd k2))).
  Proof.
    unfold process_function_call. intros H.
    destruct (fill Const (f_params fn) args _) as [[a2 k2]|p]; [|discriminate].
    exists a2, k2.
    destruct (run_cb W (f_proc fn) (Call (Name (f_name fn)) a2 (map fst k2) (map snd k2))) as [s e].
    inversion H; subst. split; reflexivity.
  Qed.

  (* a parameterized property: the callback gets the call without the subscript, the parameters by value (the slice
     literal), and the emitted site is its rewrite *)
  Lemma param_by_value_x v tv a s args kwn kwv node t ev :
    process_parameterized W v tv a s args kwn kwv = Ok (node, t, ev) ->
    exists id, node = apply_rw (cb_rw (spec id)) (Call (Attr v a) args kwn kwv) /\ t = cb_ty (spec id) /\
               ev = EvParam id (Call (Attr v a) args kwn kwv) s :: md_events (spec id) /\ literal_eval s <> None.
  Proof.
    unfold process_parameterized. intros H.
    destruct (get_method_and_class (w_ct W) tv a) as [[c [m|[id|]]]|]; try discriminate.
    destruct (literal_eval s) eqn:El; [|discriminate]. inversion H; subst.
    exists id. repeat split; auto. discriminate.
  Qed.
End CB.

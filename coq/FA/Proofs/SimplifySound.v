(* C02, whole algorithm: the simplifier model preserves the meaning of every query.

   Theorem [simp_sound] (for every fuel, by strong induction on it): if [simp fuel st bound c e] returns
   [Ok (e', c')], the stack is well-formed for the counter ([stack_ok]: its keys are the library's
   fresh names below [c]; its definitions are well-formed, below [c], bind only names the backend
   knows nothing about, and mention neither a key nor [First]) and the query is admissible ([pre]:
   well-formed [wfq], mentions no fresh name at or above [c], binds only names the backend gives no
   function meaning to, binds no stack key, does not mention [First]), then ([post]) the counter only
   grows, [e'] is well-formed, below [c'], binds only such names, mentions no stack key and no
   [First] - so that visiting it again under the same stack substitutes nothing - and
     for every pair of environments with [env_for st E Ein] (= [Ein] is [E] extended by the values of
     the pending definitions), whatever [e] evaluates to under [Ein], [e'] evaluates to under [E];
     and if [e] is a one- or two-parameter lambda so is [e'] and it refines [e] pointwise ([vrel]).
   Corollary [simp_preserves] for the entry point [simplify] (empty stack): [eval E e] refines to
   [eval E e'] for every environment (dataset) [E] and every backend satisfying [backend_ok].

   Scope, stated in the hypotheses: (1) [mentions "First" e = false] - the First push-through rules
   are outside this theorem, because LINQ's Select is lazy and the reference semantics [eval] is an
   eager list semantics: pushing an attribute through First evaluates the selection on every element
   (rule theorems [rule_First_attr_back] / [Fst_Sel_total] in Proofs/SimplifySem.v state exactly what
   holds; the CPython oracle of harness/props/c02.py covers First with lazy sequences); (2) [backend_ok]:
   the backend gives no meaning, as function names, to the fresh names arg_N, and dictionaries have no
   methods or functions (they are records); (3) [bok]: the names the query binds are not function names
   of the backend (the semantics is first-order: a parameter used as a callee has no value);
   (4) distinct parameters and no comprehension nodes (in [wfq]; sugar is lowered before).

   Engines: Proofs/EvalRel.v (congruence over two environments), Proofs/SimplifyInv.v (binders and
   fresh names), Proofs/RenameSem.v (alpha-renaming), Proofs/SimplifyRules.v (the seven fusion rules in
   the form the algorithm applies them, multi-parameter renaming), Proofs/BindArgs.v (Python argument
   binding of the semantics agrees with _bind_lambda_call of the model), Proofs/SimplifyTotal.v
   (well-formedness of outputs). *)
From FA.Base Require Import PyAst Induct Value Eval Traverse Names.
From FA.Gen Require Import TablesSimp.
From FA.Model Require Import Simplify.
From FA.Proofs Require Import TraverseFacts Refine EvalCong EvalAgree RenameSem EvalRel SimplifyFacts SimplifySem SimplifyTotal SimplifyInv BindArgs SimplifyRules.
From Coq Require Import Lia.

Lemma aview_refines_refl a : aview_refines a a.
Proof.
  split; [apply refines_refl|]. split; intros f Hf; exists f; (split; [assumption|]); intros ?; intros; apply refines_refl.
Qed.

Lemma aview_refines_trans a b c : aview_refines a b -> aview_refines b c -> aview_refines a c.
Proof.
  intros (A1 & A2 & A3) (B1 & B2 & B3). split; [eapply refines_trans; eassumption|]. split.
  - intros f Hf. destruct (A2 f Hf) as (g & Hg & Hfg). destruct (B2 g Hg) as (h & Hh & Hgh).
    exists h. split; [assumption|]. intros x. eapply refines_trans; [apply Hfg | apply Hgh].
  - intros f Hf. destruct (A3 f Hf) as (g & Hg & Hfg). destruct (B3 g Hg) as (h & Hh & Hgh).
    exists h. split; [assumption|]. intros x y. eapply refines_trans; [apply Hfg | apply Hgh].
Qed.

Lemma view_agree' B ops a E E' : agree a E E' -> aview_refines (view B ops E a) (view B ops E' a).
Proof.
  intros H. apply (view_agree B ops (S (size a))); [|lia|assumption].
  intros e0 _. eapply agree_ok_all. apply Nat.lt_succ_diag_r.
Qed.

Lemma is_call_of_mentions v n : mentions n v = false -> is_call_of v n = false.
Proof.
  intros H. destruct v; try reflexivity. destruct v; try reflexivity. cbn [is_call_of].
  rewrite mentions_children in H. cbn [children mentions_any] in H. apply orb_false_iff in H. destruct H as [H _].
  cbn [mentions] in H. rewrite String.eqb_sym. assumption.
Qed.


Lemma arg_name_not_First n : arg_name n <> "First".
Proof. unfold arg_name. cbn. discriminate. Qed.

Lemma frame_lookup_In x fr d : frame_lookup x fr = Some d -> In (x, d) fr.
Proof.
  induction fr as [|[a b] l IH]; simpl; intros Hl; [discriminate|].
  destruct (String.eqb x a) eqn:E; [apply String.eqb_eq in E; inversion Hl; subst; left; reflexivity | right; auto].
Qed.

Lemma stack_mentions_lookup st x d p : stack_lookup x st = Some d -> occurs p d = true -> stack_mentions st p = true.
Proof.
  induction st as [|fr st IH]; cbn [stack_lookup]; intros Hl Ho; [discriminate|].
  unfold stack_mentions. cbn [existsb]. apply orb_true_iff.
  destruct (frame_lookup x fr) as [w|] eqn:E.
  - inversion Hl; subst. left. apply existsb_exists. exists (x, d). split; [apply frame_lookup_In; assumption | exact Ho].
  - right. apply IH; assumption.
Qed.

Lemma existsb_eqb_notin x l : existsb (String.eqb x) l = false <-> ~ In x l.
Proof. rewrite <- existsb_eqb_in. destruct (existsb (String.eqb x) l); split; intros H; congruence. Qed.

(* ---------- association lists with the same keys ---------- *)
Lemma frame_lookup_app x l1 l2 :
  frame_lookup x (l1 ++ l2) = match frame_lookup x l1 with Some v => Some v | None => frame_lookup x l2 end.
Proof. induction l1 as [|[a b] l1 IH]; simpl; [reflexivity|]. destruct (String.eqb x a); [reflexivity | apply IH]. Qed.

Lemma assoc_parallel (R : expr -> value -> Prop) (l1 : list (string * expr)) (l2 : list (string * value)) :
  Forall2 (fun a b => fst a = fst b /\ R (snd a) (snd b)) l1 l2 ->
  forall x, (frame_lookup x l1 = None /\ lookup x l2 = None) \/
            (exists d w, frame_lookup x l1 = Some d /\ lookup x l2 = Some w /\ R d w).
Proof.
  induction 1 as [|[a d] [a' w] l1 l2 [Ha Hr] _ IH]; intros x; [left; split; reflexivity|].
  cbn [fst snd] in Ha, Hr. subst a'. cbn [frame_lookup lookup]. destruct (String.eqb x a); [|apply IH].
  right. exists d, w. auto.
Qed.

Lemma Forall2_rev {A C} (R : A -> C -> Prop) l r : Forall2 R l r -> Forall2 R (rev l) (rev r).
Proof.
  induction 1 as [|a b l r Hab _ IH]; [constructor|]. cbn [rev]. apply Forall2_app; [assumption | constructor; [assumption | constructor]].
Qed.

Lemma Forall2_combine_keys (R : expr -> value -> Prop) (fs : list string) : forall ds ws,
  Forall2 R ds ws -> length ds = length fs ->
  Forall2 (fun a b => fst a = fst b /\ R (snd a) (snd b)) (combine fs ds) (combine fs ws).
Proof.
  induction fs as [|f fs IH]; intros ds ws H Hl; [constructor|].
  destruct H as [|d w ds ws Hdw H]; [discriminate|]. cbn [combine]. constructor; [split; [reflexivity | assumption]|].
  apply IH; [assumption | simpl in Hl; lia].
Qed.

Lemma lookup_rev_map (g : string -> value) ps y :
  lookup y (rev (map (fun p => (p, g p)) ps)) = if existsb (String.eqb y) ps then Some (g y) else None.
Proof.
  induction ps as [|p ps IH]; [reflexivity|]. cbn [map rev existsb]. rewrite lookup_app, IH.
  destruct (existsb (String.eqb y) ps); [rewrite orb_true_r; reflexivity|]. rewrite orb_false_r.
  cbn [lookup]. destruct (String.eqb y p) eqn:E; [apply String.eqb_eq in E; subst|]; reflexivity.
Qed.

Lemma combine_map_r {A C} (g : A -> C) (ps : list A) : combine ps (map g ps) = map (fun p => (p, g p)) ps.
Proof. induction ps as [|p ps IH]; [reflexivity|]. simpl. rewrite IH. reflexivity. Qed.

Lemma frame_lookup_none_combine x (fs : list string) (ds : list expr) :
  length ds = length fs -> frame_lookup x (rev (combine fs ds)) = None -> ~ In x fs.
Proof.
  revert ds; induction fs as [|f fs IH]; intros [|d ds] Hl H; try discriminate; [intros []|].
  cbn [combine rev] in H. rewrite frame_lookup_app in H.
  destruct (frame_lookup x (rev (combine fs ds))) eqn:E; [discriminate|]. cbn [frame_lookup] in H.
  destruct (String.eqb x f) eqn:Ef; [discriminate|]. intros [->|Hin]; [rewrite String.eqb_refl in Ef; discriminate|].
  revert Hin. apply (IH ds); [simpl in Hl; lia | assumption].
Qed.

Lemma frame_lookup_some_combine x (fs : list string) (ds : list expr) d :
  frame_lookup x (rev (combine fs ds)) = Some d -> In x fs /\ In d ds.
Proof.
  intros H. apply frame_lookup_In in H. apply in_rev in H. split; [eapply in_combine_l | eapply in_combine_r]; eassumption.
Qed.

(* ---------- literal projections ---------- *)
Lemma dict_lookup_snoc kvs : forall vvs k v s, length kvs = length vvs ->
  dict_lookup (kvs ++ [k]) (vvs ++ [v]) s = if veq k s then Some v else dict_lookup kvs vvs s.
Proof.
  induction kvs as [|k' kvs IH]; intros [|v' vvs] k v s Hl; try discriminate Hl.
  - cbn [app dict_lookup]. destruct (veq k s); reflexivity.
  - cbn [app dict_lookup]. rewrite IH by (simpl in Hl; lia). destruct (veq k s); reflexivity.
Qed.

Lemma key_matches_veq kc s kv sv :
  const_key s = true -> const_value kc = Some kv -> const_value s = Some sv -> veq kv sv = key_matches kc s.
Proof.
  intros Hk H1 H2. destruct s; try discriminate Hk; destruct kc; try discriminate H1;
    cbn [const_value] in H1, H2; inversion H1; inversion H2; subst; reflexivity.
Qed.

Section Lit.
  Variable B : backend.
  Variable ops : list string.
  Notation ev := (eval B ops).

  Lemma dict_scan_sound E s sv : const_key s = true -> const_value s = Some sv ->
    forall rks rvs x, dict_scan rks rvs s = Some x -> length rks = length rvs ->
    forall kvs vvs, omap (ev E) (rev rks) = Some kvs -> omap (ev E) (rev rvs) = Some vvs ->
    forall r, dict_lookup kvs vvs sv = Some r -> ev E x = Some r.
  Proof.
    intros Hk Hs. induction rks as [|k rks IH]; intros [|v rvs] x Hd Hl kvs vvs Hks Hvs r Hr; try discriminate.
    cbn [dict_scan] in Hd. destruct k; try discriminate. cbn [rev] in Hks, Hvs.
    apply TraverseFacts.omap_app_some in Hks. destruct Hks as (kvs0 & k1 & Hk0 & Hk1 & ->).
    apply TraverseFacts.omap_app_some in Hvs. destruct Hvs as (vvs0 & v1 & Hv0 & Hv1 & ->).
    apply omap_cons_some in Hk1. destruct Hk1 as (kv & r' & Hkv & Hn & ->). apply omap_nil_some in Hn; subst r'.
    apply omap_cons_some in Hv1. destruct Hv1 as (vv & r' & Hvv & Hn & ->). apply omap_nil_some in Hn; subst r'.
    assert (Hlen : length kvs0 = length vvs0).
    { rewrite (omap_length _ _ _ Hk0), (omap_length _ _ _ Hv0), !rev_length. simpl in Hl. lia. }
    rewrite dict_lookup_snoc in Hr by assumption. cbn [eval] in Hkv.
    rewrite (key_matches_veq c s kv sv Hk Hkv Hs) in Hr.
    destruct (key_matches c s).
    - inversion Hd; subst. congruence.
    - eapply IH; try eassumption. simpl in Hl; lia.
  Qed.

  Lemma dict_attr_sound E ks vs a x :
    dict_with_value ks vs (CStr a) = Ok (Some x) -> refines (ev E (Attr (Dict ks vs) a)) (ev E x).
  Proof.
    unfold dict_with_value. destruct (Nat.eqb (length ks) (length vs)) eqn:El; [|discriminate].
    intros H. inversion H as [Hd]; clear H. intros r Hr. cbn [eval] in Hr. rewrite El in Hr.
    destruct (omap (ev E) ks) as [kvs|] eqn:Hks; [|discriminate]. cbn [obind] in Hr.
    destruct (omap (ev E) vs) as [vvs|] eqn:Hvs; [|discriminate]. cbn [obind] in Hr.
    apply Nat.eqb_eq in El.
    assert (Hks' : omap (ev E) (rev (rev ks)) = Some kvs) by (rewrite rev_involutive; assumption).
    assert (Hvs' : omap (ev E) (rev (rev vs)) = Some vvs) by (rewrite rev_involutive; assumption).
    eapply (dict_scan_sound E (CStr a) (VStr a) eq_refl eq_refl _ _ _ Hd); [rewrite !rev_length; assumption | eassumption | eassumption | assumption].
  Qed.

  Lemma dict_subscript_sound E ks vs k x :
    const_key k = true -> dict_with_value ks vs k = Ok (Some x) -> refines (ev E (Subscript (Dict ks vs) (Const k))) (ev E x).
  Proof.
    intros Hk. unfold dict_with_value. destruct (Nat.eqb (length ks) (length vs)) eqn:El; [|discriminate].
    intros H. inversion H as [Hd]; clear H. intros r Hr. cbn [eval] in Hr. rewrite El in Hr.
    destruct (omap (ev E) ks) as [kvs|] eqn:Hks; [|discriminate]. cbn [obind] in Hr.
    destruct (omap (ev E) vs) as [vvs|] eqn:Hvs; [|discriminate]. cbn [obind] in Hr.
    destruct (const_value k) as [sv|] eqn:Hsv; [|discriminate]. cbn [obind subscript] in Hr.
    apply Nat.eqb_eq in El.
    assert (Hks' : omap (ev E) (rev (rev ks)) = Some kvs) by (rewrite rev_involutive; assumption).
    assert (Hvs' : omap (ev E) (rev (rev vs)) = Some vvs) by (rewrite rev_involutive; assumption).
    eapply (dict_scan_sound E k sv Hk Hsv _ _ _ Hd); [rewrite !rev_length; assumption | eassumption | eassumption | assumption].
  Qed.

  Lemma project_sound E es k n x (tup : bool) :
    const_index k = Some n -> py_index es n = Some x ->
    refines (ev E (Subscript (if tup then Tuple es else List es) (Const k))) (ev E x).
  Proof.
    intros Hk Hx v H.
    assert (Hsub : exists r, omap (ev E) es = Some r /\ py_index r n = Some v).
    { destruct tup; cbn [eval] in H;
        (destruct (omap (ev E) es) as [r|] eqn:Hr; [|discriminate]); cbn [option_map obind] in H;
        (destruct (const_value k) as [kv|] eqn:Hkv; [|discriminate]); cbn [obind subscript] in H;
        exists r; (split; [reflexivity|]);
        destruct k; try discriminate Hk; cbn [const_index] in Hk; inversion Hk; subst;
        cbn [const_value] in Hkv; inversion Hkv; subst; cbn [obind] in H; exact H. }
    destruct Hsub as (r & Hr & Hi). destruct (py_index_omap _ _ _ _ _ Hr Hx) as [y [Hy Hi']]. congruence.
  Qed.

  Lemma norm_index_sound E s : refines (ev E s) (ev E (norm_index s)).
  Proof.
    destruct s; try apply refines_refl. destruct o; try apply refines_refl. destruct s; try apply refines_refl.
    destruct c; apply refines_refl.
  Qed.
End Lit.

Section Sound.
  Variable B : backend.
  Variable ops : list string.
  Notation ev := (eval B ops).
  Notation bok := (bok B).

  (* the backend gives no meaning, as function names, to the library's fresh names; dictionaries are records *)
  Hypothesis B_args : forall n, nofun B (arg_name n).
  Hypothesis B_dict_meth : forall ks vs m args kws, meth_sem B (VDict ks vs) m args kws = None.
  Hypothesis B_dict_fun : forall op ks vs rest kws, fun_sem B op (VDict ks vs :: rest) kws = None.

  Definition is_key (x : string) (st : stack) : bool := match stack_lookup x st with Some _ => true | None => false end.
  Definition forb (st : stack) (y : string) : Prop := is_key y st = true \/ y = "First".
  Definition clean (st : stack) (e : expr) : Prop := forall y, forb st y -> mentions y e = false.

  Definition stack_ok (c : nat) (st : stack) : Prop :=
    forall x d, stack_lookup x st = Some d ->
      (exists n, x = arg_name n /\ n < c) /\ wfq d = true /\ below c d /\ bok d /\ clean st d.

  Definition env_for (st : stack) (E Ein : env) : Prop :=
    (forall x, stack_lookup x st = None -> lookup x Ein = lookup x E) /\
    (forall x d, stack_lookup x st = Some d -> exists v, ev E d = Some v /\ lookup x Ein = Some v).

  Record pre (st : stack) (c : nat) (e : expr) : Prop := {
    p_wf : wfq e = true;
    p_below : below c e;
    p_bok : bok e;
    p_nobind : forall y, is_key y st = true -> binds y e = false;
    p_nf : mentions "First" e = false }.

  Record post (st : stack) (c : nat) (e e' : expr) (c' : nat) : Prop := {
    q_mono : c <= c';
    q_wf : wfq e' = true;
    q_below : below c' e';
    q_bok : bok e';
    q_clean : clean st e';
    q_sem : forall E Ein, env_for st E Ein -> vrel B ops Ein E e e' }.

  Definition IHs (f : nat) : Prop :=
    forall st bd c e e' c', simp f st bd c e = Ok (e', c') -> stack_ok c st -> pre st c e -> post st c e e' c'.

  Lemma stack_ok_mono c c' st : c <= c' -> stack_ok c st -> stack_ok c' st.
  Proof.
    intros Hc H x d Hx. destruct (H x d Hx) as ((n & Hn & Hlt) & Hw & Hb & Hk & Hm).
    split; [exists n; split; [assumption | lia]|]. split; [assumption|]. split; [eapply below_mono; eassumption|]. split; assumption.
  Qed.

  Lemma stack_ok_wfst c st : stack_ok c st -> wfst st.
  Proof. intros H x d Hx. apply (H x d Hx). Qed.

  Lemma pre_mono st c c' e : c <= c' -> pre st c e -> pre st c' e.
  Proof. intros Hc [H1 H2 H3 H4 H5]. constructor; try assumption. eapply below_mono; eassumption. Qed.

  Lemma clean_first st e : clean st e -> mentions "First" e = false.
  Proof. intros H. apply H. right. reflexivity. Qed.

  Lemma clean_child st e x : In x (children e) -> clean st e -> clean st x.
  Proof.
    intros Hin H y Hy. specialize (H y Hy). destruct (mentions y x) eqn:E; [|reflexivity].
    rewrite (mentions_child _ _ _ Hin E) in H. discriminate.
  Qed.

  (* a clean term means the same in the two environments *)
  Lemma clean_agree st e E Ein : clean st e -> env_for st E Ein -> agree e Ein E.
  Proof.
    intros Hc [He _] y Hy. apply He. destruct (stack_lookup y st) as [d|] eqn:El; [|reflexivity].
    assert (Hk : forb st y) by (left; unfold is_key; rewrite El; reflexivity).
    pose proof (Hc y Hk) as Hm. rewrite (occurs_mentions _ _ Hy) in Hm. discriminate Hm.
  Qed.

  Lemma clean_eval st e E Ein : clean st e -> env_for st E Ein -> ev Ein e = ev E e.
  Proof. intros Hc He. apply eval_agree. eapply clean_agree; eassumption. Qed.

  Lemma clean_view st e E Ein : clean st e -> env_for st E Ein -> aview_refines (view B ops E e) (view B ops Ein e).
  Proof. intros Hc He. apply view_agree'. apply agree_sym. eapply clean_agree; eassumption. Qed.

  Lemma clean_vrel st e E Ein : clean st e -> env_for st E Ein -> vrel B ops Ein E e e.
  Proof. intros Hc He. apply view_agree'. eapply clean_agree; eassumption. Qed.

  (* the relation to a clean result can be read in the query's own environment *)
  Lemma vrel_back st e e' E Ein : clean st e' -> env_for st E Ein -> vrel B ops Ein E e e' -> vrel B ops Ein Ein e e'.
  Proof. intros Hc He H. eapply aview_refines_trans; [exact H | eapply clean_view; eassumption]. Qed.

  Lemma vrel_trans E1 E2 E3 a b c : vrel B ops E1 E2 a b -> vrel B ops E2 E3 b c -> vrel B ops E1 E3 a c.
  Proof. apply aview_refines_trans. Qed.

  (* ---- Name ---- *)
  Lemma sound_Name f st bd c x e' c' :
    simp (S f) st bd c (Name x) = Ok (e', c') -> stack_ok c st -> pre st c (Name x) -> post st c (Name x) e' c'.
  Proof.
    intros H Hst Hp. cbn [simp] in H. destruct (stack_lookup x st) as [d|] eqn:E; inversion H; subst; clear H.
    - destruct (Hst x _ E) as (_ & Hw & Hb & Hk & Hm).
      constructor; try assumption; [lia|]. intros E0 Ein [_ He].
      apply vrel_nonlam; [reflexivity|]. destruct (He x _ E) as (v & Hv & Hl). cbn [eval]. rewrite Hl. intros v0 H0. congruence.
    - destruct Hp as [H1 H2 H3 H4 H5]. constructor; try assumption; [lia | |].
      + intros y [Hy|Hy].
        * cbn [mentions]. destruct (String.eqb y x) eqn:Eq; [|reflexivity].
          apply String.eqb_eq in Eq; subst. unfold is_key in Hy. rewrite E in Hy. discriminate.
        * subst y. assumption.
      + intros E0 Ein [He _]. apply vrel_nonlam; [reflexivity|]. cbn [eval]. rewrite (He x E). apply refines_refl.
  Qed.

  (* ---- lists of sub-terms ---- *)
  Lemma sound_mapM f (IH : IHs f) st bd : forall l c l' c',
    mapM (simp f st bd) c l = Ok (l', c') -> stack_ok c st -> (forall x, In x l -> pre st c x) ->
    c <= c' /\ wfq_all l' = true /\
    (forall z, In z l' -> below c' z /\ bok z /\ clean st z) /\
    length l' = length l /\
    (forall E Ein, env_for st E Ein -> Forall2 (vrel B ops Ein E) l l').
  Proof.
    induction l as [|x xs IHl]; intros c l' c' H Hst Hp; cbn [mapM] in H.
    - inversion H; subst. split; [lia|]. split; [reflexivity|]. split; [intros z []|]. split; [reflexivity|]. intros; constructor.
    - destruct (simp f st bd c x) as [[x' c1]| | |] eqn:Ex; cbn [sbind] in H; try discriminate.
      fold (mapM (simp f st bd) c1 xs) in H.
      destruct (mapM (simp f st bd) c1 xs) as [[xs' c2]| | |] eqn:Exs; cbn [sbind] in H; try discriminate.
      inversion H; subst; clear H.
      destruct (IH _ _ _ _ _ _ Ex Hst (Hp x (or_introl eq_refl))) as [Q1 Q2 Q3 Q4 Q5 Q6].
      assert (Hst1 : stack_ok c1 st) by (eapply stack_ok_mono; eassumption).
      destruct (IHl c1 xs' c' Exs Hst1) as (R1 & R2 & R3 & R4 & R5).
      { intros y Hy. eapply pre_mono; [eassumption | apply Hp; right; assumption]. }
      split; [lia|]. split; [cbn [forallb]; rewrite Q2, R2; reflexivity|]. split; [|split; [simpl; congruence|]].
      + intros z [<-|Hz].
        * split; [eapply below_mono; eassumption | split; assumption].
        * apply R3; assumption.
      + intros E Ein He. constructor; [apply Q6; assumption | apply R5; assumption].
  Qed.

  (* ---- rebuilding a node from visited children ---- *)
  Definition plain (e : expr) : bool := match e with Name _ | Lambda _ _ => false | _ => true end.

  Lemma mentions_rebuild y e cs :
    plain e = true -> length cs = length (children e) -> mentions y (rebuild e cs) = mentions_any y cs.
  Proof.
    intros Hs Hl. rewrite mentions_children. rewrite <- (children_rebuild e cs Hl) at 2.
    destruct e; try discriminate; try reflexivity; cbn [children length] in Hl; cbn [rebuild].
    all: repeat (destruct cs as [|? cs]; try discriminate Hl; try reflexivity).
  Qed.

  Lemma binds_rebuild y e cs :
    plain e = true -> length cs = length (children e) -> binds y (rebuild e cs) = binds_any y cs.
  Proof.
    intros Hs Hl. rewrite binds_children. rewrite <- (children_rebuild e cs Hl) at 2.
    destruct e; try discriminate; try reflexivity; cbn [children length] in Hl; cbn [rebuild].
    all: repeat (destruct cs as [|? cs]; try discriminate Hl; try reflexivity).
  Qed.

  Lemma pre_child st c e x : plain e = true -> wfq x = true -> In x (children e) -> pre st c e -> pre st c x.
  Proof.
    intros Hs Hw Hin [H1 H2 H3 H4 H5]. constructor.
    - assumption.
    - eapply below_child; eassumption.
    - eapply bok_child; eassumption.
    - intros y Hy. specialize (H4 y Hy). destruct (binds y x) eqn:E; [|reflexivity].
      rewrite (binds_child _ _ _ Hin E) in H4. discriminate.
    - destruct (mentions "First" x) eqn:E; [|reflexivity]. rewrite (mentions_child _ _ _ Hin E) in H5. discriminate.
  Qed.

  (* what the generic visit establishes, apart from well-formedness and meaning of the rebuilt node *)
  Lemma sound_generic f (IH : IHs f) st bd c e e' c' :
    plain e = true -> wfq_all (children e) = true ->
    (let* (cs, c1) := mapM (simp f st bd) c (children e) in Ok (rebuild e cs, c1)) = Ok (e', c') ->
    stack_ok c st -> pre st c e ->
    exists cs, e' = rebuild e cs /\ length cs = length (children e) /\ wfq_all cs = true /\
      mapM (simp f st bd) c (children e) = Ok (cs, c') /\
      c <= c' /\ below c' e' /\ bok e' /\ clean st e' /\
      (forall E Ein, env_for st E Ein -> Forall2 (vrel B ops Ein E) (children e) cs).
  Proof.
    intros Hs Hwc H Hst Hp.
    destruct (mapM (simp f st bd) c (children e)) as [[cs c1]| | |] eqn:Em; cbn [sbind] in H; try discriminate.
    inversion H; subst; clear H.
    destruct (sound_mapM f IH st bd _ _ _ _ Em Hst) as (R1 & R2 & R3 & R4 & R5).
    { intros x Hx. eapply pre_child; try eassumption. rewrite forallb_forall in Hwc. apply Hwc; assumption. }
    exists cs. split; [reflexivity|]. split; [assumption|]. split; [assumption|]. split; [reflexivity|]. split; [assumption|].
    split; [|split; [|split; [|assumption]]].
    - intros n Hn. rewrite mentions_rebuild by assumption. apply mentions_any_false.
      intros x Hx. destruct (R3 x Hx) as (Hb & _ & _). apply Hb; assumption.
    - intros y Hy. rewrite binds_rebuild in Hy by assumption.
      apply binds_any_true_in in Hy. destruct Hy as (x & Hx & Hb). destruct (R3 x Hx) as (_ & Hk & _). apply Hk; assumption.
    - intros y Hy. rewrite mentions_rebuild by assumption. apply mentions_any_false.
      intros x Hx. destruct (R3 x Hx) as (_ & _ & Hm). apply Hm; assumption.
  Qed.

  (* ---- nodes treated by generic_visit ---- *)
  Lemma rel_rebuild_simple Ein E e cs :
    simple e = true -> Forall2 (vrel B ops Ein E) (children e) cs -> refines (ev Ein e) (ev E (rebuild e cs)).
  Proof.
    intros Hs H. destruct e; try discriminate; cbn [children] in H; cbn [rebuild].
    - inversion H; subst. apply refines_refl.
    - inversion H as [|? a' ? l' Ha Hl]; subst. inversion Hl; subst. apply rel_unary; assumption.
    - inversion H as [|? a' ? l' Ha Hl]; subst. inversion Hl as [|? b' ? l2 Hb Hl2]; subst. inversion Hl2; subst.
      apply rel_binop; assumption.
    - apply rel_boolop; assumption.
    - inversion H as [|? a' ? l' Ha Hl]; subst. apply rel_compare; assumption.
    - inversion H as [|? a' ? l' Ha Hl]; subst. inversion Hl as [|? b' ? l2 Hb Hl2]; subst.
      inversion Hl2 as [|? d' ? l3 Hd Hl3]; subst. inversion Hl3; subst. apply rel_ifexp; assumption.
    - apply rel_tuple; assumption.
    - apply rel_list; assumption.
  Qed.

  Lemma simple_plain e : simple e = true -> plain e = true /\ not_lambda e = true.
  Proof. destruct e; try discriminate; split; reflexivity. Qed.

  Lemma sound_simple f (IH : IHs f) st bd c e e' c' :
    simple e = true ->
    (let* (cs, c1) := mapM (simp f st bd) c (children e) in Ok (rebuild e cs, c1)) = Ok (e', c') ->
    stack_ok c st -> pre st c e -> post st c e e' c'.
  Proof.
    intros Hs H Hst Hp. destruct (simple_plain e Hs) as [Hpl Hnl].
    assert (Hwc : wfq_all (children e) = true) by (rewrite <- simple_children by assumption; apply Hp).
    destruct (sound_generic f IH st bd c e e' c' Hpl Hwc H Hst Hp) as (cs & -> & Hl & Hw & _ & Hc & Hb & Hk & Hm & Hsem).
    constructor; try assumption.
    - rewrite simple_rebuild; assumption.
    - intros E Ein He. apply vrel_nonlam; [assumption|]. apply rel_rebuild_simple; [assumption | apply Hsem; assumption].
  Qed.

  Lemma Forall2_app_split {A C} (R : A -> C -> Prop) l1 l2 r :
    Forall2 R (l1 ++ l2) r -> Forall2 R l1 (firstn (length l1) r) /\ Forall2 R l2 (skipn (length l1) r).
  Proof.
    revert r; induction l1 as [|a l1 IH]; intros r H; cbn [app length firstn skipn] in *.
    - split; [constructor | assumption].
    - inversion H as [|? b ? r' Hab Hr]; subst. cbn [firstn skipn]. destruct (IH _ Hr) as [H1 H2].
      split; [constructor; assumption | assumption].
  Qed.

  Lemma sound_Dict f (IH : IHs f) st bd c ks vs e' c' :
    (let* (cs, c1) := mapM (simp f st bd) c (children (Dict ks vs)) in Ok (rebuild (Dict ks vs) cs, c1)) = Ok (e', c') ->
    stack_ok c st -> pre st c (Dict ks vs) -> wfq e' = true -> post st c (Dict ks vs) e' c'.
  Proof.
    intros H Hst Hp Hwe.
    assert (Hwc : wfq_all (children (Dict ks vs)) = true).
    { destruct Hp as [Hw _ _ _ _]. cbn [wfq] in Hw. cbn [children]. rewrite wfq_all_app.
      apply andb_true_iff in Hw. destruct Hw as [Hw1 Hw3]. apply andb_true_iff in Hw1. destruct Hw1 as [_ Hw2]. rewrite Hw2, Hw3. reflexivity. }
    destruct (sound_generic f IH st bd c (Dict ks vs) e' c' eq_refl Hwc H Hst Hp) as (cs & -> & Hl & Hw & _ & Hc & Hb & Hk & Hm & Hsem).
    constructor; try assumption.
    intros E Ein He. apply vrel_nonlam; [reflexivity|]. specialize (Hsem E Ein He). cbn [children] in Hsem. cbn [rebuild].
    apply Forall2_app_split in Hsem. destruct Hsem as [H1 H2]. apply rel_dict; assumption.
  Qed.

  (* ---- helpers on results ---- *)
  Lemma ok_wf f st bd c e e' c' : simp f st bd c e = Ok (e', c') -> stack_ok c st -> wfq e = true -> wfq e' = true.
  Proof.
    intros H Hst Hw. pose proof (simp_no_crash f st bd c e Hw (stack_ok_wfst _ _ Hst)) as Hp. rewrite H in Hp. exact Hp.
  Qed.

  Lemma dict_hit_in ks vs k x : dict_with_value ks vs k = Ok (Some x) -> In x (children (Dict ks vs)).
  Proof.
    unfold dict_with_value. destruct (Nat.eqb (length ks) (length vs)); [|discriminate]. intros H. inversion H as [Hd].
    apply dict_scan_In in Hd. apply in_rev in Hd. cbn [children]. apply in_or_app. right. assumption.
  Qed.

  (* a part of a visited result inherits its invariants *)
  Lemma part_inv st c x e : In x (children e) -> below c e -> bok e -> clean st e -> below c x /\ bok x /\ clean st x.
  Proof. intros Hin Hb Hk Hc. split; [eapply below_child; eassumption|]. split; [eapply bok_child; eassumption | eapply clean_child; eassumption]. Qed.

  (* a node with one visited child and no names of its own *)
  Lemma wrap1_inv st c v e : children e = [v] -> plain e = true -> below c v -> bok v -> clean st v -> below c e /\ bok e /\ clean st e.
  Proof.
    intros Hch Hpl Hb Hk Hc.
    assert (Hm : forall y, mentions y e = mentions y v).
    { intros y. rewrite mentions_children, Hch. destruct e; try discriminate; cbn [mentions_any]; apply orb_false_r. }
    assert (Hbi : forall y, binds y e = binds y v).
    { intros y. rewrite binds_children, Hch. destruct e; try discriminate; cbn [binds_any]; apply orb_false_r. }
    split; [intros n Hn; rewrite Hm; apply Hb; assumption|]. split; [intros y Hy; rewrite Hbi in Hy; apply Hk; assumption|].
    intros y Hy. rewrite Hm. apply Hc; assumption.
  Qed.

  Lemma wrap2_inv st c v w e : children e = [v; w] -> plain e = true ->
    below c v -> bok v -> clean st v -> below c w -> bok w -> clean st w -> below c e /\ bok e /\ clean st e.
  Proof.
    intros Hch Hpl Hb Hk Hc Hb' Hk' Hc'.
    assert (Hm : forall y, mentions y e = mentions y v || mentions y w).
    { intros y. rewrite mentions_children, Hch. destruct e; try discriminate; cbn [mentions_any]; rewrite orb_false_r; reflexivity. }
    assert (Hbi : forall y, binds y e = binds y v || binds y w).
    { intros y. rewrite binds_children, Hch. destruct e; try discriminate; cbn [binds_any]; rewrite orb_false_r; reflexivity. }
    split; [intros n Hn; rewrite Hm, Hb, Hb' by assumption; reflexivity|].
    split; [intros y Hy; rewrite Hbi in Hy; apply orb_true_iff in Hy; destruct Hy as [Hy|Hy]; [apply Hk | apply Hk']; assumption|].
    intros y Hy. rewrite Hm, Hc, Hc' by assumption. reflexivity.
  Qed.

  (* ---- Attribute ---- *)
  Lemma sound_Attr f (IH : IHs f) st bd c v a e' c' :
    simp (S f) st bd c (Attr v a) = Ok (e', c') -> stack_ok c st -> pre st c (Attr v a) -> post st c (Attr v a) e' c'.
  Proof.
    intros H Hst Hp. pose proof (ok_wf _ _ _ _ _ _ _ H Hst (p_wf _ _ _ Hp)) as Hwe.
    assert (Hpv : pre st c v).
    { apply (pre_child st c (Attr v a) v); [reflexivity | exact (p_wf _ _ _ Hp) | left; reflexivity | exact Hp]. }
    cbn [simp] in H. rewrite (is_call_of_mentions v "First") in H by (apply (p_nf _ _ _ Hp)).
    destruct (simp f st bd c v) as [[v' c1]| | |] eqn:Ev; cbn [sbind] in H; try discriminate.
    destruct (IH _ _ _ _ _ _ Ev Hst Hpv) as [Q1 Q2 Q3 Q4 Q5 Q6].
    assert (Hcases : (e' = Attr v' a /\ c' = c1) \/
                     (exists ks vs, v' = Dict ks vs /\ dict_with_value ks vs (CStr a) = Ok (Some e') /\ c' = c1)).
    { destruct v'; try (left; inversion H; auto; fail).
      destruct (dict_with_value ks vs (CStr a)) as [[x|]| | |] eqn:Ed; cbn [sbind] in H; try discriminate.
      - right. inversion H; subst. eauto.
      - left. inversion H; auto. }
    destruct Hcases as [[-> ->]|(ks & vs & -> & Hd & ->)].
    - destruct (wrap1_inv st c1 v' (Attr v' a) eq_refl eq_refl Q3 Q4 Q5) as (R1 & R2 & R3).
      constructor; try assumption. intros E Ein He. apply vrel_nonlam; [reflexivity|]. apply rel_attr. apply Q6; assumption.
    - destruct (part_inv st c1 e' _ (dict_hit_in _ _ _ _ Hd) Q3 Q4 Q5) as (R1 & R2 & R3).
      constructor; try assumption. intros E Ein He. apply vrel_nonlam; [reflexivity|].
      eapply refines_trans; [apply rel_attr; apply Q6; eassumption | apply dict_attr_sound; assumption].
  Qed.

  (* ---- Subscript ---- *)
  Lemma norm_index_inv st c s : wfq s = true -> below c s -> bok s -> clean st s ->
    below c (norm_index s) /\ bok (norm_index s) /\ clean st (norm_index s).
  Proof.
    intros Hw Hb Hk Hc. destruct s; try (split; [|split]; assumption). destruct o; try (split; [|split]; assumption).
    destruct s; try (split; [|split]; assumption). destruct c0; try (split; [|split]; assumption).
  Qed.

  Lemma sound_Subscript f (IH : IHs f) st bd c v s e' c' :
    simp (S f) st bd c (Subscript v s) = Ok (e', c') -> stack_ok c st -> pre st c (Subscript v s) ->
    post st c (Subscript v s) e' c'.
  Proof.
    intros H Hst Hp. pose proof (ok_wf _ _ _ _ _ _ _ H Hst (p_wf _ _ _ Hp)) as Hwe.
    assert (Hw2 : wfq v = true /\ wfq s = true) by (apply andb_true_iff; exact (p_wf _ _ _ Hp)).
    destruct Hw2 as [Hwv Hws].
    assert (Hpv : pre st c v) by (apply (pre_child st c (Subscript v s) v); [reflexivity | exact Hwv | left; reflexivity | exact Hp]).
    assert (Hps : pre st c s) by (apply (pre_child st c (Subscript v s) s); [reflexivity | exact Hws | right; left; reflexivity | exact Hp]).
    cbn [simp] in H.
    destruct (simp f st bd c v) as [[v' c1]| | |] eqn:Ev; cbn [sbind] in H; try discriminate.
    destruct (IH _ _ _ _ _ _ Ev Hst Hpv) as [Q1 Q2 Q3 Q4 Q5 Q6].
    assert (Hst1 : stack_ok c1 st) by (eapply stack_ok_mono; eassumption).
    destruct (simp f st bd c1 s) as [[s0 c2]| | |] eqn:Es; cbn [sbind] in H; try discriminate.
    destruct (IH _ _ _ _ _ _ Es Hst1 (pre_mono _ _ _ _ Q1 Hps)) as [S1 S2 S3 S4 S5 S6].
    rewrite (is_call_of_mentions v' "First") in H by (apply clean_first with st; assumption).
    destruct (norm_index_inv st c2 s0 S2 S3 S4 S5) as (N1 & N2 & N3).
    assert (Q3' : below c2 v') by (eapply below_mono; eassumption).
    set (s' := norm_index s0) in *.
    assert (Hcases : (e' = Subscript v' s' /\ c' = c2) \/
       (exists k es n (tup : bool), s' = Const k /\ v' = (if tup then Tuple es else List es) /\ const_index k = Some n /\
                         seq_project es n = Ok e' /\ c' = c2) \/
       (exists k ks vs, s' = Const k /\ v' = Dict ks vs /\ const_key k = true /\ dict_with_value ks vs k = Ok (Some e') /\ c' = c2)).
    { destruct s'; try (left; inversion H; auto; fail).
      destruct v'; try (left; inversion H; auto; fail).
      - destruct (const_index c0) as [n|] eqn:Ei; [|left; inversion H; auto].
        destruct (existsb is_starred es); [left; inversion H; auto|].
        destruct (seq_project es n) as [r| | |] eqn:Er; cbn [sbind] in H; try discriminate.
        right. left. exists c0, es, n, true. inversion H; subst. auto.
      - destruct (const_index c0) as [n|] eqn:Ei; [|left; inversion H; auto].
        destruct (existsb is_starred es); [left; inversion H; auto|].
        destruct (seq_project es n) as [r| | |] eqn:Er; cbn [sbind] in H; try discriminate.
        right. left. exists c0, es, n, false. inversion H; subst. auto.
      - destruct (const_key c0) eqn:Ek; [|left; inversion H; auto].
        destruct (dict_with_value ks vs c0) as [[x|]| | |] eqn:Ed; cbn [sbind] in H; try discriminate.
        + right. right. exists c0, ks, vs. inversion H; subst. auto.
        + left. inversion H; auto. }
    assert (Hsem0 : forall E Ein, env_for st E Ein -> refines (ev Ein (Subscript v s)) (ev E (Subscript v' s'))).
    { intros E Ein He. eapply refines_trans; [apply rel_subscript; [apply Q6 | apply S6]; eassumption|].
      cbn [eval]. apply obind_refines_r. intros a. apply obind_refines_l. apply norm_index_sound. }
    destruct Hcases as [[-> ->]|[(k & es & n & tup & Hs' & -> & Hi & Hr & ->)|(k & ks & vs & Hs' & -> & Hk & Hd & ->)]].
    - destruct (wrap2_inv st c2 v' s' (Subscript v' s') eq_refl eq_refl Q3' Q4 Q5 N1 N2 N3) as (R1 & R2 & R3).
      constructor; try assumption; [lia|]. intros E Ein He. apply vrel_nonlam; [reflexivity|]. apply Hsem0; assumption.
    - pose proof (seq_project_spec es n) as Hspec. rewrite Hr in Hspec. destruct Hspec as [Hin Hpy].
      assert (Hin' : In e' (children (if tup then Tuple es else List es))) by (destruct tup; exact Hin).
      destruct (part_inv st c2 e' _ Hin' Q3' Q4 Q5) as (R1 & R2 & R3).
      constructor; try assumption; [lia|]. intros E Ein He. apply vrel_nonlam; [reflexivity|].
      eapply refines_trans; [apply Hsem0; eassumption|]. rewrite Hs'. eapply project_sound; eassumption.
    - destruct (part_inv st c2 e' _ (dict_hit_in _ _ _ _ Hd) Q3' Q4 Q5) as (R1 & R2 & R3).
      constructor; try assumption; [lia|]. intros E Ein He. apply vrel_nonlam; [reflexivity|].
      eapply refines_trans; [apply Hsem0; eassumption|]. rewrite Hs'. apply dict_subscript_sound; assumption.
  Qed.

  (* ---- a lambda that is not being called ---- *)
  Definition param_ok (st : stack) (c0 : nat) (p : string) : Prop :=
    nofun B p /\ is_key p st = false /\ p <> "First" /\ (forall n, c0 <= n -> p <> arg_name n) /\
    (forall x d, stack_lookup x st = Some d -> occurs p d = false).

  Lemma fresh_param_ok st c c0 p k : stack_ok c st -> c <= k < c0 -> p = arg_name k -> param_ok st c0 p.
  Proof.
    intros Hst Hk ->. split; [apply B_args|]. split; [|split; [apply arg_name_not_First|split]].
    - unfold is_key. destruct (stack_lookup (arg_name k) st) as [d|] eqn:E; [|reflexivity].
      destruct (Hst _ _ E) as ((n & Hn & Hlt) & _). apply arg_name_inj in Hn. lia.
    - intros n Hn Heq. apply arg_name_inj in Heq. lia.
    - intros x d Hx. destruct (Hst _ _ Hx) as (_ & _ & Hb & _). destruct (occurs (arg_name k) d) eqn:Eo; [|reflexivity].
      pose proof (occurs_mentions _ _ Eo) as Hm. rewrite (Hb k) in Hm by lia. discriminate.
  Qed.

  Lemma env_for_ext st E Ein E0 :
    env_for st E Ein ->
    (forall p, In p (map fst E0) -> is_key p st = false /\ (forall x d, stack_lookup x st = Some d -> occurs p d = false)) ->
    env_for st (E0 ++ E) (E0 ++ Ein).
  Proof.
    intros [He1 He2] Hp. split.
    - intros x Hx. rewrite !lookup_app. destruct (lookup x E0); [reflexivity | apply He1; assumption].
    - intros x d Hx. destruct (He2 x d Hx) as (v & Hv & Hl). exists v. split.
      + rewrite <- Hv. apply eval_agree. intros y Hy. apply lookup_app_dom. apply existsb_eqb_notin. intros Hin.
        destruct (Hp y Hin) as [_ Ho]. rewrite (Ho x d Hx) in Hy. discriminate.
      + rewrite <- Hl. apply lookup_app_dom. apply existsb_eqb_notin. intros Hin.
        destruct (Hp x Hin) as [Hk _]. unfold is_key in Hk. rewrite Hx in Hk. discriminate.
  Qed.

  Lemma map_fst_rev_combine (ps : list string) (vs : list value) : length vs = length ps -> map fst (rev (combine ps vs)) = rev ps.
  Proof.
    intros Hl. rewrite map_rev. f_equal. revert vs Hl. induction ps as [|p ps IH]; intros [|v vs] Hl; try discriminate; [reflexivity|].
    simpl. f_equal. apply IH. simpl in Hl. lia.
  Qed.

  Lemma lam_prep st bd c ps b :
    stack_ok c st -> pre st c (Lambda ps b) ->
    exists ps' b' c0,
      (if existsb (fun n => existsb (String.eqb n) bd || stack_mentions st n) ps then
         match make_args_unique ps b c with
         | (Lambda qs b2, c') => (qs, b2, c')
         | (_, c') => (ps, b, c')
         end
       else (ps, b, c)) = (ps', b', c0) /\
      c <= c0 /\ pre st c0 b' /\ length ps' = length ps /\ has_dup ps' = false /\
      (forall p, In p ps' -> param_ok st c0 p) /\
      (forall vs E0, length vs = length ps -> refines (ev (rev (combine ps vs) ++ E0) b) (ev (rev (combine ps' vs) ++ E0) b')).
  Proof.
    intros Hst Hp. destruct Hp as [Hw Hb Hk Hn Hf].
    apply wfq_lam_iff in Hw. destruct Hw as [Hd Hwb].
    destruct (bok_lambda B ps b Hk) as [Hkp Hkb].
    assert (Hfb : mentions "First" b = false) by (cbn [mentions] in Hf; apply orb_false_iff in Hf; tauto).
    assert (Hbb : below c b) by (apply (below_lambda c ps b); assumption).
    destruct (existsb (fun n => existsb (String.eqb n) bd || stack_mentions st n) ps) eqn:Ex.
    - (* renamed *)
      rewrite mau_eq. set (fs := fresh_names (length ps) c). set (m := rev (combine ps fs)).
      exists fs, (rename m b), (c + length ps). split; [reflexivity|]. split; [lia|]. split; [|split; [|split; [|split]]].
      + constructor.
        * apply wfq_rename; [apply ren_ok_fresh | assumption].
        * pose proof (below_mau ps b c Hb) as Hbm. rewrite mau_eq in Hbm. cbn [fst] in Hbm. fold fs m in Hbm.
          intros n Hn'. specialize (Hbm n Hn'). cbn [mentions] in Hbm. apply orb_false_iff in Hbm. tauto.
        * intros y Hy. rewrite binds_rename in Hy. apply Hkb; assumption.
        * intros y Hy. rewrite binds_rename. specialize (Hn y Hy). cbn [binds] in Hn. apply orb_false_iff in Hn. tauto.
        * destruct (mentions "First" (rename m b)) eqn:Em; [|reflexivity].
          destruct (mentions_rename _ _ _ Em) as [H1|H1]; [congruence|].
          apply snd_rev_combine in H1. apply in_fresh_names in H1. destruct H1 as (k & _ & Hk'). symmetry in Hk'. destruct (arg_name_not_First _ Hk').
      + apply fresh_names_length.
      + apply fresh_names_nodup.
      + intros p Hin. apply in_fresh_names in Hin. destruct Hin as (k & Hk' & ->). eapply fresh_param_ok; [eassumption | | reflexivity]. lia.
      + intros vs E0 Hl. apply (mau_sound_gen B ops E0 ps b c vs Hd Hl Hb Hk).
    - (* kept *)
      exists ps, b, c. split; [reflexivity|]. split; [lia|]. split; [|split; [reflexivity|split; [assumption|split]]].
      + constructor; try assumption. intros y Hy. specialize (Hn y Hy). cbn [binds] in Hn. apply orb_false_iff in Hn. tauto.
      + intros p Hin. split; [apply Hkp; assumption|]. split; [|split; [|split]].
        * destruct (is_key p st) eqn:Ek; [|reflexivity]. specialize (Hn p Ek). cbn [binds] in Hn.
          apply orb_false_iff in Hn. destruct Hn as [Hn _]. apply existsb_eqb_notin in Hn. contradiction.
        * intros ->. cbn [mentions] in Hf. apply orb_false_iff in Hf. destruct Hf as [Hf _]. apply existsb_eqb_notin in Hf. contradiction.
        * intros n Hn' ->. specialize (Hb n Hn'). cbn [mentions] in Hb. apply orb_false_iff in Hb. destruct Hb as [Hb _].
          apply existsb_eqb_notin in Hb. contradiction.
        * intros x d Hx. destruct (occurs p d) eqn:Eo; [|reflexivity].
          assert (Hs : stack_mentions st p = true) by (eapply stack_mentions_lookup; eassumption).
          assert (Hex : existsb (fun n => existsb (String.eqb n) bd || stack_mentions st n) ps = true).
          { apply existsb_exists. exists p. split; [assumption|]. rewrite Hs. apply orb_true_r. }
          congruence.
      + intros vs E0 _. apply refines_refl.
  Qed.

  Lemma sound_Lambda f (IH : IHs f) st bd c ps b e' c' :
    simp (S f) st bd c (Lambda ps b) = Ok (e', c') -> stack_ok c st -> pre st c (Lambda ps b) ->
    post st c (Lambda ps b) e' c'.
  Proof.
    intros H Hst Hp. pose proof (ok_wf _ _ _ _ _ _ _ H Hst (p_wf _ _ _ Hp)) as Hwe.
    cbn [simp] in H.
    destruct (lam_prep st bd c ps b Hst Hp) as (ps' & b' & c0 & Eq & Hc0 & Hpb & Hlen & Hdup & Hpar & Hlink).
    rewrite Eq in H.
    destruct (simp f st (bd ++ ps') c0 b') as [[b'' c1]| | |] eqn:Eb; cbn [sbind] in H; try discriminate.
    inversion H; subst; clear H.
    assert (Hst0 : stack_ok c0 st) by (eapply stack_ok_mono; eassumption).
    destruct (IH _ _ _ _ _ _ Eb Hst0 Hpb) as [Q1 Q2 Q3 Q4 Q5 Q6].
    constructor.
    - lia.
    - assumption.
    - intros n Hn. cbn [mentions]. apply orb_false_iff. split; [|apply Q3; assumption].
      apply existsb_eqb_notin. intros Hin. destruct (Hpar _ Hin) as (_ & _ & _ & Hfr & _). apply (Hfr n); [lia | reflexivity].
    - intros y Hy. cbn [binds] in Hy. apply orb_true_iff in Hy. destruct Hy as [Hy|Hy]; [|apply Q4; assumption].
      apply existsb_eqb_in in Hy. apply (Hpar _ Hy).
    - intros y Hy. cbn [mentions]. apply orb_false_iff. split; [|apply Q5; assumption].
      apply existsb_eqb_notin. intros Hin. destruct (Hpar _ Hin) as (_ & Hk & Hfi & _ & _).
      destruct Hy as [Hy|Hy]; congruence.
    - intros E Ein He.
      assert (Hbody : forall vs, length vs = length ps ->
                refines (ev (rev (combine ps vs) ++ Ein) b) (ev (rev (combine ps' vs) ++ E) b'')).
      { intros vs Hl. eapply refines_trans; [apply Hlink; assumption|]. apply vrel_val. apply Q6.
        apply env_for_ext; [assumption|]. intros p Hin. rewrite map_fst_rev_combine in Hin by lia. apply in_rev in Hin.
        destruct (Hpar _ Hin) as (_ & Hk & _ & _ & Ho). split; assumption. }
      split; [apply refines_refl|]. split.
      + intros g Hg. cbn [view mk_view av_f1] in Hg. destruct ps as [|x [|? ?]]; try discriminate.
        destruct ps' as [|x' [|? ?]]; try discriminate. inversion Hg; subst; clear Hg.
        eexists. split; [reflexivity|]. intros v. apply (Hbody [v] eq_refl).
      + intros g Hg. cbn [view mk_view av_f2] in Hg. destruct ps as [|x [|y [|? ?]]]; try discriminate.
        destruct ps' as [|x' [|y' [|? ?]]]; try discriminate. inversion Hg; subst; clear Hg.
        eexists. split; [reflexivity|]. intros v w. apply (Hbody [v; w] eq_refl).
  Qed.

  (* ---- a lambda that is being called: beta-reduction through the stack ---- *)
  Lemma eval_call_lambda_some Ein ps body args kwn kwv v :
    has_dup ps = false -> ev Ein (Call (Lambda ps body) args kwn kwv) = Some v ->
    exists E' given, bind_lambda_call ps args kwn kwv = Some given /\
      Forall2 (fun p g => exists w, ev Ein g = Some w /\ lookup p E' = Some w) ps given /\
      map fst E' = ps /\ ev (E' ++ Ein) body = Some v.
  Proof.
    intros Hd H. cbn [eval] in H. destruct kwn as [|k kwn].
    - apply obind_some in H. destruct H as (vs & Hvs & H). apply obind_some in H. destruct H as (E' & HE' & H).
      destruct (bind_args_given_pos (ev Ein) ps args kwv vs E' Hd Hvs HE') as (given & Hg & HF & _).
      pose proof (BindArgs.bind_args_dom _ _ _ _ HE'). eauto 8.
    - apply obind_some in H. destruct H as (vs & Hvs & H). apply obind_some in H. destruct H as (kvs & Hkvs & H).
      apply obind_some in H. destruct H as (kws & Hkws & H). apply obind_some in H. destruct H as (E' & HE' & H).
      destruct (bind_args_given_kw (ev Ein) ps args (k :: kwn) kwv vs kvs kws E' Hd Hvs Hkvs Hkws HE') as (given & Hg & HF & _).
      pose proof (BindArgs.bind_args_dom _ _ _ _ HE'). eauto 8.
  Qed.

  Lemma is_key_push y fr st : is_key y (fr :: st) = true -> (exists d, frame_lookup y fr = Some d) \/ is_key y st = true.
  Proof.
    unfold is_key. cbn [stack_lookup]. destruct (frame_lookup y fr) as [d|]; [left; eauto | right; assumption].
  Qed.

  Lemma is_key_push_old y fr st : is_key y st = true -> is_key y (fr :: st) = true.
  Proof. unfold is_key. cbn [stack_lookup]. destruct (frame_lookup y fr); [reflexivity | auto]. Qed.

  Lemma rename_body_facts c ps b :
    wfq b = true -> below c (Lambda ps b) -> bok b -> mentions "First" b = false ->
    let m := rev (combine ps (fresh_names (length ps) c)) in
    wfq (rename m b) = true /\ below (c + length ps) (rename m b) /\ bok (rename m b) /\ mentions "First" (rename m b) = false.
  Proof.
    intros Hw Hb Hk Hf m. split; [apply wfq_rename; [apply ren_ok_fresh | assumption]|]. split; [|split].
    - pose proof (below_mau ps b c Hb) as Hbm. rewrite mau_eq in Hbm. cbn [fst] in Hbm.
      intros n Hn'. specialize (Hbm n Hn'). cbn [mentions] in Hbm. apply orb_false_iff in Hbm. tauto.
    - intros y Hy. rewrite binds_rename in Hy. apply Hk; assumption.
    - destruct (mentions "First" (rename m b)) eqn:Em; [|reflexivity].
      destruct (mentions_rename _ _ _ Em) as [H1|H1]; [congruence|].
      apply snd_rev_combine in H1. apply in_fresh_names in H1. destruct H1 as (k & _ & Hk'). symmetry in Hk'. destruct (arg_name_not_First _ Hk').
  Qed.

  Lemma stack_ok_push c1 st fs ds :
    stack_ok c1 st -> fs = fresh_names (length fs) c1 -> length ds = length fs ->
    (forall d, In d ds -> wfq d = true /\ below c1 d /\ bok d /\ clean st d) ->
    stack_ok (c1 + length fs) (rev (combine fs ds) :: st).
  Proof.
    intros Hst Hfs Hl Hds. set (fr := rev (combine fs ds)).
    assert (Hfresh : forall y d0, frame_lookup y fr = Some d0 -> exists k, c1 <= k < c1 + length fs /\ y = arg_name k).
    { intros y d0 Hy. apply frame_lookup_some_combine in Hy. destruct Hy as [Hy _]. rewrite Hfs in Hy. apply in_fresh_names in Hy. exact Hy. }
    assert (Hclean : forall d, below c1 d -> clean st d -> clean (fr :: st) d).
    { intros d Hb Hc y [Hy|Hy]; [|apply Hc; right; assumption].
      apply is_key_push in Hy. destruct Hy as [(d0 & Hy)|Hy]; [|apply Hc; left; assumption].
      destruct (Hfresh _ _ Hy) as (k & Hk & ->). apply Hb. lia. }
    intros x d Hx. cbn [stack_lookup] in Hx. fold fr in Hx. destruct (frame_lookup x fr) as [d0|] eqn:E.
    - inversion Hx; subst d0. destruct (Hfresh _ _ E) as (k & Hk & ->).
      apply frame_lookup_some_combine in E. destruct E as [_ Hin]. destruct (Hds d Hin) as (Hw & Hb & Hk' & Hc).
      split; [exists k; split; [reflexivity | lia]|]. split; [assumption|]. split; [eapply below_mono; [|eassumption]; lia|].
      split; [assumption | apply Hclean; assumption].
    - destruct (Hst x d Hx) as ((n & Hn & Hlt) & Hw & Hb & Hk & Hc).
      split; [exists n; split; [assumption | lia]|]. split; [assumption|]. split; [eapply below_mono; [|eassumption]; lia|].
      split; [assumption | apply Hclean; assumption].
  Qed.

  Lemma Forall2_given_vals Ein E' ps given :
    Forall2 (fun p g => exists w, ev Ein g = Some w /\ lookup p E' = Some w) ps given ->
    Forall2 (fun g w => ev Ein g = Some w) given (map (fun p => match lookup p E' with Some w => w | None => VNone end) ps).
  Proof.
    induction 1 as [|p g ps given (w & Hw & Hl) _ IH]; [constructor|]. cbn [map]. constructor; [|assumption].
    rewrite Hl. assumption.
  Qed.

  Lemma Forall2_chain Ein E (given args' : list expr) ws :
    Forall2 (fun g w => ev Ein g = Some w) given ws -> Forall2 (vrel B ops Ein E) given args' ->
    Forall2 (fun d w => ev E d = Some w) args' ws.
  Proof.
    intros H1; revert args'. induction H1 as [|g w given ws Hg _ IH]; intros args' H2; inversion H2 as [|? a' ? r Hga Hr]; subst; constructor.
    - apply (vrel_val _ _ _ _ _ _ Hga). assumption.
    - apply IH; assumption.
  Qed.

  Lemma sound_beta f (IH : IHs f) st bd c ps body args kwn kwv given e' c' :
    bind_lambda_call ps args kwn kwv = Some given ->
    (let* (args', c1) := mapM (simp f st bd) c given in
     match make_args_unique ps body c1 with
     | (Lambda fs body', c2) => simp f (rev (combine fs args') :: st) bd c2 body'
     | _ => Crash "make_args_unique"
     end) = Ok (e', c') ->
    stack_ok c st -> pre st c (Call (Lambda ps body) args kwn kwv) -> wfq e' = true ->
    post st c (Call (Lambda ps body) args kwn kwv) e' c'.
  Proof.
    intros Hg H Hst Hp Hwe.
    destruct (wfq_call_parts (Lambda ps body) args kwn kwv ltac:(intros n; discriminate) (p_wf _ _ _ Hp)) as (Hwl & Hwa & Hwk).
    apply wfq_lam_iff in Hwl. destruct Hwl as [Hdup Hwb].
    assert (Hpl : pre st c (Lambda ps body)).
    { apply (pre_child st c (Call (Lambda ps body) args kwn kwv)); [reflexivity | apply wfq_lam_iff; auto | left; reflexivity | exact Hp]. }
    assert (Hpg : forall g, In g given -> pre st c g).
    { intros g Hin. apply (pre_child st c (Call (Lambda ps body) args kwn kwv)); [reflexivity | | | exact Hp].
      - pose proof (bind_lambda_call_wfq _ _ _ _ _ Hg Hwa Hwk) as Hwg. rewrite forallb_forall in Hwg. apply Hwg; assumption.
      - cbn [children]. right. eapply bind_lambda_call_incl; eassumption. }
    destruct (mapM (simp f st bd) c given) as [[args' c1]| | |] eqn:Em; cbn [sbind] in H; try discriminate.
    destruct (sound_mapM f IH st bd _ _ _ _ Em Hst Hpg) as (R1 & R2 & R3 & R4 & R5).
    rewrite mau_eq in H. set (fs := fresh_names (length ps) c1) in *. set (m := rev (combine ps fs)) in *.
    assert (Hlfs : length fs = length ps) by apply fresh_names_length.
    assert (Hlg : length given = length ps) by (eapply bind_lambda_call_length; eassumption).
    assert (Hst1 : stack_ok c1 st) by (eapply stack_ok_mono; eassumption).
    assert (Hbl : below c1 (Lambda ps body)) by (eapply below_mono; [eassumption | apply Hpl]).
    destruct (bok_lambda B ps body (p_bok _ _ _ Hpl)) as [Hkp Hkb].
    assert (Hfb : mentions "First" body = false).
    { pose proof (p_nf _ _ _ Hpl) as Hf. cbn [mentions] in Hf. apply orb_false_iff in Hf. tauto. }
    destruct (rename_body_facts c1 ps body Hwb Hbl Hkb Hfb) as (F1 & F2 & F3 & F4). fold fs m in F1, F2, F3, F4.
    set (st' := rev (combine fs args') :: st) in *.
    assert (Hst' : stack_ok (c1 + length ps) st').
    { rewrite <- Hlfs. apply stack_ok_push; [assumption | unfold fs; rewrite fresh_names_length; reflexivity | lia |].
      intros d Hd. destruct (R3 d Hd) as (Hb & Hk & Hc). split; [|auto]. rewrite forallb_forall in R2. apply R2; assumption. }
    assert (Hpb : pre st' (c1 + length ps) (rename m body)).
    { constructor; try assumption. intros y Hy. rewrite binds_rename. apply is_key_push in Hy. destruct Hy as [(d0 & Hy)|Hy].
      - apply frame_lookup_some_combine in Hy. destruct Hy as [Hy _]. apply in_fresh_names in Hy. destruct Hy as (k & Hk & ->).
        apply not_mentions_not_binds. apply (below_lambda c1 ps body Hbl). lia.
      - pose proof (p_nobind _ _ _ Hpl y Hy) as Hn. cbn [binds] in Hn. apply orb_false_iff in Hn. tauto. }
    destruct (IH _ _ _ _ _ _ H Hst' Hpb) as [Q1 Q2 Q3 Q4 Q5 Q6].
    constructor; try assumption.
    - lia.
    - intros y [Hy|Hy]; apply Q5; [left; apply is_key_push_old; assumption | right; assumption].
    - intros E Ein He. apply vrel_nonlam; [reflexivity|]. intros v Hv.
      destruct (eval_call_lambda_some Ein ps body args kwn kwv v Hdup Hv) as (E' & given0 & Hg0 & HF & Hdom & Hbody).
      rewrite Hg in Hg0. inversion Hg0; subst given0; clear Hg0.
      set (g0 := fun p => match lookup p E' with Some w => w | None => VNone end).
      set (ws := map g0 ps).
      assert (Hgw : Forall2 (fun g w => ev Ein g = Some w) given ws) by (apply Forall2_given_vals; assumption).
      assert (Haw : Forall2 (fun d w => ev E d = Some w) args' ws) by (eapply Forall2_chain; [eassumption | apply R5; assumption]).
      assert (Hlw : length ws = length ps) by (unfold ws; apply map_length).
      (* the body under the bound parameters, then under the fresh names *)
      assert (H1 : ev (rev (combine ps ws) ++ Ein) body = Some v).
      { rewrite <- Hbody. apply eval_agree. intros y _. rewrite !lookup_app. unfold ws. rewrite combine_map_r, lookup_rev_map.
        destruct (existsb (String.eqb y) ps) eqn:Ey.
        - apply existsb_eqb_in in Ey. clear - Ey HF. unfold g0. induction HF as [|p g ps given (w & _ & Hl) _ IHF]; [destruct Ey|].
          destruct Ey as [->|Ey]; [rewrite Hl; reflexivity | apply IHF; assumption].
        - destruct (lookup y E') as [w|] eqn:El; [|reflexivity]. exfalso.
          assert (Hin : In y (map fst E')).
          { clear - El. induction E' as [|[a b] E' IHE]; simpl in *; [discriminate|].
            destruct (String.eqb y a) eqn:Ea; [apply String.eqb_eq in Ea; auto | right; auto]. }
          apply existsb_eqb_notin in Ey. apply Ey. rewrite <- Hdom. assumption. }
      apply (mau_sound_gen B ops Ein ps body c1 ws Hdup Hlw Hbl (p_bok _ _ _ Hpl)) in H1. fold fs m in H1.
      assert (Hpar : Forall2 (fun (a : string * expr) (b : string * value) => fst a = fst b /\ ev E (snd a) = Some (snd b))
                             (rev (combine fs args')) (rev (combine fs ws))).
      { apply Forall2_rev. apply (Forall2_combine_keys (fun d w => ev E d = Some w)); [assumption | lia]. }
      assert (He' : env_for st' E (rev (combine fs ws) ++ Ein)).
      { destruct He as [He1 He2]. split.
        - intros x Hx. unfold st' in Hx. cbn [stack_lookup] in Hx.
          destruct (frame_lookup x (rev (combine fs args'))) eqn:Efr; [discriminate|].
          rewrite lookup_app. destruct (assoc_parallel (fun d w => ev E d = Some w) _ _ Hpar x) as [[_ Hn]|(d0 & w & Hd0 & _)]; [|congruence].
          rewrite Hn. apply He1; assumption.
        - intros x d Hx. unfold st' in Hx. cbn [stack_lookup] in Hx. rewrite lookup_app.
          destruct (assoc_parallel (fun d w => ev E d = Some w) _ _ Hpar x) as [[Hn1 Hn2]|(d0 & w & Hd0 & Hw & Hr)].
          + rewrite Hn1 in Hx. rewrite Hn2. apply He2; assumption.
          + rewrite Hd0 in Hx. inversion Hx; subst d0. rewrite Hw. exists w. split; [assumption | reflexivity]. }
      apply (vrel_val _ _ _ _ _ _ (Q6 E _ He')). exact H1.
  Qed.

  (* ---- calls treated by generic_visit ---- *)
  Lemma attr_shape f st bd c s m g' c1 :
    simp (S f) st bd c (Attr s m) = Ok (g', c1) -> is_call_of s "First" = false ->
    exists s', simp f st bd c s = Ok (s', c1) /\
      (g' = Attr s' m \/ exists ks vs, s' = Dict ks vs /\ dict_with_value ks vs (CStr m) = Ok (Some g')).
  Proof.
    intros H Hf. cbn [simp] in H. rewrite Hf in H.
    destruct (simp f st bd c s) as [[s' c2]| | |] eqn:Es; cbn [sbind] in H; try discriminate.
    destruct s'; try (inversion H; subst; eexists; split; [reflexivity | left; reflexivity]; fail).
    destruct (dict_with_value ks vs (CStr m)) as [[x|]| | |] eqn:Ed; cbn [sbind] in H; try discriminate; inversion H; subst.
    - eexists; split; [reflexivity|]. right. eauto.
    - eexists; split; [reflexivity | left; reflexivity].
  Qed.

  Lemma eval_dict_cases E ks vs : ev E (Dict ks vs) = None \/ exists kvs vvs, ev E (Dict ks vs) = Some (VDict kvs vvs).
  Proof.
    cbn [eval]. destruct (Nat.eqb (length ks) (length vs)); [|left; reflexivity].
    destruct (omap (ev E) ks) as [kvs|]; [|left; reflexivity]. cbn [obind].
    destruct (omap (ev E) vs) as [vvs|]; [|left; reflexivity]. cbn [obind]. right. exists kvs, vvs. reflexivity.
  Qed.

  Lemma apply_op_dict_none op ks vs views : apply_op B op (Some (VDict ks vs)) views = None.
  Proof.
    unfold apply_op.
    repeat match goal with |- (if ?c then _ else _) = None => destruct c end; try reflexivity.
    all: try (destruct views as [|a [|b [|? ?]]]; reflexivity).
    cbn [obind]. destruct (sequence (map av_val views)); [apply B_dict_fun | reflexivity].
  Qed.

  (* a method call on something that can only be a dictionary has no value *)
  Lemma call_dict_method_none Ein E s ks vs m args kwn kwv :
    refines (ev Ein s) (ev E (Dict ks vs)) -> ev Ein (Call (Attr s m) args kwn kwv) = None.
  Proof.
    intros Hr.
    assert (Hs : ev Ein s = None \/ exists kvs vvs, ev Ein s = Some (VDict kvs vvs)).
    { destruct (ev Ein s) as [v|] eqn:Ev; [|left; reflexivity]. right. specialize (Hr v eq_refl).
      destruct (eval_dict_cases E ks vs) as [Hn|(kvs & vvs & Hd)]; [congruence|]. rewrite Hd in Hr. inversion Hr. eauto. }
    cbn [eval]. destruct kwn as [|k kwn].
    - destruct (is_op ops m).
      + destruct Hs as [->|(kvs & vvs & ->)]; [|apply apply_op_dict_none].
        unfold apply_op.
        repeat match goal with |- (if ?c then _ else _) = None => destruct c end; try reflexivity.
        all: destruct (map (mk_view (eval B ops) Ein) args) as [|a [|b [|? ?]]]; reflexivity.
      + destruct Hs as [->|(kvs & vvs & ->)]; [reflexivity|]. cbn [obind].
        destruct (omap (ev Ein) args); [apply B_dict_meth | reflexivity].
    - destruct (omap (ev Ein) args) as [vs0|]; [|reflexivity]. cbn [obind].
      destruct (omap (ev Ein) kwv) as [kvs0|]; [|reflexivity]. cbn [obind].
      destruct (zip_kw (k :: kwn) kvs0) as [kws|]; [|reflexivity]. cbn [obind].
      destruct Hs as [->|(kvs & vvs & ->)]; [reflexivity|]. cbn [obind]. apply B_dict_meth.
  Qed.

  (* a called lambda with a starred argument has no value in the reference semantics (argument lists are not modelled) *)
  Lemma starred_call_none E ps b args kwn kwv :
    existsb is_starred args = true -> ev E (Call (Lambda ps b) args kwn kwv) = None.
  Proof.
    intros Hs.
    assert (Ho : omap (ev E) args = None).
    { induction args as [|a args IHa]; [discriminate|]. cbn [existsb] in Hs. rewrite omap_cons.
      destruct (is_starred a) eqn:Ea.
      - destruct a; try discriminate. reflexivity.
      - cbn [orb] in Hs. rewrite (IHa Hs). destruct (ev E a); reflexivity. }
    cbn [eval]. destruct kwn as [|k kwn]; rewrite Ho; reflexivity.
  Qed.

  Lemma mentions_call_callee y g args kwn kwv : mentions y (Call g args kwn kwv) = false -> mentions y g = false.
  Proof. intros H. rewrite mentions_children in H. cbn [children mentions_any] in H. apply orb_false_iff in H. tauto. Qed.

  Lemma sound_call_generic f (IH : IHs f) (IHp : forall f0, f = S f0 -> IHs f0) st bd c g args kwn kwv e' c' :
    (let* (cs, c1) := mapM (simp f st bd) c (children (Call g args kwn kwv)) in
     Ok (rebuild (Call g args kwn kwv) cs, c1)) = Ok (e', c') ->
    stack_ok c st -> pre st c (Call g args kwn kwv) -> wfq e' = true ->
    (forall fn, g = Name fn -> is_call_handler fn = false) ->
    (forall ps b, g = Lambda ps b -> existsb is_starred args = true \/ bind_lambda_call ps args kwn kwv = None) ->
    post st c (Call g args kwn kwv) e' c'.
  Proof.
    intros H Hst Hp Hwe Hnh Hnb.
    pose proof (mentions_call_callee _ _ _ _ _ (p_nf _ _ _ Hp)) as Hgf.
    assert (Hwc : wfq_all (children (Call g args kwn kwv)) = true).
    { pose proof (p_wf _ _ _ Hp) as Hw. cbn [children forallb]. rewrite wfq_all_app.
      destruct g; try (match type of Hw with wfq (Call ?g0 _ _ _) = true =>
                         destruct (wfq_call_parts g0 args kwn kwv ltac:(intros n0; discriminate) Hw) as (W1 & W2 & W3) end;
                       rewrite W1, W2, W3; reflexivity).
      cbn [wfq] in Hw. rewrite (Hnh id eq_refl) in Hw. cbn [mentions] in Hgf. rewrite String.eqb_sym in Hgf. rewrite Hgf in Hw.
      cbn [wfq]. unfold opname. rewrite (Hnh id eq_refl), Hgf. exact Hw. }
    destruct (sound_generic f IH st bd c (Call g args kwn kwv) e' c' eq_refl Hwc H Hst Hp)
      as (cs & -> & Hl & Hw & Hm & Hc & Hb & Hk & Hcl & Hsem).
    constructor; try assumption.
    intros E Ein He. apply vrel_nonlam; [reflexivity|]. specialize (Hsem E Ein He).
    cbn [children mapM] in Hm.
    destruct (simp f st bd c g) as [[g' c1]| | |] eqn:Eg; cbn [sbind] in Hm; try discriminate.
    match type of Hm with context [sbind ?M _] => destruct M as [[rest' c2]| | |] eqn:Er end; cbn [sbind] in Hm; try discriminate.
    inversion Hm; subst cs c2; clear Hm.
    cbn [children] in Hsem. inversion Hsem as [|? ? ? ? Hgg Hrest]; subst.
    apply Forall2_app_split in Hrest. destruct Hrest as [Fa Fk]. cbn [rebuild].
    destruct g.
    all: try (rewrite call_other_none by exact I; apply refines_none).
    - (* Name *)
      destruct (simp_Name f st bd c id) as [H0|[(Hn & H1)|(d & Hd & H1)]]; rewrite H1 in Eg || rewrite H0 in Eg; try discriminate.
      + inversion Eg; subst. apply rel_call_name; assumption.
      + destruct (Hst _ _ Hd) as ((n & -> & _) & _). rewrite (nofun_call_none B ops _ args kwn kwv Ein (B_args n)). apply refines_none.
    - (* Attr *)
      destruct f as [|f0]; [discriminate Eg|].
      assert (Hps : pre st c g).
      { apply (pre_child st c (Attr g a)); [reflexivity | | left; reflexivity |].
        - apply andb_true_iff in Hwc. destruct Hwc as [Hwg _]. exact Hwg.
        - apply (pre_child st c (Call (Attr g a) args kwn kwv)); [reflexivity | | left; reflexivity | exact Hp].
          apply andb_true_iff in Hwc. destruct Hwc as [Hwg _]. exact Hwg. }
      destruct (attr_shape _ _ _ _ _ _ _ _ Eg (is_call_of_mentions _ _ (p_nf _ _ _ Hps))) as (s' & Es & Hshape).
      destruct (IHp f0 eq_refl _ _ _ _ _ _ Es Hst Hps) as [Q1 Q2 Q3 Q4 Q5 Q6].
      destruct Hshape as [->|(ks & vs & -> & Hd)].
      + apply rel_call_method; [apply Q6; assumption | assumption | assumption].
      + rewrite (call_dict_method_none Ein E g ks vs a args kwn kwv); [apply refines_none|]. apply vrel_val. apply Q6; assumption.
    - (* Lambda *)
      intros v Hv. exfalso.
      assert (Hd : has_dup ps = false).
      { apply andb_true_iff in Hwc. destruct Hwc as [Hwg _]. apply wfq_lam_iff in Hwg. tauto. }
      destruct (Hnb ps g eq_refl) as [Hstar|Hnone].
      + rewrite (starred_call_none Ein ps g args kwn kwv Hstar) in Hv. discriminate.
      + destruct (eval_call_lambda_some Ein ps g args kwn kwv v Hd Hv) as (E' & given & Hgv & _).
        rewrite Hnone in Hgv. discriminate.
  Qed.

  (* ---- name discipline of the terms the rules build ---- *)
  Definition A (P : string -> Prop) (e : expr) : Prop := forall y, P y -> mentions y e = false.
  Definition Bk (Q : string -> Prop) (e : expr) : Prop := forall y, binds y e = true -> Q y.
  Definition freshP (c : nat) (y : string) : Prop := exists n, c <= n /\ y = arg_name n.
  Definition notkey (st : stack) (y : string) : Prop := is_key y st = false.
  Definition isFirst (y : string) : Prop := y = "First".

  Lemma below_A c e : below c e <-> A (freshP c) e.
  Proof. split; [intros H y (n & Hn & ->); apply H; assumption | intros H n Hn; apply H; exists n; auto]. Qed.

  Lemma nobind_Bk st e : (forall y, is_key y st = true -> binds y e = false) <-> Bk (notkey st) e.
  Proof.
    split.
    - intros H y Hy. unfold notkey. destruct (is_key y st) eqn:E; [|reflexivity]. rewrite (H y E) in Hy. discriminate.
    - intros H y Hy. destruct (binds y e) eqn:E; [|reflexivity]. specialize (H y E). unfold notkey in H. congruence.
  Qed.

  Lemma nf_A e : mentions "First" e = false <-> A isFirst e.
  Proof. split; [intros H y ->; assumption | intros H; apply H; reflexivity]. Qed.

  Lemma pre_intro st c e : wfq e = true -> A (freshP c) e -> Bk (nofun B) e -> Bk (notkey st) e -> A isFirst e -> pre st c e.
  Proof. intros H1 H2 H3 H4 H5. constructor; [assumption | apply below_A; assumption | assumption | apply nobind_Bk; assumption | apply nf_A; assumption]. Qed.

  Lemma pre_elim st c e : pre st c e -> wfq e = true /\ A (freshP c) e /\ Bk (nofun B) e /\ Bk (notkey st) e /\ A isFirst e.
  Proof. intros [H1 H2 H3 H4 H5]. split; [assumption|]. split; [apply below_A; assumption|]. split; [assumption|]. split; [apply nobind_Bk; assumption | apply nf_A; assumption]. Qed.

  Lemma clean_pre st e : clean st e -> Bk (notkey st) e /\ A isFirst e.
  Proof.
    intros H. split.
    - intros y Hy. unfold notkey. destruct (is_key y st) eqn:E; [|reflexivity].
      pose proof (H y (or_introl E)) as Hm. rewrite (binds_mentions _ _ Hy) in Hm. discriminate.
    - intros y ->. apply H. right. reflexivity.
  Qed.

  Lemma A_child (P : string -> Prop) e x : In x (children e) -> A P e -> A P x.
  Proof. intros Hin H y Hy. specialize (H y Hy). destruct (mentions y x) eqn:E; [|reflexivity]. rewrite (mentions_child _ _ _ Hin E) in H. discriminate. Qed.

  Lemma Bk_child (Q : string -> Prop) e x : In x (children e) -> Bk Q e -> Bk Q x.
  Proof. intros Hin H y Hy. apply H. eapply binds_child; eassumption. Qed.

  Lemma A_plain (P : string -> Prop) e : plain e = true -> (forall x, In x (children e) -> A P x) -> A P e.
  Proof.
    intros Hp H y Hy. rewrite mentions_children. destruct e; try discriminate; apply mentions_any_false; intros x Hx; apply (H x Hx y Hy).
  Qed.

  Lemma Bk_plain (Q : string -> Prop) e : plain e = true -> (forall x, In x (children e) -> Bk Q x) -> Bk Q e.
  Proof.
    intros Hp H y Hy. rewrite binds_children in Hy. destruct e; try discriminate;
      apply binds_any_true_in in Hy; destruct Hy as (x & Hx & Hb); apply (H x Hx y Hb).
  Qed.

  Lemma A_name (P : string -> Prop) x : ~ P x -> A P (Name x).
  Proof. intros H y Hy. cbn [mentions]. destruct (String.eqb y x) eqn:E; [|reflexivity]. apply String.eqb_eq in E. subst. contradiction. Qed.

  Lemma Bk_name (Q : string -> Prop) x : Bk Q (Name x).
  Proof. intros y Hy. discriminate. Qed.

  Lemma A_lambda (P : string -> Prop) ps b : (forall p, In p ps -> ~ P p) -> A P b -> A P (Lambda ps b).
  Proof.
    intros Hps Hb y Hy. cbn [mentions]. apply orb_false_iff. split; [|apply Hb; assumption].
    apply existsb_eqb_notin. intros Hin. apply (Hps y Hin Hy).
  Qed.

  Lemma Bk_lambda (Q : string -> Prop) ps b : (forall p, In p ps -> Q p) -> Bk Q b -> Bk Q (Lambda ps b).
  Proof.
    intros Hps Hb y Hy. cbn [binds] in Hy. apply orb_true_iff in Hy. destruct Hy as [Hy|Hy]; [|apply Hb; assumption].
    apply existsb_eqb_in in Hy. apply Hps; assumption.
  Qed.

  Lemma A_lambda_inv (P : string -> Prop) ps b : A P (Lambda ps b) -> (forall p, In p ps -> ~ P p) /\ A P b.
  Proof.
    intros H. split.
    - intros p Hin Hp. specialize (H p Hp). cbn [mentions] in H. apply orb_false_iff in H. destruct H as [H _].
      apply existsb_eqb_notin in H. contradiction.
    - intros y Hy. specialize (H y Hy). cbn [mentions] in H. apply orb_false_iff in H. tauto.
  Qed.

  Lemma Bk_lambda_inv (Q : string -> Prop) ps b : Bk Q (Lambda ps b) -> (forall p, In p ps -> Q p) /\ Bk Q b.
  Proof.
    intros H. split.
    - intros p Hin. apply H. cbn [binds]. apply orb_true_iff. left. apply existsb_eqb_in. assumption.
    - intros y Hy. apply H. cbn [binds]. rewrite Hy. apply orb_true_r.
  Qed.

  (* the shapes *)
  Lemma A_fc (P : string -> Prop) op a l : ~ P op -> A P a -> A P l -> A P (function_call op [a; l]).
  Proof.
    intros Hop Ha Hl. apply A_plain; [reflexivity|]. cbn [children function_call app]. intros x [<-|[<-|[<-|[]]]]; [apply A_name|..]; assumption.
  Qed.

  Lemma Bk_fc (Q : string -> Prop) op a l : Bk Q a -> Bk Q l -> Bk Q (function_call op [a; l]).
  Proof.
    intros Ha Hl. apply Bk_plain; [reflexivity|]. cbn [children function_call app]. intros x [<-|[<-|[<-|[]]]]; [apply Bk_name|..]; assumption.
  Qed.

  Lemma A_call1 (P : string -> Prop) g a : A P g -> A P a -> A P (Call g [a] [] []).
  Proof. intros Hg Ha. apply A_plain; [reflexivity|]. cbn [children app]. intros x [<-|[<-|[]]]; assumption. Qed.

  Lemma Bk_call1 (Q : string -> Prop) g a : Bk Q g -> Bk Q a -> Bk Q (Call g [a] [] []).
  Proof. intros Hg Ha. apply Bk_plain; [reflexivity|]. cbn [children app]. intros x [<-|[<-|[]]]; assumption. Qed.

  Lemma A_and2 (P : string -> Prop) a b : A P a -> A P b -> A P (BoolOp And [a; b]).
  Proof. intros Ha Hb. apply A_plain; [reflexivity|]. cbn [children]. intros x [<-|[<-|[]]]; assumption. Qed.

  Lemma Bk_and2 (Q : string -> Prop) a b : Bk Q a -> Bk Q b -> Bk Q (BoolOp And [a; b]).
  Proof. intros Ha Hb. apply Bk_plain; [reflexivity|]. cbn [children]. intros x [<-|[<-|[]]]; assumption. Qed.

  Lemma A_make_Select (P : string -> Prop) s sel : ~ P "Select" -> A P s -> A P sel -> A P (make_Select s sel).
  Proof. intros H0 H1 H2. unfold make_Select. destruct (lambda_is_identity sel); [assumption | apply A_fc; assumption]. Qed.

  Lemma Bk_make_Select (Q : string -> Prop) s sel : Bk Q s -> Bk Q sel -> Bk Q (make_Select s sel).
  Proof. intros H1 H2. unfold make_Select. destruct (lambda_is_identity sel); [assumption | apply Bk_fc; assumption]. Qed.

  Lemma A_mau (P : string -> Prop) ps b c :
    A P (Lambda ps b) -> (forall k, c <= k < c + length ps -> ~ P (arg_name k)) -> A P (fst (make_args_unique ps b c)).
  Proof.
    intros H Hf y Hy. destruct (mentions y (fst (make_args_unique ps b c))) eqn:E; [|reflexivity].
    destruct (mentions_mau _ _ _ _ E) as [H1|(k & Hk & ->)]; [rewrite (H y Hy) in H1; discriminate|].
    destruct (Hf k Hk Hy).
  Qed.

  Lemma Bk_mau (Q : string -> Prop) ps b c :
    Bk Q (Lambda ps b) -> (forall k, c <= k < c + length ps -> Q (arg_name k)) -> Bk Q (fst (make_args_unique ps b c)).
  Proof.
    intros H Hf y Hy. destruct (binds_mau _ _ _ _ Hy) as [H1|(k & Hk & ->)]; [|apply Hf; assumption].
    apply H. cbn [binds]. rewrite H1. apply orb_true_r.
  Qed.

  Lemma convolute_eq gps gb fps fb c :
    convolute (Lambda gps gb) (Lambda fps fb) c =
    Ok (Lambda [arg_name (c + length gps + length fps)]
          (Call (fst (make_args_unique gps gb c))
             [Call (fst (make_args_unique fps fb (c + length gps))) [Name (arg_name (c + length gps + length fps))] [] []] [] []),
        S (c + length gps + length fps)).
  Proof. unfold convolute. rewrite !mau_eq. reflexivity. Qed.

  Lemma A_convolute (P : string -> Prop) gps gb fps fb c cv c' :
    convolute (Lambda gps gb) (Lambda fps fb) c = Ok (cv, c') ->
    A P (Lambda gps gb) -> A P (Lambda fps fb) -> (forall k, c <= k < c' -> ~ P (arg_name k)) -> A P cv.
  Proof.
    rewrite convolute_eq. intros H Hg Hf Hfr. inversion H; subst; clear H.
    apply A_lambda; [intros p [<-|[]]; apply Hfr; lia|].
    apply A_call1; [apply A_mau; [assumption | intros k Hk; apply Hfr; lia]|].
    apply A_call1; [apply A_mau; [assumption | intros k Hk; apply Hfr; lia] | apply A_name; apply Hfr; lia].
  Qed.

  Lemma Bk_convolute (Q : string -> Prop) gps gb fps fb c cv c' :
    convolute (Lambda gps gb) (Lambda fps fb) c = Ok (cv, c') ->
    Bk Q (Lambda gps gb) -> Bk Q (Lambda fps fb) -> (forall k, c <= k < c' -> Q (arg_name k)) -> Bk Q cv.
  Proof.
    rewrite convolute_eq. intros H Hg Hf Hfr. inversion H; subst; clear H.
    apply Bk_lambda; [intros p [<-|[]]; apply Hfr; lia|].
    apply Bk_call1; [apply Bk_mau; [assumption | intros k Hk; apply Hfr; lia]|].
    apply Bk_call1; [apply Bk_mau; [assumption | intros k Hk; apply Hfr; lia] | apply Bk_name].
  Qed.

  Lemma convolute_counter gps gb fps fb c cv c' : convolute (Lambda gps gb) (Lambda fps fb) c = Ok (cv, c') -> c < c'.
  Proof. rewrite convolute_eq. intros H. inversion H. lia. Qed.

  (* what fresh names are not *)
  Lemma fresh_not_freshP c k : k < c -> ~ freshP c (arg_name k).
  Proof. intros Hk (n & Hn & Heq). apply arg_name_inj in Heq. lia. Qed.

  Lemma fresh_not_forb c st k : stack_ok c st -> c <= k -> ~ forb st (arg_name k).
  Proof.
    intros Hst Hk [Hy|Hy]; [|apply (arg_name_not_First _ Hy)].
    unfold is_key in Hy. destruct (stack_lookup (arg_name k) st) as [d|] eqn:E; [|discriminate].
    destruct (Hst _ _ E) as ((n & Hn & Hlt) & _). apply arg_name_inj in Hn. lia.
  Qed.

  Lemma fresh_notkey c st k : stack_ok c st -> c <= k -> notkey st (arg_name k).
  Proof.
    intros Hst Hk. unfold notkey. destruct (is_key (arg_name k) st) eqn:E; [|reflexivity].
    exfalso. apply (fresh_not_forb c st k Hst Hk). left. assumption.
  Qed.

  Lemma opname_not_freshP c op : opname op = true -> ~ freshP c op.
  Proof. intros Ho (n & _ & ->). rewrite arg_name_not_op in Ho. discriminate. Qed.

  Lemma handler_not_forb c st op : stack_ok c st -> is_call_handler op = true -> ~ forb st op.
  Proof.
    intros Hst Ho [Hy|Hy].
    - unfold is_key in Hy. destruct (stack_lookup op st) as [d|] eqn:E; [|discriminate].
      destruct (Hst _ _ E) as ((n & -> & _) & _). pose proof (arg_name_not_op n) as Hn. unfold opname in Hn. rewrite Ho in Hn. discriminate.
    - subst op. unfold is_call_handler in Ho. rewrite handlers_pinned in Ho. discriminate.
  Qed.

  Lemma handler_not_First op : is_call_handler op = true -> ~ isFirst op.
  Proof. intros Ho ->. unfold is_call_handler in Ho. rewrite handlers_pinned in Ho. discriminate. Qed.

  (* [parts]: admissible as (part of) an input at counter [c]; [outs]: the invariants of an output *)
  Definition parts (st : stack) (c : nat) (x : expr) : Prop :=
    A (freshP c) x /\ Bk (nofun B) x /\ Bk (notkey st) x /\ A isFirst x.
  Definition outs (st : stack) (c : nat) (x : expr) : Prop := A (freshP c) x /\ Bk (nofun B) x /\ A (forb st) x.

  Lemma parts_of_pre st c x : pre st c x -> parts st c x.
  Proof. intros H. apply pre_elim in H. unfold parts. tauto. Qed.

  Lemma pre_of_parts st c x : wfq x = true -> parts st c x -> pre st c x.
  Proof. intros Hw (H1 & H2 & H3 & H4). apply pre_intro; assumption. Qed.

  Lemma outs_of_post st c e x c' : post st c e x c' -> outs st c' x.
  Proof. intros [_ _ Q3 Q4 Q5 _]. split; [apply below_A; assumption | split; assumption]. Qed.

  Lemma parts_of_outs st c x : outs st c x -> parts st c x.
  Proof. intros (H1 & H2 & H3). destruct (clean_pre st x H3) as [H4 H5]. split; [|split; [|split]]; assumption. Qed.

  Lemma A_freshP_mono c c' x : c <= c' -> A (freshP c) x -> A (freshP c') x.
  Proof. intros Hc H y (n & Hn & ->). apply H. exists n. split; [lia | reflexivity]. Qed.

  Lemma parts_mono st c c' x : c <= c' -> parts st c x -> parts st c' x.
  Proof. intros Hc (H1 & H2 & H3 & H4). split; [eapply A_freshP_mono; eassumption | unfold parts, outs; tauto]. Qed.

  Lemma outs_mono st c c' x : c <= c' -> outs st c x -> outs st c' x.
  Proof. intros Hc (H1 & H2 & H3). split; [eapply A_freshP_mono; eassumption | unfold parts, outs; tauto]. Qed.

  Lemma parts_child st c e x : In x (children e) -> parts st c e -> parts st c x.
  Proof. intros Hin (H1 & H2 & H3 & H4). split; [|split; [|split]]; first [eapply A_child; eassumption | eapply Bk_child; eassumption]. Qed.

  Lemma outs_child st c e x : In x (children e) -> outs st c e -> outs st c x.
  Proof. intros Hin (H1 & H2 & H3). split; [|split]; first [eapply A_child; eassumption | eapply Bk_child; eassumption]. Qed.

  Lemma post_of_outs st c e x c' :
    c <= c' -> wfq x = true -> outs st c' x -> (forall E Ein, env_for st E Ein -> vrel B ops Ein E e x) -> post st c e x c'.
  Proof. intros Hc Hw (H1 & H2 & H3) Hs. constructor; try assumption. apply below_A; assumption. Qed.

  Lemma parts_fc st c c0 op a l :
    stack_ok c0 st -> is_call_handler op = true -> parts st c a -> parts st c l -> parts st c (function_call op [a; l]).
  Proof.
    intros Hst Ho (A1 & A2 & A3 & A4) (L1 & L2 & L3 & L4). split; [|split; [|split]].
    - apply A_fc; try assumption. apply opname_not_freshP. apply opname_handler; assumption.
    - apply Bk_fc; assumption.
    - apply Bk_fc; assumption.
    - apply A_fc; try assumption. apply handler_not_First; assumption.
  Qed.

  Lemma outs_fc st c c0 op a l :
    stack_ok c0 st -> is_call_handler op = true -> outs st c a -> outs st c l -> outs st c (function_call op [a; l]).
  Proof.
    intros Hst Ho (A1 & A2 & A3) (L1 & L2 & L3). split; [|split].
    - apply A_fc; try assumption. apply opname_not_freshP. apply opname_handler; assumption.
    - apply Bk_fc; assumption.
    - apply A_fc; try assumption. eapply handler_not_forb; eassumption.
  Qed.

  Lemma parts_make_Select st c c0 a l : stack_ok c0 st -> parts st c a -> parts st c l -> parts st c (make_Select a l).
  Proof. intros Hst Ha Hl. unfold make_Select. destruct (lambda_is_identity l); [assumption | eapply parts_fc; try eassumption; reflexivity]. Qed.

  Lemma outs_make_Select st c c0 a l : stack_ok c0 st -> outs st c a -> outs st c l -> outs st c (make_Select a l).
  Proof. intros Hst Ha Hl. unfold make_Select. destruct (lambda_is_identity l); [assumption | eapply outs_fc; try eassumption; reflexivity]. Qed.

  (* fresh names: drawn at or above the stack's counter, below the current one *)
  Definition drawn (st : stack) (c : nat) (p : string) : Prop := exists k c0, p = arg_name k /\ stack_ok c0 st /\ c0 <= k < c.

  Lemma drawn_ok st c p : drawn st c p -> ~ freshP c p /\ nofun B p /\ notkey st p /\ ~ isFirst p.
  Proof.
    intros (k & c0 & -> & Hst & Hk). split; [apply fresh_not_freshP; lia|]. split; [apply B_args|].
    split; [eapply fresh_notkey; [eassumption | lia] | apply arg_name_not_First].
  Qed.

  Lemma parts_lambda st c ps b : (forall p, In p ps -> drawn st c p) -> parts st c b -> parts st c (Lambda ps b).
  Proof.
    intros Hps (B1 & B2 & B3 & B4). split; [|split; [|split]]; first [apply A_lambda | apply Bk_lambda]; try assumption;
      intros p Hp; apply (drawn_ok st c p (Hps p Hp)).
  Qed.

  Lemma parts_lambda_inv st c ps b : parts st c (Lambda ps b) -> parts st c b.
  Proof. intros (H1 & H2 & H3 & H4). split; [|split; [|split]]; first [eapply A_lambda_inv; eassumption | eapply Bk_lambda_inv; eassumption]. Qed.

  Lemma parts_name_drawn st c p : drawn st c p -> parts st c (Name p).
  Proof. intros H. destruct (drawn_ok st c p H) as (H1 & H2 & H3 & H4). split; [|split; [|split]]; first [apply A_name; assumption | apply Bk_name]. Qed.

  Lemma parts_call1 st c g a : parts st c g -> parts st c a -> parts st c (Call g [a] [] []).
  Proof. intros (G1 & G2 & G3 & G4) (A1 & A2 & A3 & A4). split; [|split; [|split]]; first [apply A_call1; assumption | apply Bk_call1; assumption]. Qed.

  Lemma parts_and2 st c a b : parts st c a -> parts st c b -> parts st c (BoolOp And [a; b]).
  Proof. intros (G1 & G2 & G3 & G4) (A1 & A2 & A3 & A4). split; [|split; [|split]]; first [apply A_and2; assumption | apply Bk_and2; assumption]. Qed.

  Lemma parts_mau st c ps b :
    stack_ok c st -> parts st c (Lambda ps b) -> parts st (c + length ps) (fst (make_args_unique ps b c)).
  Proof.
    intros Hst (H1 & H2 & H3 & H4). split; [|split; [|split]].
    - apply A_mau; [eapply A_freshP_mono; [|eassumption]; lia | intros k Hk; apply fresh_not_freshP; lia].
    - apply Bk_mau; [assumption | intros k Hk; apply B_args].
    - apply Bk_mau; [assumption | intros k Hk; eapply fresh_notkey; [eassumption | lia]].
    - apply A_mau; [assumption | intros k Hk; apply arg_name_not_First].
  Qed.

  Lemma mau_drawn st c ps b fs b' c' :
    stack_ok c st -> make_args_unique ps b c = (Lambda fs b', c') ->
    c' = c + length ps /\ length fs = length ps /\ has_dup fs = false /\ (forall p, In p fs -> drawn st c' p).
  Proof.
    intros Hst H. rewrite mau_eq in H. inversion H; subst; clear H. split; [reflexivity|]. split; [apply fresh_names_length|].
    split; [apply fresh_names_nodup|]. intros p Hp. apply in_fresh_names in Hp. destruct Hp as (k & Hk & ->). exists k, c. auto.
  Qed.

  Lemma parts_convolute st c gps gb fps fb cv c' :
    stack_ok c st -> convolute (Lambda gps gb) (Lambda fps fb) c = Ok (cv, c') ->
    parts st c (Lambda gps gb) -> parts st c (Lambda fps fb) -> parts st c' cv.
  Proof.
    intros Hst H (G1 & G2 & G3 & G4) (F1 & F2 & F3 & F4). pose proof (convolute_counter _ _ _ _ _ _ _ H) as Hc.
    split; [|split; [|split]].
    - eapply A_convolute; [eassumption | eapply A_freshP_mono; [|eassumption]; lia | eapply A_freshP_mono; [|eassumption]; lia |].
      intros k Hk. apply fresh_not_freshP. lia.
    - eapply Bk_convolute; try eassumption. intros k Hk. apply B_args.
    - eapply Bk_convolute; try eassumption. intros k Hk. eapply fresh_notkey; [eassumption | lia].
    - eapply A_convolute; try eassumption. intros k Hk. apply arg_name_not_First.
  Qed.

  (* ---- the fusing operators ---- *)
  Lemma sem_source st E Ein op source parent t :
    env_for st E Ein -> clean st parent -> vrel B ops Ein E source parent ->
    refines (ev Ein (function_call op [source; t])) (ev Ein (function_call op [parent; t])).
  Proof.
    intros He Hc Hv. apply rel_call_name; [|constructor].
    constructor; [eapply vrel_back; eassumption|]. constructor; [apply aview_refines_refl | constructor].
  Qed.

  Lemma sem_out Ein E op a a' l l' :
    vrel B ops Ein E a a' -> vrel B ops Ein E l l' ->
    refines (ev Ein (function_call op [a; l])) (ev E (function_call op [a'; l'])).
  Proof. intros Ha Hl. apply rel_call_name; [|constructor]. constructor; [assumption|]. constructor; [assumption | constructor]. Qed.

  Lemma outs_clean st c x : outs st c x -> clean st x.
  Proof. intros (_ & _ & H). exact H. Qed.

  Lemma outs_bok st c x : outs st c x -> bok x.
  Proof. intros (_ & H & _). exact H. Qed.

  Lemma outs_below st c x : outs st c x -> below c x.
  Proof. intros (H & _ & _). apply below_A. exact H. Qed.

  Lemma parts_below st c x : parts st c x -> below c x.
  Proof. intros (H & _). apply below_A. exact H. Qed.

  Lemma parts_bok st c x : parts st c x -> bok x.
  Proof. intros (_ & H & _). exact H. Qed.

  Lemma sound_Select f (IH : IHs f) st bd c source tps tb e' c' :
    simp (S f) st bd c (function_call "Select" [source; Lambda tps tb]) = Ok (e', c') ->
    stack_ok c st -> pre st c (function_call "Select" [source; Lambda tps tb]) ->
    post st c (function_call "Select" [source; Lambda tps tb]) e' c'.
  Proof.
    intros H Hst Hp. pose proof (ok_wf _ _ _ _ _ _ _ H Hst (p_wf _ _ _ Hp)) as Hwe.
    pose proof (parts_of_pre _ _ _ Hp) as Pe.
    assert (Ps : parts st c source) by (eapply parts_child; [|exact Pe]; cbn; auto).
    assert (Pt : parts st c (Lambda tps tb)) by (eapply parts_child; [|exact Pe]; cbn; auto).
    destruct (wfq_handler_shape _ "Select" (p_wf _ _ _ Hp) eq_refl eq_refl) as (s0 & ps0 & b0 & Heq & Hws & Hdt & Hwt & _).
    inversion Heq; subst s0 ps0 b0; clear Heq.
    unfold function_call in H. cbn [simp] in H.
    change (is_call_handler "Select") with true in H. change (String.eqb "Select" "Select") with true in H.
    cbn [negb is_lambda] in H.
    destruct (simp f st bd c source) as [[parent c1]| | |] eqn:Ev; cbn [sbind] in H; try discriminate.
    pose proof (IH _ _ _ _ _ _ Ev Hst (pre_of_parts _ _ _ Hws Ps)) as Qp.
    pose proof (outs_of_post _ _ _ _ _ Qp) as Op. destruct Qp as [Q1 Q2 _ _ _ Q6].
    assert (Hst1 : stack_ok c1 st) by (eapply stack_ok_mono; eassumption).
    assert (Pt1 : parts st c1 (Lambda tps tb)) by (eapply parts_mono; eassumption).
    destruct (is_call_of parent "Select") eqn:E1.
    - (* Select of Select *)
      destruct (wfq_handler_shape _ "Select" Q2 E1 eq_refl) as (src & fps & fb & -> & Hwsrc & Hdf & Hwf & _).
      cbn [unpack2 negb is_lambda] in H.
      assert (Osrc : outs st c1 src) by (eapply outs_child; [|exact Op]; cbn; auto).
      assert (Of : outs st c1 (Lambda fps fb)) by (eapply outs_child; [|exact Op]; cbn; auto).
      destruct (convolute (Lambda tps tb) (Lambda fps fb) c1) as [[cv c2]| | |] eqn:Ec; cbn [sbind] in H; try discriminate.
      pose proof (convolute_counter _ _ _ _ _ _ _ Ec) as Hc12.
      destruct (wfq_convolute tps tb fps fb c1 Hwt Hwf) as (cv0 & c20 & Ec0 & Hwcv). rewrite Ec in Ec0. inversion Ec0; subst cv0 c20; clear Ec0.
      assert (Pcv : parts st c2 cv) by (eapply parts_convolute; [exact Hst1 | exact Ec | exact Pt1 | apply parts_of_outs; exact Of]).
      destruct (simp f st bd c2 cv) as [[sel c3]| | |] eqn:Es; cbn [sbind] in H; try discriminate.
      inversion H; subst e' c'; clear H.
      assert (Hst2 : stack_ok c2 st) by (eapply stack_ok_mono; [|eassumption]; lia).
      pose proof (IH _ _ _ _ _ _ Es Hst2 (pre_of_parts _ _ _ Hwcv Pcv)) as Qs.
      pose proof (outs_of_post _ _ _ _ _ Qs) as Os. destruct Qs as [S1 _ _ _ _ S6].
      apply post_of_outs; [lia | assumption | |].
      + eapply outs_make_Select; [eassumption | eapply outs_mono; [|exact Osrc]; lia | exact Os].
      + intros E Ein He. apply vrel_nonlam; [reflexivity|].
        eapply refines_trans; [apply (sem_source st E Ein _ source _ _ He (outs_clean _ _ _ Op)); apply Q6; assumption|].
        eapply refines_trans; [eapply (conv_Select_of_Select B ops Ein src fps fb tps tb c1 cv c2);
                               [eapply outs_below; eassumption | eapply parts_below; eassumption | eapply outs_bok; eassumption | eapply parts_bok; eassumption | exact Ec]|].
        eapply refines_trans; [|apply make_Select_sound].
        apply sem_out; [apply (clean_vrel st _ E Ein (outs_clean _ _ _ Osrc) He) | apply S6; assumption].
    - destruct (is_call_of parent "SelectMany") eqn:E2.
      + (* Select of SelectMany *)
        destruct (wfq_handler_shape _ "SelectMany" Q2 E2 eq_refl) as (src & fps & fb & -> & Hwsrc & Hdf & Hwf & Hne).
        cbn [unpack2] in H.
        assert (Osrc : outs st c1 src) by (eapply outs_child; [|exact Op]; cbn; auto).
        assert (Of : outs st c1 (Lambda fps fb)) by (eapply outs_child; [|exact Op]; cbn; auto).
        pose proof (parts_mau st c1 fps fb Hst1 (parts_of_outs _ _ _ Of)) as Pm.
        destruct (make_args_unique fps fb c1) as [lam c2] eqn:Em. pose proof Em as Em'. rewrite mau_eq in Em'.
        inversion Em'; subst lam c2; clear Em'. cbn [fst] in Pm.
        set (fps' := fresh_names (length fps) c1) in *. set (fb' := rename (rev (combine fps fps')) fb) in *.
        destruct (mau_drawn st c1 fps fb fps' fb' _ Hst1 Em) as (_ & Hlf & Hdf' & Hdr).
        set (c2 := c1 + length fps) in *.
        assert (Hwnew : wfq (function_call "SelectMany" [src; Lambda fps' (make_Select fb' (Lambda tps tb))]) = true).
        { apply wfq_op; [reflexivity | assumption | assumption | | ].
          - eapply wfq_make_Select; [reflexivity | | assumption | assumption]. apply wfq_rename; [apply ren_ok_fresh | assumption].
          - intros _ Hnil. apply Hne; [reflexivity|]. rewrite Hnil in Hlf. destruct fps; [reflexivity | discriminate]. }
        assert (Pnew : parts st c2 (function_call "SelectMany" [src; Lambda fps' (make_Select fb' (Lambda tps tb))])).
        { eapply parts_fc; [exact Hst1 | reflexivity | eapply parts_mono; [|apply parts_of_outs; exact Osrc]; unfold c2; lia|].
          apply parts_lambda; [exact Hdr|]. eapply parts_make_Select; [exact Hst1 | eapply parts_lambda_inv; exact Pm|].
          eapply parts_mono; [|exact Pt1]. unfold c2; lia. }
        assert (Hst2 : stack_ok c2 st) by (eapply stack_ok_mono; [|exact Hst1]; unfold c2; lia).
        pose proof (IH _ _ _ _ _ _ H Hst2 (pre_of_parts _ _ _ Hwnew Pnew)) as Qn.
        pose proof (outs_of_post _ _ _ _ _ Qn) as On. destruct Qn as [N1 _ _ _ _ N6].
        apply post_of_outs; [unfold c2 in N1; lia | assumption | assumption |].
        intros E Ein He. apply vrel_nonlam; [reflexivity|].
        eapply refines_trans; [apply (sem_source st E Ein _ source _ _ He (outs_clean _ _ _ Op)); apply Q6; assumption|].
        eapply refines_trans; [apply (mau_Select_of_SelectMany B ops Ein src fps fb (Lambda tps tb) c1 fps' fb' c2);
                               [eapply outs_below; eassumption | eapply parts_below; eassumption | eapply outs_bok; eassumption | exact Em]|].
        apply vrel_val. apply N6; assumption.
      + (* plain Select *)
        destruct (simp f st bd c1 (Lambda tps tb)) as [[sel c2]| | |] eqn:Es; cbn [sbind] in H; try discriminate.
        inversion H; subst e' c'; clear H.
        assert (Hwl : wfq (Lambda tps tb) = true) by (apply wfq_lam_iff; auto).
        pose proof (IH _ _ _ _ _ _ Es Hst1 (pre_of_parts _ _ _ Hwl Pt1)) as Qs.
        pose proof (outs_of_post _ _ _ _ _ Qs) as Os. destruct Qs as [S1 _ _ _ _ S6].
        apply post_of_outs; [lia | assumption | |].
        * eapply outs_make_Select; [eassumption | eapply outs_mono; [|exact Op]; lia | exact Os].
        * intros E Ein He. apply vrel_nonlam; [reflexivity|].
          eapply refines_trans; [|apply make_Select_sound]. apply sem_out; [apply Q6; assumption | apply S6; assumption].
  Qed.

  Lemma sound_SelectMany f (IH : IHs f) st bd c source tps tb e' c' :
    simp (S f) st bd c (function_call "SelectMany" [source; Lambda tps tb]) = Ok (e', c') ->
    stack_ok c st -> pre st c (function_call "SelectMany" [source; Lambda tps tb]) ->
    post st c (function_call "SelectMany" [source; Lambda tps tb]) e' c'.
  Proof.
    intros H Hst Hp. pose proof (ok_wf _ _ _ _ _ _ _ H Hst (p_wf _ _ _ Hp)) as Hwe.
    pose proof (parts_of_pre _ _ _ Hp) as Pe.
    assert (Ps : parts st c source) by (eapply parts_child; [|exact Pe]; cbn; auto).
    assert (Pt : parts st c (Lambda tps tb)) by (eapply parts_child; [|exact Pe]; cbn; auto).
    destruct (wfq_handler_shape _ "SelectMany" (p_wf _ _ _ Hp) eq_refl eq_refl) as (s0 & ps0 & b0 & Heq & Hws & Hdt & Hwt & Hnet).
    inversion Heq; subst s0 ps0 b0; clear Heq. specialize (Hnet eq_refl).
    unfold function_call in H. cbn [simp] in H.
    change (is_call_handler "SelectMany") with true in H. change (String.eqb "SelectMany" "Select") with false in H.
    change (String.eqb "SelectMany" "SelectMany") with true in H.
    cbn [negb is_lambda] in H.
    destruct (simp f st bd c source) as [[parent c1]| | |] eqn:Ev; cbn [sbind] in H; try discriminate.
    pose proof (IH _ _ _ _ _ _ Ev Hst (pre_of_parts _ _ _ Hws Ps)) as Qp.
    pose proof (outs_of_post _ _ _ _ _ Qp) as Op. destruct Qp as [Q1 Q2 _ _ _ Q6].
    assert (Hst1 : stack_ok c1 st) by (eapply stack_ok_mono; eassumption).
    assert (Pt1 : parts st c1 (Lambda tps tb)) by (eapply parts_mono; eassumption).
    assert (Hwl : wfq (Lambda tps tb) = true) by (apply wfq_lam_iff; auto).
    destruct (is_call_of parent "SelectMany") eqn:E1.
    - (* SelectMany of SelectMany *)
      destruct (wfq_handler_shape _ "SelectMany" Q2 E1 eq_refl) as (src & fps & fb & -> & Hwsrc & Hdf & Hwf & Hne).
      specialize (Hne eq_refl).
      assert (Osrc : outs st c1 src) by (eapply outs_child; [|exact Op]; cbn; auto).
      assert (Of : outs st c1 (Lambda fps fb)) by (eapply outs_child; [|exact Op]; cbn; auto).
      pose proof (parts_mau st c1 fps fb Hst1 (parts_of_outs _ _ _ Of)) as Pm.
      destruct (make_args_unique fps fb c1) as [lam c2] eqn:Em. pose proof Em as Em'. rewrite mau_eq in Em'.
      inversion Em'; subst lam c2; clear Em'. cbn [fst] in Pm.
      set (fps' := fresh_names (length fps) c1) in *. set (fb' := rename (rev (combine fps fps')) fb) in *.
      destruct (mau_drawn st c1 fps fb fps' fb' _ Hst1 Em) as (_ & Hlf & Hdf' & Hdr).
      set (c2 := c1 + length fps) in *.
      assert (Hwfb' : wfq fb' = true) by (apply wfq_rename; [apply ren_ok_fresh | assumption]).
      destruct fps' as [|fp rest] eqn:Efps'; [destruct fps; [contradiction | discriminate Hlf]|].
      assert (Hwnew : wfq (function_call "SelectMany" [src; Lambda [fp] (function_call "SelectMany" [fb'; Lambda tps tb])]) = true).
      { apply wfq_op; [reflexivity | assumption | reflexivity | | intros _; discriminate].
        apply wfq_op; [reflexivity | assumption | assumption | assumption | intros _; assumption]. }
      assert (Pnew : parts st c2 (function_call "SelectMany" [src; Lambda [fp] (function_call "SelectMany" [fb'; Lambda tps tb])])).
      { eapply parts_fc; [exact Hst1 | reflexivity | eapply parts_mono; [|apply parts_of_outs; exact Osrc]; unfold c2; lia|].
        apply parts_lambda; [intros p [<-|[]]; apply Hdr; left; reflexivity|].
        eapply parts_fc; [exact Hst1 | reflexivity | eapply parts_lambda_inv; exact Pm|].
        eapply parts_mono; [|exact Pt1]. unfold c2; lia. }
      assert (Hst2 : stack_ok c2 st) by (eapply stack_ok_mono; [|exact Hst1]; unfold c2; lia).
      pose proof (IH _ _ _ _ _ _ H Hst2 (pre_of_parts _ _ _ Hwnew Pnew)) as Qn.
      pose proof (outs_of_post _ _ _ _ _ Qn) as On. destruct Qn as [N1 _ _ _ _ N6].
      apply post_of_outs; [unfold c2 in N1; lia | assumption | assumption |].
      intros E Ein He. apply vrel_nonlam; [reflexivity|].
      eapply refines_trans; [apply (sem_source st E Ein _ source _ _ He (outs_clean _ _ _ Op)); apply Q6; assumption|].
      eapply refines_trans; [apply (mau_SelectMany_of_SelectMany B ops Ein src fps fb (Lambda tps tb) c1 fp rest fb' c2);
                             [eapply outs_below; eassumption | eapply parts_below; eassumption | eapply outs_bok; eassumption | exact Em]|].
      apply vrel_val. apply N6; assumption.
    - destruct (is_call_of parent "Select") eqn:E2.
      + (* SelectMany of Select *)
        destruct (wfq_handler_shape _ "Select" Q2 E2 eq_refl) as (src & fps & fb & -> & Hwsrc & Hdf & Hwf & _).
        cbn [negb is_lambda] in H.
        assert (Osrc : outs st c1 src) by (eapply outs_child; [|exact Op]; cbn; auto).
        assert (Of : outs st c1 (Lambda fps fb)) by (eapply outs_child; [|exact Op]; cbn; auto).
        destruct (convolute (Lambda tps tb) (Lambda fps fb) c1) as [[cv c2]| | |] eqn:Ec; cbn [sbind] in H; try discriminate.
        pose proof (convolute_counter _ _ _ _ _ _ _ Ec) as Hc12.
        destruct (wfq_convolute tps tb fps fb c1 Hwt Hwf) as (cv0 & c20 & Ec0 & Hwcv). rewrite Ec in Ec0. inversion Ec0; subst cv0 c20; clear Ec0.
        assert (Pcv : parts st c2 cv) by (eapply parts_convolute; [exact Hst1 | exact Ec | exact Pt1 | apply parts_of_outs; exact Of]).
        destruct (simp f st bd c2 cv) as [[sel c3]| | |] eqn:Es; cbn [sbind] in H; try discriminate.
        inversion H; subst e' c'; clear H.
        assert (Hst2 : stack_ok c2 st) by (eapply stack_ok_mono; [|eassumption]; lia).
        pose proof (IH _ _ _ _ _ _ Es Hst2 (pre_of_parts _ _ _ Hwcv Pcv)) as Qs.
        pose proof (outs_of_post _ _ _ _ _ Qs) as Os. destruct Qs as [S1 _ _ _ _ S6].
        apply post_of_outs; [lia | assumption | |].
        * eapply outs_fc; [eassumption | reflexivity | eapply outs_mono; [|exact Osrc]; lia | exact Os].
        * intros E Ein He. apply vrel_nonlam; [reflexivity|].
          eapply refines_trans; [apply (sem_source st E Ein _ source _ _ He (outs_clean _ _ _ Op)); apply Q6; assumption|].
          eapply refines_trans; [eapply (conv_SelectMany_of_Select B ops Ein src fps fb tps tb c1 cv c2);
                                 [eapply outs_below; eassumption | eapply parts_below; eassumption | eapply outs_bok; eassumption | eapply parts_bok; eassumption | exact Ec]|].
          apply sem_out; [apply (clean_vrel st _ E Ein (outs_clean _ _ _ Osrc) He) | apply S6; assumption].
      + (* plain SelectMany *)
        destruct (simp f st bd c1 (Lambda tps tb)) as [[sel c2]| | |] eqn:Es; cbn [sbind] in H; try discriminate.
        inversion H; subst e' c'; clear H.
        pose proof (IH _ _ _ _ _ _ Es Hst1 (pre_of_parts _ _ _ Hwl Pt1)) as Qs.
        pose proof (outs_of_post _ _ _ _ _ Qs) as Os. destruct Qs as [S1 _ _ _ _ S6].
        apply post_of_outs; [lia | assumption | |].
        * eapply outs_fc; [eassumption | reflexivity | eapply outs_mono; [|exact Op]; lia | exact Os].
        * intros E Ein He. apply vrel_nonlam; [reflexivity|]. apply sem_out; [apply Q6; assumption | apply S6; assumption].
  Qed.

  Lemma sound_Where f (IH : IHs f) st bd c source tps tb e' c' :
    simp (S f) st bd c (function_call "Where" [source; Lambda tps tb]) = Ok (e', c') ->
    stack_ok c st -> pre st c (function_call "Where" [source; Lambda tps tb]) ->
    post st c (function_call "Where" [source; Lambda tps tb]) e' c'.
  Proof.
    intros H Hst Hp. pose proof (ok_wf _ _ _ _ _ _ _ H Hst (p_wf _ _ _ Hp)) as Hwe.
    pose proof (parts_of_pre _ _ _ Hp) as Pe.
    assert (Ps : parts st c source) by (eapply parts_child; [|exact Pe]; cbn; auto).
    assert (Pt : parts st c (Lambda tps tb)) by (eapply parts_child; [|exact Pe]; cbn; auto).
    destruct (wfq_handler_shape _ "Where" (p_wf _ _ _ Hp) eq_refl eq_refl) as (s0 & ps0 & b0 & Heq & Hws & Hdt & Hwt & _).
    inversion Heq; subst s0 ps0 b0; clear Heq.
    unfold function_call in H. cbn [simp] in H.
    change (is_call_handler "Where") with true in H. change (String.eqb "Where" "Select") with false in H.
    change (String.eqb "Where" "SelectMany") with false in H. change (String.eqb "Where" "Where") with true in H.
    cbn [negb is_lambda] in H.
    destruct (simp f st bd c source) as [[parent c1]| | |] eqn:Ev; cbn [sbind] in H; try discriminate.
    pose proof (IH _ _ _ _ _ _ Ev Hst (pre_of_parts _ _ _ Hws Ps)) as Qp.
    pose proof (outs_of_post _ _ _ _ _ Qp) as Op. destruct Qp as [Q1 Q2 _ _ _ Q6].
    assert (Hst1 : stack_ok c1 st) by (eapply stack_ok_mono; eassumption).
    assert (Pt1 : parts st c1 (Lambda tps tb)) by (eapply parts_mono; eassumption).
    assert (Hwl : wfq (Lambda tps tb) = true) by (apply wfq_lam_iff; auto).
    destruct (is_call_of parent "Where") eqn:E1.
    - (* Where of Where *)
      destruct (wfq_handler_shape _ "Where" Q2 E1 eq_refl) as (src & fps & fb & -> & Hwsrc & Hdf & Hwf & _).
      cbn [unpack2 negb is_lambda] in H.
      assert (Osrc : outs st c1 src) by (eapply outs_child; [|exact Op]; cbn; auto).
      assert (Of : outs st c1 (Lambda fps fb)) by (eapply outs_child; [|exact Op]; cbn; auto).
      assert (Hwff : wfq (Lambda fps fb) = true) by (apply wfq_lam_iff; auto).
      set (a := arg_name c1) in *.
      set (body := BoolOp And [Call (Lambda fps fb) [Name a] [] []; Call (Lambda tps tb) [Name a] [] []]) in *.
      assert (Hwa : wfq_all [Name a] = true) by (cbn [forallb]; unfold a; rewrite wfq_arg; reflexivity).
      assert (Hwb : wfq body = true).
      { unfold body.
        change (wfq (Call (Lambda fps fb) [Name a] [] []) && (wfq (Call (Lambda tps tb) [Name a] [] []) && true) = true).
        rewrite (wfq_call (Lambda fps fb) [Name a] [] [] Hwff Hwa eq_refl), (wfq_call (Lambda tps tb) [Name a] [] [] Hwl Hwa eq_refl). reflexivity. }
      assert (Hwnew : wfq (function_call "Where" [src; Lambda [a] body]) = true).
      { apply wfq_op; [reflexivity | assumption | reflexivity | assumption | intros Hx; discriminate Hx]. }
      assert (Hda : drawn st (S c1) a) by (exists c1, c1; split; [reflexivity | split; [assumption | lia]]).
      assert (Pnew : parts st (S c1) (function_call "Where" [src; Lambda [a] body])).
      { eapply parts_fc; [exact Hst1 | reflexivity | eapply parts_mono; [|apply parts_of_outs; exact Osrc]; lia|].
        apply parts_lambda; [intros p [<-|[]]; exact Hda|]. unfold body.
        apply parts_and2; (apply parts_call1; [|apply parts_name_drawn; exact Hda]).
        - eapply parts_mono; [|apply parts_of_outs; exact Of]. lia.
        - eapply parts_mono; [|exact Pt1]. lia. }
      assert (Hst2 : stack_ok (S c1) st) by (eapply stack_ok_mono; [|exact Hst1]; lia).
      pose proof (IH _ _ _ _ _ _ H Hst2 (pre_of_parts _ _ _ Hwnew Pnew)) as Qn.
      pose proof (outs_of_post _ _ _ _ _ Qn) as On. destruct Qn as [N1 _ _ _ _ N6].
      apply post_of_outs; [lia | assumption | assumption |].
      intros E Ein He. apply vrel_nonlam; [reflexivity|].
      eapply refines_trans; [apply (sem_source st E Ein _ source _ _ He (outs_clean _ _ _ Op)); apply Q6; assumption|].
      eapply refines_trans; [apply (conv_Where_of_Where B ops Ein src fps fb tps tb c1);
                             [eapply outs_below; eassumption | eapply parts_below; eassumption]|].
      apply vrel_val. apply N6; assumption.
    - destruct (is_call_of parent "Select") eqn:E2.
      + (* Where of Select *)
        destruct (wfq_handler_shape _ "Select" Q2 E2 eq_refl) as (src & fps & fb & -> & Hwsrc & Hdf & Hwf & _).
        cbn [unpack2 negb is_lambda] in H.
        assert (Osrc : outs st c1 src) by (eapply outs_child; [|exact Op]; cbn; auto).
        assert (Of : outs st c1 (Lambda fps fb)) by (eapply outs_child; [|exact Op]; cbn; auto).
        destruct (convolute (Lambda tps tb) (Lambda fps fb) c1) as [[cv c2]| | |] eqn:Ec; cbn [sbind] in H; try discriminate.
        pose proof (convolute_counter _ _ _ _ _ _ _ Ec) as Hc12.
        destruct (wfq_convolute tps tb fps fb c1 Hwt Hwf) as (cv0 & c20 & Ec0 & Hwcv). rewrite Ec in Ec0. inversion Ec0; subst cv0 c20; clear Ec0.
        assert (Pcv : parts st c2 cv) by (eapply parts_convolute; [exact Hst1 | exact Ec | exact Pt1 | apply parts_of_outs; exact Of]).
        destruct (simp f st bd c2 cv) as [[w c3]| | |] eqn:Es; cbn [sbind] in H; try discriminate.
        assert (Hst2 : stack_ok c2 st) by (eapply stack_ok_mono; [|eassumption]; lia).
        pose proof (IH _ _ _ _ _ _ Es Hst2 (pre_of_parts _ _ _ Hwcv Pcv)) as Qs.
        pose proof (outs_of_post _ _ _ _ _ Qs) as Os. destruct Qs as [S1 S2 _ _ _ S6].
        assert (Hshape : exists wps wb, w = Lambda wps wb /\ has_dup wps = false).
        { pose proof Ec as Ec'. rewrite convolute_eq in Ec'. inversion Ec' as [[Hcv Hc2]]. rewrite <- Hcv in Es.
          destruct (simp_Lambda_shape _ _ _ _ _ _ _ _ Es) as (wps & wb & -> & _ & Hd). exists wps, wb. split; [reflexivity | apply Hd; reflexivity]. }
        destruct Hshape as (wps & wb & -> & Hdw).
        assert (Hwwb : wfq wb = true) by (apply wfq_lam_iff in S2; tauto).
        set (new2 := make_Select (function_call "Where" [src; Lambda wps wb]) (Lambda fps fb)) in *.
        assert (Hwnew : wfq new2 = true).
        { eapply wfq_make_Select; [reflexivity | | assumption | assumption].
          apply wfq_op; [reflexivity | assumption | assumption | assumption | intros Hx; discriminate Hx]. }
        assert (Hst3 : stack_ok c3 st) by (eapply stack_ok_mono; [|exact Hst2]; lia).
        assert (Pnew : parts st c3 new2).
        { eapply parts_make_Select; [exact Hst3 | | eapply parts_mono; [|apply parts_of_outs; exact Of]; lia].
          eapply parts_fc; [exact Hst3 | reflexivity | eapply parts_mono; [|apply parts_of_outs; exact Osrc]; lia | apply parts_of_outs; exact Os]. }
        pose proof (IH _ _ _ _ _ _ H Hst3 (pre_of_parts _ _ _ Hwnew Pnew)) as Qn.
        pose proof (outs_of_post _ _ _ _ _ Qn) as On. destruct Qn as [N1 _ _ _ _ N6].
        apply post_of_outs; [lia | assumption | assumption |].
        intros E Ein He. apply vrel_nonlam; [reflexivity|].
        eapply refines_trans; [apply (sem_source st E Ein _ source _ _ He (outs_clean _ _ _ Op)); apply Q6; assumption|].
        eapply refines_trans; [eapply (conv_Where_of_Select B ops Ein src fps fb tps tb c1 cv c2);
                               [eapply outs_below; eassumption | eapply parts_below; eassumption | eapply outs_bok; eassumption | eapply parts_bok; eassumption | exact Ec]|].
        eapply refines_trans; [|apply vrel_val; apply N6; exact He].
        eapply refines_trans; [|apply make_Select_sound].
        apply sem_out; [|apply aview_refines_refl].
        apply vrel_nonlam; [reflexivity|]. apply sem_out; [apply aview_refines_refl|].
        eapply vrel_back; [eapply outs_clean; exact Os | exact He | apply S6; exact He].
      + destruct (is_call_of parent "SelectMany") eqn:E3.
        * (* Where of SelectMany *)
          destruct (wfq_handler_shape _ "SelectMany" Q2 E3 eq_refl) as (src & fps & fb & -> & Hwsrc & Hdf & Hwf & Hne).
          cbn [unpack2] in H.
          assert (Osrc : outs st c1 src) by (eapply outs_child; [|exact Op]; cbn; auto).
          assert (Of : outs st c1 (Lambda fps fb)) by (eapply outs_child; [|exact Op]; cbn; auto).
          pose proof (parts_mau st c1 fps fb Hst1 (parts_of_outs _ _ _ Of)) as Pm.
          destruct (make_args_unique fps fb c1) as [lam c2] eqn:Em. pose proof Em as Em'. rewrite mau_eq in Em'.
          inversion Em'; subst lam c2; clear Em'. cbn [fst] in Pm.
          set (fps' := fresh_names (length fps) c1) in *. set (fb' := rename (rev (combine fps fps')) fb) in *.
          destruct (mau_drawn st c1 fps fb fps' fb' _ Hst1 Em) as (_ & Hlf & Hdf' & Hdr).
          set (c2 := c1 + length fps) in *.
          assert (Hwnew : wfq (function_call "SelectMany" [src; Lambda fps' (function_call "Where" [fb'; Lambda tps tb])]) = true).
          { apply wfq_op; [reflexivity | assumption | assumption | | ].
            - apply wfq_op; [reflexivity | apply wfq_rename; [apply ren_ok_fresh | assumption] | assumption | assumption | intros Hx; discriminate Hx].
            - intros _ Hnil. apply Hne; [reflexivity|]. rewrite Hnil in Hlf. destruct fps; [reflexivity | discriminate]. }
          assert (Pnew : parts st c2 (function_call "SelectMany" [src; Lambda fps' (function_call "Where" [fb'; Lambda tps tb])])).
          { eapply parts_fc; [exact Hst1 | reflexivity | eapply parts_mono; [|apply parts_of_outs; exact Osrc]; unfold c2; lia|].
            apply parts_lambda; [exact Hdr|]. eapply parts_fc; [exact Hst1 | reflexivity | eapply parts_lambda_inv; exact Pm|].
            eapply parts_mono; [|exact Pt1]. unfold c2; lia. }
          assert (Hst2 : stack_ok c2 st) by (eapply stack_ok_mono; [|exact Hst1]; unfold c2; lia).
          pose proof (IH _ _ _ _ _ _ H Hst2 (pre_of_parts _ _ _ Hwnew Pnew)) as Qn.
          pose proof (outs_of_post _ _ _ _ _ Qn) as On. destruct Qn as [N1 _ _ _ _ N6].
          apply post_of_outs; [unfold c2 in N1; lia | assumption | assumption |].
          intros E Ein He. apply vrel_nonlam; [reflexivity|].
          eapply refines_trans; [apply (sem_source st E Ein _ source _ _ He (outs_clean _ _ _ Op)); apply Q6; assumption|].
          eapply refines_trans; [apply (mau_Where_of_SelectMany B ops Ein src fps fb (Lambda tps tb) c1 fps' fb' c2);
                                 [eapply outs_below; eassumption | eapply parts_below; eassumption | eapply outs_bok; eassumption | exact Em]|].
          apply vrel_val. apply N6; assumption.
        * (* plain Where *)
          destruct (simp f st bd c1 (Lambda tps tb)) as [[f' c2]| | |] eqn:Es; cbn [sbind] in H; try discriminate.
          pose proof (IH _ _ _ _ _ _ Es Hst1 (pre_of_parts _ _ _ Hwl Pt1)) as Qs.
          pose proof (outs_of_post _ _ _ _ _ Qs) as Os. destruct Qs as [S1 _ _ _ _ S6].
          destruct (lambda_is_true f') eqn:Et; inversion H; subst e' c'; clear H.
          -- apply post_of_outs; [lia | assumption | eapply outs_mono; [|exact Op]; lia |].
             intros E Ein He. eapply aview_refines_trans; [apply vrel_nonlam; [reflexivity|]; apply sem_out; [apply Q6; exact He | apply S6; exact He]|].
             destruct f'; try discriminate. destruct f'; try discriminate. destruct c0; try discriminate. destruct b; try discriminate.
             split; [apply rule_true_Where | split; intros g Hg; discriminate Hg].
          -- apply post_of_outs; [lia | assumption | |].
             ++ eapply outs_fc; [eassumption | reflexivity | eapply outs_mono; [|exact Op]; lia | exact Os].
             ++ intros E Ein He. apply vrel_nonlam; [reflexivity|]. apply sem_out; [apply Q6; assumption | apply S6; assumption].
  Qed.

  (* ---- the whole algorithm ---- *)
  Lemma simp_call_attr_generic f st bd c g0 m args kwn kwv :
    mentions "First" (Call (Attr g0 m) args kwn kwv) = false ->
    simp (S f) st bd c (Call (Attr g0 m) args kwn kwv) =
    (let* (cs, c1) := mapM (simp f st bd) c (children (Call (Attr g0 m) args kwn kwv)) in
     Ok (rebuild (Call (Attr g0 m) args kwn kwv) cs, c1)).
  Proof.
    intros Hf. destruct g0; try reflexivity. destruct g0; try reflexivity. cbn [simp].
    assert (Hn : String.eqb id "First" = false).
    { apply mentions_call_callee in Hf.
      match type of Hf with mentions _ (Attr ?x _) = false => change (mentions "First" x = false) in Hf end.
      apply mentions_call_callee in Hf. cbn [mentions] in Hf. rewrite String.eqb_sym. exact Hf. }
    rewrite Hn. reflexivity.
  Qed.

  Theorem simp_sound : forall f, IHs f.
  Proof.
    intros f. induction f as [f IHf] using lt_wf_ind.
    destruct f as [|f]; [intros st bd c e e' c' H; discriminate H|].
    assert (IH : IHs f) by (apply IHf; lia).
    assert (IHp : forall f0, f = S f0 -> IHs f0) by (intros f0 ->; apply IHf; lia).
    intros st bd c e e' c' H Hst Hp.
    pose proof (ok_wf _ _ _ _ _ _ _ H Hst (p_wf _ _ _ Hp)) as Hwe.
    destruct e.
    - eapply sound_Name; eassumption.
    - apply (sound_simple f IH st bd c (Const c0)); [reflexivity | exact H | assumption | assumption].
    - eapply sound_Attr; eassumption.
    - (* Call *)
      destruct e.
      + (* Name *)
        destruct (is_call_handler id) eqn:Eh.
        * destruct (wfq_handler_shape _ id (p_wf _ _ _ Hp) (String.eqb_refl id) Eh) as (s0 & ps0 & b0 & Heq & _).
          inversion Heq; subst args kwn kwv; clear Heq.
          destruct (handler_cases id Eh) as [ -> | [ -> | -> ] ].
          -- exact (sound_Select f IH st bd c s0 ps0 b0 e' c' H Hst Hp).
          -- exact (sound_SelectMany f IH st bd c s0 ps0 b0 e' c' H Hst Hp).
          -- exact (sound_Where f IH st bd c s0 ps0 b0 e' c' H Hst Hp).
        * cbn [simp] in H. rewrite Eh in H.
          apply (sound_call_generic f IH IHp st bd c (Name id) args kwn kwv); try assumption; [|intros; discriminate].
          intros fn Hfn. inversion Hfn; subst. assumption.
      + apply (sound_call_generic f IH IHp st bd c (Const c0) args kwn kwv); try assumption; intros; discriminate.
      + rewrite simp_call_attr_generic in H by (apply (p_nf _ _ _ Hp)).
        apply (sound_call_generic f IH IHp st bd c (Attr e a) args kwn kwv); try assumption; intros; discriminate.
      + apply (sound_call_generic f IH IHp st bd c (Call e args0 kwn0 kwv0) args kwn kwv); try assumption; intros; discriminate.
      + (* Lambda *)
        cbn [simp] in H. destruct (existsb is_starred args) eqn:Estar.
        * apply (sound_call_generic f IH IHp st bd c (Lambda ps e) args kwn kwv); try assumption; [intros; discriminate|].
          intros ps0 b0 Heq. left. exact Estar.
        * destruct (bind_lambda_call ps args kwn kwv) as [given|] eqn:Eb.
          -- apply (sound_beta f IH st bd c ps e args kwn kwv given); assumption.
          -- apply (sound_call_generic f IH IHp st bd c (Lambda ps e) args kwn kwv); try assumption; [intros; discriminate|].
             intros ps0 b0 Heq. inversion Heq; subst. right. assumption.
      + apply (sound_call_generic f IH IHp st bd c (UnaryOp o e) args kwn kwv); try assumption; intros; discriminate.
      + apply (sound_call_generic f IH IHp st bd c (BinOp o e1 e2) args kwn kwv); try assumption; intros; discriminate.
      + apply (sound_call_generic f IH IHp st bd c (BoolOp o es) args kwn kwv); try assumption; intros; discriminate.
      + apply (sound_call_generic f IH IHp st bd c (Compare e ops0 rs) args kwn kwv); try assumption; intros; discriminate.
      + apply (sound_call_generic f IH IHp st bd c (IfExp e1 e2 e3) args kwn kwv); try assumption; intros; discriminate.
      + apply (sound_call_generic f IH IHp st bd c (Tuple es) args kwn kwv); try assumption; intros; discriminate.
      + apply (sound_call_generic f IH IHp st bd c (List es) args kwn kwv); try assumption; intros; discriminate.
      + apply (sound_call_generic f IH IHp st bd c (Dict ks vs) args kwn kwv); try assumption; intros; discriminate.
      + apply (sound_call_generic f IH IHp st bd c (Subscript e1 e2) args kwn kwv); try assumption; intros; discriminate.
      + apply (sound_call_generic f IH IHp st bd c (ListComp e gs) args kwn kwv); try assumption; intros; discriminate.
      + apply (sound_call_generic f IH IHp st bd c (GenExp e gs) args kwn kwv); try assumption; intros; discriminate.
      + apply (sound_call_generic f IH IHp st bd c (CompFor e1 e2 ifs is_async) args kwn kwv); try assumption; intros; discriminate.
      + apply (sound_call_generic f IH IHp st bd c (Raw c0) args kwn kwv); try assumption; intros; discriminate.
      + apply (sound_call_generic f IH IHp st bd c (Other cls atoms cs) args kwn kwv); try assumption; intros; discriminate.
    - eapply sound_Lambda; eassumption.
    - apply (sound_simple f IH st bd c (UnaryOp o e)); [reflexivity | exact H | assumption | assumption].
    - apply (sound_simple f IH st bd c (BinOp o e1 e2)); [reflexivity | exact H | assumption | assumption].
    - apply (sound_simple f IH st bd c (BoolOp o es)); [reflexivity | exact H | assumption | assumption].
    - apply (sound_simple f IH st bd c (Compare e ops0 rs)); [reflexivity | exact H | assumption | assumption].
    - apply (sound_simple f IH st bd c (IfExp e1 e2 e3)); [reflexivity | exact H | assumption | assumption].
    - apply (sound_simple f IH st bd c (Tuple es)); [reflexivity | exact H | assumption | assumption].
    - apply (sound_simple f IH st bd c (List es)); [reflexivity | exact H | assumption | assumption].
    - apply (sound_Dict f IH st bd c ks vs); assumption.
    - eapply sound_Subscript; eassumption.
    - destruct Hp as [Hw _ _ _ _]; discriminate Hw.
    - destruct Hp as [Hw _ _ _ _]; discriminate Hw.
    - destruct Hp as [Hw _ _ _ _]; discriminate Hw.
    - destruct Hp as [Hw _ _ _ _]; discriminate Hw.
    - apply (sound_simple f IH st bd c (Other cls atoms cs)); [reflexivity | exact H | assumption | assumption].
  Qed.
End Sound.

Definition backend_ok (B : backend) : Prop :=
  (forall n, nofun B (arg_name n)) /\
  (forall ks vs m args kws, meth_sem B (VDict ks vs) m args kws = None) /\
  (forall op ks vs rest kws, fun_sem B op (VDict ks vs :: rest) kws = None).

Theorem simp_preserves B ops f c e e' c' :
  backend_ok B ->
  wfq e = true -> below c e -> bok B e -> mentions "First" e = false ->
  simplify f c e = Ok (e', c') ->
  (forall E, refines (eval B ops E e) (eval B ops E e')) /\
  (forall E, aview_refines (view B ops E e) (view B ops E e')) /\
  wfq e' = true /\ below c' e' /\ bok B e' /\ mentions "First" e' = false /\ c <= c'.
Proof.
  intros (HB1 & HB2 & HB3) Hw Hb Hk Hf H. unfold simplify in H.
  assert (Hst : stack_ok B c [[]]) by (intros x d Hx; discriminate Hx).
  assert (Hp : pre B [[]] c e) by (constructor; try assumption; intros y Hy; discriminate Hy).
  destruct (simp_sound B ops HB1 HB2 HB3 f _ _ _ _ _ _ H Hst Hp) as [Q1 Q2 Q3 Q4 Q5 Q6].
  assert (He : forall E, env_for B ops [[]] E E) by (intros E; split; [reflexivity | intros x d Hx; discriminate Hx]).
  split; [intros E; apply (vrel_val _ _ _ _ _ _ (Q6 E E (He E)))|]. split; [intros E; apply (Q6 E E (He E))|].
  split; [assumption|]. split; [assumption|]. split; [assumption|]. split; [apply Q5; right; reflexivity | assumption].
Qed.

(* non-vacuity: a backend meeting [backend_ok], a query meeting the hypotheses on which all of
   beta-reduction, Where-of-Select, Select-of-Select and dictionary projection fire *)
Module SoundExample.
  Definition B0 : backend :=
    {| attr_sem := fun _ _ => None; meth_sem := fun _ _ _ _ => None; fun_sem := fun _ _ _ => None |}.

  Lemma B0_ok : backend_ok B0.
  Proof. split; [intros n; split; [|intros; reflexivity]|split; intros; reflexivity]. unfold arg_name. reflexivity. Qed.

  (* Select(Where(Select(ds, lambda e: {'a': e + 1}), lambda d: (lambda k: k > 2)(d.a)), lambda r: r.a) *)
  Definition q : expr :=
    function_call "Select"
      [function_call "Where"
         [function_call "Select" [Name "ds"; Lambda ["e"] (Dict [Const (CStr "a")] [BinOp BAdd (Name "e") (Const (CInt 1))])];
          Lambda ["d"] (Call (Lambda ["k"] (Compare (Name "k") [CGt] [Const (CInt 2)])) [Attr (Name "d") "a"] [] [])];
       Lambda ["r"] (Attr (Name "r") "a")].

  Example q_wf : wfq q = true. Proof. vm_compute. reflexivity. Qed.
  Example q_nf : mentions "First" q = false. Proof. vm_compute. reflexivity. Qed.
  Example q_below : below 0 q.
  Proof. intros n _. destruct (RulesExamples.arg_name_head n) as [s Hs]. rewrite Hs. reflexivity. Qed.
  Example q_bok : bok B0 q.
  Proof.
    intros y Hy. cbv [q function_call] in Hy. simpl in Hy. rewrite ?orb_false_r in Hy.
    repeat (apply orb_true_iff in Hy; destruct Hy as [Hy|Hy]); apply String.eqb_eq in Hy; subst y; split; reflexivity.
  Qed.
  Example q_simplifies : exists e' c', simplify 40 0 q = Ok (e', c') /\ e' <> q /\
    eval B0 [] [("ds", VList [VInt 1; VInt 2; VInt 3])] q = Some (VList [VInt 3; VInt 4]) /\
    eval B0 [] [("ds", VList [VInt 1; VInt 2; VInt 3])] e' = Some (VList [VInt 3; VInt 4]).
  Proof. eexists; eexists. split; [vm_compute; reflexivity|]. split; [discriminate|]. split; vm_compute; reflexivity. Qed.
End SoundExample.

Print Assumptions simp_sound.
Print Assumptions simp_preserves.

(* C02, histories: a backend session simplifies a query, puts a further operator on the RESULT and simplifies again - with a new
   simplifier object, in the same process - any number of times.  The fresh names arg_N are fresh only because the counter is
   never set back between the runs: every run starts from the counter the previous run left behind.  [session_preserves]: under
   exactly that discipline the final result refines the query the user would have written in one piece ([extended]), for every
   number of extensions, every backend meeting [backend_ok] and every environment.  The proof re-establishes the hypotheses of
   [simp_preserves] for each extended query from its conclusions for the previous one ([below c' e'] is what a counter that is set
   back - C02_m11 of the seeded changes - would destroy; [session_from_zero_captures] exhibits the capture in the model). *)
From Coq Require Import String List Bool Arith Lia.
Import ListNotations.
Local Open Scope string_scope.
From FA.Base Require Import PyAst Induct Value Eval Traverse Names.
From FA.Gen Require Import TablesSimp.
From FA.Model Require Import Simplify.
From FA.Proofs Require Import TraverseFacts Refine EvalCong EvalAgree RenameSem EvalRel SimplifyFacts SimplifySem SimplifyTotal
     SimplifyInv SimplifyRules SimplifySound.

Local Notation FC := function_call.

(* simplify; extend by Op(result, lambda); simplify again from the counter left behind; ... *)
Fixpoint session (f c : nat) (q : expr) (exts : list (string * expr)) : sres (expr * nat) :=
  match exts with
  | [] => simplify f c q
  | (op, t) :: rest =>
      match simplify f c q with
      | Ok (q', c') => session f c' (FC op [q'; t]) rest
      | r => r
      end
  end.

(* the query as the user would have written it in one piece *)
Fixpoint extended (q : expr) (exts : list (string * expr)) : expr :=
  match exts with
  | [] => q
  | (op, t) :: rest => extended (FC op [q; t]) rest
  end.

Definition ext_ok (B : backend) (c : nat) (x : string * expr) : Prop :=
  seqop (fst x) /\ (exists p b, snd x = Lambda [p] b) /\ wfq (snd x) = true /\ below c (snd x) /\ bok B (snd x)
  /\ mentions "First" (snd x) = false.

Lemma ext_ok_mono B c c' x : c <= c' -> ext_ok B c x -> ext_ok B c' x.
Proof.
  intros Hc (H1 & H2 & H3 & H4 & H5 & H6). unfold ext_ok. split; [exact H1|]. split; [exact H2|]. split; [exact H3|].
  split; [eapply below_mono; eassumption|]. split; assumption.
Qed.

Lemma handler_Select : is_call_handler "Select" = true. Proof. vm_compute. reflexivity. Qed.
Lemma handler_Where : is_call_handler "Where" = true. Proof. vm_compute. reflexivity. Qed.
Lemma handler_SelectMany : is_call_handler "SelectMany" = true. Proof. vm_compute. reflexivity. Qed.

Lemma fc_wfq op q p b :
  seqop op -> wfq q = true -> wfq (Lambda [p] b) = true -> wfq (FC op [q; Lambda [p] b]) = true.
Proof.
  intros Hop Hq Hl. cbn [wfq] in Hl.
  destruct Hop as [-> | [-> | ->]]; unfold function_call; cbn [wfq];
    rewrite ?handler_Select, ?handler_Where, ?handler_SelectMany, Hq, Hl; reflexivity.
Qed.

Lemma seqop_not_arg op n : seqop op -> op <> arg_name n.
Proof.
  intros Hop Heq. destruct (RulesExamples.arg_name_head n) as [s Hs]. rewrite Hs in Heq.
  destruct Hop as [-> | [-> | ->]]; discriminate Heq.
Qed.

Lemma fc_mentions y op a b : mentions y (FC op [a; b]) = String.eqb y op || (mentions y a || mentions y b).
Proof. unfold function_call. cbn [mentions]. rewrite !orb_false_r. reflexivity. Qed.

Lemma fc_below c op a b : seqop op -> below c a -> below c b -> below c (FC op [a; b]).
Proof.
  intros Hop Ha Hb n Hn. rewrite fc_mentions, (Ha n Hn), (Hb n Hn), !orb_false_r.
  apply String.eqb_neq. intros Heq. apply (seqop_not_arg op n Hop). symmetry. exact Heq.
Qed.

Lemma fc_binds y op a b : binds y (FC op [a; b]) = binds y a || binds y b.
Proof. unfold function_call. cbn [binds]. rewrite !orb_false_r. reflexivity. Qed.

Lemma fc_bok B op a b : bok B a -> bok B b -> bok B (FC op [a; b]).
Proof.
  intros Ha Hb y Hy. rewrite fc_binds in Hy. apply orb_true_iff in Hy. destruct Hy as [Hy | Hy]; [apply Ha | apply Hb]; exact Hy.
Qed.

Lemma fc_nofirst op a b :
  seqop op -> mentions "First" a = false -> mentions "First" b = false -> mentions "First" (FC op [a; b]) = false.
Proof.
  intros Hop Ha Hb. rewrite fc_mentions, Ha, Hb. destruct Hop as [-> | [-> | ->]]; reflexivity.
Qed.

Section Session.
  Variable B : backend.
  Variable ops : list string.
  Hypothesis HB : backend_ok B.
  Notation ev := (eval B ops).

  (* an operator call is monotone in its source *)
  Lemma fc_src_mono op t a a' :
    seqop op -> (forall E, refines (ev E a) (ev E a')) -> forall E, refines (ev E (FC op [a; t])) (ev E (FC op [a'; t])).
  Proof.
    intros Hop H E. destruct Hop as [-> | [-> | ->]].
    - rewrite !eval_Select_gen. apply obind_refines_l. apply H.
    - rewrite !eval_Where_gen. apply obind_refines_l. apply H.
    - rewrite !eval_SelectMany_gen. apply obind_refines_l. apply H.
  Qed.

  Lemma extended_mono exts : forall a a',
    Forall (fun x => seqop (fst x)) exts ->
    (forall E, refines (ev E a) (ev E a')) -> forall E, refines (ev E (extended a exts)) (ev E (extended a' exts)).
  Proof.
    induction exts as [|[op t] rest IH]; intros a a' Hx H E; cbn [extended]; [apply H|].
    inversion Hx as [|x l Hop Hrest]; subst. apply IH; [assumption|]. apply fc_src_mono; assumption.
  Qed.

  Theorem session_preserves : forall exts f c q r c',
    wfq q = true -> below c q -> bok B q -> mentions "First" q = false ->
    Forall (ext_ok B c) exts ->
    session f c q exts = Ok (r, c') ->
    (forall E, refines (ev E (extended q exts)) (ev E r)) /\ wfq r = true /\ below c' r /\ c <= c'.
  Proof.
    induction exts as [|[op t] rest IH]; intros f c q r c' Hw Hb Hk Hf Hx H; cbn [session extended] in *.
    - destruct (simp_preserves B ops f c q r c' HB Hw Hb Hk Hf H) as (P1 & _ & P3 & P4 & _ & _ & P7).
      repeat split; assumption.
    - destruct (simplify f c q) as [[q1 c1]| | |] eqn:Hs; try discriminate H.
      destruct (simp_preserves B ops f c q q1 c1 HB Hw Hb Hk Hf Hs) as (P1 & _ & P3 & P4 & P5 & P6 & P7).
      inversion Hx as [|x l Hop Hrest]; subst.
      destruct Hop as (O1 & (p & b & O2) & O3 & O4 & O5 & O6). cbn [fst snd] in *. subst t.
      assert (Hrest' : Forall (ext_ok B c1) rest).
      { eapply Forall_impl; [|exact Hrest]. intros x. apply ext_ok_mono. exact P7. }
      destruct (IH f c1 (FC op [q1; Lambda [p] b]) r c') as (Q1 & Q2 & Q3 & Q4).
      + apply fc_wfq; assumption.
      + apply fc_below; [assumption | assumption | eapply below_mono; eassumption].
      + apply fc_bok; assumption.
      + apply fc_nofirst; assumption.
      + exact Hrest'.
      + exact H.
      + split; [|split; [assumption|split; [assumption|lia]]].
        intros E. eapply refines_trans; [|apply Q1].
        apply extended_mono.
        * eapply Forall_impl; [|exact Hrest]. intros x Hxo. apply Hxo.
        * apply fc_src_mono; assumption.
  Qed.
End Session.

(* ---------- non-vacuity, and what setting the counter back does ---------- *)
Module SessionExample.
  Definition B0 := SoundExample.B0.
  Definition idc (e : expr) : expr := Call (Lambda ["z"] (Name "z")) [e] [] [].
  (* Select(ds, lambda e: Select(Select((lambda z: z)(e[0]), lambda j: j + 1), lambda k: k + e[1])) *)
  Definition q1 : expr :=
    FC "Select" [Name "ds"; Lambda ["e"]
       (FC "Select" [FC "Select" [idc (Subscript (Name "e") (Const (CInt 0))); Lambda ["j"] (BinOp BAdd (Name "j") (Const (CInt 1)))];
                     Lambda ["k"] (BinOp BAdd (Name "k") (Subscript (Name "e") (Const (CInt 1))))])].
  (* ... .Select(lambda w: (w, 7)) put on the simplified query *)
  Definition x1 : list (string * expr) := [("Select", Lambda ["w"] (Tuple [Name "w"; Const (CInt 7)]))].
  Definition E1 : env := [("ds", VList [VTuple [VList [VInt 1; VInt 2]; VInt 10]; VTuple [VList [VInt 5]; VInt 20]])].
  Definition v1 : value := VList [VTuple [VList [VInt 12; VInt 13]; VInt 7]; VTuple [VList [VInt 26]; VInt 7]].

  Lemma below0 e : (forall s, mentions (String (Ascii.Ascii true false false false false true true false) s) e = false) -> below 0 e.
  Proof. intros H n _. destruct (RulesExamples.arg_name_head n) as [s Hs]. rewrite Hs. apply H. Qed.

  Ltac bok_tac :=
    let y := fresh "y" in let Hy := fresh "Hy" in
    intros y Hy; cbv [q1 x1 idc function_call] in Hy; simpl in Hy; rewrite ?orb_false_r in Hy;
    repeat (apply orb_true_iff in Hy; destruct Hy as [Hy|Hy]); apply String.eqb_eq in Hy; subst y; split; reflexivity.
  Lemma bok_q : bok B0 q1 /\ bok B0 (Lambda ["w"] (Tuple [Name "w"; Const (CInt 7)])).
  Proof. split; bok_tac. Qed.

  Example hyps_hold :
    wfq q1 = true /\ below 0 q1 /\ bok B0 q1 /\ mentions "First" q1 = false /\ Forall (ext_ok B0 0) x1.
  Proof.
    split; [vm_compute; reflexivity|]. split; [apply below0; intros s; reflexivity|].
    split; [apply bok_q|]. split; [vm_compute; reflexivity|].
    constructor; [|constructor]. unfold ext_ok; cbn [fst snd].
    split; [apply seqop_Select|]. split; [eexists; eexists; reflexivity|]. split; [vm_compute; reflexivity|].
    split; [apply below0; intros s; reflexivity|]. split; [apply bok_q | vm_compute; reflexivity].
  Qed.

  Example session_runs : exists r c, session 200 0 q1 x1 = Ok (r, c) /\
    eval B0 [] E1 (extended q1 x1) = Some v1 /\ eval B0 [] E1 r = Some v1.
  Proof. eexists; eexists. split; [vm_compute; reflexivity|]. split; vm_compute; reflexivity. Qed.

  (* the same session with the counter set back to 0 before every run (what a simplifier object that resets the global
     counter in its constructor does): the second run draws arg_N names that the first result already binds *)
  Fixpoint session0 (f : nat) (q : expr) (exts : list (string * expr)) : sres (expr * nat) :=
    match exts with
    | [] => simplify f 0 q
    | (op, t) :: rest =>
        match simplify f 0 q with
        | Ok (q', _) => session0 f (FC op [q'; t]) rest
        | r => r
        end
    end.

  Theorem counter_reset_refuted : exists r c,
    session0 200 q1 x1 = Ok (r, c) /\ eval B0 [] E1 (extended q1 x1) = Some v1 /\ eval B0 [] E1 r <> Some v1.
  Proof. eexists; eexists. split; [vm_compute; reflexivity|]. split; [vm_compute; reflexivity|]. vm_compute. discriminate. Qed.
End SessionExample.

Print Assumptions session_preserves.
Print Assumptions SessionExample.counter_reset_refuted.

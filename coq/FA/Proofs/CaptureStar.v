(* F30 as an invariant of the whole pass: _resolve_called_lambdas never moves a starred expression out of the places
   where Python allows one.

   [swf allow e]: every [Other "Starred;.."] node of [e] sits in an argument list of a call or in a tuple / list / set
   display ([allow] says whether [e] itself is in such a place).  [swf_res]: for EVERY expression tree, if the tree is
   well formed in that sense and so are the arguments in flight, the result of [res] is.  The proof needs the test
   [existsb is_starred args] of the model (= `not any(isinstance(x, ast.Starred) for x in node.args)` of
   util_ast._plainly_called, fix F30): without it the substituted argument may be a Starred node and lands wherever the
   parameter was used - [starred_argument_substituted_pinned_refuted] in Properties/C05.v is the counterexample. *)
From FA.Base Require Import PyAst Induct Value Traverse.
From FA.Model Require Import Capture.
From FA.Proofs Require Import EvalCong CaptureProofs CaptureSem.
From Coq Require Import Lia.

Fixpoint swf (allow : bool) (e : expr) {struct e} : bool :=
  match e with
  | Name _ | Const _ | Raw _ => true
  | Attr v _ => swf false v
  | Call f args _ kwv => swf false f && forallb (swf true) args && forallb (swf false) kwv
  | Lambda _ b => swf false b
  | UnaryOp _ x => swf false x
  | BinOp _ l r => swf false l && swf false r
  | BoolOp _ es => forallb (swf false) es
  | Compare l _ rs => swf false l && forallb (swf false) rs
  | IfExp c t f => swf false c && swf false t && swf false f
  | Tuple es | List es => forallb (swf true) es
  | Dict ks vs => forallb (swf false) ks && forallb (swf false) vs
  | Subscript v s => swf false v && swf false s
  | ListComp x gs | GenExp x gs => swf false x && forallb (swf false) gs
  | CompFor t i ifs _ => swf false t && swf false i && forallb (swf false) ifs
  | Other cls _ cs =>
      if String.prefix "Starred;" cls then allow && forallb (swf false) cs
      else if String.prefix "Set;" cls then forallb (swf true) cs
      else forallb (swf false) cs
  end.

(* the arguments in flight *)
Definition st_ok (st : list amap) : Prop := forall y a, lookup_st y st = Some (Some a) -> swf false a = true.

Lemma swf_mono e : swf false e = true -> forall allow, swf allow e = true.
Proof.
  destruct e; intros H allow; try exact H. cbn [swf] in *.
  destruct (String.prefix "Starred;" cls); [discriminate | exact H].
Qed.

Lemma swf_unstarred e : swf true e = true -> is_starred e = false -> swf false e = true.
Proof.
  destruct e; intros H Hs; try exact H. cbn [swf is_starred] in *. rewrite Hs in *. exact H.
Qed.

Lemma st_ok_nil : st_ok [].
Proof. intros y a H. discriminate. Qed.

Lemma st_ok_shadow ps st : st_ok st -> st_ok (shadow ps :: st).
Proof.
  intros H y a Hy. cbn [lookup_st] in Hy. rewrite assoc_shadow in Hy.
  destruct (existsb (String.eqb y) ps); [discriminate | eapply H; eauto].
Qed.

Lemma st_ok_frame ps vals st :
  st_ok st -> forallb (swf false) vals = true -> st_ok (combine ps (map (@Some expr) vals) :: st).
Proof.
  intros H Hv y a Hy. cbn [lookup_st] in Hy.
  destruct (assoc y (combine ps (map (@Some expr) vals))) as [r|] eqn:Ha; [|eapply H; eauto].
  inversion Hy; subst r. clear Hy. revert vals Hv Ha.
  induction ps as [|p ps IH]; intros [|v vals] Hv Ha; simpl in Ha; try discriminate.
  simpl in Hv. apply andb_true_iff in Hv. destruct Hv as [Hv1 Hv2].
  destruct (String.eqb y p); [inversion Ha; subst; exact Hv1 | eapply IH; eauto].
Qed.

Lemma prefix_lambda_not_star cls :
  String.prefix "Lambda;" cls = true -> String.prefix "Starred;" cls = false /\ String.prefix "Set;" cls = false.
Proof.
  destruct cls as [|c cls]; [discriminate|]. intros H.
  assert (Hc : c = Ascii.Ascii false false true true false false true false).
  { cbn [String.prefix] in H. destruct (Ascii.ascii_dec _ c) as [<-|]; [reflexivity | discriminate]. }
  subst c. split; reflexivity.
Qed.

Definition P (e : expr) : Prop := forall allow st, swf allow e = true -> st_ok st -> swf allow (res st e) = true.

Lemma swf_map n (a' : bool) l st :
  (forall e0, size e0 < n -> P e0) -> (forall c, In c l -> size c < n) ->
  forallb (swf a') l = true -> st_ok st -> forallb (swf a') (map (res st) l) = true.
Proof.
  intros IH Hsz H Hst. induction l as [|c l IHl]; [reflexivity|].
  cbn [map forallb] in *. apply andb_true_iff in H. destruct H as [H1 H2]. apply andb_true_iff. split.
  - apply IH; [apply Hsz; left; reflexivity | exact H1 | exact Hst].
  - apply IHl; [intros c0 Hc0; apply Hsz; right; exact Hc0 | exact H2].
Qed.

(* the generators of a comprehension *)
Lemma swf_gens n (a' : bool) gs st st' :
  (forall e0, size e0 < n -> P e0) -> (forall g, In g gs -> size g < n) ->
  forallb (swf a') gs = true -> st_ok st -> st_ok st' ->
  forall first, forallb (swf a') (res_gens (res st) (res st') first gs) = true.
Proof.
  intros IH Hsz H Hst Hst'. induction gs as [|g gs IHg]; intros first; [reflexivity|].
  cbn [forallb] in H. apply andb_true_iff in H. destruct H as [H1 H2].
  assert (Hg : size g < n) by (apply Hsz; left; reflexivity).
  assert (Hrest : forall first, forallb (swf a') (res_gens (res st) (res st') first gs) = true).
  { apply IHg; [intros g0 Hg0; apply Hsz; right; exact Hg0 | exact H2]. }
  destruct g; cbn [res_gens forallb]; try (apply andb_true_iff; split; [|apply Hrest]; apply IH; [exact Hg | exact H1 | exact Hst']).
  (* CompFor *)
  apply andb_true_iff; split; [|apply Hrest].
  cbn [swf] in *. apply andb_true_iff in H1. destruct H1 as [H1 Hifs]. apply andb_true_iff in H1. destruct H1 as [Ht Hit].
  assert (Hsit : size g2 < n).
  { pose proof (size_child (CompFor g1 g2 ifs is_async) g2 (or_intror (or_introl eq_refl))) as Hs0.
    exact (Nat.lt_trans _ _ _ Hs0 Hg). }
  assert (Hsifs : forall c, In c ifs -> size c < n).
  { intros c Hc. pose proof (size_child (CompFor g1 g2 ifs is_async) c (or_intror (or_intror Hc))) as Hs0.
    exact (Nat.lt_trans _ _ _ Hs0 Hg). }
  rewrite Ht. cbn [andb]. apply andb_true_iff; split.
  - destruct first; apply IH; assumption.
  - apply (swf_map n false ifs st' IH Hsifs Hifs Hst').
Qed.

(* the children of an [Other] node, for either permission *)
Lemma swf_other_children n cls atoms cs st :
  (forall e0, size e0 < n -> P e0) -> size (Other cls atoms cs) <= n -> st_ok st ->
  exists cs', res st (Other cls atoms cs) = Other cls atoms cs' /\
              forall a', forallb (swf a') cs = true -> forallb (swf a') cs' = true.
Proof.
  intros IH Hn Hst.
  assert (Hkid : forall c, In c cs -> size c < n).
  { intros c Hc. pose proof (size_child (Other cls atoms cs) c Hc). lia. }
  assert (Hgen : exists cs', Other cls atoms (map (res st) cs) = Other cls atoms cs' /\
                 forall a', forallb (swf a') cs = true -> forallb (swf a') cs' = true).
  { eexists; split; [reflexivity|]. intros a' H. apply (swf_map n a' cs st IH Hkid H Hst). }
  assert (Hsame : exists cs', Other cls atoms cs = Other cls atoms cs' /\
                  forall a', forallb (swf a') cs = true -> forallb (swf a') cs' = true).
  { eexists; split; [reflexivity | auto]. }
  destruct (String.prefix "SetComp;" cls) eqn:E1.
  { cbn [res]. rewrite E1. destruct cs as [|h [|g gs]]; try exact Hsame.
    eexists; split; [reflexivity|]. intros a' H. cbn [forallb] in H. apply andb_true_iff in H. destruct H as [Hh Hgs].
    pose proof (st_ok_shadow (comp_targets (g :: gs)) st Hst) as Hst'.
    cbn [forallb]. apply andb_true_iff; split.
    - apply IH; [apply Hkid; left; reflexivity | exact Hh | exact Hst'].
    - apply (swf_gens n a' (g :: gs) st _ IH); try assumption.
      intros g0 Hg0. apply Hkid. right; exact Hg0. }
  destruct (String.prefix "DictComp;" cls) eqn:E2.
  { cbn [res]. rewrite E1, E2. destruct cs as [|k [|v [|g gs]]]; try exact Hsame.
    eexists; split; [reflexivity|]. intros a' H. cbn [forallb] in H.
    apply andb_true_iff in H. destruct H as [Hk H]. apply andb_true_iff in H. destruct H as [Hv Hgs].
    pose proof (st_ok_shadow (comp_targets (g :: gs)) st Hst) as Hst'.
    cbn [forallb]. apply andb_true_iff; split; [|apply andb_true_iff; split].
    - apply IH; [apply Hkid; left; reflexivity | exact Hk | exact Hst'].
    - apply IH; [apply Hkid; right; left; reflexivity | exact Hv | exact Hst'].
    - apply (swf_gens n a' (g :: gs) st _ IH); try assumption.
      intros g0 Hg0. apply Hkid. right; right; exact Hg0. }
  rewrite (res_other_shape st cls atoms cs E1 E2).
  destruct (lam_parts cls cs) as [[[[[acls aatoms] akids] b] lv]|] eqn:Hlp; [|exact Hgen].
  destruct (lam_parts_inv _ _ _ _ _ _ _ Hlp) as (_ & -> & _).
  eexists; split; [reflexivity|]. intros a' H. cbn [forallb] in *.
  apply andb_true_iff in H. destruct H as [Ha H]. apply andb_true_iff in H. destruct H as [Hb _].
  assert (Hsa : size (Other acls aatoms akids) < n) by (apply Hkid; left; reflexivity).
  apply andb_true_iff; split; [|apply andb_true_iff; split; [|reflexivity]].
  - (* the ast.arguments node: its ast.arg nodes are kept, its default values resolved in the enclosing scope *)
    assert (Hk : forall a'', forallb (swf a'') akids = true -> forallb (swf a'') (map (on_defaults (res st)) akids) = true).
    { intros a'' Hk. clear - IH Hsa Hst Hk.
      assert (Hs : forall c, In c akids -> size c < n).
      { intros c Hc. pose proof (size_child (Other acls aatoms akids) c Hc). lia. }
      clear Hsa. induction akids as [|c l IHl]; [reflexivity|].
      cbn [map forallb] in *. apply andb_true_iff in Hk. destruct Hk as [H1 H2]. apply andb_true_iff; split.
      - unfold on_defaults. destruct (is_argnode c); [exact H1 | apply IH; [apply Hs; left; reflexivity | exact H1 | exact Hst]].
      - apply IHl; [exact H2 | intros c0 Hc0; apply Hs; right; exact Hc0]. }
    cbn [swf] in *. destruct (String.prefix "Starred;" acls).
    + apply andb_true_iff in Ha. destruct Ha as [-> Ha]. apply Hk; exact Ha.
    + destruct (String.prefix "Set;" acls); apply Hk; exact Ha.
  - apply IH; [apply Hkid; right; left; reflexivity | exact Hb | apply st_ok_shadow; exact Hst].
Qed.

Theorem swf_res_all : forall n e, size e < n -> P e.
Proof.
  intros n. induction n as [n IHn] using (well_founded_induction Wf_nat.lt_wf). intros e Hn.
  assert (IH : forall e0, size e0 < size e -> P e0).
  { intros e0 H0. exact (IHn (size e) Hn e0 H0). }
  clear IHn Hn. intros allow st H Hst.
  assert (Hkid : forall c a', In c (children e) -> swf a' c = true -> swf a' (res st c) = true).
  { intros c a' Hc Hw. apply IH; [apply size_child; exact Hc | exact Hw | exact Hst]. }
  assert (Hkids : forall l a', (forall c, In c l -> In c (children e)) -> forallb (swf a') l = true ->
                  forallb (swf a') (map (res st) l) = true).
  { intros l a' Hl Hw. apply (swf_map (size e) a' l st IH); [|exact Hw | exact Hst].
    intros c Hc. apply size_child. apply Hl; exact Hc. }
  destruct e as [x|c|v a|f args kwn kwv|ps b|o x|o l r|o es|l cops rs|c t f|es|es|ks vs|v s|elt gs|elt gs|t i ifs asy|c|cls atoms cs].
  - (* Name *)
    cbn [res]. destruct (lookup_st x st) as [[a|]|] eqn:Hl; try reflexivity.
    apply swf_mono. eapply Hst; eauto.
  - exact H.
  - cbn [res swf] in *. apply Hkid; [left; reflexivity | exact H].
  - (* Call *)
    cbn [swf] in H. apply andb_true_iff in H. destruct H as [H Hkw]. apply andb_true_iff in H. destruct H as [Hf Hargs].
    assert (Hargs' : forallb (swf true) (map (res st) args) = true).
    { apply Hkids; [|exact Hargs]. intros c Hc. cbn [children]. right. apply in_or_app; left; exact Hc. }
    assert (Hkw' : forallb (swf false) (map (res st) kwv) = true).
    { apply Hkids; [|exact Hkw]. intros c Hc. cbn [children]. right. apply in_or_app; right; exact Hc. }
    assert (Hf' : swf false (res st f) = true) by (apply Hkid; [left; reflexivity | exact Hf]).
    assert (Hstays : swf allow (Call (res st f) (map (res st) args) kwn (map (res st) kwv)) = true).
    { cbn [swf]. rewrite Hf', Hargs', Hkw'. reflexivity. }
    (* the resolved arguments as a frame: none of them is starred *)
    assert (Hframe : forall ps, existsb is_starred args = false ->
                     st_ok (combine ps (map (@Some expr) (map (res st) args)) :: st)).
    { intros ps Hns. apply st_ok_frame; [exact Hst|].
      apply (swf_map (size (Call f args kwn kwv)) false args st IH); [| |exact Hst].
      - intros c Hc. apply size_child. cbn [children]. right. apply in_or_app; left; exact Hc.
      - clear - Hargs Hns. induction args as [|a args IHa]; [reflexivity|].
        cbn [forallb existsb] in *. apply andb_true_iff in Hargs. destruct Hargs as [H1 H2].
        apply orb_false_iff in Hns. destruct Hns as [N1 N2]. apply andb_true_iff; split; [apply swf_unstarred; assumption | auto]. }
    destruct f as [op| | | | lps lb | | | | | | | | | | | | | |fcls fatoms fcs]; try exact Hstays.
    + (* a called lambda *)
      cbn [res] in Hstays, Hf' |- *. cbn [swf] in Hf, Hf'.
      assert (Hszb : size lb < size (Call (Lambda lps lb) args kwn kwv)).
      { pose proof (size_child (Call (Lambda lps lb) args kwn kwv) (Lambda lps lb) (or_introl eq_refl)).
        pose proof (size_child (Lambda lps lb) lb (or_introl eq_refl)). lia. }
      destruct kwn as [|k kwn]; [|exact Hstays].
      destruct (Nat.eqb (length lps) (length args)); [|exact Hstays].
      destruct (existsb is_starred args) eqn:Hns; [exact Hstays|].
      destruct (has_walrus lb); [exact Hstays|]. cbn [orb].
      destruct (overlaps _ _).
      * cbn [swf]. cbn [swf] in Hf'. rewrite Hf', Hargs'. reflexivity.
      * apply swf_mono. apply IH; [exact Hszb | exact Hf | apply Hframe; reflexivity].
    + (* a called lambda with default values *)
      set (e := Call (Other fcls fatoms fcs) args kwn kwv) in *.
      change (res st e) with (res st (Call (Other fcls fatoms fcs) args kwn kwv)).
      rewrite res_call_other_shape. cbv zeta.
      destruct (lam_parts fcls fcs) as [[[[[acls aatoms] akids] b0] lv]|] eqn:Hlp; [|exact Hstays].
      destruct (lam_parts_inv _ _ _ _ _ _ _ Hlp) as (HL & Hcs & _).
      destruct kwn as [|k kwn]; [|exact Hstays].
      destruct (lv_simple lv && Nat.eqb (length (lv_args lv)) (length args)); [|exact Hstays].
      destruct (existsb is_starred args) eqn:Hns; [exact Hstays|].
      destruct (has_walrus b0); [exact Hstays|]. cbn [negb andb orb].
      destruct (overlaps _ _); [exact Hstays|].
      apply swf_mono. apply IH; [| |apply Hframe; reflexivity].
      * subst fcs.
        pose proof (size_child e (Other fcls fatoms [Other acls aatoms akids; b0]) (or_introl eq_refl)) as S1.
        pose proof (size_child (Other fcls fatoms [Other acls aatoms akids; b0]) b0 (or_intror (or_introl eq_refl))) as S2.
        exact (Nat.lt_trans _ _ _ S2 S1).
      * subst fcs. cbn [swf] in Hf. destruct (prefix_lambda_not_star _ HL) as [N1 N2]. rewrite N1, N2 in Hf. cbn [forallb] in Hf.
        apply andb_true_iff in Hf. destruct Hf as [_ Hf]. apply andb_true_iff in Hf. destruct Hf as [Hf _]. exact Hf.
  - (* Lambda *)
    cbn [res swf] in *. apply IH; [pose proof (size_child (Lambda ps b) b (or_introl eq_refl)); lia | exact H | apply st_ok_shadow; exact Hst].
  - cbn [res swf] in *. apply Hkid; [left; reflexivity | exact H].
  - cbn [res swf] in *. apply andb_true_iff in H. destruct H as [H1 H2].
    rewrite (Hkid l false (or_introl eq_refl) H1), (Hkid r false (or_intror (or_introl eq_refl)) H2). reflexivity.
  - cbn [res swf] in *. apply Hkids; [intros c0 Hc0; exact Hc0 | exact H].
  - cbn [res swf] in *. apply andb_true_iff in H. destruct H as [H1 H2].
    rewrite (Hkid l false (or_introl eq_refl) H1). apply Hkids; [intros c0 Hc0; right; exact Hc0 | exact H2].
  - cbn [res swf] in *. apply andb_true_iff in H. destruct H as [H H3]. apply andb_true_iff in H. destruct H as [H1 H2].
    rewrite (Hkid c false (or_introl eq_refl) H1), (Hkid t false (or_intror (or_introl eq_refl)) H2),
      (Hkid f false (or_intror (or_intror (or_introl eq_refl))) H3). reflexivity.
  - cbn [res swf] in *. apply Hkids; [intros c0 Hc0; exact Hc0 | exact H].
  - cbn [res swf] in *. apply Hkids; [intros c0 Hc0; exact Hc0 | exact H].
  - cbn [res swf] in *. apply andb_true_iff in H. destruct H as [H1 H2]. apply andb_true_iff; split;
      (apply Hkids; [intros c0 Hc0; cbn [children]; apply in_or_app; auto | assumption]).
  - cbn [res swf] in *. apply andb_true_iff in H. destruct H as [H1 H2].
    rewrite (Hkid v false (or_introl eq_refl) H1), (Hkid s false (or_intror (or_introl eq_refl)) H2). reflexivity.
  - (* ListComp *)
    cbn [res]. destruct gs as [|g gs]; [exact H|]. cbn [swf] in *. apply andb_true_iff in H. destruct H as [H1 H2].
    pose proof (st_ok_shadow (comp_targets (g :: gs)) st Hst) as Hst'.
    apply andb_true_iff; split.
    + apply IH; [apply size_child; left; reflexivity | exact H1 | exact Hst'].
    + apply (swf_gens (size (ListComp elt (g :: gs))) false (g :: gs) st _ IH); try assumption.
      intros g0 Hg0. exact (size_child (ListComp elt (g :: gs)) g0 (or_intror Hg0)).
  - (* GenExp *)
    cbn [res]. destruct gs as [|g gs]; [exact H|]. cbn [swf] in *. apply andb_true_iff in H. destruct H as [H1 H2].
    pose proof (st_ok_shadow (comp_targets (g :: gs)) st Hst) as Hst'.
    apply andb_true_iff; split.
    + apply IH; [apply size_child; left; reflexivity | exact H1 | exact Hst'].
    + apply (swf_gens (size (GenExp elt (g :: gs))) false (g :: gs) st _ IH); try assumption.
      intros g0 Hg0. exact (size_child (GenExp elt (g :: gs)) g0 (or_intror Hg0)).
  - (* CompFor *)
    cbn [res swf] in *. apply andb_true_iff in H. destruct H as [H H3]. apply andb_true_iff in H. destruct H as [H1 H2].
    rewrite (Hkid t false (or_introl eq_refl) H1), (Hkid i false (or_intror (or_introl eq_refl)) H2). cbn [andb].
    apply Hkids; [intros c0 Hc0; right; right; exact Hc0 | exact H3].
  - exact H.
  - (* Other *)
    destruct (swf_other_children (size (Other cls atoms cs)) cls atoms cs st IH (le_n _) Hst) as (cs' & -> & Hcs).
    cbn [swf] in *. destruct (String.prefix "Starred;" cls).
    + apply andb_true_iff in H. destruct H as [-> H]. apply Hcs; exact H.
    + destruct (String.prefix "Set;" cls); apply Hcs; exact H.
Qed.

(* the pass, started with no argument in flight, on a well-formed tree gives a well-formed tree *)
Theorem swf_res : forall e, swf false e = true -> swf false (res [] e) = true.
Proof. intros e H. exact (swf_res_all (S (size e)) e (Nat.lt_succ_diag_r _) false [] H st_ok_nil). Qed.

(* C14, whole algorithm: intermediate tuples, lists and dictionaries are compiled away.

   Discipline.  [has_shape G e s] types a query at a shape: [SA] (atom: anything that is not a package,
   sequences of atoms included), [ST ss] (tuple or list literal), [SD kss] (dictionary literal with
   distinct constant str/int keys), [SS s] (sequence whose elements have the non-atomic shape [s]).
   Earlier stages package ([HS_Tuple], [HS_List], [HS_Dict], arbitrarily nested); later stages only
   take apart with a constant int index in range, written [n] or [-(n)] ([HS_SubT]), a constant key
   ([HS_SubD]) or an attribute name ([HS_AttrD]); Select / Where / SelectMany in function form with a
   one-parameter lambda ([HS_Select], [HS_Where], [HS_Many]: the parameter gets the element shape of the
   source, a nested Select over a packaged sequence may refer to every other packaged field); called
   lambdas ([HS_Beta]); un-called lambdas outside operator position and every other node combine atoms
   only ([HS_Lam], [HS_Gen]).  All binder names, all chains, all nestings, all projection paths.

   Output.  [canon s e']: for [SA], [e'] contains no Tuple/List/Dict node at all ([atom], which implies
   [nopkg]); for [ST]/[SD] it is the literal of canonical components (same constant keys); for [SS t]
   it is Select(s, lambda x: b) with [s] package free and [b] canonical for [t], or SelectMany(s, lambda
   x: b) with [b] canonical for [SS t].  So a package survives only as (part of) the final result, and
   no projection of a package survives (a Subscript left in a package-free term applies to an atom).

   Theorem [shape_sound] (every fuel; strong induction on the fuel, one lemma per case of [simp], as
   Proofs/SimplifySound.v, whose [simp_sound] supplies the name discipline of every sub-result):
     simp f st bd c e = Ok (e', c') -> stack_ok B c st -> pre B st c e -> stack_shapes G st ->
     has_shape G e s -> canon s e'.
   Corollaries [packaging_eliminated] (entry point [simplify], every name an atom) and
   [packaging_eliminated_atom] ([s = SA]: the result is package free).

   Scope, stated in the hypotheses/rules: no [First] (as SimplifySound); the lambdas of the three
   operators have exactly one parameter (a two-parameter lambda applied by Select to a packaged element
   is left as a call with the tuple as its argument - Example [two_parameter_lambda_keeps_package];
   Python raises TypeError on it); dictionary keys and key selectors are str/int constants (bool keys
   compare equal to ints in Python); keyword-argument calls of lambdas only with atoms; a called lambda
   with a starred argument [*xs] is not reduced (Python's binding refuses it) and a tuple/list literal
   with a starred element is not projected (it has no fixed positions): starred nodes are outside the
   discipline altogether - no rule types an [Other "Starred;value=n"] node ([hs_not_starred]), and
   [atom] (hence [canon]) excludes them, which is what makes every canonical literal projectable.
   Typing starred nodes as atoms would make the theorem false: (Select( *x, lambda y: y), b)[0] has no
   starred element, is simplified to ( *x, b)[0] and keeps the projection (Examples
   [starred_called_lambda_is_left_as_a_call], [starred_literal_is_not_projected],
   [starred_source_defeats_projection]). *)
From FA.Base Require Import PyAst Induct Value Eval Traverse Names.
From FA.Gen Require Import TablesSimp.
From FA.Model Require Import Simplify.
From FA.Proofs Require Import TraverseFacts TraverseTFacts Refine EvalCong EvalAgree RenameSem EvalRel SimplifyFacts SimplifySem SimplifyTotal SimplifyInv BindArgs SimplifyRules SimplifySound.
From Coq Require Import Lia.

(* ------------------------------------------------------------------ shapes *)
Inductive shape :=
 | SA                                   (* atom: anything that is not a package, including sequences of atoms *)
 | ST (l : list shape)                  (* tuple or list literal *)
 | SD (l : list (const * shape))        (* dictionary literal with distinct constant str/int keys *)
 | SS (s : shape).                      (* sequence whose elements have the non-atomic shape s *)

(* the shape of a sequence with elements of shape [t] *)
Definition seq (t : shape) : shape := match t with SA => SA | _ => SS t end.
Definition SAs {A} (l : list A) : list shape := map (fun _ => SA) l.

Lemma seq_SS t : t <> SA -> seq t = SS t.
Proof. destruct t; [contradiction | reflexivity..]. Qed.

Lemma seq_SA_inv t : seq t = SA -> t = SA.
Proof. destruct t; [reflexivity | discriminate..]. Qed.

Lemma seq_SS_inv t u : seq t = SS u -> t = u /\ u <> SA.
Proof. destruct t; try discriminate; intros H; inversion H; split; try reflexivity; discriminate. Qed.

Lemma SAs_length {A} (l : list A) : length (SAs l) = length l.
Proof. apply map_length. Qed.

Lemma SAs_map {A C} (f : A -> C) l : SAs (map f l) = SAs l.
Proof. unfold SAs. rewrite map_map. reflexivity. Qed.

Lemma SAs_in {A} (l : list A) s : In s (SAs l) -> s = SA.
Proof. unfold SAs. intros H. apply in_map_iff in H. destruct H as (x & <- & _). reflexivity. Qed.

(* ------------------------------------------------------------------ package-free terms *)
(* the three fusing operators are applied to a source and a one-parameter lambda *)
Definition op1 (f : expr) (args : list expr) : bool :=
  match f with
  | Name h => if is_call_handler h then match args with [_; Lambda [_] _] => true | _ => false end else true
  | _ => true
  end.

Definition node_ok (e : expr) : bool :=
  match e with
  | Tuple _ | List _ | Dict _ _ => false
  | Call f args _ _ => op1 f args
  | Other cls _ _ => negb (String.eqb cls "Starred;value=n")     (* no starred node [*xs] *)
  | _ => true
  end.

(* no tuple, list or dictionary node anywhere *)
Fixpoint nopkg (e : expr) {struct e} : bool :=
  let all := fix all (l : list expr) : bool :=
               match l with [] => true | y :: ys => nopkg y && all ys end in
  match e with
  | Tuple _ | List _ | Dict _ _ => false
  | Name _ | Const _ | Raw _ => true
  | Attr v _ => nopkg v
  | Call f args _ kwv => nopkg f && all args && all kwv
  | Lambda _ b => nopkg b
  | UnaryOp _ a => nopkg a
  | BinOp _ l r => nopkg l && nopkg r
  | BoolOp _ es => all es
  | Compare l _ rs => nopkg l && all rs
  | IfExp c t f => nopkg c && nopkg t && nopkg f
  | Subscript v i => nopkg v && nopkg i
  | ListComp a gs | GenExp a gs => nopkg a && all gs
  | CompFor t i ifs _ => nopkg t && nopkg i && all ifs
  | Other _ _ cs => all cs
  end.

(* [atom]: package free, every Select/Where/SelectMany call has a one-parameter lambda, no starred node *)
Fixpoint atom (e : expr) {struct e} : bool :=
  let all := fix all (l : list expr) : bool :=
               match l with [] => true | y :: ys => atom y && all ys end in
  match e with
  | Tuple _ | List _ | Dict _ _ => false
  | Name _ | Const _ | Raw _ => true
  | Attr v _ => atom v
  | Call f args _ kwv => op1 f args && (atom f && all args && all kwv)
  | Lambda _ b => atom b
  | UnaryOp _ a => atom a
  | BinOp _ l r => atom l && atom r
  | BoolOp _ es => all es
  | Compare l _ rs => atom l && all rs
  | IfExp c t f => atom c && atom t && atom f
  | Subscript v i => atom v && atom i
  | ListComp a gs | GenExp a gs => atom a && all gs
  | CompFor t i ifs _ => atom t && atom i && all ifs
  | Other cls _ cs => negb (String.eqb cls "Starred;value=n") && all cs
  end.

Lemma atom_all_fix l :
  (fix all (l : list expr) : bool := match l with [] => true | y :: ys => atom y && all ys end) l = forallb atom l.
Proof. induction l; simpl; congruence. Qed.

Lemma nopkg_all_fix l :
  (fix all (l : list expr) : bool := match l with [] => true | y :: ys => nopkg y && all ys end) l = forallb nopkg l.
Proof. induction l; simpl; congruence. Qed.

Lemma atom_children e : atom e = node_ok e && forallb atom (children e).
Proof.
  destruct e; cbn [atom node_ok children]; rewrite ?atom_all_fix; cbn [forallb];
    rewrite ?forallb_app, ?andb_true_r, ?andb_assoc; reflexivity.
Qed.

Lemma nopkg_children e :
  nopkg e = (match e with Tuple _ | List _ | Dict _ _ => false | _ => true end) && forallb nopkg (children e).
Proof.
  destruct e; cbn [nopkg children]; rewrite ?nopkg_all_fix; cbn [forallb];
    rewrite ?forallb_app, ?andb_true_r, ?andb_assoc; reflexivity.
Qed.

Lemma atom_nopkg : forall e, atom e = true -> nopkg e = true.
Proof.
  induction e as [e IH] using expr_ind_children. rewrite atom_children, nopkg_children. intros Ha.
  apply andb_true_iff in Ha. destruct Ha as [Hn Hc]. apply andb_true_iff. split.
  - destruct e; try reflexivity; discriminate Hn.
  - rewrite forallb_forall in Hc |- *. rewrite Forall_forall in IH. intros x Hx. apply IH; [assumption | apply Hc; assumption].
Qed.

(* ------------------------------------------------------------------ canonical outputs *)
Definition strint (k : const) : bool := match k with CStr _ | CInt _ => true | _ => false end.
Definition keys_ok (ks : list const) : Prop := NoDup ks /\ forallb strint ks = true.

Inductive canon : shape -> expr -> Prop :=
 | CA e : atom e = true -> canon SA e
 | CT ss es : canons ss es -> canon (ST ss) (Tuple es)
 | CL ss es : canons ss es -> canon (ST ss) (List es)
 | CD kss vs : keys_ok (map fst kss) -> canons (map snd kss) vs ->
               canon (SD kss) (Dict (map Const (map fst kss)) vs)
 | CSel t s x b : t <> SA -> atom s = true -> canon t b ->
                  canon (SS t) (function_call "Select" [s; Lambda [x] b])
 | CMany t s x b : t <> SA -> atom s = true -> canon (SS t) b ->
                   canon (SS t) (function_call "SelectMany" [s; Lambda [x] b])
with canons : list shape -> list expr -> Prop :=
 | CNil : canons [] []
 | CCons s e ss es : canon s e -> canons ss es -> canons (s :: ss) (e :: es).

Scheme canon_mut := Minimality for canon Sort Prop
  with canons_mut := Minimality for canons Sort Prop.
Combined Scheme canon_mutind from canon_mut, canons_mut.

Lemma canons_Forall2 ss es : canons ss es <-> Forall2 canon ss es.
Proof. split; induction 1; constructor; assumption. Qed.

Lemma canons_length ss es : canons ss es -> length es = length ss.
Proof. induction 1; simpl; congruence. Qed.

Lemma atom_not_starred e : atom e = true -> is_starred e = false.
Proof. destruct e; try reflexivity. cbn [atom is_starred]. intros H. apply andb_true_iff in H. destruct H as [H _]. apply negb_true_iff in H. exact H. Qed.

Lemma canon_not_starred s e : canon s e -> is_starred e = false.
Proof. intros H. destruct H; try reflexivity. apply atom_not_starred. assumption. Qed.

Lemma canons_not_starred ss es : canons ss es -> existsb is_starred es = false.
Proof. induction 1 as [|s e ss es He _ IH]; [reflexivity|]. cbn [existsb]. rewrite (canon_not_starred _ _ He), IH. reflexivity. Qed.

Lemma canon_SA_inv e : canon SA e -> atom e = true.
Proof. intros H. inversion H. assumption. Qed.

(* a canonical term of a non-atomic shape is a package or a Select/SelectMany call *)
Lemma canon_pkg_form s e : canon s e -> s <> SA ->
  match e with
  | Tuple _ | List _ | Dict _ _ => True
  | Call (Name n) [_; Lambda [_] _] [] [] => n = "Select" \/ n = "SelectMany"
  | _ => False
  end.
Proof. intros H Hs. destruct H; try exact I; try contradiction; cbn; auto. Qed.

Lemma canon_name_SA s x : canon s (Name x) -> s = SA.
Proof. intros H. inversion H; reflexivity. Qed.

(* a canonical sequence of packages is a call of Select or SelectMany *)
Lemma canon_SS_form t e : canon (SS t) e ->
  t <> SA /\ exists s x b, atom s = true /\
    ((e = function_call "Select" [s; Lambda [x] b] /\ canon t b) \/
     (e = function_call "SelectMany" [s; Lambda [x] b] /\ canon (SS t) b)).
Proof. intros H. inversion H; subst; (split; [assumption|]); exists s, x, b; auto. Qed.

(* ------------------------------------------------------------------ the shape discipline *)
Fixpoint alook {A} (x : string) (l : list (string * A)) : option A :=
  match l with
  | [] => None
  | (y, v) :: r => if String.eqb x y then Some v else alook x r
  end.

(* the context [G] with the parameters [ps] given the shapes [ss] (as Python binds them: last wins) *)
Definition upd (G : string -> shape) (ps : list string) (ss : list shape) (x : string) : shape :=
  match alook x (rev (combine ps ss)) with Some s => s | None => G x end.

(* a constant int index, written [n] or [-(n)] *)
Definition index_of (s : expr) : option Z :=
  match s with
  | Const (CInt n) => Some n
  | UnaryOp USub (Const (CInt m)) => Some (- m)%Z
  | _ => None
  end.

(* nodes that only combine atoms *)
Definition gen_node (e : expr) : bool :=
  match e with
  | Const _ | Attr _ _ | UnaryOp _ _ | BinOp _ _ _ | BoolOp _ _ | Compare _ _ _ | IfExp _ _ _
  | Subscript _ _ => true
  | Other cls _ _ => negb (String.eqb cls "Starred;value=n")     (* a starred node is not an expression *)
  | Call (Name fn) _ _ _ => negb (is_call_handler fn)
  | Call _ _ _ _ => true
  | _ => false
  end.

Inductive has_shape : (string -> shape) -> expr -> shape -> Prop :=
 | HS_Name G x : has_shape G (Name x) (G x)
 | HS_Tuple G es ss : has_shapes G es ss -> has_shape G (Tuple es) (ST ss)
 | HS_List G es ss : has_shapes G es ss -> has_shape G (List es) (ST ss)
 | HS_Dict G kss vs : keys_ok (map fst kss) -> has_shapes G vs (map snd kss) ->
     has_shape G (Dict (map Const (map fst kss)) vs) (SD kss)
 (* taking packages apart: constant index in range, constant key / attribute the dictionary defines *)
 | HS_SubT G e s ss z t : has_shape G e (ST ss) -> index_of s = Some z -> py_index ss z = Some t ->
     has_shape G (Subscript e s) t
 | HS_SubD G e k kss t : has_shape G e (SD kss) -> strint k = true -> In (k, t) kss ->
     has_shape G (Subscript e (Const k)) t
 | HS_AttrD G e a kss t : has_shape G e (SD kss) -> In (CStr a, t) kss -> has_shape G (Attr e a) t
 (* a called lambda; a starred argument [*xs] is not bound positionally *)
 | HS_Beta G ps b args ss s : length ps = length args -> existsb is_starred args = false ->
     has_shapes G args ss -> has_shape (upd G ps ss) b s ->
     has_shape G (Call (Lambda ps b) args [] []) s
 (* the three operators *)
 | HS_Select G src x b s0 t : has_shape G src (seq s0) -> has_shape (upd G [x] [s0]) b t ->
     has_shape G (function_call "Select" [src; Lambda [x] b]) (seq t)
 | HS_Where G src x b s0 : has_shape G src (seq s0) -> has_shape (upd G [x] [s0]) b SA ->
     has_shape G (function_call "Where" [src; Lambda [x] b]) (seq s0)
 | HS_Many G src x b s0 t : has_shape G src (seq s0) -> has_shape (upd G [x] [s0]) b (seq t) ->
     has_shape G (function_call "SelectMany" [src; Lambda [x] b]) (seq t)
 (* a lambda that is not called, outside operator position *)
 | HS_Lam G ps b : has_shape (upd G ps (SAs ps)) b SA -> has_shape G (Lambda ps b) SA
 (* every other node: an atom built from atoms *)
 | HS_Gen G e : gen_node e = true -> has_shapes G (children e) (SAs (children e)) -> has_shape G e SA
with has_shapes : (string -> shape) -> list expr -> list shape -> Prop :=
 | HS_nil G : has_shapes G [] []
 | HS_cons G e s es ss : has_shape G e s -> has_shapes G es ss -> has_shapes G (e :: es) (s :: ss).

Scheme has_shape_mut := Minimality for has_shape Sort Prop
  with has_shapes_mut := Minimality for has_shapes Sort Prop.
Combined Scheme has_shape_mutind from has_shape_mut, has_shapes_mut.

(* starred nodes are outside the discipline *)
Lemma hs_not_starred G e s : has_shape G e s -> is_starred e = false.
Proof.
  intros H. destruct H; try reflexivity. destruct e; try reflexivity.
  cbn [gen_node] in H. apply negb_true_iff in H. exact H.
Qed.

Lemma has_shapes_Forall2 G es ss : has_shapes G es ss <-> Forall2 (has_shape G) es ss.
Proof. split; induction 1; constructor; assumption. Qed.

Lemma has_shapes_length G es ss : has_shapes G es ss -> length ss = length es.
Proof. induction 1; simpl; congruence. Qed.

Lemma has_shapes_SAs G l : (forall x, In x l -> has_shape G x SA) -> has_shapes G l (SAs l).
Proof.
  induction l as [|a l IH]; intros H; [constructor|]. cbn [SAs map]. constructor; [apply H; left; reflexivity|].
  apply IH. intros x Hx. apply H. right. assumption.
Qed.

Lemma has_shapes_SAs_inv G l : has_shapes G l (SAs l) -> forall x, In x l -> has_shape G x SA.
Proof.
  induction l as [|a l IH]; intros H x Hx; [destruct Hx|]. cbn [SAs map] in H. inversion H; subst.
  destruct Hx as [<-|Hx]; [assumption | apply IH; assumption].
Qed.

Lemma has_shapes_app G l1 l2 s1 s2 : has_shapes G l1 s1 -> has_shapes G l2 s2 -> has_shapes G (l1 ++ l2) (s1 ++ s2).
Proof. induction 1; intros H2; [exact H2|]. cbn [app]. constructor; auto. Qed.

Lemma hs_Name G x s : G x = s -> has_shape G (Name x) s.
Proof. intros <-. constructor. Qed.

Lemma hs_Name_inv G x s : has_shape G (Name x) s -> s = G x.
Proof. intros H. inversion H; subst; [reflexivity | discriminate]. Qed.

Lemma hs_Lam_inv G ps b s : has_shape G (Lambda ps b) s -> s = SA /\ has_shape (upd G ps (SAs ps)) b SA.
Proof. intros H. inversion H; subst; [split; [reflexivity | assumption] | discriminate]. Qed.

(* ---------- association lists ---------- *)
Lemma alook_app {A} x (l1 l2 : list (string * A)) :
  alook x (l1 ++ l2) = match alook x l1 with Some v => Some v | None => alook x l2 end.
Proof. induction l1 as [|[a b] l1 IH]; simpl; [reflexivity|]. destruct (String.eqb x a); [reflexivity | apply IH]. Qed.

Lemma alook_In {A} x (l : list (string * A)) v : alook x l = Some v -> In (x, v) l.
Proof.
  induction l as [|[a b] l IH]; simpl; intros H; [discriminate|].
  destruct (String.eqb x a) eqn:E; [apply String.eqb_eq in E; inversion H; subst; left; reflexivity | right; auto].
Qed.

Lemma alook_rev_combine_notin {A} z ps (ss : list A) :
  existsb (String.eqb z) ps = false -> alook z (rev (combine ps ss)) = None.
Proof.
  revert ss; induction ps as [|p ps IH]; intros ss Hz; [reflexivity|].
  destruct ss as [|s ss]; [reflexivity|].
  cbn [combine rev existsb] in *. apply orb_false_iff in Hz. destruct Hz as [Hzp Hz].
  rewrite alook_app, (IH ss Hz). cbn [alook]. rewrite Hzp. reflexivity.
Qed.

Lemma upd_notin G ps ss z : existsb (String.eqb z) ps = false -> upd G ps ss z = G z.
Proof. intros H. unfold upd. rewrite alook_rev_combine_notin by assumption. reflexivity. Qed.

Lemma upd_ext G G' ps ss z : G' z = G z -> upd G' ps ss z = upd G ps ss z.
Proof. intros H. unfold upd. destruct (alook z (rev (combine ps ss))); [reflexivity | assumption]. Qed.

Lemma upd_SAs G ps z : G z = SA \/ In z ps -> upd G ps (SAs ps) z = SA.
Proof.
  intros H. unfold upd. destruct (alook z (rev (combine ps (SAs ps)))) as [s|] eqn:E.
  - apply alook_In in E. apply in_rev in E. apply in_combine_r in E. apply SAs_in in E. assumption.
  - destruct H as [H|H]; [assumption|]. exfalso.
    assert (Hn : forall (l : list string), In z l -> alook z (rev (combine l (SAs l))) <> None).
    { induction l as [|p l IH]; intros Hin; [destruct Hin|]. cbn [SAs map combine rev]. rewrite alook_app.
      destruct (alook z (rev (combine l (map (fun _ : string => SA) l)))) eqn:E1; [discriminate|].
      cbn [alook]. destruct (String.eqb z p) eqn:Ez; [discriminate|].
      destruct Hin as [->|Hin]; [rewrite String.eqb_refl in Ez; discriminate|]. exfalso. apply (IH Hin). exact E1. }
    apply (Hn ps H). exact E.
Qed.

Lemma upd_SAs_same G ps : (forall p, In p ps -> G p = SA) -> forall z, upd G ps (SAs ps) z = G z.
Proof.
  intros H z. destruct (existsb (String.eqb z) ps) eqn:E.
  - apply existsb_eqb_in in E. rewrite upd_SAs by (right; assumption). symmetry. apply H. assumption.
  - apply upd_notin. assumption.
Qed.

(* a parameter, its fresh name and its shape sit at the same (last) position *)
Lemma upd_rev_combine_in G G' ps : forall fs ss z,
  length fs = length ps -> length ss = length ps -> has_dup fs = false ->
  existsb (String.eqb z) ps = true ->
  exists f, ren_lookup z (rev (combine ps fs)) = Some f /\ upd G' fs ss f = upd G ps ss z.
Proof.
  unfold upd. induction ps as [|p ps IH]; intros fs ss z Hlf Hls Hdf Hz; [discriminate|].
  destruct fs as [|f0 fs]; [discriminate|]. destruct ss as [|s0 ss]; [discriminate|].
  cbn [length] in Hlf, Hls. injection Hlf as Hlf. injection Hls as Hls.
  cbn [has_dup] in Hdf. apply orb_false_iff in Hdf. destruct Hdf as [Hf0 Hdf].
  cbn [combine rev].
  destruct (existsb (String.eqb z) ps) eqn:Hzps.
  - destruct (IH fs ss z Hlf Hls Hdf Hzps) as (f & H1 & H2).
    exists f. split; [rewrite ren_lookup_app, H1; reflexivity|].
    rewrite !alook_app.
    assert (Hs : exists s, alook z (rev (combine ps ss)) = Some s).
    { clear - Hzps Hls. revert ss Hls. induction ps as [|p ps IHp]; intros ss Hls; [discriminate|].
      destruct ss as [|s ss]; [discriminate|]. cbn [combine rev]. rewrite alook_app. cbn [existsb] in Hzps.
      destruct (existsb (String.eqb z) ps) eqn:E.
      - destruct (IHp eq_refl ss) as (s1 & ->); [simpl in Hls; lia|]. eauto.
      - rewrite orb_false_r in Hzps. rewrite alook_rev_combine_notin by assumption. cbn [alook]. rewrite Hzps. eauto. }
    destruct Hs as (s & Hs). rewrite Hs in H2 |- *. destruct (alook f (rev (combine fs ss))) as [s'|] eqn:Ef; [assumption|].
    (* f is one of fs, so it is found *)
    exfalso. apply ren_lookup_combine_in in H1.
    clear - H1 Ef Hlf Hls. assert (Hl : length ss = length fs) by lia. clear Hlf Hls.
    revert ss Hl Ef. induction fs as [|g fs IHf]; intros ss Hl Ef; [destruct H1|].
    destruct ss as [|s ss]; [discriminate|]. cbn [combine rev] in Ef. rewrite alook_app in Ef.
    destruct (alook f (rev (combine fs ss))) eqn:E1; [discriminate|]. cbn [alook] in Ef.
    destruct (String.eqb f g) eqn:Eg; [discriminate|].
    destruct H1 as [->|H1]; [rewrite String.eqb_refl in Eg; discriminate|].
    apply (IHf H1 ss); [simpl in Hl; lia | assumption].
  - cbn [existsb] in Hz. rewrite Hzps, orb_false_r in Hz.
    exists f0. split.
    + rewrite ren_lookup_app, (ren_lookup_rev_combine_notin _ _ _ Hzps). cbn [ren_lookup]. rewrite Hz. reflexivity.
    + rewrite !alook_app, (alook_rev_combine_notin _ _ _ Hzps), (alook_rev_combine_notin _ _ _ Hf0).
      cbn [alook]. rewrite Hz, String.eqb_refl. reflexivity.
Qed.

(* ------------------------------------------------------------------ typing and names *)
(* typing depends only on the shapes of the names that are mentioned *)
Lemma hs_ext_mut :
  (forall G e s, has_shape G e s -> forall G', (forall z, mentions z e = true -> G' z = G z) -> has_shape G' e s) /\
  (forall G es ss, has_shapes G es ss -> forall G', (forall z, mentions_any z es = true -> G' z = G z) -> has_shapes G' es ss).
Proof.
  apply has_shape_mutind.
  - intros G x G' H. apply hs_Name. apply H. cbn [mentions]. apply String.eqb_refl.
  - intros G es ss _ IH G' H. constructor. apply IH. intros z Hz. apply H. cbn [mentions]. rewrite mentions_any_fix. assumption.
  - intros G es ss _ IH G' H. constructor. apply IH. intros z Hz. apply H. cbn [mentions]. rewrite mentions_any_fix. assumption.
  - intros G kss vs Hk _ IH G' H. constructor; [assumption|]. apply IH. intros z Hz. apply H.
    cbn [mentions]. rewrite !mentions_any_fix, Hz. apply orb_true_r.
  - intros G e s ss z t _ IH Hi Hp G' H. eapply HS_SubT; [|eassumption..]. apply IH. intros y Hy. apply H.
    apply (mentions_child y (Subscript e s) e); [left; reflexivity | assumption].
  - intros G e k kss t _ IH Hk Hin G' H. eapply HS_SubD; [|eassumption..]. apply IH. intros y Hy. apply H.
    apply (mentions_child y (Subscript e (Const k)) e); [left; reflexivity | assumption].
  - intros G e a kss t _ IH Hin G' H. eapply HS_AttrD; [|eassumption]. apply IH. intros y Hy. apply H. exact Hy.
  - intros G ps b args ss s Hl Hstar _ IHa _ IHb G' H. eapply HS_Beta; [assumption | assumption | |].
    + apply IHa. intros z Hz. apply H. cbn [mentions]. rewrite !mentions_any_fix, Hz. rewrite orb_true_r. reflexivity.
    + apply IHb. intros z Hz. apply upd_ext. apply H. cbn [mentions]. rewrite Hz, orb_true_r. reflexivity.
  - intros G src x b s0 t _ IHs _ IHb G' H. eapply HS_Select.
    + apply IHs. intros z Hz. apply H. apply (mentions_child z _ src); [cbn; auto | assumption].
    + apply IHb. intros z Hz. apply upd_ext. apply H. apply (mentions_child z _ (Lambda [x] b)); [cbn; auto|].
      cbn [mentions]. rewrite Hz. apply orb_true_r.
  - intros G src x b s0 _ IHs _ IHb G' H. eapply HS_Where.
    + apply IHs. intros z Hz. apply H. apply (mentions_child z _ src); [cbn; auto | assumption].
    + apply IHb. intros z Hz. apply upd_ext. apply H. apply (mentions_child z _ (Lambda [x] b)); [cbn; auto|].
      cbn [mentions]. rewrite Hz. apply orb_true_r.
  - intros G src x b s0 t _ IHs _ IHb G' H. eapply HS_Many.
    + apply IHs. intros z Hz. apply H. apply (mentions_child z _ src); [cbn; auto | assumption].
    + apply IHb. intros z Hz. apply upd_ext. apply H. apply (mentions_child z _ (Lambda [x] b)); [cbn; auto|].
      cbn [mentions]. rewrite Hz. apply orb_true_r.
  - intros G ps b _ IH G' H. constructor. apply IH. intros z Hz. apply upd_ext. apply H. cbn [mentions]. rewrite Hz. apply orb_true_r.
  - intros G e Hg _ IH G' H. apply HS_Gen; [assumption|]. apply IH. intros z Hz. apply H.
    apply mentions_any_true_in in Hz. destruct Hz as (x & Hx & Hm). eapply mentions_child; eassumption.
  - intros G G' _. constructor.
  - intros G e s es ss _ IHe _ IHes G' H. constructor.
    + apply IHe. intros z Hz. apply H. cbn [mentions_any]. rewrite Hz. reflexivity.
    + apply IHes. intros z Hz. apply H. cbn [mentions_any]. rewrite Hz. apply orb_true_r.
Qed.

Lemma hs_ext G G' e s : has_shape G e s -> (forall z, mentions z e = true -> G' z = G z) -> has_shape G' e s.
Proof. intros H. apply (proj1 hs_ext_mut); assumption. Qed.

Lemma hs_ext_all G G' e s : has_shape G e s -> (forall z, G' z = G z) -> has_shape G' e s.
Proof. intros H H'. eapply hs_ext; [eassumption|]. intros z _. apply H'. Qed.

(* ---------- typing is stable under renaming to fresh names ---------- *)
Definition mok (m : list (string * string)) : Prop :=
  forall x y, ren_lookup x m = Some y -> y = x \/ (is_call_handler x = false /\ is_call_handler y = false).

Definition rcond (m : list (string * string)) (e : expr) (G G' : string -> shape) : Prop :=
  (forall x y, ren_lookup x m = Some y -> y <> x -> mentions y e = false) /\
  (forall z, mentions z e = true -> G' (ren m z) = G z).

Lemma mok_under m ps : mok m -> mok (idmap ps ++ m).
Proof.
  intros H x y Hx. rewrite ren_lookup_app, ren_lookup_idmap in Hx.
  destruct (existsb (String.eqb x) ps); [inversion Hx; left; reflexivity | apply H; assumption].
Qed.

Lemma rcond_child m e c G G' : In c (children e) -> rcond m e G G' -> rcond m c G G'.
Proof.
  intros Hin [H1 H2]. split.
  - intros x y Hx Hy. specialize (H1 x y Hx Hy). destruct (mentions y c) eqn:E; [|reflexivity].
    rewrite (mentions_child y e c Hin E) in H1. discriminate.
  - intros z Hz. apply H2. eapply mentions_child; eassumption.
Qed.

Lemma alook_rev_combine_in {A} z ps : forall (ss : list A),
  length ss = length ps -> existsb (String.eqb z) ps = true -> exists s, alook z (rev (combine ps ss)) = Some s.
Proof.
  induction ps as [|p ps IHp]; intros ss Hls Hzps; [discriminate|].
  destruct ss as [|s ss]; [discriminate|]. cbn [combine rev]. rewrite alook_app. cbn [existsb] in Hzps.
  destruct (existsb (String.eqb z) ps) eqn:E.
  - destruct (IHp ss) as (s1 & ->); [simpl in Hls; lia | reflexivity |]. eauto.
  - rewrite orb_false_r in Hzps. rewrite alook_rev_combine_notin by assumption. cbn [alook]. rewrite Hzps. eauto.
Qed.

Lemma rcond_under m ps b G G' ss :
  length ss = length ps -> rcond m (Lambda ps b) G G' -> rcond (idmap ps ++ m) b (upd G ps ss) (upd G' ps ss).
Proof.
  intros Hl [H1 H2]. split.
  - intros x y Hx Hy. rewrite ren_lookup_app, ren_lookup_idmap in Hx.
    destruct (existsb (String.eqb x) ps); [inversion Hx; subst; contradiction|].
    specialize (H1 x y Hx Hy). cbn [mentions] in H1. apply orb_false_iff in H1. tauto.
  - intros z Hz. rewrite ren_idmap_app. destruct (existsb (String.eqb z) ps) eqn:Ez.
    + unfold upd. destruct (alook_rev_combine_in z ps ss Hl Ez) as (s & ->). reflexivity.
    + assert (Hm : mentions z (Lambda ps b) = true) by (cbn [mentions]; rewrite Hz; apply orb_true_r).
      rewrite (upd_notin G ps ss z Ez). rewrite upd_notin; [apply H2; assumption|].
      unfold ren. destruct (ren_lookup z m) as [y|] eqn:E; [|assumption].
      destruct (String.eqb y z) eqn:Eyz; [apply String.eqb_eq in Eyz; subst; assumption|].
      assert (Hy : y <> z) by (intros ->; rewrite String.eqb_refl in Eyz; discriminate).
      specialize (H1 z y E Hy). cbn [mentions] in H1. apply orb_false_iff in H1. tauto.
Qed.

Lemma rename_Name m x : rename m (Name x) = Name (ren m x).
Proof. cbn [rename]. unfold ren. destruct (ren_lookup x m); reflexivity. Qed.

Lemma rename_handler m h : mok m -> is_call_handler h = true -> rename m (Name h) = Name h.
Proof.
  intros Hm Hh. cbn [rename]. destruct (ren_lookup h m) as [y|] eqn:E; [|reflexivity].
  destruct (Hm _ _ E) as [->|[H _]]; [reflexivity | congruence].
Qed.

Lemma map_rename_consts m ks : map (rename m) (map Const ks) = map Const ks.
Proof. induction ks as [|k ks IH]; [reflexivity|]. cbn [map]. rewrite IH. reflexivity. Qed.

Lemma index_of_rename m s z : index_of s = Some z -> rename m s = s.
Proof.
  destruct s; try discriminate; [reflexivity|]. destruct o; try discriminate. destruct s; try discriminate.
  destruct c; try discriminate. reflexivity.
Qed.

Lemma rename_gen m e : gen_node e = true -> rename m e = map_children_t (rename m) e.
Proof. destruct e; try reflexivity; discriminate. Qed.

Lemma gen_node_rename m e : mok m -> gen_node e = true -> gen_node (map_children_t (rename m) e) = true.
Proof.
  intros Hm Hg. destruct e; try discriminate; try reflexivity; try exact Hg. cbn [map_children_t].
  destruct e; try reflexivity.
  cbn [gen_node] in Hg. apply negb_true_iff in Hg. cbn [rename]. destruct (ren_lookup id m) as [y|] eqn:E.
  - cbn [gen_node]. destruct (Hm _ _ E) as [->|[_ H]]; rewrite ?Hg, ?H; reflexivity.
  - cbn [gen_node]. rewrite Hg. reflexivity.
Qed.

Lemma is_starred_rename m a : is_starred (rename m a) = is_starred a.
Proof. destruct a; try reflexivity. cbn [rename]. destruct (ren_lookup id m); reflexivity. Qed.

Lemma existsb_starred_rename m l : existsb is_starred (map (rename m) l) = existsb is_starred l.
Proof. induction l as [|a l IH]; [reflexivity|]. cbn [map existsb]. rewrite is_starred_rename, IH. reflexivity. Qed.

Lemma hs_rename_mut :
  (forall G e s, has_shape G e s -> forall m G', mok m -> rcond m e G G' -> has_shape G' (rename m e) s) /\
  (forall G es ss, has_shapes G es ss -> forall m G', mok m -> (forall e, In e es -> rcond m e G G') ->
     has_shapes G' (map (rename m) es) ss).
Proof.
  apply has_shape_mutind.
  - intros G x m G' Hm [_ H2]. rewrite rename_Name. apply hs_Name. apply H2. cbn [mentions]. apply String.eqb_refl.
  - intros G es ss _ IH m G' Hm Hr. cbn [rename map_children_t]. constructor. apply IH; [assumption|].
    intros e He. eapply rcond_child; [|exact Hr]. exact He.
  - intros G es ss _ IH m G' Hm Hr. cbn [rename map_children_t]. constructor. apply IH; [assumption|].
    intros e He. eapply rcond_child; [|exact Hr]. exact He.
  - intros G kss vs Hk _ IH m G' Hm Hr. cbn [rename map_children_t]. rewrite map_rename_consts. constructor; [assumption|].
    apply IH; [assumption|]. intros e He. eapply rcond_child; [|exact Hr]. cbn [children]. apply in_or_app. right. exact He.
  - intros G e s ss z t _ IH Hi Hp m G' Hm Hr. cbn [rename map_children_t]. rewrite (index_of_rename m s z Hi).
    eapply HS_SubT; [|eassumption..]. apply IH; [assumption|]. eapply rcond_child; [|exact Hr]. left; reflexivity.
  - intros G e k kss t _ IH Hk Hin m G' Hm Hr. cbn [rename map_children_t].
    eapply HS_SubD; [|eassumption..]. apply IH; [assumption|]. eapply rcond_child; [|exact Hr]. left; reflexivity.
  - intros G e a kss t _ IH Hin m G' Hm Hr. cbn [rename map_children_t].
    eapply HS_AttrD; [|eassumption]. apply IH; [assumption|]. eapply rcond_child; [|exact Hr]. left; reflexivity.
  - intros G ps b args ss s Hl Hstar Ha IHa _ IHb m G' Hm Hr. cbn [rename map_children_t map].
    assert (Hrl : rcond m (Lambda ps b) G G') by (eapply rcond_child; [|exact Hr]; left; reflexivity).
    apply HS_Beta with (ss := ss).
    + rewrite map_length. assumption.
    + rewrite existsb_starred_rename. assumption.
    + apply IHa; [assumption|]. intros e He. eapply rcond_child; [|exact Hr]. cbn [children]. apply in_cons. apply in_or_app. left. exact He.
    + apply IHb; [apply mok_under; assumption|]. apply rcond_under; [|assumption].
      rewrite (has_shapes_length _ _ _ Ha). symmetry. assumption.
  - intros G src x b s0 t _ IHs _ IHb m G' Hm Hr. unfold function_call. cbn [rename map_children_t map].
    change (match ren_lookup "Select" m with Some y => Name y | None => Name "Select" end) with (rename m (Name "Select")).
    rewrite (rename_handler m "Select" Hm eq_refl).
    assert (Hrl : rcond m (Lambda [x] b) G G') by (eapply rcond_child; [|exact Hr]; cbn; auto).
    apply (HS_Select G' (rename m src) x _ s0 t).
    + apply IHs; [assumption|]. eapply rcond_child; [|exact Hr]. cbn; auto.
    + apply IHb; [exact (mok_under m [x] Hm)|]. exact (rcond_under m [x] b G G' [s0] eq_refl Hrl).
  - intros G src x b s0 _ IHs _ IHb m G' Hm Hr. unfold function_call. cbn [rename map_children_t map].
    change (match ren_lookup "Where" m with Some y => Name y | None => Name "Where" end) with (rename m (Name "Where")).
    rewrite (rename_handler m "Where" Hm eq_refl).
    assert (Hrl : rcond m (Lambda [x] b) G G') by (eapply rcond_child; [|exact Hr]; cbn; auto).
    apply (HS_Where G' (rename m src) x _ s0).
    + apply IHs; [assumption|]. eapply rcond_child; [|exact Hr]. cbn; auto.
    + apply IHb; [exact (mok_under m [x] Hm)|]. exact (rcond_under m [x] b G G' [s0] eq_refl Hrl).
  - intros G src x b s0 t _ IHs _ IHb m G' Hm Hr. unfold function_call. cbn [rename map_children_t map].
    change (match ren_lookup "SelectMany" m with Some y => Name y | None => Name "SelectMany" end) with (rename m (Name "SelectMany")).
    rewrite (rename_handler m "SelectMany" Hm eq_refl).
    assert (Hrl : rcond m (Lambda [x] b) G G') by (eapply rcond_child; [|exact Hr]; cbn; auto).
    apply (HS_Many G' (rename m src) x _ s0 t).
    + apply IHs; [assumption|]. eapply rcond_child; [|exact Hr]. cbn; auto.
    + apply IHb; [exact (mok_under m [x] Hm)|]. exact (rcond_under m [x] b G G' [s0] eq_refl Hrl).
  - intros G ps b _ IH m G' Hm Hr. cbn [rename]. constructor. apply IH; [apply mok_under; assumption|].
    apply rcond_under; [apply SAs_length | assumption].
  - intros G e Hg _ IH m G' Hm Hr. rewrite (rename_gen m e Hg). apply HS_Gen; [apply gen_node_rename; assumption|].
    rewrite children_map_children_t, SAs_map. apply IH; [assumption|]. intros c Hc. eapply rcond_child; eassumption.
  - intros G m G' _ _. constructor.
  - intros G e s es ss _ IHe _ IHes m G' Hm Hr. cbn [map]. constructor.
    + apply IHe; [assumption | apply Hr; left; reflexivity].
    + apply IHes; [assumption|]. intros c Hc. apply Hr. right. assumption.
Qed.

(* make_args_unique: the renamed body under the fresh parameters *)
Lemma hs_mau G ps ss b t c :
  has_shape (upd G ps ss) b t -> length ss = length ps -> below c (Lambda ps b) ->
  (forall p, In p ps -> is_call_handler p = false) ->
  has_shape (upd G (fresh_names (length ps) c) ss) (rename (rev (combine ps (fresh_names (length ps) c))) b) t.
Proof.
  intros H Hl Hb Hh. set (fs := fresh_names (length ps) c).
  assert (Hfs : forall y, In y fs -> exists k, c <= k /\ y = arg_name k).
  { intros y Hy. apply in_fresh_names in Hy. destruct Hy as (k & Hk & ->). exists k. split; [lia | reflexivity]. }
  assert (Hbb : below c b).
  { intros n Hn. specialize (Hb n Hn). cbn [mentions] in Hb. apply orb_false_iff in Hb. tauto. }
  apply (proj1 hs_rename_mut _ _ _ H).
  - intros x y Hx. right. apply ren_lookup_in in Hx. apply in_rev in Hx. split.
    + apply Hh. eapply in_combine_l; eassumption.
    + apply in_combine_r in Hx. apply fresh_names_not_op in Hx. unfold opname in Hx. apply orb_false_iff in Hx. tauto.
  - split.
    + intros x y Hx _. apply ren_lookup_combine_in in Hx. destruct (Hfs y Hx) as (k & Hk & ->). apply Hbb. assumption.
    + intros z Hz. unfold ren. destruct (existsb (String.eqb z) ps) eqn:Ez.
      * destruct (upd_rev_combine_in G G ps fs ss z) as (f & H1 & H2);
          [apply fresh_names_length | assumption | apply fresh_names_nodup | assumption|].
        rewrite H1. exact H2.
      * rewrite (ren_lookup_rev_combine_notin _ _ _ Ez). rewrite (upd_notin G ps ss z Ez). apply upd_notin.
        destruct (existsb (String.eqb z) fs) eqn:Ef; [|reflexivity]. apply existsb_eqb_in in Ef.
        destruct (Hfs z Ef) as (k & Hk & ->). rewrite (Hbb k Hk) in Hz. discriminate.
Qed.

(* ---------- package-free terms are typable as atoms; canonical terms at their shape ---------- *)
Lemma atom_typable : forall e, atom e = true -> wfq e = true -> mentions "First" e = false ->
  forall G, (forall z, mentions z e = true -> G z = SA) -> has_shape G e SA.
Proof.
  induction e as [e IH] using expr_ind_children. intros Ha Hw Hf G HG.
  rewrite Forall_forall in IH.
  rewrite atom_children in Ha. apply andb_true_iff in Ha. destruct Ha as [Hn Hc]. rewrite forallb_forall in Hc.
  assert (Hfc : forall x, In x (children e) -> mentions "First" x = false).
  { intros x Hx. destruct (mentions "First" x) eqn:E; [|reflexivity]. rewrite (mentions_child _ _ _ Hx E) in Hf. discriminate. }
  assert (HGc : forall x, In x (children e) -> forall z, mentions z x = true -> G z = SA).
  { intros x Hx z Hz. apply HG. eapply mentions_child; eassumption. }
  (* generic nodes whose children are all well-formed *)
  assert (Hgen : gen_node e = true -> (forall x, In x (children e) -> wfq x = true) -> has_shape G e SA).
  { intros Hg Hwc. apply HS_Gen; [assumption|]. apply has_shapes_SAs. intros x Hx.
    apply IH; [assumption | apply Hc; assumption | apply Hwc; assumption | apply Hfc; assumption | apply HGc; assumption]. }
  destruct e; try discriminate Hn; try discriminate Hw.
  - (* Name *) apply hs_Name. apply HG. cbn [mentions]. apply String.eqb_refl.
  - (* Const *) apply Hgen; [reflexivity | intros x []].
  - (* Attr *) apply Hgen; [reflexivity|]. intros x [<-|[]]. exact Hw.
  - (* Call *)
    destruct e;
      try (match type of Hw with wfq (Call ?g0 ?a0 ?k0 ?v0) = true =>
             destruct (wfq_call_parts g0 a0 k0 v0 ltac:(intros n0; discriminate) Hw) as (W1 & W2 & W3) end;
           apply Hgen; [reflexivity|];
           intros x [<-|Hx]; [assumption|]; apply in_app_or in Hx; rewrite forallb_forall in W2, W3; destruct Hx; auto; fail).
    + (* callee is a name *)
      destruct (is_call_handler id) eqn:Eh.
      * destruct (wfq_handler_shape _ id Hw (String.eqb_refl id) Eh) as (s0 & ps0 & b0 & Heq & Hws & Hd & Hwb & _).
        inversion Heq; subst args kwn kwv; clear Heq.
        cbn [node_ok op1] in Hn. rewrite Eh in Hn. destruct ps0 as [|x [|? ?]]; try discriminate Hn.
        assert (Hs : has_shape G s0 SA).
        { apply IH; [cbn; auto | apply Hc; cbn; auto | assumption | apply Hfc; cbn; auto | apply HGc; cbn; auto]. }
        assert (Hl : has_shape G (Lambda [x] b0) SA).
        { apply IH; [cbn; auto | apply Hc; cbn; auto | apply wfq_lam_iff; auto | apply Hfc; cbn; auto | apply HGc; cbn; auto]. }
        apply hs_Lam_inv in Hl. destruct Hl as [_ Hb]. change (SAs [x]) with [SA] in Hb.
        destruct (handler_cases id Eh) as [-> | [-> | ->]].
        -- exact (HS_Select G s0 x b0 SA SA Hs Hb).
        -- exact (HS_Many G s0 x b0 SA SA Hs Hb).
        -- exact (HS_Where G s0 x b0 SA Hs Hb).
      * apply HS_Gen; [cbn [gen_node]; rewrite Eh; reflexivity|]. apply has_shapes_SAs. intros x Hx.
        cbn [children] in Hx. destruct Hx as [<-|Hx].
        -- apply hs_Name. apply HG. cbn [mentions]. rewrite String.eqb_refl. reflexivity.
        -- assert (Hwx : wfq x = true).
           { cbn [wfq] in Hw. rewrite Eh in Hw.
             assert (Hall : forallb wfq (args ++ kwv) = true).
             { rewrite forallb_app. destruct (String.eqb id "First"); [|exact Hw].
               apply andb_true_iff in Hw. destruct Hw as [Hw Hk]. apply andb_true_iff in Hw. destruct Hw as [_ Ha']. rewrite Ha', Hk. reflexivity. }
             rewrite forallb_forall in Hall. apply Hall. assumption. }
           apply IH; [right; assumption | apply Hc; right; assumption | assumption | apply Hfc; right; assumption | apply HGc; right; assumption].
  - (* Lambda *)
    apply wfq_lam_iff in Hw. destruct Hw as [Hd Hwb]. constructor.
    apply IH; [left; reflexivity | apply Hc; left; reflexivity | assumption | apply Hfc; left; reflexivity|].
    intros z Hz. apply upd_SAs. destruct (existsb (String.eqb z) ps) eqn:Ez; [right; apply existsb_eqb_in; assumption|].
    left. apply HG. cbn [mentions]. rewrite Hz. apply orb_true_r.
  - apply Hgen; [reflexivity|]. intros x [<-|[]]. exact Hw.
  - apply Hgen; [reflexivity|]. cbn [wfq] in Hw. apply andb_true_iff in Hw. destruct Hw. intros x [<-|[<-|[]]]; assumption.
  - apply Hgen; [reflexivity|]. cbn [wfq] in Hw. rewrite forallb_forall in Hw. exact Hw.
  - apply Hgen; [reflexivity|]. cbn [wfq] in Hw. apply andb_true_iff in Hw. destruct Hw as [W1 W2]. rewrite forallb_forall in W2.
    intros x [<-|Hx]; auto.
  - apply Hgen; [reflexivity|]. cbn [wfq] in Hw. apply andb_true_iff in Hw. destruct Hw as [Hw W3]. apply andb_true_iff in Hw. destruct Hw.
    intros x [<-|[<-|[<-|[]]]]; assumption.
  - apply Hgen; [reflexivity|]. cbn [wfq] in Hw. apply andb_true_iff in Hw. destruct Hw. intros x [<-|[<-|[]]]; assumption.
  - apply Hgen; [exact Hn|]. cbn [wfq] in Hw. rewrite forallb_forall in Hw. exact Hw.
Qed.

Lemma canon_typable_mut :
  (forall s e, canon s e -> wfq e = true -> mentions "First" e = false ->
     forall G, (forall z, mentions z e = true -> G z = SA) -> has_shape G e s) /\
  (forall ss es, canons ss es -> wfq_all es = true -> mentions_any "First" es = false ->
     forall G, (forall z, mentions_any z es = true -> G z = SA) -> has_shapes G es ss).
Proof.
  apply canon_mutind.
  - intros e Ha Hw Hf G HG. apply atom_typable; assumption.
  - intros ss es _ IH Hw Hf G HG. constructor. apply IH; [exact Hw | | ].
    + cbn [mentions] in Hf. rewrite mentions_any_fix in Hf. exact Hf.
    + intros z Hz. apply HG. cbn [mentions]. rewrite mentions_any_fix. exact Hz.
  - intros ss es _ IH Hw Hf G HG. constructor. apply IH; [exact Hw | | ].
    + cbn [mentions] in Hf. rewrite mentions_any_fix in Hf. exact Hf.
    + intros z Hz. apply HG. cbn [mentions]. rewrite mentions_any_fix. exact Hz.
  - intros kss vs Hk _ IH Hw Hf G HG. constructor; [assumption|].
    cbn [wfq] in Hw. apply andb_true_iff in Hw. destruct Hw as [_ Hwv].
    cbn [mentions] in Hf. rewrite !mentions_any_fix in Hf. apply orb_false_iff in Hf. destruct Hf as [_ Hfv].
    apply IH; [assumption | assumption|]. intros z Hz. apply HG. cbn [mentions]. rewrite !mentions_any_fix, Hz. apply orb_true_r.
  - intros t s x b Ht Hs _ IH Hw Hf G HG.
    destruct (wfq_handler_shape _ "Select" Hw eq_refl eq_refl) as (s1 & ps1 & b1 & Heq & Hws & _ & Hwb & _).
    inversion Heq; subst s1 ps1 b1; clear Heq.
    assert (Hfs : mentions "First" s = false).
    { destruct (mentions "First" s) eqn:E; [|reflexivity]. rewrite (mentions_child "First" _ s) in Hf; [discriminate | cbn; auto | assumption]. }
    assert (Hfb : mentions "First" b = false).
    { destruct (mentions "First" b) eqn:E; [|reflexivity].
      rewrite (mentions_child "First" _ (Lambda [x] b)) in Hf; [discriminate | cbn; auto | cbn [mentions]; rewrite E; apply orb_true_r]. }
    rewrite <- (seq_SS t Ht). apply (HS_Select G s x b SA t).
    + apply atom_typable; try assumption. intros z Hz. apply HG. apply (mentions_child z _ s); [cbn; auto | assumption].
    + apply IH; [assumption | assumption|]. intros z Hz. change [SA] with (SAs [x]). apply upd_SAs.
      destruct (String.eqb z x) eqn:Ez; [right; left; symmetry; apply String.eqb_eq; assumption|].
      left. apply HG. apply (mentions_child z _ (Lambda [x] b)); [cbn; auto | cbn [mentions]; rewrite Hz; apply orb_true_r].
  - intros t s x b Ht Hs _ IH Hw Hf G HG.
    destruct (wfq_handler_shape _ "SelectMany" Hw eq_refl eq_refl) as (s1 & ps1 & b1 & Heq & Hws & _ & Hwb & _).
    inversion Heq; subst s1 ps1 b1; clear Heq.
    assert (Hfs : mentions "First" s = false).
    { destruct (mentions "First" s) eqn:E; [|reflexivity]. rewrite (mentions_child "First" _ s) in Hf; [discriminate | cbn; auto | assumption]. }
    assert (Hfb : mentions "First" b = false).
    { destruct (mentions "First" b) eqn:E; [|reflexivity].
      rewrite (mentions_child "First" _ (Lambda [x] b)) in Hf; [discriminate | cbn; auto | cbn [mentions]; rewrite E; apply orb_true_r]. }
    rewrite <- (seq_SS t Ht). apply (HS_Many G s x b SA t).
    + apply atom_typable; try assumption. intros z Hz. apply HG. apply (mentions_child z _ s); [cbn; auto | assumption].
    + rewrite (seq_SS t Ht). apply IH; [assumption | assumption|]. intros z Hz. change [SA] with (SAs [x]). apply upd_SAs.
      destruct (String.eqb z x) eqn:Ez; [right; left; symmetry; apply String.eqb_eq; assumption|].
      left. apply HG. apply (mentions_child z _ (Lambda [x] b)); [cbn; auto | cbn [mentions]; rewrite Hz; apply orb_true_r].
  - intros _ _ G _. constructor.
  - intros s e ss es _ IHe _ IHes Hw Hf G HG. cbn [forallb] in Hw. apply andb_true_iff in Hw. destruct Hw as [W1 W2].
    cbn [mentions_any] in Hf. apply orb_false_iff in Hf. destruct Hf as [F1 F2]. constructor.
    + apply IHe; [assumption | assumption|]. intros z Hz. apply HG. cbn [mentions_any]. rewrite Hz. reflexivity.
    + apply IHes; [assumption | assumption|]. intros z Hz. apply HG. cbn [mentions_any]. rewrite Hz. apply orb_true_r.
Qed.

Lemma canon_typable s e G : canon s e -> wfq e = true -> mentions "First" e = false ->
  (forall z, mentions z e = true -> G z = SA) -> has_shape G e s.
Proof. intros H Hw Hf HG. apply (proj1 canon_typable_mut); assumption. Qed.

(* ------------------------------------------------------------------ literal projection *)
Lemma nth_error_canons ss es : canons ss es -> forall n t x, nth_error ss n = Some t -> nth_error es n = Some x -> canon t x.
Proof.
  induction 1 as [|s e ss es Hse _ IH]; intros [|n] t x Ht Hx; cbn [nth_error] in *; try discriminate.
  - inversion Ht; inversion Hx; subst. assumption.
  - eapply IH; eassumption.
Qed.

Lemma py_index_canons ss es z t x : canons ss es -> py_index ss z = Some t -> py_index es z = Some x -> canon t x.
Proof.
  intros Hc. unfold py_index. rewrite (canons_length _ _ Hc).
  destruct (0 <=? z)%Z; [apply nth_error_canons; assumption|].
  destruct (0 <=? Z.of_nat (length ss) + z)%Z; [apply nth_error_canons; assumption | discriminate].
Qed.

Lemma py_index_range {A} (l : list A) z t : py_index l z = Some t -> (- Z.of_nat (length l) <= z < Z.of_nat (length l))%Z.
Proof.
  unfold py_index. destruct (0 <=? z)%Z eqn:E0.
  - apply Z.leb_le in E0. intros H. assert (Hn : nth_error l (Z.to_nat z) <> None) by congruence. apply nth_error_Some in Hn. lia.
  - apply Z.leb_gt in E0. destruct (0 <=? Z.of_nat (length l) + z)%Z eqn:E1; [|discriminate]. apply Z.leb_le in E1. intros _. lia.
Qed.

Lemma seq_project_canon ss es z t : canons ss es -> py_index ss z = Some t -> exists x, seq_project es z = Ok x /\ canon t x.
Proof.
  intros Hc Ht. pose proof (seq_project_spec es z) as Hs. pose proof (py_index_range _ _ _ Ht) as Hr.
  rewrite <- (canons_length _ _ Hc) in Hr.
  destruct (seq_project es z) as [x| | |]; try contradiction; [|lia].
  exists x. split; [reflexivity|]. destruct Hs as [_ Hx]. eapply py_index_canons; eassumption.
Qed.

Lemma km_refl k : strint k = true -> key_matches k k = true.
Proof. destruct k; try discriminate; intros _; cbn [key_matches]; [apply Z.eqb_refl | apply String.eqb_refl]. Qed.

Lemma km_neq k k' : strint k = true -> strint k' = true -> k <> k' -> key_matches k k' = false.
Proof.
  destruct k, k'; try discriminate; intros _ _ Hn; cbn [key_matches]; try reflexivity.
  - apply Z.eqb_neq. congruence.
  - apply String.eqb_neq. congruence.
Qed.

Lemma dict_scan_canon kss : forall vs k t,
  canons (map snd kss) vs -> NoDup (map fst kss) -> forallb strint (map fst kss) = true -> strint k = true ->
  In (k, t) kss -> exists v, dict_scan (map Const (map fst kss)) vs k = Some v /\ canon t v.
Proof.
  induction kss as [|[k0 t0] kss IH]; intros vs k t Hc Hd Hs Hk Hin; [destruct Hin|].
  cbn [map fst snd] in *. inversion Hc as [|? v0 ? vs0 Hv0 Hvs]; subst. inversion Hd as [|? ? Hnin Hd']; subst.
  cbn [forallb] in Hs. apply andb_true_iff in Hs. destruct Hs as [Hs0 Hs].
  cbn [dict_scan]. destruct Hin as [Heq|Hin].
  - inversion Heq; subst. rewrite (km_refl k Hk). eauto.
  - rewrite km_neq; [apply IH; assumption | assumption | assumption|].
    intros ->. apply Hnin. change k with (fst (k, t)). apply in_map. assumption.
Qed.

Lemma canons_rev ss es : canons ss es -> canons (rev ss) (rev es).
Proof. intros H. apply canons_Forall2. apply Forall2_rev. apply canons_Forall2. assumption. Qed.

Lemma dict_with_value_canon kss vs k t :
  keys_ok (map fst kss) -> canons (map snd kss) vs -> strint k = true -> In (k, t) kss ->
  exists v, dict_with_value (map Const (map fst kss)) vs k = Ok (Some v) /\ canon t v.
Proof.
  intros [Hd Hs] Hc Hk Hin. unfold dict_with_value.
  rewrite !map_length, (canons_length _ _ Hc), map_length, Nat.eqb_refl.
  destruct (dict_scan_canon (rev kss) (rev vs) k t) as (v & Hv & Hcv).
  - rewrite map_rev. apply canons_rev. assumption.
  - rewrite map_rev. apply NoDup_rev. assumption.
  - rewrite map_rev. rewrite forallb_forall in Hs |- *. intros x Hx. apply Hs. apply in_rev. assumption.
  - assumption.
  - apply in_rev in Hin. exact Hin.
  - exists v. rewrite <- !map_rev. rewrite Hv. auto.
Qed.

(* constants are visited to themselves *)
Lemma simp_Const f st bd c k e' c' : simp f st bd c (Const k) = Ok (e', c') -> e' = Const k /\ c' = c.
Proof. destruct f; [discriminate|]. cbn. intros H. inversion H. auto. Qed.

Lemma simp_index f st bd c s z e' c' :
  index_of s = Some z -> simp f st bd c s = Ok (e', c') -> norm_index e' = Const (CInt z) /\ c' = c.
Proof.
  intros Hi H. destruct s; try discriminate Hi.
  - destruct c0; try discriminate Hi. inversion Hi; subst. apply simp_Const in H. destruct H as [-> ->]. auto.
  - destruct o; try discriminate Hi. destruct s; try discriminate Hi. destruct c0; try discriminate Hi. inversion Hi; subst.
    destruct f as [|[|f]]; try discriminate H. cbn in H. inversion H; subst. auto.
Qed.

Lemma mapM_consts f st bd ks : forall c l' c', mapM (simp f st bd) c (map Const ks) = Ok (l', c') -> l' = map Const ks /\ c' = c.
Proof.
  induction ks as [|k ks IH]; intros c l' c' H; cbn [map mapM] in H; [inversion H; auto|].
  destruct (simp f st bd c (Const k)) as [[x c1]| | |] eqn:Ex; cbn [sbind] in H; try discriminate.
  apply simp_Const in Ex. destruct Ex as [-> ->].
  fold (mapM (simp f st bd) c (map Const ks)) in H.
  destruct (mapM (simp f st bd) c (map Const ks)) as [[xs c2]| | |] eqn:Exs; cbn [sbind] in H; try discriminate.
  inversion H; subst. destruct (IH _ _ _ Exs) as [-> ->]. auto.
Qed.

Lemma mapM_app_ok (visit : nat -> expr -> sres (expr * nat)) l1 : forall l2 c r c',
  mapM visit c (l1 ++ l2) = Ok (r, c') ->
  exists r1 c1 r2, mapM visit c l1 = Ok (r1, c1) /\ mapM visit c1 l2 = Ok (r2, c') /\ r = r1 ++ r2.
Proof.
  induction l1 as [|x l1 IH]; intros l2 c r c' H.
  - exists [], c, r. cbn [app] in H. auto.
  - cbn [app mapM] in H |- *. destruct (visit c x) as [[x' c1]| | |]; cbn [sbind] in H |- *; try discriminate.
    fold (mapM visit c1 (l1 ++ l2)) in H. fold (mapM visit c1 l1).
    destruct (mapM visit c1 (l1 ++ l2)) as [[xs c2]| | |] eqn:E; cbn [sbind] in H; try discriminate.
    inversion H; subst. destruct (IH _ _ _ _ E) as (r1 & c3 & r2 & H1 & H2 & ->).
    rewrite H1. cbn [sbind]. exists (x' :: r1), c3, r2. auto.
Qed.

(* positional binding of as many arguments as parameters *)
Lemma bind_positional ps : forall args kwv, has_dup ps = false -> length ps = length args ->
  bind_lambda_call ps args [] kwv = Some args.
Proof.
  intros args kwv Hd Hl. unfold bind_lambda_call. rewrite Hd, Hl, Nat.ltb_irrefl. cbn [bind_keywords].
  rewrite combine_length, <- Hl, Nat.min_id, Nat.eqb_refl. cbn [negb].
  clear kwv. revert args Hl. induction ps as [|p ps IH]; intros [|a args] Hl; try discriminate; [reflexivity|].
  cbn [has_dup] in Hd. apply orb_false_iff in Hd. destruct Hd as [Hp Hd].
  cbn [combine map assoc_expr sequence]. rewrite String.eqb_refl. cbn [obind].
  assert (Hm : map (fun q => if String.eqb q p then Some a else assoc_expr q (combine ps args)) ps = map (fun q => assoc_expr q (combine ps args)) ps).
  { apply map_ext_in. intros q Hq. destruct (String.eqb q p) eqn:E; [|reflexivity].
    apply String.eqb_eq in E; subst q. apply existsb_eqb_in in Hq. congruence. }
  rewrite Hm, (IH Hd args) by (simpl in Hl; lia). reflexivity.
Qed.

Lemma SAs_len_eq {A C} (l1 : list A) (l2 : list C) : length l1 = length l2 -> SAs l1 = SAs l2.
Proof. revert l2; induction l1 as [|a l1 IH]; intros [|b l2] H; try discriminate; [reflexivity|]. cbn [SAs map]. f_equal. apply IH. simpl in H; lia. Qed.

Lemma nofun_not_handler B p : nofun B p -> is_call_handler p = false.
Proof.
  intros [H _]. destruct (is_call_handler p) eqn:E; [|reflexivity]. apply is_call_handler_spec in E.
  destruct E as [-> | [-> | ->]]; vm_compute in H; discriminate H.
Qed.

(* ---------- what canonical sequences look like ---------- *)
Lemma atom_op_inv op src fps fb :
  is_call_handler op = true -> atom (Call (Name op) [src; Lambda fps fb] [] []) = true ->
  exists p, fps = [p] /\ atom src = true /\ atom fb = true.
Proof.
  intros Ho H. cbn [atom op1] in H. rewrite Ho in H. destruct fps as [|p [|? ?]]; try discriminate H.
  cbn [andb] in H. rewrite !andb_true_r in H. apply andb_true_iff in H. exists p. tauto.
Qed.

Lemma atom_op op src p fb :
  atom src = true -> atom fb = true -> atom (function_call op [src; Lambda [p] fb]) = true.
Proof.
  intros Hs Hb. unfold function_call. cbn [atom op1]. rewrite Hs, Hb. destruct (is_call_handler op); reflexivity.
Qed.

Lemma canon_seq_Select s0 src fps fb :
  canon (seq s0) (Call (Name "Select") [src; Lambda fps fb] [] []) -> exists p, fps = [p] /\ atom src = true /\ canon s0 fb.
Proof.
  intros H. destruct s0.
  - apply canon_SA_inv in H. destruct (atom_op_inv "Select" _ _ _ eq_refl H) as (p & -> & Hs & Hb). exists p. auto using CA.
  - cbn [seq] in H. inversion H; subst. eauto.
  - cbn [seq] in H. inversion H; subst. eauto.
  - cbn [seq] in H. inversion H; subst. eauto.
Qed.

Lemma canon_seq_Many s0 src fps fb :
  canon (seq s0) (Call (Name "SelectMany") [src; Lambda fps fb] [] []) -> exists p, fps = [p] /\ atom src = true /\ canon (seq s0) fb.
Proof.
  intros H. destruct s0.
  - apply canon_SA_inv in H. destruct (atom_op_inv "SelectMany" _ _ _ eq_refl H) as (p & -> & Hs & Hb). exists p. auto using CA.
  - cbn [seq] in H |- *. inversion H; subst. eauto.
  - cbn [seq] in H |- *. inversion H; subst. eauto.
  - cbn [seq] in H |- *. inversion H; subst. eauto.
Qed.

Lemma canon_seq_other s0 parent :
  canon (seq s0) parent -> is_call_of parent "Select" = false -> is_call_of parent "SelectMany" = false ->
  s0 = SA /\ atom parent = true.
Proof.
  intros H H1 H2. destruct s0; [split; [reflexivity | apply canon_SA_inv; assumption]|..];
    cbn [seq] in H; inversion H; subst; discriminate.
Qed.

Lemma canon_make_Select src p b t : atom src = true -> canon t b -> canon (seq t) (make_Select src (Lambda [p] b)).
Proof.
  intros Hs Hb. unfold make_Select. destruct (lambda_is_identity (Lambda [p] b)) eqn:Ei.
  - cbn [lambda_is_identity] in Ei. destruct b; try discriminate Ei. apply canon_name_SA in Hb. subst t. constructor. assumption.
  - destruct t.
    + constructor. apply atom_op; [assumption | apply canon_SA_inv; assumption].
    + cbn [seq]. constructor; [discriminate | assumption | assumption].
    + cbn [seq]. constructor; [discriminate | assumption | assumption].
    + cbn [seq]. constructor; [discriminate | assumption | assumption].
Qed.

Lemma canon_Many src p b t : atom src = true -> canon (seq t) b -> canon (seq t) (function_call "SelectMany" [src; Lambda [p] b]).
Proof.
  intros Hs Hb. destruct t.
  - constructor. apply atom_op; [assumption | apply canon_SA_inv; assumption].
  - cbn [seq] in *. constructor; [discriminate | assumption | assumption].
  - cbn [seq] in *. constructor; [discriminate | assumption | assumption].
  - cbn [seq] in *. constructor; [discriminate | assumption | assumption].
Qed.

Lemma upd1 G x s : upd G [x] [s] x = s.
Proof. unfold upd. cbn [combine rev app alook]. rewrite String.eqb_refl. reflexivity. Qed.

Lemma hs_make_Select G a x b s0 t :
  has_shape G a (seq s0) -> has_shape (upd G [x] [s0]) b t -> has_shape G (make_Select a (Lambda [x] b)) (seq t).
Proof.
  intros Ha Hb. unfold make_Select. destruct (lambda_is_identity (Lambda [x] b)) eqn:Ei.
  - cbn [lambda_is_identity] in Ei. destruct b; try discriminate Ei. apply String.eqb_eq in Ei. subst id.
    apply hs_Name_inv in Hb. rewrite upd1 in Hb. subst t. assumption.
  - eapply HS_Select; eassumption.
Qed.

(* the body of convolute(g, f) *)
Lemma hs_convolute G x gb p fb c cv c' s0 t :
  convolute (Lambda [x] gb) (Lambda [p] fb) c = Ok (cv, c') ->
  has_shape (upd G [x] [s0]) gb t -> has_shape (upd G [p] [SA]) fb s0 ->
  below c (Lambda [x] gb) -> below c (Lambda [p] fb) ->
  is_call_handler x = false -> is_call_handler p = false ->
  (forall k, c <= k -> G (arg_name k) = SA) ->
  exists a body, cv = Lambda [a] body /\ has_shape (upd G [a] (SAs [a])) body t.
Proof.
  intros Hc Hg Hf Bg Bf Hx Hp HG. rewrite convolute_eq in Hc. inversion Hc; subst cv c'; clear Hc.
  idtac.
  set (a := arg_name (c + 1 + 1)). set (x' := arg_name c). set (p' := arg_name (c + 1)).
  exists a. eexists. split; [reflexivity|].
  set (G1 := upd G [a] (SAs [a])).
  assert (HG1 : forall z, G1 z = G z).
  { apply upd_SAs_same. intros q [<-|[]]. apply HG. lia. }
  assert (Hg' : has_shape (upd G1 [x'] [s0]) (rename (rev (combine [x] [x'])) gb) t).
  { apply hs_ext_all with (G := upd G [x'] [s0]); [|intros z; apply upd_ext; apply HG1].
    apply (hs_mau G [x] [s0] gb t c Hg eq_refl Bg). intros q [<-|[]]. assumption. }
  assert (Hf' : has_shape (upd G1 [p'] [SA]) (rename (rev (combine [p] [p'])) fb) s0).
  { apply hs_ext_all with (G := upd G [p'] [SA]); [|intros z; apply upd_ext; apply HG1].
    apply (hs_mau G [p] [SA] fb s0 (c + 1) Hf eq_refl); [|intros q [<-|[]]; assumption].
    eapply below_mono; [|exact Bf]. lia. }
  apply HS_Beta with (ss := [s0]); [reflexivity | reflexivity | | exact Hg'].
  constructor; [|constructor]. apply HS_Beta with (ss := [SA]); [reflexivity | reflexivity | | exact Hf'].
  constructor; [|constructor]. apply hs_Name. unfold G1. apply upd_SAs. right. left. reflexivity.
Qed.

(* ------------------------------------------------------------------ the algorithm *)
Section Shape.
  Variable B : backend.
  Hypothesis B_args : forall n, nofun B (arg_name n).
  Hypothesis B_dict_meth : forall ks vs m args kws, meth_sem B (VDict ks vs) m args kws = None.
  Hypothesis B_dict_fun : forall op ks vs rest kws, fun_sem B op (VDict ks vs :: rest) kws = None.

  Notation nops := (@nil string).
  Notation stack_ok := (SimplifySound.stack_ok B).
  Notation pre := (SimplifySound.pre B).
  Notation parts := (SimplifySound.parts B).
  Notation outs := (SimplifySound.outs B).
  Notation bok := (SimplifyInv.bok B).

  (* semantic preservation gives the name discipline of every sub-result *)
  Lemma SSnd f : IHs B nops f.
  Proof. exact (simp_sound B nops B_args B_dict_meth B_dict_fun f). Qed.

  (* the context agrees with the pending definitions; every other name is an atom *)
  Definition stack_shapes (G : string -> shape) (st : stack) : Prop :=
    forall x, match stack_lookup x st with Some d => canon (G x) d | None => G x = SA end.

  Definition IHc (f : nat) : Prop :=
    forall st bd c e e' c' G s, simp f st bd c e = Ok (e', c') ->
      stack_ok c st -> pre st c e -> stack_shapes G st -> has_shape G e s -> canon s e'.

  (* a lambda that is visited, not called: its body under atomic parameters *)
  Definition IHl (f : nat) : Prop :=
    forall st bd c ps b e' c' G t, simp f st bd c (Lambda ps b) = Ok (e', c') ->
      stack_ok c st -> pre st c (Lambda ps b) -> stack_shapes G st -> has_shape (upd G ps (SAs ps)) b t ->
      exists ps' b', e' = Lambda ps' b' /\ length ps' = length ps /\ canon t b'.

  Lemma ss_nonkey G st z : stack_shapes G st -> is_key z st = false -> G z = SA.
  Proof. intros H Hk. specialize (H z). unfold is_key in Hk. destruct (stack_lookup z st); [discriminate | assumption]. Qed.

  Lemma ss_clean G st e : stack_shapes G st -> clean st e -> forall z, mentions z e = true -> G z = SA.
  Proof.
    intros H Hc z Hz. apply (ss_nonkey G st z H). destruct (is_key z st) eqn:E; [|reflexivity].
    rewrite (Hc z (or_introl E)) in Hz. discriminate.
  Qed.

  Lemma ss_fresh G st c k : stack_shapes G st -> stack_ok c st -> c <= k -> G (arg_name k) = SA.
  Proof. intros H Hst Hk. apply (ss_nonkey G st _ H). apply (fresh_notkey B c st k Hst Hk). Qed.

  (* an output is typable at the shape it is canonical for *)
  Lemma out_typable G st c e s : stack_shapes G st -> outs st c e -> wfq e = true -> canon s e -> has_shape G e s.
  Proof.
    intros HG (_ & _ & Hc) Hw Hcan. apply canon_typable; [assumption | assumption | apply Hc; right; reflexivity|].
    apply (ss_clean G st e HG Hc).
  Qed.

  Lemma out_body_typable G st c ps b s :
    stack_shapes G st -> outs st c (Lambda ps b) -> wfq b = true -> canon s b -> has_shape (upd G ps (SAs ps)) b s.
  Proof.
    intros HG (_ & _ & Hc) Hw Hcan.
    assert (Hf : mentions "First" b = false).
    { pose proof (Hc "First" (or_intror eq_refl)) as H. cbn [mentions] in H. apply orb_false_iff in H. tauto. }
    apply canon_typable; [assumption | assumption | assumption|]. intros z Hz. apply upd_SAs.
    destruct (existsb (String.eqb z) ps) eqn:Ez; [right; apply existsb_eqb_in; assumption|]. left.
    apply (ss_clean G st (Lambda ps b) HG Hc). cbn [mentions]. rewrite Hz. apply orb_true_r.
  Qed.

  (* ---- Name ---- *)
  Lemma shape_Name f st bd c x e' c' G s :
    simp (S f) st bd c (Name x) = Ok (e', c') -> stack_shapes G st -> has_shape G (Name x) s -> canon s e'.
  Proof.
    intros H HG Hs. apply hs_Name_inv in Hs. subst s. specialize (HG x). cbn [simp] in H.
    destruct (stack_lookup x st) as [d|]; inversion H; subst; [assumption|]. rewrite HG. constructor. reflexivity.
  Qed.

  (* ---- lists of sub-terms ---- *)
  Lemma shape_mapM f (IH : IHc f) st bd G : forall l c l' c' ss,
    mapM (simp f st bd) c l = Ok (l', c') -> stack_ok c st -> (forall x, In x l -> pre st c x) ->
    stack_shapes G st -> has_shapes G l ss -> canons ss l'.
  Proof.
    induction l as [|x xs IHl]; intros c l' c' ss H Hst Hp HG Hs; cbn [mapM] in H.
    - inversion H; subst. inversion Hs; subst. constructor.
    - destruct (simp f st bd c x) as [[x' c1]| | |] eqn:Ex; cbn [sbind] in H; try discriminate.
      fold (mapM (simp f st bd) c1 xs) in H.
      destruct (mapM (simp f st bd) c1 xs) as [[xs' c2]| | |] eqn:Exs; cbn [sbind] in H; try discriminate.
      inversion H; subst; clear H. inversion Hs as [|? ? s0 ? ss0 Hx Hxs]; subst.
      destruct (SSnd f _ _ _ _ _ _ Ex Hst (Hp x (or_introl eq_refl))) as [Q1 _ _ _ _ _].
      constructor.
      + eapply IH; try eassumption. apply Hp. left. reflexivity.
      + eapply IHl; try eassumption; [eapply stack_ok_mono; eassumption|].
        intros y Hy. eapply pre_mono; [eassumption | apply Hp; right; assumption].
  Qed.

  Lemma canons_SAs_atoms (l : list expr) cs : canons (SAs l) cs -> forallb atom cs = true.
  Proof.
    revert cs; induction l as [|a l IH]; intros cs H; cbn [SAs map] in H; inversion H; subst; [reflexivity|].
    cbn [forallb]. rewrite (canon_SA_inv _ H2), (IH _ H4). reflexivity.
  Qed.

  (* ---- nodes treated by generic_visit whose children are atoms ---- *)
  Lemma node_ok_rebuild e cs :
    gen_node e = true -> length cs = length (children e) -> wfq_all cs = true -> node_ok (rebuild e cs) = true.
  Proof.
    intros Hg Hl Hw. destruct e; try discriminate Hg; cbn [children length] in Hl; cbn [rebuild]; try reflexivity; try exact Hg;
      try (destruct cs as [|? [|? [|? [|? ?]]]]; try discriminate Hl; reflexivity).
    destruct cs as [|e0 cs]; [discriminate Hl|].
    cbn [node_ok op1]. cbn [forallb] in Hw. apply andb_true_iff in Hw. destruct Hw as [Hw _].
    destruct e0; try reflexivity. cbn [wfq] in Hw. apply negb_true_iff in Hw. unfold opname in Hw. apply orb_false_iff in Hw.
    destruct Hw as [Hw _]. cbn [op1]. rewrite Hw. reflexivity.
  Qed.

  Lemma shape_generic f (IH : IHc f) st bd c e e' c' G :
    gen_node e = true -> plain e = true -> wfq_all (children e) = true ->
    (let* (cs, c1) := mapM (simp f st bd) c (children e) in Ok (rebuild e cs, c1)) = Ok (e', c') ->
    stack_ok c st -> pre st c e -> stack_shapes G st ->
    has_shapes G (children e) (SAs (children e)) -> canon SA e'.
  Proof.
    intros Hg Hpl Hwc H Hst Hp HG Hs.
    destruct (sound_generic B nops f (SSnd f) st bd c e e' c' Hpl Hwc H Hst Hp) as (cs & -> & Hl & Hw & Hm & _).
    assert (Hc : canons (SAs (children e)) cs).
    { eapply (shape_mapM f IH st bd G); try eassumption.
      intros x Hx. eapply pre_child; try eassumption. rewrite forallb_forall in Hwc. apply Hwc; assumption. }
    constructor. rewrite atom_children, (node_ok_rebuild e cs Hg Hl Hw), (children_rebuild e cs Hl).
    apply (canons_SAs_atoms _ _ Hc).
  Qed.

  (* ---- package construction ---- *)
  Lemma shape_seq f (IH : IHc f) st bd c (tup : bool) es e' c' G ss :
    (let* (cs, c1) := mapM (simp f st bd) c es in Ok ((if tup then Tuple cs else List cs), c1)) = Ok (e', c') ->
    stack_ok c st -> pre st c (if tup then Tuple es else List es) -> stack_shapes G st ->
    has_shapes G es ss -> canon (ST ss) e'.
  Proof.
    intros H Hst Hp HG Hs.
    destruct (mapM (simp f st bd) c es) as [[cs c1]| | |] eqn:Em; cbn [sbind] in H; try discriminate.
    assert (Hc : canons ss cs).
    { eapply (shape_mapM f IH st bd G); try eassumption. intros x Hx.
      assert (Hw : wfq_all es = true) by (destruct Hp as [Hw _ _ _ _]; destruct tup; exact Hw).
      rewrite forallb_forall in Hw.
      apply (pre_child B st c (if tup then Tuple es else List es) x); [destruct tup; reflexivity | apply Hw; assumption | destruct tup; exact Hx | exact Hp]. }
    destruct tup; inversion H; subst; constructor; assumption.
  Qed.

  Lemma shape_Dict f (IH : IHc f) st bd c kss vs e' c' G :
    (let* (cs, c1) := mapM (simp f st bd) c (children (Dict (map Const (map fst kss)) vs)) in
     Ok (rebuild (Dict (map Const (map fst kss)) vs) cs, c1)) = Ok (e', c') ->
    stack_ok c st -> pre st c (Dict (map Const (map fst kss)) vs) -> stack_shapes G st ->
    keys_ok (map fst kss) -> has_shapes G vs (map snd kss) -> canon (SD kss) e'.
  Proof.
    intros H Hst Hp HG Hk Hs. set (ks := map Const (map fst kss)) in *.
    cbn [children] in H.
    destruct (mapM (simp f st bd) c (ks ++ vs)) as [[cs c1]| | |] eqn:Em; cbn [sbind] in H; try discriminate.
    inversion H; subst e' c'; clear H.
    destruct (mapM_app_ok _ _ _ _ _ _ Em) as (r1 & c0 & r2 & H1 & H2 & ->).
    apply mapM_consts in H1. destruct H1 as [-> ->]. fold ks.
    cbn [rebuild]. rewrite firstn_app_len, skipn_app_len by reflexivity.
    assert (Hwd : Nat.eqb (length ks) (length vs) = true /\ wfq_all ks = true /\ wfq_all vs = true).
    { destruct Hp as [Hw _ _ _ _]. cbn [wfq] in Hw. apply andb_true_iff in Hw. destruct Hw as [Hw W3].
      apply andb_true_iff in Hw. destruct Hw as [W1 W2]. auto. }
    destruct Hwd as (_ & _ & Hwv). rewrite forallb_forall in Hwv.
    unfold ks. constructor; [assumption|].
    eapply (shape_mapM f IH st bd G); try eassumption.
    intros x Hx. apply (pre_child B st c (Dict ks vs) x); [reflexivity | apply Hwv; assumption | cbn [children]; apply in_or_app; right; assumption | exact Hp].
  Qed.

  (* ---- Attribute ---- *)
  Lemma shape_Attr f (IH : IHc f) st bd c v a e' c' G s :
    simp (S f) st bd c (Attr v a) = Ok (e', c') -> stack_ok c st -> pre st c (Attr v a) -> stack_shapes G st ->
    (has_shape G v SA /\ s = SA) \/ (exists kss, has_shape G v (SD kss) /\ In (CStr a, s) kss) ->
    canon s e'.
  Proof.
    intros H Hst Hp HG Hs.
    assert (Hpv : pre st c v).
    { apply (pre_child B st c (Attr v a) v); [reflexivity | exact (p_wf _ _ _ _ Hp) | left; reflexivity | exact Hp]. }
    cbn [simp] in H. rewrite (is_call_of_mentions v "First") in H by (apply (p_nf _ _ _ _ Hp)).
    destruct (simp f st bd c v) as [[v' c1]| | |] eqn:Ev; cbn [sbind] in H; try discriminate.
    destruct Hs as [[Hv ->]|(kss & Hv & Hin)].
    - pose proof (IH _ _ _ _ _ _ _ _ Ev Hst Hpv HG Hv) as Hc. apply canon_SA_inv in Hc.
      constructor. destruct v'; try discriminate Hc; inversion H; subst; exact Hc.
    - pose proof (IH _ _ _ _ _ _ _ _ Ev Hst Hpv HG Hv) as Hc. inversion Hc as [| | |kss0 vs' Hk Hvs| |]; subst.
      destruct (dict_with_value_canon kss vs' (CStr a) s Hk Hvs eq_refl Hin) as (x & Hx & Hcx).
      rewrite Hx in H. cbn [sbind] in H. inversion H; subst. assumption.
  Qed.

  (* ---- Subscript ---- *)
  Lemma atom_norm_index s : atom s = true -> atom (norm_index s) = true.
  Proof.
    intros H. destruct s; try exact H. destruct o; try exact H. destruct s; try exact H. destruct c; first [exact H | reflexivity].
  Qed.

  Lemma shape_Subscript f (IH : IHc f) st bd c v s e' c' G t :
    simp (S f) st bd c (Subscript v s) = Ok (e', c') -> stack_ok c st -> pre st c (Subscript v s) -> stack_shapes G st ->
    (has_shape G v SA /\ has_shape G s SA /\ t = SA) \/
    (exists ss z, has_shape G v (ST ss) /\ index_of s = Some z /\ py_index ss z = Some t) \/
    (exists kss k, has_shape G v (SD kss) /\ s = Const k /\ strint k = true /\ In (k, t) kss) ->
    canon t e'.
  Proof.
    intros H Hst Hp HG Hs.
    assert (Hw2 : wfq v = true /\ wfq s = true) by (apply andb_true_iff; exact (p_wf _ _ _ _ Hp)).
    destruct Hw2 as [Hwv Hws].
    assert (Hpv : pre st c v) by (apply (pre_child B st c (Subscript v s) v); [reflexivity | exact Hwv | left; reflexivity | exact Hp]).
    assert (Hps : pre st c s) by (apply (pre_child B st c (Subscript v s) s); [reflexivity | exact Hws | right; left; reflexivity | exact Hp]).
    cbn [simp] in H.
    destruct (simp f st bd c v) as [[v' c1]| | |] eqn:Ev; cbn [sbind] in H; try discriminate.
    destruct (SSnd f _ _ _ _ _ _ Ev Hst Hpv) as [Q1 Q2 Q3 Q4 Q5 _].
    assert (Hst1 : stack_ok c1 st) by (eapply stack_ok_mono; eassumption).
    destruct (simp f st bd c1 s) as [[s0 c2]| | |] eqn:Es; cbn [sbind] in H; try discriminate.
    rewrite (is_call_of_mentions v' "First") in H by (apply clean_first with st; assumption).
    destruct Hs as [(Hv & Hss & ->)|[(ss & z & Hv & Hi & Hpy)|(kss & k & Hv & -> & Hk & Hin)]].
    - pose proof (IH _ _ _ _ _ _ _ _ Ev Hst Hpv HG Hv) as Hc. apply canon_SA_inv in Hc.
      pose proof (IH _ _ _ _ _ _ _ _ Es Hst1 (pre_mono _ _ _ _ _ Q1 Hps) HG Hss) as Hcs. apply canon_SA_inv in Hcs.
      apply atom_norm_index in Hcs.
      assert (He : e' = Subscript v' (norm_index s0)).
      { destruct (norm_index s0); try (inversion H; reflexivity).
        destruct v'; try discriminate Hc; inversion H; reflexivity. }
      subst e'. constructor. cbn [atom]. rewrite Hc, Hcs. reflexivity.
    - pose proof (IH _ _ _ _ _ _ _ _ Ev Hst Hpv HG Hv) as Hc.
      destruct (simp_index _ _ _ _ _ _ _ _ Hi Es) as [Hn ->]. rewrite Hn in H. cbn [const_index] in H.
      inversion Hc as [|ss0 es Hes|ss0 es Hes| | |]; subst;
        rewrite (canons_not_starred _ _ Hes) in H;
        destruct (seq_project_canon ss es z t Hes Hpy) as (x & Hx & Hcx);
        rewrite Hx in H; cbn [sbind] in H; inversion H; subst; assumption.
    - pose proof (IH _ _ _ _ _ _ _ _ Ev Hst Hpv HG Hv) as Hc. inversion Hc as [| | |kss0 vs' Hkk Hvs| |]; subst.
      apply simp_Const in Es. destruct Es as [-> ->]. cbn [norm_index] in H.
      assert (Hck : const_key k = true) by (destruct k; try discriminate Hk; reflexivity). rewrite Hck in H.
      destruct (dict_with_value_canon kss vs' k t Hkk Hvs Hk Hin) as (x & Hx & Hcx).
      rewrite Hx in H. cbn [sbind] in H. inversion H; subst. assumption.
  Qed.

  (* ---- a lambda that is not being called ---- *)
  Lemma lam_visit f0 (IH : IHc f0) : IHl (S f0).
  Proof.
    intros st bd c ps b e' c' G t H Hst Hp HG Hs. cbn [simp] in H.
    destruct (lam_prep B nops B_args st bd c ps b Hst Hp) as (ps' & b' & c0 & Eq & Hc0 & Hpb & Hlen & Hdup & Hpar & _).
    rewrite Eq in H.
    destruct (simp f0 st (bd ++ ps') c0 b') as [[b'' c1]| | |] eqn:Eb; cbn [sbind] in H; try discriminate.
    inversion H; subst e' c'; clear H. exists ps', b''. split; [reflexivity|]. split; [assumption|].
    assert (Hst0 : stack_ok c0 st) by (eapply stack_ok_mono; eassumption).
    apply (IH _ _ _ _ _ _ (upd G ps' (SAs ps')) t Eb Hst0 Hpb).
    - intros x. pose proof (HG x) as Hx. destruct (stack_lookup x st) as [d|] eqn:El.
      + rewrite upd_notin; [assumption|]. destruct (existsb (String.eqb x) ps') eqn:Ex; [|reflexivity].
        apply existsb_eqb_in in Ex. destruct (Hpar x Ex) as (_ & Hk & _). unfold is_key in Hk. rewrite El in Hk. discriminate.
      + apply upd_SAs. left. assumption.
    - destruct (existsb (fun n => existsb (String.eqb n) bd || stack_mentions st n) ps) eqn:Ex.
      + rewrite mau_eq in Eq. inversion Eq; subst ps' b' c0; clear Eq.
        rewrite (SAs_len_eq (fresh_names (length ps) c) ps) by apply fresh_names_length.
        apply hs_mau; [assumption | apply SAs_length | apply Hp|].
        intros p Hin. apply (nofun_not_handler B). destruct (bok_lambda B ps b (p_bok _ _ _ _ Hp)) as [Hkp _]. apply Hkp. assumption.
      + inversion Eq; subst. assumption.
  Qed.

  Lemma shape_Lambda f (IHL : IHl f) st bd c ps b e' c' G :
    simp f st bd c (Lambda ps b) = Ok (e', c') -> stack_ok c st -> pre st c (Lambda ps b) -> stack_shapes G st ->
    has_shape (upd G ps (SAs ps)) b SA -> canon SA e'.
  Proof.
    intros H Hst Hp HG Hs. destruct (IHL _ _ _ _ _ _ _ _ _ H Hst Hp HG Hs) as (ps' & b' & -> & _ & Hc).
    constructor. cbn [atom]. apply canon_SA_inv. assumption.
  Qed.

  (* ---- a lambda that is being called: beta-reduction through the stack ---- *)
  Lemma par_lookup (l1 : list (string * expr)) (l2 : list (string * shape)) :
    Forall2 (fun a b => fst a = fst b /\ canon (snd b) (snd a)) l1 l2 ->
    forall x, match frame_lookup x l1 with
              | Some d => exists s, alook x l2 = Some s /\ canon s d
              | None => alook x l2 = None
              end.
  Proof.
    induction 1 as [|[a d] [a' s] l1 l2 [Ha Hr] _ IH]; intros x; [reflexivity|].
    cbn [fst snd] in Ha, Hr. subst a'. cbn [frame_lookup alook]. destruct (String.eqb x a); [eauto | apply IH].
  Qed.

  Lemma Forall2_combine_par (fs : list string) : forall ds ss,
    canons ss ds -> Forall2 (fun (a : string * expr) (b : string * shape) => fst a = fst b /\ canon (snd b) (snd a)) (combine fs ds) (combine fs ss).
  Proof.
    induction fs as [|f fs IH]; intros ds ss H; [constructor|].
    destruct H as [|s d ss ds Hsd H]; [constructor|]. cbn [combine]. constructor; [split; [reflexivity | assumption]|].
    apply IH. assumption.
  Qed.

  Lemma stack_shapes_push G st fs ds ss :
    stack_shapes G st -> canons ss ds -> stack_shapes (upd G fs ss) (rev (combine fs ds) :: st).
  Proof.
    intros HG Hc x. cbn [stack_lookup]. unfold upd.
    pose proof (par_lookup _ _ (Forall2_rev _ _ _ (Forall2_combine_par fs ds ss Hc)) x) as Hx.
    destruct (frame_lookup x (rev (combine fs ds))) as [d|].
    - destruct Hx as (s & -> & Hs). assumption.
    - rewrite Hx. apply HG.
  Qed.

  Lemma shape_beta f (IH : IHc f) st bd c ps body args kwn kwv given e' c' G ss s :
    bind_lambda_call ps args kwn kwv = Some given ->
    (let* (args', c1) := mapM (simp f st bd) c given in
     match make_args_unique ps body c1 with
     | (Lambda fs body', c2) => simp f (rev (combine fs args') :: st) bd c2 body'
     | _ => Crash "make_args_unique"
     end) = Ok (e', c') ->
    stack_ok c st -> pre st c (Call (Lambda ps body) args kwn kwv) -> stack_shapes G st ->
    has_shapes G given ss -> has_shape (upd G ps ss) body s -> canon s e'.
  Proof.
    intros Hg H Hst Hp HG Hsg Hsb.
    destruct (wfq_call_parts (Lambda ps body) args kwn kwv ltac:(intros n; discriminate) (p_wf _ _ _ _ Hp)) as (Hwl & Hwa & Hwk).
    apply wfq_lam_iff in Hwl. destruct Hwl as [Hdup Hwb].
    assert (Hpl : pre st c (Lambda ps body)).
    { apply (pre_child B st c (Call (Lambda ps body) args kwn kwv)); [reflexivity | apply wfq_lam_iff; auto | left; reflexivity | exact Hp]. }
    assert (Hpg : forall g, In g given -> pre st c g).
    { intros g Hin. apply (pre_child B st c (Call (Lambda ps body) args kwn kwv)); [reflexivity | | | exact Hp].
      - pose proof (bind_lambda_call_wfq _ _ _ _ _ Hg Hwa Hwk) as Hwg. rewrite forallb_forall in Hwg. apply Hwg; assumption.
      - cbn [children]. right. eapply bind_lambda_call_incl; eassumption. }
    destruct (mapM (simp f st bd) c given) as [[args' c1]| | |] eqn:Em; cbn [sbind] in H; try discriminate.
    destruct (sound_mapM B nops f (SSnd f) st bd _ _ _ _ Em Hst Hpg) as (R1 & R2 & R3 & R4 & _).
    pose proof (shape_mapM f IH st bd G _ _ _ _ _ Em Hst Hpg HG Hsg) as Hca.
    rewrite mau_eq in H. set (fs := fresh_names (length ps) c1) in *. set (m := rev (combine ps fs)) in *.
    assert (Hlfs : length fs = length ps) by apply fresh_names_length.
    assert (Hlg : length given = length ps) by (eapply bind_lambda_call_length; eassumption).
    assert (Hst1 : stack_ok c1 st) by (eapply stack_ok_mono; eassumption).
    assert (Hbl : below c1 (Lambda ps body)) by (eapply below_mono; [eassumption | apply Hpl]).
    destruct (bok_lambda B ps body (p_bok _ _ _ _ Hpl)) as [Hkp Hkb].
    assert (Hfb : mentions "First" body = false).
    { pose proof (p_nf _ _ _ _ Hpl) as Hf. cbn [mentions] in Hf. apply orb_false_iff in Hf. tauto. }
    destruct (rename_body_facts B c1 ps body Hwb Hbl Hkb Hfb) as (F1 & F2 & F3 & F4). fold fs m in F1, F2, F3, F4.
    set (st' := rev (combine fs args') :: st) in *.
    assert (Hst' : stack_ok (c1 + length ps) st').
    { rewrite <- Hlfs. apply stack_ok_push; [assumption | unfold fs; rewrite fresh_names_length; reflexivity | lia |].
      intros d Hd. destruct (R3 d Hd) as (Hb & Hk & Hc). split; [|auto]. rewrite forallb_forall in R2. apply R2; assumption. }
    assert (Hpb : pre st' (c1 + length ps) (rename m body)).
    { constructor; try assumption. intros y Hy. rewrite binds_rename. apply is_key_push in Hy. destruct Hy as [(d0 & Hy)|Hy].
      - apply frame_lookup_some_combine in Hy. destruct Hy as [Hy _]. apply in_fresh_names in Hy. destruct Hy as (k & Hk & ->).
        apply not_mentions_not_binds. apply (below_lambda c1 ps body Hbl). lia.
      - pose proof (p_nobind _ _ _ _ Hpl y Hy) as Hn. cbn [binds] in Hn. apply orb_false_iff in Hn. tauto. }
    apply (IH _ _ _ _ _ _ (upd G fs ss) s H Hst' Hpb).
    - apply stack_shapes_push; assumption.
    - apply hs_mau; [assumption | rewrite (has_shapes_length _ _ _ Hsg); assumption | assumption|].
      intros p Hin. apply (nofun_not_handler B). apply Hkp. assumption.
  Qed.

  (* ---- calls treated by generic_visit ---- *)
  Lemma shape_call_generic f (IH : IHc f) st bd c g args kwn kwv e' c' G :
    (let* (cs, c1) := mapM (simp f st bd) c (children (Call g args kwn kwv)) in
     Ok (rebuild (Call g args kwn kwv) cs, c1)) = Ok (e', c') ->
    stack_ok c st -> pre st c (Call g args kwn kwv) -> stack_shapes G st ->
    (forall fn, g = Name fn -> is_call_handler fn = false) ->
    gen_node (Call g args kwn kwv) = true ->
    has_shapes G (children (Call g args kwn kwv)) (SAs (children (Call g args kwn kwv))) ->
    canon SA e'.
  Proof.
    intros H Hst Hp HG Hnh Hg Hs.
    pose proof (mentions_call_callee _ _ _ _ _ (p_nf _ _ _ _ Hp)) as Hgf.
    assert (Hwc : wfq_all (children (Call g args kwn kwv)) = true).
    { pose proof (p_wf _ _ _ _ Hp) as Hw. cbn [children forallb]. rewrite wfq_all_app.
      destruct g; try (match type of Hw with wfq (Call ?g0 _ _ _) = true =>
                         destruct (wfq_call_parts g0 args kwn kwv ltac:(intros n0; discriminate) Hw) as (W1 & W2 & W3) end;
                       rewrite W1, W2, W3; reflexivity).
      cbn [wfq] in Hw. rewrite (Hnh id eq_refl) in Hw. cbn [mentions] in Hgf. rewrite String.eqb_sym in Hgf. rewrite Hgf in Hw.
      cbn [wfq]. unfold opname. rewrite (Hnh id eq_refl), Hgf. exact Hw. }
    eapply (shape_generic f IH st bd c (Call g args kwn kwv)); try eassumption. reflexivity.
  Qed.

  (* ---- the fusing operators ---- *)
  Lemma parts_param_handler st c ps b p : parts st c (Lambda ps b) -> In p ps -> is_call_handler p = false.
  Proof.
    intros (_ & H & _) Hin. apply (nofun_not_handler B). apply H. cbn [binds]. apply orb_true_iff. left. apply existsb_eqb_in. assumption.
  Qed.

  Lemma upd_fresh_same G st c k z : stack_shapes G st -> stack_ok c st -> c <= k -> forall ps ss,
    upd (upd G [arg_name k] [SA]) ps ss z = upd G ps ss z.
  Proof.
    intros HG Hst Hk ps ss. apply upd_ext. change [SA] with (SAs [arg_name k]). apply upd_SAs_same.
    intros q [<-|[]]. eapply ss_fresh; eassumption.
  Qed.

  Lemma shape_Select f (IH : IHc f) (IHL : IHl f) st bd c source x tb e' c' G s0 t :
    simp (S f) st bd c (function_call "Select" [source; Lambda [x] tb]) = Ok (e', c') ->
    stack_ok c st -> pre st c (function_call "Select" [source; Lambda [x] tb]) -> stack_shapes G st ->
    has_shape G source (seq s0) -> has_shape (upd G [x] [s0]) tb t -> canon (seq t) e'.
  Proof.
    intros H Hst Hp HG Hss Hsb.
    pose proof (parts_of_pre _ _ _ _ Hp) as Pe.
    assert (Ps : parts st c source) by (eapply parts_child; [|exact Pe]; cbn; auto).
    assert (Pt : parts st c (Lambda [x] tb)) by (eapply parts_child; [|exact Pe]; cbn; auto).
    destruct (wfq_handler_shape _ "Select" (p_wf _ _ _ _ Hp) eq_refl eq_refl) as (s1 & ps0 & b0 & Heq & Hws & Hdt & Hwt & _).
    inversion Heq; subst s1 ps0 b0; clear Heq.
    unfold function_call in H. cbn [simp] in H.
    change (is_call_handler "Select") with true in H. change (String.eqb "Select" "Select") with true in H.
    cbn [negb is_lambda] in H.
    destruct (simp f st bd c source) as [[parent c1]| | |] eqn:Ev; cbn [sbind] in H; try discriminate.
    pose proof (SSnd f _ _ _ _ _ _ Ev Hst (pre_of_parts _ _ _ _ Hws Ps)) as Qp.
    pose proof (IH _ _ _ _ _ _ _ _ Ev Hst (pre_of_parts _ _ _ _ Hws Ps) HG Hss) as Cp.
    pose proof (outs_of_post _ _ _ _ _ _ _ Qp) as Op. destruct Qp as [Q1 Q2 _ _ _ _].
    assert (Hst1 : stack_ok c1 st) by (eapply stack_ok_mono; eassumption).
    assert (Pt1 : parts st c1 (Lambda [x] tb)) by (eapply parts_mono; eassumption).
    assert (Hxh : is_call_handler x = false) by (eapply parts_param_handler; [exact Pt | left; reflexivity]).
    destruct (is_call_of parent "Select") eqn:E1.
    - (* Select of Select *)
      destruct (wfq_handler_shape _ "Select" Q2 E1 eq_refl) as (src & fps & fb & -> & Hwsrc & Hdf & Hwf & _).
      cbn [unpack2 negb is_lambda] in H.
      destruct (canon_seq_Select _ _ _ _ Cp) as (p & -> & Hasrc & Cfb).
      assert (Osrc : outs st c1 src) by (eapply outs_child; [|exact Op]; cbn; auto).
      assert (Of : outs st c1 (Lambda [p] fb)) by (eapply outs_child; [|exact Op]; cbn; auto).
      destruct (convolute (Lambda [x] tb) (Lambda [p] fb) c1) as [[cv c2]| | |] eqn:Ec; cbn [sbind] in H; try discriminate.
      pose proof (convolute_counter _ _ _ _ _ _ _ Ec) as Hc12.
      destruct (wfq_convolute [x] tb [p] fb c1 Hwt Hwf) as (cv0 & c20 & Ec0 & Hwcv). rewrite Ec in Ec0. inversion Ec0; subst cv0 c20; clear Ec0.
      assert (Pcv : parts st c2 cv) by (eapply parts_convolute; [exact B_args | exact Hst1 | exact Ec | exact Pt1 | apply parts_of_outs; exact Of]).
      destruct (simp f st bd c2 cv) as [[sel c3]| | |] eqn:Es; cbn [sbind] in H; try discriminate.
      inversion H; subst e' c'; clear H.
      assert (Hst2 : stack_ok c2 st) by (eapply stack_ok_mono; [|eassumption]; lia).
      assert (Hph : is_call_handler p = false) by (eapply parts_param_handler; [apply parts_of_outs; exact Of | left; reflexivity]).
      destruct (hs_convolute G x tb p fb c1 cv c2 s0 t Ec Hsb (out_body_typable G st c1 [p] fb s0 HG Of Hwf Cfb)
                  (parts_below _ _ _ _ Pt1) (outs_below _ _ _ _ Of) Hxh Hph (fun k Hk => ss_fresh G st c1 k HG Hst1 Hk))
        as (a & body & -> & Hbody).
      destruct (IHL _ _ _ _ _ _ _ G t Es Hst2 (pre_of_parts _ _ _ _ Hwcv Pcv) HG Hbody) as (ps' & b' & -> & Hl' & Cb').
      destruct ps' as [|p' [|? ?]]; try discriminate Hl'.
      apply canon_make_Select; assumption.
    - destruct (is_call_of parent "SelectMany") eqn:E2.
      + (* Select of SelectMany *)
        destruct (wfq_handler_shape _ "SelectMany" Q2 E2 eq_refl) as (src & fps & fb & -> & Hwsrc & Hdf & Hwf & Hne).
        cbn [unpack2] in H.
        destruct (canon_seq_Many _ _ _ _ Cp) as (p & -> & Hasrc & Cfb).
        assert (Osrc : outs st c1 src) by (eapply outs_child; [|exact Op]; cbn; auto).
        assert (Of : outs st c1 (Lambda [p] fb)) by (eapply outs_child; [|exact Op]; cbn; auto).
        pose proof (parts_mau B B_args st c1 [p] fb Hst1 (parts_of_outs _ _ _ _ Of)) as Pm.
        pose proof (mau_eq [p] fb c1) as Em. cbn [length fresh_names] in Em. rewrite Em in H, Pm. cbn [fst length] in Pm.
        set (p' := arg_name c1) in *. set (fb' := rename (rev (combine [p] [p'])) fb) in *.
        destruct (mau_drawn B st c1 [p] fb [p'] fb' _ Hst1 Em) as (_ & Hlf & Hdf' & Hdr).
        set (c2 := c1 + 1) in *.
        assert (Hwnew : wfq (function_call "SelectMany" [src; Lambda [p'] (make_Select fb' (Lambda [x] tb))]) = true).
        { apply wfq_op; [reflexivity | assumption | reflexivity | | intros _; discriminate].
          eapply wfq_make_Select; [reflexivity | | assumption | assumption]. apply wfq_rename; [apply (ren_ok_fresh [p] 1 c1) | assumption]. }
        assert (Pnew : parts st c2 (function_call "SelectMany" [src; Lambda [p'] (make_Select fb' (Lambda [x] tb))])).
        { eapply parts_fc; [exact Hst1 | reflexivity | eapply parts_mono; [|apply parts_of_outs; exact Osrc]; unfold c2; lia|].
          apply parts_lambda; [exact B_args | exact Hdr|]. eapply parts_make_Select; [exact Hst1 | eapply parts_lambda_inv; exact Pm|].
          eapply parts_mono; [|exact Pt1]. unfold c2; lia. }
        assert (Hst2 : stack_ok c2 st) by (eapply stack_ok_mono; [|exact Hst1]; unfold c2; lia).
        assert (Hph : is_call_handler p = false) by (eapply parts_param_handler; [apply parts_of_outs; exact Of | left; reflexivity]).
        apply (IH _ _ _ _ _ _ G (seq t) H Hst2 (pre_of_parts _ _ _ _ Hwnew Pnew) HG).
        apply (HS_Many G src p' (make_Select fb' (Lambda [x] tb)) SA t).
        * apply (out_typable G st c1 src SA HG Osrc Hwsrc). constructor. assumption.
        * apply hs_make_Select with (s0 := s0).
          -- apply (hs_mau G [p] [SA] fb (seq s0) c1 (out_body_typable G st c1 [p] fb _ HG Of Hwf Cfb) eq_refl (outs_below _ _ _ _ Of)).
             intros q [<-|[]]. assumption.
          -- eapply hs_ext_all; [exact Hsb|]. intros z. apply (upd_fresh_same G st c1 c1 z HG Hst1 (le_n _)).
      + (* plain Select *)
        destruct (canon_seq_other _ _ Cp E1 E2) as [-> Hap].
        destruct (simp f st bd c1 (Lambda [x] tb)) as [[sel c2]| | |] eqn:Es; cbn [sbind] in H; try discriminate.
        inversion H; subst e' c'; clear H.
        assert (Hwl : wfq (Lambda [x] tb) = true) by (apply wfq_lam_iff; auto).
        destruct (IHL _ _ _ _ _ _ _ G t Es Hst1 (pre_of_parts _ _ _ _ Hwl Pt1) HG Hsb) as (ps' & b' & -> & Hl' & Cb').
        destruct ps' as [|p' [|? ?]]; try discriminate Hl'.
        apply canon_make_Select; assumption.
  Qed.

  Lemma shape_SelectMany f (IH : IHc f) (IHL : IHl f) st bd c source x tb e' c' G s0 t :
    simp (S f) st bd c (function_call "SelectMany" [source; Lambda [x] tb]) = Ok (e', c') ->
    stack_ok c st -> pre st c (function_call "SelectMany" [source; Lambda [x] tb]) -> stack_shapes G st ->
    has_shape G source (seq s0) -> has_shape (upd G [x] [s0]) tb (seq t) -> canon (seq t) e'.
  Proof.
    intros H Hst Hp HG Hss Hsb.
    pose proof (parts_of_pre _ _ _ _ Hp) as Pe.
    assert (Ps : parts st c source) by (eapply parts_child; [|exact Pe]; cbn; auto).
    assert (Pt : parts st c (Lambda [x] tb)) by (eapply parts_child; [|exact Pe]; cbn; auto).
    destruct (wfq_handler_shape _ "SelectMany" (p_wf _ _ _ _ Hp) eq_refl eq_refl) as (s1 & ps0 & b0 & Heq & Hws & Hdt & Hwt & _).
    inversion Heq; subst s1 ps0 b0; clear Heq.
    unfold function_call in H. cbn [simp] in H.
    change (is_call_handler "SelectMany") with true in H. change (String.eqb "SelectMany" "Select") with false in H.
    change (String.eqb "SelectMany" "SelectMany") with true in H.
    cbn [negb is_lambda] in H.
    destruct (simp f st bd c source) as [[parent c1]| | |] eqn:Ev; cbn [sbind] in H; try discriminate.
    pose proof (SSnd f _ _ _ _ _ _ Ev Hst (pre_of_parts _ _ _ _ Hws Ps)) as Qp.
    pose proof (IH _ _ _ _ _ _ _ _ Ev Hst (pre_of_parts _ _ _ _ Hws Ps) HG Hss) as Cp.
    pose proof (outs_of_post _ _ _ _ _ _ _ Qp) as Op. destruct Qp as [Q1 Q2 _ _ _ _].
    assert (Hst1 : stack_ok c1 st) by (eapply stack_ok_mono; eassumption).
    assert (Pt1 : parts st c1 (Lambda [x] tb)) by (eapply parts_mono; eassumption).
    assert (Hwl : wfq (Lambda [x] tb) = true) by (apply wfq_lam_iff; auto).
    assert (Hxh : is_call_handler x = false) by (eapply parts_param_handler; [exact Pt | left; reflexivity]).
    destruct (is_call_of parent "SelectMany") eqn:E1.
    - (* SelectMany of SelectMany *)
      destruct (wfq_handler_shape _ "SelectMany" Q2 E1 eq_refl) as (src & fps & fb & -> & Hwsrc & Hdf & Hwf & Hne).
      destruct (canon_seq_Many _ _ _ _ Cp) as (p & -> & Hasrc & Cfb).
      assert (Osrc : outs st c1 src) by (eapply outs_child; [|exact Op]; cbn; auto).
      assert (Of : outs st c1 (Lambda [p] fb)) by (eapply outs_child; [|exact Op]; cbn; auto).
      pose proof (parts_mau B B_args st c1 [p] fb Hst1 (parts_of_outs _ _ _ _ Of)) as Pm.
      pose proof (mau_eq [p] fb c1) as Em. cbn [length fresh_names] in Em. rewrite Em in H, Pm. cbn [fst length] in Pm.
      set (p' := arg_name c1) in *. set (fb' := rename (rev (combine [p] [p'])) fb) in *.
      destruct (mau_drawn B st c1 [p] fb [p'] fb' _ Hst1 Em) as (_ & Hlf & Hdf' & Hdr).
      set (c2 := c1 + 1) in *.
      assert (Hwfb' : wfq fb' = true) by (apply wfq_rename; [apply (ren_ok_fresh [p] 1 c1) | assumption]).
      assert (Hwnew : wfq (function_call "SelectMany" [src; Lambda [p'] (function_call "SelectMany" [fb'; Lambda [x] tb])]) = true).
      { apply wfq_op; [reflexivity | assumption | reflexivity | | intros _; discriminate].
        apply wfq_op; [reflexivity | assumption | assumption | assumption | intros _; discriminate]. }
      assert (Pnew : parts st c2 (function_call "SelectMany" [src; Lambda [p'] (function_call "SelectMany" [fb'; Lambda [x] tb])])).
      { eapply parts_fc; [exact Hst1 | reflexivity | eapply parts_mono; [|apply parts_of_outs; exact Osrc]; unfold c2; lia|].
        apply parts_lambda; [exact B_args | exact Hdr|].
        eapply parts_fc; [exact Hst1 | reflexivity | eapply parts_lambda_inv; exact Pm|].
        eapply parts_mono; [|exact Pt1]. unfold c2; lia. }
      assert (Hst2 : stack_ok c2 st) by (eapply stack_ok_mono; [|exact Hst1]; unfold c2; lia).
      assert (Hph : is_call_handler p = false) by (eapply parts_param_handler; [apply parts_of_outs; exact Of | left; reflexivity]).
      apply (IH _ _ _ _ _ _ G (seq t) H Hst2 (pre_of_parts _ _ _ _ Hwnew Pnew) HG).
      apply (HS_Many G src p' (function_call "SelectMany" [fb'; Lambda [x] tb]) SA t).
      + apply (out_typable G st c1 src SA HG Osrc Hwsrc). constructor. assumption.
      + apply (HS_Many _ fb' x tb s0 t).
        * apply (hs_mau G [p] [SA] fb (seq s0) c1 (out_body_typable G st c1 [p] fb _ HG Of Hwf Cfb) eq_refl (outs_below _ _ _ _ Of)).
          intros q [<-|[]]. assumption.
        * eapply hs_ext_all; [exact Hsb|]. intros z. apply (upd_fresh_same G st c1 c1 z HG Hst1 (le_n _)).
    - destruct (is_call_of parent "Select") eqn:E2.
      + (* SelectMany of Select *)
        destruct (wfq_handler_shape _ "Select" Q2 E2 eq_refl) as (src & fps & fb & -> & Hwsrc & Hdf & Hwf & _).
        cbn [negb is_lambda] in H.
        destruct (canon_seq_Select _ _ _ _ Cp) as (p & -> & Hasrc & Cfb).
        assert (Osrc : outs st c1 src) by (eapply outs_child; [|exact Op]; cbn; auto).
        assert (Of : outs st c1 (Lambda [p] fb)) by (eapply outs_child; [|exact Op]; cbn; auto).
        destruct (convolute (Lambda [x] tb) (Lambda [p] fb) c1) as [[cv c2]| | |] eqn:Ec; cbn [sbind] in H; try discriminate.
        pose proof (convolute_counter _ _ _ _ _ _ _ Ec) as Hc12.
        destruct (wfq_convolute [x] tb [p] fb c1 Hwt Hwf) as (cv0 & c20 & Ec0 & Hwcv). rewrite Ec in Ec0. inversion Ec0; subst cv0 c20; clear Ec0.
        assert (Pcv : parts st c2 cv) by (eapply parts_convolute; [exact B_args | exact Hst1 | exact Ec | exact Pt1 | apply parts_of_outs; exact Of]).
        destruct (simp f st bd c2 cv) as [[sel c3]| | |] eqn:Es; cbn [sbind] in H; try discriminate.
        inversion H; subst e' c'; clear H.
        assert (Hst2 : stack_ok c2 st) by (eapply stack_ok_mono; [|eassumption]; lia).
        assert (Hph : is_call_handler p = false) by (eapply parts_param_handler; [apply parts_of_outs; exact Of | left; reflexivity]).
        destruct (hs_convolute G x tb p fb c1 cv c2 s0 (seq t) Ec Hsb (out_body_typable G st c1 [p] fb s0 HG Of Hwf Cfb)
                    (parts_below _ _ _ _ Pt1) (outs_below _ _ _ _ Of) Hxh Hph (fun k Hk => ss_fresh G st c1 k HG Hst1 Hk))
          as (a & body & -> & Hbody).
        destruct (IHL _ _ _ _ _ _ _ G (seq t) Es Hst2 (pre_of_parts _ _ _ _ Hwcv Pcv) HG Hbody) as (ps' & b' & -> & Hl' & Cb').
        destruct ps' as [|p' [|? ?]]; try discriminate Hl'.
        apply canon_Many; assumption.
      + (* plain SelectMany *)
        destruct (canon_seq_other _ _ Cp E2 E1) as [-> Hap].
        destruct (simp f st bd c1 (Lambda [x] tb)) as [[sel c2]| | |] eqn:Es; cbn [sbind] in H; try discriminate.
        inversion H; subst e' c'; clear H.
        destruct (IHL _ _ _ _ _ _ _ G (seq t) Es Hst1 (pre_of_parts _ _ _ _ Hwl Pt1) HG Hsb) as (ps' & b' & -> & Hl' & Cb').
        destruct ps' as [|p' [|? ?]]; try discriminate Hl'.
        apply canon_Many; assumption.
  Qed.

  Lemma shape_Where f (IH : IHc f) (IHL : IHl f) st bd c source x tb e' c' G s0 :
    simp (S f) st bd c (function_call "Where" [source; Lambda [x] tb]) = Ok (e', c') ->
    stack_ok c st -> pre st c (function_call "Where" [source; Lambda [x] tb]) -> stack_shapes G st ->
    has_shape G source (seq s0) -> has_shape (upd G [x] [s0]) tb SA -> canon (seq s0) e'.
  Proof.
    intros H Hst Hp HG Hss Hsb.
    pose proof (parts_of_pre _ _ _ _ Hp) as Pe.
    assert (Ps : parts st c source) by (eapply parts_child; [|exact Pe]; cbn; auto).
    assert (Pt : parts st c (Lambda [x] tb)) by (eapply parts_child; [|exact Pe]; cbn; auto).
    destruct (wfq_handler_shape _ "Where" (p_wf _ _ _ _ Hp) eq_refl eq_refl) as (s1 & ps0 & b0 & Heq & Hws & Hdt & Hwt & _).
    inversion Heq; subst s1 ps0 b0; clear Heq.
    unfold function_call in H. cbn [simp] in H.
    change (is_call_handler "Where") with true in H. change (String.eqb "Where" "Select") with false in H.
    change (String.eqb "Where" "SelectMany") with false in H. change (String.eqb "Where" "Where") with true in H.
    cbn [negb is_lambda] in H.
    destruct (simp f st bd c source) as [[parent c1]| | |] eqn:Ev; cbn [sbind] in H; try discriminate.
    pose proof (SSnd f _ _ _ _ _ _ Ev Hst (pre_of_parts _ _ _ _ Hws Ps)) as Qp.
    pose proof (IH _ _ _ _ _ _ _ _ Ev Hst (pre_of_parts _ _ _ _ Hws Ps) HG Hss) as Cp.
    pose proof (outs_of_post _ _ _ _ _ _ _ Qp) as Op. destruct Qp as [Q1 Q2 _ _ _ _].
    assert (Hst1 : stack_ok c1 st) by (eapply stack_ok_mono; eassumption).
    assert (Pt1 : parts st c1 (Lambda [x] tb)) by (eapply parts_mono; eassumption).
    assert (Hwl : wfq (Lambda [x] tb) = true) by (apply wfq_lam_iff; auto).
    assert (Hxh : is_call_handler x = false) by (eapply parts_param_handler; [exact Pt | left; reflexivity]).
    destruct (is_call_of parent "Where") eqn:E1.
    - (* Where of Where *)
      destruct (wfq_handler_shape _ "Where" Q2 E1 eq_refl) as (src & fps & fb & -> & Hwsrc & Hdf & Hwf & _).
      cbn [unpack2 negb is_lambda] in H.
      destruct (canon_seq_other _ _ Cp eq_refl eq_refl) as [-> Hap].
      destruct (atom_op_inv "Where" _ _ _ eq_refl Hap) as (p & -> & Hasrc & Hafb).
      assert (Osrc : outs st c1 src) by (eapply outs_child; [|exact Op]; cbn; auto).
      assert (Of : outs st c1 (Lambda [p] fb)) by (eapply outs_child; [|exact Op]; cbn; auto).
      assert (Hwff : wfq (Lambda [p] fb) = true) by (apply wfq_lam_iff; auto).
      set (a := arg_name c1) in *.
      set (body := BoolOp And [Call (Lambda [p] fb) [Name a] [] []; Call (Lambda [x] tb) [Name a] [] []]) in *.
      assert (Hwa : wfq_all [Name a] = true) by (cbn [forallb]; unfold a; rewrite wfq_arg; reflexivity).
      assert (Hwb : wfq body = true).
      { unfold body.
        change (wfq (Call (Lambda [p] fb) [Name a] [] []) && (wfq (Call (Lambda [x] tb) [Name a] [] []) && true) = true).
        rewrite (wfq_call (Lambda [p] fb) [Name a] [] [] Hwff Hwa eq_refl), (wfq_call (Lambda [x] tb) [Name a] [] [] Hwl Hwa eq_refl). reflexivity. }
      assert (Hwnew : wfq (function_call "Where" [src; Lambda [a] body]) = true).
      { apply wfq_op; [reflexivity | assumption | reflexivity | assumption | intros Hx; discriminate Hx]. }
      assert (Hda : drawn B st (S c1) a) by (exists c1, c1; split; [reflexivity | split; [assumption | lia]]).
      assert (Pnew : parts st (S c1) (function_call "Where" [src; Lambda [a] body])).
      { eapply parts_fc; [exact Hst1 | reflexivity | eapply parts_mono; [|apply parts_of_outs; exact Osrc]; lia|].
        apply parts_lambda; [exact B_args | intros q [<-|[]]; exact Hda|]. unfold body.
        apply parts_and2; (apply parts_call1; [|apply parts_name_drawn; [exact B_args | exact Hda]]).
        - eapply parts_mono; [|apply parts_of_outs; exact Of]. lia.
        - eapply parts_mono; [|exact Pt1]. lia. }
      assert (Hst2 : stack_ok (S c1) st) by (eapply stack_ok_mono; [|exact Hst1]; lia).
      apply (IH _ _ _ _ _ _ G (seq SA) H Hst2 (pre_of_parts _ _ _ _ Hwnew Pnew) HG).
      apply (HS_Where G src a body SA).
      + apply (out_typable G st c1 src SA HG Osrc Hwsrc). constructor. assumption.
      + assert (Ha : has_shape (upd G [a] [SA]) (Name a) SA) by (apply hs_Name; apply upd1).
        apply HS_Gen; [reflexivity|]. cbn [children SAs map]. constructor; [|constructor; [|constructor]].
        * apply HS_Beta with (ss := [SA]); [reflexivity | reflexivity | constructor; [exact Ha | constructor]|].
          eapply hs_ext_all; [exact (out_body_typable G st c1 [p] fb SA HG Of Hwf (CA _ Hafb))|].
          intros z. apply (upd_fresh_same G st c1 c1 z HG Hst1 (le_n _)).
        * apply HS_Beta with (ss := [SA]); [reflexivity | reflexivity | constructor; [exact Ha | constructor]|].
          eapply hs_ext_all; [exact Hsb|]. intros z. apply (upd_fresh_same G st c1 c1 z HG Hst1 (le_n _)).
    - destruct (is_call_of parent "Select") eqn:E2.
      + (* Where of Select *)
        destruct (wfq_handler_shape _ "Select" Q2 E2 eq_refl) as (src & fps & fb & -> & Hwsrc & Hdf & Hwf & _).
        cbn [unpack2 negb is_lambda] in H.
        destruct (canon_seq_Select _ _ _ _ Cp) as (p & -> & Hasrc & Cfb).
        assert (Osrc : outs st c1 src) by (eapply outs_child; [|exact Op]; cbn; auto).
        assert (Of : outs st c1 (Lambda [p] fb)) by (eapply outs_child; [|exact Op]; cbn; auto).
        destruct (convolute (Lambda [x] tb) (Lambda [p] fb) c1) as [[cv c2]| | |] eqn:Ec; cbn [sbind] in H; try discriminate.
        pose proof (convolute_counter _ _ _ _ _ _ _ Ec) as Hc12.
        destruct (wfq_convolute [x] tb [p] fb c1 Hwt Hwf) as (cv0 & c20 & Ec0 & Hwcv). rewrite Ec in Ec0. inversion Ec0; subst cv0 c20; clear Ec0.
        assert (Pcv : parts st c2 cv) by (eapply parts_convolute; [exact B_args | exact Hst1 | exact Ec | exact Pt1 | apply parts_of_outs; exact Of]).
        destruct (simp f st bd c2 cv) as [[w c3]| | |] eqn:Es; cbn [sbind] in H; try discriminate.
        assert (Hst2 : stack_ok c2 st) by (eapply stack_ok_mono; [|eassumption]; lia).
        pose proof (SSnd f _ _ _ _ _ _ Es Hst2 (pre_of_parts _ _ _ _ Hwcv Pcv)) as Qs.
        pose proof (outs_of_post _ _ _ _ _ _ _ Qs) as Os. destruct Qs as [S1 S2 _ _ _ _].
        assert (Hph : is_call_handler p = false) by (eapply parts_param_handler; [apply parts_of_outs; exact Of | left; reflexivity]).
        destruct (hs_convolute G x tb p fb c1 cv c2 s0 SA Ec Hsb (out_body_typable G st c1 [p] fb s0 HG Of Hwf Cfb)
                    (parts_below _ _ _ _ Pt1) (outs_below _ _ _ _ Of) Hxh Hph (fun k Hk => ss_fresh G st c1 k HG Hst1 Hk))
          as (a & body & -> & Hbody).
        destruct (IHL _ _ _ _ _ _ _ G SA Es Hst2 (pre_of_parts _ _ _ _ Hwcv Pcv) HG Hbody) as (wps & wb & -> & Hl' & Cwb).
        destruct wps as [|wp [|? ?]]; try discriminate Hl'.
        assert (Hwwb : wfq wb = true) by (apply wfq_lam_iff in S2; tauto).
        set (new2 := make_Select (function_call "Where" [src; Lambda [wp] wb]) (Lambda [p] fb)) in *.
        assert (Hwnew : wfq new2 = true).
        { eapply wfq_make_Select; [reflexivity | | assumption | assumption].
          apply wfq_op; [reflexivity | assumption | reflexivity | assumption | intros Hx; discriminate Hx]. }
        assert (Hst3 : stack_ok c3 st) by (eapply stack_ok_mono; [|exact Hst2]; lia).
        assert (Pnew : parts st c3 new2).
        { eapply parts_make_Select; [exact Hst3 | | eapply parts_mono; [|apply parts_of_outs; exact Of]; lia].
          eapply parts_fc; [exact Hst3 | reflexivity | eapply parts_mono; [|apply parts_of_outs; exact Osrc]; lia | apply parts_of_outs; exact Os]. }
        apply (IH _ _ _ _ _ _ G (seq s0) H Hst3 (pre_of_parts _ _ _ _ Hwnew Pnew) HG).
        unfold new2. apply hs_make_Select with (s0 := SA).
        * apply (HS_Where G src wp wb SA).
          -- apply (out_typable G st c1 src SA HG Osrc Hwsrc). constructor. assumption.
          -- exact (out_body_typable G st c3 [wp] wb SA HG Os Hwwb Cwb).
        * exact (out_body_typable G st c1 [p] fb s0 HG Of Hwf Cfb).
      + destruct (is_call_of parent "SelectMany") eqn:E3.
        * (* Where of SelectMany *)
          destruct (wfq_handler_shape _ "SelectMany" Q2 E3 eq_refl) as (src & fps & fb & -> & Hwsrc & Hdf & Hwf & Hne).
          cbn [unpack2] in H.
          destruct (canon_seq_Many _ _ _ _ Cp) as (p & -> & Hasrc & Cfb).
          assert (Osrc : outs st c1 src) by (eapply outs_child; [|exact Op]; cbn; auto).
          assert (Of : outs st c1 (Lambda [p] fb)) by (eapply outs_child; [|exact Op]; cbn; auto).
          pose proof (parts_mau B B_args st c1 [p] fb Hst1 (parts_of_outs _ _ _ _ Of)) as Pm.
          pose proof (mau_eq [p] fb c1) as Em. cbn [length fresh_names] in Em. rewrite Em in H, Pm. cbn [fst length] in Pm.
          set (p' := arg_name c1) in *. set (fb' := rename (rev (combine [p] [p'])) fb) in *.
          destruct (mau_drawn B st c1 [p] fb [p'] fb' _ Hst1 Em) as (_ & Hlf & Hdf' & Hdr).
          set (c2 := c1 + 1) in *.
          assert (Hwnew : wfq (function_call "SelectMany" [src; Lambda [p'] (function_call "Where" [fb'; Lambda [x] tb])]) = true).
          { apply wfq_op; [reflexivity | assumption | reflexivity | | intros _; discriminate].
            apply wfq_op; [reflexivity | apply wfq_rename; [apply (ren_ok_fresh [p] 1 c1) | assumption] | assumption | assumption | intros Hx; discriminate Hx]. }
          assert (Pnew : parts st c2 (function_call "SelectMany" [src; Lambda [p'] (function_call "Where" [fb'; Lambda [x] tb])])).
          { eapply parts_fc; [exact Hst1 | reflexivity | eapply parts_mono; [|apply parts_of_outs; exact Osrc]; unfold c2; lia|].
            apply parts_lambda; [exact B_args | exact Hdr|]. eapply parts_fc; [exact Hst1 | reflexivity | eapply parts_lambda_inv; exact Pm|].
            eapply parts_mono; [|exact Pt1]. unfold c2; lia. }
          assert (Hst2 : stack_ok c2 st) by (eapply stack_ok_mono; [|exact Hst1]; unfold c2; lia).
          assert (Hph : is_call_handler p = false) by (eapply parts_param_handler; [apply parts_of_outs; exact Of | left; reflexivity]).
          apply (IH _ _ _ _ _ _ G (seq s0) H Hst2 (pre_of_parts _ _ _ _ Hwnew Pnew) HG).
          apply (HS_Many G src p' (function_call "Where" [fb'; Lambda [x] tb]) SA s0).
          -- apply (out_typable G st c1 src SA HG Osrc Hwsrc). constructor. assumption.
          -- apply (HS_Where _ fb' x tb s0).
             ++ apply (hs_mau G [p] [SA] fb (seq s0) c1 (out_body_typable G st c1 [p] fb _ HG Of Hwf Cfb) eq_refl (outs_below _ _ _ _ Of)).
                intros q [<-|[]]. assumption.
             ++ eapply hs_ext_all; [exact Hsb|]. intros z. apply (upd_fresh_same G st c1 c1 z HG Hst1 (le_n _)).
        * (* plain Where *)
          destruct (canon_seq_other _ _ Cp E2 E3) as [-> Hap].
          destruct (simp f st bd c1 (Lambda [x] tb)) as [[f' c2]| | |] eqn:Es; cbn [sbind] in H; try discriminate.
          destruct (IHL _ _ _ _ _ _ _ G SA Es Hst1 (pre_of_parts _ _ _ _ Hwl Pt1) HG Hsb) as (ps' & b' & -> & Hl' & Cb').
          destruct ps' as [|p' [|? ?]]; try discriminate Hl'.
          destruct (lambda_is_true (Lambda [p'] b')); inversion H; subst e' c'; clear H.
          -- constructor. assumption.
          -- constructor. apply atom_op; [assumption | apply canon_SA_inv; assumption].
  Qed.

  (* ---- the whole algorithm ---- *)
  Theorem shape_all : forall f, IHc f.
  Proof.
    intros f. induction f as [f IHf] using lt_wf_ind.
    destruct f as [|f]; [intros st bd c e e' c' G s H; discriminate H|].
    assert (IH : IHc f) by (apply IHf; lia).
    assert (IHL : IHl f).
    { destruct f as [|f0]; [intros st bd c ps b e' c' G t H; discriminate H | apply lam_visit; apply IHf; lia]. }
    intros st bd c e e' c' G s H Hst Hp HG Hs.
    destruct Hs as [G x|G es ss Hes|G es ss Hes|G kss vs Hk Hvs|G e s ss z t He Hi Hpy|G e k kss t He Hk Hin|G e a kss t He Hin
                   |G ps b args ss s Hl Hstar Hargs Hb|G src x b s0 t Hsrc Hb|G src x b s0 Hsrc Hb|G src x b s0 t Hsrc Hb|G ps b Hb|G e Hg Hcs].
    - eapply shape_Name; [exact H | exact HG | constructor].
    - exact (shape_seq f IH st bd c true es e' c' G ss H Hst Hp HG Hes).
    - exact (shape_seq f IH st bd c false es e' c' G ss H Hst Hp HG Hes).
    - exact (shape_Dict f IH st bd c kss vs e' c' G H Hst Hp HG Hk Hvs).
    - apply (shape_Subscript f IH st bd c e s e' c' G t H Hst Hp HG). right. left. eauto.
    - apply (shape_Subscript f IH st bd c e (Const k) e' c' G t H Hst Hp HG). right. right. eauto 6.
    - apply (shape_Attr f IH st bd c e a e' c' G t H Hst Hp HG). right. eauto.
    - (* called lambda, positional *)
      assert (Hd : has_dup ps = false).
      { destruct (wfq_call_parts (Lambda ps b) args [] [] ltac:(intros n; discriminate) (p_wf _ _ _ _ Hp)) as (Hwl & _ & _).
        apply wfq_lam_iff in Hwl. tauto. }
      cbn [simp] in H. rewrite Hstar, (bind_positional ps args [] Hd Hl) in H.
      exact (shape_beta f IH st bd c ps b args [] [] args e' c' G ss s (bind_positional ps args [] Hd Hl) H Hst Hp HG Hargs Hb).
    - exact (shape_Select f IH IHL st bd c src x b e' c' G s0 t H Hst Hp HG Hsrc Hb).
    - exact (shape_Where f IH IHL st bd c src x b e' c' G s0 H Hst Hp HG Hsrc Hb).
    - exact (shape_SelectMany f IH IHL st bd c src x b e' c' G s0 t H Hst Hp HG Hsrc Hb).
    - exact (shape_Lambda (S f) (lam_visit f IH) st bd c ps b e' c' G H Hst Hp HG Hb).
    - (* atoms built from atoms *)
      pose proof (has_shapes_SAs_inv _ _ Hcs) as Hch.
      destruct e; try discriminate Hg.
      + apply (shape_generic f IH st bd c (Const c0) e' c' G); try assumption; reflexivity.
      + apply (shape_Attr f IH st bd c e a e' c' G SA H Hst Hp HG). left. split; [apply Hch; left; reflexivity | reflexivity].
      + (* Call *)
        destruct e.
        * (* Name *)
          cbn [gen_node] in Hg. apply negb_true_iff in Hg. cbn [simp] in H. rewrite Hg in H.
          apply (shape_call_generic f IH st bd c (Name id) args kwn kwv e' c' G); try assumption; [|cbn [gen_node]; rewrite Hg; reflexivity].
          intros fn Hfn. inversion Hfn; subst. assumption.
        * apply (shape_call_generic f IH st bd c (Const c0) args kwn kwv e' c' G); try assumption; intros; discriminate.
        * rewrite simp_call_attr_generic in H by (apply (p_nf _ _ _ _ Hp)).
          apply (shape_call_generic f IH st bd c (Attr e a) args kwn kwv e' c' G); try assumption; intros; discriminate.
        * apply (shape_call_generic f IH st bd c (Call e args0 kwn0 kwv0) args kwn kwv e' c' G); try assumption; intros; discriminate.
        * (* Lambda *)
          cbn [simp] in H. destruct (existsb is_starred args) eqn:Estar;
            [apply (shape_call_generic f IH st bd c (Lambda ps e) args kwn kwv e' c' G); try assumption; intros; discriminate|].
          destruct (bind_lambda_call ps args kwn kwv) as [given|] eqn:Eb.
          -- apply (shape_beta f IH st bd c ps e args kwn kwv given e' c' G (SAs given) SA Eb H Hst Hp HG).
             ++ apply has_shapes_SAs. intros g Hin. apply Hch. cbn [children]. right. eapply bind_lambda_call_incl; eassumption.
             ++ rewrite (SAs_len_eq given ps) by (eapply bind_lambda_call_length; eassumption).
                apply (hs_Lam_inv G ps e SA). apply Hch. left. reflexivity.
          -- apply (shape_call_generic f IH st bd c (Lambda ps e) args kwn kwv e' c' G); try assumption; intros; discriminate.
        * apply (shape_call_generic f IH st bd c (UnaryOp o e) args kwn kwv e' c' G); try assumption; intros; discriminate.
        * apply (shape_call_generic f IH st bd c (BinOp o e1 e2) args kwn kwv e' c' G); try assumption; intros; discriminate.
        * apply (shape_call_generic f IH st bd c (BoolOp o es) args kwn kwv e' c' G); try assumption; intros; discriminate.
        * apply (shape_call_generic f IH st bd c (Compare e ops rs) args kwn kwv e' c' G); try assumption; intros; discriminate.
        * apply (shape_call_generic f IH st bd c (IfExp e1 e2 e3) args kwn kwv e' c' G); try assumption; intros; discriminate.
        * apply (shape_call_generic f IH st bd c (Tuple es) args kwn kwv e' c' G); try assumption; intros; discriminate.
        * apply (shape_call_generic f IH st bd c (List es) args kwn kwv e' c' G); try assumption; intros; discriminate.
        * apply (shape_call_generic f IH st bd c (Dict ks vs) args kwn kwv e' c' G); try assumption; intros; discriminate.
        * apply (shape_call_generic f IH st bd c (Subscript e1 e2) args kwn kwv e' c' G); try assumption; intros; discriminate.
        * apply (shape_call_generic f IH st bd c (ListComp e gs) args kwn kwv e' c' G); try assumption; intros; discriminate.
        * apply (shape_call_generic f IH st bd c (GenExp e gs) args kwn kwv e' c' G); try assumption; intros; discriminate.
        * apply (shape_call_generic f IH st bd c (CompFor e1 e2 ifs is_async) args kwn kwv e' c' G); try assumption; intros; discriminate.
        * apply (shape_call_generic f IH st bd c (Raw c0) args kwn kwv e' c' G); try assumption; intros; discriminate.
        * apply (shape_call_generic f IH st bd c (Other cls atoms cs) args kwn kwv e' c' G); try assumption; intros; discriminate.
      + apply (shape_generic f IH st bd c (UnaryOp o e) e' c' G); try assumption; try reflexivity.
        rewrite <- (simple_children (UnaryOp o e) eq_refl). apply Hp.
      + apply (shape_generic f IH st bd c (BinOp o e1 e2) e' c' G); try assumption; try reflexivity.
        rewrite <- (simple_children (BinOp o e1 e2) eq_refl). apply Hp.
      + apply (shape_generic f IH st bd c (BoolOp o es) e' c' G); try assumption; try reflexivity.
        rewrite <- (simple_children (BoolOp o es) eq_refl). apply Hp.
      + apply (shape_generic f IH st bd c (Compare e ops rs) e' c' G); try assumption; try reflexivity.
        rewrite <- (simple_children (Compare e ops rs) eq_refl). apply Hp.
      + apply (shape_generic f IH st bd c (IfExp e1 e2 e3) e' c' G); try assumption; try reflexivity.
        rewrite <- (simple_children (IfExp e1 e2 e3) eq_refl). apply Hp.
      + apply (shape_Subscript f IH st bd c e1 e2 e' c' G SA H Hst Hp HG). left.
        split; [apply Hch; left; reflexivity | split; [apply Hch; right; left; reflexivity | reflexivity]].
      + apply (shape_generic f IH st bd c (Other cls atoms cs) e' c' G); try assumption; try reflexivity.
        rewrite <- (simple_children (Other cls atoms cs) eq_refl). apply Hp.
  Qed.
End Shape.

(* ------------------------------------------------------------------ the theorems *)
(* [stack_shapes], [IHc] restated outside the section *)
Theorem shape_sound (B : backend) : backend_ok B ->
  forall f st bd c e e' c' G s,
    simp f st bd c e = Ok (e', c') -> stack_ok B c st -> pre B st c e -> stack_shapes G st -> has_shape G e s ->
    canon s e'.
Proof. intros (H1 & H2 & H3). exact (shape_all B H1 H2 H3). Qed.

Lemma canon_nopkg_SA e : canon SA e -> nopkg e = true.
Proof. intros H. apply atom_nopkg. apply canon_SA_inv. assumption. Qed.

(* C14 for the entry point: a query typable at [s] (no name has a package shape at the top level) is
   simplified to a canonical term for [s]: packages survive only as the final result *)
Theorem packaging_eliminated (B : backend) : backend_ok B ->
  forall f c q q' c' s,
    wfq q = true -> below c q -> bok B q -> mentions "First" q = false ->
    has_shape (fun _ => SA) q s -> simplify f c q = Ok (q', c') -> canon s q'.
Proof.
  intros HB f c q q' c' s Hw Hb Hk Hf Hs H. unfold simplify in H.
  assert (Hst : stack_ok B c [[]]) by (intros x d Hx; discriminate Hx).
  assert (Hp : pre B [[]] c q) by (constructor; try assumption; intros y Hy; discriminate Hy).
  apply (shape_sound B HB f _ _ _ _ _ _ (fun _ => SA) s H Hst Hp); [|assumption].
  intros x. reflexivity.
Qed.

Corollary packaging_eliminated_atom (B : backend) : backend_ok B ->
  forall f c q q' c',
    wfq q = true -> below c q -> bok B q -> mentions "First" q = false ->
    has_shape (fun _ => SA) q SA -> simplify f c q = Ok (q', c') -> nopkg q' = true.
Proof. intros HB f c q q' c' Hw Hb Hk Hf Hs H. apply canon_nopkg_SA. eapply packaging_eliminated; eassumption. Qed.

(* the backend only matters through the names it reserves; with a backend that defines no function the
   side condition [bok] says: no lambda parameter is called Select, Where, SelectMany, First, Count, ... *)
Corollary packaging_eliminated_plain : forall f c q q' c' s,
  wfq q = true -> below c q -> bok SoundExample.B0 q -> mentions "First" q = false ->
  has_shape (fun _ => SA) q s -> simplify f c q = Ok (q', c') -> canon s q'.
Proof. exact (packaging_eliminated SoundExample.B0 SoundExample.B0_ok). Qed.

(* ------------------------------------------------------------------ non-vacuity *)
(* a chain mixing nested tuple and dictionary packaging, a Where in the middle, a SelectMany whose
   lambda holds a nested Select that refers to another packaged field, and a last stage that takes
   the remaining tuples apart (with a negative literal index) *)
Module ShapeExample.
  Import SoundExample.

  Definition sel (s : expr) (x : string) (b : expr) := function_call "Select" [s; Lambda [x] b].
  Definition whr (s : expr) (x : string) (b : expr) := function_call "Where" [s; Lambda [x] b].
  Definition many (s : expr) (x : string) (b : expr) := function_call "SelectMany" [s; Lambda [x] b].
  Definition idx (e : expr) (n : Z) := Subscript e (Const (CInt n)).

  Definition G0 : string -> shape := fun _ => SA.
  Definition kss : list (const * shape) := [(CStr "j", SA); (CStr "m", ST [SA; SA])].

  (* Select(ds, lambda e: {'j': e.jets, 'm': (e.met, e.run)}) *)
  Definition stage1 : expr :=
    sel (Name "ds") "e" (Dict [Const (CStr "j"); Const (CStr "m")]
                              [Attr (Name "e") "jets"; Tuple [Attr (Name "e") "met"; Attr (Name "e") "run"]]).
  (* Where(.., lambda d: d.m[0] > 10) *)
  Definition stage2 : expr := whr stage1 "d" (Compare (idx (Attr (Name "d") "m") 0) [CGt] [Const (CInt 10)]).
  (* SelectMany(.., lambda d: Select(d.j, lambda j: (j.pt, d.m[1]))) *)
  Definition stage3 : expr :=
    many stage2 "d" (sel (Attr (Name "d") "j") "j" (Tuple [Attr (Name "j") "pt"; idx (Attr (Name "d") "m") 1])).
  (* Select(.., lambda p: p[0] + p[-1]) *)
  Definition stage4 : expr :=
    sel stage3 "p" (BinOp BAdd (idx (Name "p") 0) (Subscript (Name "p") (UnaryOp USub (Const (CInt 1))))).

  Lemma ex_name G x : G x = SA -> has_shape G (Name x) SA.
  Proof. apply hs_Name. Qed.

  Lemma ex_attr G x a : G x = SA -> has_shape G (Attr (Name x) a) SA.
  Proof. intros H. apply HS_Gen; [reflexivity|]. cbn [children SAs map]. constructor; [apply hs_Name; assumption | constructor]. Qed.

  Lemma kss_ok : keys_ok (map fst kss).
  Proof.
    split; [|reflexivity]. cbn [map fst kss]. constructor; [|constructor; [|constructor]].
    - intros [H|[]]. discriminate H.
    - intros [].
  Qed.

  Example stage1_shape : has_shape G0 stage1 (SS (SD kss)).
  Proof.
    apply (HS_Select G0 (Name "ds") "e" _ SA (SD kss)); [apply ex_name; reflexivity|].
    apply (HS_Dict _ kss); [exact kss_ok|]. cbn [map snd kss].
    constructor; [apply ex_attr; reflexivity|]. constructor; [|constructor].
    apply HS_Tuple. constructor; [apply ex_attr; reflexivity|]. constructor; [apply ex_attr; reflexivity | constructor].
  Qed.

  Lemma d_m G : G "d" = SD kss -> has_shape G (Attr (Name "d") "m") (ST [SA; SA]).
  Proof. intros H. apply (HS_AttrD G (Name "d") "m" kss); [apply hs_Name; assumption | right; left; reflexivity]. Qed.

  Example stage2_shape : has_shape G0 stage2 (SS (SD kss)).
  Proof.
    apply (HS_Where G0 stage1 "d" _ (SD kss)); [exact stage1_shape|].
    apply HS_Gen; [reflexivity|]. cbn [children SAs map]. constructor; [|constructor; [|constructor]].
    - apply (HS_SubT _ _ _ [SA; SA] 0%Z SA); [apply d_m; reflexivity | reflexivity | reflexivity].
    - apply HS_Gen; [reflexivity | constructor].
  Qed.

  Example stage3_shape : has_shape G0 stage3 (SS (ST [SA; SA])).
  Proof.
    apply (HS_Many G0 stage2 "d" _ (SD kss) (ST [SA; SA])); [exact stage2_shape|].
    apply (HS_Select _ (Attr (Name "d") "j") "j" _ SA (ST [SA; SA])).
    - apply (HS_AttrD _ (Name "d") "j" kss); [apply hs_Name; reflexivity | left; reflexivity].
    - apply HS_Tuple. constructor; [apply ex_attr; reflexivity|]. constructor; [|constructor].
      apply (HS_SubT _ _ _ [SA; SA] 1%Z SA); [apply d_m; reflexivity | reflexivity | reflexivity].
  Qed.

  Example stage4_shape : has_shape G0 stage4 SA.
  Proof.
    apply (HS_Select G0 stage3 "p" _ (ST [SA; SA]) SA); [exact stage3_shape|].
    apply HS_Gen; [reflexivity|]. cbn [children SAs map]. constructor; [|constructor; [|constructor]].
    - apply (HS_SubT _ _ _ [SA; SA] 0%Z SA); [apply hs_Name; reflexivity | reflexivity | reflexivity].
    - apply (HS_SubT _ _ _ [SA; SA] (-1)%Z SA); [apply hs_Name; reflexivity | reflexivity | reflexivity].
  Qed.

  Example stage4_wf : wfq stage4 = true. Proof. vm_compute. reflexivity. Qed.
  Example stage4_nf : mentions "First" stage4 = false. Proof. vm_compute. reflexivity. Qed.
  Example stage4_below : below 0 stage4.
  Proof. intros n _. destruct (RulesExamples.arg_name_head n) as [s Hs]. rewrite Hs. reflexivity. Qed.
  Example stage4_bok : bok B0 stage4.
  Proof.
    intros y Hy. cbv [stage4 stage3 stage2 stage1 sel whr many idx function_call] in Hy. simpl in Hy. rewrite ?orb_false_r in Hy.
    repeat (apply orb_true_iff in Hy; destruct Hy as [Hy|Hy]); apply String.eqb_eq in Hy; subst y; split; reflexivity.
  Qed.
  Example stage3_wf : wfq stage3 = true. Proof. vm_compute. reflexivity. Qed.
  Example stage3_nf : mentions "First" stage3 = false. Proof. vm_compute. reflexivity. Qed.
  Example stage3_below : below 0 stage3.
  Proof. intros n _. destruct (RulesExamples.arg_name_head n) as [s Hs]. rewrite Hs. reflexivity. Qed.
  Example stage3_bok : bok B0 stage3.
  Proof.
    intros y Hy. cbv [stage3 stage2 stage1 sel whr many idx function_call] in Hy. simpl in Hy. rewrite ?orb_false_r in Hy.
    repeat (apply orb_true_iff in Hy; destruct Hy as [Hy|Hy]); apply String.eqb_eq in Hy; subst y; split; reflexivity.
  Qed.

  (* the simplifier terminates with fuel 200 on both; the theorem (not a computation) gives the shape *)
  Example stage4_compiled_away :
    exists q' c', simplify 200 0 stage4 = Ok (q', c') /\ nopkg q' = true /\ nopkg stage4 = false.
  Proof.
    destruct (simplify 200 0 stage4) as [[q' c']| | |] eqn:E; try (vm_compute in E; discriminate E).
    exists q', c'. split; [reflexivity|]. split; [|reflexivity].
    exact (packaging_eliminated_atom B0 B0_ok 200 0 stage4 q' c' stage4_wf stage4_below stage4_bok stage4_nf stage4_shape E).
  Qed.

  (* the packages of the last stage are the final result: one Select / SelectMany whose body is the tuple *)
  Example stage3_result_only :
    exists q' c', simplify 200 0 stage3 = Ok (q', c') /\ canon (SS (ST [SA; SA])) q'.
  Proof.
    destruct (simplify 200 0 stage3) as [[q' c']| | |] eqn:E; try (vm_compute in E; discriminate E).
    exists q', c'. split; [reflexivity|].
    exact (packaging_eliminated B0 B0_ok 200 0 stage3 q' c' _ stage3_wf stage3_below stage3_bok stage3_nf stage3_shape E).
  Qed.

  (* what comes out, computed *)
  Example stage4_output :
    simplify 200 0 stage4 =
    Ok (many (whr (Name "ds") "arg_2" (Compare (Attr (Name "arg_2") "met") [CGt] [Const (CInt 10)]))
             "arg_10" (sel (Attr (Name "arg_10") "jets") "arg_13"
                           (BinOp BAdd (Attr (Name "arg_13") "pt") (Attr (Name "arg_10") "run"))), 16).
  Proof. vm_compute. reflexivity. Qed.
  (* why the operator rules ask for one-parameter lambdas:
     Select(Select(ds, lambda e: (e.a, e.b)), lambda x, y: x[0]) keeps the tuple as the argument of a call,
     with lambda x: x[0] it is compiled away *)
  Definition two_par : expr :=
    sel (sel (Name "ds") "e" (Tuple [Attr (Name "e") "a"; Attr (Name "e") "b"])) "x" (idx (Name "x") 0).
  Definition two_par' : expr :=
    function_call "Select" [sel (Name "ds") "e" (Tuple [Attr (Name "e") "a"; Attr (Name "e") "b"]); Lambda ["x"; "y"] (idx (Name "x") 0)].
  Example two_parameter_lambda_keeps_package :
    wfq two_par' = true /\
    (exists q' c', simplify 100 0 two_par' = Ok (q', c') /\ nopkg q' = false) /\
    (exists q' c', simplify 100 0 two_par = Ok (q', c') /\ nopkg q' = true).
  Proof.
    split; [reflexivity|]. split.
    - eexists; eexists. split; [vm_compute; reflexivity|]. vm_compute. reflexivity.
    - eexists; eexists. split; [vm_compute; reflexivity|]. vm_compute. reflexivity.
  Qed.
  (* a called lambda with a starred argument is left as a call (Python's binding refuses *xs):
     Select(ds, lambda x: (lambda a: a)( *(x,) )) *)
  Definition starred_call : expr :=
    sel (Name "ds") "x" (Call (Lambda ["a"] (Name "a")) [Other "Starred;value=n" [] [Tuple [Name "x"]]] [] []).
  Example starred_called_lambda_is_left_as_a_call :
    wfq starred_call = true /\
    simplify 100 0 starred_call = Ok (starred_call, 0) /\
    (exists q' c', simplify 100 0 starred_call = Ok (q', c') /\ wfq q' = true /\ nopkg q' = false).
  Proof.
    split; [reflexivity|]. split; [vm_compute; reflexivity|].
    eexists; eexists. split; [vm_compute; reflexivity|]. split; vm_compute; reflexivity.
  Qed.
  (* a literal with a starred element has no fixed positions and is left alone *)
  Definition starred_literal : expr :=
    Subscript (Tuple [Other "Starred;value=n" [] [Name "a"]; Name "b"]) (Const (CInt 0)).
  Example starred_literal_is_not_projected :
    wfq starred_literal = true /\ simplify 100 0 starred_literal = Ok (starred_literal, 0).
  Proof. split; [reflexivity | vm_compute; reflexivity]. Qed.

  (* why starred nodes are not typed as atoms: (Select( *x, lambda y: y), b)[0] has no starred element, but
     the identity Select is dropped, the element becomes *x and the projection stays *)
  Definition starred_source : expr :=
    Subscript (Tuple [sel (Other "Starred;value=n" [] [Name "x"]) "y" (Name "y"); Name "b"]) (Const (CInt 0)).
  Example starred_source_defeats_projection :
    wfq starred_source = true /\
    simplify 100 0 starred_source =
      Ok (Subscript (Tuple [Other "Starred;value=n" [] [Name "x"]; Name "b"]) (Const (CInt 0)), 0).
  Proof. split; [reflexivity | vm_compute; reflexivity]. Qed.
End ShapeExample.

Print Assumptions shape_sound.
Print Assumptions packaging_eliminated.
Print Assumptions packaging_eliminated_atom.

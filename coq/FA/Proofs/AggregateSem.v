(* C19, semantic half: the emitted folds compute len / sum / max-with-0 / min-with-0, and the whole
   pass preserves the meaning of every query that evaluates, for every backend and environment. *)
From FA.Base Require Import PyAst Induct Value Eval Traverse.
From FA.Gen Require Import Tables.
From FA.Model Require Import Aggregate.
From FA.Proofs Require Import TraverseFacts Refine EvalCong AggregateProofs.
From Coq Require Import Lia.

Section Sem.
  Variable B : backend.
  Variable ops : list string.
  Notation ev := (eval B ops).

  (* the four fold bodies, evaluated with [acc], [v] bound innermost *)
  Definition step_of (fn : string) (E : env) (acc v : value) : option value :=
    match fold_lambda fn with
    | Lambda [x; y] b => ev ((y, v) :: (x, acc) :: E) b
    | _ => None
    end.

  Lemma view_fold_lambda fn E :
    av_f2 (view B ops E (fold_lambda fn)) = Some (step_of fn E).
  Proof.
    unfold step_of, fold_lambda, acc_v.
    destruct (String.eqb fn "len" || String.eqb fn "Count");
      [|destruct (String.eqb fn "Sum"); [|destruct (String.eqb fn "Max")]]; reflexivity.
  Qed.

  Lemma count_fold E l : forall z,
    ofold (step_of "len" E) l (VInt z) = Some (VInt (z + Z.of_nat (length l))).
  Proof.
    induction l as [|x xs IH]; intros z.
    - simpl. f_equal. f_equal. lia.
    - cbn [ofold]. unfold step_of at 1. cbn. rewrite IH. f_equal. f_equal. lia.
  Qed.

  Lemma sum_fold E l : forall z r,
    ofold (fun acc v => obind (as_int v) (fun w => Some (acc + w)%Z)) l z = Some r ->
    ofold (step_of "Sum" E) l (VInt z) = Some (VInt r).
  Proof.
    induction l as [|x xs IH]; intros z r H.
    - inversion H; reflexivity.
    - cbn [ofold] in *. apply obind_some in H. destruct H as [z' [Hz H]].
      apply obind_some in Hz. destruct Hz as [w [Hw Hz]]. inversion Hz; subst.
      unfold step_of at 1. cbn.
      destruct x; try discriminate; cbn in *; inversion Hw; subst; apply IH; assumption.
  Qed.

  Lemma max_fold E l : forall z zs,
    strict_ints l = Some zs ->
    ofold (step_of "Max" E) l (VInt z) = Some (VInt (fold_left Z.max zs z)).
  Proof.
    induction l as [|x xs IH]; intros z zs H.
    - inversion H; reflexivity.
    - unfold strict_ints in H. apply omap_cons_some in H. destruct H as (w & zs' & Hw & Hzs & ->).
      destruct x; try discriminate. inversion Hw; subst.
      cbn [ofold]. unfold step_of at 1. cbn.
      destruct (z >? w)%Z eqn:Hc; cbn.
      + rewrite (IH _ _ Hzs). f_equal. f_equal. f_equal. lia.
      + rewrite (IH _ _ Hzs). f_equal. f_equal. f_equal. lia.
  Qed.

  Lemma min_fold E l : forall z zs,
    strict_ints l = Some zs ->
    ofold (step_of "Min" E) l (VInt z) = Some (VInt (fold_left Z.min zs z)).
  Proof.
    induction l as [|x xs IH]; intros z zs H.
    - inversion H; reflexivity.
    - unfold strict_ints in H. apply omap_cons_some in H. destruct H as (w & zs' & Hw & Hzs & ->).
      destruct x; try discriminate. inversion Hw; subst.
      cbn [ofold]. unfold step_of at 1. cbn.
      destruct (z <? w)%Z eqn:Hc; cbn.
      + rewrite (IH _ _ Hzs). f_equal. f_equal. f_equal. lia.
      + rewrite (IH _ _ Hzs). f_equal. f_equal. f_equal. lia.
  Qed.

  (* a shortcut call and its fold agree on every sequence *)
  Lemma shortcut_fold fn (recv : option value) E :
    is_shortcut_name fn = true ->
    refines (apply_op B fn recv [])
            (apply_op B "Aggregate" recv [view B ops E (Const (CInt 0)); view B ops E (fold_lambda fn)]).
  Proof.
    intros Hn v Hv.
    unfold apply_op at 1. cbn [String.eqb].
    assert (Hagg : forall s l, as_list s = Some l ->
              forall r, ofold (step_of fn E) l (VInt 0) = Some r ->
              apply_op B "Aggregate" (Some s) [view B ops E (Const (CInt 0)); view B ops E (fold_lambda fn)] = Some r).
    { intros s l Hs r Hr. unfold apply_op. cbn [String.eqb Ascii.eqb Bool.eqb andb orb].
      cbn [obind]. rewrite Hs. cbn [obind view mk_view av_val eval const_value].
      rewrite view_fold_lambda. cbn [obind]. exact Hr. }
    unfold is_shortcut_name, shortcut_names in Hn. cbn [existsb] in Hn.
    unfold apply_op in Hv.
    destruct (String.eqb fn "len") eqn:E1.
    { apply String.eqb_eq in E1; subst fn. cbn in Hv.
      apply obind_some in Hv. destruct Hv as [s [-> Hv]].
      apply obind_some in Hv. destruct Hv as [l [Hl Hv]]. inversion Hv; subst.
      eapply Hagg; [eassumption|]. rewrite count_fold. reflexivity. }
    destruct (String.eqb fn "Count") eqn:E2.
    { apply String.eqb_eq in E2; subst fn. cbn in Hv.
      apply obind_some in Hv. destruct Hv as [s [-> Hv]].
      apply obind_some in Hv. destruct Hv as [l [Hl Hv]]. inversion Hv; subst.
      eapply Hagg; [eassumption|].
      change (step_of "Count" E) with (step_of "len" E). rewrite count_fold. reflexivity. }
    destruct (String.eqb fn "Sum") eqn:E3.
    { apply String.eqb_eq in E3; subst fn. cbn in Hv.
      apply obind_some in Hv. destruct Hv as [s [-> Hv]].
      apply obind_some in Hv. destruct Hv as [l [Hl Hv]].
      unfold sum_ints in Hv. destruct (ofold _ l 0%Z) eqn:Hs; [|discriminate]. inversion Hv; subst.
      eapply Hagg; [eassumption|]. apply sum_fold. assumption. }
    destruct (String.eqb fn "Max") eqn:E4.
    { apply String.eqb_eq in E4; subst fn. cbn in Hv.
      apply obind_some in Hv. destruct Hv as [s [-> Hv]].
      apply obind_some in Hv. destruct Hv as [l [Hl Hv]].
      unfold max0 in Hv. destruct (strict_ints l) eqn:Hs; [|discriminate]. inversion Hv; subst.
      eapply Hagg; [eassumption|]. apply max_fold. assumption. }
    destruct (String.eqb fn "Min") eqn:E5.
    { apply String.eqb_eq in E5; subst fn. cbn in Hv.
      apply obind_some in Hv. destruct Hv as [s [-> Hv]].
      apply obind_some in Hv. destruct Hv as [l [Hl Hv]].
      unfold min0 in Hv. destruct (strict_ints l) eqn:Hs; [|discriminate]. inversion Hv; subst.
      eapply Hagg; [eassumption|]. apply min_fold. assumption. }
    discriminate.
  Qed.

  Lemma agg_generic e : is_call e = false -> agg e = map_children agg e.
  Proof.
    intros H. apply agg_step_other. destruct e; try reflexivity; discriminate.
  Qed.

  Theorem agg_sem : forall e e', agg e = Some e' -> forall E, refines (ev E e) (ev E e').
  Proof.
    intros e. apply (pass_refines B ops agg agg_generic). clear e.
    intros e Hc IH.
    destruct (is_shortcut_call e) eqn:Hs.
    - destruct e; try discriminate. destruct e; try discriminate.
      destruct args as [|a [|b args]]; try discriminate.
      destruct kwn; try discriminate. simpl in Hs.
      intros e' He E. rewrite agg_step, Hs in He.
      apply obind_some in He. destruct He as [a' [Ha He]]. inversion He; subst; clear He.
      cbn [eval fold_call map].
      eapply refines_trans; [apply shortcut_fold; assumption|].
      apply apply_op_refines.
      + apply IH; [|assumption]. rewrite (size_sizes (Call _ _ _ _)). cbn [children sizes]. simpl. lia.
      + repeat constructor; try apply refines_refl; intros f Hf; eexists; split; try eassumption;
          intros ? ; try intros ?; apply refines_refl.
    - apply node_congruence; [apply agg_generic | assumption | apply agg_step_other; assumption].
  Qed.

End Sem.

(* what "max / min with 0 added" means *)
Lemma fold_max_spec zs : forall z0,
  In (fold_left Z.max zs z0) (z0 :: zs) /\ (forall z, In z (z0 :: zs) -> (z <= fold_left Z.max zs z0)%Z).
Proof.
  induction zs as [|w zs IH]; intros z0; simpl.
  - split; [left; reflexivity | intros z [->|[]]; lia].
  - destruct (IH (Z.max z0 w)) as [Hin Hub]. split.
    + simpl in Hin. destruct Hin as [Hin|Hin]; [|right; right; assumption].
      rewrite <- Hin. destruct (Z.max_spec z0 w) as [[_ ->]|[_ ->]]; [right; left|left]; reflexivity.
    + intros z [->|[->|Hz]].
      * specialize (Hub (Z.max z (w)) (or_introl eq_refl)). lia.
      * specialize (Hub (Z.max z0 z) (or_introl eq_refl)). lia.
      * apply Hub. right; assumption.
Qed.

Lemma fold_min_spec zs : forall z0,
  In (fold_left Z.min zs z0) (z0 :: zs) /\ (forall z, In z (z0 :: zs) -> (fold_left Z.min zs z0 <= z)%Z).
Proof.
  induction zs as [|w zs IH]; intros z0; simpl.
  - split; [left; reflexivity | intros z [->|[]]; lia].
  - destruct (IH (Z.min z0 w)) as [Hin Hub]. split.
    + simpl in Hin. destruct Hin as [Hin|Hin]; [|right; right; assumption].
      rewrite <- Hin. destruct (Z.min_spec z0 w) as [[_ ->]|[_ ->]]; [left|right; left]; reflexivity.
    + intros z [->|[->|Hz]].
      * specialize (Hub (Z.min z (w)) (or_introl eq_refl)). lia.
      * specialize (Hub (Z.min z0 z) (or_introl eq_refl)). lia.
      * apply Hub. right; assumption.
Qed.

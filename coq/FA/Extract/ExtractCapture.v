(* Extraction of the capture / helper-inlining model (C04, C05) for the correspondence runs.
   Directives: ExtrOcamlBasic + ExtrOcamlNativeString only. *)
Require Extraction ExtrOcamlBasic ExtrOcamlNativeString.
From FA.Base Require Import PyAst Value Eval Names Traverse.
From FA.Gen Require Import TablesUtil.
From FA.Model Require Import Capture.

Extraction Language OCaml.
Extraction "model.ml" expr_eqb size z_to_string z_of_string nat_to_string Z.of_nat
  rewrite_captured resolve_called check_ast parse_callable capture_pipeline legal_const names_in helper_capval inner_binders.

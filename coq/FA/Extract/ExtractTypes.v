(* Extraction of the type-follower models (C07-C10) to OCaml for the correspondence runs.
   Directives in force: exactly those of ExtrOcamlBasic and ExtrOcamlNativeString. *)
Require Extraction ExtrOcamlBasic ExtrOcamlNativeString.
From FA.Base Require Import PyAst Value Eval Names Traverse.
From FA.Gen Require Import TablesUtil TablesTypes.
From FA.Model Require Import TypeDefs TypeFollow.

Extraction Language OCaml.
Extraction "model.ml" expr_eqb size z_to_string z_of_string nat_to_string Z.of_nat
  follow stream_op fill is_iterable unwrap_iterable get_inherited resolve_type_vars get_method_and_class
  ft_default check_ast literal_eval ty_eqb.

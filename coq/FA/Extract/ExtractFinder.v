(* Extraction of the C03 model (lambda finder at token level) to OCaml for the correspondence runs.
   Directives in force: exactly those of ExtrOcamlBasic and ExtrOcamlNativeString. *)
Require Extraction ExtrOcamlBasic ExtrOcamlNativeString.
From FA.Base Require Import PyAst Value Eval Names Traverse.
From FA.Model Require Import LambdaFinder LambdaFinderSpec.

Extraction Language OCaml.
Extraction "model.ml" expr_eqb size z_to_string z_of_string nat_to_string Z.of_nat
  find_gen scan_stream backup extent ext_stop rows_okb lambda_atb not_nestedb called_byb key_before
  segs_ok tail_ok layout_toks lambda_index seg_toks supported_layoutb seg_start end_ok seg_matches recognisedb nested_ok def_layoutb def_scan.

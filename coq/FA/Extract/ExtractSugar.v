(* Extraction of the C06 models to OCaml for the correspondence runs.
   Directives in force: exactly those of ExtrOcamlBasic and ExtrOcamlNativeString. *)
Require Extraction ExtrOcamlBasic ExtrOcamlNativeString.
From FA.Base Require Import PyAst Value Eval Names Traverse.
From FA.Model Require Import Sugar SugarSpec.

Extraction Language OCaml.
Extraction "model.ml" expr_eqb size z_to_string z_of_string nat_to_string Z.of_nat
  sugar sugar_pinned convert convert_pinned bind_spec class_fields
  single_for no_comp gens_ok has_bad_comp eval.

(* Extraction of the stream/heap model (C11, C12, C16) for the correspondence runs.
   Same directives as Extract.v: ExtrOcamlBasic + ExtrOcamlNativeString only. *)
Require Extraction ExtrOcamlBasic ExtrOcamlNativeString.
From FA.Base Require Import PyAst Value Eval Names Traverse.
From FA.Model Require Import Heap Stream.

Extraction Language OCaml.
Extraction "model.ml" expr_eqb size z_to_string z_of_string nat_to_string Z.of_nat
  init step obs obs_full lookup stream_dataset result_of hget heap_ streams log calls
  erase_qmd qmd_spec run outs clean find_root count_roots erase.

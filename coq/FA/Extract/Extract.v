(* Extraction of the executable models to OCaml for the correspondence runs.
   Directives in force: exactly those of ExtrOcamlBasic (bool, option, unit, list, prod, sumbool,
   sumor -> OCaml's own types) and ExtrOcamlNativeString (string -> OCaml string, ascii -> char).
   Z, N, nat, positive stay the extracted inductive types. *)
Require Extraction ExtrOcamlBasic ExtrOcamlNativeString.
From FA.Base Require Import PyAst Value Eval Names Traverse.
From FA.Gen Require Import Tables.
From FA.Model Require Import Aggregate.

Extraction Language OCaml.
Extraction "model.ml" expr_eqb size z_to_string z_of_string nat_to_string Z.of_nat
  agg.

(* Extraction of the simplifier model (C02, C14, C18).  Directives: ExtrOcamlBasic +
   ExtrOcamlNativeString only; Z, N, nat, positive stay the extracted inductive types. *)
Require Extraction ExtrOcamlBasic ExtrOcamlNativeString.
From FA.Base Require Import PyAst Value Eval Names Traverse.
From FA.Model Require Import Simplify.

Extraction Language OCaml.
Extraction "model.ml" expr_eqb size z_to_string z_of_string nat_to_string Z.of_nat
  simplify.

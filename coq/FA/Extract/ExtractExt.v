(* Extraction of the C17 model (change_extension_functions_to_calls) for the correspondence runs.
   Directives in force: exactly those of ExtrOcamlBasic and ExtrOcamlNativeString. *)
Require Extraction ExtrOcamlBasic ExtrOcamlNativeString.
From FA.Base Require Import PyAst Value Eval Names Traverse.
From FA.Gen Require Import Tables.
From FA.Model Require Import ExtCalls.

Extraction Language OCaml.
Extraction "model.ml" expr_eqb size z_to_string z_of_string nat_to_string Z.of_nat
  ext ext_with ops_kw_free ext_default_ops.

(* Extraction of the C20 models (ast.dump / calc_ast_hash) for the correspondence runs.
   Directives in force: exactly those of ExtrOcamlBasic and ExtrOcamlNativeString. *)
Require Extraction ExtrOcamlBasic ExtrOcamlNativeString.
From FA.Base Require Import PyAst Value Eval Names Traverse.
From FA.Model Require Import GTree Hash.

Extraction Language OCaml.
Extraction "model.ml" expr_eqb size z_to_string z_of_string nat_to_string Z.of_nat
  dump dump_raw hash ghash erase wf gsize set_attrs py_repr_str py_repr_bytes.

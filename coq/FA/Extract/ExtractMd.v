(* Extraction of the C15 models (extract_metadata, remove_empty_metadata, literal_eval) for the
   correspondence runs.  Directives in force: exactly those of ExtrOcamlBasic and ExtrOcamlNativeString. *)
Require Extraction ExtrOcamlBasic ExtrOcamlNativeString.
From FA.Base Require Import PyAst Value Eval Names Traverse.
From FA.Model Require Import MetaData.

Extraction Language OCaml.
Extraction "model.ml" expr_eqb size z_to_string z_of_string nat_to_string Z.of_nat
  literal_eval extract remove_empty is_empty_dict.

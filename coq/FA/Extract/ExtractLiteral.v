(* Extraction of the C13 models (as_ast / check_ast / terminals) for the correspondence runs.
   Directives in force: exactly those of ExtrOcamlBasic and ExtrOcamlNativeString. *)
Require Extraction ExtrOcamlBasic ExtrOcamlNativeString.
From FA.Base Require Import PyAst Value Eval Names Traverse.
From FA.Model Require Import Literal.

Extraction Language OCaml.
Extraction "model.ml" expr_eqb size z_to_string z_of_string nat_to_string Z.of_nat
  py_repr parse_literal literal_eval lit_expr finite embeddable as_ast as_ast_unfixed as_literal const_of_scalar
  check_ast consts const_legal as_terminal metadata_call wire_format.

(* Extraction of the composed pipeline model (C01) to OCaml for the correspondence runs.
   Directives in force: exactly those of ExtrOcamlBasic and ExtrOcamlNativeString. *)
Require Extraction ExtrOcamlBasic ExtrOcamlNativeString.
From FA.Base Require Import PyAst Value Eval Names Traverse.
From FA.Gen Require Import Tables TablesUtil TablesTypes TablesStream.
From FA.Model Require Import TypeDefs Pipeline.
From FA.Model Require Capture Sugar TypeFollow MetaData ExtCalls Aggregate Simplify.

Extraction Language OCaml.
Extraction "model.ml" expr_eqb size z_to_string z_of_string nat_to_string Z.of_nat
  query build backend_passes simplify_query ExtCalls.ext Aggregate.agg Capture.helper_capval MetaData.remove_empty.

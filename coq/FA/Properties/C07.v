(* C07 - Typed call sites are normalised to full positional form.
   Only statements here; proofs live in Proofs/TypeFollowFill.v.

   [fill] is the model of _fill_in_default_arguments/_find_keyword (Model/TypeFollow.v); its parameter filter
   ("self", "known_types") and the `i_arg += 1` of the walk are read from the source on every run
   (Gen/TablesTypes.v: with the unfixed source, where the index is never advanced, this file stops compiling).
   [bind_full] is the independently written specification of inspect.Signature.bind + apply_defaults.

   Whole queries: [calls_normalised] - the emitted tree relates to the given tree by [norm]
   (Proofs/TypeFollowNormalised.v), a separately written relation that says what the property demands at every node:
   typed call sites (method found on a class of the receiver's type - the type the follower computed -, registered
   function) at any lambda nesting depth are emitted in [bind_full] form followed by the callbacks' rewrites; the
   library's own operators keep the user's lambda and its body is normalised under the element type; a method call is
   left alone only when no class of the receiver's type has that method with a resolvable return annotation; all
   other nodes are rebuilt from their normalised children. *)
From FA.Base Require Import PyAst Value.
From FA.Gen Require Import TablesTypes.
From FA.Model Require Import TypeDefs TypeFollow.
From FA.Proofs Require Import TypeFollowFacts TypeFollowFill TypeFollowNormalised.
From Coq Require Import Lia.

(* for every signature with distinct parameter names and every call shape Python accepts - or rejects only because a
   required parameter is missing - the walk yields exactly Signature.bind + apply_defaults: all declared parameters
   positionally in declaration order (given values kept, keywords moved to their position, omitted parameters at
   their defaults), no keyword left; and it refuses, naming the first missing parameter, otherwise *)
Theorem fill_is_bind : forall (A : Type) (mk : const -> A) (ps : list param) (args : list A) (kws : list (option string * A)),
  NoDup (map p_name (eff ps)) -> acceptable ps args kws ->
  fill mk ps args kws =
    match bind_full mk ps args kws with
    | BOk values => inl (values, [])
    | BMissing p => inr p
    end.
Proof. intros A mk. exact (fill_is_bind_x mk). Qed.
Print Assumptions fill_is_bind.

(* whatever the call (also one Python would reject), positional arguments the user wrote stay where they are *)
Theorem fill_keeps_positionals : forall (A : Type) (mk : const -> A) (ps : list param) (args : list A)
                                        (kws : list (option string * A)) a2 k2,
  NoDup (map p_name (eff ps)) -> fill mk ps args kws = inl (a2, k2) -> firstn (length args) a2 = args.
Proof. intros A mk. exact (TypeFollowFill.fill_keeps_positionals mk). Qed.
Print Assumptions fill_keeps_positionals.

(* the library's own operators keep exactly the arguments the user wrote: the internal known_types={} is not filled *)
Theorem own_operators_untouched : forall (A : Type) (mk : const -> A) (dflt : const) (lam : A) (kws : list (option string * A)),
  fill mk [ {| p_name := "self"; p_default := None |}; {| p_name := "f"; p_default := None |};
            {| p_name := "known_types"; p_default := Some dflt |} ] [lam] kws = inl ([lam], kws).
Proof. intros A mk. exact (own_operators_untouched_x mk). Qed.
Print Assumptions own_operators_untouched.

(* whole queries, every class table / function table / callback table / environment / expression *)
Theorem calls_normalised : forall (W : world) (G : tenv) (e e' : expr) (t : ty) (ev : list event),
  wf_sigs W -> follow W G e = Ok (e', t, ev) -> norm W G e e'.
Proof. exact calls_normalised_x. Qed.
Print Assumptions calls_normalised.

(* ... and through Select / SelectMany / Where of the stream itself *)
Theorem stream_calls_normalised : forall (W : world) op G0 item p b lam t ev,
  wf_sigs W -> stream_op W op G0 item (Lambda [p] b) = Ok (lam, t, ev) ->
  exists b', lam = Lambda [p] b' /\ norm W ((p, item) :: G0) b b'.
Proof. exact stream_calls_normalised_x. Qed.
Print Assumptions stream_calls_normalised.

(* ---------- non-vacuity ---------- *)

Definition P (n : string) (d : option const) : param := {| p_name := n; p_default := d |}.
Definition jets_sig := [P "self" None; P "bank" (Some (CStr "default")); P "calib" (Some (CBool true))].
Definition two_sig := [P "self" None; P "a" None; P "b" None].

(* e.Jets() with bank='default', calib=True: both parameters filled (the F09 witness); keywords moved; second
   required parameter missing => refused *)
Example fill_examples :
  fill Const jets_sig [] [] = inl ([Const (CStr "default"); Const (CBool true)], []) /\
  fill Const jets_sig [] [(Some "calib", Name "c")] = inl ([Const (CStr "default"); Name "c"], []) /\
  fill Const two_sig [Name "x"] [] = inr "b" /\
  fill Const two_sig [] [(Some "b", Name "y"); (Some "a", Name "x")] = inl ([Name "x"; Name "y"], []).
Proof. repeat split; vm_compute; reflexivity. Qed.

Example acceptable_example :
  NoDup (map p_name (eff jets_sig)) /\ acceptable jets_sig (@nil expr) [(Some "calib", Name "c")] /\
  bind_full Const jets_sig [] [(Some "calib", Name "c")] = BOk [Const (CStr "default"); Name "c"].
Proof.
  split; [|split].
  - vm_compute. repeat constructor; cbn; intuition discriminate.
  - split; [vm_compute; repeat constructor|]. split.
    + repeat constructor. cbn. tauto.
    + repeat constructor. exists "calib". split; [reflexivity|]. vm_compute. tauto.
  - vm_compute. reflexivity.
Qed.

(* a whole query at lambda depth 2 over a two-class model: keyword inside the nested lambda moved (F10), inner
   parameter re-using the outer name typed by the inner stream (F20), operator arguments untouched *)
Definition M (n : string) (ps : list param) (r : ty) : method :=
  {| m_name := n; m_params := ps; m_ret := Some r; m_cb := None; m_op := OpStub |}.
Definition os_params := [P "self" None; P "f" None; P "known_types" (Some (CObj "other:dict" "{}"))].
Definition ct2 : classtab :=
  [ {| c_name := "OSIM"; c_params := ["T"]; c_base := Some (TCls "ObjectStream" [TVar "T"]); c_parent := Some "ObjectStream";
       c_methods := [ {| m_name := "First"; m_params := [P "self" None]; m_ret := Some (TVar "T"); m_cb := None; m_op := OpFirst |} ];
       c_props := []; c_cb := None; c_fields := None; c_collection := true |};
    {| c_name := "ObjectStream"; c_params := ["T"]; c_base := None; c_parent := None;
       c_methods := [ {| m_name := "Select"; m_params := os_params; m_ret := Some (TCls "ObjectStream" [TVar "S"]); m_cb := None; m_op := OpSelect |} ];
       c_props := []; c_cb := None; c_fields := None; c_collection := false |};
    {| c_name := "Jet"; c_params := []; c_base := None; c_parent := None;
       c_methods := [M "pt" [P "self" None; P "scale" (Some (CFloat "1.0")); P "unit" (Some (CStr "GeV"))] TFloat];
       c_props := []; c_cb := None; c_fields := None; c_collection := false |};
    {| c_name := "Event"; c_params := []; c_base := None; c_parent := None;
       c_methods := [M "Jets" [P "self" None; P "bank" (Some (CStr "default"))] (TIter (TCls "Jet" []))];
       c_props := []; c_cb := None; c_fields := None; c_collection := false |} ].
Definition W2 : world := {| w_ct := ct2; w_ft := ft_default; w_cb := [] |}.

Example nested_query_normalised :
  let q := Call (Attr (Call (Attr (Name "e") "Jets") [] [] []) "Select")
                [Lambda ["e"] (Call (Attr (Name "e") "pt") [] [Some "unit"] [Const (CStr "MeV")])] [] [] in
  follow W2 [("e", TCls "Event" [])] q =
    Ok (Call (Attr (Call (Attr (Name "e") "Jets") [Const (CStr "default")] [] []) "Select")
             [Lambda ["e"] (Call (Attr (Name "e") "pt") [Const (CFloat "1.0"); Const (CStr "MeV")] [] [])] [] [],
        TIter TFloat, []).
Proof. vm_compute. reflexivity. Qed.

(* ---------- non-vacuity of [calls_normalised] ---------- *)

Example W2_wf : wf_sigs W2.
Proof. split; repeat constructor; cbn; intuition discriminate. Qed.

(* the relation holds of the depth-2 query above (through the theorem) ... *)
Example nested_query_in_relation :
  let q := Call (Attr (Call (Attr (Name "e") "Jets") [] [] []) "Select")
                [Lambda ["e"] (Call (Attr (Name "e") "pt") [] [Some "unit"] [Const (CStr "MeV")])] [] [] in
  norm W2 [("e", TCls "Event" [])] q
    (Call (Attr (Call (Attr (Name "e") "Jets") [Const (CStr "default")] [] []) "Select")
          [Lambda ["e"] (Call (Attr (Name "e") "pt") [Const (CFloat "1.0"); Const (CStr "MeV")] [] [])] [] []).
Proof. intros q. eapply calls_normalised; [exact W2_wf | vm_compute; reflexivity]. Qed.

(* ... and it is not a relation that holds of anything: leaving e.Jets() as written (what the code did before
   fixes/F09 for the second parameter, and what no fix would excuse for the first) is not in it *)
Example unnormalised_call_rejected :
  ~ norm W2 [("e", TCls "Event" [])] (Call (Attr (Name "e") "Jets") [] [] []) (Call (Attr (Name "e") "Jets") [] [] []).
Proof.
  intros H. inversion H; subst; try discriminate.
  - (* congruence is for non-call nodes *)
    match goal with Hc : is_call _ = false |- _ => destruct cs'; cbn in Hc; discriminate end.
  - (* untyped callee *) contradiction.
  - (* unknown method *)
    match goal with Hk : ~ known _ _ _ |- _ => apply Hk end.
    match goal with Hf : follow _ _ (Name "e") = _ |- _ => vm_compute in Hf; inversion Hf; subst end.
    exists (TCls "Event" []), "Event", (M "Jets" [P "self" None; P "bank" (Some (CStr "default"))] (TIter (TCls "Jet" []))),
           (TIter (TCls "Jet" [])).
    repeat split; vm_compute; auto.
  - (* typed: the site must be the bind_full form, which has one argument *)
    match goal with Hf : follow _ _ (Name "e") = _ |- _ => vm_compute in Hf; inversion Hf; subst end.
    match goal with Hi : In _ (candidates _ _) |- _ => vm_compute in Hi; destruct Hi as [<-|[]] end.
    match goal with Hm : get_method_and_class _ _ _ = _ |- _ => vm_compute in Hm; inversion Hm; subst end.
    match goal with Hc : complete_call _ _ _ _ _ |- _ => destruct Hc as (a2 & k2 & v2 & -> & _ & Hacc) end.
    match goal with Hr : rewritten _ _ |- _ => apply rewritten_to_bare_method in Hr; destruct Hr as (a0 & Hr); inversion Hr; subst end.
    repeat match goal with Hx : Forall2 _ [] _ |- _ => inversion Hx; subst; clear Hx end.
    destruct Hacc as (Hb & _ & _).
    + split; [vm_compute; lia|]. split; constructor.
    + vm_compute in Hb. discriminate.
  - (* operator: Jets is not one *)
    match goal with Hf : follow _ _ (Name "e") = _ |- _ => vm_compute in Hf; inversion Hf; subst end.
    match goal with Hi : In _ (candidates _ _) |- _ => vm_compute in Hi; destruct Hi as [Hi|[]]; discriminate end.
Qed.

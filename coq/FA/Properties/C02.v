(* C02 - Chained-call simplification preserves query results.

   Statements only; proofs are in Proofs/EvalAgree.v and Proofs/SimplifySem.v.
   [simp] (Model/Simplify.v) is the executable model of simplify_chained_calls, tied to the code by
   the correspondence run of every check; [eval] (Base/Eval.v) is the reference LINQ/list semantics,
   quantified over every backend [B] and every environment [E] (= every dataset).

   What is proved here (for all lambdas bodies, all backends, all datasets, no bound on size):
     - every rewrite rule the simplifier applies preserves the value of the query whenever the original
       evaluates without error (the seven fusion rules, identity-Select and True-Where elision,
       literal projection), under exactly the freshness side condition the algorithm establishes
       by construction (the fresh parameter [z] of a convolution does not occur in the two lambdas;
       the parameter [x] of the lambda another lambda is moved into does not occur in the moved one);
     - the value of a query depends only on the bindings of names that occur in it (weakening,
       shadowing, exchange), and alpha-renaming of lambda parameters (make_args_unique, which the
       hygiene of the algorithm rests on) preserves meaning for every expression;
     - the First push-through is sound in the direction "rewritten has a value => original has the
       same value", and in the other direction when the pushed function is defined on every element
       (LINQ's Select is lazy; the list semantics of [eval] is not).
   The whole algorithm (Proofs/SimplifySound.v, by strong induction on the fuel over the traversal with
   its substitution stack, fresh-name counter and re-visits): [simplifier_preserves_query_results]
   below - for every fuel, counter, backend meeting [backend_ok] and admissible query, if the simplifier
   returns a query then, on every dataset, whatever the original evaluates to the result evaluates to;
   a lambda stays a lambda that refines the original pointwise; the result is again admissible.
   What is NOT inside that theorem (stated here so that it stays visible): queries that mention
   [First].  The First push-through rules rewrite First(seq).a into First(Select(seq, lambda x: x.a)),
   which is meaning-preserving for LINQ's lazy Select but not for the eager list semantics of [eval]
   (the selection would have to be defined on every element): [First_attr_push_back] and
   Proofs/SimplifySem.v:Fst_Sel_total state what holds; the CPython oracle with lazy sequences in
   harness/props/c02.py covers those queries on concrete datasets, and the correspondence ties the
   model to the code on them. *)
From FA.Base Require Import PyAst Value Eval Traverse Names.
From FA.Model Require Import Simplify.
From FA.Proofs Require Import Refine EvalAgree SimplifyFacts SimplifySem RenameSem SimplifyTotal SimplifyInv SimplifyRules SimplifySound SimplifySession.

Section C02.
  Variable B : backend.
  Variable ops : list string.
  Notation ev := (eval B ops).

  Theorem names_that_do_not_occur_do_not_matter : forall e E0 x v E,
    occurs x e = false -> ev (E0 ++ (x, v) :: E) e = ev (E0 ++ E) e.
  Proof. intros; apply eval_weaken; assumption. Qed.

  Theorem value_depends_only_on_occurring_names : forall e E E',
    (forall y, occurs y e = true -> lookup y E = lookup y E') -> ev E e = ev E' e.
  Proof. intros e E E' H. apply eval_agree. exact H. Qed.

  (* alpha-renaming (replace_args of make_args_unique, any renaming list, any expression, nested
     lambdas and comprehension targets included): if the renaming moves names only onto names the
     expression does not mention, injectively, and moves no callee name the backend gives a
     meaning to, the renamed
     expression has the same value in the correspondingly renamed environment *)
  Theorem renaming_preserves_meaning : forall m e E E',
    good B m e -> rel m e E E' -> refines (ev E e) (ev E' (rename m e)).
  Proof. exact (rename_refines B ops). Qed.

  (* make_args_unique on an operator lambda yields the same function *)
  Theorem fresh_parameter_is_the_same_function : forall x b c v E,
    mentions (arg_name c) b = false -> is_callee x b = false \/ nofun B x ->
    match make_args_unique [x] b c with
    | (Lambda [x'] b', _) => refines (ev ((x, v) :: E) b) (ev ((x', v) :: E) b')
    | _ => False
    end.
  Proof. exact (make_args_unique_sound1 B ops). Qed.

  Theorem Select_of_Select_sound : forall E s x fb y gb z,
    occurs z fb = false -> occurs z gb = false ->
    refines (ev E (function_call "Select" [function_call "Select" [s; Lambda [x] fb]; Lambda [y] gb]))
            (ev E (function_call "Select" [s; Lambda [z] (Call (Lambda [y] gb) [Call (Lambda [x] fb) [Name z] [] []] [] [])])).
  Proof. exact (rule_Select_of_Select B ops). Qed.

  Theorem SelectMany_of_Select_sound : forall E s x fb y gb z,
    occurs z fb = false -> occurs z gb = false ->
    refines (ev E (function_call "SelectMany" [function_call "Select" [s; Lambda [x] fb]; Lambda [y] gb]))
            (ev E (function_call "SelectMany" [s; Lambda [z] (Call (Lambda [y] gb) [Call (Lambda [x] fb) [Name z] [] []] [] [])])).
  Proof. exact (rule_SelectMany_of_Select B ops). Qed.

  Theorem Where_of_Select_sound : forall E s x fb y gb z,
    occurs z fb = false -> occurs z gb = false ->
    refines (ev E (function_call "Where" [function_call "Select" [s; Lambda [x] fb]; Lambda [y] gb]))
            (ev E (function_call "Select"
                     [function_call "Where" [s; Lambda [z] (Call (Lambda [y] gb) [Call (Lambda [x] fb) [Name z] [] []] [] [])];
                      Lambda [x] fb])).
  Proof. exact (rule_Where_of_Select B ops). Qed.

  Theorem Where_of_Where_sound : forall E s x fb y gb z,
    occurs z fb = false -> occurs z gb = false ->
    refines (ev E (function_call "Where" [function_call "Where" [s; Lambda [x] fb]; Lambda [y] gb]))
            (ev E (function_call "Where"
                     [s; Lambda [z] (BoolOp And [Call (Lambda [x] fb) [Name z] [] []; Call (Lambda [y] gb) [Name z] [] []])])).
  Proof. exact (rule_Where_of_Where B ops). Qed.

  Theorem Select_of_SelectMany_sound : forall E s x fb y gb,
    occurs x gb = false ->
    refines (ev E (function_call "Select" [function_call "SelectMany" [s; Lambda [x] fb]; Lambda [y] gb]))
            (ev E (function_call "SelectMany" [s; Lambda [x] (function_call "Select" [fb; Lambda [y] gb])])).
  Proof. exact (rule_Select_of_SelectMany B ops). Qed.

  Theorem SelectMany_of_SelectMany_sound : forall E s x fb y gb,
    occurs x gb = false ->
    refines (ev E (function_call "SelectMany" [function_call "SelectMany" [s; Lambda [x] fb]; Lambda [y] gb]))
            (ev E (function_call "SelectMany" [s; Lambda [x] (function_call "SelectMany" [fb; Lambda [y] gb])])).
  Proof. exact (rule_SelectMany_of_SelectMany B ops). Qed.

  Theorem Where_of_SelectMany_sound : forall E s x fb y gb,
    occurs x gb = false ->
    refines (ev E (function_call "Where" [function_call "SelectMany" [s; Lambda [x] fb]; Lambda [y] gb]))
            (ev E (function_call "SelectMany" [s; Lambda [x] (function_call "Where" [fb; Lambda [y] gb])])).
  Proof. exact (rule_Where_of_SelectMany B ops). Qed.

  Theorem make_Select_drops_only_identities : forall E s sel,
    refines (ev E (function_call "Select" [s; sel])) (ev E (make_Select s sel)).
  Proof. exact (make_Select_sound B ops). Qed.

  Theorem true_Where_elided_soundly : forall E s ps,
    refines (ev E (function_call "Where" [s; Lambda ps (Const (CBool true))])) (ev E s).
  Proof. exact (rule_true_Where B ops). Qed.

  Theorem tuple_projection_sound : forall E es n x,
    py_index es n = Some x -> refines (ev E (Subscript (Tuple es) (Const (CInt n)))) (ev E x).
  Proof. exact (rule_project_Tuple B ops). Qed.

  Theorem list_projection_sound : forall E es n x,
    py_index es n = Some x -> refines (ev E (Subscript (List es) (Const (CInt n)))) (ev E x).
  Proof. exact (rule_project_List B ops). Qed.

  Theorem First_attr_push_back : forall E s z a,
    refines (ev E (function_call "First" [function_call "Select" [s; Lambda [z] (Attr (Name z) a)]]))
            (ev E (Attr (function_call "First" [s]) a)).
  Proof. intros. apply (rule_First_attr_back B ops). right; exact I. Qed.
End C02.

(* the whole simplifier: [simplify] is simplify_chained_calls().visit on an empty argument stack *)
Theorem simplifier_preserves_query_results : forall B ops fuel c e e' c',
  backend_ok B ->
  wfq e = true -> below c e -> bok B e -> mentions "First" e = false ->
  simplify fuel c e = Ok (e', c') ->
  (forall E, refines (eval B ops E e) (eval B ops E e')) /\
  (forall E, aview_refines (view B ops E e) (view B ops E e')) /\
  wfq e' = true /\ below c' e' /\ bok B e' /\ mentions "First" e' = false /\ c <= c'.
Proof. exact simp_preserves. Qed.

(* histories: a backend session that simplifies, puts further operators on the RESULT and simplifies again with a new simplifier
   object - any number of times, each run starting from the fresh-name counter the previous run left behind - ends with a query
   that refines the chain written in one piece ([extended]).  [session], [extended], [ext_ok]: Proofs/SimplifySession.v. *)
Theorem resimplified_sessions_preserve_query_results : forall B ops, backend_ok B ->
  forall exts fuel c q r c',
    wfq q = true -> below c q -> bok B q -> mentions "First" q = false ->
    Forall (ext_ok B c) exts ->
    session fuel c q exts = Ok (r, c') ->
    (forall E, refines (eval B ops E (extended q exts)) (eval B ops E r)) /\ wfq r = true /\ below c' r /\ c <= c'.
Proof. exact session_preserves. Qed.

(* non-vacuity, and the discipline is necessary: the same two-run session with the counter set back to 0 before the second run
   (a simplifier object that resets the global counter) returns a query with another value - a fresh name drawn by the second
   run is one the first result already binds *)
Example session_example :
  (wfq SessionExample.q1 = true /\ below 0 SessionExample.q1 /\ bok SessionExample.B0 SessionExample.q1 /\
   mentions "First" SessionExample.q1 = false /\ Forall (ext_ok SessionExample.B0 0) SessionExample.x1) /\
  (exists r c, session 200 0 SessionExample.q1 SessionExample.x1 = Ok (r, c) /\
     eval SessionExample.B0 [] SessionExample.E1 (extended SessionExample.q1 SessionExample.x1) = Some SessionExample.v1 /\
     eval SessionExample.B0 [] SessionExample.E1 r = Some SessionExample.v1).
Proof. split; [exact SessionExample.hyps_hold | exact SessionExample.session_runs]. Qed.

Theorem counter_set_back_between_runs_refuted : exists r c,
  SessionExample.session0 200 SessionExample.q1 SessionExample.x1 = Ok (r, c) /\
  eval SessionExample.B0 [] SessionExample.E1 (extended SessionExample.q1 SessionExample.x1) = Some SessionExample.v1 /\
  eval SessionExample.B0 [] SessionExample.E1 r <> Some SessionExample.v1.
Proof. exact SessionExample.counter_reset_refuted. Qed.

(* the invariant it is proved through, for every stack the traversal can be in *)
Theorem simplifier_step_invariant : forall B ops,
  (forall n, nofun B (arg_name n)) ->
  (forall ks vs m args kws, meth_sem B (VDict ks vs) m args kws = None) ->
  (forall op ks vs rest kws, fun_sem B op (VDict ks vs :: rest) kws = None) ->
  forall fuel st bound c e e' c',
    simp fuel st bound c e = Ok (e', c') -> stack_ok B c st -> pre B st c e -> post B ops st c e e' c'.
Proof. exact simp_sound. Qed.

(* non-vacuity: hypotheses met by a query on which beta-reduction, Where-of-Select, Select-of-Select
   and dictionary projection all fire; both sides evaluate to [3; 4] on ds = [1; 2; 3] *)
Example simplifier_preserves_example :
  backend_ok SoundExample.B0 /\ wfq SoundExample.q = true /\ below 0 SoundExample.q /\ bok SoundExample.B0 SoundExample.q /\
  mentions "First" SoundExample.q = false /\
  exists e' c', simplify 40 0 SoundExample.q = Ok (e', c') /\ e' <> SoundExample.q /\
    eval SoundExample.B0 [] [("ds", VList [VInt 1; VInt 2; VInt 3])] e' = Some (VList [VInt 3; VInt 4]).
Proof.
  split; [exact SoundExample.B0_ok|]. split; [exact SoundExample.q_wf|]. split; [exact SoundExample.q_below|].
  split; [exact SoundExample.q_bok|]. split; [exact SoundExample.q_nf|].
  destruct SoundExample.q_simplifies as (e' & c' & H1 & H2 & _ & H4). eauto.
Qed.

Print Assumptions names_that_do_not_occur_do_not_matter.
Print Assumptions value_depends_only_on_occurring_names.
Print Assumptions renaming_preserves_meaning.
Print Assumptions fresh_parameter_is_the_same_function.
Print Assumptions Select_of_Select_sound.
Print Assumptions SelectMany_of_Select_sound.
Print Assumptions Where_of_Select_sound.
Print Assumptions Where_of_Where_sound.
Print Assumptions Select_of_SelectMany_sound.
Print Assumptions SelectMany_of_SelectMany_sound.
Print Assumptions Where_of_SelectMany_sound.
Print Assumptions make_Select_drops_only_identities.
Print Assumptions true_Where_elided_soundly.
Print Assumptions tuple_projection_sound.
Print Assumptions list_projection_sound.
Print Assumptions First_attr_push_back.

(* ---------- non-vacuity: the model really fuses, and the two queries really evaluate to the same value ---------- *)
Definition B0 : backend := {| attr_sem := fun _ _ => None; meth_sem := fun _ _ _ _ => None; fun_sem := fun _ _ _ => None |}.
Definition rec2 (a b : Z) : value := VDict [VStr "a"; VStr "b"] [VInt a; VInt b].
Definition data : value := VList [rec2 1 2; rec2 5 0; rec2 (-3) 7].

Definition q_fuse : expr :=
  function_call "Select"
    [function_call "Where"
       [function_call "Select" [Name "ds"; Lambda ["e"] (Tuple [Attr (Name "e") "a"; Attr (Name "e") "b"])];
        Lambda ["t"] (Compare (Subscript (Name "t") (Const (CInt 0))) [CGt] [Const (CInt 0)])];
     Lambda ["t"] (BinOp BAdd (Subscript (Name "t") (Const (CInt 1))) (Subscript (Name "t") (Const (CInt 0))))].

Example simp_fuses_and_agrees :
  exists q' c', simplify 200 0 q_fuse = Ok (q', c')
    /\ eval B0 [] [("ds", data)] q_fuse = Some (VList [VInt 3; VInt 5])
    /\ eval B0 [] [("ds", data)] q' = Some (VList [VInt 3; VInt 5])
    /\ expr_eqb q' q_fuse = false.
Proof. eexists; eexists; split; [vm_compute; reflexivity | repeat split; vm_compute; reflexivity]. Qed.

(* shadowing of a live name: the inner [lambda x] must not capture the substituted [x.met] *)
Definition q_capture : expr :=
  function_call "Select"
    [Name "ds";
     Lambda ["x"]
       (function_call "Select"
          [function_call "Select" [List [Attr (Name "x") "a"]; Lambda ["j"] (Tuple [Name "j"; Attr (Name "x") "b"])];
           Lambda ["p"] (function_call "First"
                           [function_call "Select" [List [Subscript (Name "p") (Const (CInt 0))];
                                                    Lambda ["x"] (BinOp BAdd (Name "x") (Subscript (Name "p") (Const (CInt 1))))]])])].

Example simp_respects_shadowing :
  exists q' c', simplify 400 0 q_capture = Ok (q', c')
    /\ eval B0 [] [("ds", data)] q_capture = Some (VList [VList [VInt 3]; VList [VInt 5]; VList [VInt 4]])
    /\ eval B0 [] [("ds", data)] q' = Some (VList [VList [VInt 3]; VList [VInt 5]; VList [VInt 4]]).
Proof. eexists; eexists; split; [vm_compute; reflexivity | split; vm_compute; reflexivity]. Qed.
Print Assumptions simplifier_preserves_query_results.
Print Assumptions simplifier_step_invariant.
Print Assumptions resimplified_sessions_preserve_query_results.
Print Assumptions counter_set_back_between_runs_refuted.

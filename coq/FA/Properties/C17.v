(* C17 - Method-form and function-form queries are interchangeable.
   Only statements here; proofs live in Proofs/ExtCallsProofs.v and Proofs/ExtCallsSem.v.
   [ext] is the model of change_extension_functions_to_calls over the operator list regenerated
   from the source (Gen/Tables.v: ext_default_ops); [ext_with ops] is the same pass for an arbitrary
   [function_names] argument.  [eval] is the reference semantics (Base/Eval.v); it is given the same
   operator list, and interprets [s.Op(args)] and [Op(s, args)] by two different clauses. *)
From FA.Base Require Import PyAst Value Eval Traverse.
From FA.Gen Require Import Tables.
From FA.Model Require Import ExtCalls.
From FA.Proofs Require Import Refine ExtCallsProofs ExtCallsSem.

(* the pass computes exactly the relation "every [v.op(args…, kw…)] with [op] in the list becomes
   [op(v', args'…, kw'…)]; every other node - all node classes - is rebuilt unchanged
   around its related children" *)
Theorem ext_exact : forall e e', ext e = e' <-> ext_spec ext_default_ops e e'.
Proof. exact (ExtCallsProofs.ext_exact ext_default_ops). Qed.
Print Assumptions ext_exact.

(* no method-form operator call is left, at any depth *)
Theorem ext_complete : forall e, no_method_form ext_default_ops (ext e).
Proof. exact (ExtCallsProofs.ext_complete ext_default_ops). Qed.
Print Assumptions ext_complete.

(* applying the function again changes nothing *)
Theorem ext_idem : forall e, ext (ext e) = ext e.
Proof. exact (ExtCallsProofs.ext_idem ext_default_ops). Qed.
Print Assumptions ext_idem.

(* ... and it changes nothing at all exactly when there is nothing to rewrite *)
Theorem ext_fixpoints : forall e, ext e = e <-> no_method_form ext_default_ops e.
Proof. exact (ExtCallsProofs.ext_spec_refl_iff ext_default_ops). Qed.
Print Assumptions ext_fixpoints.

(* for every backend, every environment (dataset) and every query whose method-form operator calls
   carry no keywords: whenever the original evaluates to v, so does the rewritten query *)
Theorem ext_sem :
  forall (B : backend) e, ops_kw_free ext_default_ops e = true ->
    forall E v, eval B ext_default_ops E e = Some v -> eval B ext_default_ops E (ext e) = Some v.
Proof. intros B e. exact (ExtCallsSem.ext_sem B ext_default_ops e). Qed.
Print Assumptions ext_sem.

(* the same four facts for any [function_names] list the caller passes *)
Theorem ext_with_exact : forall ops e e', ext_with ops e = e' <-> ext_spec ops e e'.
Proof. exact ExtCallsProofs.ext_exact. Qed.
Print Assumptions ext_with_exact.

Theorem ext_with_complete_idem :
  forall ops e, no_method_form ops (ext_with ops e) /\ ext_with ops (ext_with ops e) = ext_with ops e.
Proof. exact (fun ops e => conj (ExtCallsProofs.ext_complete ops e) (ExtCallsProofs.ext_idem ops e)). Qed.
Print Assumptions ext_with_complete_idem.

Theorem ext_with_sem :
  forall (B : backend) ops e, ops_kw_free ops e = true ->
    forall E v, eval B ops E e = Some v -> eval B ops E (ext_with ops e) = Some v.
Proof. exact ExtCallsSem.ext_sem. Qed.
Print Assumptions ext_with_sem.

(* "the known operator names": every sequence operator the reference semantics defines, and the
   three result terminals, are in the generated table (dropping one breaks this obligation) *)
Example ext_ops_known :
  forallb (in_names ext_default_ops)
    ["Select"; "SelectMany"; "Where"; "First"; "Count"; "Sum"; "Max"; "Min"; "Aggregate";
     "ResultTTree"; "ResultAwkwardArray"; "ResultPandasDF"] = true.
Proof. vm_compute. reflexivity. Qed.

(* non-vacuity *)
Definition B0 : backend := {| attr_sem := fun _ _ => None; meth_sem := fun _ _ _ _ => None; fun_sem := fun _ _ _ => None |}.
Definition ints (l : list Z) : value := VList (map VInt l).

(* s.Select(lambda x: x.Where(lambda y: y > 1).Count()).Where(lambda n: n > 0), with a non-operator
   method of the same shape left alone elsewhere *)
Definition q17 : expr :=
  Call (Attr
          (Call (Attr (Name "s") "Select")
                [Lambda ["x"] (Call (Attr (Call (Attr (Name "x") "Where")
                                                [Lambda ["y"] (Compare (Name "y") [CGt] [Const (CInt 1)])] [] [])
                                          "Count") [] [] [])] [] [])
          "Where")
       [Lambda ["n"] (Compare (Name "n") [CGt] [Const (CInt 0)])] [] [].

Example ext_hyp_met : ops_kw_free ext_default_ops q17 = true.
Proof. vm_compute. reflexivity. Qed.

Example ext_runs :
  ext q17 =
    Call (Name "Where")
      [Call (Name "Select")
         [Name "s";
          Lambda ["x"] (Call (Name "Count")
                          [Call (Name "Where") [Name "x"; Lambda ["y"] (Compare (Name "y") [CGt] [Const (CInt 1)])] [] []] [] [])]
         [] [];
       Lambda ["n"] (Compare (Name "n") [CGt] [Const (CInt 0)])] [] []
  /\ eval B0 ext_default_ops [("s", VList [ints [1; 2; 3]%Z; ints []; ints [5; 0]%Z])] q17 = Some (ints [2; 1]%Z)
  /\ eval B0 ext_default_ops [("s", VList [ints [1; 2; 3]%Z; ints []; ints [5; 0]%Z])] (ext q17) = Some (ints [2; 1]%Z).
Proof. split; [|split]; vm_compute; reflexivity. Qed.

(* selectivity: an unlisted method of the same shape, an attribute of an operator name, and a
   function-form call are left alone; operators inside keyword values and argument lists are found *)
Example ext_selective :
  ext (Call (Attr (Name "s") "Foo") [Lambda ["x"] (Attr (Name "x") "Select")] [Some "k"]
            [Call (Attr (Name "t") "First") [] [] []])
  = Call (Attr (Name "s") "Foo") [Lambda ["x"] (Attr (Name "x") "Select")] [Some "k"]
         [Call (Name "First") [Name "t"] [] []].
Proof. vm_compute. reflexivity. Qed.

(* keywords of a rewritten method call stay with the call, their values rewritten too (F39: they used to be
   dropped silently); [ext_sem] still carries [ops_kw_free] because the reference semantics hands the two
   keyword forms to different backend hooks *)
Example ext_keeps_keywords :
  ext (Call (Attr (Name "s") "Select") [Name "f"] [Some "k"] [Call (Attr (Name "t") "Count") [] [] []])
  = Call (Name "Select") [Name "s"; Name "f"] [Some "k"] [Call (Name "Count") [Name "t"] [] []]
  /\ ops_kw_free ext_default_ops (Call (Attr (Name "s") "Select") [Name "f"] [Some "k"] [Name "c"]) = false.
Proof. split; vm_compute; reflexivity. Qed.

(* C18 - Simplification is total on well-formed queries.

   Statements only; proofs in Proofs/SimplifyFacts.v and Proofs/SimplifyPkg.v.  What is proved (for
   every fuel, stack, counter and sub-term): the dedicated index error arises exactly for a constant
   index outside a tuple/list literal and the literal projection never fails otherwise; a
   non-constant selector, a constant of the wrong type, and an absent dictionary key leave a proper
   Subscript/Attribute node around the visited sub-terms (no raw Python value is ever put in a node
   slot: the model has no branch that builds a [Raw] node); the dispatch surface of the class is the
   one the model's rule bodies assume.
   Well-formed ([wfq]) = the three fusing operators are called with a source and a lambda, First() has
   an argument, operator names are not values, dictionary literals pair keys and values, lambda
   parameters are distinct, no raw slot and no comprehension node (sugar is lowered before the
   simplifier runs).
   The whole-algorithm theorem [simp_no_crash] (Proofs/SimplifyTotal.v): for every fuel, every
   well-formed substitution stack, every counter and every well-formed query the model never returns
   [Crash], and an [Ok] result is again well-formed - in particular it contains no raw slot, so it
   can be unparsed and compiled.  [IndexErr] (see above) and [OutOfFuel] are the only other outcomes.
   What is NOT proved (kept visible):
       termination - the algorithm re-visits its own output; fuel is explicit and [OutOfFuel] is
       excluded by the statement.  It is exercised by the correspondence (model OutOfFuel vs
       implementation RecursionError) of harness/props/c18.py only. *)
From FA.Base Require Import PyAst Value Traverse.
From FA.Gen Require Import TablesSimp.
From FA.Model Require Import Simplify.
From FA.Proofs Require Import SimplifyFacts SimplifyPkg SimplifyTotal SimplifyFuel.

Theorem index_error_exactly_out_of_range : forall es n,
  match seq_project es n with
  | Ok x => In x es /\ py_index es n = Some x
  | IndexErr => (n >= Z.of_nat (length es) \/ n < - Z.of_nat (length es))%Z
  | Crash _ => False
  | OutOfFuel => False
  end.
Proof. exact seq_project_spec. Qed.
Print Assumptions index_error_exactly_out_of_range.

Theorem out_of_range_constant_raises_index_error : forall f st bd c v s es n c1 c2,
  simp f st bd c v = Ok (Tuple es, c1) \/ simp f st bd c v = Ok (List es, c1) ->
  simp f st bd c1 s = Ok (Const (CInt n), c2) -> existsb is_starred es = false ->
  (n >= Z.of_nat (length es) \/ n < - Z.of_nat (length es))%Z ->
  simp (S f) st bd c (Subscript v s) = IndexErr.
Proof. exact project_out_of_range_step. Qed.
Print Assumptions out_of_range_constant_raises_index_error.

Theorem non_constant_selector_left_intact : forall f st bd c v s v' s' c1 c2,
  simp f st bd c v = Ok (v', c1) -> simp f st bd c1 s = Ok (s', c2) ->
  is_literal v' = true -> is_const (norm_index s') = false ->
  simp (S f) st bd c (Subscript v s) = Ok (Subscript v' (norm_index s'), c2).
Proof. exact odd_selector_step. Qed.
Print Assumptions non_constant_selector_left_intact.

(* a literal with a starred element (star-a, b)[0] has no fixed positions: the subscript stays (F37) *)
Theorem starred_literal_left_intact : forall f st bd c v s es k c1 c2,
  simp f st bd c v = Ok (Tuple es, c1) \/ simp f st bd c v = Ok (List es, c1) ->
  simp f st bd c1 s = Ok (Const k, c2) -> existsb is_starred es = true ->
  simp (S f) st bd c (Subscript v s)
  = Ok (Subscript (match simp f st bd c v with Ok (v', _) => v' | _ => v end) (Const k), c2).
Proof. exact starred_literal_step. Qed.
Print Assumptions starred_literal_left_intact.

(* a negative literal index -(n) is folded to a constant and projected like any other index *)
Theorem negative_literal_index_projected : forall f st bd c v s es n c1 c2 x,
  simp f st bd c v = Ok (Tuple es, c1) \/ simp f st bd c v = Ok (List es, c1) ->
  simp f st bd c1 s = Ok (UnaryOp USub (Const (CInt n)), c2) -> existsb is_starred es = false ->
  py_index es (- n) = Some x -> (- Z.of_nat (length es) <= - n < Z.of_nat (length es))%Z ->
  simp (S f) st bd c (Subscript v s) = Ok (x, c2).
Proof. exact negative_literal_step. Qed.
Print Assumptions negative_literal_index_projected.

Theorem wrong_type_constant_left_intact : forall f st bd c v s es k c1 c2,
  simp f st bd c v = Ok (Tuple es, c1) \/ simp f st bd c v = Ok (List es, c1) ->
  simp f st bd c1 s = Ok (Const k, c2) -> const_index k = None ->
  simp (S f) st bd c (Subscript v s)
  = Ok (Subscript (match simp f st bd c v with Ok (v', _) => v' | _ => v end) (Const k), c2).
Proof. exact odd_constant_step. Qed.
Print Assumptions wrong_type_constant_left_intact.

Theorem absent_key_left_intact : forall f st bd c v s ks vs k c1 c2,
  simp f st bd c v = Ok (Dict ks vs, c1) -> simp f st bd c1 s = Ok (Const k, c2) ->
  const_key k = true -> length ks = length vs -> dict_scan (rev ks) (rev vs) k = None ->
  simp (S f) st bd c (Subscript v s) = Ok (Subscript (Dict ks vs) (Const k), c2).
Proof. exact absent_key_step. Qed.
Print Assumptions absent_key_left_intact.

Theorem absent_attribute_left_intact : forall f st bd c v a ks vs c1,
  is_call_of v "First" = false ->
  simp f st bd c v = Ok (Dict ks vs, c1) -> length ks = length vs -> dict_scan (rev ks) (rev vs) (CStr a) = None ->
  simp (S f) st bd c (Attr v a) = Ok (Attr (Dict ks vs) a, c1).
Proof. exact absent_attr_step. Qed.
Print Assumptions absent_attribute_left_intact.

(* the headline: no crash, and well-formed in => well-formed out, for every fuel/stack/counter *)
Theorem simp_no_crash : forall fuel st bd c e,
  wfq e = true -> (forall x v, stack_lookup x st = Some v -> wfq v = true) ->
  match simp fuel st bd c e with
  | Ok (e', _) => wfq e' = true
  | Crash _ => False
  | IndexErr | OutOfFuel => True
  end.
Proof. intros fuel st bd c e Hw Hst. exact (SimplifyTotal.simp_no_crash fuel st bd c e Hw Hst). Qed.
Print Assumptions simp_no_crash.

Theorem simplify_no_crash : forall fuel c e,
  wfq e = true ->
  match simplify fuel c e with
  | Ok (e', _) => wfq e' = true
  | Crash _ => False
  | IndexErr | OutOfFuel => True
  end.
Proof. intros fuel c e Hw. exact (SimplifyTotal.simp_no_crash fuel [[]] [] c e Hw wfst_empty). Qed.
Print Assumptions simplify_no_crash.

(* the fuel is only a recursion budget: an outcome other than [OutOfFuel] is the same for every larger fuel, so two runs
   with enough fuel return the same result (termination itself - that enough fuel exists - is not proved) *)
Theorem fuel_is_only_a_budget : forall f1 f2 st bd c e r1 r2,
  simp f1 st bd c e = r1 -> simp f2 st bd c e = r2 -> r1 <> OutOfFuel -> r2 <> OutOfFuel -> r1 = r2.
Proof. exact simp_fuel_irrelevant. Qed.
Print Assumptions fuel_is_only_a_budget.

Theorem more_fuel_same_outcome : forall k f st bd c e r,
  simp f st bd c e = r -> r <> OutOfFuel -> simp (f + k) st bd c e = r.
Proof. exact simp_fuel_mono. Qed.
Print Assumptions more_fuel_same_outcome.

(* well-formed trees contain no raw slot, at any depth *)
Theorem wfq_no_raw : forall c, wfq (Raw c) = false.
Proof. reflexivity. Qed.

Theorem dispatch_surface : simp_call_handlers = ["Select"; "SelectMany"; "Where"]
                        /\ simp_visit_handlers = ["Attribute"; "Call"; "Lambda"; "Name"; "Subscript"].
Proof. split; [exact handlers_pinned | exact visitors_pinned]. Qed.
Print Assumptions dispatch_surface.

(* ---------- non-vacuity ---------- *)
Example wfq_holds_somewhere :
  wfq (function_call "Where" [function_call "Select" [Name "ds"; Lambda ["e"] (Tuple [Attr (Name "e") "a"; Subscript (Name "e") (Name "i")])];
                              Lambda ["t"] (Compare (Subscript (Name "t") (Const (CInt 0))) [CGt] [Const (CInt 0)])]) = true
  /\ wfq (function_call "Select" [Name "ds"]) = false          (* too few arguments: rejected by the hypothesis, crashes the code *)
  /\ wfq (Call (Lambda ["f"] (Call (Name "f") [Const (CInt 1)] [] [])) [Name "Select"] [] []) = false.   (* operator name as a value *)
Proof. repeat split; vm_compute; reflexivity. Qed.

Definition tup3 := Tuple [Const (CInt 1); Const (CInt 2); Const (CInt 3)].
Example odd_selectors_run :
     simplify 50 0 (Subscript tup3 (Name "i")) = Ok (Subscript tup3 (Name "i"), 0)
  /\ simplify 50 0 (Subscript tup3 (UnaryOp USub (Const (CInt 1)))) = Ok (Const (CInt 3), 0)
  /\ simplify 50 0 (Subscript tup3 (UnaryOp USub (Name "i"))) = Ok (Subscript tup3 (UnaryOp USub (Name "i")), 0)
  /\ simplify 50 0 (Subscript tup3 (UnaryOp USub (Const (CInt 4)))) = IndexErr
  /\ simplify 50 0 (Subscript tup3 (Const (CInt (-1)))) = Ok (Const (CInt 3), 0)
  /\ simplify 50 0 (Subscript tup3 (Const (CInt 3))) = IndexErr
  /\ simplify 50 0 (Subscript tup3 (Const (CInt (-4)))) = IndexErr
  /\ simplify 50 0 (Subscript tup3 (Const CNone)) = Ok (Subscript tup3 (Const CNone), 0)
  /\ simplify 50 0 (Subscript (Dict [Const (CStr "a")] [Const (CInt 1)]) (Const (CStr "b")))
     = Ok (Subscript (Dict [Const (CStr "a")] [Const (CInt 1)]) (Const (CStr "b")), 0)
  /\ simplify 50 0 (Attr (Dict [Const (CStr "a"); Const (CStr "a")] [Const (CInt 1); Const (CInt 2)]) "a") = Ok (Const (CInt 2), 0).
Proof. repeat split; vm_compute; reflexivity. Qed.

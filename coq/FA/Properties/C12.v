(* C12 - value() runs exactly the stream's query on its own dataset, once.
   Only statements here; proofs live in Proofs/StreamExec.v and Proofs/StreamRoot.v.
   [log st] is the list of executor invocations (executor, AST handed over, title), oldest first;
   value_async is split at its single await: ValueStart (executor lookup, cleaning, invocation) and
   ValueFinish (the awaited invocation completes) - any interleaving of pending calls is a history.
   ASSUMED, not provable in a Gallina model: the code between two awaits runs atomically (single-threaded
   asyncio); make_sync's thread hand-off and the event loop are not modelled. *)
From Coq Require Import String List Arith Bool.
From FA.Model Require Import Heap Stream.
From FA.Proofs Require Import HeapFacts StreamFrame StreamExec StreamRoot StreamExamples.
Import ListNotations.
Open Scope list_scope.
Open Scope nat_scope.

(* no executor is invoked while a query is being built (nor when a pending call completes) *)
Theorem no_exec_while_building : forall st o st' out,
  step st o = (st', out) -> is_value_start o = false -> log st' = log st.
Proof.
  intros st o st' out H Hv. destruct (StreamExec.no_exec_while_building st o st' out H Hv) as [[Hl _]|[_ Hl]]; exact Hl.
Qed.
Print Assumptions no_exec_while_building.

(* value_async on stream s: exactly one invocation - of the override if given, else of the executor found by
   following args[0] from the stream's root - with remove_empty of the stream's own dump and the given title;
   if the lookup or the cleaner raises, nothing is invoked and nothing changes *)
Theorem value_routes_once : forall st s ov title st' out ps t,
  nth_error (streams st) s = Some ps -> unfold (heap_ st) (root ps) = Some t ->
  step st (ValueStart s ov title) = (st', out) ->
  abs (heap_ st) (root ps) = Some (erase t) /\
  match (match ov with Some k => Ok (EOv k) | None => exec_walk t end), clean (erase t) with
  | Ok exe, Ok ast =>
      log st' = log st ++ [(exe, Some ast, title)] /\ out = OCall (length (calls st)) /\
      calls st' = calls st ++ [None] /\ streams st' = streams st /\ (exists e, heap_ st' = e ++ heap_ st)
  | Err e, _ => st' = st /\ out = OErr e
  | Ok _, Err e => st' = st /\ out = OErr e
  end.
Proof. exact StreamExec.value_routes_once. Qed.
Print Assumptions value_routes_once.

(* the caller of call c gets what the Finish event of call c carries - whatever other operations, Starts and
   Finishes of other calls come before or after it (every interleaving, every completion order) *)
Theorem value_returns_own : forall pre post c r,
  nth_error (calls (run pre)) c = Some None ->
  result_of (run (pre ++ ValueFinish c r :: post)) c = Some r.
Proof. exact StreamExec.value_returns_own. Qed.
Print Assumptions value_returns_own.

Theorem finish_only_own : forall st c r st' out c', step st (ValueFinish c r) = (st', out) -> c' <> c ->
  result_of st' c' = result_of st c'.
Proof. exact StreamExec.finish_only_own. Qed.
Print Assumptions finish_only_own.

Theorem result_has_finish : forall ops c r, result_of (run ops) c = Some r -> In (ValueFinish c r) ops.
Proof. exact StreamExec.result_has_finish. Qed.
Print Assumptions result_has_finish.

(* for every stream derived by any stream operations (incl. QMetaData on the root, callbacks' wrappers, terminals)
   from dataset d: find_EventDataset returns the node whose _eds_object is d, and _get_executor's walk ends at
   d's executor.  [ds_spec] replays the history: a new dataset gets the next number, a derived stream its parent's. *)
Theorem root_recoverable : forall ops s,
  forallb op_derived ops = true -> live (run ops) s ->
  stream_dataset (run ops) s = Ok (ds_spec ops s) /\ stream_executor (run ops) s = Ok (EDs (ds_spec ops s)).
Proof. exact StreamRoot.root_recoverable. Qed.
Print Assumptions root_recoverable.

(* combined: value() without override on any stream derived from dataset d runs exactly once, on d's executor, with
   remove_empty of the stream's own dump and the title - unless the cleaner raises, and then nothing runs *)
Theorem value_on_own_dataset : forall ops s title st' out,
  forallb op_derived ops = true -> live (run ops) s ->
  step (run ops) (ValueStart s None title) = (st', out) ->
  (exists t ast, abs (heap_ (run ops)) (match nth_error (streams (run ops)) s with Some x => root x | None => 0 end) = Some t /\
                 clean t = Ok ast /\
                 log st' = log (run ops) ++ [(EDs (ds_spec ops s), Some ast, title)] /\
                 out = OCall (length (calls (run ops)))) \/
  (exists e, st' = run ops /\ out = OErr e /\ log st' = log (run ops)).
Proof. exact StreamRoot.value_on_own_dataset. Qed.
Print Assumptions value_on_own_dataset.

(* the finder on any tree: no root or several roots are rejected, exactly one is found *)
Theorem bad_roots_rejected : forall X (t : gtree X),
  (count_roots t = 0 -> find_root t = Err ENoRoot) /\
  (count_roots t >= 2 -> find_root t = Err EManyRoots) /\
  (count_roots t = 1 -> exists n, find_root t = Ok n).
Proof. exact StreamExec.bad_roots_rejected. Qed.
Print Assumptions bad_roots_rejected.

(* non-vacuity on hist1: three calls on two datasets and an override, completing in the order 1, 2, 0 *)
Example routing_hist1 :
  map (fun x => fst (fst x)) (log (run hist1)) = [EDs 0; EDs 1; EOv 4] /\
  map snd (log (run hist1)) = [Some "title"%string; None; None] /\
  calls (run hist1) = [Some (RRet "zero"); Some (RRet "one"); Some (RRaise "KeyError")] /\
  (* the AST of call 0 is stream 2's dump with the three empty wrappers removed *)
  (exists t ast, obs (run hist1) 2 = Some (Some t, "Jet"%string) /\ clean t = Ok ast /\ t <> ast /\
                 nth_error (log (run hist1)) 0 = Some (EDs 0, Some ast, Some "title"%string)) /\
  (* building operations between the calls added nothing to the log *)
  length (log (run_prefix hist1 11)) = 1 /\ length (log (run_prefix hist1 7)) = 0.
Proof.
  split; [vm_compute; reflexivity|]. split; [vm_compute; reflexivity|]. split; [vm_compute; reflexivity|].
  split; [|split; vm_compute; reflexivity].
  vm_compute. eexists; eexists. split; [reflexivity|]. split; [reflexivity|]. split; [|reflexivity].
  intros H; discriminate H.
Qed.

Example returns_own_hist1 :
  nth_error (calls (run (firstn 13 hist1))) 1 = Some None /\ nth_error (calls (run (firstn 13 hist1))) 0 = Some None /\
  nth_error hist1 13 = Some (ValueFinish 1 (RRet "one")).
Proof. repeat split; vm_compute; reflexivity. Qed.

Example roots_hist1 :
  forallb op_derived hist1 = true /\
  map (stream_dataset (run hist1)) (seq 0 11) = map (fun s => Ok (ds_spec hist1 s)) (seq 0 11) /\
  map (ds_spec hist1) (seq 0 11) = [0; 0; 0; 0; 0; 0; 0; 1; 1; 0; 0].
Proof. split; [reflexivity|]. split; vm_compute; reflexivity. Qed.

(* hand-built ASTs: no root, two roots (the second inside a lambda); value() on them *)
Definition hist_bad : list op :=
  [ NewDataset "typing.Any";
    NewStream (call_ (name_ "f") [name_ "x"]) "typing.Any";                                                   (* s1: no root *)
    NewStream (call_ (name_ "Select") [sref 0; lambda_ "e" (call_ (name_ "EventDataset") [])]) "typing.Any";   (* s2: two roots *)
    ValueStart 1 None None;          (* AttributeError/IndexError family: no executor on the args[0] spine *)
    ValueStart 2 None None;          (* runs on dataset 0's executor: _get_executor only follows args[0] *)
    NewStream (name_ "x") "typing.Any"; ValueStart 3 None None ].
Example bad_roots :
  map (stream_dataset (run hist_bad)) [0; 1; 2] = [Ok 0; Err ENoRoot; Err EManyRoots] /\
  outs hist_bad = [OStream 0; OStream 1; OStream 2; OErr EAttribute; OCall 0; OStream 3; OErr EAttribute] /\
  map (fun x => fst (fst x)) (log (run hist_bad)) = [EDs 0].
Proof. repeat split; vm_compute; reflexivity. Qed.

(* C04 - captured variables are frozen by value at the call, respecting scope.  Statements only. *)
From FA.Base Require Import PyAst Value Eval Traverse.
From FA.Gen Require Import TablesUtil.
From FA.Model Require Import Capture.
From FA.Proofs Require Import Refine CaptureProofs CaptureSem.

Theorem capture_gate : forall e,
  (check_ast e = Ok tt <-> Forall (fun c => legal_const c = true) (consts_in e)) /\
  (check_ast e = Ok tt \/ check_ast e = Err EValueError).
Proof. intros e; split; [exact (check_ast_ok_iff e) | exact (check_ast_total e)]. Qed.
Print Assumptions capture_gate.

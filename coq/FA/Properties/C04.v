(* C04 - captured variables are frozen by value at the call, respecting scope.
   Statements only; proofs in Proofs/CaptureProofs.v and Proofs/CaptureSem.v.
   [rw ce st e] is the model of _rewrite_captured_vars (ignore stack [st], snapshot [ce]) with fixes
   F08, F19, FC1, FC3, FC7, FC8 applied; [check_ast] the gate over the generated list [legal_const_kinds].
   A lambda with default values or parameter kinds other than plain positional is an [Other] node decoded by
   [lam_view]/[lam_parts] (Model/Capture.v). *)
From FA.Base Require Import PyAst Value Eval Traverse.
From FA.Gen Require Import TablesUtil.
From FA.Model Require Import Capture.
From FA.Proofs Require Import Refine CaptureProofs CaptureSem CaptureGen.

(* --- capture_freezes (partial: names bound to plain literals; every expression; equality) ---
   Full statement aimed at:  eval later (rewrite_captured ce e) = eval (vals ce ++ later) e  for every expression and every
   snapshot, [vals ce] ranging over literals, class/module constants and inlinable helpers.
   Proved: exactly that equation - both directions, for every backend and EVERY expression tree (all node classes,
   comparisons, boolean operators, dictionaries, keyword arguments, called lambdas, comprehensions, any nesting and
   shadowing) - for ANY snapshot (module globals full of functions, classes, modules ...) provided the names that occur
   in the expression are bound there to int/bool/str/None literals or not at all ([lit_names ce e]) and no attribute is
   folded ([ce_attrs ce = []]).  The emitted tree needs nothing from any later environment.
   Missing: occurrences of names holding classes / modules / enums (attribute folding: the reference semantics has no
   class objects; the forward direction would be vacuous and the converse a statement about getattr) and of captured
   helpers (C05's clause: [capture_then_resolve_partial] below and C05.v).
   [has_walrus e = false] (since F42): the reference semantics has no assignment expressions, and a name one binds is a
   local of its lambda (never frozen, [capture_assigned_never_replaced] below) although the snapshot may hold a value
   under that name - the equation would compare it with a semantics that does not know the binding. *)
Theorem capture_freezes_partial :
  forall (B : backend) (ops : list string) ce e e',
    ce_attrs ce = [] -> lit_names ce e -> has_walrus e = false -> rewrite_captured ce e = Ok e' ->
    forall later, eval B ops later e' = eval B ops (vals ce ++ later) e.
Proof. exact rw_sem. Qed.
Print Assumptions capture_freezes_partial.

(* the whole callable path (freeze, then resolve the called lambdas written in the query): one direction, because
   resolving a call may drop an argument whose evaluation fails.  [first_order]: no lambda parameter is used as the
   callee of a call by name - the reference semantics has no function values. *)
Theorem capture_then_resolve_partial :
  forall (B : backend) (ops : list string) ce e e1 e2,
    ce_attrs ce = [] -> lit_names ce e -> has_walrus e = false -> rewrite_captured ce e = Ok e1 -> first_order e1 ->
    resolve_called e1 = Ok e2 ->
    forall later v, eval B ops (vals ce ++ later) e = Some v -> eval B ops later e2 = Some v.
Proof. exact parse_callable_sem. Qed.
Print Assumptions capture_then_resolve_partial.

(* --- capture_respects_scope: over all expression trees, by induction with the ignore stack as invariant ---
   Whatever the snapshot holds under a name that is on the ignore stack (a parameter of the passed lambda or of a
   nested lambda, a comprehension target) is irrelevant to the result, result and error alike. *)
Theorem capture_respects_scope :
  forall e st ce1 ce2, agree_off st ce1 ce2 -> rw ce1 st e = rw ce2 st e.
Proof. exact rw_scope. Qed.
Print Assumptions capture_respects_scope.

(* pushing names on the ignore stack is exactly deleting them from the snapshot *)
Theorem capture_stack_is_erasure : forall ce X st e, rw ce (X :: st) e = rw (erase X ce) (X :: st) e.
Proof. exact rw_stack_is_erasure. Qed.
Print Assumptions capture_stack_is_erasure.

(* the parameters of the passed lambda are never replaced, and a bound occurrence is returned as it is *)
Theorem capture_params_never_replaced :
  forall ce ps b, rewrite_captured ce (Lambda ps b) = rewrite_captured (erase ps ce) (Lambda ps b).
Proof. exact lambda_params_never_replaced. Qed.
Print Assumptions capture_params_never_replaced.

(* F42: a name bound by an assignment expression `(y := ..)` in the lambda's body is local to the lambda like a parameter:
   whatever the snapshot holds under it is irrelevant, target and uses stay names *)
Theorem capture_assigned_never_replaced :
  forall ce ps b, rewrite_captured ce (Lambda ps b) = rewrite_captured (erase (ps ++ assigned b) ce) (Lambda ps b).
Proof. exact lambda_bound_never_replaced. Qed.
Print Assumptions capture_assigned_never_replaced.

Theorem capture_assigned_on_ignore_stack :
  forall st ps b x, In x (assigned b) -> is_arg ((ps ++ assigned b) :: st) x = true.
Proof. exact rw_assigned_name_kept. Qed.
Print Assumptions capture_assigned_on_ignore_stack.

Theorem capture_bound_name_kept : forall ce st x, is_arg st x = true -> rw ce st (Name x) = Ok (Name x, Name x).
Proof. exact rw_bound_name. Qed.
Print Assumptions capture_bound_name_kept.

(* FC7 + FC8: a lambda with default values / keyword-only, positional-only, * or ** parameters ([lam_parts] decodes it):
   every name it binds is on the ignore stack while its body is rewritten, and its default values are rewritten with
   the ignore stack of the ENCLOSING scope - `lambda q, x=x: q + x` freezes the default `x`, not the parameter *)
Theorem capture_defaults_in_enclosing_scope :
  forall ce st cls atoms cs acls aatoms akids b lv,
    lam_parts cls cs = Some (acls, aatoms, akids, b, lv) ->
    rw ce st (Other cls atoms cs) =
    same (sbind (rw_list (fun k => if is_argnode k then Ok (k, k) else rw ce st k) akids) (fun akids' =>
          sbind (rw ce ((lv_params lv ++ assigned b) :: st) b) (fun pb =>
            Ok (Other cls atoms [Other acls aatoms akids'; fst pb])))).
Proof. exact rw_lambda_defaults_outer. Qed.
Print Assumptions capture_defaults_in_enclosing_scope.

(* --- capture_gate --- *)
Theorem capture_gate : forall e,
  (check_ast e = Ok tt <-> Forall (fun c => legal_const c = true) (consts_in e)) /\
  (check_ast e = Ok tt \/ check_ast e = Err EValueError).
Proof. intros e; split; [exact (check_ast_ok_iff e) | exact (check_ast_total e)]. Qed.
Print Assumptions capture_gate.

(* the operator never records a tree carrying a constant of an illegal kind *)
Theorem capture_gate_pipeline : forall ce src e',
  capture_pipeline ce src = Ok e' -> Forall (fun c => legal_const c = true) (consts_in e').
Proof. exact pipeline_gate. Qed.
Print Assumptions capture_gate_pipeline.

(* ---------- non-vacuity and pins ---------- *)
Definition B0 : backend := {| attr_sem := fun _ _ => None; meth_sem := fun _ _ _ _ => None; fun_sem := fun _ _ _ => None |}.
Definition ce0 : cenv :=
  {| ce_nonlocals := [("x", CVal (CInt 2))];
     ce_globals := [("x", CVal (CInt 1)); ("helper", CFun None); ("K", CVal (CObj "type" "K#0")); ("g", CVal (CInt 10))];
     ce_attrs := [] |}.
Ltac lit_names_tac := intros n Hn; simpl in Hn; repeat (destruct Hn as [<-|Hn]; [vm_compute; try discriminate; exact I|]); destruct Hn.
Definition jets : value := VList [VDict [VStr "pt"] [VInt 5]; VDict [VStr "pt"] [VInt 7]].

(* lambda e: e.jets.Select(lambda j: j.pt + x + g) with closure x = 2 hiding the global x = 1 (FC1), later rebound *)
Example freezes_runs :
  let body := Call (Attr (Attr (Name "e") "jets") "Select")
                   [Lambda ["j"] (BinOp BAdd (BinOp BAdd (Attr (Name "j") "pt") (Name "x")) (Name "g"))] [] [] in
  lit_names ce0 body /\ has_walrus body = false /\
  exists body', rewrite_captured ce0 body = Ok body' /\
    eval B0 ["Select"] (vals ce0 ++ [("x", VInt 99); ("e", VDict [VStr "jets"] [jets])]) body = Some (VList [VInt 17; VInt 19]) /\
    eval B0 ["Select"] [("x", VInt 99); ("e", VDict [VStr "jets"] [jets])] body' = Some (VList [VInt 17; VInt 19]).
Proof.
  split; [lit_names_tac|]. split; [reflexivity|].
  eexists; split; [vm_compute; reflexivity | split; vm_compute; reflexivity].
Qed.

(* comparisons, boolean operators, keyword arguments and a called lambda with a shadowing parameter, later rebinding *)
Example freezes_runs_all_nodes :
  let body := BoolOp And [Compare (Name "g") [CGt; CGt] [Name "x"; Const (CInt 0)];
                          Call (Lambda ["x"] (BinOp BAdd (Name "x") (Name "g"))) [Name "x"] [] [];
                          Call (Lambda ["q"; "x"] (BinOp BSub (Name "q") (Name "x"))) [] [Some "x"; Some "q"] [Name "x"; Name "g"]] in
  lit_names ce0 body /\ has_walrus body = false /\
  exists body', rewrite_captured ce0 body = Ok body' /\
    eval B0 [] (vals ce0 ++ [("x", VInt 99); ("g", VInt 98)]) body = Some (VInt 8) /\
    eval B0 [] [("x", VInt 99); ("g", VInt 98)] body' = Some (VInt 8).
Proof. split; [lit_names_tac|]. split; [reflexivity|]. eexists; split; [vm_compute; reflexivity | split; vm_compute; reflexivity]. Qed.

(* shadowing: nested lambda parameter, comprehension target (F08) and the passed lambda's own parameter *)
Example scope_runs :
  rewrite_captured ce0
    (Lambda ["e"] (Tuple [Call (Attr (Attr (Name "e") "jets") "Select") [Lambda ["x"] (Attr (Name "x") "pt")] [] [];
                          ListComp (Attr (Name "x") "pt") [CompFor (Name "x") (Attr (Name "e") "jets") [] false];
                          Name "x"]))
  = Ok (Lambda ["e"] (Tuple [Call (Attr (Attr (Name "e") "jets") "Select") [Lambda ["x"] (Attr (Name "x") "pt")] [] [];
                             ListComp (Attr (Name "x") "pt") [CompFor (Name "x") (Attr (Name "e") "jets") [] false];
                             Const (CInt 2)])).
Proof. vm_compute. reflexivity. Qed.

(* F19: attribute names of Python's own ast nodes on a capture-free lambda are left alone *)
Example astnames_untouched :
  rewrite_captured ce0 (Lambda ["e"] (Attr (Attr (Name "e") "x") "id")) = Ok (Lambda ["e"] (Attr (Attr (Name "e") "x") "id")).
Proof. vm_compute. reflexivity. Qed.

(* the gate: a captured list is refused with ValueError; bool passes because bool is an int *)
Example gate_refuses_list :
  capture_pipeline {| ce_nonlocals := [("l", CVal (CObj "other:list" "list#0"))]; ce_globals := []; ce_attrs := [] |}
                   (Lambda ["e"] (Name "l")) = Err EValueError.
Proof. vm_compute. reflexivity. Qed.

Example gate_kinds :
  map legal_const [CInt 1; CBool true; CStr "s"; CBytes "b"; CFloat "1.5"; CComplex "1j"; CObj "module" "math#0";
                   CNone; CEllipsis; CObj "type" "K#1"; CObj "other:tuple" "t#2"]
  = [true; true; true; true; true; true; true; false; false; false; false].
Proof. vm_compute. reflexivity. Qed.

(* FC7, FC8: lambda e: (lambda q, x=x: q + x)(e.a) + x  with x = 2 captured: the default and the last `x` are frozen,
   the parameter `x` and its use in the body are not; the keyword-only `x` of lambda j, *, x=g: j + x likewise *)
Definition argn (x : string) : expr := Other "arg;arg=a;annotation=0;type_comment=0" [CStr x] [].
Example defaults_frozen_parameters_kept :
  let lam d b := Other "Lambda;args=n;body=n" []
                       [Other "arguments;posonlyargs=[];args=[nn];vararg=0;kwonlyargs=[];kw_defaults=[];kwarg=0;defaults=[n]" []
                              [argn "q"; argn "x"; d]; b] in
  let kwo d b := Other "Lambda;args=n;body=n" []
                       [Other "arguments;posonlyargs=[];args=[n];vararg=0;kwonlyargs=[n];kw_defaults=[n];kwarg=0;defaults=[]" []
                              [argn "j"; argn "x"; d]; b] in
  rewrite_captured ce0
    (Lambda ["e"] (BinOp BAdd (Call (lam (Name "x") (BinOp BAdd (Name "q") (Name "x"))) [Attr (Name "e") "a"] [] []) (Name "x")))
  = Ok (Lambda ["e"] (BinOp BAdd (Call (lam (Const (CInt 2)) (BinOp BAdd (Name "q") (Name "x"))) [Attr (Name "e") "a"] [] [])
                            (Const (CInt 2)))) /\
  rewrite_captured ce0 (Lambda ["e"] (kwo (Name "g") (BinOp BAdd (Name "j") (Name "x"))))
  = Ok (Lambda ["e"] (kwo (Const (CInt 10)) (BinOp BAdd (Name "j") (Name "x")))) /\
  lam_parts "Lambda;args=n;body=n"
            [Other "arguments;posonlyargs=[];args=[n];vararg=0;kwonlyargs=[n];kw_defaults=[n];kwarg=0;defaults=[]" []
                   [argn "j"; argn "x"; Name "g"]; BinOp BAdd (Name "j") (Name "x")]
  = Some ("arguments;posonlyargs=[];args=[n];vararg=0;kwonlyargs=[n];kw_defaults=[n];kwarg=0;defaults=[]", [],
          [argn "j"; argn "x"; Name "g"], BinOp BAdd (Name "j") (Name "x"),
          {| lv_args := ["j"]; lv_params := ["j"; "x"]; lv_simple := false |}).
Proof. repeat split; vm_compute; reflexivity. Qed.

(* a captured value used in a starred argument is frozen like anywhere else (generic_visit of the Starred node) *)
Example starred_argument_frozen :
  rewrite_captured ce0 (Lambda ["e"] (Call (Name "helper") [Other "Starred;value=n" [] [List [Name "x"; Attr (Name "e") "a"]]] [] []))
  = Ok (Lambda ["e"] (Call (Name "helper") [Other "Starred;value=n" [] [List [Const (CInt 2); Attr (Name "e") "a"]]] [] [])).
Proof. vm_compute. reflexivity. Qed.

(* F42: with y = 3 captured (and x = 2), lambda e: (y := e.x) + y + x  keeps both `y` and freezes `x`; inside a nested lambda
   the assignment is local to that lambda only, the outer `y` is the captured one; a walrus in the default value of a nested
   lambda binds in the enclosing lambda.  Before the fix the target itself became a constant: (3 := e.x) + 3. *)
Definition walrus (x : string) (v : expr) : expr := Other "NamedExpr;target=n;value=n" [] [Name x; v].
Definition ce_y : cenv := {| ce_nonlocals := []; ce_globals := [("y", CVal (CInt 3)); ("x", CVal (CInt 2))]; ce_attrs := [] |}.
Example assigned_name_is_local :
  rewrite_captured ce_y (Lambda ["e"] (BinOp BAdd (BinOp BAdd (walrus "y" (Attr (Name "e") "x")) (Name "y")) (Name "x")))
  = Ok (Lambda ["e"] (BinOp BAdd (BinOp BAdd (walrus "y" (Attr (Name "e") "x")) (Name "y")) (Const (CInt 2)))) /\
  assigned (BinOp BAdd (walrus "y" (Attr (Name "e") "x")) (Name "y")) = ["y"] /\
  rewrite_captured ce_y (Lambda ["e"] (BinOp BAdd (Call (Attr (Attr (Name "e") "js") "Select")
                                                          [Lambda ["j"] (BinOp BAdd (walrus "y" (Name "j")) (Name "y"))] [] [])
                                                    (Name "y")))
  = Ok (Lambda ["e"] (BinOp BAdd (Call (Attr (Attr (Name "e") "js") "Select")
                                       [Lambda ["j"] (BinOp BAdd (walrus "y" (Name "j")) (Name "y"))] [] [])
                                 (Const (CInt 3)))) /\
  rewrite_captured ce_y (Lambda ["e"] (ListComp (BinOp BAdd (walrus "y" (Name "j")) (Name "y"))
                                                [CompFor (Name "j") (Attr (Name "e") "js") [] false]))
  = Ok (Lambda ["e"] (ListComp (BinOp BAdd (walrus "y" (Name "j")) (Name "y")) [CompFor (Name "j") (Attr (Name "e") "js") [] false])).
Proof. repeat split; vm_compute; reflexivity. Qed.

(* the rewriting before the fix: the parameters alone on the ignore stack *)
Example assigned_name_frozen_pinned_refuted :
  exists ce ps b, In "y" (assigned b) /\
    (match rw ce [ps] b with Ok p => fst p | Err _ => Name "" end)
    = BinOp BAdd (Other "NamedExpr;target=n;value=n" [] [Const (CInt 3); Attr (Name "e") "x"]) (Const (CInt 3)).
Proof.
  exists ce_y, ["e"], (BinOp BAdd (walrus "y" (Attr (Name "e") "x")) (Name "y")).
  split; [left; reflexivity | vm_compute; reflexivity].
Qed.

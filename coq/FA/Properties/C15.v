(* C15 - MetaData extraction and empty-metadata removal are exact.
   Only statements here; proofs live in Proofs/MetaDataProofs.v and Proofs/MetaDataRemove.v.
   [extract] / [remove_empty] are the models of meta_data.extract_metadata / remove_empty_metadata
   (Model/MetaData.v; [None] = the Python raises); [literal_eval] models ast.literal_eval on the
   literal sub-grammar.  The clause "leaves the AST it was given unmodified" is a statement about
   object identity and mutation, not about trees: it is checked on the implementation by the harness
   (dump and per-node attribute dictionaries before/after) and belongs to the heap model of C11. *)
From FA.Base Require Import PyAst Value Traverse.
From FA.Gen Require Import TablesMd TablesStream.
From FA.Model Require Import MetaData.
From FA.Proofs Require Import MetaDataProofs MetaDataRemove MetaDataNoMd.

(* ---------------- extract_metadata ---------------- *)

(* the pass computes exactly the relation: a wrapper is replaced by its processed source and puts its
   dictionary in front of those found in its source; every other node, of any class, is rebuilt
   unchanged around its processed children and contributes their lists in field order *)
Theorem extract_exact : forall e e' ms, extract e = Some (e', ms) <-> extract_spec e e' ms.
Proof. exact MetaDataProofs.extract_exact. Qed.
Print Assumptions extract_exact.

(* output = input with every reached wrapper replaced by its (recursively processed) source; nothing else changes *)
Theorem extract_only_unwraps : forall e e' ms, extract e = Some (e', ms) -> unwrap_spec e e'.
Proof. exact MetaDataProofs.extract_only_unwraps. Qed.
Print Assumptions extract_only_unwraps.

(* the list is exactly the values of the wrappers' dictionaries in pre-order: all found, none invented *)
Theorem extract_all_found : forall e e' ms,
  extract e = Some (e', ms) -> omap literal_eval (md_dicts e) = Some ms.
Proof. exact MetaDataProofs.extract_all_found. Qed.
Print Assumptions extract_all_found.

Theorem extract_count : forall e e' ms, extract e = Some (e', ms) -> length ms = length (md_dicts e).
Proof. exact MetaDataProofs.extract_count. Qed.
Print Assumptions extract_count.

(* wherever a wrapper sits (any depth, inside lambda bodies, arguments, keyword values), its dictionary
   is immediately followed in the list by the dictionaries of the wrappers inside its source *)
Theorem extract_outer_first : forall e e' ms src d rest kwn kwv,
  extract e = Some (e', ms) ->
  visited e (Call (Name md_name) (src :: d :: rest) kwn kwv) ->
  exists pre post v inner,
    literal_eval d = Some v /\ omap literal_eval (md_dicts src) = Some inner /\
    ms = pre ++ v :: inner ++ post.
Proof. exact MetaDataProofs.extract_outer_first. Qed.
Print Assumptions extract_outer_first.

(* no MetaData name-call is left anywhere in the output - provided the name MetaData is only ever
   used as a callee (otherwise see [extract_no_md_needs_hyp] below) *)
Theorem extract_no_md : forall e e' ms,
  md_callee_only e -> extract e = Some (e', ms) -> md_free e'.
Proof. exact MetaDataNoMd.extract_no_md. Qed.
Print Assumptions extract_no_md.

(* a query without wrappers is returned as it is, with an empty list *)
Theorem extract_md_free : forall e, md_free e -> extract e = Some (e, []).
Proof. exact MetaDataNoMd.extract_md_free. Qed.
Print Assumptions extract_md_free.

(* it raises exactly when a reached wrapper has fewer than two positional arguments, a second
   argument that is not a literal, or a first argument that is not a node *)
Theorem extract_defined_iff : forall e,
  (exists e' ms, extract e = Some (e', ms)) <->
  (forall w, visited e w -> is_md_call w = true -> good_wrapper w).
Proof. exact MetaDataProofs.extract_defined_iff. Qed.
Print Assumptions extract_defined_iff.

(* ---------------- remove_empty_metadata ---------------- *)

(* exactly the two-argument wrappers whose dictionary evaluates to {} are replaced by their processed
   source; all others (non-empty, one or three arguments, method form) stay in place *)
Theorem remove_exact : forall e e', remove_empty e = Some e' <-> remove_spec e e'.
Proof. exact MetaDataRemove.remove_exact. Qed.
Print Assumptions remove_exact.

Theorem remove_idem : forall e e', remove_empty e = Some e' -> remove_empty e' = Some e'.
Proof. exact MetaDataRemove.remove_idem. Qed.
Print Assumptions remove_idem.

(* it raises exactly when the visited form of some call is a two-argument wrapper whose second
   argument is not a literal *)
Theorem remove_none_iff : forall e, remove_empty e = None <-> remove_raises e.
Proof. exact MetaDataRemove.remove_none_iff. Qed.
Print Assumptions remove_none_iff.

Theorem remove_md_free : forall e, md_free e -> remove_empty e = Some e.
Proof. exact MetaDataNoMd.remove_md_free. Qed.
Print Assumptions remove_md_free.

(* ---------------- non-vacuity ---------------- *)

(* the wrapper name read from meta_data.py is the node name ObjectStream.MetaData emits (object_stream.py) *)
Example md_name_is_emitted :
  md_name = "MetaData" /\ existsb (fun r => String.eqb (snd (fst r)) md_name) operator_nodes = true.
Proof. split; vm_compute; reflexivity. Qed.

Definition dict1 (k : string) (z : Z) : expr := Dict [Const (CStr k)] [Const (CInt z)].
Definition md (src d : expr) : expr := Call (Name "MetaData") [src; d] [] [].

(* Select(MetaData(MetaData(ds, {'a': 1}), {'b': 2}), lambda e: MetaData(e.jets, {'c': 3}).Count()) *)
Definition q15 : expr :=
  Call (Name "Select")
    [md (md (Name "ds") (dict1 "a" 1)) (dict1 "b" 2);
     Lambda ["e"] (Call (Attr (md (Attr (Name "e") "jets") (dict1 "c" 3)) "Count") [] [] [])] [] [].

Definition ldict1 (k : string) (z : Z) : lit := LDict [LConst (CStr k)] [LConst (CInt z)].

Example extract_runs :
  extract q15 =
    Some (Call (Name "Select") [Name "ds"; Lambda ["e"] (Call (Attr (Attr (Name "e") "jets") "Count") [] [] [])] [] [],
          [ldict1 "b" 2; ldict1 "a" 1; ldict1 "c" 3]).
Proof. vm_compute. reflexivity. Qed.

(* the outer wrapper of the source chain is reached, and so is the one inside the lambda body *)
Example extract_outer_first_hyp :
  visited q15 (md (md (Name "ds") (dict1 "a" 1)) (dict1 "b" 2)) /\
  visited q15 (md (Attr (Name "e") "jets") (dict1 "c" 3)).
Proof.
  split.
  - eapply V_child; [reflexivity | right; left; reflexivity | apply V_here].
  - eapply V_child; [reflexivity | right; right; left; reflexivity |].
    eapply V_child; [reflexivity | left; reflexivity |].
    eapply V_child; [reflexivity | left; reflexivity |].
    eapply V_child; [reflexivity | left; reflexivity | apply V_here].
Qed.

Example extract_raises :
  extract (Call (Name "MetaData") [Name "ds"] [] []) = None /\
  extract (md (Name "ds") (Name "x")) = None /\
  extract (Lambda ["e"] (md (Name "e") (Dict [List []] [Const (CInt 1)]))) = None.
Proof. repeat split; vm_compute; reflexivity. Qed.

(* three-argument and keyword-carrying wrappers are unwrapped too, their extra arguments dropped unvisited *)
Example extract_three_args :
  extract (Call (Name "MetaData") [Name "ds"; dict1 "a" 1; md (Name "t") (dict1 "z" 9)] [Some "k"] [Name "v"])
  = Some (Name "ds", [ldict1 "a" 1]).
Proof. vm_compute. reflexivity. Qed.

(* why [extract_no_md] needs its hypothesis: MetaData(MetaData, {})(x) *)
Example extract_no_md_needs_hyp :
  extract (Call (md (Name "MetaData") (Dict [] [])) [Name "x"] [] []) = Some (Call (Name "MetaData") [Name "x"] [] [], [LDict [] []]).
Proof. vm_compute. reflexivity. Qed.

Example md_callee_only_q15 : md_callee_only_b q15 = true.
Proof. vm_compute. reflexivity. Qed.

(* MetaData(Select(MetaData(MetaData(ds, {}), {'a': 1}), lambda e: MetaData(e, {})), {}) with a
   1-argument, a 3-argument and a method-form wrapper elsewhere *)
Definition r15 : expr :=
  Tuple [md (Call (Name "Select") [md (md (Name "ds") (Dict [] [])) (dict1 "a" 1);
                                   Lambda ["e"] (md (Name "e") (Dict [] []))] [] []) (Dict [] []);
         Call (Name "MetaData") [Name "s"] [] [];
         Call (Name "MetaData") [Name "s"; Dict [] []; Name "x"] [] [];
         Call (Attr (Name "s") "MetaData") [Dict [] []] [] []].

Example remove_runs :
  remove_empty r15 =
    Some (Tuple [Call (Name "Select") [md (Name "ds") (dict1 "a" 1); Lambda ["e"] (Name "e")] [] [];
                 Call (Name "MetaData") [Name "s"] [] [];
                 Call (Name "MetaData") [Name "s"; Dict [] []; Name "x"] [] [];
                 Call (Attr (Name "s") "MetaData") [Dict [] []] [] []]).
Proof. vm_compute. reflexivity. Qed.

Example remove_idem_ex :
  forall r, remove_empty r15 = Some r -> remove_empty r = Some r /\ r <> r15.
Proof. intros r H. vm_compute in H. inversion H; subst. split; [vm_compute; reflexivity | discriminate]. Qed.

Example md_free_ex :
  let q := Call (Name "Select") [Name "ds"; Lambda ["e"] (Call (Attr (Name "e") "MetaData") [Dict [] []] [] [])] [] [] in
  extract q = Some (q, []) /\ remove_empty q = Some q.
Proof. split; vm_compute; reflexivity. Qed.

Example remove_raises_ex : remove_empty (md (Name "ds") (Name "x")) = None.
Proof. vm_compute. reflexivity. Qed.

(* the test is made on the visited node: the second argument becomes {} only after cleaning *)
Example remove_visited_node :
  remove_empty (md (Name "a") (md (Dict [] []) (Dict [] []))) = Some (Name "a").
Proof. vm_compute. reflexivity. Qed.

(* literal_eval on the literal sub-grammar *)
Example literal_eval_ex :
  literal_eval (Dict [Const (CInt 1); Const (CStr "k"); Const (CBool true); Tuple [Const (CInt 2)]]
                     [Const (CStr "a"); UnaryOp USub (Const (CInt 5)); List []; Const CNone])
  = Some (LDict [LConst (CInt 1); LConst (CStr "k"); LTuple [LConst (CInt 2)]]
                [LList []; LConst (CInt (-5)); LConst CNone])
  /\ literal_eval (UnaryOp USub (Const (CBool true))) = None
  /\ literal_eval (Dict [Dict [] []] [Const (CInt 1)]) = None.
Proof. repeat split; vm_compute; reflexivity. Qed.

(* C03 - Source recovery returns the lambda that was actually passed.
   Only statements here; proofs are in Proofs/LambdaFinderProofs.v, the concrete token streams in
   Proofs/LambdaFinderWitness.v.

   [find P streams L is_lam dsrc caller args] (Model/LambdaFinder.v) is the token-level model of
   util_ast._parse_source_for_lambda *with the fixes F15 and F15b*; [find_pinned] is the selection of
   the pinned commit.  Inputs that are CPython's (tied to the code by correspondence only, never
   proved): the token streams ([streams] = what tokenize yields from row L, L-1, ... with absolute
   rows), L (= inspect.findsource), [P] (= untokenize + ast.parse + first Lambda of an extent's
   tokens; every theorem is quantified over all P), [dsrc] (statement kinds of a def body).
   Outcomes: [Found s k] = the lambda whose `lambda` token is token k of stream s; [FoundDef];
   [Err _] = ValueError; [Crash _] = another exception; [NeedStream] = input too short. *)
From Coq Require Import List String ZArith Bool Arith.
From FA.Model Require Import LambdaFinder LambdaFinderSpec.
From FA.Proofs Require Import LambdaFinderProofs LambdaFinderLayouts LambdaFinderWitness.
Import ListNotations.
Open Scope string_scope.

(* SAFETY.  Whatever is returned is the lambda that was passed.  Hypotheses (boolean, evaluated by
   the harness on every generated layout): in the stream the answer refers to, tokenize's rows are
   monotone ([rows_okb]); token k0 is a `lambda` on row L whose nearest preceding NAME (no `,`/`)`
   in between) is the caller and whose extent CPython parses to the parameters [args]
   ([lambda_atb]); no earlier `lambda` token's argument extent reaches k0 ([not_nestedb]: the passed
   lambda is not written inside another lambda of the scanned region - func_adl never executes
   lambda bodies, so a nested lambda is never the callable).  Bracket balance is NOT needed. *)
Theorem finder_never_picks_neighbour :
  forall P streams L dsrc caller args s k toks k0,
    find P streams L true dsrc (Some caller) args = Found s k ->
    nth_error streams s = Some toks ->
    rows_okb toks = true ->
    lambda_atb P toks k0 L caller args = true ->
    not_nestedb toks k0 = true ->
    k = k0.
Proof. exact never_picks_neighbour. Qed.
Print Assumptions finder_never_picks_neighbour.

(* ... and a lambda is never answered by a `def`, a `def` never by a lambda *)
Theorem lambda_never_def :
  forall P streams L dsrc caller args, find P streams L true dsrc caller args <> FoundDef.
Proof. exact LambdaFinderProofs.lambda_never_def. Qed.
Print Assumptions lambda_never_def.

Theorem def_never_lambda :
  forall P streams L dsrc caller args s k, find P streams L false dsrc caller args <> Found s k.
Proof. exact LambdaFinderProofs.def_never_lambda. Qed.
Print Assumptions def_never_lambda.

(* two lambdas of the scanned region with the caller's name and the callable's parameter names on
   the callable's row: nothing is returned (the code raises) *)
Theorem finder_raises_when_ambiguous :
  forall P streams L dsrc caller args toks k1 k2,
    k1 <> k2 ->
    rows_okb toks = true ->
    lambda_atb P toks k1 L caller args = true -> not_nestedb toks k1 = true ->
    lambda_atb P toks k2 L caller args = true -> not_nestedb toks k2 = true ->
    forall s k, nth_error streams s = Some toks ->
                find P streams L true dsrc (Some caller) args <> Found s k.
Proof. exact raises_when_ambiguous. Qed.
Print Assumptions finder_raises_when_ambiguous.

(* TOTALITY.  The selection logic itself never crashes: if the tokenizer does not raise in any
   stream handed over, CPython parses every extent to a lambda, and the def source is available,
   the outcome is Found / FoundDef / Err (ValueError) / NeedStream.  (Whether CPython parses an
   extent is where bracket balance of the source enters; it is part of [P].) *)
Theorem finder_total :
  forall P streams L is_lam dsrc caller args,
    (forall x, exists a, P x = PArgs a) ->
    forallb no_err_toks streams = true ->
    (forall e, dsrc <> DSExc e) ->
    forall c, find P streams L is_lam dsrc caller args <> Crash c.
Proof. exact LambdaFinderProofs.finder_total. Qed.
Print Assumptions finder_total.

(* LIVENESS (partial).  Full statement wanted: every layout documented as supported is recovered
   without error, [supported_layout toks k0 -> find ... = Found k0].  Proved for the following
   inductive family (Model/LambdaFinderSpec.v: segment, segs_ok, end_ok, supported_layoutb):
   the stream the scan settles on (after [earlier] streams that start with a bare `lambda` and make
   it back up) is a sequence of call segments
        glue  NAME(f)  gap  `lambda`  body  stop        followed by [tail]
   glue = anything without a `lambda` NAME / NEWLINE token (for the first segment: anything without
   the keyword), gap = no NAME, no `,` `)`, no NEWLINE (e.g. `(`, NL, comments), body = the argument
   (any tokens - strings, comments, nested lambdas, brackets - with no `,`/`)` at relative depth 0,
   brackets balanced at its end), stop = `,` or `)`; only the last body may contain a line break,
   otherwise the rest of the logical line has no further `lambda`; CPython parses every segment's
   extent; exactly the passed segment g0 has (row L, caller, args).
   This covers: one lambda per call (black-style one call per line, wrapped argument on its own
   line), several calls on a line told apart by method name or by parameter names, multi-line
   bodies, comments/strings containing brackets or the word lambda, inline-then-wrapped chains.
   MISSING from the full statement: layouts where an *earlier* segment's argument spans lines
   (the chain continuing on the last line of a multi-line argument is then found through a later
   start row, i.e. a different stream decomposition, not described by one segment list), backslash
   continuations across segments, lambdas that are not the first thing after `NAME(`, and the def
   branch; and that the harness's "documented" labels imply [supported_layoutb] is checked by
   evaluation on every generated case, not proved. *)
Theorem finder_supported_layouts_partial :
  forall P L dsrc caller args earlier gs1 g0 gs2 tail,
    forallb (backs_up P) earlier = true ->
    supported_layoutb P L caller args gs1 g0 gs2 tail = true ->
    find P (earlier ++ [layout_toks (gs1 ++ g0 :: gs2) tail]) L true dsrc (Some caller) args
    = Found (List.length earlier) (seg_start g0 (List.length (flat_map seg_toks gs1))).
Proof. exact supported_layouts_b. Qed.
Print Assumptions finder_supported_layouts_partial.

(* THE PINNED COMMIT IS REFUTED (finding F15): with the selection that loses the line constraint
   the safety statement fails on the token stream of
       ds.Select(lambda j: j.jets.Select(
           lambda j: j.pt)).Select(lambda j: j + 1)
   for the third lambda (token 25 of the stream read from row 1, row 2): token 4 is returned. *)
Theorem finder_never_picks_neighbour_pinned_refuted :
  exists P streams L dsrc caller args s k toks k0,
    find_pinned P streams L true dsrc (Some caller) args = Found s k /\
    nth_error streams s = Some toks /\ rows_okb toks = true /\
    lambda_atb P toks k0 L caller args = true /\ not_nestedb toks k0 = true /\ k <> k0.
Proof. exact pinned_refuted. Qed.
Print Assumptions finder_never_picks_neighbour_pinned_refuted.

(* the same witness with only F15b applied: it is the missing row constraint that matters *)
Theorem finder_never_picks_neighbour_norow_refuted :
  exists P streams L dsrc caller args s k toks k0,
    find_norow P streams L true dsrc (Some caller) args = Found s k /\
    nth_error streams s = Some toks /\ rows_okb toks = true /\
    lambda_atb P toks k0 L caller args = true /\ not_nestedb toks k0 = true /\ k <> k0.
Proof. exact norow_refuted. Qed.
Print Assumptions finder_never_picks_neighbour_norow_refuted.

(* finding F15b: searching `def` and `lambda` together answers the lambda inside
       def get(d): return d.Select(lambda e: e.pt)
   by the enclosing def *)
Theorem lambda_never_def_pinned_refuted :
  exists P streams L dsrc caller args, find_pinned P streams L true dsrc caller args = FoundDef.
Proof. exact defkw_refuted. Qed.
Print Assumptions lambda_never_def_pinned_refuted.

(* ---- non-vacuity: documented layouts meet the hypotheses and are found ---- *)
(* black-style chain, the .Where line (with a trailing comment holding `lambda e: (`) *)
Example black_chain_meets_hypotheses :
  rows_okb black_s0 = true /\ lambda_atb P_names black_s0 4 3 "Where" ["e"] = true /\ not_nestedb black_s0 4 = true
  /\ find P_names [black_s0] 3 true (DSBody []) (Some "Where") ["e"] = Found 0 4.
Proof. vm_compute. repeat split. Qed.

(* the wrapped second Select of `ds.Select(lambda e: e.y).Select(<newline> lambda e: e.x <newline>)`:
   recovered after backing up one row (the pinned commit raises "multiple" here) *)
Example wrapped_same_signature_recovered :
  lambda_atb P_names wrap_s1 17 2 "Select" ["e"] = true /\ not_nestedb wrap_s1 17 = true
  /\ find P_names [wrap_s0; wrap_s1] 2 true (DSBody []) (Some "Select") ["e"] = Found 1 17
  /\ find_pinned P_names [wrap_s0; wrap_s1] 2 true (DSBody []) (Some "Select") ["e"] = Err EMultiple.
Proof. vm_compute. repeat split. Qed.

(* several calls on a line: told apart by the method name; equal names and parameters raise *)
Example same_line_by_method_name :
  find P_names [amb_s0] 1 true (DSBody []) (Some "Where") ["e"] = Found 0 16
  /\ find P_names [amb_s0] 1 true (DSBody []) (Some "Select") ["e"] = Err EMultiple
  /\ lambda_atb P_names amb_s0 6 1 "Select" ["e"] = true /\ not_nestedb amb_s0 6 = true
  /\ lambda_atb P_names amb_s0 28 1 "Select" ["e"] = true /\ not_nestedb amb_s0 28 = true.
Proof. vm_compute. repeat split. Qed.

(* the fixed algorithm on the two finding witnesses: raises / finds the lambda *)
Example fixed_on_witnesses :
  find P_names [w15_s0; w15_s1] 2 true (DSBody []) (Some "Select") ["j"] = Err ENoLambda
  /\ find P_names [w15b_s0] 1 true (DSBody [SReturn]) (Some "Select") ["e"] = Found 0 11.
Proof. vm_compute. repeat split. Qed.

(* a def is answered through the def branch; a def with two statements is refused *)
Example def_branch :
  find P_names [w15b_s0] 1 false (DSBody [SDoc; SReturn]) (Some "Select") ["d"] = FoundDef
  /\ find P_names [w15b_s0] 1 false (DSBody [SOther; SReturn]) (Some "Select") ["d"] = Err EDefLines.
Proof. vm_compute. repeat split. Qed.

(* the three documented layouts above are instances of the segment family (and the index the
   theorem predicts is the one computed) *)
Example same_line_is_supported_layout :
  layout_toks [amb_g1; amb_g2; amb_g3] amb_tail = amb_s0
  /\ supported_layoutb P_names 1 "Where" ["e"] [amb_g1] amb_g2 [amb_g3] amb_tail = true
  /\ seg_start amb_g2 (List.length (flat_map seg_toks [amb_g1])) = 16.
Proof. vm_compute. repeat split. Qed.

Example black_chain_is_supported_layout :
  layout_toks [black_g1] black_tail = black_s0
  /\ supported_layoutb P_names 3 "Where" ["e"] [] black_g1 [] black_tail = true
  /\ seg_start black_g1 0 = 4.
Proof. vm_compute. repeat split. Qed.

Example wrapped_is_supported_layout :
  layout_toks [wrap_g1; wrap_g2] wrap_tail = wrap_s1
  /\ forallb (backs_up P_names) [wrap_s0] = true
  /\ supported_layoutb P_names 2 "Select" ["e"] [wrap_g1] wrap_g2 [] wrap_tail = true
  /\ seg_start wrap_g2 (List.length (flat_map seg_toks [wrap_g1])) = 17.
Proof. vm_compute. repeat split. Qed.

(* the hypotheses of finder_total are met by a real stream and the stand-in parser *)
Example total_hypotheses_met :
  forallb no_err_toks [wrap_s0; wrap_s1] = true /\ (forall x, exists a, P_names x = PArgs a).
Proof. split; [vm_compute; reflexivity | intros x; eexists; reflexivity]. Qed.

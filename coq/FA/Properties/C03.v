(* C03 - source recovery returns the lambda that was actually passed (placeholder while the
   pipeline is brought up). *)
From Coq Require Import List String.
From FA.Model Require Import LambdaFinder LambdaFinderSpec.
From FA.Proofs Require Import LambdaFinderProofs.

Theorem def_branch_never_a_lambda : forall d s k, def_outcome d <> Found s k.
Proof. exact def_outcome_not_found. Qed.
Print Assumptions def_branch_never_a_lambda.

(* C03 - Source recovery returns the lambda that was actually passed.
   Only statements here; proofs are in Proofs/LambdaFinderProofs.v, the concrete token streams in
   Proofs/LambdaFinderWitness.v.

   [find P streams L is_lam dsrc caller args] (Model/LambdaFinder.v) is the token-level model of
   util_ast._parse_source_for_lambda *with the fixes F15, F15b and F28* (the library at d451731);
   [find_pinned] is the selection of the pinned commit, [find_kwname] the one before d451731 (F28).  Inputs that are CPython's (tied to the code by correspondence only, never
   proved): the token streams ([streams] = what tokenize yields from row L, L-1, ... with absolute
   rows), L (= inspect.findsource), [P] (= untokenize + ast.parse + first Lambda of an extent's
   tokens; every theorem is quantified over all P), [dsrc] (statement kinds of a def body).
   Outcomes: [Found s k] = the lambda whose `lambda` token is token k of stream s; [FoundDef];
   [Err _] = ValueError; [Crash _] = another exception; [NeedStream] = input too short.

   OPEN FINDING NOT COVERED BY THE SAFETY THEOREM (KNOWN_FINDINGS.txt `open: property=C03`, harness
   c03.KNOWN_OPEN).  [finder_never_picks_neighbour] assumes [lambda_atb P toks k0 L caller args]; its
   conjunct [called_byb toks k0 caller] says that the identifier find_identifier returns with the passed
   lambda ([key_before toks k0]) is the caller.  That holds when the lambda is written directly as the
   operator's argument (by position or by keyword).  It FAILS when the passed lambda is the second branch
   of a conditional expression (`ds.Select((lambda x: ..) if flag else (lambda x: ..))`: key `else`) or the
   argument of a pass-through helper (`ds.Select(keep(lambda x: ..))`: key `keep`): the passed lambda is
   then not a candidate of the caller at all, and if another lambda of the logical line is filed under the
   caller with the same parameter names, that one is the unique candidate and is returned.  The other
   hypotheses (rows, row L, parse of the extent, not nested) hold on these witnesses; the model reproduces
   the defect: [passed_lambda_not_direct_argument_open_refuted] below.  (With different
   parameter names, or no same-method neighbour, the outcome is Err - allowed.) *)
From Coq Require Import List String ZArith Bool Arith.
From FA.Model Require Import LambdaFinder LambdaFinderSpec.
From FA.Proofs Require Import LambdaFinderProofs LambdaFinderLayouts LambdaFinderWitness.
Import ListNotations.
Open Scope string_scope.

(* SAFETY.  Whatever is returned is the lambda that was passed.  Hypotheses (boolean, evaluated by
   the harness on every generated layout): in the stream the answer refers to, tokenize's rows are
   monotone ([rows_okb]); token k0 is a `lambda` on row L whose nearest preceding NAME (no `,`/`)`
   in between; a NAME immediately followed by the OP `=` - the keyword of an argument, `f=lambda` -
   does not count, the NAME before it does: [key_before]) is the caller and whose extent CPython
   parses to the parameters [args] ([lambda_atb]); no earlier `lambda` token's argument extent reaches k0 ([not_nestedb]: the passed
   lambda is not written inside another lambda of the scanned region - func_adl never executes
   lambda bodies, so a nested lambda is never the callable).  Bracket balance is NOT needed. *)
Theorem finder_never_picks_neighbour :
  forall P streams L dsrc caller args s k toks k0,
    find P streams L true dsrc (Some caller) args = Found s k ->
    nth_error streams s = Some toks ->
    rows_okb toks = true ->
    lambda_atb P toks k0 L caller args = true ->
    not_nestedb toks k0 = true ->
    k = k0.
Proof. exact never_picks_neighbour. Qed.
Print Assumptions finder_never_picks_neighbour.

(* ... and a lambda is never answered by a `def`, a `def` never by a lambda *)
Theorem lambda_never_def :
  forall P streams L dsrc caller args, find P streams L true dsrc caller args <> FoundDef.
Proof. exact LambdaFinderProofs.lambda_never_def. Qed.
Print Assumptions lambda_never_def.

Theorem def_never_lambda :
  forall P streams L dsrc caller args s k, find P streams L false dsrc caller args <> Found s k.
Proof. exact LambdaFinderProofs.def_never_lambda. Qed.
Print Assumptions def_never_lambda.

(* two lambdas of the scanned region with the caller's name and the callable's parameter names on
   the callable's row: nothing is returned (the code raises) *)
Theorem finder_raises_when_ambiguous :
  forall P streams L dsrc caller args toks k1 k2,
    k1 <> k2 ->
    rows_okb toks = true ->
    lambda_atb P toks k1 L caller args = true -> not_nestedb toks k1 = true ->
    lambda_atb P toks k2 L caller args = true -> not_nestedb toks k2 = true ->
    forall s k, nth_error streams s = Some toks ->
                find P streams L true dsrc (Some caller) args <> Found s k.
Proof. exact raises_when_ambiguous. Qed.
Print Assumptions finder_raises_when_ambiguous.

(* TOTALITY.  The selection logic itself never crashes: if the tokenizer does not raise in any
   stream handed over, CPython parses every extent to a lambda, and the def source is available,
   the outcome is Found / FoundDef / Err (ValueError) / NeedStream.  (Whether CPython parses an
   extent is where bracket balance of the source enters; it is part of [P].) *)
Theorem finder_total :
  forall P streams L is_lam dsrc caller args,
    (forall x, exists a, P x = PArgs a) ->
    forallb no_err_toks streams = true ->
    (forall e, dsrc <> DSExc e) ->
    forall c, find P streams L is_lam dsrc caller args <> Crash c.
Proof. exact LambdaFinderProofs.finder_total. Qed.
Print Assumptions finder_total.

(* LIVENESS.  Full statement wanted: every layout documented as supported is recovered without
   error, [supported_layout toks k0 -> find ... = Found k0].  It is proved for an inductive family of
   *token streams* (Model/LambdaFinderSpec.v: segment, segs_ok, end_ok, supported_layoutb): the
   stream the scan settles on (after [earlier] streams that start with a bare `lambda` and make it
   back up; [more] = further streams, never read) is a sequence of call segments
        glue  NAME(f)  gap  `lambda`  body  stop        followed by [tail]
   glue = anything without a `lambda` NAME / NEWLINE token (for the first segment: anything at all
   without the keyword - in particular the unbalanced remainder `e.b)).` of an argument that began
   on an earlier row), gap = no NEWLINE, not beginning with `=`, every NAME in it immediately followed
   by `=` (`(`, NL, comments, even `,`; and since d451731 the keywords of arguments: `(f=`,
   `(n=1, f=` - [gap_ok]), body = the
   argument (any tokens - strings, comments, nested lambdas, brackets - with no `,`/`)` at relative
   depth 0, balanced at its end), stop = `,` or `)`; only the last body may contain a line break,
   otherwise the rest of the logical line has no further `lambda`; CPython parses every segment's
   extent; exactly the passed segment g0 has (row L, caller, args).
   Covered: one lambda per call (black-style, wrapped argument on its own line), several calls on a
   line told apart by method or parameter names, multi-line bodies, comments/strings with brackets
   or the word lambda, inline-then-wrapped chains; (a) a chain continuing on the last row of an
   earlier multi-line argument - read from that row the remainder of the argument is glue (Examples
   tail_row_..., continuation_row_...); (b) backslash continuations - one logical line, the row
   constraint tells the segments apart (Example backslash_...; the pinned commit raises there).
   (c) a lambda that is not the first argument of its call is NOT recovered by the code (its nearest
   NAME is not the caller): that is a proved refusal, [finder_uncalled_raises]; (d) the def branch:
   [def_supported], [def_exact], [def_found_only_own_return] below; (e) a lambda passed by keyword
   (`m(k=lambda ...)`): [keyword_lambda_filed_under_method], [keyword_lambda_recovered] below.
   [finder_layout_outcome] gives the outcome on EVERY segment layout (= the three filters applied to
   the segments), of which supported / ambiguous / uncalled are corollaries.
   STILL MISSING from the full statement: (1) the family is over token streams per start row; that a
   *source text* of a given shape tokenizes (from each start row) to such a stream is CPython's
   tokenizer and is checked by evaluation of the syntactic recogniser [recognisedb] on every
   generated case, not proved; (2) lambdas whose nearest preceding NAME is separated from them by
   another complete argument holding a NAME are outside the grammar (they raise); (3) layouts where
   a tokenizer error token precedes the end of the scanned logical line. *)
Theorem finder_supported_layouts_partial :
  forall P L dsrc caller args earlier more gs1 g0 gs2 tail,
    forallb (backs_up P) earlier = true ->
    supported_layoutb P L caller args gs1 g0 gs2 tail = true ->
    find P (earlier ++ layout_toks (gs1 ++ g0 :: gs2) tail :: more) L true dsrc (Some caller) args
    = Found (List.length earlier) (seg_start g0 (List.length (flat_map seg_toks gs1))).
Proof. exact supported_layouts_b. Qed.
Print Assumptions finder_supported_layouts_partial.

(* the outcome on every segment layout: the scan yields exactly the segments' lambdas, and the result
   is the selection (row, caller name, parameter names; multiplicity) among them *)
Theorem finder_layout_outcome :
  forall P L dsrc caller args earlier more gs tail,
    forallb (backs_up P) earlier = true ->
    segs_ok true ["lambda"] gs = true ->
    forallb (seg_parsed P) gs = true ->
    end_ok gs tail = true ->
    find P (earlier ++ layout_toks gs tail :: more) L true dsrc caller args
    = select true L caller args (List.length earlier) (cands_from P gs 0).
Proof. exact segment_layout_outcome. Qed.
Print Assumptions finder_layout_outcome.

(* exact form of "raises when ambiguous": two segments with the callable's row, caller and
   parameter names => ValueError "Found multiple calls on same line" *)
Theorem finder_ambiguous_layout_raises :
  forall P L dsrc caller args earlier more gs1 g1 gs2 g2 gs3 tail,
    forallb (backs_up P) earlier = true ->
    segs_ok true ["lambda"] (gs1 ++ g1 :: gs2 ++ g2 :: gs3) = true ->
    forallb (seg_parsed P) (gs1 ++ g1 :: gs2 ++ g2 :: gs3) = true ->
    end_ok (gs1 ++ g1 :: gs2 ++ g2 :: gs3) tail = true ->
    seg_matches P L caller args g1 = true ->
    seg_matches P L caller args g2 = true ->
    find P (earlier ++ layout_toks (gs1 ++ g1 :: gs2 ++ g2 :: gs3) tail :: more) L true dsrc (Some caller) args
    = Err EMultiple.
Proof. exact ambiguous_layout_raises. Qed.
Print Assumptions finder_ambiguous_layout_raises.

(* (c): no segment on the callable's row is preceded by the caller's name (lambda not the first
   argument, wrapped in a helper; NOT a lambda passed by keyword - since d451731 its segment's name is
   the method, see (e)) => ValueError "Found no lambda in arguments to" *)
Theorem finder_uncalled_raises :
  forall P L dsrc caller args earlier more gs tail,
    forallb (backs_up P) earlier = true ->
    segs_ok true ["lambda"] gs = true ->
    forallb (seg_parsed P) gs = true ->
    end_ok gs tail = true ->
    forallb (fun g => negb (Nat.eqb (g_lrow g) L && String.eqb (g_name g) caller)) gs = true ->
    find P (earlier ++ layout_toks gs tail :: more) L true dsrc (Some caller) args = Err ENoLambda.
Proof. exact uncalled_layout_raises. Qed.
Print Assumptions finder_uncalled_raises.

(* SYNTACTIC RECOGNISER.  tokens_till keeps three independent counters; on an argument whose brackets
   are properly nested (a real bracket matcher: a stack, each closer matches the innermost opener) and
   which has no `,` outside brackets, they behave as the matcher does: never all zero at a `,`/`)`
   inside, all zero at the end.  So bracket *nesting* of the source (what "well_bracketed" means)
   implies the counter condition the liveness theorem needs. *)
Theorem nested_brackets_balanced :
  forall body, nested_ok [] body = true -> body_balanced body = true.
Proof. exact nested_ok_balanced. Qed.
Print Assumptions nested_brackets_balanced.

(* [recognisedb] = supported_layoutb with the counter condition replaced by bracket nesting: token
   classes and nesting are syntactic, the remaining conjuncts are CPython's parse of each extent.
   The harness cuts each generated case at the lambda extents reported by CPython's own parser
   (ast end positions - independent of the model's scan) and evaluates [recognisedb]; this theorem
   takes it from there to the result. *)
Theorem finder_recognised_layouts :
  forall P L dsrc caller args earlier more gs1 g0 gs2 tail,
    forallb (backs_up P) earlier = true ->
    recognisedb P L caller args gs1 g0 gs2 tail = true ->
    find P (earlier ++ layout_toks (gs1 ++ g0 :: gs2) tail :: more) L true dsrc (Some caller) args
    = Found (List.length earlier) (seg_start g0 (List.length (flat_map seg_toks gs1))).
Proof.
  intros P L dsrc caller args earlier more gs1 g0 gs2 tail He H.
  exact (supported_layouts_b P L dsrc caller args earlier more gs1 g0 gs2 tail He
           (recognised_supported P L caller args gs1 g0 gs2 tail H)).
Qed.
Print Assumptions finder_recognised_layouts.

(* (d) THE DEF BRANCH.  A function passed by name: the first stream is searched for the first `def`
   NAME ([def_scan]); nothing else of the neighbourhood takes part. *)
Theorem def_exact :
  forall P streams L dsrc caller args,
    find P streams L false dsrc caller args
    = match streams with
      | [] => NeedStream 0
      | ts :: _ => match def_scan ts with
                   | ScDef => def_outcome dsrc
                   | ScCrash e => Crash e
                   | _ => Err ENoSource
                   end
      end.
Proof. exact LambdaFinderLayouts.def_exact. Qed.
Print Assumptions def_exact.

(* liveness: the stream from the function's first line (its `def` or first decorator line) reaches a
   `def` before any tokenizer error, and its own source is docstrings + one return => recorded *)
Theorem def_supported :
  forall P ts more L dsrc caller args,
    def_layoutb ts dsrc = true -> find P (ts :: more) L false dsrc caller args = FoundDef.
Proof. exact LambdaFinderLayouts.def_supported. Qed.
Print Assumptions def_supported.

(* safety: what is recorded for a function is built from that function's own source [dsrc] (the
   object's inspect.getsource - CPython's, tied by the marker oracle), only when it is one return;
   with [def_never_lambda] and [def_exact]: never a lambda token of the file, and no dependence on
   P, the caller name, the parameter names or any later stream *)
Theorem def_found_only_own_return :
  forall P streams L dsrc caller args,
    find P streams L false dsrc caller args = FoundDef -> one_return dsrc = true.
Proof. exact LambdaFinderLayouts.def_found_only_own_return. Qed.
Print Assumptions def_found_only_own_return.

(* (e) A LAMBDA PASSED BY KEYWORD (finding F28, repaired by d451731).  Token layout
        glue  NAME(m)  `(`  NAME(k)  `=`  `lambda`  body  stop   followed by [tail]      ([kw_toks])
   (glue as for a first segment; m, k any NAMEs but `lambda`; rows arbitrary).  The scan records exactly
   one candidate and files it under the METHOD name m that precedes the keyword - never under k - and
   the outcome for every caller is the selection over that one candidate. *)
Theorem keyword_lambda_filed_under_method :
  forall P L dsrc caller args earlier more glue m mrow prow k krow erow lrow body stop tail,
    forallb (backs_up P) earlier = true ->
    forallb (glue_tok_ok true ["lambda"]) glue = true ->
    m <> "lambda" -> k <> "lambda" ->
    body_balanced body = true -> is_stop stop = true ->
    seg_parsed P (kw_seg glue m mrow prow k krow erow lrow body stop) = true ->
    (seg_saw (kw_seg glue m mrow prow k krow erow lrow body stop) || tail_ok tail) = true ->
    scan_stream P ["lambda"] true (kw_toks glue m mrow prow k krow erow lrow body stop tail)
    = ScDone [mkCand (Some m) (List.length glue + 4) (List.length glue + 4 + 1 + List.length body) lrow
                     (P (mkTok lrow KName "lambda" :: filter not_comment body))]
    /\ find P (earlier ++ kw_toks glue m mrow prow k krow erow lrow body stop tail :: more) L true dsrc caller args
       = select true L caller args (List.length earlier)
                [mkCand (Some m) (List.length glue + 4) (List.length glue + 4 + 1 + List.length body) lrow
                        (P (mkTok lrow KName "lambda" :: filter not_comment body))].
Proof. exact keyword_lambda_filed. Qed.
Print Assumptions keyword_lambda_filed_under_method.

(* ... hence it is a candidate for that caller: on the callable's row L and parsed to the callable's
   parameter names, it is what `m(k=lambda ...)` records *)
Theorem keyword_lambda_recovered :
  forall P L dsrc args earlier more glue m mrow prow k krow erow body stop tail,
    forallb (backs_up P) earlier = true ->
    forallb (glue_tok_ok true ["lambda"]) glue = true ->
    m <> "lambda" -> k <> "lambda" ->
    body_balanced body = true -> is_stop stop = true ->
    P (mkTok L KName "lambda" :: filter not_comment body) = PArgs args ->
    (seg_saw (kw_seg glue m mrow prow k krow erow L body stop) || tail_ok tail) = true ->
    find P (earlier ++ kw_toks glue m mrow prow k krow erow L body stop tail :: more) L true dsrc (Some m) args
    = Found (List.length earlier) (List.length glue + 4).
Proof. exact keyword_lambda_found. Qed.
Print Assumptions keyword_lambda_recovered.

(* THE PINNED COMMIT IS REFUTED (finding F15): with the selection that loses the line constraint
   the safety statement fails on the token stream of
       ds.Select(lambda j: j.jets.Select(
           lambda j: j.pt)).Select(lambda j: j + 1)
   for the third lambda (token 25 of the stream read from row 1, row 2): token 4 is returned. *)
Theorem finder_never_picks_neighbour_pinned_refuted :
  exists P streams L dsrc caller args s k toks k0,
    find_pinned P streams L true dsrc (Some caller) args = Found s k /\
    nth_error streams s = Some toks /\ rows_okb toks = true /\
    lambda_atb P toks k0 L caller args = true /\ not_nestedb toks k0 = true /\ k <> k0.
Proof. exact pinned_refuted. Qed.
Print Assumptions finder_never_picks_neighbour_pinned_refuted.

(* the same witness with only F15b applied: it is the missing row constraint that matters *)
Theorem finder_never_picks_neighbour_norow_refuted :
  exists P streams L dsrc caller args s k toks k0,
    find_norow P streams L true dsrc (Some caller) args = Found s k /\
    nth_error streams s = Some toks /\ rows_okb toks = true /\
    lambda_atb P toks k0 L caller args = true /\ not_nestedb toks k0 = true /\ k <> k0.
Proof. exact norow_refuted. Qed.
Print Assumptions finder_never_picks_neighbour_norow_refuted.

(* finding F15b: searching `def` and `lambda` together answers the lambda inside
       def get(d): return d.Select(lambda e: e.pt)
   by the enclosing def *)
Theorem lambda_never_def_pinned_refuted :
  exists P streams L dsrc caller args, find_pinned P streams L true dsrc caller args = FoundDef.
Proof. exact defkw_refuted. Qed.
Print Assumptions lambda_never_def_pinned_refuted.

(* finding F28: THE SELECTION BEFORE d451731 IS REFUTED.  find_identifier returned the NAME before
   `lambda`; for a lambda passed by keyword that is the keyword, so the lambda was filed under the
   keyword's name.  On the token stream of
       r = ds.Select(lambda e: e.a).Select(f=lambda e: e.b)
   the second call's lambda (token 18; caller Select by [lambda_atb]) is filed under `f`, the only
   candidate of Select is the first call's lambda (token 6), and that one is returned - silently -
   for the second call.  The same holds for the pinned selection. *)
Example keyword_lambda_filed_under_keyword_pinned_refuted :
  exists P streams L dsrc caller args s k toks k0,
    find_kwname P streams L true dsrc (Some caller) args = Found s k /\
    find_pinned P streams L true dsrc (Some caller) args = Found s k /\
    nth_error streams s = Some toks /\ rows_okb toks = true /\
    lambda_atb P toks k0 L caller args = true /\ not_nestedb toks k0 = true /\ k <> k0.
Proof. exact kwname_refuted. Qed.
Print Assumptions keyword_lambda_filed_under_keyword_pinned_refuted.

(* OPEN FINDING: THE CURRENT SELECTION (all fixes) RETURNS THE NEIGHBOUR when the passed lambda is not
   written directly as the operator's argument.  Token stream (from row 2) of
       flag = False
       r = ds.Select((lambda x: x + 1) if flag else (lambda x: x + 2))
   the passed lambda is token 18 (`lambda` on row L = 2, its extent parsed to the parameters [x], not
   inside another lambda's extent); [find] returns token 7, the first branch.  Exactly one hypothesis of
   finder_never_picks_neighbour fails: [called_byb] inside [lambda_atb] - key_before = Some "else". *)
Example passed_lambda_not_direct_argument_open_refuted :
  exists P streams L dsrc caller args s k toks k0 t0,
    find P streams L true dsrc (Some caller) args = Found s k /\
    nth_error streams s = Some toks /\ rows_okb toks = true /\
    nth_error toks k0 = Some t0 /\ is_name "lambda" t0 = true /\ trow t0 = L /\
    P (extent toks k0 (ext_stop toks k0)) = PArgs args /\
    not_nestedb toks k0 = true /\
    key_before toks k0 = Some "else" /\ called_byb toks k0 caller = false /\
    lambda_atb P toks k0 L caller args = false /\
    k <> k0.
Proof. exact condarg_open_refuted. Qed.
Print Assumptions passed_lambda_not_direct_argument_open_refuted.

(* ---- non-vacuity: documented layouts meet the hypotheses and are found ---- *)
(* black-style chain, the .Where line (with a trailing comment holding `lambda e: (`) *)
Example black_chain_meets_hypotheses :
  rows_okb black_s0 = true /\ lambda_atb P_names black_s0 4 3 "Where" ["e"] = true /\ not_nestedb black_s0 4 = true
  /\ find P_names [black_s0] 3 true (DSBody []) (Some "Where") ["e"] = Found 0 4.
Proof. vm_compute. repeat split. Qed.

(* the wrapped second Select of `ds.Select(lambda e: e.y).Select(<newline> lambda e: e.x <newline>)`:
   recovered after backing up one row (the pinned commit raises "multiple" here) *)
Example wrapped_same_signature_recovered :
  lambda_atb P_names wrap_s1 17 2 "Select" ["e"] = true /\ not_nestedb wrap_s1 17 = true
  /\ find P_names [wrap_s0; wrap_s1] 2 true (DSBody []) (Some "Select") ["e"] = Found 1 17
  /\ find_pinned P_names [wrap_s0; wrap_s1] 2 true (DSBody []) (Some "Select") ["e"] = Err EMultiple.
Proof. vm_compute. repeat split. Qed.

(* several calls on a line: told apart by the method name; equal names and parameters raise *)
Example same_line_by_method_name :
  find P_names [amb_s0] 1 true (DSBody []) (Some "Where") ["e"] = Found 0 16
  /\ find P_names [amb_s0] 1 true (DSBody []) (Some "Select") ["e"] = Err EMultiple
  /\ lambda_atb P_names amb_s0 6 1 "Select" ["e"] = true /\ not_nestedb amb_s0 6 = true
  /\ lambda_atb P_names amb_s0 28 1 "Select" ["e"] = true /\ not_nestedb amb_s0 28 = true.
Proof. vm_compute. repeat split. Qed.

(* the fixed algorithm on the two finding witnesses: raises / finds the lambda *)
Example fixed_on_witnesses :
  find P_names [w15_s0; w15_s1] 2 true (DSBody []) (Some "Select") ["j"] = Err ENoLambda
  /\ find P_names [w15b_s0] 1 true (DSBody [SReturn]) (Some "Select") ["e"] = Found 0 11.
Proof. vm_compute. repeat split. Qed.

(* a def is answered through the def branch; a def with two statements is refused *)
Example def_branch :
  find P_names [w15b_s0] 1 false (DSBody [SDoc; SReturn]) (Some "Select") ["d"] = FoundDef
  /\ find P_names [w15b_s0] 1 false (DSBody [SOther; SReturn]) (Some "Select") ["d"] = Err EDefLines.
Proof. vm_compute. repeat split. Qed.

(* the three documented layouts above are instances of the segment family (and the index the
   theorem predicts is the one computed) *)
Example same_line_is_supported_layout :
  layout_toks [amb_g1; amb_g2; amb_g3] amb_tail = amb_s0
  /\ supported_layoutb P_names 1 "Where" ["e"] [amb_g1] amb_g2 [amb_g3] amb_tail = true
  /\ seg_start amb_g2 (List.length (flat_map seg_toks [amb_g1])) = 16.
Proof. vm_compute. repeat split. Qed.

Example black_chain_is_supported_layout :
  layout_toks [black_g1] black_tail = black_s0
  /\ supported_layoutb P_names 3 "Where" ["e"] [] black_g1 [] black_tail = true
  /\ seg_start black_g1 0 = 4.
Proof. vm_compute. repeat split. Qed.

Example wrapped_is_supported_layout :
  layout_toks [wrap_g1; wrap_g2] wrap_tail = wrap_s1
  /\ forallb (backs_up P_names) [wrap_s0] = true
  /\ supported_layoutb P_names 2 "Select" ["e"] [wrap_g1] wrap_g2 [] wrap_tail = true
  /\ seg_start wrap_g2 (List.length (flat_map seg_toks [wrap_g1])) = 17.
Proof. vm_compute. repeat split. Qed.

(* the hypotheses of finder_total are met by a real stream and the stand-in parser *)
Example total_hypotheses_met :
  forallb no_err_toks [wrap_s0; wrap_s1] = true /\ (forall x, exists a, P_names x = PArgs a).
Proof. split; [vm_compute; reflexivity | intros x; eexists; reflexivity]. Qed.

(* (a) the chain continues on the last row of a multi-line argument: read from that row *)
Example tail_row_is_supported_layout :
  layout_toks [tailrow_g1] tailrow_tail = tailrow_s0
  /\ recognisedb P_names 2 "Select" ["e"] [] tailrow_g1 [] tailrow_tail = true
  /\ find P_names [tailrow_s0] 2 true (DSBody []) (Some "Select") ["e"] = Found 0 9.
Proof. vm_compute. repeat split. Qed.

(* (a) ... and reached by backing up from a row that starts with `lambda` onto such a row *)
Example continuation_row_is_supported_layout :
  layout_toks [cont_g1] cont_tail = cont_s1 /\ forallb (backs_up P_names) [cont_s0] = true
  /\ recognisedb P_names 3 "Select" ["e"] [] cont_g1 [] cont_tail = true
  /\ find P_names [cont_s0; cont_s1] 3 true (DSBody []) (Some "Select") ["e"] = Found 1 10.
Proof. vm_compute. repeat split. Qed.

(* (b) backslash continuation: one logical line, two rows, equal names - the row tells them apart
   (the pinned commit raises "multiple") *)
Example backslash_is_supported_layout :
  layout_toks [bslash_g1; bslash_g2] bslash_tail = bslash_s0
  /\ recognisedb P_names 1 "Select" ["e"] [] bslash_g1 [bslash_g2] bslash_tail = true
  /\ find P_names [bslash_s0] 1 true (DSBody []) (Some "Select") ["e"] = Found 0 6
  /\ find_pinned P_names [bslash_s0] 1 true (DSBody []) (Some "Select") ["e"] = Err EMultiple.
Proof. vm_compute. repeat split. Qed.

(* (c) `ds.Select(x, lambda e: e.a)`: the hypotheses of finder_uncalled_raises hold; it raises *)
Example non_first_argument_raises :
  layout_toks [nonfirst_g1] nonfirst_tail = nonfirst_s0
  /\ segs_ok true ["lambda"] [nonfirst_g1] = true /\ forallb (seg_parsed P_names) [nonfirst_g1] = true
  /\ end_ok [nonfirst_g1] nonfirst_tail = true /\ g_name nonfirst_g1 = "x"
  /\ find P_names [nonfirst_s0] 1 true (DSBody []) (Some "Select") ["e"] = Err ENoLambda.
Proof. vm_compute. repeat split. Qed.

(* exact ambiguity on the three-call line *)
Example ambiguous_layout_hypotheses :
  segs_ok true ["lambda"] ([] ++ amb_g1 :: [amb_g2] ++ amb_g3 :: []) = true
  /\ seg_matches P_names 1 "Select" ["e"] amb_g1 = true /\ seg_matches P_names 1 "Select" ["e"] amb_g3 = true.
Proof. vm_compute. repeat split. Qed.

(* (d) a decorated one-line def with a docstring: read from the decorator row *)
Example decorated_def_is_supported :
  def_layoutb decodef_s0 (DSBody [SDoc; SReturn]) = true
  /\ find P_names [decodef_s0] 1 false (DSBody [SDoc; SReturn]) (Some "Select") ["e"] = FoundDef
  /\ def_layoutb decodef_s0 (DSBody [SOther; SReturn]) = false.
Proof. vm_compute. repeat split. Qed.

(* nesting vs counters on a body with all three bracket kinds, a string and a nested lambda *)
Example nesting_example :
  nested_ok [] [T 1 KOp "{"; T 1 KOther "'k'"; T 1 KOp ":"; T 1 KOp "["; T 1 KName "f"; T 1 KOp "(";
                T 1 KName "lambda"; T 1 KName "q"; T 1 KOp ":"; T 1 KName "q"; T 1 KOp ","; T 1 KOther "2";
                T 1 KOp ")"; T 1 KOp "]"; T 1 KOp "}"] = true
  /\ nested_ok [] [T 1 KOp "("; T 1 KOp "["; T 1 KOp ")"; T 1 KOp "]"] = false
  /\ body_balanced [T 1 KOp "("; T 1 KOp "["; T 1 KOp ")"; T 1 KOp "]"] = true.
Proof. vm_compute. repeat split. Qed.

(* (e) non-vacuity of keyword_lambda_filed_under_method / keyword_lambda_recovered on
       r = ds.Select(f=lambda e: e.b)
   the stream is the layout, every hypothesis holds, the candidate's key is Select and the lambda (token
   8) is returned for the caller Select; before d451731 the same call raised "Found no lambda in
   arguments to Select" (the candidate's key was f) *)
Example keyword_lambda_hypotheses_met :
  kw_toks [T 1 KName "r"; T 1 KOp "="; T 1 KName "ds"; T 1 KOp "."] "Select" 1 1 "f" 1 1 1 kw_body_b (T 1 KOp ")") kwone_tail
  = kwone_s0
  /\ forallb (glue_tok_ok true ["lambda"]) [T 1 KName "r"; T 1 KOp "="; T 1 KName "ds"; T 1 KOp "."] = true
  /\ body_balanced kw_body_b = true /\ is_stop (T 1 KOp ")") = true
  /\ P_names (T 1 KName "lambda" :: filter not_comment kw_body_b) = PArgs ["e"]
  /\ tail_ok kwone_tail = true
  /\ scan_stream P_names ["lambda"] true kwone_s0 = ScDone [mkCand (Some "Select") 8 14 1 (PArgs ["e"])]
  /\ scan_stream P_names ["lambda"] false kwone_s0 = ScDone [mkCand (Some "f") 8 14 1 (PArgs ["e"])]
  /\ find P_names [kwone_s0] 1 true (DSBody []) (Some "Select") ["e"] = Found 0 8
  /\ find_kwname P_names [kwone_s0] 1 true (DSBody []) (Some "Select") ["e"] = Err ENoLambda.
Proof. vm_compute. repeat split. Qed.

(* keyword lambdas are instances of the segment family (the keyword and its `=` are part of the gap): alone
   on a line; chained with a positional lambda on the same line - same method and parameter names: both calls
   raise "multiple" now (allowed), nothing is mis-recorded; on its own line below the call, reached by backing
   up from a row that starts with the keyword *)
Example keyword_lambda_is_supported_layout :
  layout_toks [kwone_g1] kwone_tail = kwone_s0
  /\ recognisedb P_names 1 "Select" ["e"] [] kwone_g1 [] kwone_tail = true
  /\ lambda_atb P_names kwone_s0 8 1 "Select" ["e"] = true /\ not_nestedb kwone_s0 8 = true
  /\ layout_toks [kwtwo_g1; kwtwo_g2] kwone_tail = kwtwo_s0
  /\ segs_ok true ["lambda"] [kwtwo_g1; kwtwo_g2] = true
  /\ seg_matches P_names 1 "Select" ["e"] kwtwo_g1 = true /\ seg_matches P_names 1 "Select" ["e"] kwtwo_g2 = true
  /\ find P_names [kwtwo_s0] 1 true (DSBody []) (Some "Select") ["e"] = Err EMultiple
  /\ layout_toks [kwown_g1] kwown_tail = kwown_s1 /\ forallb (backs_up P_names) [kwown_s0] = true
  /\ recognisedb P_names 2 "Select" ["e"] [] kwown_g1 [] kwown_tail = true
  /\ find P_names [kwown_s0; kwown_s1] 2 true (DSBody []) (Some "Select") ["e"] = Found 1 9
  /\ find_kwname P_names [kwown_s0; kwown_s1] 2 true (DSBody []) (Some "Select") ["e"] = Err ENoLambda.
Proof. vm_compute. repeat split. Qed.

(* C06 - Comprehension and data-class sugar lowers to equivalent queries.
   Only statements here; proofs live in Proofs/SugarFacts.v, SugarBind.v, SugarCong.v, SugarSem.v.

   [sugar] (Model/Sugar.v) is the model of resolve_syntatic_sugar WITH fixes/F17.diff applied
   (a keyword that names an already bound field raises ValueError); [convert_pinned] is the
   constructor binding of the pinned commit.  [eval] is the reference semantics (Base/Eval.v), in
   which a single-[for] comprehension means what Python computes for it: the iterable is evaluated
   in the outer scope, the target is local to the element and the conditions, the [if] clauses are
   evaluated left to right with short circuit; method-form [Select]/[Where] are map / filter. *)
From FA.Base Require Import PyAst Value Eval Traverse.
From FA.Model Require Import Sugar SugarSpec.
From FA.Proofs Require Import Refine SugarFacts SugarBind SugarSem.

(* For every backend, every environment (dataset), every tree - comprehensions nested arbitrarily in
   element / iterable / condition position and inside lambdas, any number of [if] clauses, target
   names colliding with anything: whenever the original evaluates to v, the lowered tree does.
   The lowering emits method-form calls, so "Select" and "Where" must be operators of the
   method-form semantics. *)
Theorem sugar_sem :
  forall (B : backend) (ops : list string),
    is_op ops "Select" = true -> is_op ops "Where" = true ->
    forall e e', single_for e = true -> sugar e = Ok e' ->
    forall E v, eval B ops E e = Some v -> eval B ops E e' = Some v.
Proof. intros B ops Hs Hw e e' _ He E v. exact (SugarSem.sugar_sem_all B ops Hs Hw e e' He E v). Qed.
Print Assumptions sugar_sem.

(* the same without the single-[for] restriction (multi-[for] comprehensions have no meaning in the
   reference semantics, so there the statement holds vacuously; they are modelled and compared
   with the code, not claimed) *)
Theorem sugar_sem_all :
  forall (B : backend) (ops : list string),
    is_op ops "Select" = true -> is_op ops "Where" = true ->
    forall e e', sugar e = Ok e' ->
    forall E v, eval B ops E e = Some v -> eval B ops E e' = Some v.
Proof. exact SugarSem.sugar_sem_all. Qed.
Print Assumptions sugar_sem_all.

(* what one clause lowers to means what the comprehension means *)
Theorem lowering_sem :
  forall (B : backend) (ops : list string),
    is_op ops "Select" = true -> is_op ops "Where" = true ->
    forall x E elt it ifs v,
      comp_sem (eval B ops) E elt [CompFor (Name x) it ifs false] = Some v ->
      eval B ops E (select_call x (where_chain x it ifs) elt) = Some v.
Proof. intros B ops Hs Hw x E elt it ifs v. exact (SugarSem.lower_sem B ops Hs Hw x E elt it ifs v). Qed.
Print Assumptions lowering_sem.

(* no comprehension node of any kind is left, at any depth *)
Theorem sugar_complete :
  forall e e', single_for e = true -> sugar e = Ok e' -> no_comp e' = true.
Proof. intros e e' Hs He. exact (SugarFacts.sugar_complete e Hs e' He). Qed.
Print Assumptions sugar_complete.

(* convert_call_to_dict binds as Python's constructor binds: the same bindings in the same (field)
   order, or both refuse.  [same_outcome] does not compare which of several simultaneous defects
   is reported (the exception class is ValueError for all of them). *)
Theorem dataclass_binds :
  forall fields args kws, NoDup fields ->
    same_outcome (convert fields args kws) (bind_spec fields args kws).
Proof. exact SugarBind.dataclass_binds. Qed.
Print Assumptions dataclass_binds.

Theorem dataclass_binds_ok :
  forall fields args kws assoc, NoDup fields ->
    (convert fields args kws = BOk assoc <-> bind_spec fields args kws = BOk assoc).
Proof. exact SugarBind.dataclass_binds_ok. Qed.
Print Assumptions dataclass_binds_ok.

(* unknown, surplus and duplicate arguments: the code raises ValueError exactly when Python refuses *)
Theorem dataclass_refuses :
  forall fields args kws, NoDup fields ->
    ((exists r, convert fields args kws = BErr r) <-> (exists r, bind_spec fields args kws = BErr r)).
Proof. exact SugarBind.dataclass_refuses. Qed.
Print Assumptions dataclass_refuses.

(* the pass at a constructor call is that binding applied to the lowered arguments *)
Theorem sugar_class_call :
  forall c fields args kwn kwv args' kwv',
    class_fields c = Some fields -> rmap sugar args = Ok args' -> rmap sugar kwv = Ok kwv' ->
    sugar (Call (Const c) args kwn kwv) =
    if existsb is_starred args' then Err (ValueErr DynamicArg) else
    match convert fields args' (combine kwn kwv') with
    | BOk assoc => Ok (dict_of_assoc assoc)
    | BErr r => Err (ValueErr r)
    end.
Proof. exact SugarFacts.sugar_class_call. Qed.
Print Assumptions sugar_class_call.

(* F58: a starred positional argument cannot be bound to a field before the query runs (Python binds it by the length of the
   sequence): the call is refused with ValueError, whatever else it contains - it used to be bound to ONE field, as {'x': *vals} *)
Theorem starred_constructor_argument_refused :
  forall c fields args kwn kwv args' kwv',
    class_fields c = Some fields -> rmap sugar args = Ok args' -> rmap sugar kwv = Ok kwv' ->
    existsb is_starred args' = true ->
    sugar (Call (Const c) args kwn kwv) = Err (ValueErr DynamicArg).
Proof.
  intros c fields args kwn kwv args' kwv' Hc Ha Hk Hs.
  rewrite (SugarFacts.sugar_class_call c fields args kwn kwv args' kwv' Hc Ha Hk), Hs. reflexivity.
Qed.
Print Assumptions starred_constructor_argument_refused.

(* F17: the pinned commit's binding is NOT Python's *)
Theorem dataclass_binds_pinned_refuted :
  exists fields args kws,
    NoDup fields /\ ~ same_outcome (convert_pinned fields args kws) (bind_spec fields args kws).
Proof. exact SugarBind.dataclass_binds_pinned_refuted. Qed.
Print Assumptions dataclass_binds_pinned_refuted.

(* a [for] clause whose target is not a plain name, or an async clause, anywhere in the tree:
   ValueError - never a crash, never a tree *)
Theorem sugar_refuses :
  forall e, gens_ok e = true -> has_bad_comp e = true -> exists r, sugar e = Err (ValueErr r).
Proof. exact SugarFacts.sugar_refuses. Qed.
Print Assumptions sugar_refuses.

(* totality: on trees whose [generators] are comprehension clauses the pass never crashes *)
Theorem sugar_total :
  forall e, gens_ok e = true -> forall k, sugar e <> Err (Crash k).
Proof. exact SugarFacts.sugar_total. Qed.
Print Assumptions sugar_total.

(* ---------- non-vacuity ---------- *)

Definition B0 : backend := {| attr_sem := fun _ _ => None; meth_sem := fun _ _ _ _ => None; fun_sem := fun _ _ _ => None |}.
Definition ints (l : list Z) : value := VList (map VInt l).
Definition OPS := ["Select"; "Where"].
Definition gt a b := Compare a [CGt] [b].
Definition lt a b := Compare a [CLt] [b].
Definition cf t it ifs := CompFor (Name t) it ifs false.

(* [x + n for x in xs if x != 0 if 12 // x > 1]   with an outer x in scope: the clause order and the
   short circuit matter (12 // 0), the target shadows the outer x *)
Definition q1 : expr :=
  ListComp (BinOp BAdd (Name "x") (Name "n"))
           [cf "x" (Name "xs") [Compare (Name "x") [CNotEq] [Const (CInt 0)];
                                gt (BinOp BFloorDiv (Const (CInt 12)) (Name "x")) (Const (CInt 1))]].
Definition env1 : env := [("xs", ints [0; 3; 12; 4; 0; 7]%Z); ("n", VInt 100); ("x", VInt (-1))].

Example sugar_sem_runs :
  single_for q1 = true /\
  exists q', sugar q1 = Ok q' /\ no_comp q' = true /\
    eval B0 OPS env1 q1 = Some (ints [103; 104]%Z) /\ eval B0 OPS env1 q' = Some (ints [103; 104]%Z).
Proof. split; [reflexivity|]. eexists; split; [vm_compute; reflexivity | repeat split; vm_compute; reflexivity]. Qed.

(* nested in element, iterable and condition position, inside an operator lambda, colliding targets:
   zs.Select(lambda r: [[b + a for b in r if b < a] for a in (a for a in r if a > 0) if Count([c for c in r if c > a]) > 0]) *)
Definition q2 : expr :=
  Call (Attr (Name "zs") "Select")
    [Lambda ["r"]
       (ListComp
          (ListComp (BinOp BAdd (Name "b") (Name "a")) [cf "b" (Name "r") [lt (Name "b") (Name "a")]])
          [cf "a" (GenExp (Name "a") [cf "a" (Name "r") [gt (Name "a") (Const (CInt 0))]])
                  [gt (Call (Name "Count") [ListComp (Name "c") [cf "c" (Name "r") [gt (Name "c") (Name "a")]]] [] [])
                      (Const (CInt 0))]])] [] [].
Definition env2 : env := [("zs", VList [ints [1; 5; -2; 3]%Z; ints []; ints [4]%Z])].
Definition out2 : value := VList [VList [ints [-1]%Z; ints [4; 1]%Z]; VList []; VList []].

Example sugar_sem_nested_runs :
  single_for q2 = true /\
  exists q', sugar q2 = Ok q' /\ no_comp q' = true /\
    eval B0 OPS env2 q2 = Some out2 /\ eval B0 OPS env2 q' = Some out2.
Proof. split; [reflexivity|]. eexists; split; [vm_compute; reflexivity | repeat split; vm_compute; reflexivity]. Qed.

(* the shape of the emitted chain: one Where per [if], in order, then Select; parameter = target *)
Example sugar_shape :
  sugar (GenExp (Name "j") [cf "j" (Name "jets") [Name "c1"; Name "c2"]]) =
  Ok (Call (Attr (Call (Attr (Call (Attr (Name "jets") "Where") [Lambda ["j"] (Name "c1")] [] []) "Where")
                       [Lambda ["j"] (Name "c2")] [] []) "Select") [Lambda ["j"] (Name "j")] [] []).
Proof. vm_compute; reflexivity. Qed.

(* two [for] clauses: nested, un-flattened Selects (observed behaviour of the code; not claimed) *)
Example sugar_two_fors :
  sugar (ListComp (Name "e") [cf "a" (Name "xs") []; cf "b" (Attr (Name "a") "ys") [Name "b"]]) =
  Ok (Call (Attr (Name "xs") "Select")
        [Lambda ["a"] (Call (Attr (Call (Attr (Attr (Name "a") "ys") "Where") [Lambda ["b"] (Name "b")] [] []) "Select")
                            [Lambda ["b"] (Name "e")] [] [])] [] []).
Proof. vm_compute; reflexivity. Qed.

Definition DC2 : const := CObj "dataclass:x,y" "DC#0".
Definition NT3 : const := CObj "namedtuple:a,b,c" "NT#1".
Definition ea := Attr (Name "e") "a".
Definition eb := Attr (Name "e") "b".

Example class_fields_runs :
  class_fields DC2 = Some ["x"; "y"] /\ class_fields NT3 = Some ["a"; "b"; "c"] /\
  class_fields (CObj "dataclass:" "E#2") = Some [] /\ class_fields (CObj "type" "int#3") = None /\
  class_fields (CInt 1) = None.
Proof. repeat split; vm_compute; reflexivity. Qed.

Example dataclass_binds_runs :
  NoDup ["x"; "y"] /\
  convert ["x"; "y"] [ea] [(Some "y", eb)] = BOk [("x", ea); ("y", eb)] /\
  bind_spec ["x"; "y"] [ea] [(Some "y", eb)] = BOk [("x", ea); ("y", eb)] /\
  convert ["x"; "y"] [] [(Some "y", eb); (Some "x", ea)] = BOk [("x", ea); ("y", eb)] /\
  convert ["x"; "y"] [ea] [] = BOk [("x", ea)] /\
  convert ["x"; "y"] [ea] [(Some "x", eb)] = BErr (DupArg (Some "x")) /\
  bind_spec ["x"; "y"] [ea] [(Some "x", eb)] = BErr (DupArg (Some "x")) /\
  convert_pinned ["x"; "y"] [ea] [(Some "x", eb)] = BOk [("x", ea)] /\
  convert ["x"; "y"] [ea] [(Some "z", eb)] = BErr (UnknownArg (Some "z")) /\
  convert ["x"; "y"] [ea; eb; ea] [] = BErr TooManyArgs /\
  convert ["x"; "y"] [ea] [(None, eb)] = BErr (UnknownArg None).
Proof.
  split; [|repeat split; vm_compute; reflexivity].
  constructor; [intros [H|[]]; discriminate H|]. constructor; [intros []|constructor].
Qed.

Example sugar_class_call_runs :
  sugar (Call (Const DC2) [ListComp (Name "j") [cf "j" (Name "jets") []]] [Some "y"] [eb]) =
  Ok (Dict [Const (CStr "x"); Const (CStr "y")]
           [Call (Attr (Name "jets") "Select") [Lambda ["j"] (Name "j")] [] []; eb]) /\
  sugar (Call (Const DC2) [ea] [Some "x"] [eb]) = Err (ValueErr (DupArg (Some "x"))) /\
  sugar_pinned (Call (Const DC2) [ea] [Some "x"] [eb]) = Ok (Dict [Const (CStr "x")] [ea]).
Proof. repeat split; vm_compute; reflexivity. Qed.

Example sugar_refuses_runs :
  let tuple_target := ListComp (Name "a") [CompFor (Tuple [Name "a"; Name "b"]) (Name "xs") [] false] in
  let async := GenExp (Name "a") [CompFor (Name "a") (Name "xs") [] true] in
  let deep := Lambda ["e"] (List [Name "e"; ListComp tuple_target [cf "q" (Name "ys") []]]) in
  gens_ok deep = true /\ has_bad_comp deep = true /\ has_bad_comp async = true /\
  sugar tuple_target = Err (ValueErr TargetNotName) /\ sugar async = Err (ValueErr AsyncComp) /\
  sugar deep = Err (ValueErr TargetNotName).
Proof. repeat split; vm_compute; reflexivity. Qed.

(* the well-formedness hypothesis of sugar_total is needed: a generator that is not a comprehension
   clause crashes (AttributeError in the code) *)
Example sugar_total_runs :
  gens_ok q2 = true /\ gens_ok (ListComp (Name "a") [Name "g"]) = false /\
  sugar (ListComp (Name "a") [Name "g"]) = Err (Crash GenNotComprehension).
Proof. repeat split; vm_compute; reflexivity. Qed.

(* C05 - captured one-line helper functions are inlined faithfully.
   Statements only; proofs in Proofs/CaptureProofs.v and Proofs/CaptureSem.v.
   [res]/[resolve_called] model _resolve_called_lambdas with fixes F06, F07, FC2, FC4 applied; [helper_capval] is FC5. *)
From FA.Base Require Import PyAst Value Eval Traverse.
From FA.Model Require Import Capture.
From FA.Proofs Require Import Refine RenameSem CaptureProofs CaptureSem CaptureGen.

(* --- inline_sem (partial: first-order use of parameters; every expression; no hygiene hypothesis) ---
   "Inlining = Python's call semantics": Base/Eval.v evaluates [Call (Lambda ps b) args] by Python's positional and
   keyword binding, call by value; [resolve_called] replaces such calls by the substituted body - or, when an argument
   name is bound again inside the body (FC4), leaves the call - and must preserve the value.
   Full statement aimed at:  eval E e = Some v -> resolve_called e = Ok e' -> eval E e' = Some v  for every e.
   Proved: exactly that, for every backend, environment and EVERY expression tree (all node classes; bodies with
   lambdas and comprehensions that stay; non-constant arguments; keyword calls; arity mismatches; any nesting),
   with NO hygiene hypothesis: the proof uses the implementation's own bail-out test ([overlaps .. (inner_binders b)])
   and the coincidence lemma Proofs/EvalAgree.v.  The one hypothesis left, [first_order e], is the declared limit of
   the reference semantics (DESIGN section 3.2/7: lambdas are not values): no parameter of a called lambda is used as
   the callee of a call by name inside its body.  [first_order_of_no_callee] gives a computable sufficient condition.
   Missing: higher-order helpers (a parameter that is itself called, `def apply_to(f, v): return f(v)`): outside
   the reference semantics, covered by the correspondence and the value oracle (generator family "higher-order"). *)
Theorem inline_sem_partial :
  forall (B : backend) (ops : list string) e e' E v,
    first_order e -> resolve_called e = Ok e' ->
    eval B ops E e = Some v -> eval B ops E e' = Some v.
Proof.
  intros B ops e e' E v Hfo Hr. unfold resolve_called in Hr. inversion Hr; subst. apply res_sem; exact Hfo.
Qed.
Print Assumptions inline_sem_partial.

(* the invariant behind it, for an arbitrary stack of argument maps [st]: [Rr] relates the environments through the
   stack, [Inv] says no argument in flight mentions a name that a binder staying in [e] binds (what FC4 checks at each
   call before inlining), [FO] that no parameter being substituted is a callee *)
Theorem inline_sem_stack :
  forall (B : backend) (ops : list string) e st E1 E2,
    first_order e -> FO st e -> Inv st e -> Rr B ops st E1 E2 ->
    forall v, eval B ops E1 e = Some v -> eval B ops E2 (res st e) = Some v.
Proof. intros B ops e st E1 E2. exact (res_ok_all B ops (S (size e)) e (Nat.lt_succ_diag_r _) st E1 E2). Qed.
Print Assumptions inline_sem_stack.

(* --- inline_leaves_by_name: a callable that cannot be inlined (source not a single-return function, or not
   captured at all) stays a call by name, with the same number of arguments and keywords --- *)
Theorem inline_leaves_by_name :
  forall ce h args kwn kwv e',
    not_inlinable ce h ->
    parse_callable ce (Call (Name h) args kwn kwv) = Ok e' ->
    exists args' kwv', e' = Call (Name h) args' kwn kwv' /\ length args' = length args /\ length kwv' = length kwv.
Proof. exact call_stays_by_name. Qed.
Print Assumptions inline_leaves_by_name.

(* ---------- Examples ---------- *)
Definition B0 : backend := {| attr_sem := fun _ _ => None; meth_sem := fun _ _ _ _ => None; fun_sem := fun _ _ _ => None |}.
Definition glob (l : list (string * capval)) : cenv := {| ce_nonlocals := []; ce_globals := l; ce_attrs := [] |}.

(* param-only helper body (F06): def h(p): return p ; lambda e: h(e.x)  records  lambda e: e.x *)
Example inline_param_only :
  parse_callable (glob [("h", CFun (Some (Lambda ["p"] (Name "p"))))])
    (Lambda ["e"] (Call (Name "h") [Attr (Name "e") "x"] [] []))
  = Ok (Lambda ["e"] (Attr (Name "e") "x")).
Proof. vm_compute. reflexivity. Qed.

(* an inner lambda re-using the helper's parameter name is not substituted into (F07) *)
Example inline_inner_shadow :
  parse_callable (glob [("h", CFun (Some (Lambda ["a"]
                    (Call (Attr (Attr (Name "a") "jets") "Select") [Lambda ["a"] (Attr (Name "a") "pt")] [] []))))])
    (Lambda ["e"] (Call (Name "h") [Name "e"] [] []))
  = Ok (Lambda ["e"] (Call (Attr (Attr (Name "e") "jets") "Select") [Lambda ["a"] (Attr (Name "a") "pt")] [] [])).
Proof. vm_compute. reflexivity. Qed.

(* a helper lambda handed in un-rewritten keeps its inner call by name (pre-FC5 snapshot shape; with FC5 the snapshot is
   built by [helper_capval], see helper_of_helper_inlined); helper calls in arguments are all inlined *)
Example inline_nested :
  parse_callable (glob [("h2", CFun (Some (Lambda ["a"; "b"] (BinOp BSub (Name "a") (Name "b")))));
                        ("h4", CFun (Some (Lambda ["a"] (BinOp BAdd (Call (Name "h2") [Name "a"; Const (CInt 1)] [] []) (Const (CInt 1))))))])
    (Lambda ["e"] (Tuple [Call (Name "h4") [Attr (Name "e") "z"] [] [];
                          Call (Name "h2") [Call (Name "h2") [Attr (Name "e") "x"; Const (CInt 1)] [] []; Attr (Name "e") "y"] [] []]))
  = Ok (Lambda ["e"] (Tuple [BinOp BAdd (Call (Name "h2") [Attr (Name "e") "z"; Const (CInt 1)] [] []) (Const (CInt 1));
                             BinOp BSub (BinOp BSub (Attr (Name "e") "x") (Const (CInt 1))) (Attr (Name "e") "y")])).
Proof. vm_compute. reflexivity. Qed.

(* keyword / re-ordered calls are left as a call of the helper's lambda (Python binds them; FC2) *)
Example inline_keywords_left :
  parse_callable (glob [("h", CFun (Some (Lambda ["a"; "b"] (BinOp BSub (Name "a") (Name "b")))))])
    (Lambda ["e"] (Call (Name "h") [] [Some "b"; Some "a"] [Attr (Name "e") "x"; Attr (Name "e") "y"]))
  = Ok (Lambda ["e"] (Call (Lambda ["a"; "b"] (BinOp BSub (Name "a") (Name "b"))) [] [Some "b"; Some "a"]
                           [Attr (Name "e") "x"; Attr (Name "e") "y"])).
Proof. vm_compute. reflexivity. Qed.

(* the hypotheses of inline_sem_partial are met by a real query and the values agree *)
Example inline_sem_runs :
  let h := Lambda ["a"; "b"] (BinOp BSub (Name "a") (Name "b")) in
  let q := Call (Attr (Name "s") "Select") [Lambda ["j"] (Call h [Name "j"; Call h [Name "k"; Const (CInt 1)] [] []] [] [])] [] [] in
  first_order q /\
  eval B0 ["Select"] [("s", VList [VInt 10; VInt 20]); ("k", VInt 3)] q = Some (VList [VInt 8; VInt 18]) /\
  eval B0 ["Select"] [("s", VList [VInt 10; VInt 20]); ("k", VInt 3)] (res [] q) = Some (VList [VInt 8; VInt 18]) /\
  res [] q = Call (Attr (Name "s") "Select") [Lambda ["j"] (BinOp BSub (Name "j") (BinOp BSub (Name "k") (Const (CInt 1))))] [] [].
Proof.
  split; [apply first_order_of_no_callee; intros x; reflexivity|]. split; [vm_compute; reflexivity|]. split; vm_compute; reflexivity.
Qed.

(* FC4: def h(a): return a.jets.Select(lambda j: j.pt + a.pt), passed lambda  lambda j: h(j) : the argument's name is
   bound again inside the body, so the call is left (Python's call semantics), and the value is kept *)
Example inline_capture_bails :
  let h := Lambda ["a"] (Call (Attr (Attr (Name "a") "jets") "Select")
                              [Lambda ["j"] (BinOp BAdd (Attr (Name "j") "pt") (Attr (Name "a") "pt"))] [] []) in
  let q := Call h [Name "j"] [] [] in
  let E := [("j", VDict [VStr "pt"; VStr "jets"] [VInt 10; VList [VDict [VStr "pt"] [VInt 1]]])] in
  first_order q /\ res [] q = q /\
  eval B0 ["Select"] E q = Some (VList [VInt 11]) /\ eval B0 ["Select"] E (res [] q) = Some (VList [VInt 11]).
Proof.
  split; [apply first_order_of_no_callee; intros x; reflexivity|].
  split; [vm_compute; reflexivity | split; vm_compute; reflexivity].
Qed.

(* the same helper called with another name is inlined, and an inner called lambda re-using the name does not block it *)
Example inline_shadow_inlined :
  let h := Lambda ["a"] (Call (Attr (Attr (Name "a") "jets") "Select")
                              [Lambda ["j"] (BinOp BAdd (Attr (Name "j") "pt") (Attr (Name "a") "pt"))] [] []) in
  res [] (Call h [Name "e"] [] []) =
    Call (Attr (Attr (Name "e") "jets") "Select") [Lambda ["j"] (BinOp BAdd (Attr (Name "j") "pt") (Attr (Name "e") "pt"))] [] [] /\
  res [] (Call (Lambda ["x"] (BinOp BAdd (Call (Lambda ["x"] (BinOp BAdd (Name "x") (Const (CInt 2)))) [Name "x"] [] []) (Const (CInt 1))))
               [Name "x"] [] [])
  = BinOp BAdd (BinOp BAdd (Name "x") (Const (CInt 2))) (Const (CInt 1)).
Proof. split; vm_compute; reflexivity. Qed.

(* a helper with an inner Select-lambda (a binder that stays) and non-constant arguments: inside the theorem *)
Example inline_sem_staying_binder :
  let h := Lambda ["k"] (Call (Attr (Name "s") "Select") [Lambda ["j"] (BinOp BAdd (Name "j") (Name "k"))] [] []) in
  let q := Call h [BinOp BAdd (Name "k0") (Const (CInt 2))] [] [] in
  first_order q /\
  eval B0 ["Select"] [("s", VList [VInt 1; VInt 2]); ("k0", VInt 3)] q = Some (VList [VInt 6; VInt 7]) /\
  eval B0 ["Select"] [("s", VList [VInt 1; VInt 2]); ("k0", VInt 3)] (res [] q) = Some (VList [VInt 6; VInt 7]) /\
  res [] q = Call (Attr (Name "s") "Select") [Lambda ["j"] (BinOp BAdd (Name "j") (BinOp BAdd (Name "k0") (Const (CInt 2))))] [] [].
Proof.
  split; [apply first_order_of_no_callee; intros x; reflexivity | split; [|split]; vm_compute; reflexivity].
Qed.

(* FC5: the helper's own free variables are frozen with the helper's own snapshot; a helper whose rewriting raises
   is left by name *)
Example helper_frozen_with_own_closure :
  let hce := glob [("e", CVal (CInt 100))] in
  parse_callable (glob [("h", helper_capval hce (Lambda ["a"] (BinOp BAdd (Name "a") (Name "e"))))])
    (Lambda ["e"] (Call (Name "h") [Attr (Name "e") "a"] [] []))
  = Ok (Lambda ["e"] (BinOp BAdd (Attr (Name "e") "a") (Const (CInt 100)))).
Proof. vm_compute. reflexivity. Qed.

Example helper_of_helper_inlined :
  let h2 := helper_capval (glob []) (Lambda ["a"; "b"] (BinOp BSub (Name "a") (Name "b"))) in
  let h4 := helper_capval (glob [("h2", h2); ("G", CVal (CInt 7))])
              (Lambda ["a"] (BinOp BAdd (Call (Name "h2") [Name "a"; Const (CInt 1)] [] []) (Name "G"))) in
  parse_callable (glob [("h4", h4)]) (Lambda ["e"] (Call (Name "h4") [Attr (Name "e") "z"] [] []))
  = Ok (Lambda ["e"] (BinOp BAdd (BinOp BSub (Attr (Name "e") "z") (Const (CInt 1))) (Const (CInt 7)))).
Proof. vm_compute. reflexivity. Qed.

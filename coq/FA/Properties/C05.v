(* C05 - captured one-line helper functions are inlined faithfully.  Statements only. *)
From FA.Base Require Import PyAst Value Eval Traverse.
From FA.Model Require Import Capture.
From FA.Proofs Require Import Refine CaptureProofs CaptureSem.

(* param-only helper body (F06): def h(p): return p ; lambda e: h(e.x)  records  lambda e: e.x *)
Example inline_param_only :
  parse_callable {| ce_nonlocals := []; ce_globals := [("h", CFun (Some (Lambda ["p"] (Name "p"))))]; ce_attrs := [] |}
    (Lambda ["e"] (Call (Name "h") [Attr (Name "e") "x"] [] []))
  = Ok (Lambda ["e"] (Attr (Name "e") "x")).
Proof. vm_compute. reflexivity. Qed.

(* C05 - captured one-line helper functions are inlined faithfully.
   Statements only; proofs in Proofs/CaptureProofs.v, Proofs/CaptureSem.v and Proofs/CaptureGen.v.
   [res]/[resolve_called] model _resolve_called_lambdas with fixes F06, F07, FC2, FC4, F30, F31, F32 applied;
   [helper_capval] is FC5.  A lambda with default values or parameter kinds other than plain positional is an [Other]
   node decoded by [lam_view]/[lam_parts] (Model/Capture.v); a starred argument is an [Other "Starred;.."] node. *)
From FA.Base Require Import PyAst Value Eval Traverse.
From FA.Model Require Import Capture.
From FA.Proofs Require Import Refine RenameSem CaptureProofs CaptureSem CaptureGen CaptureStar.

(* --- inline_sem (partial: first-order use of parameters; every expression; no hygiene hypothesis) ---
   "Inlining = Python's call semantics": Base/Eval.v evaluates [Call (Lambda ps b) args] by Python's positional and
   keyword binding, call by value; [resolve_called] replaces such calls by the substituted body - or, when an argument
   name is bound again inside the body (FC4), leaves the call - and must preserve the value.
   Full statement aimed at:  eval E e = Some v -> resolve_called e = Ok e' -> eval E e' = Some v  for every e.
   Proved: exactly that, for every backend, environment and EVERY expression tree (all node classes; bodies with
   lambdas and comprehensions that stay; non-constant arguments; keyword calls; arity mismatches; any nesting),
   with NO hygiene hypothesis: the proof uses the implementation's own bail-out test ([overlaps .. (inner_binders b)])
   and the coincidence lemma Proofs/EvalAgree.v.  The one hypothesis left, [first_order e], is the declared limit of
   the reference semantics (DESIGN section 3.2/7: lambdas are not values): no parameter of a called lambda is used as
   the callee of a call by name inside its body.  [first_order_of_no_callee] gives a computable sufficient condition.
   Missing: higher-order helpers (a parameter that is itself called, `def apply_to(f, v): return f(v)`): outside
   the reference semantics, covered by the correspondence and the value oracle (generator family "higher-order").
   Starred arguments and lambdas with default values have no value in the reference semantics ([Other] nodes, so the
   theorem holds for them trivially): what the pass does with them is pinned by the structural theorems below
   ([inline_leaves_starred_call], [inline_defaults_in_enclosing_scope], [inline_counts_every_binder]), by the
   correspondence and by the value / well-formedness oracles (generator families "starred",
   "defaults-of-staying-lambda", "binder-kinds"). *)
Theorem inline_sem_partial :
  forall (B : backend) (ops : list string) e e' E v,
    first_order e -> resolve_called e = Ok e' ->
    eval B ops E e = Some v -> eval B ops E e' = Some v.
Proof.
  intros B ops e e' E v Hfo Hr. unfold resolve_called in Hr. inversion Hr; subst. apply res_sem; exact Hfo.
Qed.
Print Assumptions inline_sem_partial.

(* the invariant behind it, for an arbitrary stack of argument maps [st]: [Rr] relates the environments through the
   stack, [Inv] says no argument in flight mentions a name that a binder staying in [e] binds (what FC4 checks at each
   call before inlining), [FO] that no parameter being substituted is a callee *)
Theorem inline_sem_stack :
  forall (B : backend) (ops : list string) e st E1 E2,
    first_order e -> FO st e -> Inv st e -> Rr B ops st E1 E2 ->
    forall v, eval B ops E1 e = Some v -> eval B ops E2 (res st e) = Some v.
Proof. intros B ops e st E1 E2. exact (res_ok_all B ops (S (size e)) e (Nat.lt_succ_diag_r _) st E1 E2). Qed.
Print Assumptions inline_sem_stack.

(* --- inline_leaves_by_name: a callable that cannot be inlined (source not a single-return function, or not
   captured at all) stays a call by name, with the same number of arguments and keywords --- *)
Theorem inline_leaves_by_name :
  forall ce h args kwn kwv e',
    not_inlinable ce h ->
    parse_callable ce (Call (Name h) args kwn kwv) = Ok e' ->
    exists args' kwv', e' = Call (Name h) args' kwn kwv' /\ length args' = length args /\ length kwv' = length kwv.
Proof. exact call_stays_by_name. Qed.
Print Assumptions inline_leaves_by_name.

(* Which captured callables are [not_inlinable].  The snapshot holds [CFun None] for a callable whose source is not a
   single-return function or lambda (source recovery, C03), for a helper that is being expanded (recursion), and -
   decided on the live object by _rewrite_captured_vars.visit_Name.safe_parse_wrapper, hence an INPUT of the model that
   the harness computes the same way -
     F34  for a bound method (inspect.ismethod): `m = k.scale` - the source text `def scale(self, a)` is not the
          callable, the object it is bound to would be lost;
     F35  for a callable that has __wrapped__ (functools.wraps, lru_cache ...): inspect finds the source of the
          undecorated function, inlining it would drop what the decorator does.
   Likewise an input: whether the source of the callable is a plain `def` at all - F41: an `async def` (calling it gives a
   coroutine, not the value of its return expression) is refused by rewrite_func_as_lambda like a multi-statement body.
   (F40 concerns the text handed to the parser: a multi-line string literal in a nested def keeps its continuation lines;
   the helper's Lambda that the model receives carries the string's true value.)
   F36 is decided by the model itself: a helper whose lambda contains an assignment expression ([has_walrus]; a NamedExpr
   node anywhere, default values included) is [CFun None] too - substituting an argument for a name that is assigned to
   is wrong (`(e.a := e.a + 1) * 2`).  By [inline_leaves_by_name] all their calls stay calls by name, arguments resolved. *)
Theorem inline_walrus_helper_not_inlinable :
  forall hce l, has_walrus l = true -> helper_capval hce l = CFun None.
Proof. exact helper_with_walrus_by_name. Qed.
Print Assumptions inline_walrus_helper_not_inlinable.

(* Whatever goes wrong while a captured callable is turned into a lambda leaves the call by name - the model's
   [helper_capval] is total.  `def ignore(x): return` (no value: the Lambda has no body node, rewriting it raises) and a
   helper whose rewriting raises (an enum class attribute that is not a member, ...) are [CFun None]. *)
Theorem inline_helper_never_raises :
  forall hce l, helper_capval hce l = CFun None \/ exists l', helper_capval hce l = CFun (Some l').
Proof. exact helper_capval_total. Qed.
Print Assumptions inline_helper_never_raises.

Theorem inline_bare_return_helper_not_inlinable :
  forall hce l, bare_return l = true -> helper_capval hce l = CFun None.
Proof. exact helper_bare_return_by_name. Qed.
Print Assumptions inline_bare_return_helper_not_inlinable.

Theorem inline_leaves_walrus_helper_by_name :
  forall ce hce l h args kwn kwv e',
    lookup_var ce h = Some (helper_capval hce l) -> has_walrus l = true ->
    parse_callable ce (Call (Name h) args kwn kwv) = Ok e' ->
    exists args' kwv', e' = Call (Name h) args' kwn kwv' /\ length args' = length args /\ length kwv' = length kwv.
Proof. exact walrus_helper_call_stays_by_name. Qed.
Print Assumptions inline_leaves_walrus_helper_by_name.

(* --- F30: a starred argument is not one positional argument ---
   A called lambda (a helper's, or one written in the query) with a starred argument is left as a call - whatever the
   number of arguments - its parts resolved as generic_visit does, the starred arguments still starred. *)
Theorem inline_leaves_starred_call :
  forall st ps b args kwn kwv,
    existsb is_starred args = true ->
    res st (Call (Lambda ps b) args kwn kwv) =
    Call (Lambda ps (res (shadow ps :: st) b)) (map (res st) args) kwn (map (res st) kwv) /\
    existsb is_starred (map (res st) args) = true.
Proof. exact res_starred_call_stays. Qed.
Print Assumptions inline_leaves_starred_call.

(* the same when the called lambda has default values / other parameter kinds *)
Theorem inline_leaves_starred_call_defaults :
  forall st cls atoms cs args kwn kwv,
    existsb is_starred args = true ->
    res st (Call (Other cls atoms cs) args kwn kwv) =
    Call (res st (Other cls atoms cs)) (map (res st) args) kwn (map (res st) kwv).
Proof. exact res_starred_call_stays_defaults. Qed.
Print Assumptions inline_leaves_starred_call_defaults.

(* F30 as an invariant of the whole pass, over EVERY expression tree: [swf allow e] says that every starred node of [e]
   sits in an argument list or a tuple / list / set display ([allow]: [e] itself is in such a place); the pass never
   moves one out of there.  ([swf_res_all] is the statement for arbitrary argument maps in flight.)  The proof uses the
   test [existsb is_starred args] of the model's "plainly called" - the line added by fix F30. *)
Theorem inline_keeps_starred_in_place :
  forall e, swf false e = true -> swf false (res [] e) = true.
Proof. exact swf_res. Qed.
Print Assumptions inline_keeps_starred_in_place.

Theorem inline_keeps_starred_in_place_stack :
  forall e allow st, swf allow e = true -> st_ok st -> swf allow (res st e) = true.
Proof. intros e. exact (swf_res_all (S (size e)) e (Nat.lt_succ_diag_r _)). Qed.
Print Assumptions inline_keeps_starred_in_place_stack.

(* F48: a called lambda whose body contains an assignment expression stays a call: the name it binds is local to that
   lambda - moved out, it would rebind a name of the enclosing lambda, or the argument would land in the target *)
Theorem inline_leaves_walrus_call :
  forall st ps b args kwn kwv,
    has_walrus b = true ->
    res st (Call (Lambda ps b) args kwn kwv) =
    Call (Lambda ps (res (shadow ps :: st) b)) (map (res st) args) kwn (map (res st) kwv).
Proof. exact res_walrus_call_stays. Qed.
Print Assumptions inline_leaves_walrus_call.

(* without a starred argument nothing changed: matching count, no keywords, no clash -> substituted *)
Theorem inline_plain_call_substituted :
  forall st ps b args kwv,
    length ps = length args -> existsb is_starred args = false -> has_walrus b = false ->
    overlaps (flat_map names_in (map (res st) args)) (inner_binders b) = false ->
    res st (Call (Lambda ps b) args [] kwv) = res_inlined st ps b args.
Proof. exact res_plain_call_inlined. Qed.
Print Assumptions inline_plain_call_substituted.

(* --- F31: default values of a lambda that stays are resolved in the enclosing scope ---
   For a lambda with default values / other parameter kinds ([lam_parts] decodes it) the result keeps every ast.arg
   node, replaces every default value [d] by [res st d] - [st] being the argument maps of the ENCLOSING scope, the
   lambda's own parameters do not hide them - and resolves the body under every name the lambda binds. *)
Theorem inline_defaults_in_enclosing_scope :
  forall st cls atoms cs acls aatoms akids b lv,
    lam_parts cls cs = Some (acls, aatoms, akids, b, lv) ->
    res st (Other cls atoms cs) =
    Other cls atoms [Other acls aatoms (map (on_defaults (res st)) akids); res (shadow (lv_params lv) :: st) b].
Proof. exact res_lambda_defaults_outer. Qed.
Print Assumptions inline_defaults_in_enclosing_scope.

Theorem inline_default_sees_argument :
  forall st cls atoms cs acls aatoms akids b lv x a,
    lam_parts cls cs = Some (acls, aatoms, akids, b, lv) -> In (Name x) akids -> lookup_st x st = Some (Some a) ->
    exists akids' b', res st (Other cls atoms cs) = Other cls atoms [Other acls aatoms akids'; b'] /\ In a akids'.
Proof. exact res_default_sees_argument. Qed.
Print Assumptions inline_default_sees_argument.

(* --- F32: every parameter of a lambda that stays (keyword-only, positional-only, * and ** too) is an inner binder,
   and a call whose resolved argument mentions one is left as a call --- *)
Theorem inline_counts_every_binder :
  forall cls atoms cs acls aatoms akids b lv,
    lam_parts cls cs = Some (acls, aatoms, akids, b, lv) -> incl (lv_params lv) (inner_binders (Other cls atoms cs)).
Proof. exact inner_binders_all_params. Qed.
Print Assumptions inline_counts_every_binder.

Theorem inline_stays_on_any_binder :
  forall st ps cls atoms cs acls aatoms akids b lv args z,
    lam_parts cls cs = Some (acls, aatoms, akids, b, lv) -> length ps = length args -> existsb is_starred args = false ->
    In z (lv_params lv) -> In z (flat_map names_in (map (res st) args)) ->
    res st (Call (Lambda ps (Other cls atoms cs)) args [] []) =
    Call (Lambda ps (res (shadow ps :: st) (Other cls atoms cs))) (map (res st) args) [] [].
Proof. exact res_call_stays_on_any_binder. Qed.
Print Assumptions inline_stays_on_any_binder.

(* ---------- Examples ---------- *)
Definition B0 : backend := {| attr_sem := fun _ _ => None; meth_sem := fun _ _ _ _ => None; fun_sem := fun _ _ _ => None |}.
Definition glob (l : list (string * capval)) : cenv := {| ce_nonlocals := []; ce_globals := l; ce_attrs := [] |}.

(* param-only helper body (F06): def h(p): return p ; lambda e: h(e.x)  records  lambda e: e.x *)
Example inline_param_only :
  parse_callable (glob [("h", CFun (Some (Lambda ["p"] (Name "p"))))])
    (Lambda ["e"] (Call (Name "h") [Attr (Name "e") "x"] [] []))
  = Ok (Lambda ["e"] (Attr (Name "e") "x")).
Proof. vm_compute. reflexivity. Qed.

(* an inner lambda re-using the helper's parameter name is not substituted into (F07) *)
Example inline_inner_shadow :
  parse_callable (glob [("h", CFun (Some (Lambda ["a"]
                    (Call (Attr (Attr (Name "a") "jets") "Select") [Lambda ["a"] (Attr (Name "a") "pt")] [] []))))])
    (Lambda ["e"] (Call (Name "h") [Name "e"] [] []))
  = Ok (Lambda ["e"] (Call (Attr (Attr (Name "e") "jets") "Select") [Lambda ["a"] (Attr (Name "a") "pt")] [] [])).
Proof. vm_compute. reflexivity. Qed.

(* a helper lambda handed in un-rewritten keeps its inner call by name (pre-FC5 snapshot shape; with FC5 the snapshot is
   built by [helper_capval], see helper_of_helper_inlined); helper calls in arguments are all inlined *)
Example inline_nested :
  parse_callable (glob [("h2", CFun (Some (Lambda ["a"; "b"] (BinOp BSub (Name "a") (Name "b")))));
                        ("h4", CFun (Some (Lambda ["a"] (BinOp BAdd (Call (Name "h2") [Name "a"; Const (CInt 1)] [] []) (Const (CInt 1))))))])
    (Lambda ["e"] (Tuple [Call (Name "h4") [Attr (Name "e") "z"] [] [];
                          Call (Name "h2") [Call (Name "h2") [Attr (Name "e") "x"; Const (CInt 1)] [] []; Attr (Name "e") "y"] [] []]))
  = Ok (Lambda ["e"] (Tuple [BinOp BAdd (Call (Name "h2") [Attr (Name "e") "z"; Const (CInt 1)] [] []) (Const (CInt 1));
                             BinOp BSub (BinOp BSub (Attr (Name "e") "x") (Const (CInt 1))) (Attr (Name "e") "y")])).
Proof. vm_compute. reflexivity. Qed.

(* keyword / re-ordered calls are left as a call of the helper's lambda (Python binds them; FC2) *)
Example inline_keywords_left :
  parse_callable (glob [("h", CFun (Some (Lambda ["a"; "b"] (BinOp BSub (Name "a") (Name "b")))))])
    (Lambda ["e"] (Call (Name "h") [] [Some "b"; Some "a"] [Attr (Name "e") "x"; Attr (Name "e") "y"]))
  = Ok (Lambda ["e"] (Call (Lambda ["a"; "b"] (BinOp BSub (Name "a") (Name "b"))) [] [Some "b"; Some "a"]
                           [Attr (Name "e") "x"; Attr (Name "e") "y"])).
Proof. vm_compute. reflexivity. Qed.

(* the hypotheses of inline_sem_partial are met by a real query and the values agree *)
Example inline_sem_runs :
  let h := Lambda ["a"; "b"] (BinOp BSub (Name "a") (Name "b")) in
  let q := Call (Attr (Name "s") "Select") [Lambda ["j"] (Call h [Name "j"; Call h [Name "k"; Const (CInt 1)] [] []] [] [])] [] [] in
  first_order q /\
  eval B0 ["Select"] [("s", VList [VInt 10; VInt 20]); ("k", VInt 3)] q = Some (VList [VInt 8; VInt 18]) /\
  eval B0 ["Select"] [("s", VList [VInt 10; VInt 20]); ("k", VInt 3)] (res [] q) = Some (VList [VInt 8; VInt 18]) /\
  res [] q = Call (Attr (Name "s") "Select") [Lambda ["j"] (BinOp BSub (Name "j") (BinOp BSub (Name "k") (Const (CInt 1))))] [] [].
Proof.
  split; [apply first_order_of_no_callee; intros x; reflexivity|]. split; [vm_compute; reflexivity|]. split; vm_compute; reflexivity.
Qed.

(* FC4: def h(a): return a.jets.Select(lambda j: j.pt + a.pt), passed lambda  lambda j: h(j) : the argument's name is
   bound again inside the body, so the call is left (Python's call semantics), and the value is kept *)
Example inline_capture_bails :
  let h := Lambda ["a"] (Call (Attr (Attr (Name "a") "jets") "Select")
                              [Lambda ["j"] (BinOp BAdd (Attr (Name "j") "pt") (Attr (Name "a") "pt"))] [] []) in
  let q := Call h [Name "j"] [] [] in
  let E := [("j", VDict [VStr "pt"; VStr "jets"] [VInt 10; VList [VDict [VStr "pt"] [VInt 1]]])] in
  first_order q /\ res [] q = q /\
  eval B0 ["Select"] E q = Some (VList [VInt 11]) /\ eval B0 ["Select"] E (res [] q) = Some (VList [VInt 11]).
Proof.
  split; [apply first_order_of_no_callee; intros x; reflexivity|].
  split; [vm_compute; reflexivity | split; vm_compute; reflexivity].
Qed.

(* the same helper called with another name is inlined, and an inner called lambda re-using the name does not block it *)
Example inline_shadow_inlined :
  let h := Lambda ["a"] (Call (Attr (Attr (Name "a") "jets") "Select")
                              [Lambda ["j"] (BinOp BAdd (Attr (Name "j") "pt") (Attr (Name "a") "pt"))] [] []) in
  res [] (Call h [Name "e"] [] []) =
    Call (Attr (Attr (Name "e") "jets") "Select") [Lambda ["j"] (BinOp BAdd (Attr (Name "j") "pt") (Attr (Name "e") "pt"))] [] [] /\
  res [] (Call (Lambda ["x"] (BinOp BAdd (Call (Lambda ["x"] (BinOp BAdd (Name "x") (Const (CInt 2)))) [Name "x"] [] []) (Const (CInt 1))))
               [Name "x"] [] [])
  = BinOp BAdd (BinOp BAdd (Name "x") (Const (CInt 2))) (Const (CInt 1)).
Proof. split; vm_compute; reflexivity. Qed.

(* a helper with an inner Select-lambda (a binder that stays) and non-constant arguments: inside the theorem *)
Example inline_sem_staying_binder :
  let h := Lambda ["k"] (Call (Attr (Name "s") "Select") [Lambda ["j"] (BinOp BAdd (Name "j") (Name "k"))] [] []) in
  let q := Call h [BinOp BAdd (Name "k0") (Const (CInt 2))] [] [] in
  first_order q /\
  eval B0 ["Select"] [("s", VList [VInt 1; VInt 2]); ("k0", VInt 3)] q = Some (VList [VInt 6; VInt 7]) /\
  eval B0 ["Select"] [("s", VList [VInt 1; VInt 2]); ("k0", VInt 3)] (res [] q) = Some (VList [VInt 6; VInt 7]) /\
  res [] q = Call (Attr (Name "s") "Select") [Lambda ["j"] (BinOp BAdd (Name "j") (BinOp BAdd (Name "k0") (Const (CInt 2))))] [] [].
Proof.
  split; [apply first_order_of_no_callee; intros x; reflexivity | split; [|split]; vm_compute; reflexivity].
Qed.

(* FC5: the helper's own free variables are frozen with the helper's own snapshot; a helper whose rewriting raises
   is left by name *)
Example helper_frozen_with_own_closure :
  let hce := glob [("e", CVal (CInt 100))] in
  parse_callable (glob [("h", helper_capval hce (Lambda ["a"] (BinOp BAdd (Name "a") (Name "e"))))])
    (Lambda ["e"] (Call (Name "h") [Attr (Name "e") "a"] [] []))
  = Ok (Lambda ["e"] (BinOp BAdd (Attr (Name "e") "a") (Const (CInt 100)))).
Proof. vm_compute. reflexivity. Qed.

Example helper_of_helper_inlined :
  let h2 := helper_capval (glob []) (Lambda ["a"; "b"] (BinOp BSub (Name "a") (Name "b"))) in
  let h4 := helper_capval (glob [("h2", h2); ("G", CVal (CInt 7))])
              (Lambda ["a"] (BinOp BAdd (Call (Name "h2") [Name "a"; Const (CInt 1)] [] []) (Name "G"))) in
  parse_callable (glob [("h4", h4)]) (Lambda ["e"] (Call (Name "h4") [Attr (Name "e") "z"] [] []))
  = Ok (Lambda ["e"] (BinOp BAdd (BinOp BSub (Attr (Name "e") "z") (Const (CInt 1))) (Const (CInt 7)))).
Proof. vm_compute. reflexivity. Qed.

(* ---------- F30, F31, F32: the encodings harness/bridge.py produces, witnesses, pre-fix behaviour ---------- *)
Definition argn (x : string) : expr := Other "arg;arg=a;annotation=0;type_comment=0" [CStr x] [].
Definition star (e : expr) : expr := Other "Starred;value=n" [] [e].
(* lambda j, k=<d>: <b> *)
Definition lam_j_k (d b : expr) : expr :=
  Other "Lambda;args=n;body=n" []
        [Other "arguments;posonlyargs=[];args=[nn];vararg=0;kwonlyargs=[];kw_defaults=[];kwarg=0;defaults=[n]" []
               [argn "j"; argn "k"; d]; b].
(* lambda j, *, s=<d>: <b> *)
Definition lam_j_kwo_s (d b : expr) : expr :=
  Other "Lambda;args=n;body=n" []
        [Other "arguments;posonlyargs=[];args=[n];vararg=0;kwonlyargs=[n];kw_defaults=[n];kwarg=0;defaults=[]" []
               [argn "j"; argn "s"; d]; b].

(* [lam_view] reads bridge.py's layout: lambda j, /, k=k, *r, s=k - 1, **kw *)
Example lam_view_decodes :
  lam_view "arguments;posonlyargs=[n];args=[n];vararg=n;kwonlyargs=[n];kw_defaults=[n];kwarg=n;defaults=[n]"
           [argn "j"; argn "k"; argn "r"; argn "s"; BinOp BSub (Name "k") (Const (CInt 1)); argn "kw"; Name "k"]
  = Some {| lv_args := ["k"]; lv_params := ["j"; "k"; "r"; "s"; "kw"]; lv_simple := false |} /\
  lam_view "arguments;posonlyargs=[];args=[nn];vararg=0;kwonlyargs=[];kw_defaults=[];kwarg=0;defaults=[n]"
           [argn "j"; argn "k"; Name "k"]
  = Some {| lv_args := ["j"; "k"]; lv_params := ["j"; "k"]; lv_simple := true |} /\
  (* lambda a, b=1, *, c, d=2: the None entry of kw_defaults is an atom ("a"), not a node *)
  lam_view "arguments;posonlyargs=[];args=[nn];vararg=0;kwonlyargs=[nn];kw_defaults=[an];kwarg=0;defaults=[n]"
           [argn "a"; argn "b"; argn "c"; argn "d"; Const (CInt 2); Const (CInt 1)]
  = Some {| lv_args := ["a"; "b"]; lv_params := ["a"; "b"; "c"; "d"]; lv_simple := false |}.
Proof. repeat split; vm_compute; reflexivity. Qed.

(* F30: def h(a): return a + 1 ; the query  lambda e: h( *e.xs)  records  lambda e: (lambda a: a + 1)( *e.xs) *)
Example starred_helper_call_left :
  let h := Lambda ["a"] (BinOp BAdd (Name "a") (Const (CInt 1))) in
  existsb is_starred [star (Attr (Name "e") "xs")] = true /\
  parse_callable (glob [("h", helper_capval (glob []) h)])
    (Lambda ["e"] (Call (Name "h") [star (Attr (Name "e") "xs")] [] []))
  = Ok (Lambda ["e"] (Call h [star (Attr (Name "e") "xs")] [] [])).
Proof. split; vm_compute; reflexivity. Qed.

(* h(e.a, *e.rest), and a directly called lambda with default values: left; the starred operand itself is resolved *)
Example starred_other_shapes_left :
  let h2 := Lambda ["a"; "b"] (BinOp BSub (Name "a") (Name "b")) in
  res [] (Call h2 [Attr (Name "e") "a"; star (Attr (Name "e") "rest")] [] [])
  = Call h2 [Attr (Name "e") "a"; star (Attr (Name "e") "rest")] [] [] /\
  res [] (Call (lam_j_k (Const (CInt 2)) (BinOp BSub (Name "j") (Name "k"))) [Attr (Name "e") "a"; star (Attr (Name "e") "xs")] [] [])
  = Call (lam_j_k (Const (CInt 2)) (BinOp BSub (Name "j") (Name "k"))) [Attr (Name "e") "a"; star (Attr (Name "e") "xs")] [] [] /\
  res [] (Call (Lambda ["q"] (Call (Lambda ["a"] (BinOp BAdd (Name "a") (Const (CInt 1)))) [star (List [Name "q"])] [] []))
               [Attr (Name "e") "a"] [] [])
  = Call (Lambda ["a"] (BinOp BAdd (Name "a") (Const (CInt 1)))) [star (List [Attr (Name "e") "a"])] [] [].
Proof. repeat split; vm_compute; reflexivity. Qed.

(* the pass before 6fb93bf counted `*e.xs` as one positional argument and substituted: the Starred node lands in
   operand position, `*e.xs + 1`, which is not a Python expression *)
Example starred_argument_substituted_pinned_refuted :
  exists ps b args,
    length ps = length args /\ existsb is_starred args = true /\
    swf false (Call (Lambda ps b) args [] []) = true /\
    res_inlined [] ps b args = BinOp BAdd (star (Attr (Name "e") "xs")) (Const (CInt 1)) /\
    swf false (res_inlined [] ps b args) = false /\
    res [] (Call (Lambda ps b) args [] []) = Call (Lambda ps b) args [] [].
Proof.
  exists ["a"], (BinOp BAdd (Name "a") (Const (CInt 1))), [star (Attr (Name "e") "xs")].
  repeat split; vm_compute; reflexivity.
Qed.

(* the hypothesis of inline_keeps_starred_in_place is met by queries with starred arguments in every legal place *)
Example starred_in_place_runs :
  let h := Lambda ["a"] (BinOp BAdd (Name "a") (Const (CInt 1))) in
  let q := Tuple [Call h [star (Attr (Name "e") "xs")] [] [];
                  star (Attr (Name "e") "two");
                  Call h [Call h [star (List [Attr (Name "e") "a"])] [] []] [] [];
                  Call (Name "max") [star (Attr (Name "e") "two")] [] []] in
  swf false q = true /\ swf false (res [] q) = true /\
  res [] q = Tuple [Call h [star (Attr (Name "e") "xs")] [] [];
                    star (Attr (Name "e") "two");
                    BinOp BAdd (Call h [star (List [Attr (Name "e") "a"])] [] []) (Const (CInt 1));
                    Call (Name "max") [star (Attr (Name "e") "two")] [] []] /\
  swf false (BinOp BAdd (star (Name "x")) (Const (CInt 1))) = false.
Proof. repeat split; vm_compute; reflexivity. Qed.

(* F31: def mk(k): return lambda j, k=k: j + k ; lambda e: mk(e.off)  records  lambda e: lambda j, k=e.off: j + k *)
Example default_of_returned_lambda_resolved :
  let mk := Lambda ["k"] (lam_j_k (Name "k") (BinOp BAdd (Name "j") (Name "k"))) in
  parse_callable (glob [("mk", helper_capval (glob []) mk)])
    (Lambda ["e"] (Call (Name "mk") [Attr (Name "e") "off"] [] []))
  = Ok (Lambda ["e"] (lam_j_k (Attr (Name "e") "off") (BinOp BAdd (Name "j") (Name "k")))).
Proof. vm_compute. reflexivity. Qed.

(* keyword-only default `lambda j, *, s=k + 1: j * s`; a default inside a lambda that is itself inlined away *)
Example defaults_other_shapes :
  res [[("k", Some (Attr (Name "e") "off"))]]
      (lam_j_kwo_s (BinOp BAdd (Name "k") (Const (CInt 1))) (BinOp BMult (Name "j") (Name "s")))
  = lam_j_kwo_s (BinOp BAdd (Attr (Name "e") "off") (Const (CInt 1))) (BinOp BMult (Name "j") (Name "s")) /\
  (* (lambda q, r=k: q + r)(1) stays (one argument, two parameters), its default sees k; (..)(k, 2) is inlined *)
  res [[("k", Some (Attr (Name "e") "off"))]]
      (Call (Other "Lambda;args=n;body=n" []
                   [Other "arguments;posonlyargs=[];args=[nn];vararg=0;kwonlyargs=[];kw_defaults=[];kwarg=0;defaults=[n]" []
                          [argn "q"; argn "r"; Name "k"]; BinOp BAdd (Name "q") (Name "r")]) [Const (CInt 1)] [] [])
  = Call (Other "Lambda;args=n;body=n" []
                [Other "arguments;posonlyargs=[];args=[nn];vararg=0;kwonlyargs=[];kw_defaults=[];kwarg=0;defaults=[n]" []
                       [argn "q"; argn "r"; Attr (Name "e") "off"]; BinOp BAdd (Name "q") (Name "r")]) [Const (CInt 1)] [] [] /\
  res [[("k", Some (Attr (Name "e") "off"))]]
      (Call (Other "Lambda;args=n;body=n" []
                   [Other "arguments;posonlyargs=[];args=[nn];vararg=0;kwonlyargs=[];kw_defaults=[];kwarg=0;defaults=[n]" []
                          [argn "q"; argn "r"; Name "k"]; BinOp BAdd (Name "q") (Name "r")]) [Name "k"; Const (CInt 2)] [] [])
  = BinOp BAdd (Attr (Name "e") "off") (Const (CInt 2)).
Proof. repeat split; vm_compute; reflexivity. Qed.

(* the hypotheses of inline_defaults_in_enclosing_scope / inline_default_sees_argument are met by the witness *)
Example defaults_theorem_applies :
  let arguments := "arguments;posonlyargs=[];args=[nn];vararg=0;kwonlyargs=[];kw_defaults=[];kwarg=0;defaults=[n]" in
  lam_parts "Lambda;args=n;body=n" [Other arguments [] [argn "j"; argn "k"; Name "k"]; BinOp BAdd (Name "j") (Name "k")]
  = Some (arguments, [], [argn "j"; argn "k"; Name "k"], BinOp BAdd (Name "j") (Name "k"),
          {| lv_args := ["j"; "k"]; lv_params := ["j"; "k"]; lv_simple := true |}) /\
  In (Name "k") [argn "j"; argn "k"; Name "k"] /\
  lookup_st "k" [[("k", Some (Attr (Name "e") "off"))]] = Some (Some (Attr (Name "e") "off")).
Proof. split; [vm_compute; reflexivity | split; [right; right; left; reflexivity | reflexivity]]. Qed.

(* visit_Lambda before a7148b7 pushed the lambda's parameters first: the default `k` of `lambda j, k=k: j + k` was hidden
   by the parameter `k` and stayed a free name *)
Example default_hidden_by_own_parameter_pinned_refuted :
  exists st cls atoms acls aatoms akids b lv,
    lam_parts cls [Other acls aatoms akids; b] = Some (acls, aatoms, akids, b, lv) /\
    res_lambda_pinned st cls atoms acls aatoms akids b lv = lam_j_k (Name "k") (BinOp BAdd (Name "j") (Name "k")) /\
    res st (Other cls atoms [Other acls aatoms akids; b]) = lam_j_k (Attr (Name "e") "off") (BinOp BAdd (Name "j") (Name "k")).
Proof.
  exists [[("k", Some (Attr (Name "e") "off"))]], "Lambda;args=n;body=n", [],
         "arguments;posonlyargs=[];args=[nn];vararg=0;kwonlyargs=[];kw_defaults=[];kwarg=0;defaults=[n]", [],
         [argn "j"; argn "k"; Name "k"], (BinOp BAdd (Name "j") (Name "k")),
         {| lv_args := ["j"; "k"]; lv_params := ["j"; "k"]; lv_simple := true |}.
  repeat split; vm_compute; reflexivity.
Qed.

(* F32: lambda s: (lambda k: lambda j, *, s=2: k + s + j)(s.off) - the argument mentions `s`, the lambda that stays
   binds `s` keyword-only: the call is left *)
Example keyword_only_binder_stops_substitution :
  let inner := lam_j_kwo_s (Const (CInt 2)) (BinOp BAdd (BinOp BAdd (Name "k") (Name "s")) (Name "j")) in
  inner_binders inner = ["j"; "s"] /\
  parse_callable (glob []) (Lambda ["s"] (Call (Lambda ["k"] inner) [Attr (Name "s") "off"] [] []))
  = Ok (Lambda ["s"] (Call (Lambda ["k"] inner) [Attr (Name "s") "off"] [] [])) /\
  (* `*s`: lambda s: (lambda k: lambda *s: k)(s.off) *)
  (let vs := Other "Lambda;args=n;body=n" []
                   [Other "arguments;posonlyargs=[];args=[];vararg=n;kwonlyargs=[];kw_defaults=[];kwarg=0;defaults=[]" [] [argn "s"];
                    Name "k"] in
   res [] (Call (Lambda ["k"] vs) [Attr (Name "s") "off"] [] []) = Call (Lambda ["k"] vs) [Attr (Name "s") "off"] [] []) /\
  (* with another argument name the same call is inlined *)
  res [] (Call (Lambda ["k"] inner) [Attr (Name "e") "off"] [] [])
  = lam_j_kwo_s (Const (CInt 2)) (BinOp BAdd (BinOp BAdd (Attr (Name "e") "off") (Name "s")) (Name "j")).
Proof. repeat split; vm_compute; reflexivity. Qed.

(* _inner_binders before cb95368 counted the plain positional parameters only ([lam_bound_pinned]): `s` was missed, the
   bail-out test did not fire and the substitution captured the query's `s`: lambda j, *, s=2: s.off + s + j *)
Example keyword_only_binder_missed_pinned_refuted :
  exists cls cs ps args,
    lam_bound_pinned cls cs = ["j"] /\ lam_bound cls cs = ["j"; "s"] /\
    overlaps (flat_map names_in args) (lam_bound_pinned cls cs ++ flat_map inner_binders cs) = false /\
    overlaps (flat_map names_in args) (inner_binders (Other cls [] cs)) = true /\
    res_inlined [] ps (Other cls [] cs) args
    = lam_j_kwo_s (Const (CInt 2)) (BinOp BAdd (BinOp BAdd (Attr (Name "s") "off") (Name "s")) (Name "j")).
Proof.
  exists "Lambda;args=n;body=n",
         [Other "arguments;posonlyargs=[];args=[n];vararg=0;kwonlyargs=[n];kw_defaults=[n];kwarg=0;defaults=[]" []
                [argn "j"; argn "s"; Const (CInt 2)]; BinOp BAdd (BinOp BAdd (Name "k") (Name "s")) (Name "j")],
         ["k"], [Attr (Name "s") "off"].
  repeat split; vm_compute; reflexivity.
Qed.

(* ---------- F34, F35, F36: callables that are left by name ---------- *)
Definition walrus (x : string) (v : expr) : expr := Other "NamedExpr;target=n;value=n" [] [Name x; v].

(* F36: def w(a): return (a := a + 1) * 2 ; the query  lambda e: w(e.a) + h(e.a)  keeps w by name, inlines h *)
Example walrus_helper_left_by_name :
  let w := Lambda ["a"] (BinOp BMult (walrus "a" (BinOp BAdd (Name "a") (Const (CInt 1)))) (Const (CInt 2))) in
  let h := Lambda ["a"] (BinOp BAdd (Name "a") (Const (CInt 1))) in
  has_walrus w = true /\ has_walrus h = false /\
  helper_capval (glob []) w = CFun None /\
  parse_callable (glob [("w", helper_capval (glob []) w); ("h", helper_capval (glob []) h)])
    (Lambda ["e"] (BinOp BAdd (Call (Name "w") [Attr (Name "e") "a"] [] []) (Call (Name "h") [Attr (Name "e") "a"] [] [])))
  = Ok (Lambda ["e"] (BinOp BAdd (Call (Name "w") [Attr (Name "e") "a"] [] []) (BinOp BAdd (Attr (Name "e") "a") (Const (CInt 1))))) /\
  (* a walrus hidden in a default value, or in a nested lambda of the helper, counts as well *)
  has_walrus (Lambda ["a"] (lam_j_k (walrus "y" (Name "a")) (Name "j"))) = true /\
  has_walrus (Lambda ["s"] (Call (Attr (Name "s") "Select") [Lambda ["j"] (walrus "y" (Name "j"))] [] [])) = true.
Proof. repeat split; vm_compute; reflexivity. Qed.

(* before 8bb334c the helper was inlined: the parameter is replaced inside the assignment target, `(e.a := e.a + 1) * 2` -
   an Attribute as target of a NamedExpr, which python refuses to compile *)
Example walrus_helper_inlined_pinned_refuted :
  exists w arg,
    has_walrus w = true /\
    (match rewrite_captured (glob []) w with Ok (Lambda ps b) => res_inlined [] ps b [arg] | _ => Name "" end)
    = BinOp BMult (Other "NamedExpr;target=n;value=n" [] [Attr (Name "e") "a"; BinOp BAdd (Attr (Name "e") "a") (Const (CInt 1))])
                  (Const (CInt 2)).
Proof.
  exists (Lambda ["a"] (BinOp BMult (walrus "a" (BinOp BAdd (Name "a") (Const (CInt 1)))) (Const (CInt 2)))), (Attr (Name "e") "a").
  split; vm_compute; reflexivity.
Qed.

(* F34 / F35: a bound method `m = k.scale`, a functools.wraps-decorated `hw` - [CFun None] in the snapshot (the harness
   computes inspect.ismethod / hasattr(_, "__wrapped__") on the live object as the code does): the hypotheses of
   inline_leaves_by_name hold, the calls stay, top level and inside a nested lambda, arguments still resolved *)
Example method_and_decorated_left_by_name :
  let ce := glob [("m", CFun None); ("hw", CFun None); ("h", helper_capval (glob []) (Lambda ["a"] (BinOp BAdd (Name "a") (Const (CInt 1)))))] in
  not_inlinable ce "m" /\ not_inlinable ce "hw" /\
  parse_callable ce (Call (Name "m") [Call (Name "h") [Attr (Name "e") "a"] [] []] [] [])
  = Ok (Call (Name "m") [BinOp BAdd (Attr (Name "e") "a") (Const (CInt 1))] [] []) /\
  parse_callable ce (Lambda ["e"] (Call (Attr (Attr (Name "e") "jets") "Select")
                                         [Lambda ["j"] (BinOp BAdd (Call (Name "m") [Attr (Name "j") "pt"] [] [])
                                                                   (Call (Name "hw") [Attr (Name "j") "pt"] [] []))] [] []))
  = Ok (Lambda ["e"] (Call (Attr (Attr (Name "e") "jets") "Select")
                           [Lambda ["j"] (BinOp BAdd (Call (Name "m") [Attr (Name "j") "pt"] [] [])
                                                     (Call (Name "hw") [Attr (Name "j") "pt"] [] []))] [] [])).
Proof. split; [left; reflexivity | split; [left; reflexivity | split; vm_compute; reflexivity]]. Qed.

(* def ignore(x): return  ;  lambda e: (ignore(e.a), h(e.b))  keeps ignore by name; a helper whose rewriting raises (the
   attribute table says the lookup crashes: an enum class attribute that is not a member) stays by name as well *)
Example bare_return_helper_left_by_name :
  let ignore := Lambda ["x"] (Raw CNone) in
  let h := Lambda ["a"] (BinOp BAdd (Name "a") (Const (CInt 1))) in
  let col := CObj "type" "Col#0" in
  let hce := {| ce_nonlocals := []; ce_globals := [("Col", CVal col)]; ce_attrs := [(col, "__name__", ACrash)] |} in
  bare_return ignore = true /\ helper_capval (glob []) ignore = CFun None /\
  helper_capval hce (Lambda ["a"] (Tuple [Name "a"; Attr (Name "Col") "__name__"])) = CFun None /\
  parse_callable (glob [("ignore", helper_capval (glob []) ignore); ("h", helper_capval (glob []) h)])
    (Lambda ["e"] (Tuple [Call (Name "ignore") [Attr (Name "e") "a"] [] []; Call (Name "h") [Attr (Name "e") "b"] [] []]))
  = Ok (Lambda ["e"] (Tuple [Call (Name "ignore") [Attr (Name "e") "a"] [] []; BinOp BAdd (Attr (Name "e") "b") (Const (CInt 1))])).
Proof. repeat split; vm_compute; reflexivity. Qed.

(* F41: `async def af(x): return x + 1` is [CFun None] in the snapshot: lambda e: af(e.a) keeps the call by name *)
Example async_helper_left_by_name :
  let ce := glob [("af", CFun None); ("h", helper_capval (glob []) (Lambda ["a"] (BinOp BAdd (Name "a") (Const (CInt 1)))))] in
  not_inlinable ce "af" /\
  parse_callable ce (Lambda ["e"] (Tuple [Call (Name "af") [Attr (Name "e") "a"] [] []; Call (Name "h") [Attr (Name "e") "a"] [] []]))
  = Ok (Lambda ["e"] (Tuple [Call (Name "af") [Attr (Name "e") "a"] [] []; BinOp BAdd (Attr (Name "e") "a") (Const (CInt 1))])).
Proof. split; [left; reflexivity | vm_compute; reflexivity]. Qed.

(* F48: lambda t: (lambda q: (t := q) + t)(t.a) + t.b - the call stays; substituted, `t := t.a` would rebind the query's own
   parameter ((t := t.a) + t + t.b), and (lambda q: (q := q + 1) * 2)(e.a) would put e.a in the assignment target *)
Example walrus_call_left :
  let f := Lambda ["q"] (BinOp BAdd (walrus "t" (Name "q")) (Name "t")) in
  let g := Lambda ["q"] (BinOp BMult (walrus "q" (BinOp BAdd (Name "q") (Const (CInt 1)))) (Const (CInt 2))) in
  has_walrus (BinOp BAdd (walrus "t" (Name "q")) (Name "t")) = true /\
  res [] (BinOp BAdd (Call f [Attr (Name "t") "a"] [] []) (Attr (Name "t") "b"))
  = BinOp BAdd (Call f [Attr (Name "t") "a"] [] []) (Attr (Name "t") "b") /\
  res [] (Call g [Attr (Name "e") "a"] [] []) = Call g [Attr (Name "e") "a"] [] [] /\
  inner_binders (Call g [Attr (Name "e") "a"] [] []) = ["q"].
Proof. repeat split; vm_compute; reflexivity. Qed.

Example walrus_call_substituted_pinned_refuted :
  exists ps b args,
    length ps = length args /\ has_walrus b = true /\
    res_inlined [] ps b args
    = BinOp BAdd (BinOp BAdd (walrus "t" (Attr (Name "t") "a")) (Name "t")) (Attr (Name "t") "b").
Proof.
  exists ["q"], (BinOp BAdd (BinOp BAdd (walrus "t" (Name "q")) (Name "t")) (Attr (Name "t") "b")), [Attr (Name "t") "a"].
  repeat split; vm_compute; reflexivity.
Qed.

(* C08 - Type following yields the declared types.
   Only statements here; proofs live in Proofs/TypeFollowTypes.v.

   Full statement, NOT proved (checked by the correspondence of harness/props/c08.py, where every generated
   expression carries the type its annotations imply, computed independently of the follower):
     follow_types_agree : wt ct ft G e t -> exists e' ev, follow W G e = Ok (e', t, ev)
       for a separately written declarative typing relation [wt] over the supported subset.
   Proved: the item types of the three stream operators (for every class model, environment, lambda), the arithmetic
   promotion table, C10's [where_bool_shapes] (comparisons and and/or are bool); by evaluation (Examples): type-variable
   resolution through generic subclasses, renamed / reordered parameters, fixed subclasses and Iterable subclasses
   (the F16 witnesses), over the class-table abstraction of util_types.py as fixed by fixes/F16.diff. *)
From FA.Base Require Import PyAst Value.
From FA.Model Require Import TypeDefs TypeFollow.
From FA.Proofs Require Import TypeFollowFacts TypeFollowTypes.

(* Select gives the lambda's result type, SelectMany its element type, Where keeps the item type and only accepts a
   filter typed bool; the emitted lambda is the followed one and the events are those of its body *)
Theorem stream_item_types : forall W op G0 item p b lam t ev,
  stream_op W op G0 item (Lambda [p] b) = Ok (lam, t, ev) ->
  exists b' tb, follow W ((p, item) :: G0) b = Ok (b', tb, ev) /\ lam = Lambda [p] b' /\
    match op with
    | OpSelect => t = tb
    | OpSelectMany => t = unwrap_iterable (w_ct W) tb
    | OpWhere => t = item /\ tb = TBool
    | _ => False
    end.
Proof. exact stream_item_types_x. Qed.
Print Assumptions stream_item_types.

Theorem where_refuses_non_bool : forall W G0 item p b b' tb ev,
  follow W ((p, item) :: G0) b = Ok (b', tb, ev) -> check_ast (Lambda [p] b') = true -> tb <> TBool ->
  stream_op W OpWhere G0 item (Lambda [p] b) = Refuse RWhereNotBool.
Proof. exact where_refuses_non_bool_x. Qed.
Print Assumptions where_refuses_non_bool.

Theorem binop_promotion : forall o,
  binop_type o TInt TInt = (match o with BDiv => TFloat | _ => TInt end) /\
  binop_type o TInt TFloat = TFloat /\ binop_type o TFloat TInt = TFloat /\ binop_type o TFloat TFloat = TFloat.
Proof. exact binop_promotion_x. Qed.
Print Assumptions binop_promotion.

(* ---------- non-vacuity / the F16 witnesses on the class-table abstraction ---------- *)
Definition P (n : string) (d : option const) : param := {| p_name := n; p_default := d |}.
Definition M (n : string) (r : ty) : method :=
  {| m_name := n; m_params := [P "self" None]; m_ret := Some r; m_cb := None; m_op := OpStub |}.
Definition K (n : string) (ps : list string) (b : option ty) (par : option string) (ms : list method) : cls :=
  {| c_name := n; c_params := ps; c_base := b; c_parent := par; c_methods := ms; c_props := []; c_cb := None;
     c_fields := None; c_collection := false |}.
(* class Base(Generic[T]): first() -> T; items() -> Iterable[T]
   class Mid(Base[U], Generic[T, U]); class Fixed(Base[int]); class It2(Iterable[U], Generic[T, U]) *)
Definition ct4 : classtab :=
  [ K "Base" ["T"] None None [M "first" (TVar "T"); M "items" (TIter (TVar "T"))];
    K "Mid" ["T"; "U"] (Some (TCls "Base" [TVar "U"])) (Some "Base") [];
    K "Fixed" [] (Some (TCls "Base" [TInt])) (Some "Base") [];
    K "It2" ["T"; "U"] (Some (TIter (TVar "U"))) None [];
    K "Ev" [] None None [M "mid" (TCls "Mid" [TStr; TInt]); M "fixed" (TCls "Fixed" []); M "it" (TCls "It2" [TStr; TFloat])] ].
Definition W4 : world := {| w_ct := ct4; w_ft := []; w_cb := [] |}.
Definition call0 (v : expr) (m : string) := Call (Attr v m) [] [] [].

Example generic_inheritance :
  get_inherited ct4 (TCls "Mid" [TStr; TInt]) = TCls "Base" [TInt] /\
  is_iterable ct4 (TCls "Base" [TInt]) = false /\
  unwrap_iterable ct4 (TCls "It2" [TStr; TFloat]) = TFloat /\
  resolve_type_vars ct4 (TVar "T") (TCls "Fixed" []) "Base" = Some TInt /\
  follow W4 [("e", TCls "Ev" [])] (call0 (call0 (Name "e") "mid") "first") = Ok (call0 (call0 (Name "e") "mid") "first", TInt, []) /\
  follow W4 [("e", TCls "Ev" [])] (call0 (call0 (Name "e") "fixed") "first") = Ok (call0 (call0 (Name "e") "fixed") "first", TInt, []) /\
  follow W4 [("e", TCls "Ev" [])] (call0 (call0 (Name "e") "mid") "items") = Ok (call0 (call0 (Name "e") "mid") "items", TIter TInt, []) /\
  stream_op W4 OpSelectMany [] (TCls "Ev" []) (Lambda ["e"] (call0 (Name "e") "it")) = Ok (Lambda ["e"] (call0 (Name "e") "it"), TFloat, []).
Proof. repeat split; vm_compute; reflexivity. Qed.

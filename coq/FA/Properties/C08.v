(* C08 - Type following yields the declared types.
   Only statements here; proofs live in Proofs/TypeFollowTypes.v.

   Whole expressions (Proofs/TypeFollowTyping.v): [wt W G e t] is a declarative typing relation over the supported
   subset (names, constants, comparisons, and/or, int/float arithmetic, conditionals, method calls through the return
   annotation with the class type variables substituted along the base chain, First / Count / other methods of
   registered collection classes, Select / SelectMany / Where with a lambda, subscripts, constant indices into tuple
   literals, fields of dictionary literals and of dictionary- or dataclass-typed values, registered functions);
   [follow_types_agree]: the follower accepts every such expression with exactly that type; [wt_deterministic];
   [stream_types_agree] / [stream_item_types] for the stream operators themselves.
   The base-chain substitution inside [wt] is the model of util_types.py ([get_method_and_class],
   [resolve_type_vars], [unwrap_iterable] of Model/TypeDefs.v, as fixed by fixes/F16.diff), tied to the code by the
   correspondence on random generic class models; its behaviour on the F16 witnesses is evaluated below. *)
From FA.Base Require Import PyAst Value.
From FA.Gen Require Import TablesTypes.
From FA.Model Require Import TypeDefs TypeFollow.
From FA.Proofs Require Import TypeFollowFacts TypeFollowTypes TypeFollowFill TypeFollowNormalised TypeFollowSites TypeFollowTyping.

(* every class table / function table / environment / expression of the supported subset *)
Theorem follow_types_agree : forall (W : world) (G : tenv) (e : expr) (t : ty),
  wt W G e t -> exists e' ev, follow W G e = Ok (e', t, ev).
Proof. exact follow_types_agree_x. Qed.
Print Assumptions follow_types_agree.

Theorem wt_deterministic : forall (W : world) (G : tenv) (e : expr) (t t' : ty),
  wt W G e t -> wt W G e t' -> t = t'.
Proof. exact wt_deterministic_x. Qed.
Print Assumptions wt_deterministic.

(* the item type of the stream returned by Select / SelectMany / Where for a well-typed lambda
   ([op_result]: result type / element type / item type provided the filter is bool) *)
Theorem stream_types_agree : forall (W : world) op G0 item p b tb t,
  wt W ((p, item) :: G0) b tb ->
  check_ast (Lambda [p] (out_of W ((p, item) :: G0) b)) = true ->
  op_result (w_ct W) op item tb = Some t ->
  exists lam ev, stream_op W op G0 item (Lambda [p] b) = Ok (lam, t, ev).
Proof. exact stream_types_agree_x. Qed.
Print Assumptions stream_types_agree.

(* Select gives the lambda's result type, SelectMany its element type, Where keeps the item type and only accepts a
   filter typed bool; the emitted lambda is the followed one and the events are those of its body *)
Theorem stream_item_types : forall W op G0 item p b lam t ev,
  stream_op W op G0 item (Lambda [p] b) = Ok (lam, t, ev) ->
  exists b' tb, follow W ((p, item) :: G0) b = Ok (b', tb, ev) /\ lam = Lambda [p] b' /\
    match op with
    | OpSelect => t = tb
    | OpSelectMany => t = unwrap_iterable (w_ct W) tb
    | OpWhere => t = item /\ tb = TBool
    | _ => False
    end.
Proof. exact stream_item_types_x. Qed.
Print Assumptions stream_item_types.

Theorem where_refuses_non_bool : forall W G0 item p b b' tb ev,
  follow W ((p, item) :: G0) b = Ok (b', tb, ev) -> check_ast (Lambda [p] b') = true -> tb <> TBool ->
  stream_op W OpWhere G0 item (Lambda [p] b) = Refuse RWhereNotBool.
Proof. exact where_refuses_non_bool_x. Qed.
Print Assumptions where_refuses_non_bool.

Theorem binop_promotion : forall o,
  binop_type o TInt TInt = (match o with BDiv => TFloat | _ => TInt end) /\
  binop_type o TInt TFloat = TFloat /\ binop_type o TFloat TInt = TFloat /\ binop_type o TFloat TFloat = TFloat.
Proof. exact binop_promotion_x. Qed.
Print Assumptions binop_promotion.

(* ---------- non-vacuity / the F16 witnesses on the class-table abstraction ---------- *)
Definition P (n : string) (d : option const) : param := {| p_name := n; p_default := d |}.
Definition M (n : string) (r : ty) : method :=
  {| m_name := n; m_params := [P "self" None]; m_ret := Some r; m_cb := None; m_op := OpStub |}.
Definition K (n : string) (ps : list string) (b : option ty) (par : option string) (ms : list method) : cls :=
  {| c_name := n; c_params := ps; c_base := b; c_parent := par; c_methods := ms; c_props := []; c_cb := None;
     c_fields := None; c_collection := false |}.
(* class Base(Generic[T]): first() -> T; items() -> Iterable[T]
   class Mid(Base[U], Generic[T, U]); class Fixed(Base[int]); class It2(Iterable[U], Generic[T, U]) *)
Definition ct4 : classtab :=
  [ K "Base" ["T"] None None [M "first" (TVar "T"); M "items" (TIter (TVar "T"))];
    K "Mid" ["T"; "U"] (Some (TCls "Base" [TVar "U"])) (Some "Base") [];
    K "Fixed" [] (Some (TCls "Base" [TInt])) (Some "Base") [];
    K "It2" ["T"; "U"] (Some (TIter (TVar "U"))) None [];
    K "Ev" [] None None [M "mid" (TCls "Mid" [TStr; TInt]); M "fixed" (TCls "Fixed" []); M "it" (TCls "It2" [TStr; TFloat])] ].
Definition W4 : world := {| w_ct := ct4; w_ft := []; w_cb := [] |}.
Definition call0 (v : expr) (m : string) := Call (Attr v m) [] [] [].

Example generic_inheritance :
  get_inherited ct4 (TCls "Mid" [TStr; TInt]) = TCls "Base" [TInt] /\
  is_iterable ct4 (TCls "Base" [TInt]) = false /\
  unwrap_iterable ct4 (TCls "It2" [TStr; TFloat]) = TFloat /\
  resolve_type_vars ct4 (TVar "T") (TCls "Fixed" []) "Base" = Some TInt /\
  follow W4 [("e", TCls "Ev" [])] (call0 (call0 (Name "e") "mid") "first") = Ok (call0 (call0 (Name "e") "mid") "first", TInt, []) /\
  follow W4 [("e", TCls "Ev" [])] (call0 (call0 (Name "e") "fixed") "first") = Ok (call0 (call0 (Name "e") "fixed") "first", TInt, []) /\
  follow W4 [("e", TCls "Ev" [])] (call0 (call0 (Name "e") "mid") "items") = Ok (call0 (call0 (Name "e") "mid") "items", TIter TInt, []) /\
  stream_op W4 OpSelectMany [] (TCls "Ev" []) (Lambda ["e"] (call0 (Name "e") "it")) = Ok (Lambda ["e"] (call0 (Name "e") "it"), TFloat, []).
Proof. repeat split; vm_compute; reflexivity. Qed.

(* ---------- non-vacuity of [wt] ---------- *)

(* through a generic subclass with reordered parameters: e.mid().first() : int *)
Example wt_generic_subclass :
  wt W4 [("e", TCls "Ev" [])] (call0 (call0 (Name "e") "mid") "first") TInt.
Proof.
  eapply (wt_method W4 _ (call0 (Name "e") "mid") "first" [] [] [] (TCls "Mid" [TStr; TInt]) [] [] "Base").
  - eapply (wt_method W4 _ (Name "e") "mid" [] [] [] (TCls "Ev" []) [] [] "Ev").
    + constructor. reflexivity.
    + split; reflexivity.
    + constructor.
    + constructor.
    + vm_compute. reflexivity.
    + vm_compute. reflexivity.
    + eexists. vm_compute. reflexivity.
    + reflexivity.
  - split; reflexivity.
  - constructor.
  - constructor.
  - vm_compute. reflexivity.
  - vm_compute. reflexivity.
  - eexists. vm_compute. reflexivity.
  - reflexivity.
Qed.

(* a typed collection with the library's operators: e.Jets().Where(lambda j: j.pt() > 1).Count() ... *)
Definition os_params := [P "self" None; P "f" None; P "known_types" (Some (CObj "other:dict" "{}"))].
Definition OP (n : string) (r : ty) (o : opkind) : method :=
  {| m_name := n; m_params := os_params; m_ret := Some r; m_cb := None; m_op := o |}.
Definition ct5 : classtab :=
  [ {| c_name := "OSIM"; c_params := ["T"]; c_base := Some (TCls "ObjectStream" [TVar "T"]); c_parent := Some "ObjectStream";
       c_methods := [ {| m_name := "First"; m_params := [P "self" None]; m_ret := Some (TVar "T"); m_cb := None; m_op := OpFirst |};
                      {| m_name := "Count"; m_params := [P "self" None]; m_ret := Some TInt; m_cb := None; m_op := OpStub |} ];
       c_props := []; c_cb := None; c_fields := None; c_collection := true |};
    {| c_name := "ObjectStream"; c_params := ["T"]; c_base := None; c_parent := None;
       c_methods := [ OP "Select" (TCls "ObjectStream" [TVar "S"]) OpSelect;
                      OP "SelectMany" (TCls "ObjectStream" [TVar "S"]) OpSelectMany;
                      OP "Where" (TCls "ObjectStream" [TVar "T"]) OpWhere ];
       c_props := []; c_cb := None; c_fields := None; c_collection := false |};
    K "Jet" [] None None [M "pt" TFloat];
    K "Event" [] None None [M "Jets" (TIter (TCls "Jet" []))] ].
Definition W5 : world := {| w_ct := ct5; w_ft := ft_default; w_cb := [] |}.
Definition jets := call0 (Name "e") "Jets".
Definition pt_gt := Compare (call0 (Name "j") "pt") [CGt] [Const (CInt 1)].

Example wt_jets : wt W5 [("e", TCls "Event" [])] jets (TIter (TCls "Jet" [])).
Proof.
  eapply (wt_method W5 _ (Name "e") "Jets" [] [] [] (TCls "Event" []) [] [] "Event");
    try (constructor; reflexivity); try reflexivity; try (split; reflexivity); try (vm_compute; reflexivity).
  eexists. vm_compute. reflexivity.
Qed.

Example wt_pt_gt : wt W5 [("j", TCls "Jet" []); ("e", TCls "Event" [])] pt_gt TBool.
Proof.
  eapply wt_compare with (tl := TFloat) (ts := [TInt]).
  - eapply (wt_method W5 _ (Name "j") "pt" [] [] [] (TCls "Jet" []) [] [] "Jet");
      try (constructor; reflexivity); try reflexivity; try (split; reflexivity); try (vm_compute; reflexivity).
    eexists. vm_compute. reflexivity.
  - repeat constructor.
Qed.

Example wt_where_select :
  wt W5 [("e", TCls "Event" [])]
     (Call (Attr (Call (Attr jets "Where") [Lambda ["j"] pt_gt] [] []) "Select") [Lambda ["j"] (call0 (Name "j") "pt")] [] [])
     (TIter TFloat).
Proof.
  eapply (wt_operator W5 _ _ "Select" "j" _ (TIter (TCls "Jet" [])) TFloat "OSIM" "ObjectStream").
  - (* the receiver: Where keeps the element type *)
    eapply (wt_operator W5 _ jets "Where" "j" pt_gt (TIter (TCls "Jet" [])) TBool "OSIM" "ObjectStream").
    + exact wt_jets.
    + split; reflexivity.
    + reflexivity.
    + reflexivity.
    + vm_compute. reflexivity.
    + reflexivity.
    + right; right; reflexivity.
    + reflexivity.
    + exact wt_pt_gt.
    + vm_compute. reflexivity.
    + reflexivity.
  - split; reflexivity.
  - reflexivity.
  - reflexivity.
  - vm_compute. reflexivity.
  - reflexivity.
  - left; reflexivity.
  - reflexivity.
  - eapply (wt_method W5 _ (Name "j") "pt" [] [] [] (TCls "Jet" []) [] [] "Jet");
      try (constructor; reflexivity); try reflexivity; try (split; reflexivity); try (vm_compute; reflexivity).
    eexists. vm_compute. reflexivity.
  - vm_compute. reflexivity.
  - reflexivity.
Qed.

(* ... and the theorem delivers what evaluation confirms *)
Example where_select_followed :
  exists e' ev, follow W5 [("e", TCls "Event" [])]
     (Call (Attr (Call (Attr jets "Where") [Lambda ["j"] pt_gt] [] []) "Select") [Lambda ["j"] (call0 (Name "j") "pt")] [] [])
     = Ok (e', TIter TFloat, ev).
Proof. exact (follow_types_agree _ _ _ _ wt_where_select). Qed.

(* F43: [not x] is bool whatever [x] is; F44: a key given twice in a dictionary literal has its last value *)
Example not_and_duplicate_keys :
  follow W4 [("e", TCls "Ev" [])] (UnaryOp UNot (call0 (call0 (Name "e") "mid") "first")) =
    Ok (UnaryOp UNot (call0 (call0 (Name "e") "mid") "first"), TBool, []) /\
  (let d := Dict [Const (CStr "a"); Const (CStr "a")] [Const (CInt 1); Const (CFloat "2.0")] in
   follow W4 [] (Attr d "a") = Ok (Attr d "a", TFloat, []) /\
   follow W4 [] (Subscript d (Const (CStr "a"))) = Ok (Subscript d (Const (CStr "a")), TFloat, [])).
Proof. repeat split; vm_compute; reflexivity. Qed.

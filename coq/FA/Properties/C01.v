(* C01 - A fluent query means what the user's Python chain computes.
   Only statements here; proofs live in Proofs/PipelineFacts.v and Proofs/PipelineSem.v.

   [query W item ch term] (Model/Pipeline.v) is the AST that value() hands to the executor for the chain [ch] of
   Select / Where / SelectMany calls on a dataset of [item]s (class table, registered functions and callbacks [W]),
   followed by the optional result-format terminal: each lambda acquired (callable: Capture.parse_callable on its
   recovered source and the closure snapshot; string / ast: as it is), lowered by Sugar.sugar, followed by
   TypeFollow.stream_op, wrapped as Op(parent with the callback MetaData, lambda) - node names and argument orders read
   from the tables regenerated from object_stream.py -, cleaned by MetaData.remove_empty.
   [backend_passes fuel q] is ext, then agg, then simplify (the order the back ends use).
   [direct B ops ch data] is what Python computes when it runs the chain on the in-memory sequence [data]: map /
   filter / concat-map, each lambda evaluated under its own captured values.  [eval B ops [] q] is the reference
   LINQ / list semantics (Base/Eval.v) for a backend [B]; "for every dataset" is the quantification over [B] and [data]
   with [dataset B data] (= EventDataset() denotes [data]).

   WHAT IS PROVED OUTRIGHT
     passes_preserve_meaning_ext_agg  the method-form pass followed by the aggregate pass preserves the value of every
                                      query (from C17 and C19; [ops_kw_free]: operator method calls carry no keywords).
     remove_empty_preserves_meaning   value()'s cleaning preserves the value of every query (new here).
     one_operator_call_sound          a single modelled operator call maps "parent evaluates to l" to "the new stream
                                      evaluates to what the direct combinator computes", given the two refinements.
     operator_chain_means_direct      chains of ANY length and operator order whose lambdas are given as strings / ast
                                      objects in the grammar of C10 (possibly with comprehensions and data-class sugar:
                                      the grammar is required of the lowered body), on an untyped dataset, through an
                                      optional terminal and value(): the query evaluates to [direct].  No hypothesis
                                      about any component is left: C06 ([sugar_sem_all]) and C10
                                      ([untyped_passthrough_general]) discharge them.
     captured_literals_chain_means_direct   the same with Python callables among the lambdas, when their captured
                                      variables are plain literals (closure hiding globals) and their bodies are in the
                                      first-order fragment of C04 ([fragc]): capture_sound is discharged there from
                                      CaptureSem.sem_engine / rw_ok_all, both halves of parse_callable.
     passes_preserve_meaning_no_first   ext, agg AND simplify preserve the value of every query, with no hypothesis about
                                      the simplifier: C02's whole-algorithm theorem (simplifier_preserves_query_results)
                                      is composed in.  Its side conditions are required of the query that reaches the
                                      simplifier, q1 = agg (ext q): [admissible B q1] = well formed (wfq), free of the
                                      reserved names arg_N (below 0), lambda parameters unknown to the backend as
                                      function names (bok B), no First (the First push-through is sound for lazy LINQ,
                                      not for the eager list semantics of [eval]); and [backend_ok B].
                                      [admissible_is_decided]: a boolean on q1 plus nofun for its finitely many parameters.
                                      NOT proved: that q1 is admissible whenever the lambda bodies are (that needs wfq /
                                      reserved-name preservation lemmas for sugar, follow, ext and agg); it is a
                                      hypothesis on q1, decided by computation in the Examples.
     fluent_query_end_to_end_no_first / fluent_callables_end_to_end_no_first
                                      operator_chain_means_direct / captured_literals_chain_means_direct carried
                                      through all three backend passes: NO component hypothesis left for such chains.
     fluent_query_end_to_end_plain    the same with NO side condition on the built query: [simplifiable_chain W bs ch] is a
                                      boolean on the chain itself (plain_chain, and stage by stage for the lowered lambda
                                      l1 = lambda p: sugar(body): remove_empty leaves l1 alone, its operator method calls
                                      carry no keywords, and agg (ext l1) - computed by the models on that one lambda - is
                                      wfq, uses no name arg_N, binds only names of [bs], does not mention First);
                                      [Forall (nofun B) bs] is the only fact about the backend and the names.  Proved by
                                      showing that such a chain builds a spine Op_n(..Op_1(EventDataset(), l_1).., l_n)
                                      (acquire / follow are the identity there, no MetaData wrapper), that remove_empty,
                                      ext and agg are homomorphic on a spine and on the terminal node, and that wfq,
                                      reserved names, binders, First and ops_kw_free of a spine are the conjunction over
                                      its lambdas ([chain_query_is_admissible]).  Restriction made: the per-lambda
                                      conditions are evaluated AFTER ext and agg of that lambda (a purely syntactic
                                      sufficient condition on the written body is not derived); bs must contain the
                                      parameters acc, v of the aggregate folds when a body uses len/Count/Sum/Max/Min.
   WHAT IS PROVED RELATIVE TO NAMED HYPOTHESES ABOUT COMPONENT MODELS (each is a statement about a model, not the code)
     query_means_chain                for every chain (callables, typed datasets): relative to
        capture_sound B ops    :  Capture.parse_callable refines the meaning of a lambda under its captured values
                                  (C04 capture_freezes_partial / C05 inline_sem_partial prove it on fragments only;
                                  helpers are meant by call: [direct] sends a call of a captured function to the backend);
        follow_sound B ops W   :  TypeFollow.stream_op refines the meaning of the body it rewrites (default filling,
                                  callback rewrites: true only for backends that read calls as the class table declares
                                  them) and attaches literal dictionaries (C07 / C09 are partial);
     passes_preserve_meaning          ext, agg, simplify: relative to
        simp_ok B ops fuel     :  Simplify.simplify preserves values (C02 proves every rewrite rule and alpha-renaming,
                                  not the composition by the fuel-indexed traversal).
     fluent_query_end_to_end          operator_chain_means_direct followed by the three passes, relative to simp_ok only.
     query_passes_no_first            query_means_chain through the three passes: capture_sound and follow_sound remain,
                                      simp_ok is gone.
   Backend conventions used: [md_identity] (MetaData(x, d), when it denotes anything, denotes x; it does for a stream),
   [terminals_ok] (a result terminal denotes the stream it is given).  Both are compatible with C02's [backend_ok]
   (Example B3_meets_all_backend_hypotheses).
   NOT FORMALISED HERE: "source text + closure snapshot = the Python callable" (C03 / C04's correspondence); floats. *)
From FA.Base Require Import PyAst Value Eval Traverse.
From FA.Gen Require Import Tables TablesStream TablesTypes.
From FA.Model Require Import TypeDefs Pipeline.
From FA.Model Require Capture Sugar TypeFollow MetaData ExtCalls Aggregate.
From FA.Proofs Require Import Refine RenameSem SimplifyTotal SimplifyInv SimplifyRules SimplifySound CaptureSem TypeFollowUntyped
  PipelineFacts PipelineSem PipelineCapture PipelineSimp PipelineAdm.

(* ---------------- the backend passes ---------------- *)

Theorem passes_preserve_meaning_ext_agg :
  forall (B : backend) q q',
    ExtCalls.ops_kw_free ext_default_ops q = true ->
    Aggregate.agg (ExtCalls.ext q) = Some q' ->
    forall E v, eval B ext_default_ops E q = Some v -> eval B ext_default_ops E q' = Some v.
Proof. exact ext_agg_sem. Qed.
Print Assumptions passes_preserve_meaning_ext_agg.

Theorem passes_preserve_meaning :
  forall (B : backend) fuel q q',
    simp_ok B ext_default_ops fuel ->
    ExtCalls.ops_kw_free ext_default_ops q = true ->
    backend_passes fuel q = Some q' ->
    forall E v, eval B ext_default_ops E q = Some v -> eval B ext_default_ops E q' = Some v.
Proof. exact passes_sem. Qed.
Print Assumptions passes_preserve_meaning.

(* ---------------- value() ---------------- *)

Theorem remove_empty_preserves_meaning :
  forall (B : backend) (ops : list string), md_identity B ->
    forall e e', MetaData.remove_empty e = Some e' ->
    forall E v, eval B ops E e = Some v -> eval B ops E e' = Some v.
Proof. exact remove_sem. Qed.
Print Assumptions remove_empty_preserves_meaning.

(* ---------------- one operator call ---------------- *)

Theorem one_operator_call_sound :
  forall (B : backend) (ops : list string) (W : world),
    is_op ops "Select" = true -> is_op ops "Where" = true -> md_identity B ->
    forall k q item s q' t' l l',
      step W k (q, item) s = POk (q', t') ->
      eval B ops [] q = Some (VList l) ->
      run_stage B ops s l = Some l' ->
      acquire_sound B ops s ->
      (forall p b b0 b1, st_src s = Lambda [p] b ->
         acquire_lambda (st_acq s) (Lambda [p] b) = Capture.Ok (Lambda [p] b0) -> Sugar.sugar b0 = Sugar.Ok b1 ->
         follow_sound_at B ops W item (st_op s) p b1) ->
      eval B ops [] q' = Some (VList l').
Proof. exact step_sound. Qed.
Print Assumptions one_operator_call_sound.

(* ---------------- chains ---------------- *)

Theorem operator_chain_means_direct :
  forall (B : backend) (ops : list string) (W : world),
    is_op ops "Select" = true -> is_op ops "Where" = true ->
    md_identity B -> terminals_ok B -> ft_plain (w_ft W) ->
    forall ch term q data r,
      dataset B data ->
      plain_chain W TAny ch = true ->
      query W TAny ch term = POk q ->
      direct B ops ch data = Some r ->
      eval B ops [] q = Some (VList r).
Proof. exact operator_chain_means_direct_x. Qed.
Print Assumptions operator_chain_means_direct.

Theorem captured_literals_chain_means_direct :
  forall (B : backend) (ops : list string) (W : world),
    is_op ops "Select" = true -> is_op ops "Where" = true ->
    md_identity B -> terminals_ok B -> ft_plain (w_ft W) ->
    forall ch term q data r,
      dataset B data ->
      lit_chain W TAny ch ->
      query W TAny ch term = POk q ->
      direct B ops ch data = Some r ->
      eval B ops [] q = Some (VList r).
Proof. exact captured_literals_chain_means_direct_x. Qed.
Print Assumptions captured_literals_chain_means_direct.

(* the instance of capture_sound that is proved *)
Theorem capture_sound_on_literals :
  forall (B : backend) (ops : list string) ce p b b0,
    lit_env ce -> fragc b ->
    Capture.parse_callable ce (Lambda [p] b) = Capture.Ok (Lambda [p] b0) ->
    forall v, refines (eval B ops ((p, v) :: captured (AcqCallable ce)) b) (eval B ops [(p, v)] b0).
Proof. exact capture_sound_lit. Qed.
Print Assumptions capture_sound_on_literals.

Theorem query_means_chain :
  forall (B : backend) (ops : list string) (W : world),
    is_op ops "Select" = true -> is_op ops "Where" = true ->
    md_identity B -> terminals_ok B ->
    capture_sound B ops -> follow_sound B ops W ->
    forall item ch term q data r,
      dataset B data ->
      query W item ch term = POk q ->
      direct B ops ch data = Some r ->
      eval B ops [] q = Some (VList r).
Proof. exact query_means_chain_x. Qed.
Print Assumptions query_means_chain.

Theorem fluent_query_end_to_end :
  forall (B : backend) (W : world) (fuel : nat),
    md_identity B -> terminals_ok B -> ft_plain (w_ft W) -> simp_ok B ext_default_ops fuel ->
    forall ch term q q' data r,
      dataset B data ->
      plain_chain W TAny ch = true ->
      query W TAny ch term = POk q ->
      ExtCalls.ops_kw_free ext_default_ops q = true ->
      backend_passes fuel q = Some q' ->
      direct B ext_default_ops ch data = Some r ->
      eval B ext_default_ops [] q' = Some (VList r).
Proof. exact end_to_end_x. Qed.
Print Assumptions fluent_query_end_to_end.

(* ---------------- all three passes, C02's theorem composed in (no hypothesis about the simplifier) ---------------- *)

Theorem passes_preserve_meaning_no_first :
  forall (B : backend) fuel q q1 q',
    backend_ok B ->
    ExtCalls.ops_kw_free ext_default_ops q = true ->
    Aggregate.agg (ExtCalls.ext q) = Some q1 -> admissible B q1 ->
    backend_passes fuel q = Some q' ->
    forall E v, eval B ext_default_ops E q = Some v -> eval B ext_default_ops E q' = Some v.
Proof. exact passes_sem_no_first. Qed.
Print Assumptions passes_preserve_meaning_no_first.

(* [admissible] is decided by a boolean on the query plus "the backend knows none of its lambda parameters as a
   function name" for the finitely many parameters *)
Theorem admissible_is_decided :
  forall (B : backend) q1,
    admissible_b q1 = true -> Forall (nofun B) (idents false q1) -> admissible B q1.
Proof. exact admissible_decided. Qed.
Print Assumptions admissible_is_decided.

Theorem fluent_query_end_to_end_no_first :
  forall (B : backend) (W : world) (fuel : nat),
    backend_ok B -> md_identity B -> terminals_ok B -> ft_plain (w_ft W) ->
    forall ch term q q1 q' data r,
      dataset B data ->
      plain_chain W TAny ch = true ->
      query W TAny ch term = POk q ->
      ExtCalls.ops_kw_free ext_default_ops q = true ->
      Aggregate.agg (ExtCalls.ext q) = Some q1 -> admissible B q1 ->
      backend_passes fuel q = Some q' ->
      direct B ext_default_ops ch data = Some r ->
      eval B ext_default_ops [] q' = Some (VList r).
Proof. exact end_to_end_no_first_x. Qed.
Print Assumptions fluent_query_end_to_end_no_first.

(* the side conditions follow from a boolean condition on the chain *)
Theorem chain_query_is_admissible :
  forall (W : world) (bs : list string) ch term q,
    ft_plain (w_ft W) -> simplifiable_chain W bs ch = true -> query W TAny ch term = POk q ->
    ExtCalls.ops_kw_free ext_default_ops q = true /\
    exists q1, Aggregate.agg (ExtCalls.ext q) = Some q1 /\
      wfq q1 = true /\ P_fresh q1 = true /\ P_binders bs q1 = true /\ P_nofirst q1 = true.
Proof. exact simplifiable_facts. Qed.
Print Assumptions chain_query_is_admissible.

Theorem fluent_query_end_to_end_plain :
  forall (B : backend) (W : world) (fuel : nat) (bs : list string),
    backend_ok B -> md_identity B -> terminals_ok B -> ft_plain (w_ft W) -> Forall (nofun B) bs ->
    forall ch term q q' data r,
      dataset B data ->
      simplifiable_chain W bs ch = true ->
      query W TAny ch term = POk q ->
      backend_passes fuel q = Some q' ->
      direct B ext_default_ops ch data = Some r ->
      eval B ext_default_ops [] q' = Some (VList r).
Proof. exact end_to_end_plain_x. Qed.
Print Assumptions fluent_query_end_to_end_plain.

Theorem fluent_callables_end_to_end_no_first :
  forall (B : backend) (W : world) (fuel : nat),
    backend_ok B -> md_identity B -> terminals_ok B -> ft_plain (w_ft W) ->
    forall ch term q q1 q' data r,
      dataset B data ->
      lit_chain W TAny ch ->
      query W TAny ch term = POk q ->
      ExtCalls.ops_kw_free ext_default_ops q = true ->
      Aggregate.agg (ExtCalls.ext q) = Some q1 -> admissible B q1 ->
      backend_passes fuel q = Some q' ->
      direct B ext_default_ops ch data = Some r ->
      eval B ext_default_ops [] q' = Some (VList r).
Proof. exact end_to_end_literals_no_first_x. Qed.
Print Assumptions fluent_callables_end_to_end_no_first.

Theorem query_passes_no_first :
  forall (B : backend) (W : world) (fuel : nat),
    backend_ok B -> md_identity B -> terminals_ok B ->
    capture_sound B ext_default_ops -> follow_sound B ext_default_ops W ->
    forall item ch term q q1 q' data r,
      dataset B data ->
      query W item ch term = POk q ->
      ExtCalls.ops_kw_free ext_default_ops q = true ->
      Aggregate.agg (ExtCalls.ext q) = Some q1 -> admissible B q1 ->
      backend_passes fuel q = Some q' ->
      direct B ext_default_ops ch data = Some r ->
      eval B ext_default_ops [] q' = Some (VList r).
Proof. exact query_passes_no_first_x. Qed.
Print Assumptions query_passes_no_first.

(* ---------------- what the tables of object_stream.py make the model emit (pins) ---------------- *)

Example operators_emit :
  forall src lam,
    op_node OpSelect src lam = Some (Call (Name "Select") [src; lam] [] []) /\
    op_node OpWhere src lam = Some (Call (Name "Where") [src; lam] [] []) /\
    op_node OpSelectMany src lam = Some (Call (Name "SelectMany") [src; lam] [] []) /\
    md_node src lam = Some (Call (Name "MetaData") [src; lam] [] []).
Proof. intros; repeat split; reflexivity. Qed.

Example terminals_emit :
  forall src,
    let cols := TVStrs ["a"; "b"] in
    let c := List [Const (CStr "a"); Const (CStr "b")] in
    terminal_node {| t_method := "AsROOTTTree"; t_args := [("filename", TVStr "f.root"); ("treename", TVStr "t"); ("columns", cols)] |} src
      = Some (Call (Name "ResultTTree") [src; c; Const (CStr "t"); Const (CStr "f.root")] [] []) /\
    terminal_node {| t_method := "AsParquetFiles"; t_args := [("filename", TVStr "o.pq"); ("columns", TVStr "x")] |} src
      = Some (Call (Name "ResultParquet") [src; List [Const (CStr "x")]; Const (CStr "o.pq")] [] []) /\
    terminal_node {| t_method := "AsPandasDF"; t_args := [("columns", cols)] |} src
      = Some (Call (Name "ResultPandasDF") [src; c] [] []) /\
    terminal_node {| t_method := "AsAwkwardArray"; t_args := [("columns", TVStrs [])] |} src
      = Some (Call (Name "ResultAwkwardArray") [src; List []] [] []) /\
    terminal_nodes = ["ResultPandasDF"; "ResultTTree"; "ResultParquet"; "ResultAwkwardArray"].
Proof. intros; repeat split; reflexivity. Qed.

(* the operators the lowered comprehensions and the chains need are operators of the method-form semantics *)
Example ops_known : is_op ext_default_ops "Select" = true /\ is_op ext_default_ops "Where" = true.
Proof. split; reflexivity. Qed.

(* ---------------- non-vacuity 1: an untyped chain of three ast lambdas, with a comprehension ---------------- *)

Definition rec_ (ks : list string) (vs : list value) : value := VDict (map VStr ks) vs.
Definition jet_ (pt : Z) (trk : list Z) : value := rec_ ["pt"; "trk"] [VInt pt; VList (map VInt trk)].
Definition evt_ (met : Z) (jets : list value) : value := rec_ ["met"; "jets"] [VInt met; VList jets].
Definition data1 : list value :=
  [evt_ 3 [jet_ 5 [1; -2]%Z; jet_ 1 []]; evt_ 0 []; evt_ 7 [jet_ 9 [4; 0; 6]%Z]].

Definition B1 : backend :=
  {| attr_sem := fun _ _ => None;
     meth_sem := fun _ _ _ _ => None;
     fun_sem := fun name args _ =>
       if String.eqb name "EventDataset" then match args with [] => Some (VList data1) | _ => None end
       else match args with v :: _ => Some v | [] => None end |}.

Definition W0 : world := lib_world [] [].
Definition e_ := Name "e".
Definition j_ := Name "j".
Definition t_ := Name "t".
Definition asis op lam := {| st_op := op; st_acq := AcqAsIs; st_src := lam |}.

(* ds.SelectMany("lambda e: e.jets").Where("lambda j: j.pt > 2")
     .Select("lambda j: (j.pt, [t * 2 for t in j.trk if t > 0])").AsAwkwardArray("col") *)
Definition ch3 : chain :=
  [asis OpSelectMany (Lambda ["e"] (Attr e_ "jets"));
   asis OpWhere (Lambda ["j"] (Compare (Attr j_ "pt") [CGt] [Const (CInt 2)]));
   asis OpSelect (Lambda ["j"] (Tuple [Attr j_ "pt";
       ListComp (BinOp BMult t_ (Const (CInt 2))) [CompFor t_ (Attr j_ "trk") [Compare t_ [CGt] [Const (CInt 0)]] false]]))].
Definition term3 := Some {| t_method := "AsAwkwardArray"; t_args := [("columns", TVStr "col")] |}.

Definition q3 : expr :=
  Call (Name "ResultAwkwardArray")
    [Call (Name "Select")
       [Call (Name "Where")
          [Call (Name "SelectMany") [Call (Name "EventDataset") [] [] []; Lambda ["e"] (Attr e_ "jets")] [] [];
           Lambda ["j"] (Compare (Attr j_ "pt") [CGt] [Const (CInt 2)])] [] [];
        Lambda ["j"]
          (Tuple [Attr j_ "pt";
                  Call (Attr (Call (Attr (Attr j_ "trk") "Where") [Lambda ["t"] (Compare t_ [CGt] [Const (CInt 0)])] [] []) "Select")
                       [Lambda ["t"] (BinOp BMult t_ (Const (CInt 2)))] [] []])] [] [];
     List [Const (CStr "col")]] [] [].

Definition r3 : list value := [VTuple [VInt 5; VList [VInt 2]]; VTuple [VInt 9; VList [VInt 8; VInt 12]]].

Example B1_meets_backend_hypotheses : md_identity B1 /\ terminals_ok B1 /\ dataset B1 data1 /\ ft_plain (w_ft W0).
Proof.
  split; [split; [intros v d kws r H; inversion H; reflexivity | intros; reflexivity]|].
  split; [|split; [reflexivity | exact ft_default_plain]].
  intros node l args H. unfold terminal_nodes in H. cbn in H.
  repeat (destruct H as [<- | H]; [reflexivity|]). destruct H.
Qed.

Example chain3_hypotheses_met :
  plain_chain W0 TAny ch3 = true /\ query W0 TAny ch3 term3 = POk q3 /\ direct B1 ext_default_ops ch3 data1 = Some r3.
Proof. repeat split; vm_compute; reflexivity. Qed.

Example chain3_runs : eval B1 ext_default_ops [] q3 = Some (VList r3).
Proof. vm_compute. reflexivity. Qed.

(* ... and after the three backend passes (ext, agg, simplify: Select / Where / SelectMany fused into one SelectMany) *)
Example chain3_after_passes :
  ExtCalls.ops_kw_free ext_default_ops q3 = true /\
  exists q', backend_passes 400 q3 = Some q' /\ q' <> q3 /\ eval B1 ext_default_ops [] q' = Some (VList r3).
Proof.
  split; [vm_compute; reflexivity|]. eexists. split; [vm_compute; reflexivity|].
  split; [discriminate | vm_compute; reflexivity].
Qed.

(* the same chain with every hypothesis of fluent_query_end_to_end_no_first discharged: a backend that meets C02's
   backend_ok (no meaning for the reserved names arg_N as functions, nor for methods / functions on dictionary
   records) together with md_identity, terminals_ok and the dataset; the query that reaches the simplifier is
   admissible; the three passes really rewrite it *)
Definition B3 : backend :=
  {| attr_sem := fun _ _ => None;
     meth_sem := fun _ _ _ _ => None;
     fun_sem := fun name args _ =>
       if String.eqb name "EventDataset" then match args with [] => Some (VList data1) | _ => None end
       else if existsb (String.eqb name) ("MetaData" :: terminal_nodes)
            then match args with VList l :: _ => Some (VList l) | _ => None end
            else None |}.

Example B3_meets_all_backend_hypotheses :
  backend_ok B3 /\ md_identity B3 /\ terminals_ok B3 /\ dataset B3 data1.
Proof.
  split.
  { split; [|split].
    - intros n. destruct (RulesExamples.arg_name_head n) as [s Hs]. rewrite Hs. split; [reflexivity | intros; reflexivity].
    - intros; reflexivity.
    - intros op ks vs rest kws. cbn [B3 fun_sem].
      repeat match goal with |- context [if ?c then _ else _] => destruct c end; reflexivity. }
  split; [split; [intros v d kws r H; cbn in H; destruct v; inversion H; reflexivity | intros; reflexivity]|].
  split; [|reflexivity].
  intros node l args H. unfold terminal_nodes in H. cbn in H.
  repeat (destruct H as [<- | H]; [reflexivity|]). destruct H.
Qed.

Example chain3_through_all_passes :
  exists q1 q',
    Aggregate.agg (ExtCalls.ext q3) = Some q1 /\ admissible B3 q1 /\
    backend_passes 400 q3 = Some q' /\ q' <> q3 /\
    direct B3 ext_default_ops ch3 data1 = Some r3 /\
    eval B3 ext_default_ops [] q' = Some (VList r3).
Proof.
  eexists. eexists. split; [vm_compute; reflexivity|]. split.
  { split; [vm_compute; reflexivity|]. split; [|split; [|vm_compute; reflexivity]].
    - intros n _. destruct (RulesExamples.arg_name_head n) as [s Hs]. rewrite Hs. reflexivity.
    - intros y Hy. cbn in Hy. rewrite ?orb_false_r in Hy.
      repeat (apply orb_true_iff in Hy; destruct Hy as [Hy|Hy]); apply String.eqb_eq in Hy; subst y;
        (split; [reflexivity | intros; reflexivity]). }
  split; [vm_compute; reflexivity|]. split; [discriminate|]. split; vm_compute; reflexivity.
Qed.

Example chain3_admissible_by_computation :
  forall q1, Aggregate.agg (ExtCalls.ext q3) = Some q1 ->
    admissible_b q1 = true /\ idents false q1 = ["e"; "j"; "j"; "t"; "t"] /\ admissible B3 q1.
Proof.
  intros q1 H. vm_compute in H. inversion H; subst q1; clear H.
  split; [vm_compute; reflexivity|]. split; [vm_compute; reflexivity|].
  apply admissible_decided; [vm_compute; reflexivity|].
  repeat (constructor; [split; [reflexivity | intros; reflexivity]|]). constructor.
Qed.

(* every hypothesis of fluent_query_end_to_end_plain met by chain3: the condition on the chain by computation, the
   three parameter names unknown to B3 as functions; a chain that counts needs the fold parameters acc, v in bs *)
Example chain3_is_simplifiable :
  simplifiable_chain W0 ["e"; "j"; "t"] ch3 = true /\ Forall (nofun B3) ["e"; "j"; "t"] /\
  simplifiable_chain W0 ["e"] [asis OpSelect (Lambda ["e"] (Call (Name "len") [Attr e_ "jets"] [] []))] = false /\
  simplifiable_chain W0 ["e"; "acc"; "v"] [asis OpSelect (Lambda ["e"] (Call (Name "len") [Attr e_ "jets"] [] []))] = true /\
  simplifiable_chain W0 ["e"; "j"] [asis OpSelect (Lambda ["e"] (Call (Attr (Attr e_ "jets") "First") [] [] []))] = false.
Proof.
  split; [vm_compute; reflexivity|]. split; [|repeat split; vm_compute; reflexivity].
  repeat (constructor; [split; [reflexivity | intros; reflexivity]|]). constructor.
Qed.

(* the direct semantics is not the built query in disguise: an operator order that matters *)
Example order_matters :
  let sel := asis OpSelect (Lambda ["j"] (BinOp BSub j_ (Const (CInt 4)))) in
  let flt := asis OpWhere (Lambda ["j"] (Compare j_ [CGt] [Const (CInt 0)])) in
  let jets := [VInt 5; VInt 1] in
  direct B1 ext_default_ops [sel; flt] jets = Some [VInt 1] /\
  direct B1 ext_default_ops [flt; sel] jets = Some [VInt 1; VInt (-3)].
Proof. split; vm_compute; reflexivity. Qed.

(* ---------------- non-vacuity 1b: callables with captured literals (closure g = 3 hides the global g = 100) -------- *)

Definition ce4 : Capture.cenv :=
  {| Capture.ce_nonlocals := [("g", Capture.CVal (CInt 3))];
     Capture.ce_globals := [("g", Capture.CVal (CInt 100)); ("flag", Capture.CVal (CBool true))];
     Capture.ce_attrs := [] |}.
Definition l_ := Name "l".
(* ds.Select(lambda e: e.jets.Select(lambda j: j.pt + g)).Where("lambda l: l.Count() > 1").Select(lambda l: (l.First(), g, flag)) *)
Definition ch4 : chain :=
  [{| st_op := OpSelect; st_acq := AcqCallable ce4;
      st_src := Lambda ["e"] (Call (Attr (Attr e_ "jets") "Select") [Lambda ["j"] (BinOp BAdd (Attr j_ "pt") (Name "g"))] [] []) |};
   asis OpWhere (Lambda ["l"] (Compare (Call (Attr l_ "Count") [] [] []) [CGt] [Const (CInt 1)]));
   {| st_op := OpSelect; st_acq := AcqCallable ce4;
      st_src := Lambda ["l"] (Tuple [Call (Attr l_ "First") [] [] []; Name "g"; Name "flag"]) |}].

Example chain4_hypotheses_met : lit_chain W0 TAny ch4.
Proof.
  eapply LC_cons; [reflexivity | split; [repeat constructor; simpl; discriminate | repeat constructor] |].
  intros b0 b1 H1 H2. vm_compute in H1. inversion H1; subst b0; clear H1. vm_compute in H2. inversion H2; subst b1; clear H2.
  split; [vm_compute; reflexivity|]. intros lam t evs H3. vm_compute in H3. inversion H3; subst; clear H3.
  eapply LC_cons; [reflexivity | exact I |].
  intros b0 b1 H1 H2. vm_compute in H1. inversion H1; subst b0; clear H1. vm_compute in H2. inversion H2; subst b1; clear H2.
  split; [vm_compute; reflexivity|]. intros lam t evs H3. vm_compute in H3. inversion H3; subst; clear H3.
  eapply LC_cons; [reflexivity | split; [repeat constructor; simpl; discriminate | repeat constructor] |].
  intros b0 b1 H1 H2. vm_compute in H1. inversion H1; subst b0; clear H1. vm_compute in H2. inversion H2; subst b1; clear H2.
  split; [vm_compute; reflexivity|]. intros lam t evs H3. vm_compute in H3. inversion H3; subst; clear H3.
  constructor.
Qed.

Example chain4_runs :
  exists q4, query W0 TAny ch4 None = POk q4 /\
    q4 = Call (Name "Select")
           [Call (Name "Where")
              [Call (Name "Select")
                 [Call (Name "EventDataset") [] [] [];
                  Lambda ["e"] (Call (Attr (Attr e_ "jets") "Select") [Lambda ["j"] (BinOp BAdd (Attr j_ "pt") (Const (CInt 3)))] [] [])] [] [];
               Lambda ["l"] (Compare (Call (Attr l_ "Count") [] [] []) [CGt] [Const (CInt 1)])] [] [];
            Lambda ["l"] (Tuple [Call (Attr l_ "First") [] [] []; Const (CInt 3); Const (CBool true)])] [] [] /\
    direct B1 ext_default_ops ch4 data1 = Some [VTuple [VInt 8; VInt 3; VBool true]] /\
    eval B1 ext_default_ops [] q4 = Some (VList [VTuple [VInt 8; VInt 3; VBool true]]).
Proof. eexists. split; [vm_compute; reflexivity|]. repeat split; vm_compute; reflexivity. Qed.

(* ---------------- non-vacuity 2: a typed dataset, callables with captured values and a helper ---------------- *)

Definition p_ n d := {| p_name := n; p_default := d |}.
Definition m_pt := {| m_name := "pt"; m_params := [p_ "self" None; p_ "scale" (Some (CInt 1)); p_ "k" (Some (CInt 0))];
                      m_ret := Some TInt; m_cb := None; m_op := OpStub |}.
Definition m_jets := {| m_name := "Jets"; m_params := [p_ "self" None; p_ "cut" (Some (CInt 0))];
                        m_ret := Some (TIter (TCls "Jet" [])); m_cb := None; m_op := OpStub |}.
Definition c_jet := {| c_name := "Jet"; c_params := []; c_base := None; c_parent := None; c_methods := [m_pt];
                       c_props := []; c_cb := Some "jetcls"; c_fields := None; c_collection := false |}.
Definition c_event := {| c_name := "Event"; c_params := []; c_base := None; c_parent := None; c_methods := [m_jets];
                         c_props := []; c_cb := None; c_fields := None; c_collection := false |}.
Definition md_j := Dict [Const (CStr "j")] [Const (CInt 1)].
Definition W2 : world :=
  {| w_ct := [c_jet; c_event]; w_ft := ft_default;
     w_cb := [("jetcls", {| cb_md := Some md_j; cb_rw := RwId; cb_ty := TAny |})] |}.

(* a backend that reads calls as the class table declares them: a jet is an integer a, pt(scale=1, k=0) = a*scale + k,
   an event is the list of its jets, Jets(cut=0) keeps the jets above the cut; the helper h doubles *)
Definition data2 : list value := [VList [VInt 5; VInt (-1)]; VList []; VList [VInt 2]].
Definition arg2 (args : list value) (kws : list (string * value)) (i : nat) (name : string) (d : Z) : option Z :=
  match nth_error args i with
  | Some (VInt z) => Some z
  | Some _ => None
  | None => match lookup name kws with Some (VInt z) => Some z | Some _ => None | None => Some d end
  end.
Definition B2 : backend :=
  {| attr_sem := fun _ _ => None;
     meth_sem := fun r m args kws =>
       if String.eqb m "Jets" then
         match r, arg2 args kws 0 "cut" 0 with
         | VList js, Some c => Some (VList (filter (fun j => match j with VInt a => (c <? a)%Z | _ => false end) js))
         | _, _ => None
         end
       else if String.eqb m "pt" then
         match r, arg2 args kws 0 "scale" 1, arg2 args kws 1 "k" 0 with
         | VInt a, Some s, Some k => Some (VInt (a * s + k))
         | _, _, _ => None
         end
       else None;
     fun_sem := fun name args _ =>
       if String.eqb name "EventDataset" then match args with [] => Some (VList data2) | _ => None end
       else if String.eqb name "h" then match args with [VInt x] => Some (VInt (x * 2)) | _ => None end
       else match args with v :: _ => Some v | [] => None end |}.

Definition mcall v m args kwn kwv := Call (Attr v m) args kwn kwv.
(* closure g = 3 hides the module global g = 100; h is a one-line helper `def h(x): return x * 2` *)
Definition ce2 : Capture.cenv :=
  {| Capture.ce_nonlocals := [("g", Capture.CVal (CInt 3))];
     Capture.ce_globals := [("g", Capture.CVal (CInt 100));
                            ("h", Capture.CFun (Some (Lambda ["x"] (BinOp BMult (Name "x") (Const (CInt 2))))))];
     Capture.ce_attrs := [] |}.

(* ds.SelectMany(lambda e: e.Jets()).Where("lambda j: j.pt(k=1) > 0").Select(lambda j: j.pt(k=g) + h(j.pt())) *)
Definition ch2 : chain :=
  [{| st_op := OpSelectMany; st_acq := AcqCallable ce2; st_src := Lambda ["e"] (mcall e_ "Jets" [] [] []) |};
   {| st_op := OpWhere; st_acq := AcqAsIs;
      st_src := Lambda ["j"] (Compare (mcall j_ "pt" [] [Some "k"] [Const (CInt 1)]) [CGt] [Const (CInt 0)]) |};
   {| st_op := OpSelect; st_acq := AcqCallable ce2;
      st_src := Lambda ["j"] (BinOp BAdd (mcall j_ "pt" [] [Some "k"] [Name "g"])
                                         (Call (Name "h") [mcall j_ "pt" [] [] []] [] [])) |}].

Definition pt_ (s k : Z) := mcall j_ "pt" [Const (CInt s); Const (CInt k)] [] [].
Definition md_ src := Call (Name "MetaData") [src; md_j] [] [].
Definition q2 : expr :=
  Call (Name "Select")
    [md_ (md_ (Call (Name "Where")
                 [md_ (Call (Name "SelectMany")
                         [Call (Name "EventDataset") [] [] []; Lambda ["e"] (mcall e_ "Jets" [Const (CInt 0)] [] [])] [] []);
                  Lambda ["j"] (Compare (pt_ 1 1) [CGt] [Const (CInt 0)])] [] []));
     Lambda ["j"] (BinOp BAdd (pt_ 1 3) (BinOp BMult (pt_ 1 0) (Const (CInt 2))))] [] [].

Example typed_chain_builds :
  query W2 (TCls "Event" []) ch2 None = POk q2 /\ direct B2 ext_default_ops ch2 data2 = Some [VInt 18; VInt 9].
Proof. split; vm_compute; reflexivity. Qed.

Example typed_chain_runs :
  md_identity B2 /\ dataset B2 data2 /\
  eval B2 ext_default_ops [] q2 = Some (VList [VInt 18; VInt 9]) /\
  exists q', backend_passes 400 q2 = Some q' /\ eval B2 ext_default_ops [] q' = Some (VList [VInt 18; VInt 9]).
Proof.
  split; [split; [intros v d kws r H; inversion H; reflexivity | intros; reflexivity]|].
  split; [reflexivity|]. split; [vm_compute; reflexivity|].
  eexists. split; vm_compute; reflexivity.
Qed.

(* refusals and failures are explicit results, with the stage and the component *)
Example refusals_are_explicit :
  (* a captured None cannot be sent *)
  query W0 TAny [{| st_op := OpSelect;
                    st_acq := AcqCallable {| Capture.ce_nonlocals := [("c", Capture.CVal CNone)]; Capture.ce_globals := []; Capture.ce_attrs := [] |};
                    st_src := Lambda ["e"] (Name "c") |}] None = PFail Refused 0 "follow" /\
  (* Where needs a boolean *)
  query W0 TAny [asis OpSelect (Lambda ["e"] e_); asis OpWhere (Lambda ["e"] (Attr e_ "x"))] None = PFail Refused 1 "follow" /\
  (* a comprehension over a tuple target *)
  query W0 TAny [asis OpSelect (Lambda ["e"] (ListComp e_ [CompFor (Tuple [e_; j_]) (Attr e_ "x") [] false]))] None
    = PFail Refused 0 "sugar" /\
  (* not a lambda *)
  query W0 TAny [asis OpSelect (Name "f")] None = PFail Crashed 0 "capture".
Proof. repeat split; vm_compute; reflexivity. Qed.

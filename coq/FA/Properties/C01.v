(* C01 - placeholder *)
From FA.Base Require Import PyAst Value Eval.
From FA.Model Require Import TypeDefs Pipeline.
From FA.Proofs Require Import PipelineFacts PipelineSem.
Theorem op_node_select : forall src lam, op_node OpSelect src lam = Some (function_call "Select" [src; lam]).
Proof. exact op_node_select. Qed.
Print Assumptions op_node_select.

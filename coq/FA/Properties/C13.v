(* C13 - Python values embedded in a query keep their exact value.
   Only statements here; proofs live in Proofs/LiteralLex.v, Proofs/LiteralProofs.v, Proofs/LiteralCheck.v.

   [as_ast] is the model (Model/Literal.v) of util_ast.as_ast with fix F01 applied:
        value --repr/str--> source text --ast.parse--> node
   [repr_t]/[py_repr] is CPython's repr, [pval]/[parse_literal] a lexer + recursive-descent parser of the literal
   sub-grammar, [literal_eval] ast.literal_eval, [lit_expr v] the literal node of value [v].
   [finite v]: every float token in [v] is a finite float's repr token (digits [. digits] [e[+-]digits], optional
   leading minus; not inf/nan) and every int has at most 4300 decimal digits (CPython's int<->str limit; beyond
   it str() raises ValueError and the model returns None).  There is no condition on str or bytes payloads.
   [embeddable v] = [finite v] and at most 200 nested brackets (CPython's tokenizer limit; beyond it ast.parse
   raises SyntaxError and the model returns None).
   Stated assumption of the model (tested, not proved): bytes >= 128 of a str are copied into the text by repr. *)
From Coq Require Import Ascii String List ZArith Bool.
From FA.Base Require Import PyAst Value.
From FA.Gen Require Import TablesUtil TablesStream.
From FA.Model Require Import Literal.
From FA.Proofs Require Import LiteralLex LiteralCheck LiteralProofs.
Import ListNotations.
Open Scope string_scope.
Open Scope list_scope.

(* token level: whatever repr writes for a str / bytes payload - all 256 byte values, either quote style -
   the lexer reads back exactly, and stops exactly behind the closing quote *)
Theorem lex_string_roundtrip : forall m s rest,
  exists q t1, repr_strlit m s ++ rest = q :: t1 /\ is_quote q = true /\ lex_str m q t1 = Some (s, rest).
Proof. exact LiteralLex.lex_strlit. Qed.
Print Assumptions lex_string_roundtrip.

(* printer/parser round trip, in any context: the parser consumes exactly the text of the value *)
Theorem repr_parse_roundtrip : forall v, finite v = true ->
  forall n rest, need v <= n -> follow rest -> pval n (repr_t v ++ rest) = Some (lit_expr v, rest).
Proof. exact LiteralProofs.roundtrip_parse. Qed.
Print Assumptions repr_parse_roundtrip.

Theorem parse_repr : forall v, finite v = true -> parse_literal (py_repr v) = Some (lit_expr v).
Proof. exact LiteralProofs.parse_repr. Qed.
Print Assumptions parse_repr.

(* every value of the listed types is embedded (never refused), as exactly its literal node ... *)
Theorem as_ast_exact : forall v, embeddable v = true -> as_ast v = Some (lit_expr v).
Proof. exact LiteralProofs.as_ast_exact. Qed.
Print Assumptions as_ast_exact.

(* ... which evaluates back to an equal value of the same type (PBool <> PInt, PTuple <> PList, PStr <> PBytes
   are different constructors of [pyval]) *)
Theorem as_ast_roundtrip : forall v, embeddable v = true -> exists e, as_ast v = Some e /\ literal_eval e = Some v.
Proof. exact LiteralProofs.as_ast_roundtrip. Qed.
Print Assumptions as_ast_roundtrip.

(* outside CPython's limits (more than 4300 digits, more than 200 nested brackets) the value is refused
   ([None]: ValueError / SyntaxError); whenever a node is emitted for a finite value it is exactly its literal *)
Theorem as_ast_some : forall v e, as_ast v = Some e -> finite v = true -> e = lit_expr v.
Proof. exact LiteralProofs.as_ast_some. Qed.
Print Assumptions as_ast_some.

(* strings are neither altered nor parsed as code: one string constant with the same bytes, for every string *)
Theorem as_ast_no_code : forall s, as_ast (PStr s) = Some (Const (CStr s)).
Proof. exact LiteralProofs.as_ast_no_code. Qed.
Print Assumptions as_ast_no_code.

Theorem as_ast_bytes : forall s, as_ast (PBytes s) = Some (Const (CBytes s)).
Proof. exact LiteralProofs.as_ast_bytes. Qed.
Print Assumptions as_ast_bytes.

(* finding F01, inside Coq: the code of the pinned commit (wrap in single quotes, no escaping) refuses a string,
   silently alters another, and turns a third into code *)
Theorem as_ast_unfixed_refuted :
  (exists s, as_ast_unfixed (PStr s) = None) /\
  (exists s s', as_ast_unfixed (PStr s) = Some (Const (CStr s')) /\ s' <> s) /\
  (exists s e1 e2, as_ast_unfixed (PStr s) = Some (BinOp BAdd e1 e2)).
Proof. exact LiteralProofs.as_ast_unfixed_refuted. Qed.
Print Assumptions as_ast_unfixed_refuted.

(* as_literal (declared defaults, captured variables): the constant itself *)
Theorem as_literal_exact : forall v c, const_of_scalar v = Some c ->
  literal_eval (as_literal c) = Some v /\ consts (as_literal c) = [c].
Proof. exact LiteralProofs.as_literal_exact. Qed.
Print Assumptions as_literal_exact.

Theorem as_literal_any : forall c, as_literal c = Const c /\ (check_ast (as_literal c) = true <-> transportable c).
Proof. exact LiteralProofs.as_literal_any. Qed.
Print Assumptions as_literal_any.

(* the gate, over every tree of every node class: it passes iff every ast.Constant anywhere in the tree holds a
   transportable scalar (str int float bool complex bytes module); [false] = ValueError.
   Stated over the generated table Gen/TablesUtil.legal_const_kinds with isinstance semantics (bool <= int). *)
Theorem check_ast_gate : forall e, check_ast e = true <-> Forall transportable (consts e).
Proof. exact LiteralCheck.check_ast_gate. Qed.
Print Assumptions check_ast_gate.

(* entry points: each As* terminal of the generated table Gen/TablesStream.terminals emits the node of the wire
   format with the source first and each Python argument as its own literal, in the wire format's position *)
Theorem terminals_embed : forall meth node lits, In (meth, node, lits) wire_format ->
  forall q env vs,
    map (fun nm => lookup nm env) lits = map Some vs -> forallb embeddable vs = true ->
    as_terminal meth q env = Some (Call (Name node) (q :: map lit_expr vs) [] []).
Proof. exact LiteralProofs.terminals_embed. Qed.
Print Assumptions terminals_embed.

Theorem metadata_embed : forall q md, embeddable md = true ->
  metadata_call q md = Some (Call (Name "MetaData") [q; lit_expr md] [] []).
Proof. exact LiteralProofs.metadata_embed. Qed.
Print Assumptions metadata_embed.

(* ---------- the generated tables say what the hand-written models assume ---------- *)

Example terminals_pinned : terminals = wire_format.
Proof. reflexivity. Qed.

Example metadata_row_pinned :
  In ("MetaData", "MetaData", ["self._q_ast"; "as_ast(metadata)"]) operator_nodes.
Proof. vm_compute. auto 10. Qed.

Example legal_kinds_pinned :
  forall k, kind_legal k = true <-> In k [KStr; KInt; KFloat; KBool; KComplex; KBytes; KModule].
Proof. exact LiteralCheck.kind_legal_spec. Qed.

(* ---------- non-vacuity ---------- *)

Definition nasty : pyval :=
  PDict [ (PStr "it's", PList [PStr "a\nb"; PStr "x' + 'y"; PStr """"; PStr "'"""; PStr "\"]);
          (PInt (-12), PTuple [PBool true]);
          (PTuple [], PTuple [PNone; PFloat "-1.5e-07"; PFloat "1e+16"; PBytes "b'\x"]);
          (PBool false, PDict []) ].

Example nasty_finite : embeddable nasty = true.
Proof. vm_compute. reflexivity. Qed.

Example nasty_text :
  py_repr nasty =
  "{""it's"": ['a\\nb', ""x' + 'y"", '""', '\'""', '\\'], -12: (True,), (): (None, -1.5e-07, 1e+16, b""b'\\x""), False: {}}".
Proof. vm_compute. reflexivity. Qed.

Example nasty_embedded : as_ast nasty = Some (lit_expr nasty) /\ literal_eval (lit_expr nasty) = Some nasty.
Proof. split; vm_compute; reflexivity. Qed.

Example control_bytes :
  py_repr (PStr (String "010"%char (String "013"%char (String "000"%char (String "127"%char (String "009"%char "")))))) = "'\n\r\x00\x7f\t'"
  /\ as_ast (PStr (String "010"%char (String "000"%char ""))) = Some (Const (CStr (String "010"%char (String "000"%char "")))).
Proof. split; vm_compute; reflexivity. Qed.

Example type_exact :
  literal_eval (Const (CBool true)) <> literal_eval (Const (CInt 1)) /\
  literal_eval (Tuple [Const (CInt 1)]) <> literal_eval (List [Const (CInt 1)]) /\
  literal_eval (Name "inf") = None /\ literal_eval (BinOp BAdd (Const (CStr "x")) (Const (CStr "y"))) = None.
Proof. repeat split; vm_compute; congruence. Qed.

Example deep_refused :
  let deep := Nat.iter 201 (fun v => PList [v]) (PInt 1) in
  finite deep = true /\ embeddable deep = false /\ as_ast deep = None /\
  embeddable (Nat.iter 200 (fun v => PTuple [v]) (PStr "it's")) = true.
Proof. repeat split; vm_compute; reflexivity. Qed.

Example not_finite : finite (PFloat "inf") = false /\ finite (PList [PFloat "nan"]) = false /\ as_ast (PFloat "inf") = Some (Name "inf").
Proof. repeat split; vm_compute; reflexivity. Qed.

Example gate_examples :
  check_ast (Lambda ["e"] (BinOp BAdd (Name "e") (Const (CInt 1)))) = true /\
  check_ast (Lambda ["e"] (Tuple [Const (CBool true); Const (CStr "a"); Const (CFloat "1.5"); Const (CBytes "b")])) = true /\
  check_ast (Lambda ["e"] (Call (Name "f") [Const CNone] [] [])) = false /\
  check_ast (Other "Set;elts=[n]" [] [Const CEllipsis]) = false /\
  check_ast (Const (CObj "other:list" "x#0")) = false /\
  check_ast (Const (CObj "module" "numpy#1")) = true.
Proof. repeat split; vm_compute; reflexivity. Qed.

Example terminal_example :
  as_terminal "AsROOTTTree" (Name "ds")
    [("filename", PStr "out's.root"); ("treename", PStr "t\1"); ("columns", PList [PStr "a""b"; PStr "c"])]
  = Some (Call (Name "ResultTTree")
            [Name "ds"; List [Const (CStr "a""b"); Const (CStr "c")]; Const (CStr "t\1"); Const (CStr "out's.root")] [] []).
Proof. vm_compute. reflexivity. Qed.

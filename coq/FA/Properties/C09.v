(* C09 - Callbacks fire at every matching call site and their metadata reaches the stream.
   Only statements here; proofs live in Proofs/TypeFollowCallbacks.v.

   Events of [follow] = the observable effect of callbacks in order: [EvCall cb site] (invocation log), [EvMeta md]
   (stream = stream.MetaData(md)), [EvParam cb site params].  The stream handed to the operator is the source with the
   [EvMeta] entries applied in order, i.e. upstream of the operator node (object_stream.py uses n_stream.query_ast).

   Whole queries (Proofs/TypeFollowSites.v, TypeFollowEmitted.v): [callbacks_exact] - the events are exactly those of
   [callback_sites], a separately written traversal listing every resolved call site in evaluation order, class
   callback before method callback, nothing else; [metadata_upstream] - through Select / SelectMany / Where the metadata
   of every site, at whatever lambda depth, sits on the source chain upstream of the operator node, in firing order;
   [rewrite_is_emitted] - the emitted tree contains, for every site, the call its last callback returned.
   The local laws every call site goes through follow. *)
From FA.Base Require Import PyAst Value.
From FA.Model Require Import TypeDefs TypeFollow.
From FA.Proofs Require Import TypeFollowFacts TypeFollowCallbacks TypeFollowUntyped TypeFollowNormalised TypeFollowResolve
     TypeFollowSites TypeFollowEmitted.

(* every class table, function table, callback table, environment and expression *)
Theorem callbacks_exact : forall (W : world) (G : tenv) (e e' : expr) (t : ty) (ev : list event),
  follow W G e = Ok (e', t, ev) -> ev = callback_sites W G e.
Proof. exact callbacks_exact_x. Qed.
Print Assumptions callbacks_exact.

(* [stream_query op src lam ev] is what the operator returns for a stream whose query is [src]: the operator node over
   the source wrapped in one MetaData(...) per metadata event, and the followed lambda *)
Theorem metadata_upstream : forall (W : world) op G0 item p b lam t ev src,
  stream_op W op G0 item (Lambda [p] b) = Ok (lam, t, ev) ->
  ev = callback_sites W ((p, item) :: G0) b /\
  exists b', lam = Lambda [p] b' /\ follow W ((p, item) :: G0) b = Ok (b', type_of W ((p, item) :: G0) b, ev) /\
    stream_query op src lam ev =
      Call (Name (op_name op)) [with_metadata src (metas (callback_sites W ((p, item) :: G0) b)); Lambda [p] b'] [] [] /\
    (is_metadata_call src = false ->
     peel (with_metadata src (metas ev)) = (src, metas (callback_sites W ((p, item) :: G0) b))).
Proof. exact metadata_upstream_x. Qed.
Print Assumptions metadata_upstream.

(* for every call site of the traversal (record = its events and the call its last callback returned), that call is
   in the emitted tree; [kw_wf]: calls have as many keyword names as values, as Python's parser produces *)
Theorem rewrite_is_emitted : forall (W : world) (G : tenv) (e e' : expr) (t : ty) (ev : list event),
  kw_wf e -> follow W G e = Ok (e', t, ev) ->
  Forall (fun r : site_rec => within (eq (snd r)) e') (call_sites W G e).
Proof. exact rewrite_is_emitted_x. Qed.
Print Assumptions rewrite_is_emitted.

(* class-level callback before method-level callback; the second sees what the first returned; the emitted call
   site is the last rewrite; each callback's metadata directly follows its invocation *)
Theorem class_before_method : forall W bo m c d site,
  class_cb (w_ct W) bo = Some c -> m_cb m = Some d ->
  method_callbacks W bo m site =
    (apply_rw (cb_rw (cb_spec (w_cb W) d)) (apply_rw (cb_rw (cb_spec (w_cb W) c)) site),
     (EvCall c site :: md_events (cb_spec (w_cb W) c)) ++
     (EvCall d (apply_rw (cb_rw (cb_spec (w_cb W) c)) site) :: md_events (cb_spec (w_cb W) d))).
Proof. exact class_before_method_x. Qed.
Print Assumptions class_before_method.

(* nothing registered for the class or the method: nothing fires, the call site is untouched *)
Theorem no_callback_no_event : forall W bo m site,
  class_cb (w_ct W) bo = None -> m_cb m = None -> method_callbacks W bo m site = (site, []).
Proof. exact no_callback_no_event_x. Qed.
Print Assumptions no_callback_no_event.

(* ... and on an untyped stream nothing fires at all (C10's theorem) *)
Theorem no_spurious_events_untyped : forall (ct : classtab) (cbs : cbtab) (p : string) (e : expr) e' t ev,
  expr_grammar (lib_world ct cbs) [(p, TAny)] e = true ->
  follow (lib_world ct cbs) [(p, TAny)] e = Ok (e', t, ev) -> ev = [].
Proof.
  intros ct cbs p e e' t ev Hg H. pose proof (untyped_passthrough_default ct cbs p e Hg) as X.
  rewrite H in X. tauto.
Qed.
Print Assumptions no_spurious_events_untyped.

(* metadata of call sites inside the lambda of a typed collection operator: every event of the followed body is handed
   to the enclosing transformer (whose stream the operator uses as its source), and the emitted argument is the
   followed lambda - at every nesting depth, since the body is followed by the same function *)
Theorem nested_events_surface : forall W bo m f' a p k kws r,
  snd a = NLam p k ->
  follow_on_stream_obj W bo m f' [a] kws = Ok (Some r) ->
  exists item b t ev, k item = Ok (b, t, ev) /\ mr_ev r = ev /\
    exists t', mr_node r = Call f' [Lambda [p] b] (map fst kws) (map (fun kv => aexpr (snd kv)) kws) /\ mr_ty r = TIter t'.
Proof. exact nested_events_surface_x. Qed.
Print Assumptions nested_events_surface.

(* parameterized property: parameters by value (a literal), subscript removed, rewrite emitted *)
Theorem param_by_value : forall W v tv a s args kwn kwv node t ev,
  process_parameterized W v tv a s args kwn kwv = Ok (node, t, ev) ->
  exists id, node = apply_rw (cb_rw (cb_spec (w_cb W) id)) (Call (Attr v a) args kwn kwv) /\ t = cb_ty (cb_spec (w_cb W) id) /\
             ev = EvParam id (Call (Attr v a) args kwn kwv) s :: md_events (cb_spec (w_cb W) id) /\ literal_eval s <> None.
Proof. exact param_by_value_x. Qed.
Print Assumptions param_by_value.

(* ---------- non-vacuity: a class callback, a method callback with a rename, at lambda depth 1 (the F10 witness) ---------- *)
Definition P (n : string) (d : option const) : param := {| p_name := n; p_default := d |}.
Definition os_params := [P "self" None; P "f" None; P "known_types" (Some (CObj "other:dict" "{}"))].
Definition ct3 : classtab :=
  [ {| c_name := "OSIM"; c_params := ["T"]; c_base := Some (TCls "ObjectStream" [TVar "T"]); c_parent := Some "ObjectStream";
       c_methods := []; c_props := []; c_cb := None; c_fields := None; c_collection := true |};
    {| c_name := "ObjectStream"; c_params := ["T"]; c_base := None; c_parent := None;
       c_methods := [ {| m_name := "Select"; m_params := os_params; m_ret := Some (TCls "ObjectStream" [TVar "S"]); m_cb := None; m_op := OpSelect |} ];
       c_props := []; c_cb := None; c_fields := None; c_collection := false |};
    {| c_name := "Jet"; c_params := []; c_base := None; c_parent := None;
       c_methods := [ {| m_name := "pt"; m_params := [P "self" None]; m_ret := Some TFloat; m_cb := Some "jetpt"; m_op := OpStub |} ];
       c_props := []; c_cb := Some "jetcls"; c_fields := None; c_collection := false |};
    {| c_name := "Event"; c_params := []; c_base := None; c_parent := None;
       c_methods := [ {| m_name := "Jets"; m_params := [P "self" None]; m_ret := Some (TIter (TCls "Jet" [])); m_cb := None; m_op := OpStub |} ];
       c_props := []; c_cb := None; c_fields := None; c_collection := false |} ].
Definition md (k : string) := Dict [Const (CStr k)] [Const (CInt 1)].
Definition W3 : world :=
  {| w_ct := ct3; w_ft := [];
     w_cb := [("jetcls", {| cb_md := Some (md "c"); cb_rw := RwId; cb_ty := TAny |});
              ("jetpt", {| cb_md := Some (md "m"); cb_rw := RwRename "pt_new"; cb_ty := TAny |})] |}.

Example depth1_callbacks :
  let jpt := Call (Attr (Name "j") "pt") [] [] [] in
  let q := Call (Attr (Call (Attr (Name "e") "Jets") [] [] []) "Select") [Lambda ["j"] jpt] [] [] in
  follow W3 [("e", TCls "Event" [])] q =
    Ok (Call (Attr (Call (Attr (Name "e") "Jets") [] [] []) "Select")
             [Lambda ["j"] (Call (Attr (Name "j") "pt_new") [] [] [])] [] [],
        TIter TFloat,
        [EvCall "jetcls" jpt; EvMeta (md "c"); EvCall "jetpt" jpt; EvMeta (md "m")]).
Proof. vm_compute. reflexivity. Qed.

(* the traversal, computed independently of the follower's own event list, on the depth-1 query above: the class
   callback on the written site, then the method callback; the record's second component is the emitted call *)
Example depth1_traversal :
  let jpt := Call (Attr (Name "j") "pt") [] [] [] in
  let q := Call (Attr (Call (Attr (Name "e") "Jets") [] [] []) "Select") [Lambda ["j"] jpt] [] [] in
  call_sites W3 [("e", TCls "Event" [])] q =
    [ ([], Call (Attr (Name "e") "Jets") [] [] []);
      ([EvCall "jetcls" jpt; EvMeta (md "c"); EvCall "jetpt" jpt; EvMeta (md "m")], Call (Attr (Name "j") "pt_new") [] [] []);
      ([], Call (Attr (Call (Attr (Name "e") "Jets") [] [] []) "Select")
                [Lambda ["j"] (Call (Attr (Name "j") "pt_new") [] [] [])] [] []) ] /\
  stream_query OpSelect (Name "ds") (Lambda ["e"] q) (callback_sites W3 [("e", TCls "Event" [])] q) =
    Call (Name "Select") [Call (Name "MetaData") [Call (Name "MetaData") [Name "ds"; md "c"] [] []; md "m"] [] []; Lambda ["e"] q] [] [].
Proof. split; vm_compute; reflexivity. Qed.

(* an immediately called lambda (F45): its body is followed with the parameter typed by the argument, so the class and
   method callbacks of the call site inside it fire, and the rewrite is emitted inside the lambda *)
Example called_lambda_sites_followed :
  let xpt := Call (Attr (Name "x") "pt") [] [] [] in
  follow W3 [("j", TCls "Jet" [])] (Call (Lambda ["x"] xpt) [Name "j"] [] []) =
    Ok (Call (Lambda ["x"] (Call (Attr (Name "x") "pt_new") [] [] [])) [Name "j"] [] [], TFloat,
        [EvCall "jetcls" xpt; EvMeta (md "c"); EvCall "jetpt" xpt; EvMeta (md "m")]) /\
  callback_sites W3 [("j", TCls "Jet" [])] (Call (Lambda ["x"] xpt) [Name "j"] [] []) =
    [EvCall "jetcls" xpt; EvMeta (md "c"); EvCall "jetpt" xpt; EvMeta (md "m")].
Proof. split; vm_compute; reflexivity. Qed.

(* C20 - The query hash identifies structure and nothing else.
   Only statements here; proofs live in Proofs/HashLex.v (character level) and Proofs/HashProofs.v.

   [dump_raw] is the transcription of CPython 3.12 ast.dump (default options) on raw nodes
   (all fields of cls._fields, possibly missing, None-valued optional ones, plus non-field attributes);
   [erase] keeps exactly the structure: fields that are present and not None-by-default, no attributes;
   [dump] is the same printer on structures; [hash] = md5 of the UTF-8 encoding of the dump ([utf8_injective]), [None]
   where the Python raises UnicodeEncodeError (a lone surrogate in the dump text, which CPython's repr never leaves
   unescaped; [hash_defined_iff]).  Before fix F47 the bytes were [map ord] of the text and every code point above
   255 - any non-Latin-1 character of a string constant - raised ValueError.  Text is a list of code points.
   [printable] (Unicode printability of code points >= 128) and [md5] are universally quantified.

   Full statement of the property and where each half is:
     structure equal  ->  hash equal            hash_complete          (unconditional)
     hash equal       ->  structure equal       hash_sound_if          (relative to md5 not colliding on the
                                                                         two dumps - cannot be proved of md5)
     the dump itself identifies the structure   dump_injective, dump_raw_iff   (unconditional, character level)
     independence of attributes                 hash_ignores_attrs, dump_ignores_attrs_deep
     sensitivity to single edits                edit_* (instances of dump_injective) *)
From FA.Base Require Import Names.
From FA.Model Require Import GTree Hash.
From FA.Proofs Require Import HashLex HashUtf8 HashProofs.
Local Open Scope N_scope.
Local Open Scope string_scope.
Local Open Scope list_scope.

(* the heart: for well-formed structures the dump text determines the structure, character for character *)
Theorem dump_injective : forall (printable : N -> bool) a b,
  wf a = true -> wf b = true -> dump printable a = dump printable b -> a = b.
Proof. exact HashProofs.dump_injective. Qed.
Print Assumptions dump_injective.

(* token level (no well-formedness of strings involved beyond [wf]) *)
Theorem dump_toks_injective : forall a b,
  wf a = true -> wf b = true -> dump_lex a = dump_lex b -> a = b.
Proof. exact HashProofs.dump_lex_injective. Qed.
Print Assumptions dump_toks_injective.

(* the model printer really is the rendering of those tokens *)
Theorem dump_is_rendering : forall printable v, dump printable v = render_all printable (dump_lex v).
Proof. exact HashProofs.dump_render. Qed.
Print Assumptions dump_is_rendering.

(* ast.dump of raw nodes: equal exactly when the erasures are equal *)
Theorem dump_raw_iff : forall printable a b,
  wf (erase a) = true -> wf (erase b) = true ->
  (dump_raw printable a = dump_raw printable b <-> erase a = erase b).
Proof. exact HashProofs.dump_raw_iff. Qed.
Print Assumptions dump_raw_iff.

Theorem hash_complete : forall printable md5 a b,
  erase a = erase b -> hash printable md5 a = hash printable md5 b.
Proof. exact HashProofs.hash_complete. Qed.
Print Assumptions hash_complete.

Theorem hash_sound_if : forall printable md5 a b h,
  wf (erase a) = true -> wf (erase b) = true ->
  (md5 (utf8 (dump_raw printable a)) = md5 (utf8 (dump_raw printable b)) ->
   utf8 (dump_raw printable a) = utf8 (dump_raw printable b)) ->
  hash printable md5 a = Some h -> hash printable md5 b = Some h -> erase a = erase b.
Proof. exact HashProofs.hash_sound_if. Qed.
Print Assumptions hash_sound_if.

(* the bytes that are hashed determine the text (all lists of numbers, code points or not) *)
Theorem utf8_injective : forall t u, utf8 t = utf8 u -> t = u.
Proof. exact HashUtf8.utf8_inj. Qed.
Print Assumptions utf8_injective.

(* the hash is defined exactly when every code point of the dump can be encoded (no lone surrogate) *)
Theorem hash_defined_iff : forall printable md5 a,
  (exists h, hash printable md5 a = Some h) <-> forallb encodable (dump_raw printable a) = true.
Proof. exact HashProofs.hash_defined_iff. Qed.
Print Assumptions hash_defined_iff.

Theorem hash_ignores_attrs : forall printable md5 r ats,
  hash printable md5 (set_attrs r ats) = hash printable md5 r.
Proof. exact HashProofs.hash_ignores_attrs. Qed.
Print Assumptions hash_ignores_attrs.

(* every attribute at every depth *)
Theorem hash_ignores_all_attrs : forall printable md5 r,
  hash printable md5 (strip r) = hash printable md5 r.
Proof. exact HashProofs.hash_ignores_all_attrs. Qed.
Print Assumptions hash_ignores_all_attrs.

(* attributes and omitted fields anywhere in the tree *)
Theorem dump_ignores_attrs_deep : forall printable a b,
  erase a = erase b -> dump_raw printable a = dump_raw printable b.
Proof. exact HashProofs.dump_ignores_attrs_deep. Qed.
Print Assumptions dump_ignores_attrs_deep.

(* single edits *)
Theorem edit_operator : forall printable l r o1 o2,
  wf l = true -> wf r = true -> is_ident o1 = true -> is_ident o2 = true -> o1 <> o2 ->
  dump printable (gBinOp l o1 r) <> dump printable (gBinOp l o2 r).
Proof. exact HashProofs.edit_operator. Qed.
Print Assumptions edit_operator.

Theorem edit_name : forall printable id1 id2,
  wf (gName id1) = true -> wf (gName id2) = true -> id1 <> id2 ->
  dump printable (gName id1) <> dump printable (gName id2).
Proof. exact HashProofs.edit_name. Qed.
Print Assumptions edit_name.

(* value and type: 1, True, '1', 1.0, b'1', 1j are pairwise different atoms *)
Theorem edit_constant : forall printable a b,
  wf_atom a = true -> wf_atom b = true -> a <> b -> dump printable (gConst a) <> dump printable (gConst b).
Proof. exact HashProofs.edit_constant. Qed.
Print Assumptions edit_constant.

Theorem edit_arg_order : forall printable f x y,
  wf f = true -> wf x = true -> wf y = true -> x <> y ->
  dump printable (gCall f [x; y]) <> dump printable (gCall f [y; x]).
Proof. exact HashProofs.edit_arg_order. Qed.
Print Assumptions edit_arg_order.

Theorem edit_nesting : forall printable f g x,
  wf f = true -> wf g = true -> wf x = true -> f <> g ->
  dump printable (gCall f [gCall g [x]]) <> dump printable (gCall g [gCall f [x]]).
Proof. exact HashProofs.edit_nesting. Qed.
Print Assumptions edit_nesting.

(* any structural difference: equal hashes would exhibit an md5 collision *)
Theorem edit_changes_hash_if : forall printable md5 a b h,
  wf a = true -> wf b = true -> a <> b ->
  ghash printable md5 a = Some h -> ghash printable md5 b = Some h ->
  utf8 (dump printable a) <> utf8 (dump printable b) /\ md5 (utf8 (dump printable a)) = md5 (utf8 (dump printable b)).
Proof. exact HashProofs.edit_changes_hash_if. Qed.
Print Assumptions edit_changes_hash_if.

(* ---------- non-vacuity ---------- *)

Definition pr_all : N -> bool := fun _ => true.
Definition tx := cps.

(* ds.Select(lambda e: e.jets) as ObjectStream builds it; the executor hangs on the EventDataset call *)
Definition lam_raw : rval :=
  RNode "Lambda"
    [("args", false, Some (RNode "arguments"
        [("posonlyargs", false, Some (RList []));
         ("args", false, Some (RList [RNode "arg" [("arg", false, Some (RAtom (AStr (tx "e"))));
                                                   ("annotation", true, Some (RAtom ANone));
                                                   ("type_comment", true, Some (RAtom ANone))]
                                            [("lineno", "int"); ("col_offset", "int")]]));
         ("vararg", true, Some (RAtom ANone)); ("kwonlyargs", false, Some (RList []));
         ("kw_defaults", false, Some (RList [])); ("kwarg", true, Some (RAtom ANone));
         ("defaults", false, Some (RList []))] []));
     ("body", false, Some (RNode "Attribute"
        [("value", false, Some (RNode "Name" [("id", false, Some (RAtom (AStr (tx "e"))));
                                              ("ctx", false, Some (RNode "Load" [] []))] [("lineno", "int")]));
         ("attr", false, Some (RAtom (AStr (tx "jets"))));
         ("ctx", false, Some (RNode "Load" [] []))] []))] [].

Definition query_raw (ds_attrs : list (string * string)) : rval :=
  RNode "Call"
    [("func", false, Some (RNode "Name" [("id", false, Some (RAtom (AStr (tx "Select")))); ("ctx", false, Some (RNode "Load" [] []))] []));
     ("args", false, Some (RList
        [RNode "Call" [("func", false, Some (RNode "Name" [("id", false, Some (RAtom (AStr (tx "EventDataset"))));
                                                          ("ctx", false, Some (RNode "Load" [] []))] []));
                       ("args", false, Some (RList [])); ("keywords", false, Some (RList []))] ds_attrs;
         lam_raw]));
     ("keywords", false, Some (RList []))] [].

Example query_wf : wf (erase (query_raw [("_func_adl_executor", "method"); ("_eds_object", "DS")])) = true.
Proof. vm_compute. reflexivity. Qed.

Example query_dump :
  dump_raw pr_all (query_raw [("_func_adl_executor", "method"); ("_eds_object", "DS")])
  = tx "Call(func=Name(id='Select', ctx=Load()), args=[Call(func=Name(id='EventDataset', ctx=Load()), args=[], keywords=[]), Lambda(args=arguments(posonlyargs=[], args=[arg(arg='e')], kwonlyargs=[], kw_defaults=[], defaults=[]), body=Attribute(value=Name(id='e', ctx=Load()), attr='jets', ctx=Load()))], keywords=[])".
Proof. vm_compute. reflexivity. Qed.

(* attributes deep in the tree do not matter *)
Example query_attrs_irrelevant :
  erase (query_raw [("_func_adl_executor", "method")]) = erase (query_raw []).
Proof. vm_compute. reflexivity. Qed.

(* hash_sound_if is not vacuous: with an injective "digest" its hypotheses are met and hashes are defined *)
Example sound_if_applies :
  exists h, hash pr_all (fun t => t) (query_raw []) = Some h
            /\ hash pr_all (fun t => t) (query_raw [("_q_metadata", "dict")]) = Some h.
Proof. eexists. split; vm_compute; reflexivity. Qed.

(* a printable code point above 255 (here the euro sign, three bytes) is hashed (it raised ValueError before F47); a
   lone surrogate that a (non-CPython) [printable] lets through unescaped is the one thing that cannot be *)
Example hash_non_latin1 :
  hash pr_all (fun t => t) (RNode "Constant" [("value", false, Some (RAtom (AStr [8364])))] [])
  = Some (tx "Constant(value='" ++ [226; 130; 172] ++ tx "')")
  /\ hash pr_all (fun t => t) (RNode "Constant" [("value", false, Some (RAtom (AStr [55296])))] []) = None
  /\ utf8 [65; 233; 8364; 128512] = [65; 195; 169; 226; 130; 172; 240; 159; 152; 128].
Proof. repeat split; vm_compute; reflexivity. Qed.

(* repr of strings: quotes, escapes, non-printables *)
Example repr_quotes :
  py_repr_str pr_all (tx "it's") = [34] ++ tx "it's" ++ [34]
  /\ py_repr_str pr_all ([39; 34]) = [39; 92; 39; 34; 39]
  /\ py_repr_str (fun c => negb (N.eqb c 173)) [10; 0; 173; 233; 8232] = tx "'\n\x00\xad" ++ [233; 8232] ++ tx "'"
  /\ py_repr_bytes [0; 255; 39] = tx "b""\x00\xff'""".
Proof. repeat split; vm_compute; reflexivity. Qed.

(* the constant-type instances: the same Python value 1 == True == 1.0, four different structures *)
Example const_types_differ :
  dump pr_all (gConst (AInt 1)) <> dump pr_all (gConst (ABool true))
  /\ dump pr_all (gConst (AInt 1)) <> dump pr_all (gConst (AStr (tx "1")))
  /\ dump pr_all (gConst (AInt 1)) <> dump pr_all (gConst (AFloat "1.0"))
  /\ dump pr_all (gConst (AStr (tx "1"))) <> dump pr_all (gConst (ABytes (tx "1"))).
Proof.
  repeat split; apply HashProofs.edit_constant; try reflexivity; discriminate.
Qed.

Example nesting_differs :
  dump pr_all (gCall (gName (tx "f")) [gCall (gName (tx "g")) [gName (tx "x")]])
  <> dump pr_all (gCall (gName (tx "g")) [gCall (gName (tx "f")) [gName (tx "x")]]).
Proof. apply HashProofs.edit_nesting; try reflexivity. discriminate. Qed.

Example operator_differs :
  dump pr_all (gBinOp (gName (tx "a")) "Add" (gName (tx "b"))) <> dump pr_all (gBinOp (gName (tx "a")) "Sub" (gName (tx "b"))).
Proof. apply HashProofs.edit_operator; try reflexivity. discriminate. Qed.

(* what the hypothesis [wf] excludes is really ambiguous: an opaque "float token" containing dump syntax *)
Example wf_needed :
  dump pr_all (GNode "A" [("x", GAtom (AFloat "B()"))]) = dump pr_all (GNode "A" [("x", GNode "B" [])])
  /\ wf (GNode "A" [("x", GAtom (AFloat "B()"))]) = false.
Proof. split; vm_compute; reflexivity. Qed.

(* C16 - Query-level metadata accumulates, is inherited, and never reaches a backend.
   Only statements here; proofs live in Proofs/StreamQmd.v (last writer) and Proofs/StreamErase.v (invisible).
   [lookup st s k] models lookup_query_metadata(stream s, k) faithfully: a pre-order walk over ALL children of
   every node (not only args[0]) that does not descend below a node defining the key, a later hit overwriting
   an earlier one.  [qmd_spec ops s k] is the plain dictionary replay of the history: a stream inherits its
   parent's dictionary, QMetaData overrides it key by key, a failed operation creates nothing. *)
From Coq Require Import String List Arith Bool.
From FA.Model Require Import Heap Stream.
From FA.Proofs Require Import HeapFacts StreamFrame StreamQmd StreamErase StreamExamples.
Import ListNotations.
Open Scope list_scope.
Open Scope nat_scope.

(* For every history in which the trees handed to the library (lambdas, literals, ObjectStream(ast)) do not
   embed another stream's AST object and QMetaData gets a dict: the lookup of any key on any stream is the value
   most recently set for that key on the stream's own derivation path, None if never set.  Keys set earlier stay
   visible (the replay only overrides the keys of the call), siblings do not see each other (the replay of a
   stream starts from its parent's dictionary only). *)
Theorem qmd_last_writer : forall ops s k,
  forallb op_plain ops = true -> live (run ops) s -> lookup (run ops) s k = qmd_spec ops s k.
Proof. exact StreamQmd.qmd_last_writer. Qed.
Print Assumptions qmd_last_writer.

(* For EVERY history: each stream's dump and item type, each operation's outcome and the whole executor log
   (executor, AST handed over, title) are those of the same history in which every QMetaData sets nothing.
   Hence ast.dump / calc_ast_hash (functions of the dump) and the executor's argument never depend on it. *)
Theorem qmd_invisible : forall ops,
  (forall s, obs (run ops) s = obs (run (erase_qmd ops)) s) /\
  outs ops = outs (erase_qmd ops) /\
  log (run ops) = log (run (erase_qmd ops)).
Proof. exact StreamErase.qmd_invisible. Qed.
Print Assumptions qmd_invisible.

(* lookups, like dumps, never change once the stream exists (from C11's frame invariant) *)
Theorem lookups_immutable : forall ops i j s k, i <= j -> live (run_prefix ops i) s ->
  lookup (run_prefix ops j) s k = lookup (run_prefix ops i) s k.
Proof. exact StreamFrame.lookups_immutable. Qed.
Print Assumptions lookups_immutable.

(* non-vacuity: hist1 is plain; root and derived streams, consecutive calls, repeated keys, siblings *)
Example last_writer_hist1 :
  forallb op_plain hist1 = true /\
  map (fun s => (lookup (run hist1) s "a", lookup (run hist1) s "b", lookup (run hist1) s "c")) [0; 2; 3; 4; 5; 6; 9; 10] =
    [ (None, None, None);                              (* the dataset itself: QMetaData made a new stream s3 *)
      (None, None, None);                              (* s2: derived before any metadata on its path *)
      (Some i2, None, None);                           (* s3 = s0.QMetaData(a=2) *)
      (None, None, None);                              (* s4: sibling of s2, sees nothing of s5/s6 *)
      (Some i3, Some i2, None);                        (* s5 = s2.QMetaData(a=3,b=2) *)
      (Some i3, Some i2, Some (AStr "x"));             (* s6 = s5.QMetaData(c='x'): a and b survive (F14) *)
      (Some i3, Some i2, Some (AStr "x"));             (* s9 = terminal on s6 inherits *)
      (Some i3, Some i2, Some (AStr "y")) ]            (* s10 = s6.QMetaData(a=3,c='y'): equal value, new value *)
  /\ map (fun s => (qmd_spec hist1 s "a", qmd_spec hist1 s "b", qmd_spec hist1 s "c")) [0; 2; 3; 4; 5; 6; 9; 10] =
     map (fun s => (lookup (run hist1) s "a", lookup (run hist1) s "b", lookup (run hist1) s "c")) [0; 2; 3; 4; 5; 6; 9; 10].
Proof. split; [reflexivity|]. split; vm_compute; reflexivity. Qed.

Example invisible_hist1 :
  erase_qmd hist1 <> hist1 /\
  length (log (run (erase_qmd hist1))) = 3 /\
  obs (run hist1) 10 = obs (run (erase_qmd hist1)) 10 /\
  (exists t ty, obs (run hist1) 10 = Some (Some t, ty)).
Proof.
  split; [intros H; discriminate H|]. split; [vm_compute; reflexivity|].
  split; [vm_compute; reflexivity|]. vm_compute. eexists; eexists; reflexivity.
Qed.

(* The boundary of qmd_last_writer (why [op_plain] is there): the walk visits ALL children, so a lambda that
   embeds the AST object of another stream (hist_join: s4 = s3.Select(lambda e: <AST of s2>)) finds that
   stream's metadata, and the later hit wins over the one on the derivation path.  The code does the same
   (checked by the correspondence runs); such a query has two dataset roots and is rejected by find_EventDataset. *)
Example embedded_stream_is_seen :
  forallb op_plain hist_join = false /\
  lookup (run hist_join) 4 "k" = Some i2 /\ qmd_spec hist_join 4 "k" = Some i3 /\
  stream_dataset (run hist_join) 4 = Err EManyRoots.
Proof. repeat split; vm_compute; reflexivity. Qed.

From FA.Base Require Import PyAst Value.
From FA.Model Require Import TypeDefs TypeFollow.
From FA.Proofs Require Import TypeFollowFacts TypeFollowUntyped.

(* C10 - Untyped queries pass through unchanged; refusals are explicit.
   Only statements here; proofs live in Proofs/TypeFollowUntyped.v.

   [follow W G e] is the model of remap_by_types (Model/TypeFollow.v) and [stream_op W op G0 item lam] the model of
   ObjectStream.Select / SelectMany / Where called with the lambda [lam] on a stream of [item]s; both with
   fixes/F11, F12, F21 applied (the table flags [unary_uses_lookup], [param_call_guarded] are read from the source on
   every run; with the unfixed source these files stop compiling).  [lib_world ct cbs] is ANY class table and ANY
   callback table together with the library's own registered functions [ft_default] (regenerated from the source).

   [expr_grammar] is the grammar of the property: names, attributes, calls with positional and keyword arguments,
   subscripts, unary / binary / boolean / comparison operators, conditionals, tuples, lists, dictionaries with arbitrary
   string keys, nested and immediately called lambdas, and every other node class ([Other]).  Its three restrictions:
     - a call of [abs]/[len] does not pass their parameter by keyword without a positional argument;
     - keyword names and values of a call come in equal numbers (what Python's parser produces);
     - a call whose callee is a subscript of an attribute, [v.a[s](...)], has an untyped [v] (a name, attribute or
       subscript chain from the lambda parameter).  Residual of F21, reported: [{'a': e.x}.a[0](1)] and [(1).x[0](2)]
       still raise AttributeError - the call is taken for a parameterized property on a typed object, and that
       behaviour is pinned for user classes by test_index_callback_bad_prop.
   Immediately called lambdas [(lambda x, ...: body)(a, ...)] are in the grammar.  When each parameter is bound to one
   positional argument the follower follows the body (F45), the parameters typed by the arguments; the grammar then
   reads the body with the parameters hiding the outer names, and - third restriction, inside such a body - a
   parameter does not count as an untyped [v] of [v.a[s](...)] (it may be bound to a dictionary or tuple literal).
   Any other call of a lambda leaves the lambda alone (Example [called_lambdas]).
   [bool_shape]: comparisons, and/or and [not] (F43: [not x] is a boolean whatever [x] is).
   Builtin classes (str, int, ...) are not in a class table: their methods called on constants are outside the model. *)
From FA.Base Require Import PyAst Value.
From FA.Gen Require Import TablesTypes.
From FA.Model Require Import TypeDefs TypeFollow.
From FA.Proofs Require Import TypeFollowFacts TypeFollowUntyped.

(* the type follower, on an expression whose only typed name is the lambda parameter (typed Any), returns the
   expression structurally unchanged and fires nothing; or refuses with a designed reason; never an internal error *)
Theorem untyped_passthrough : forall (ct : classtab) (cbs : cbtab) (p : string) (e : expr),
  expr_grammar (lib_world ct cbs) [(p, TAny)] e = true ->
  match follow (lib_world ct cbs) [(p, TAny)] e with
  | Ok (e', t, ev) => e' = e /\ ev = []
  | Refuse r => designed ft_default r e
  | Crash _ => False
  end.
Proof. exact untyped_passthrough_default. Qed.
Print Assumptions untyped_passthrough.

(* the same through the three stream operators: the emitted lambda is the one given; the refusals are the designed
   ones (while following the body, a non-transportable constant, a non-boolean Where filter) *)
Theorem untyped_stream_ops : forall (ct : classtab) (cbs : cbtab) (op : opkind) (p : string) (b : expr),
  stream_operator op -> expr_grammar (lib_world ct cbs) [(p, TAny)] b = true ->
  match stream_op (lib_world ct cbs) op [] TAny (Lambda [p] b) with
  | Ok (lam, t, ev) => lam = Lambda [p] b /\ ev = []
  | Refuse r => designed_op ft_default op r p b
  | Crash _ => False
  end.
Proof. exact untyped_stream_ops_default. Qed.
Print Assumptions untyped_stream_ops.

(* comparison and and/or bodies are typed bool in every class model, environment and operand position ... *)
Theorem where_bool_shapes : forall (W : world) (G : tenv) (b e' : expr) (t : ty) (ev : list event),
  bool_shape b = true -> follow W G b = Ok (e', t, ev) -> t = TBool.
Proof. exact where_bool_shapes_x. Qed.
Print Assumptions where_bool_shapes.

(* ... so Where emits them unchanged and keeps the item type; the gate is never what refuses *)
Theorem untyped_where_keeps_bool_bodies : forall (ct : classtab) (cbs : cbtab) (p : string) (b : expr),
  bool_shape b = true -> expr_grammar (lib_world ct cbs) [(p, TAny)] b = true ->
  match stream_op (lib_world ct cbs) OpWhere [] TAny (Lambda [p] b) with
  | Ok (lam, t, ev) => lam = Lambda [p] b /\ t = TAny /\ ev = []
  | Refuse r => designed ft_default r b \/ (r = RBadConst /\ check_ast (Lambda [p] b) = false)
  | Crash _ => False
  end.
Proof. exact untyped_where_bool. Qed.
Print Assumptions untyped_where_keeps_bool_bodies.

(* the general form: any registered functions without defaults or processors, any environment of plain types *)
Theorem untyped_passthrough_general : forall (W : world) (G : tenv) (e : expr),
  ft_plain (w_ft W) -> Forall (fun xt => simple (snd xt)) G -> expr_grammar W G e = true ->
  match follow W G e with
  | Ok (e', t, ev) => e' = e /\ ev = [] /\ simple t
  | Refuse r => designed (w_ft W) r e
  | Crash _ => False
  end.
Proof. exact untyped_passthrough_x. Qed.
Print Assumptions untyped_passthrough_general.

(* ---------- non-vacuity: concrete expressions meet the hypotheses; each branch of the statement is inhabited ---------- *)

Definition W0 : world := lib_world [] [].
Definition e_ := Name "e".
Definition mcall (v : expr) (m : string) (args : list expr) := Call (Attr v m) args [] [].

(* lambda e: -e.x   (the F11 witness) *)
Example unary_on_attribute :
  expr_grammar W0 [("e", TAny)] (UnaryOp USub (Attr e_ "x")) = true /\
  follow W0 [("e", TAny)] (UnaryOp USub (Attr e_ "x")) = Ok (UnaryOp USub (Attr e_ "x"), TAny, []).
Proof. split; vm_compute; reflexivity. Qed.

(* lambda e: {'a b': e.x, 'class': 1}['a b']   (the F12 witness) and a dictionary with identifier keys *)
Example odd_dictionary_keys :
  let d := Dict [Const (CStr "a b"); Const (CStr "class")] [Attr e_ "x"; Const (CInt 1)] in
  expr_grammar W0 [("e", TAny)] (Subscript d (Const (CStr "a b"))) = true /\
  follow W0 [("e", TAny)] (Subscript d (Const (CStr "a b"))) = Ok (Subscript d (Const (CStr "a b")), TAny, []) /\
  follow W0 [("e", TAny)] (Attr (Dict [Const (CStr "n")] [Const (CInt 1)]) "n")
    = Ok (Attr (Dict [Const (CStr "n")] [Const (CInt 1)]) "n", TInt, []).
Proof. repeat split; vm_compute; reflexivity. Qed.

(* lambda e: e.x[0](1)   (the F21 witness), and a method call with a nested lambda on an untyped object *)
Example call_of_subscripted_attribute :
  let q := Call (Subscript (Attr e_ "x") (Const (CInt 0))) [Const (CInt 1)] [] [] in
  let s := mcall (Attr e_ "jets") "Select" [Lambda ["value"] (UnaryOp UNot (Attr (Name "value") "value"))] in
  expr_grammar W0 [("e", TAny)] q = true /\ follow W0 [("e", TAny)] q = Ok (q, TAny, []) /\
  expr_grammar W0 [("e", TAny)] s = true /\ follow W0 [("e", TAny)] s = Ok (s, TAny, []).
Proof. repeat split; vm_compute; reflexivity. Qed.

(* (lambda x: x.pt > 1)(e.jet)  binds its parameter: the body is followed; (lambda x: x)(e, 1) does not: left alone;
   a refusal inside the body of a called lambda is the designed one *)
Example called_lambdas :
  let q := Call (Lambda ["x"] (Compare (Attr (Name "x") "pt") [CGt] [Const (CInt 1)])) [Attr e_ "jet"] [] [] in
  let s := Call (Lambda ["x"] (Name "x")) [e_; Const (CInt 1)] [] [] in
  let r := Call (Lambda ["x"] (IfExp (Name "x") (Const (CInt 1)) (Const (CStr "a")))) [e_] [] [] in
  expr_grammar W0 [("e", TAny)] q = true /\ follow W0 [("e", TAny)] q = Ok (q, TBool, []) /\
  expr_grammar W0 [("e", TAny)] s = true /\ follow W0 [("e", TAny)] s = Ok (s, TAny, []) /\
  expr_grammar W0 [("e", TAny)] r = true /\ follow W0 [("e", TAny)] r = Refuse RIfExp.
Proof. repeat split; vm_compute; reflexivity. Qed.

(* designed refusals really occur, each with its site *)
Example refusals_occur :
  follow W0 [("e", TAny)] (IfExp (Attr e_ "a") (Const (CInt 1)) (Const (CStr "a"))) = Refuse RIfExp /\
  follow W0 [("e", TAny)] (Subscript (Tuple [Attr e_ "a"; Attr e_ "b"]) (Attr e_ "i")) = Refuse RTupleIndex /\
  follow W0 [("e", TAny)] (Subscript (Tuple [Attr e_ "a"; Attr e_ "b"]) (Const (CInt 2))) = Refuse RTupleRange /\
  follow W0 [("e", TAny)] (Attr (Dict [Const (CStr "a")] [Attr e_ "x"]) "b") = Refuse RDictKey /\
  follow W0 [("e", TAny)] (Subscript (Dict [Const (CStr "a")] [Attr e_ "x"]) (Const (CStr "b"))) = Refuse RRecordKey /\
  follow W0 [("e", TAny)] (Call (Name "abs") [] [] []) = Refuse (RMissingArg "x") /\
  stream_op W0 OpWhere [] TAny (Lambda ["e"] (Attr e_ "x")) = Refuse RWhereNotBool /\
  stream_op W0 OpSelect [] TAny (Lambda ["e"] (Const CNone)) = Refuse RBadConst.
Proof. repeat split; vm_compute; reflexivity. Qed.

Example where_on_comparison :
  let b := BoolOp And [Compare (Attr e_ "x") [CGt] [Const (CInt 1)]; UnaryOp UNot (Attr e_ "b")] in
  bool_shape b = true /\ expr_grammar W0 [("e", TAny)] b = true /\
  stream_op W0 OpWhere [] TAny (Lambda ["e"] b) = Ok (Lambda ["e"] b, TAny, []).
Proof. repeat split; vm_compute; reflexivity. Qed.

(* the restriction on calls of subscripted attributes is needed: outside it the fixed code still fails *)
Example residual_outside_grammar :
  let q := Call (Subscript (Attr (Dict [Const (CStr "a")] [Attr e_ "x"]) "a") (Const (CInt 0))) [Const (CInt 1)] [] [] in
  expr_grammar W0 [("e", TAny)] q = false /\ follow W0 [("e", TAny)] q = Crash CkAttr.
Proof. split; vm_compute; reflexivity. Qed.

(* C19 - Aggregate shortcuts lower to equivalent folds.
   Only statements here; proofs live in Proofs/AggregateProofs.v.  [agg] is the model of
   aggregate_node_transformer over the rule table regenerated from the source (Gen/Tables.v). *)
From FA.Base Require Import PyAst Value Traverse.
From FA.Model Require Import Aggregate.
From FA.Proofs Require Import AggregateProofs.

(* the pass computes exactly the relation "rewrite every 1-argument, keyword-free call of
   len/Count/Sum/Max/Min into the corresponding fold; leave every other node as it is" *)
Theorem agg_exact : forall e e', agg e = Some e' <-> agg_spec e e'.
Proof. exact AggregateProofs.agg_exact. Qed.
Print Assumptions agg_exact.

(* it never raises *)
Theorem agg_total : forall e, exists e', agg e = Some e'.
Proof. exact AggregateProofs.agg_total. Qed.
Print Assumptions agg_total.

(* no shortcut call is left anywhere in the output, at any depth *)
Theorem agg_complete : forall e e', agg e = Some e' -> no_shortcut e'.
Proof. exact AggregateProofs.agg_complete. Qed.
Print Assumptions agg_complete.

(* C19 - Aggregate shortcuts lower to equivalent folds.
   Only statements here; proofs live in Proofs/AggregateProofs.v and Proofs/AggregateSem.v.
   [agg] is the model of aggregate_node_transformer over the rule table regenerated from the
   source (Gen/Tables.v); [eval] is the reference semantics (Base/Eval.v), in which
   [len/Count/Sum] are Python's and [Max/Min] are the maximum/minimum "with 0 added". *)
From FA.Base Require Import PyAst Value Eval Traverse.
From FA.Model Require Import Aggregate.
From FA.Proofs Require Import Refine AggregateProofs AggregateSem.

(* the pass computes exactly the relation "rewrite every 1-argument, keyword-free call of
   len/Count/Sum/Max/Min into the corresponding fold; leave every other node as it is" *)
Theorem agg_exact : forall e e', agg e = Some e' <-> agg_spec e e'.
Proof. exact AggregateProofs.agg_exact. Qed.
Print Assumptions agg_exact.

(* it never raises *)
Theorem agg_total : forall e, exists e', agg e = Some e'.
Proof. exact AggregateProofs.agg_total. Qed.
Print Assumptions agg_total.

(* no shortcut call is left anywhere in the output, at any depth *)
Theorem agg_complete : forall e e', agg e = Some e' -> no_shortcut e'.
Proof. exact AggregateProofs.agg_complete. Qed.
Print Assumptions agg_complete.

(* for every backend, every environment (dataset) and every query: whenever the original evaluates
   to v, so does the rewritten query - at any depth, inside lambdas and sequence arguments *)
Theorem agg_sem :
  forall (B : backend) (ops : list string) e e',
    agg e = Some e' -> forall E v, eval B ops E e = Some v -> eval B ops E e' = Some v.
Proof. intros B ops e e' H E v. exact (AggregateSem.agg_sem B ops e e' H E v). Qed.
Print Assumptions agg_sem.

(* the arithmetic content of the reference semantics used above *)
Theorem max_with_zero : forall zs,
  In (fold_left Z.max zs 0%Z) (0%Z :: zs) /\ forall z, In z (0%Z :: zs) -> (z <= fold_left Z.max zs 0)%Z.
Proof. intros zs. exact (fold_max_spec zs 0%Z). Qed.
Print Assumptions max_with_zero.

Theorem min_with_zero : forall zs,
  In (fold_left Z.min zs 0%Z) (0%Z :: zs) /\ forall z, In z (0%Z :: zs) -> (fold_left Z.min zs 0 <= z)%Z.
Proof. intros zs. exact (fold_min_spec zs 0%Z). Qed.
Print Assumptions min_with_zero.

(* non-vacuity: concrete queries meet the hypotheses and the folds really compute *)
Definition B0 : backend := {| attr_sem := fun _ _ => None; meth_sem := fun _ _ _ _ => None; fun_sem := fun _ _ _ => None |}.
Definition ints (l : list Z) : value := VList (map VInt l).

Example agg_runs :
  let q := Call (Name "Select") [Name "s"; Lambda ["x"] (Call (Name "Sum") [Name "x"] [] [])] [] [] in
  exists q', agg q = Some q' /\
    eval B0 [] [("s", VList [ints [1; 2; 3]%Z; ints []; ints [-5]%Z])] q = Some (ints [6; 0; -5]%Z) /\
    eval B0 [] [("s", VList [ints [1; 2; 3]%Z; ints []; ints [-5]%Z])] q' = Some (ints [6; 0; -5]%Z).
Proof. eexists; split; [vm_compute; reflexivity | split; vm_compute; reflexivity]. Qed.

Example agg_max_min_runs :
  forall q', agg (Tuple [Call (Name "Max") [Name "s"] [] []; Call (Name "Min") [Name "s"] [] []; Call (Name "len") [Name "s"] [] []]) = Some q' ->
    eval B0 [] [("s", ints [-3; -7]%Z)] q' = Some (VTuple [VInt 0; VInt (-7); VInt 2]).
Proof. intros q' H. vm_compute in H. inversion H; subst. vm_compute. reflexivity. Qed.

(* C14 - Intermediate tuples and dictionaries are compiled away.

   Statements only; proofs in Proofs/SimplifyPkg.v.  What is proved (for every fuel, stack, counter
   and every sub-term): once the container and the selector have been visited, a constant in-range
   index into a tuple/list literal and a constant key a dict literal defines are replaced by the
   selected component - the projection node and the package disappear; and a name with a pending
   definition (the packaged argument of a fused stage) is replaced by that definition at every use.
   The chain-level statement (Proofs/SimplifyShape.v, strong induction on the fuel over the whole
   traversal, using C02's invariants): [packaging_eliminated] below.  The discipline "earlier stages
   package, later stages only take apart with constant indices, keys or attribute names" is
   typability [has_shape G e s] in a shape system (atoms; tuples/lists of shapes; dictionaries with
   distinct constant str/int keys; sequences of non-atomic elements): names have the shape of what
   they are bound to, a constant projection of a package has the component's shape, Select/Where/
   SelectMany bind their one parameter to the element shape of the source, called lambdas bind the
   shapes of their arguments, everything else combines atoms.  The theorem: a typable query of shape
   [s] simplifies to a query in canonical form [canon s q'] - for an atom shape a term without any
   Tuple/List/Dict node ([nopkg], [packaging_eliminated_atom]); for a package shape exactly the
   package literal of the final result over atom components; for a sequence of packages a
   Select/SelectMany whose source is package-free and whose lambda body is canonical.  Every chain
   length, operator order, nesting of packaging, projection path and choice of binder names.
   Outside the theorem (kept visible): queries mentioning [First] (C02's scope; the attribute form of
   a projection behind a substituted First() is the open finding in KNOWN_FINDINGS.txt), operator
   lambdas with other than one parameter ([two_parameter_lambda_keeps_package]: Python raises
   TypeError on such a call), boolean dictionary keys.  The node-kind oracle and the model/code
   correspondence of harness/props/c14.py cover First-wrapped packages and method-form chains. *)
From FA.Base Require Import PyAst Value Traverse.
From FA.Model Require Import Simplify.
From FA.Base Require Import Eval Names.
From FA.Proofs Require Import SimplifyFacts SimplifyPkg SimplifyTotal SimplifyInv RenameSem SimplifySound SimplifyShape.

Theorem packaged_argument_reaches_every_use : forall f st bd c x,
  simp (S f) st bd c (Name x) = match stack_lookup x st with Some v => Ok (v, c) | None => Ok (Name x, c) end.
Proof. exact name_step. Qed.
Print Assumptions packaged_argument_reaches_every_use.

Theorem tuple_projection_eliminated : forall f st bd c v s es n c1 c2 x,
  simp f st bd c v = Ok (Tuple es, c1) -> simp f st bd c1 s = Ok (Const (CInt n), c2) -> existsb is_starred es = false ->
  py_index es n = Some x -> (- Z.of_nat (length es) <= n < Z.of_nat (length es))%Z ->
  simp (S f) st bd c (Subscript v s) = Ok (x, c2).
Proof. exact project_tuple_step. Qed.
Print Assumptions tuple_projection_eliminated.

Theorem list_projection_eliminated : forall f st bd c v s es n c1 c2 x,
  simp f st bd c v = Ok (List es, c1) -> simp f st bd c1 s = Ok (Const (CInt n), c2) -> existsb is_starred es = false ->
  py_index es n = Some x -> (- Z.of_nat (length es) <= n < Z.of_nat (length es))%Z ->
  simp (S f) st bd c (Subscript v s) = Ok (x, c2).
Proof. exact project_list_step. Qed.
Print Assumptions list_projection_eliminated.

Theorem dict_subscript_eliminated : forall f st bd c v s ks vs k c1 c2 x,
  simp f st bd c v = Ok (Dict ks vs, c1) -> simp f st bd c1 s = Ok (Const k, c2) ->
  const_key k = true -> length ks = length vs -> dict_scan (rev ks) (rev vs) k = Some x ->
  simp (S f) st bd c (Subscript v s) = Ok (x, c2).
Proof. exact project_dict_step. Qed.
Print Assumptions dict_subscript_eliminated.

Theorem dict_attribute_eliminated : forall f st bd c v a ks vs c1 x,
  is_call_of v "First" = false ->
  simp f st bd c v = Ok (Dict ks vs, c1) -> length ks = length vs -> dict_scan (rev ks) (rev vs) (CStr a) = Some x ->
  simp (S f) st bd c (Attr v a) = Ok (x, c1).
Proof. exact project_attr_step. Qed.
Print Assumptions dict_attribute_eliminated.

(* the selected component is a component of the literal, and the one python selects *)
Theorem projection_selects_a_component : forall es n,
  match seq_project es n with
  | Ok x => In x es /\ py_index es n = Some x
  | IndexErr => (n >= Z.of_nat (length es) \/ n < - Z.of_nat (length es))%Z
  | Crash _ => False
  | OutOfFuel => False
  end.
Proof. exact seq_project_spec. Qed.
Print Assumptions projection_selects_a_component.

(* ---------- non-vacuity: disciplined chains really come out package free ---------- *)
Definition sel (s : expr) (x : string) (b : expr) := function_call "Select" [s; Lambda [x] b].
Definition whr (s : expr) (x : string) (b : expr) := function_call "Where" [s; Lambda [x] b].
Definition many (s : expr) (x : string) (b : expr) := function_call "SelectMany" [s; Lambda [x] b].
Definition idx (e : expr) (n : Z) := Subscript e (Const (CInt n)).

(* ds.Select(e: ((e.a, e.b), {'c': e.met})).Where(t: t[0][0] > 1).Select(t: t[0][1] + t[1].c) *)
Definition chain1 : expr :=
  sel (whr (sel (Name "ds") "e" (Tuple [Tuple [Attr (Name "e") "a"; Attr (Name "e") "b"]; Dict [Const (CStr "c")] [Attr (Name "e") "met"]]))
           "t" (Compare (idx (idx (Name "t") 0) 0) [CGt] [Const (CInt 1)]))
      "t" (BinOp BAdd (idx (idx (Name "t") 0) 1) (Attr (idx (Name "t") 1) "c")).

(* ds.Select(e: (e.jets, e.met)).SelectMany(t: Select(t[0], j: (j, t[1]))).Select(p: p[0].pt + p[1]) *)
Definition chain2 : expr :=
  sel (many (sel (Name "ds") "e" (Tuple [Attr (Name "e") "jets"; Attr (Name "e") "met"]))
            "t" (sel (idx (Name "t") 0) "j" (Tuple [Name "j"; idx (Name "t") 1])))
      "p" (BinOp BAdd (Attr (idx (Name "p") 0) "pt") (idx (Name "p") 1)).

Example chain1_is_compiled_away :
  exists q' c', simplify 400 0 chain1 = Ok (q', c') /\ pkg_free q' = true /\ pkg_free chain1 = false.
Proof. eexists; eexists; repeat split; vm_compute; reflexivity. Qed.

Example chain2_is_compiled_away :
  exists q' c', simplify 400 0 chain2 = Ok (q', c') /\ pkg_free q' = true /\ pkg_free chain2 = false.
Proof. eexists; eexists; repeat split; vm_compute; reflexivity. Qed.

(* ---------- the chain-level theorem ---------- *)
Theorem packaging_eliminated : forall (B : backend), backend_ok B ->
  forall fuel c q q' c' s, wfq q = true -> below c q -> bok B q -> mentions "First" q = false ->
    has_shape (fun _ => SA) q s -> simplify fuel c q = Ok (q', c') -> canon s q'.
Proof. exact SimplifyShape.packaging_eliminated. Qed.
Print Assumptions packaging_eliminated.

Theorem packaging_eliminated_atom : forall (B : backend), backend_ok B ->
  forall fuel c q q' c', wfq q = true -> below c q -> bok B q -> mentions "First" q = false ->
    has_shape (fun _ => SA) q SA -> simplify fuel c q = Ok (q', c') -> nopkg q' = true.
Proof. exact SimplifyShape.packaging_eliminated_atom. Qed.
Print Assumptions packaging_eliminated_atom.

(* the invariant, for every stack the traversal can be in *)
Theorem shape_invariant : forall (B : backend), backend_ok B ->
  forall fuel st bd c e e' c' G s,
    simp fuel st bd c e = Ok (e', c') -> stack_ok B c st -> pre B st c e -> stack_shapes G st -> has_shape G e s -> canon s e'.
Proof. exact SimplifyShape.shape_sound. Qed.
Print Assumptions shape_invariant.

(* non-vacuity: the four-stage chain
     Select(SelectMany(Where(Select(ds, e: {'j': e.jets, 'm': (e.met, e.run)}), d: d.m[0] > 10),
                       d: Select(d.j, j: (j.pt, d.m[1]))), p: p[0] + p[-1])
   is typable at the atom shape, meets the hypotheses, and its simplification has no package node
   (obtained through the theorem); after three stages the only packages left are the final result *)
Example chain_compiled_away :
  exists q' c', simplify 200 0 ShapeExample.stage4 = Ok (q', c') /\ nopkg q' = true /\ nopkg ShapeExample.stage4 = false.
Proof. exact ShapeExample.stage4_compiled_away. Qed.

Example chain_result_only :
  exists q' c', simplify 200 0 ShapeExample.stage3 = Ok (q', c') /\ canon (SS (ST [SA; SA])) q'.
Proof. exact ShapeExample.stage3_result_only. Qed.

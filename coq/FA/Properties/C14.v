(* C14 - Intermediate tuples and dictionaries are compiled away.

   Statements only; proofs in Proofs/SimplifyPkg.v.  What is proved (for every fuel, stack, counter
   and every sub-term): once the container and the selector have been visited, a constant in-range
   index into a tuple/list literal and a constant key a dict literal defines are replaced by the
   selected component - the projection node and the package disappear; and a name with a pending
   definition (the packaged argument of a fused stage) is replaced by that definition at every use.
   What is NOT proved (kept visible):
       packaging_eliminated :
         forall fuel c q q' c', disciplined_chain q -> reserved c q ->
           simp fuel [[]] [] c (ext q) = Ok (q', c') -> pkg_free_except_result q'.
   The chain-level statement is checked on generated disciplined chains by the node-kind oracle and
   the model/code correspondence (harness/props/c14.py). *)
From FA.Base Require Import PyAst Value Traverse.
From FA.Model Require Import Simplify.
From FA.Proofs Require Import SimplifyFacts SimplifyPkg.

Theorem packaged_argument_reaches_every_use : forall f st bd c x,
  simp (S f) st bd c (Name x) = match stack_lookup x st with Some v => Ok (v, c) | None => Ok (Name x, c) end.
Proof. exact name_step. Qed.
Print Assumptions packaged_argument_reaches_every_use.

Theorem tuple_projection_eliminated : forall f st bd c v s es n c1 c2 x,
  simp f st bd c v = Ok (Tuple es, c1) -> simp f st bd c1 s = Ok (Const (CInt n), c2) ->
  py_index es n = Some x -> (- Z.of_nat (length es) <= n < Z.of_nat (length es))%Z ->
  simp (S f) st bd c (Subscript v s) = Ok (x, c2).
Proof. exact project_tuple_step. Qed.
Print Assumptions tuple_projection_eliminated.

Theorem list_projection_eliminated : forall f st bd c v s es n c1 c2 x,
  simp f st bd c v = Ok (List es, c1) -> simp f st bd c1 s = Ok (Const (CInt n), c2) ->
  py_index es n = Some x -> (- Z.of_nat (length es) <= n < Z.of_nat (length es))%Z ->
  simp (S f) st bd c (Subscript v s) = Ok (x, c2).
Proof. exact project_list_step. Qed.
Print Assumptions list_projection_eliminated.

Theorem dict_subscript_eliminated : forall f st bd c v s ks vs k c1 c2 x,
  simp f st bd c v = Ok (Dict ks vs, c1) -> simp f st bd c1 s = Ok (Const k, c2) ->
  const_key k = true -> length ks = length vs -> dict_scan (rev ks) (rev vs) k = Some x ->
  simp (S f) st bd c (Subscript v s) = Ok (x, c2).
Proof. exact project_dict_step. Qed.
Print Assumptions dict_subscript_eliminated.

Theorem dict_attribute_eliminated : forall f st bd c v a ks vs c1 x,
  is_call_of v "First" = false ->
  simp f st bd c v = Ok (Dict ks vs, c1) -> length ks = length vs -> dict_scan (rev ks) (rev vs) (CStr a) = Some x ->
  simp (S f) st bd c (Attr v a) = Ok (x, c1).
Proof. exact project_attr_step. Qed.
Print Assumptions dict_attribute_eliminated.

(* the selected component is a component of the literal, and the one python selects *)
Theorem projection_selects_a_component : forall es n,
  match seq_project es n with
  | Ok x => In x es /\ py_index es n = Some x
  | IndexErr => (n >= Z.of_nat (length es) \/ n < - Z.of_nat (length es))%Z
  | Crash _ => False
  | OutOfFuel => False
  end.
Proof. exact seq_project_spec. Qed.
Print Assumptions projection_selects_a_component.

(* ---------- non-vacuity: disciplined chains really come out package free ---------- *)
Definition sel (s : expr) (x : string) (b : expr) := function_call "Select" [s; Lambda [x] b].
Definition whr (s : expr) (x : string) (b : expr) := function_call "Where" [s; Lambda [x] b].
Definition many (s : expr) (x : string) (b : expr) := function_call "SelectMany" [s; Lambda [x] b].
Definition idx (e : expr) (n : Z) := Subscript e (Const (CInt n)).

(* ds.Select(e: ((e.a, e.b), {'c': e.met})).Where(t: t[0][0] > 1).Select(t: t[0][1] + t[1].c) *)
Definition chain1 : expr :=
  sel (whr (sel (Name "ds") "e" (Tuple [Tuple [Attr (Name "e") "a"; Attr (Name "e") "b"]; Dict [Const (CStr "c")] [Attr (Name "e") "met"]]))
           "t" (Compare (idx (idx (Name "t") 0) 0) [CGt] [Const (CInt 1)]))
      "t" (BinOp BAdd (idx (idx (Name "t") 0) 1) (Attr (idx (Name "t") 1) "c")).

(* ds.Select(e: (e.jets, e.met)).SelectMany(t: Select(t[0], j: (j, t[1]))).Select(p: p[0].pt + p[1]) *)
Definition chain2 : expr :=
  sel (many (sel (Name "ds") "e" (Tuple [Attr (Name "e") "jets"; Attr (Name "e") "met"]))
            "t" (sel (idx (Name "t") 0) "j" (Tuple [Name "j"; idx (Name "t") 1])))
      "p" (BinOp BAdd (Attr (idx (Name "p") 0) "pt") (idx (Name "p") 1)).

Example chain1_is_compiled_away :
  exists q' c', simplify 400 0 chain1 = Ok (q', c') /\ pkg_free q' = true /\ pkg_free chain1 = false.
Proof. eexists; eexists; repeat split; vm_compute; reflexivity. Qed.

Example chain2_is_compiled_away :
  exists q' c', simplify 400 0 chain2 = Ok (q', c') /\ pkg_free q' = true /\ pkg_free chain2 = false.
Proof. eexists; eexists; repeat split; vm_compute; reflexivity. Qed.
